"""
C16, third round: histories on ONE reused object.

`DataQuerent` / `NodePathParser` (and `BufrMessageQuerent`, which `ScriptRunner` keeps for its lifetime) are meant to
be long-lived: every answer has to be a function of (message, expression) alone, whatever the object was asked before.
The Lean side proves that for the model (`C15_parse_history_independent`, `C16_query_history_independent`: the
parser / querent as an object with `reset`, unbounded induction over the earlier inputs); this module ties the
implementation to it.  For a group of 2-4 decoded messages (the same template stored uncompressed and compressed with
different values / replication counts / subset counts, plus unrelated messages) one history of 60-90 operations
`(message, expression)` is run on

  * one `DataQuerent(NodePathParser())`,
  * one `BufrMessageQuerent()`,
  * one `NodePathParser()` (parse only),

and every answer is compared with the answer of a FRESH object on the same (message, expression) (exact, error
family included) and with the model's `query` (stateless: driver op `query`) / the model's parser OBJECT run over the
same history (driver op `parser-history`, the definition the history theorem is about).  Result objects handed out
earlier are looked at again at the end of the history (a result must not change when the querent is used again).

The expressions of a history:
  valid      child / attribute / descendant paths that exist in one of the messages, with slices and `@` selectors,
             asked on EVERY message of the group (the same expression on consecutive different messages, the same
             message under consecutive different expressions);
  eval-fail  expressions that parse and fail at evaluation time: a step below a value node, a path ending on a
             composite node (`QueryError`), `@[97]` (`IndexError`), a zero step in a component / in the selector
             (`ValueError`);
  rejected   expressions the parser rejects, built per state of its machine and per number of slice elements
             buffered at the moment of the rejection: before `reset()` (empty, bad first character), in the selector
             (`@`, `@[`, `@[1`, `@[1:`, `@[1:2:`, `@[1:2:3:`, `@[1:x]`, `@[1]`, `@[1].A`, `@[1:2:3:4]/A`), after a
             separator (`/`, `//A`, `/A/`, `/[0]`), inside a component slice at element 0 / 1 / 2 / 3 (`/A[`, `/A[1:`,
             `/A[1:2:`, `/A[1:2:3:`, `/A[1:x]`, `/A[:::`), after a slice (`/A[1]x`, `/A[1][0]`, `/A[1:2:3:4]`), each
             behind a valid prefix (selector, 0-2 components) and sometimes with blanks.  A rejected expression is
             followed (85 %) by a valid query WITHOUT selector on a message with several subsets: the place where a
             leftover of the rejected expression (slice buffer, token, id, separator) would show.
What is reported: oracle `history` (reused object differs from a fresh one), correspondence `history-model`
(reused object and fresh object agree with each other but not with the model).  A failing history is shrunk to the
shortest prefix / pair of operations that still shows the difference; the replay holds the messages and the history.
"""
import copy
import random
import time

from harness import core, tables_io
from harness import coder_io as C

MAX_VALUES = 1500      # per subset: the wiring model is quadratic in the subset length


def _Q():
    from harness.props import c16
    return c16


# ---------------------------------------------------------------------------------------------
# expressions
def rejected_exprs(rng, ids, count):
    """-> [(expr, family)]: expressions the parser rejects, spread over the states of its machine"""
    ids = ids or ['001001']

    def i():
        return rng.choice(ids)

    def n():
        return str(rng.choice([0, 1, 1, 2, 3, -1, -2, 5]))

    def on():
        return rng.choice([n(), ''])

    def valid_slice():
        return rng.choice(['', '', '[%s]' % n(), '[%s:%s]' % (on(), on()), '[::%s]' % rng.choice(['2', '-1'])])

    def prefix(selector=True):
        sel = rng.choice(['', '', '@[%s]' % rng.choice(['0', '1']), '@[%s:]' % n(), '@[::-1]']) if selector else ''
        comps = ''.join(rng.choice('/>') + i() + valid_slice() for _ in range(rng.randint(0, 2)))
        return sel + comps

    def q():
        return prefix() + rng.choice('/>') + i()

    fam = {
        'before-reset': lambda: rng.choice(['', ' ', '\t \n', ']', ':', '.' + i(), 'x' + i(), '-1', '[0]', ' ]']),
        'selector:start': lambda: rng.choice(['@', '@x', '@/' + i(), '@@[0]/' + i(), '@]', '@:', '@>' + i(), '@ ']),
        'selector:slice0': lambda: rng.choice(['@[', '@[' + n(), '@[]/' + i(), '@[x]/' + i(), '@[[0]/' + i(), '@[/' + i(),
                                               '@[@', '@[1x:', '@[-]/' + i()]),
        'selector:slice1': lambda: rng.choice(['@[%s:' % n(), '@[%s:x]/%s' % (n(), i()), '@[:', '@[%s:/%s' % (n(), i()),
                                               '@[%s:[' % n(), '@[%s:%s' % (n(), n()), '@[%s:@' % n()]),
        'selector:slice2': lambda: rng.choice(['@[%s:%s:' % (on(), on()), '@[::', '@[%s:%s:x]/%s' % (n(), n(), i()),
                                               '@[%s:%s:%s' % (n(), on(), n()), '@[%s::/' % n()]),
        'selector:slice3': lambda: rng.choice(['@[%s:%s:%s:' % (on(), on(), on()), '@[:::', '@[%s:%s:%s:x]' % (n(), n(), n())]),
        'selector:stop': lambda: rng.choice(['@[%s]' % n(), '@[%s].%s' % (n(), i()), '@[%s]x' % n(), '@[%s][0]/%s' % (n(), i()),
                                             '@[%s]@' % n(), '@[%s:%s]' % (on(), on()), '@[%s]:' % n(), '@[%s]]' % n()]),
        'selector:four': lambda: rng.choice(['@[%s:%s:%s:%s]/%s' % (n(), n(), n(), n(), i()), '@[:::]/' + i(), '@[:::]',
                                             '@[%s:%s:%s:%s]' % (on(), on(), on(), on()), '@[::::]>' + i()]),
        'id:empty': lambda: prefix() + rng.choice(['/', '//' + i(), '>', '/[0]', '/.' + i(), '>>' + i(), '/]', '/:']),
        'id:junk': lambda: q() + rng.choice(['@', ']', ':', '/', '>', '.', '@[0]', '/[1]']),
        'slice0': lambda: q() + rng.choice(['[', '[]', '[x]', '[' + n(), '[/' + i(), '[[', '[@', '[-]', '[1x:2]', '[.']),
        'slice1': lambda: q() + rng.choice(['[%s:' % n(), '[%s:x]' % n(), '[:', '[%s:/%s' % (n(), i()), '[%s:[' % n(),
                                            '[%s:%s' % (n(), n()), '[:x', '[%s:@' % n()]),
        'slice2': lambda: q() + rng.choice(['[%s:%s:' % (on(), on()), '[::', '[%s:%s:x]' % (n(), n()), '[%s::%s' % (n(), n()),
                                            '[%s:%s:/' % (n(), n())]),
        'slice3': lambda: q() + rng.choice(['[%s:%s:%s:' % (on(), on(), on()), '[:::', '[%s:%s:%s:x]' % (n(), n(), n())]),
        'slice:stop': lambda: q() + '[%s]' % n() + rng.choice(['x', '[0]', '@', ']', ':', '0']),
        'slice:four': lambda: q() + rng.choice(['[%s:%s:%s:%s]' % (n(), n(), n(), n()), '[:::]', '[::::]/' + i(),
                                                '[%s:%s:%s:%s]/%s' % (on(), on(), on(), on(), i())]),
    }
    names = sorted(fam)
    out = []
    for k in range(count):
        name = names[k % len(names)] if k < 2 * len(names) else rng.choice(names)
        e = fam[name]()
        if rng.random() < 0.15 and e.strip():
            j = rng.randrange(len(e) + 1)
            e = e[:j] + rng.choice(' \t') + e[j:]
        out.append((e, 'rejected:' + name))
    rng.shuffle(out)
    return out


def eval_fail_exprs(rng, paths, count):
    """expressions that parse and (mostly) fail at evaluation time"""
    Q = _Q()
    out = []
    paths = sorted(paths)
    if not paths:
        return out
    for _ in range(count):
        p = rng.choice(paths)
        comps = Q.split_path(p)
        last = comps[-1][1]
        k = rng.randrange(6)
        if k == 0:
            e = p + '/' + last                       # below a value node / nothing there
        elif k == 1:
            e = p + '.' + last                       # attributes of a node without attributes
        elif k == 2:
            e = Q.join_path(comps[:rng.randint(1, len(comps))])          # may end on a composite node
        elif k == 3:
            e = '@[%d]' % rng.choice([7, 97]) + p     # IndexError
        elif k == 4:
            e = p + '[::0]'                           # ValueError
        else:
            e = '@[::0]' + p
        out.append((e, 'eval-fail'))
    return out


# ---------------------------------------------------------------------------------------------
def _decode(item):
    """item: dict(b, ids, corpus) -> dict(msg, td, n, comp, treq, base) | None"""
    from pybufrkit.decoder import Decoder
    try:
        msg = Decoder().process(item['b'], wire_template_data=False)
    except Exception:  # noqa
        return None
    td = msg.template_data.value
    lens = [len(v) for v in td.decoded_values_all_subsets]
    if lens and max(lens) > MAX_VALUES:
        return None
    try:
        msg.wire()
    except Exception:  # noqa
        return None
    n_sub = msg.n_subsets.value
    comp = bool(msg.is_compressed.value)
    if item.get('corpus'):
        key = msg.table_group_key
        tb, tdd = tables_io.read_group(key.wmo_tables_sn, key.local_tables_sn, key.tables_root_dir)
        treq = tables_io.tables_request(tb, tdd)
    else:
        treq = _Q().group_treq()
    base = {'ids': item['ids'], 'compressed': comp, 'n': n_sub, 'bits': C.data_bits(item['b'])}
    return dict(msg=msg, td=td, n=n_sub, comp=comp, treq=treq, base=base)


def _answer(fn, msg, expr):
    try:
        r = fn(msg, expr)
    except RecursionError:
        return 'err:other', None
    except Exception as e:  # noqa
        return core.err_tag(e), None
    try:
        return (r.subset_indices(), r.all_values()), r
    except Exception as e:  # noqa
        return 'err:other', None


def _path_repr(parser, expr):
    from harness.props.c15 import path_repr
    try:
        return path_repr(parser.parse(expr))
    except Exception as e:  # noqa
        return 'E:' + core.err_tag(e)[4:]


def _parser_state(parser):
    """(state, number of buffered slice elements) of a parser object after a rejection — for the statistics only"""
    try:
        st = getattr(parser, 'current_state', None)
        el = getattr(parser, 'current_slice_elements', None)
        return '%s/%s' % ({None: 'untouched', '': 'start'}.get(st, st), len(el) if el is not None else '-')
    except Exception:  # noqa
        return '?'


def _objects():
    from pybufrkit.dataquery import DataQuerent, NodePathParser
    from pybufrkit.query import BufrMessageQuerent
    return DataQuerent(NodePathParser()), BufrMessageQuerent(), NodePathParser()


def run_history(dec, history, want_model=True):
    """-> (findings, stats).  dec: decoded messages, history: [(message index, expression, family)]"""
    Q = _Q()
    from pybufrkit.dataquery import NodePathParser
    dq, bq, par = _objects()
    findings = []
    stats = {}

    def cnt(k, n=1):
        stats[k] = stats.get(k, 0) + n

    fresh = {}
    reused = []
    held = []
    prev_rejected = False
    for k, (mi, e, fam) in enumerate(history):
        msg = dec[mi]['msg']
        if (mi, e) not in fresh:
            fresh[(mi, e)] = Q.impl_query(msg, e)
        f = fresh[(mi, e)]
        r1, obj1 = _answer(dq.query, msg, e)
        reused.append(r1)
        if not _same_exact(r1, f):
            findings.append({'kind': 'oracle', 'stage': 'history', 'object': 'DataQuerent', 'step': k,
                             'why': 'DataQuerent used before: %s, fresh DataQuerent: %s' % (Q.show(r1), Q.show(f))})
        if e.strip() and not e.lstrip().startswith('%'):
            r2, obj2 = _answer(bq.query, msg, e)
            if not _same_exact(r2, f):
                findings.append({'kind': 'oracle', 'stage': 'history', 'object': 'BufrMessageQuerent', 'step': k,
                                 'why': 'BufrMessageQuerent used before: %s, fresh DataQuerent: %s' % (Q.show(r2), Q.show(f))})
        p1 = _path_repr(par, e)
        p0 = _path_repr(NodePathParser(), e)
        if p1 != p0:
            findings.append({'kind': 'oracle', 'stage': 'history', 'object': 'NodePathParser', 'step': k,
                             'why': 'NodePathParser used before: %s, fresh NodePathParser: %s' % (p1, p0)})
        if obj1 is not None and len(held) < 16 and (k % 5 == 0 or prev_rejected):
            held.append((k, obj1, copy.deepcopy(r1)))
        # statistics
        cnt('history:ops')
        if f == 'err:lib:path':
            cnt('history:rejected')
            cnt('history:rejected-in-state:' + _parser_state(dq.path_parser))
            cnt('history:' + fam if fam.startswith('rejected:') else 'history:rejected:other')
        elif isinstance(f, str):
            cnt('history:evaluation-fails:' + f)
        else:
            cnt('history:answered')
            if prev_rejected:
                cnt('history:answered-right-after-rejected')
                if not e.lstrip().startswith('@') and dec[mi]['n'] > 1:
                    cnt('history:unselected-multi-subset-right-after-rejected')
        prev_rejected = (f == 'err:lib:path')
    # results handed out earlier must not have changed
    for k, obj, snap in held:
        try:
            now = (obj.subset_indices(), obj.all_values())
        except Exception as e:  # noqa
            now = core.err_tag(e)
        if not _same_exact(now, snap):
            findings.append({'kind': 'oracle', 'stage': 'history', 'object': 'QueryResult', 'step': len(history) - 1, 'held': k,
                             'why': 'the result of step %d read again after the history: %s, when it was returned: %s'
                                    % (k, Q.show(now), Q.show(snap))})
            break
    cnt('history:results-held', len(held))
    # the model: a function of (message, expression) alone
    if want_model:
        for mi, d in enumerate(dec):
            exprs = sorted(set(e for (m_, e, _) in history if m_ == mi))
            if not exprs:
                continue
            mr = core.Driver().batch([d['treq'], dict(d['base'], op='query', paths=exprs)], timeout=1200)[1]
            if mr.get('wire') != 'ok':
                cnt('history:model-does-not-wire')
                continue
            by = {}
            for e, m in zip(exprs, mr['res']):
                by[e] = ('err:' + m['parse']['err']) if m.get('parse') != 'ok' else Q.model_result(m['q'])
            bad = set(f_['step'] for f_ in findings)
            for k, (m_, e, _) in enumerate(history):
                if m_ != mi or k in bad:
                    continue
                cnt('history:compared-with-model')
                if not Q.same_result(reused[k], by[e]):
                    # F16c on a tree without the fix: compressed data, empty selection, the implementation raises
                    f16c = bool(d['comp'] and by[e] == ([], []) and isinstance(reused[k], str))
                    if f16c and any(g.get('empty_selection_on_compressed') for g in findings):
                        continue
                    findings.append({'kind': 'correspondence', 'stage': 'history-model', 'object': 'DataQuerent', 'step': k,
                                     'empty_selection_on_compressed': f16c,
                                     'why': 'DataQuerent (used before, a fresh one answers the same) %s, model %s' % (Q.show(reused[k]), Q.show(by[e]))})
                    if not f16c:
                        break
        # the model's parser OBJECT over the same sequence of expressions
        ph = core.Driver().batch([{'op': 'parser-history', 'exprs': [e for (_, e, _) in history]}])[0]
        par2 = NodePathParser()
        for k, ((_, e, _), m) in enumerate(zip(history, ph['res'])):
            p = _path_repr(par2, e)
            cnt('history:parser-object-steps')
            if p != m['parse']:
                findings.append({'kind': 'correspondence', 'stage': 'history-model', 'object': 'NodePathParser', 'step': k,
                                 'why': 'NodePathParser used before %s, model parser object %s' % (p, m['parse'])})
                break
            if m['parse'].startswith('E:') and e.strip():
                # informative only: what the rejected expression leaves behind (state, buffered elements)
                left = _parser_state(par2)
                if not left.startswith('untouched'):
                    cnt('history:leftover-state-agrees' if left == m['left'] else 'history:leftover-state-differs')
    return findings, stats


def _same_exact(a, b):
    """exact equality of two answers of the implementation (error family included)"""
    Q = _Q()
    if isinstance(a, str) or isinstance(b, str):
        return a == b
    from harness import views_io as V
    return a[0] == b[0] and V.strict_equal(a[1], b[1])


# ---------------------------------------------------------------------------------------------
def build_history(rng, dec, n_ops):
    Q = _Q()
    valid = []          # (expr, family)
    ids = set()
    per_msg = []
    for d in dec:
        td = d['td']
        paths = set()
        for i in ([0] if d['comp'] else list(range(min(d['n'], 3)))):
            paths |= Q.tree_paths(td.decoded_nodes_all_subsets[i], depth=5)
        labels = set(str(x) for i in range(min(d['n'], 3)) for x in td.decoded_descriptors_all_subsets[i])
        qs = Q.gen_queries(rng, paths, labels, d['n'], 14)
        mine = [(sel + body, 'valid:' + kind) for (kind, sel, body) in qs]
        mine += eval_fail_exprs(rng, paths, 4)
        per_msg.append(mine)
        valid += mine
        for p in list(paths)[:40]:
            for _, i_ in Q.split_path(p):
                ids.add(i_)
    ids = sorted(ids)
    rng.shuffle(ids)
    rejected = rejected_exprs(rng, ids[:8], max(34, n_ops // 2))
    multi = [mi for mi, d in enumerate(dec) if d['n'] > 1]
    unselected = [[x for x in mine if not x[0].startswith('@') and x[1].startswith('valid')] for mine in per_msg]
    hist = []
    after_rejected = False
    ri = 0
    while len(hist) < n_ops:
        if after_rejected and rng.random() < 0.85 and multi:
            mi = rng.choice(multi)
            pool = unselected[mi] or per_msg[mi]
            if pool:
                e, fam = rng.choice(pool)
                hist.append((mi, e, fam))
                after_rejected = False
                continue
        r = rng.random()
        if r < 0.42 and ri < len(rejected):
            e, fam = rejected[ri]
            ri += 1
            hist.append((rng.randrange(len(dec)), e, fam))
            after_rejected = True
            continue
        after_rejected = False
        if r < 0.75:
            # the same expression on every message of the group, one after the other
            e, fam = rng.choice(valid)
            order = list(range(len(dec)))
            rng.shuffle(order)
            for mi in order[:rng.randint(2, len(dec)) if len(dec) > 1 else 1]:
                hist.append((mi, e, fam))
        else:
            # several expressions on the same message
            mi = rng.randrange(len(dec))
            for _ in range(rng.randint(1, 3)):
                if per_msg[mi]:
                    e, fam = rng.choice(per_msg[mi])
                    hist.append((mi, e, fam))
    return hist[:n_ops + 3]


def shrink(dec, history, f):
    """the shortest sub-history (one earlier operation + the failing one, else a prefix with operations dropped)
    that still shows a difference of the same object at its last operation"""
    k = f['step']
    held = f.get('held')
    target = f['object']

    def fails(h):
        fs, _ = run_history(dec, h, want_model=False)
        for g in fs:
            if g['object'] == target and (g['step'] == len(h) - 1):
                return g
        return None

    if f['stage'] != 'history':
        return history[:k + 1], f
    best, bestf = history[:k + 1], f
    tries = 0
    if held is not None:
        for j in range(held + 1, len(history)):
            if tries >= 30:
                break
            tries += 1
            g = fails([history[held], history[j]])
            if g:
                return [history[held], history[j]], g
        return history, f
    for j in range(k - 1, -1, -1):
        if tries >= 40:
            break
        tries += 1
        g = fails([history[j], history[k]])
        if g:
            return [history[j], history[k]], g
    # greedy removal
    h = list(best)
    i = 0
    while i < len(h) - 1 and tries < 120:
        tries += 1
        h2 = h[:i] + h[i + 1:]
        g = fails(h2)
        if g:
            h, bestf = h2, g
        else:
            i += 1
    return h, bestf


def evaluate(task):
    """worker.  task: dict(hist=True, items=[dict(b, ids, corpus)], seed, n_ops[, history=[[mi, expr], ..]])"""
    t0 = time.time()
    rng = random.Random(task['seed'])
    dec = []
    kept = []
    for it in task['items']:
        d = _decode(it)
        if d is not None:
            dec.append(d)
            kept.append(it)
    if not dec:
        return {'skip': 'history:no-message', '_time': time.time() - t0}
    if task.get('history') is not None:
        history = [(mi, e, 'replay') for (mi, e) in task['history']]
        if any(mi >= len(dec) for (mi, _, _) in history):
            return {'skip': 'history:replay-message-missing', '_time': time.time() - t0}
    else:
        history = build_history(rng, dec, task['n_ops'])
    findings, stats = run_history(dec, history)
    reports = []
    done = set()
    for f in findings:
        key = (f['stage'], f['object'], bool(f.get('empty_selection_on_compressed')))
        if key in done:
            continue
        done.add(key)
        h, g = shrink(dec, history, f) if task.get('history') is None else (history, f)
        reports.append({'kind': f['kind'], 'stage': f['stage'], 'object': f['object'], 'why': g['why'],
                        'empty_selection_on_compressed': bool(f.get('empty_selection_on_compressed')),
                        'history': [[mi, e] for (mi, e, _) in h], 'full_length': len(history)})
    stats['history:groups'] = 1
    stats['history:messages'] = len(dec)
    if len(set(tuple(it['ids']) for it in kept)) < len(kept):
        stats['history:groups-with-two-messages-of-one-template'] = 1
    if any(d['comp'] for d in dec) and not all(d['comp'] for d in dec):
        stats['history:groups-mixing-compressed-and-uncompressed'] = 1
    return {'hist': True, 'reports': reports, 'stats': stats, 'n_ops': len(history), 'items': kept,
            'sample': [[mi, e] for (mi, e, _) in history[:6]], '_time': time.time() - t0}


def signature(rep):
    return {'kind': rep['kind'], 'stage': rep['stage'], 'object': rep['object'],
            'empty_selection_on_compressed': bool(rep.get('empty_selection_on_compressed'))}


def absorb(ctx, task, res):
    if 'harness_error' in res:
        raise core.MachineryError('history evaluation failed: %s' % res['harness_error'])
    if 'skip' in res:
        ctx.count('skipped:' + res['skip'])
        return
    for k, v in res['stats'].items():
        ctx.count(k, v)
    for i in range(res['n_ops']):
        ctx.case({'history': task['seed'], 'op': i}, nontrivial=True, sample=False)
    ctx.traces += res['n_ops']
    if len(ctx.samples) < 6 and res.get('sample'):
        ctx.samples.append({'history (message index, expression)': res['sample']})
    for rep in res['reports']:
        items = res['items']
        replay = {'history': rep['history'], 'object': rep['object'],
                  'items': [{'hex': it['b'].hex() if len(it['b']) < 20000 else None, 'ids': it['ids'], 'corpus': bool(it.get('corpus')),
                             'file': it.get('file')} for it in items]}
        steps = ' ; '.join('msg%d %r' % (mi, e) for mi, e in rep['history'][-4:])
        ctx.violation('%s %s on one reused %s: after [%s] (%d operations): %s' % (
            rep['kind'], rep['stage'], rep['object'], steps, len(rep['history']), rep['why']), replay, signature=signature(rep))
