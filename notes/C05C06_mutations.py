"""Planted-mutation self-test for C05 and C06:
     python notes/C05C06_mutations.py <repo worktree> <verif worktree> [C05|C06] [M1 N3 ...]
Every mutation must give exit 1 and a VIOLATION line in the quick tier; files are restored afterwards."""
import subprocess, sys, os
REPO, VERIF = sys.argv[1], sys.argv[2]
DEC, ENC, COD, TD = (REPO + '/pybufrkit/' + f for f in ('decoder.py', 'encoder.py', 'coder.py', 'templatedata.py'))
ONEBIT = "                if diff == 1 and nbits_diff == 1:\n                    diff = None\n"
MUTS = [
 # ---- C05
 ('C05', 'M1 decoder, numeric column: the 1-bit-increment rule removed', [(DEC, ONEBIT, "", 1)]),
 ('C05', 'M2 decoder, code/flag column: the 1-bit-increment rule removed', [(DEC, ONEBIT, "", 2)]),
 ('C05', 'M3 decoder, numeric column: read_uint_or_none(nbits_diff) -> read_uint', [(DEC, "diff = bit_reader.read_uint_or_none(nbits_diff)", "diff = bit_reader.read_uint(nbits_diff)", 1)]),
 ('C05', 'M4 decoder, code/flag column: read_uint_or_none(nbits_diff) -> read_uint', [(DEC, "diff = bit_reader.read_uint_or_none(nbits_diff)", "diff = bit_reader.read_uint(nbits_diff)", 2)]),
 ('C05', 'M5 decoder, character column: NUL base never blanked', [(DEC, "if nbits_diff != 0 and min_value in (", "if False and min_value in (", 1)]),
 ('C05', 'M6 decoder: code/flag re-check of the field\'s missing value dropped', [(DEC, "if descriptor.nbits > 1 and value == NUMERIC_MISSING_VALUES[descriptor.nbits]:", "if False:", 1)]),
 ('C05', 'M7 encoder: all_equal computed on the first two subsets only', [(ENC, "all_equal = values.count(values[0]) == state.n_subsets", "all_equal = values[:2].count(values[0]) == min(2, state.n_subsets)", 1)]),
 ('C05', 'M8 F12 reverted (base blanked also without increments)', [(DEC, "if nbits_diff != 0 and min_value in (", "if min_value in (", 1)]),
 ('C05', 'M9 encoder, numeric column: a missing entry written as increment 0', [(ENC, "                if value is None:\n                    value = NUMERIC_MISSING_VALUES[nbits_diff]\n                else:\n                    value -= min_value\n                values[idx] = value\n\n        bit_writer.write_uint(min_value, nbits_min_value)\n        bit_writer.write_uint(nbits_diff, NBITS_FOR_NBITS_DIFF)\n\n        if nbits_diff:\n            for value in values:\n                bit_writer.write_uint(value, nbits_diff)\n\n    def process_string(", "                if value is None:\n                    value = 0\n                else:\n                    value -= min_value\n                values[idx] = value\n\n        bit_writer.write_uint(min_value, nbits_min_value)\n        bit_writer.write_uint(nbits_diff, NBITS_FOR_NBITS_DIFF)\n\n        if nbits_diff:\n            for value in values:\n                bit_writer.write_uint(value, nbits_diff)\n\n    def process_string(", 1)]),
 ('C05', 'M10 decoder, numeric all-equal column: reference value not added', [(DEC, "        elif nbits_diff == 0:\n            value = min_value\n            if refval:\n                value += refval\n", "        elif nbits_diff == 0:\n            value = min_value\n", 1)]),
 ('C05', 'M11 decoder: the 1-bit rule applied to 2-bit increments as well (numeric)', [(DEC, "if diff == 1 and nbits_diff == 1:", "if diff == 1 and nbits_diff <= 2:", 1)]),
 ('C05', 'M12 decoder, numeric general column: scale applied to the minimum only when the increment is zero', [(DEC, "                    value = min_value + diff\n                    if refval:\n                        value += refval\n                    if scale_powered != 1:\n                        value /= scale_powered\n", "                    value = min_value + diff\n                    if refval:\n                        value += refval\n                    if scale_powered != 1 and diff != 2:\n                        value /= scale_powered\n", 1)]),
 ('C05', 'M13 decoder, code/flag column: minimum read with read_uint (all-ones minimum not mapped to missing)', [(DEC, "min_value = bit_reader.read_uint_or_none(nbits_min_value)", "min_value = bit_reader.read_uint(nbits_min_value)", 2)]),
 ('C05', 'M14 encoder, character column: a missing entry next to text written as blanks', [(ENC, "                if value is None:\n                    value = '\\xff' * nbytes_diff", "                if value is None:\n                    value = ' ' * nbytes_diff", 1)]),
 ('C05', 'M15 decoder, new reference value column: value registered before the sign is applied (read_uint)', [(DEC, "        min_value = bit_reader.read_int(nbits_min_value)", "        min_value = bit_reader.read_uint(nbits_min_value)", 1)]),
 # ---- C06
 ('C06', 'N1 new_refvals not reset per subset', [(COD, "self.new_refvals = {}  # 2 03 255 to conclude, not cancel", "self.new_refvals = getattr(self, 'new_refvals', {})", 1)]),
 ('C06', 'N2 nbits_offset (201) not reset per subset', [(COD, "self.nbits_offset = 0  # 201", "self.nbits_offset = getattr(self, 'nbits_offset', 0)", 1)]),
 ('C06', 'N3 back references kept across subsets', [(COD, "self.back_reference_boundary = 0\n        self.back_referenced_descriptors = None", "self.back_reference_boundary = 0\n        self.back_referenced_descriptors = getattr(self, 'back_referenced_descriptors', None)", 1)]),
 ('C06', 'N4 idx_value not reset in the encoder', [(ENC, "                state.idx_value = 0\n", "", 1), (COD, "        # Index to value is only needed for encoder\n        self.idx_value = 0\n", "", 1)]),
 ('C06', 'N5 data_not_present_count (221) not reset', [(COD, "self.data_not_present_count = 0  # 221", "self.data_not_present_count = getattr(self, 'data_not_present_count', 0)", 1)]),
 ('C06', 'N6 skipped-local width (206) not reset', [(COD, "self.nbits_of_skipped_local_descriptor = 0  # 206", "self.nbits_of_skipped_local_descriptor = getattr(self, 'nbits_of_skipped_local_descriptor', 0)", 1)]),
 ('C06', 'N7 associated-field stack (204) not reset', [(COD, "self.nbits_of_associated = []  # 204", "self.nbits_of_associated = getattr(self, 'nbits_of_associated', [])", 1)]),
 ('C06', 'N8 QA-info status not reset', [(COD, "self.status_qa_info_follows = QA_INFO_NA  # 222", "self.status_qa_info_follows = getattr(self, 'status_qa_info_follows', QA_INFO_NA)", 1)]),
 ('C06', 'N9 bitmap definition state not reset', [(COD, "self.bitmap_definition_state = BITMAP_NA", "self.bitmap_definition_state = getattr(self, 'bitmap_definition_state', BITMAP_NA)", 1)]),
 ('C06', 'N10 bitmap links of every subset stored under subset 0', [(COD, "self.bitmap_links = self.bitmap_links_all_subsets[idx_subset]", "self.bitmap_links = self.bitmap_links_all_subsets[0]", 1)]),
 ('C06', 'N11 F4b reverted (meaning nodes of the previous subset kept while wiring)', [(TD, "                if hasattr(self, name):\n                    delattr(self, name)", "                pass", 1)]),
 ('C06', 'N12 new_nbytes (208) not reset', [(COD, "self.new_nbytes = 0  # 208", "self.new_nbytes = getattr(self, 'new_nbytes', 0)", 1)]),
 ('C06', 'N13 207 modifier not reset', [(COD, "        self.bsr_modifier = BSRModifier(\n            nbits_increment=0, scale_increment=0, refval_factor=1\n        )  # 207", "        self.bsr_modifier = getattr(self, 'bsr_modifier', BSRModifier(\n            nbits_increment=0, scale_increment=0, refval_factor=1\n        ))  # 207", 1)]),
 ('C06', 'N14 wiring: 204 stack not reset per subset', [(TD, "self.nbits_associated_list = []  # 204 YYY", "self.nbits_associated_list = getattr(self, 'nbits_associated_list', [])", 1)]),
 ('C06', 'N15 wiring: 221 count not reset per subset', [(TD, "            self.data_not_present_count = 0  # 221\n            self.waiting_for_qa_info_meaning", "            self.data_not_present_count = getattr(self, 'data_not_present_count', 0)\n            self.waiting_for_qa_info_meaning", 1)]),
 ('C06', 'N16 width of a new reference value (203YYY definition mode) not reset', [(COD, "self.nbits_of_new_refval = 0  # 203", "self.nbits_of_new_refval = getattr(self, 'nbits_of_new_refval', 0)", 1)]),
 ('C06', 'N17 bitmapped descriptors / iterator kept (237000 in a later subset re-uses the bitmap of the previous one)', [(COD, "        self.bitmapped_descriptors = None\n        self.bitmap_definition_state", "        self.bitmapped_descriptors = getattr(self, 'bitmapped_descriptors', None)\n        self.bitmap_definition_state", 1), (COD, "        self.next_bitmapped_descriptor = None\n", "        self.next_bitmapped_descriptor = getattr(self, 'next_bitmapped_descriptor', None)\n", 1)]),
 ('C06', 'N18 wiring: QA waiting flag not reset per subset', [(TD, "            self.waiting_for_qa_info_meaning = False\n            self.waiting_for_1st_order_stats_meaning = False", "            self.waiting_for_qa_info_meaning = getattr(self, 'waiting_for_qa_info_meaning', False)\n            self.waiting_for_1st_order_stats_meaning = False", 1)]),
 ('C06', 'N19 decoder: scale_offset (202) not reset', [(COD, "self.scale_offset = 0  # 202", "self.scale_offset = getattr(self, 'scale_offset', 0)", 1)]),
]


def nth_replace(text, a, b, nth):
    pos = -1
    for _ in range(nth):
        pos = text.find(a, pos + 1)
        if pos < 0:
            return None
    return text[:pos] + b + text[pos + len(a):]


args = sys.argv[3:]
props = [a for a in args if a in ('C05', 'C06')] or ['C05', 'C06']
sel = [a for a in args if a not in ('C05', 'C06')]
for prop, name, edits in MUTS:
    if prop not in props or (sel and name.split(' ')[0] not in sel):
        continue
    orig = {}
    ok = True
    for f, a, b, nth in edits:
        orig.setdefault(f, open(f).read())
    new = dict(orig)
    for f, a, b, nth in edits:
        t = nth_replace(new[f], a, b, nth)
        if t is None or a == b:
            print('PATTERN PROBLEM', name, f)
            ok = False
            break
        new[f] = t
    if not ok:
        continue
    try:
        for f in new:
            open(f, 'w').write(new[f])
        p = subprocess.run(['./check', prop, '--tier', 'quick'], cwd=VERIF, env=dict(os.environ, VERIF_REPO=REPO),
                           stdout=subprocess.PIPE, stderr=subprocess.STDOUT, text=True)
    finally:
        for f in orig:
            open(f, 'w').write(orig[f])
    lines = p.stdout.split('\n')
    viol = [i for i, l in enumerate(lines) if l.startswith('VIOLATION')]
    det = lines[viol[0] + 1].strip()[:170] if viol else ''
    nf = sum(1 for i in viol if 'no-failing-input-found' in lines[i])
    print('%-4s %-100s rc=%d violations=%d (without failing input: %d)\n        %s' % (prop, name, p.returncode, len(viol), nf, det))
    sys.stdout.flush()
    if p.returncode == 2:
        print(p.stdout[-1500:])
