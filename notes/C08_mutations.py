"""
Mutation self-test of the C08 check: each planted change is applied to a scratch copy of the repo
(VERIF_REPO points at it), the quick check must exit 1 with a VIOLATION line.
    /venv/bin/python notes/C08_mutations.py [repo]          (run from the verif worktree)
"""
import os
import shutil
import subprocess
import sys
from concurrent.futures import ThreadPoolExecutor

VERIF = os.path.dirname(os.path.dirname(os.path.abspath(__file__)))
REPO = sys.argv[1] if len(sys.argv) > 1 else os.environ.get('VERIF_REPO', '/repo')
TC = 'pybufrkit/templatecompiler.py'

MUTATIONS = [
    ('loop-repeat-evaluated-once', TC,
     "                repeat = getattr(coder, statement.repeat.method_name)(state)\n",
     "                if not hasattr(statement, '_r'):\n                    statement._r = getattr(coder, statement.repeat.method_name)(state)\n                repeat = statement._r\n"),
    ('state-properties-not-applied', TC,
     "            if statement.state_properties is not None:\n",
     "            if statement.state_properties is not None and False:\n"),
    ('cache-key-without-table-group', TC,
     "            tuple(template.original_descriptor_ids),\n            table_group.key\n",
     "            tuple(template.original_descriptor_ids),\n"),
    ('eviction-removed', TC,
     "                    self.cache.popitem()\n",
     "                    pass\n"),
    ('eviction-of-oldest-instead-of-newest', TC,
     "                    self.cache.popitem()\n",
     "                    self.cache.pop(next(iter(self.cache)))\n"),
    ('scale-resolved-without-202', TC,
     "            CoderMethodCall(get_func_name(), (descriptor, nbits, scale_powered, refval))\n",
     "            CoderMethodCall(get_func_name(), (descriptor, nbits, 1.0 * 10 ** descriptor.scale, refval))\n"),
    ('new-refval-deferred-lookup-dropped', TC,
     "        state.new_refvals[descriptor.id] = None  # Actual value will be decided at runtime\n",
     "        pass\n"),
    ('F5-reintroduced', TC, "            'new_nbytes': state.new_nbytes,\n", "            'new_bytes': state.new_nbytes,\n"),
    ('F6-reintroduced', TC,
     "        state_properties = dict(state_properties, bsr_modifier=BSRModifier(*state_properties['bsr_modifier']))\n",
     "        pass\n"),
    ('F7b-reintroduced', TC, "            'nbits_of_associated': list(state.nbits_of_associated),\n", ""),
    ('031031-increment-recorded-as-reset', TC,
     "            state.add_statement(State031031Increment())\n",
     "            state.add_statement(State031031Reset())\n"),
    ('cache-limit-off-by-one', TC,
     "                if len(self.cache) >= self.cache_max:\n",
     "                if len(self.cache) > self.cache_max:\n"),
]


def run_one(m):
    name, path, old, new = m
    d = '/tmp/w/c08/mut/' + name
    if os.path.exists(d):
        shutil.rmtree(d)
    shutil.copytree(REPO, d, ignore=shutil.ignore_patterns('.git', '__pycache__', '*.pyc'))
    p = os.path.join(d, path)
    s = open(p).read()
    if old not in s:
        return name, 'NOT-APPLICABLE', ''
    open(p, 'w').write(s.replace(old, new, 1))
    env = dict(os.environ, VERIF_REPO=d)
    r = subprocess.run(['./check', 'C08', '--tier', 'quick'], cwd=VERIF, env=env, stdout=subprocess.PIPE, stderr=subprocess.STDOUT, text=True)
    viol = [l for l in r.stdout.split('\n') if l.startswith('VIOLATION')]
    first = ''
    lines = r.stdout.split('\n')
    for i, l in enumerate(lines):
        if l.startswith('VIOLATION') and i + 1 < len(lines):
            first = lines[i + 1].strip()[:160]
            break
    shutil.rmtree(d)
    return name, ('CAUGHT' if r.returncode == 1 and viol else 'MISSED rc=%d' % r.returncode), first


if __name__ == '__main__':
    with ThreadPoolExecutor(6) as ex:
        res = list(ex.map(run_one, MUTATIONS))
    for name, verdict, first in res:
        print('%-40s %s   %s' % (name, verdict, first))
    print('%d/%d caught' % (sum(1 for r in res if r[1] == 'CAUGHT'), len(res)))
