"""
Candidate finding (C03, not in KNOWN_FINDINGS.json): a delayed replication factor equal to the all-ones pattern of
its field (031001: 255, 031002: 65535) is ACCEPTED by the Encoder - it writes the factor and all 255 / 65535
repetitions - but the Decoder reads the factor as missing and refuses the message the Encoder has just produced
(PyBufrKitError 'Delayed replication factor must be >= 0: got (None)'), compressed or not.  254 round-trips, 256 is
refused by the bit writer.  Nothing is altered silently (the failure is a library error), so the C03 check records the
case (`observed:undecodable-factor-allones` in the evidence) and does not report it; it reports it as KNOWN-FINDING as soon
as KNOWN_FINDINGS.json lists an open finding with signature {"stage": "sweep", "kind": "undecodable-factor-allones"}.
Candidate repair: `CoderState.get_value_for_delayed_replication_factor` (encoder side) refuses a factor that equals
NUMERIC_MISSING_VALUES[nbits of the factor] like it refuses None.
    /venv/bin/python notes/C03_factor_allones.py        (run from the verif worktree; exit 1 while the behaviour is there)
"""
import json
import os
import sys

sys.path.insert(0, os.path.dirname(os.path.dirname(os.path.abspath(__file__))))
from harness import core  # noqa: E402,F401  (puts the repo on sys.path)
from harness import coder_io as C  # noqa: E402
from pybufrkit.decoder import Decoder  # noqa: E402
from pybufrkit.encoder import Encoder  # noqa: E402


def roundtrip(ids, vals, compressed):
    js = C.make_message_json(ids, vals, compressed, edition=4)
    try:
        b = Encoder().process(json.loads(json.dumps(js)), wire_template_data=False).serialized_bytes
    except Exception as e:  # noqa
        return 'encoder refuses: %s' % type(e).__name__
    try:
        m = Decoder().process(b, wire_template_data=False)
    except Exception as e:  # noqa
        return 'encoder accepts, DECODER REFUSES: %s: %s' % (type(e).__name__, str(e)[:70])
    return 'round trip ok (%d values)' % len(m.template_data.value.decoded_values_all_subsets[0])


bad = 0
for f in (254, 255, 256):
    for comp in (False, True):
        vals = [[f] + [1] * f] * (2 if comp else 1)
        r = roundtrip([101000, 31001, 1001], vals, comp)
        print('031001 factor %d %s: %s' % (f, 'compressed' if comp else 'uncompressed', r))
        bad += 'DECODER REFUSES' in r
sys.exit(1 if bad else 0)
