import sys, json
sys.path.insert(0, sys.argv[1])
from pybufrkit.encoder import Encoder
from pybufrkit.decoder import Decoder
def msg(comp):
    return [["BUFR",0,4],[0,0,98,0,0,False,"0000000",2,4,0,33,0,2020,5,6,7,8,9],[0,"00000000",2,True,comp,"000000",[1026]],[0,"00000000",[["\0"*8],["\0"*8]]],["7777"]]
for comp in (False, True):
    b = Encoder().process(json.dumps(msg(comp))).serialized_bytes
    m = Decoder().process(b)
    print('compressed' if comp else 'uncompressed', m.template_data.value.decoded_values_all_subsets)
