"""F24: compressed data whose delayed replication factor is MISSING (or different) in a subset other than the first.

usage: /venv/bin/python notes/F24_repro.py [<repo>]      (default /repo)
exit 1 while the defect is present, 0 when repaired.

The data section is assembled bit by bit (pybufrkit's own Encoder is also tried on the same values, see the
last part).  Template `101000 031001 001001`, 2 subsets, table version 33 (031001: 8 bits, 001001: 7 bits).

  column 031001: minimum 1 (8 bits), increment width 1 (6 bits), increments `0` `1`   -> subset 0: 1, subset 1: missing
  column 001001: minimum 9 (7 bits), increment width 0 (6 bits)                      -> 9, 9

FM 94 (regulation 94.6.3, note on data compression): a delayed replication factor of compressed data is the same in
all subsets.  What the properties say: C09 (every decoded message renders in the four formats and each converts back
to the flat JSON), C05 (the same values uncompressed give the same result: uncompressed, a missing factor is refused
with 'Delayed replication factor must be >= 0: got (None)').
"""
import sys
import json

REPO = sys.argv[1] if len(sys.argv) > 1 else '/repo'
sys.path.insert(0, REPO)

from pybufrkit.decoder import Decoder            # noqa: E402
from pybufrkit.encoder import Encoder            # noqa: E402
from pybufrkit.errors import PyBufrKitError      # noqa: E402
from pybufrkit.renderer import (FlatTextRenderer, FlatJsonRenderer,          # noqa: E402
                                NestedTextRenderer, NestedJsonRenderer)

bad = []


def note(ok, text):
    print(('ok      ' if ok else 'DEFECT  ') + text)
    if not ok:
        bad.append(text)


def message(ids, valss, compressed):
    return [["BUFR", 0, 4],
            [0, 0, 98, 0, 0, False, "0000000", 2, 4, 0, 33, 0, 2020, 5, 6, 7, 8, 9],
            [0, "00000000", len(valss), True, compressed, "000000", list(ids)],
            [0, "00000000", valss],
            ["7777"]]


def u(v, n):
    return '{:0{}b}'.format(v, n)


def with_data(b, bits):
    """edition-4 message `b` (no section 2) with the content of section 4 replaced by `bits`"""
    pos = 8
    for _ in (1, 3):
        pos += int.from_bytes(b[pos:pos + 3], 'big')
    nb = (len(bits) + 7) // 8
    body = int(bits + '0' * (nb * 8 - len(bits)), 2).to_bytes(nb, 'big')
    new = b[:pos] + (4 + nb).to_bytes(3, 'big') + b'\0' + body + b'7777'
    return new[:4] + len(new).to_bytes(3, 'big') + new[7:]


def decode(b, compiled):
    dec = Decoder(compiled_template_cache_max=4) if compiled else Decoder()
    if compiled:      # the first message compiles the template, the second runs the compiled one
        try:
            dec.process(b)
        except Exception:      # noqa
            pass
    return dec.process(b)


def outcome(f):
    try:
        return 'ok', f()
    except PyBufrKitError as e:
        return 'lib', '%s: %s' % (type(e).__name__, e)
    except Exception as e:     # noqa
        return 'other', '%s: %s' % (type(e).__name__, e)


def column(minimum, nbits, incs):
    """one compressed integer column: minimum, 6-bit increment width, increments (None = all ones)"""
    w = 0 if incs is None else incs[0]
    s = u(minimum, nbits) + u(w, 6)
    if w:
        for d in incs[1]:
            s += '1' * w if d is None else u(d, w)
    return s


IDS = [101000, 31001, 1001]
base = Encoder().process(json.dumps(message(IDS, [[1, 9], [1, 9]], True))).serialized_bytes

CASES = [
    # name, factor column (8 bits), what the regulation / the properties ask
    ('factor missing in subset 1 only', column(1, 8, (1, [0, None])), 'refuse'),
    ('factor missing in subset 0 only', column(1, 8, (1, [None, 0])), 'refuse'),
    ('factor differs (1, 2)',           column(1, 8, (2, [0, 1])),    'refuse'),
    ('factor missing in all subsets',   column(255, 8, None),         'refuse'),
    ('factor equal (1, 1), wide form',  column(1, 8, (2, [0, 0])),    'accept'),
]

print('repo:', REPO)
for compiled in (False, True):
    for name, fcol, expect in CASES:
        b = with_data(base, fcol + column(9, 7, None))
        kind, res = outcome(lambda: decode(b, compiled))
        tag = '%s, %s walk' % (name, 'compiled' if compiled else 'plain')
        if expect == 'accept':
            note(kind == 'ok', '%s: decodes (%s)' % (tag, kind))
            continue
        if kind != 'ok':
            note(kind == 'lib', '%s: refused with %s' % (tag, res))
            continue
        msg = res
        vals = msg.template_data.value.decoded_values_all_subsets
        note(False, '%s: ACCEPTED, values %r' % (tag, vals))
        for R in (FlatTextRenderer, FlatJsonRenderer, NestedTextRenderer, NestedJsonRenderer):
            k, r = outcome(lambda: R().render(msg))
            print('          %-20s %s' % (R.__name__, 'renders' if k == 'ok' else r))
        # C05: the same values, uncompressed
        k, r = outcome(lambda: Encoder().process(json.dumps(message(IDS, vals, False))))
        if k == 'ok':
            k, r = outcome(lambda: Decoder().process(r.serialized_bytes))
        print('          the same values uncompressed: %s' % (
            'accepted' if k == 'ok' else r))

# the encoder is given the same values
for vals, expect in (([[1, 9], [None, 9]], 'refuse'), ([[None, 9], [1, 9]], 'refuse'),
                     ([[1, 9], [2, 9, 9]], 'refuse'), ([[1, 9], [1, 9]], 'accept')):
    for compiled in (False, True):
        def enc():
            e = Encoder(compiled_template_cache_max=4) if compiled else Encoder()
            if compiled:
                try:
                    e.process(json.dumps(message(IDS, vals, True)))
                except Exception:     # noqa
                    pass
            return e.process(json.dumps(message(IDS, vals, True)))
        kind, res = outcome(enc)
        tag = 'compressed encoder, %s walk, values %r' % ('compiled' if compiled else 'plain', vals)
        if expect == 'accept':
            note(kind == 'ok', '%s: %s' % (tag, kind))
        elif kind == 'ok':
            note(False, '%s: WRITTEN, data bits %s' % (tag, ''.join(
                u(x, 8) for x in res.serialized_bytes[-4 - 3:-4])))
        else:
            note(kind == 'lib', '%s: refused with %s' % (tag, res))

print('%d defect line(s)' % len(bad))
sys.exit(1 if bad else 0)
