"""
Sibling mutations of seeded/C13-2, seeded/C07-4 (group A) and seeded/C13-4 (group B): a cache on a long-lived object (or on
the process) whose key leaves out something the cached value depends on - the table group, an operator operand, the
message - or whose key is an id() that can come back after garbage collection.  Other sites than the seeded changes:
templates, table look-ups, sequence expansion, plain elements, pseudo descriptors, renderers, querents, wiring.

  python notes/C13_round3_mutations.py <scratch worktree of /repo> <verif worktree> [--prop C13|C07] [--seed N] [name ...]

Every mutation is applied to the scratch worktree (never /repo), `./check <prop> --tier quick` is run with VERIF_REPO set,
and the worktree is restored.  A mutation counts as caught when the check exits 1 and prints a VIOLATION line.
`--prop C07` runs the C07 check on the mutations that concern marker operators (group A, first part).
"""
import os
import subprocess
import sys

args = [a for a in sys.argv[1:]]
PROP, SEED = 'C13', '0'
if '--prop' in args:
    i = args.index('--prop'); PROP = args[i + 1]; del args[i:i + 2]
if '--seed' in args:
    i = args.index('--seed'); SEED = args[i + 1]; del args[i:i + 2]
REPO, VERIF = args[0], args[1]
WANT = args[2:]

CODER, DESC, TABLES, BUFR, TC = 'pybufrkit/coder.py', 'pybufrkit/descriptors.py', 'pybufrkit/tables.py', 'pybufrkit/bufr.py', 'pybufrkit/templatecompiler.py'
REND, DQ, MDQ, TD = 'pybufrkit/renderer.py', 'pybufrkit/dataquery.py', 'pybufrkit/mdquery.py', 'pybufrkit/templatedata.py'

MARKER_OLD = """        # difference statistical values marker has different refval and nbits values
        if descriptor.id == 225255:
            bitmapped_descriptor = MarkerDescriptor.from_element_descriptor(
                bitmapped_descriptor,
                descriptor.id,
                refval=-2 ** bitmapped_descriptor.nbits,
                nbits=bitmapped_descriptor.nbits + 1,
            )
        else:
            bitmapped_descriptor = MarkerDescriptor.from_element_descriptor(
                bitmapped_descriptor,
                descriptor.id,
            )
"""


def marker_new(cache, guard='True'):
    return """        _cache = %s
        _key = (descriptor.id, bitmapped_descriptor.id)
        if (%s) and _key in _cache:
            bitmapped_descriptor = _cache[_key]
        else:
            if descriptor.id == 225255:
                bitmapped_descriptor = MarkerDescriptor.from_element_descriptor(
                    bitmapped_descriptor,
                    descriptor.id,
                    refval=-2 ** bitmapped_descriptor.nbits,
                    nbits=bitmapped_descriptor.nbits + 1,
                )
            else:
                bitmapped_descriptor = MarkerDescriptor.from_element_descriptor(
                    bitmapped_descriptor,
                    descriptor.id,
                )
            _cache[_key] = bitmapped_descriptor
""" % (cache, guard)


# (name, concerns markers?, [(file, old, new), ...])
MUTS = [
    # ---- group A: the table group (or an operand) is missing from the key ---------------------------------------
    ('A1 marker descriptors cached process-wide (class attribute) by (marker id, element id)', True,
     [(CODER, MARKER_OLD, marker_new("Coder.__dict__.get('_markers') or (setattr(Coder, '_markers', {}) or Coder._markers)"))]),
    ('A2 marker descriptors cached per coder object, in the ENCODER only', True,
     [(CODER, MARKER_OLD, marker_new("self.__dict__.setdefault('_markers', {})", "type(self).__name__ == 'Encoder'"))]),
    ('A3 marker descriptors cached per coder object for 225255 only (width + 1 / reference stale)', True,
     [(CODER, MARKER_OLD, marker_new("self.__dict__.setdefault('_markers', {})", "descriptor.id == 225255"))]),
    ('A4 width, scale and reference of a plain element remembered per coder object by element id', False,
     [(CODER, """            nbits = (descriptor.nbits +
                     state.nbits_offset +
                     state.bsr_modifier.nbits_increment)
            scale = (descriptor.scale +
                     state.scale_offset +
                     state.bsr_modifier.scale_increment)
""", """            _b = self.__dict__.setdefault('_element_coding', {}).setdefault(
                descriptor.id, (descriptor.nbits, descriptor.scale, descriptor.refval))
            if type(descriptor) is ElementDescriptor and _b != (descriptor.nbits, descriptor.scale, descriptor.refval):
                descriptor = ElementDescriptor(descriptor.id, descriptor.name, descriptor.unit, _b[1], _b[2], _b[0],
                                               descriptor.crex_unit, descriptor.crex_scale, descriptor.crex_nchars)
            nbits = (descriptor.nbits +
                     state.nbits_offset +
                     state.bsr_modifier.nbits_increment)
            scale = (descriptor.scale +
                     state.scale_offset +
                     state.bsr_modifier.scale_increment)
""")]),
    ('A5 associated-field descriptors cached per coder object by element id (204YYY width left out)', False,
     [(CODER, """        self.process_codeflag(state, bit_operator,
                              AssociatedDescriptor(descriptor.id, nbits_associated),
                              nbits_associated)
""", """        _a = self.__dict__.setdefault('_assoc', {})
        if descriptor.id not in _a:
            _a[descriptor.id] = AssociatedDescriptor(descriptor.id, nbits_associated)
        self.process_codeflag(state, bit_operator, _a[descriptor.id], nbits_associated)
""")]),
    ('A6 template remembered process-wide by (descriptor list, master table version): local tables left out', False,
     [(BUFR, """        return table_group.template_from_ids(*self.unexpanded_descriptors.value), table_group
""", """        _memo = BufrMessage.__dict__.get('_templates')
        if _memo is None:
            _memo = {}
            BufrMessage._templates = _memo
        _key = (tuple(self.unexpanded_descriptors.value), table_group.key.wmo_tables_sn)
        if _key not in _memo:
            _memo[_key] = table_group.template_from_ids(*self.unexpanded_descriptors.value)
        return _memo[_key], table_group
""")]),
    ('A7 template remembered per message class by the descriptor list only', False,
     [(BUFR, """        return table_group.template_from_ids(*self.unexpanded_descriptors.value), table_group
""", """        _memo = BufrMessage.__dict__.get('_templates')
        if _memo is None:
            _memo = {}
            BufrMessage._templates = _memo
        _key = tuple(self.unexpanded_descriptors.value)
        if _key not in _memo:
            _memo[_key] = table_group.template_from_ids(*self.unexpanded_descriptors.value)
        return _memo[_key], table_group
""")]),
    ('A8 table-group cache keyed without the local tables', False,
     [(TABLES, """    def get(self, table_group_key):
        if table_group_key not in self._groups:
""", """    def get(self, table_group_key):
        for _k in self._groups:
            if _k[:2] == table_group_key[:2]:
                return self._groups[_k]
        if table_group_key not in self._groups:
""")]),
    ('A9 compiled-template key without the local tables', False,
     [(TC, """            tuple(template.original_descriptor_ids),
            table_group.key,
            TableGroupCacheManager.extra_entries_generation()
""", """            tuple(template.original_descriptor_ids),
            table_group.key[:2],
            TableGroupCacheManager.extra_entries_generation()
""")]),
    ('A10 Table D rows shared between table groups (class-level memo by sequence id)', False,
     [(TABLES, """    def lookup(self, id_):
        if not isinstance(id_, Integral):
            id_ = int(id_)
        try:
            descriptor = self.descriptors[id_]
        except KeyError:
            descriptor = UndefinedSequenceDescriptor(id_)

        return descriptor
""", """    _ROWS = {}

    def lookup(self, id_):
        if not isinstance(id_, Integral):
            id_ = int(id_)
        if id_ in TableD._ROWS:
            return TableD._ROWS[id_]
        try:
            descriptor = self.descriptors[id_]
            if descriptor.members is not None:
                TableD._ROWS[id_] = descriptor
        except KeyError:
            descriptor = UndefinedSequenceDescriptor(id_)

        return descriptor
""")]),
    # ---- group B: renderer / querent / wiring caches keyed by id() or too coarsely -----------------------------------
    ('B1 NestedTextRenderer remembers the description of a descriptor by id(descriptor)', False,
     [(REND, """        ret = [
            '{}{}{} {} {!r}'.format(
                indent,
                '-> ' if is_attribute else '',
                descriptor,
                description,
                value
            )
        ]
""", """        _c = self.__dict__.setdefault('_texts', {})
        if id(descriptor) not in _c:
            _c[id(descriptor)] = '{} {}'.format(descriptor, description)
        ret = [
            '{}{}{} {!r}'.format(
                indent,
                '-> ' if is_attribute else '',
                _c[id(descriptor)],
                value
            )
        ]
""")]),
    ('B2 NestedJsonRenderer remembers the description by the descriptor label (table group left out)', False,
     [(REND, """        ret = {'id': str(descriptor), 'description': description, 'value': value}
        if is_attribute and not isinstance(descriptor, AssociatedDescriptor):
""", """        description = self.__dict__.setdefault('_descriptions', {}).setdefault(str(descriptor), description)
        ret = {'id': str(descriptor), 'description': description, 'value': value}
        if is_attribute and not isinstance(descriptor, AssociatedDescriptor):
""")]),
    ('B3 FlatTextRenderer remembers the label by the descriptor label (name / width of another table group)', False,
     [(REND, """                if idx in bitmap_links:
                    ret.append('{} {:64.64} -> {} {!r}'.format(
                        fixed_width_repr_of_int(idx + 1, 5),
                        self._render_descriptor(descriptor),
""", """                if idx in bitmap_links:
                    ret.append('{} {:64.64} -> {} {!r}'.format(
                        fixed_width_repr_of_int(idx + 1, 5),
                        self.__dict__.setdefault('_labels', {}).setdefault(str(descriptor), self._render_descriptor(descriptor)),
"""), (REND, """                    ret.append('{} {:74.74} {!r}'.format(
                        fixed_width_repr_of_int(idx + 1, 5),
                        self._render_descriptor(descriptor),
""", """                    ret.append('{} {:74.74} {!r}'.format(
                        fixed_width_repr_of_int(idx + 1, 5),
                        self.__dict__.setdefault('_labels', {}).setdefault(str(descriptor), self._render_descriptor(descriptor)),
""")]),
    ('B4 FlatTextRenderer remembers the FLAG TABLE decision by id(descriptor)', False,
     [(REND, """                if value is not None and hasattr(descriptor, 'unit') and descriptor.unit == 'FLAG TABLE':
""", """                _f = self.__dict__.setdefault('_flags', {})
                if id(descriptor) not in _f:
                    _f[id(descriptor)] = hasattr(descriptor, 'unit') and descriptor.unit == 'FLAG TABLE'
                if value is not None and _f[id(descriptor)] and isinstance(value, int):
""")]),
    ('B5 DataQuerent remembers results by (id(message), path)', False,
     [(DQ, """        node_path = self.path_parser.parse(path_expr)

        subset_indices = (
""", """        _r = self.__dict__.setdefault('_results', {})
        if (id(bufr_message), path_expr) in _r:
            return _r[(id(bufr_message), path_expr)]
        node_path = self.path_parser.parse(path_expr)

        subset_indices = (
"""), (DQ, """        query_result.path_expr = path_expr
        query_result.n_subsets = template_data.n_subsets

        return query_result
""", """        query_result.path_expr = path_expr
        query_result.n_subsets = template_data.n_subsets
        _r[(id(bufr_message), path_expr)] = query_result

        return query_result
""")]),
    ('B6 DataQuerent remembers the subset indices of a path expression (number of subsets left out)', False,
     [(DQ, """        subset_indices = (
            [node_path.subset_slice] if isinstance(node_path.subset_slice, int)
            else list(range(bufr_message.n_subsets.value))[node_path.subset_slice]
        )
""", """        _s = self.__dict__.setdefault('_subsets', {})
        if path_expr not in _s:
            _s[path_expr] = (
                [node_path.subset_slice] if isinstance(node_path.subset_slice, int)
                else list(range(bufr_message.n_subsets.value))[node_path.subset_slice]
            )
        subset_indices = _s[path_expr]
""")]),
    ('B7 MetadataQuerent remembers the value of an expression (message left out)', False,
     [(MDQ, """        section_index, metadata_name = self.metadata_expr_parser.parse(metadata_expr)
""", """        _v = self.__dict__.setdefault('_values', {})
        if metadata_expr in _v:
            return _v[metadata_expr]
        section_index, metadata_name = self.metadata_expr_parser.parse(metadata_expr)
"""), (MDQ, """                if parameter.name == metadata_name:
                    return parameter.value
""", """                if parameter.name == metadata_name:
                    _v[metadata_expr] = parameter.value
                    return parameter.value
""")]),
    ('B8 wire-once flag kept in a module-level set of id(template data)', False,
     [(TD, """        if self._is_wired:
            return
""", """        if id(self) in _WIRED:
            return
"""), (TD, """        self._is_wired = True

    def _wire_all_subsets""", """        self._is_wired = True
        _WIRED.add(id(self))

    def _wire_all_subsets"""), (TD, """class TemplateData(object):""", """_WIRED = set()


class TemplateData(object):""")]),
    ('B9 wiring remembers the kind of a template member by id(member)', False,
     [(TD, """            # Now process normally
            if isinstance(member, ElementDescriptor):
                self.wire_element_descriptor(member)

            elif isinstance(member, FixedReplicationDescriptor):
""", """            # Now process normally
            if _KINDS.setdefault(id(member), isinstance(member, ElementDescriptor)):
                self.wire_element_descriptor(member)

            elif isinstance(member, FixedReplicationDescriptor):
"""), (TD, """class TemplateData(object):""", """_KINDS = {}


class TemplateData(object):""")]),
]


def sh(cmd, **kw):
    return subprocess.run(cmd, stdout=subprocess.PIPE, stderr=subprocess.STDOUT, text=True, **kw)


def main():
    if os.path.realpath(REPO) == os.path.realpath('/repo'):
        print('give a scratch worktree (never /repo)')
        sys.exit(2)
    if sh(['git', '-C', REPO, 'status', '--porcelain']).stdout.strip():
        print('scratch worktree is not clean')
        sys.exit(2)
    results = []
    for name, markers, edits in MUTS:
        tag = name.split(' ')[0]
        if WANT and tag not in WANT:
            continue
        if PROP == 'C07' and not markers:
            continue
        ok = True
        try:
            for path, old, new in edits:
                full = os.path.join(REPO, path)
                src = open(full).read()
                if src.count(old) != 1:
                    ok = False
                    break
                open(full, 'w').write(src.replace(old, new))
            if not ok:
                results.append((name, 'NOT-APPLICABLE (source text not found exactly once in %s)' % path, ''))
            else:
                rc = sh(['/venv/bin/python', '-c', 'import pybufrkit.decoder, pybufrkit.encoder, pybufrkit.renderer, pybufrkit.dataquery'],
                        cwd=REPO, env=dict(os.environ, PYTHONPATH=REPO))
                if rc.returncode != 0:
                    results.append((name, 'BROKEN MUTATION (does not import)', rc.stdout[-300:]))
                else:
                    env = dict(os.environ, VERIF_REPO=REPO, VERIF_SEED=SEED, VERIF_C13_SHRINK='40')
                    p = sh([os.path.join(VERIF, 'check'), PROP, '--tier', 'quick'], cwd=VERIF, env=env)
                    lines = p.stdout.split('\n')
                    viol = [l for l in lines if l.startswith('VIOLATION')]
                    first = next((lines[i + 1].strip() for i, l in enumerate(lines) if l.startswith('VIOLATION') and i + 1 < len(lines)), '')
                    caught = p.returncode == 1 and bool(viol)
                    results.append((name, 'CAUGHT' if caught else 'MISSED (exit %d)' % p.returncode,
                                    '%d violation line(s); first: %s | %s' % (len(viol), first[:230], lines[-2][-60:] if len(lines) > 1 else '')))
        finally:
            sh(['git', '-C', REPO, 'checkout', '--', '.'])
            sh(['git', 'checkout', '--', 'evidence'], cwd=VERIF)
        print('%s\n    %s\n    %s' % results[-1])
        sys.stdout.flush()
    missed = [r for r in results if not r[1].startswith('CAUGHT')]
    print('%s: %d mutations, %d caught' % (PROP, len(results), len(results) - len(missed)))
    sys.exit(1 if missed else 0)


if __name__ == '__main__':
    main()
