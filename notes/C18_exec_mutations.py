"""Planted-mutation self-test for the execution part of C18 (nest levels x subset selectors x multi-subset messages):
    python notes/C18_exec_mutations.py <repo-worktree> <verif-worktree> [--exec-only] [E1 E2 ...]
Every mutation must give exit 1 and a VIOLATION line in the quick tier; files are restored afterwards.
--exec-only runs only the execution part on generated messages (VERIF_C18_PARTS=exec) to show that this part alone
catches the mutation."""
import subprocess, sys, os
REPO, VERIF = sys.argv[1], sys.argv[2]
args = sys.argv[3:]
EXEC_ONLY = '--exec-only' in args
sel = [a for a in args if not a.startswith('--')]
S = 'pybufrkit/script.py'
D = 'pybufrkit/dataquery.py'
L1 = "        elif data_values_nest_level == DATA_VALUES_NEST_LEVEL_1:\n            values = qr.all_values(flat=True)\n"
L0 = "            values = functools.reduce(lambda x, y: x + y, values, [])\n            return values[0] if len(values) > 0 else None"
PV = "        variables = {\n            varname: self.get_query_result(bufr_message, query_string)\n            for query_string, varname in self.substitutions.items()\n        }\n"
MUTS = [
 ('E1 subset_indices() sorted, all_values() in insertion order (= seeded C18-4)', D, "        return list(self.results.keys())", "        return sorted(self.results)"),
 ('E2 level 1 concatenates in sorted subset order', S, L1, "        elif data_values_nest_level == DATA_VALUES_NEST_LEVEL_1:\n            values = [qr.get_values(i, flat=True) for i in sorted(qr.subset_indices())]\n"),
 ('E3 level 0 takes the first non-missing value', S, L0, "            values = functools.reduce(lambda x, y: x + y, values, [])\n            return next((v for v in values if v is not None), None)"),
 ('E4 level in force only after the first query', S, PV,
  "        variables = {}\n        level = self.pragma['data_values_nest_level']\n        for k, (query_string, varname) in enumerate(self.substitutions.items()):\n            self.pragma['data_values_nest_level'] = level if k > 0 or len(self.substitutions) == 1 else 1\n            variables[varname] = self.get_query_result(bufr_message, query_string)\n        self.pragma['data_values_nest_level'] = level\n"),
 ('E5 flat values drop the subsets without a value', D, "            return [self.get_values(i, flat=True) for i in self.subset_indices()]", "            return [v for v in (self.get_values(i, flat=True) for i in self.subset_indices()) if v]"),
 ('E6 values bound to the names in reverse order', S, PV,
  "        names = list(self.substitutions.values())\n        values = [self.get_query_result(bufr_message, q) for q in self.substitutions.keys()]\n        variables = dict(zip(names, reversed(values)))\n"),
 ('E7 same expression with different blanks gets two names', S, "s = ''.join(query_expr).strip()\n", "s = ''.join(query_expr)\n"),
 ('E8 all_values() sorted by subset, flat values in insertion order', D, "            return list(self.results.values())", "            return [self.results[i] for i in sorted(self.results)]"),
 ('E9 the querent visits the selected subsets in ascending order', D, "            else list(range(bufr_message.n_subsets.value))[node_path.subset_slice]\n        )\n", "            else sorted(list(range(bufr_message.n_subsets.value))[node_path.subset_slice])\n        )\n"),
 ('E10 level 0 = first value of the first selected subset', S, L0, "            return values[0][0] if values and values[0] else None"),
 ('E11 level 2 of a compressed message lists the subsets ascending', S, "        elif data_values_nest_level == DATA_VALUES_NEST_LEVEL_2:\n            return qr.all_values(flat=True)",
  "        elif data_values_nest_level == DATA_VALUES_NEST_LEVEL_2:\n            return [qr.get_values(i, flat=True) for i in (sorted(qr.subset_indices()) if len(qr.results) > 4 else qr.subset_indices())]"),
 ('E12 level 1 skips subsets after an empty one', S, L1 + "            return functools.reduce(lambda x, y: x + y, values, [])",
  L1 + "            out = []\n            for v in values:\n                if not v and out:\n                    break\n                out += v\n            return out"),
 ('E13 pragma level ignored when the script has more than one query', S, "        if data_values_nest_level is not None:\n            self.pragma['data_values_nest_level'] = data_values_nest_level\n",
  "        if data_values_nest_level is not None:\n            self.pragma['data_values_nest_level'] = data_values_nest_level\n        elif len(self.substitutions) > 1:\n            self.pragma['data_values_nest_level'] = DATA_VALUES_NEST_LEVEL_1\n"),
 ('E14 flat values of a subset cached by subset index modulo 4', D, "        values = self.results[i_subset]\n        return flatten_list(values) if flat else values",
  "        values = self.results[i_subset if not flat or i_subset < 4 or (i_subset - 4) not in self.results else i_subset - 4]\n        return flatten_list(values) if flat else values"),
]
res = []
for name, rel, a, b in MUTS:
    if sel and not any(name.startswith(x + ' ') for x in sel):
        continue
    F = os.path.join(REPO, rel)
    orig = open(F).read()
    if orig.count(a) != 1:
        print('PATTERN PROBLEM', name, orig.count(a)); continue
    open(F, 'w').write(orig.replace(a, b))
    env = dict(os.environ, VERIF_REPO=REPO)
    if EXEC_ONLY:
        env['VERIF_C18_PARTS'] = 'exec'
    try:
        p = subprocess.run(['./check', 'C18', '--tier', 'quick'], cwd=VERIF, env=env, stdout=subprocess.PIPE, stderr=subprocess.STDOUT, text=True)
    finally:
        open(F, 'w').write(orig)
    lines = p.stdout.split('\n')
    viol = [i for i, l in enumerate(lines) if l.startswith('VIOLATION')]
    det = lines[viol[0] + 1][:200] if viol else ''
    print('%-75s rc=%d violations=%d  %s' % (name, p.returncode, len(viol), det)); sys.stdout.flush()
    if p.returncode == 2:
        print(p.stdout[-1500:])
    assert open(F).read() == orig
