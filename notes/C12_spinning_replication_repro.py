"""
F23-C12 (open): a damaged section length keeps the decoder spinning.

    /venv/bin/python notes/C12_spinning_replication_repro.py          (PYTHONPATH=/repo or an installed pybufrkit)

The message is a generated edition-2, compressed, one-subset message whose section 3 declares 12 octets instead of 44
(total length intact).  The descriptor list is cut to `108000 031001`: a delayed replication of 8 descriptors of which
none is left.  Section 4 now "starts" inside the old descriptor list; the replication factor 031001 is read as a
compressed value (minimum, 6-bit increment width, one increment of up to 63 bits) and `for _ in range(factor)` runs over
an empty member list, i.e. without ever touching the bit reader, for an astronomically large count.
Expected by C12: PyBufrKitError, the message is skipped, the following messages are delivered.
Observed: Decoder.process does not return (the script gives up after 5 s).
"""
import signal
import sys

from pybufrkit.decoder import Decoder

DAMAGED = bytes.fromhex(
    '42554652000086020000120000620000ff00210014050607080900000c000001c048001f01817f0f1f810095020833010b015e07214e001f000e'
    '01029248001f018282040c820043001f0195010cb8c12b410102250000002c000203ffe03005e76e67a8e8a76d44602c808000001035000066e2'
    '58dab0fc70748807fff80385000037373737')


class Spinning(BaseException):
    pass


def on_alarm(signum, frame):
    raise Spinning()


signal.signal(signal.SIGALRM, on_alarm)
signal.alarm(5)
try:
    Decoder().process(DAMAGED)
    print('decoded (unexpected)')
except Spinning:
    print('FAIL: Decoder.process still running after 5 s on a 134-octet damaged message')
    sys.exit(1)
except Exception as e:  # noqa
    print('OK: %s: %s' % (type(e).__name__, e))
