"""
Potential finding (C09, text formats; NOT in KNOWN_FINDINGS.json): an element (or sequence) NAME that holds one of the
line boundaries of str.splitlines() breaks both text round trips.

    /venv/bin/python notes/C09Text_repro_name_linebreak.py        (real code from /repo)

Mechanism: the renderers put the Table B / Table D name on the line and join the lines with '\\n'; the converters
cut the text with `splitlines()` (boundaries: \\n \\r \\r\\n \\x0b \\x0c \\x1c \\x1d \\x1e \\x85 \\u2028 \\u2029).  A name with such a
character is printed over two lines; the flat text converter slices the second piece at column 81
(SyntaxError), the nested text converter evaluates its last word (ValueError).  Lean: the side condition `linesOK`
of `C09_text_lines_roundtrip` and the `example` with `exEnvLF` in lean/BufrModel/Props/C09Text.lean.
Reach: none of the 80 bundled Table B / D files has such a name (checked below); names come from JSON files, so a
local table (or in-stream NCEP table definitions, whose names are decoded bytes) can hold one.  Here the name of
001001 is replaced on the loaded descriptor object, which is what a local TableB.json entry would produce.
"""
import json
import os
import sys

sys.path.insert(0, '/repo')
from pybufrkit.decoder import Decoder  # noqa: E402
from pybufrkit.encoder import Encoder  # noqa: E402
from pybufrkit.renderer import FlatTextRenderer, NestedTextRenderer, FlatJsonRenderer, NestedJsonRenderer  # noqa: E402
from pybufrkit import utils as U  # noqa: E402

MESSAGE = [
    ['BUFR', 0, 4],
    [0, 0, 98, 0, 0, False, '0000000', 2, 4, 0, 33, 0, 2020, 5, 6, 7, 8, 9],
    [0, '00000000', 1, True, False, '000000', [1001, 1015]],
    [0, '00000000', [[5, 'ABC']]],
    ['7777'],
]
BOUNDARIES = '\n\r\x0b\x0c\x1c\x1d\x1e\x85\u2028\u2029'


def bundled_names_with_boundaries():
    import pybufrkit
    root = os.path.join(os.path.dirname(pybufrkit.__file__), 'tables')
    hits = []
    n = 0
    for d, _, fs in os.walk(root):
        for f in fs:
            if f in ('TableB.json', 'TableD.json'):
                n += 1
                with open(os.path.join(d, f)) as fh:
                    for k, v in json.load(fh).items():
                        if isinstance(v[0], str) and set(v[0]) & set(BOUNDARIES):
                            hits.append((d, f, k))
    return n, hits


def main():
    n, hits = bundled_names_with_boundaries()
    print('bundled tables: %d files, %d names with a line boundary' % (n, len(hits)))
    b = Encoder().process(json.loads(json.dumps(MESSAGE)), wire_template_data=False).serialized_bytes
    msg = Decoder().process(b)
    d = msg.template_data.value.decoded_descriptors_all_subsets[0][0]
    saved = d.name
    failures = 0
    try:
        for name in ('WMO BLOCK NUMBER', 'WMO BLOCK\nNUMBER', 'WMO BLOCK\x85NUMBER', 'WMO BLOCK\u2028NUMBER'):
            d.name = name
            flat = FlatJsonRenderer().render(msg)
            for R, conv in ((NestedJsonRenderer, U.nested_json_to_flat_json), (FlatTextRenderer, U.flat_text_to_flat_json),
                            (NestedTextRenderer, U.nested_text_to_flat_json)):
                try:
                    ok = conv(R().render(msg)) == flat
                    print('name %-24r %-20s %s' % (name, R.__name__, 'converts back' if ok else 'DIFFERENT'))
                    failures += 0 if ok else 1
                except Exception as e:  # noqa
                    print('name %-24r %-20s RAISES %s' % (name, R.__name__, type(e).__name__))
                    failures += 1
    finally:
        d.name = saved
    sys.exit(1 if failures else 0)


if __name__ == '__main__':
    main()
