"""
Potential finding (C09, text formats; NOT in KNOWN_FINDINGS.json): a message with ZERO subsets decodes, its flat JSON
and nested JSON convert back, but neither text format does.

    /venv/bin/python notes/C09Text_repro_zero_subsets.py        (real code from /repo, nothing else needed)

Mechanism: FlatTextRenderer / NestedTextRenderer._render_template_data return '' for no subsets;
_render_bufr_message does `ret.extend(''.split('\\n'))`, i.e. adds ONE EMPTY LINE for the template data;
utils.section_text_to_flat_json takes every line that is neither a section nor a subset header for a
`name = value` parameter: `parameter_name, value = ''.split(' = ')` -> ValueError (command_encode: "Invalid input").
Expected by the property: text -> flat == flat JSON (here: template data `[]`).
A repair would render no line at all for empty template data AND let section_text_to_flat_json append `[]` for a
section whose layout has a template_data parameter but no subset header follows; not attempted.
(The encoder refuses compressed data with zero subsets - IndexError - so only uncompressed messages are concerned.)
"""
import json
import sys

sys.path.insert(0, '/repo')
from pybufrkit.decoder import Decoder  # noqa: E402
from pybufrkit.encoder import Encoder  # noqa: E402
from pybufrkit.renderer import FlatTextRenderer, NestedTextRenderer, FlatJsonRenderer, NestedJsonRenderer  # noqa: E402
from pybufrkit import utils as U  # noqa: E402

# edition 4, no section 2, uncompressed, n_subsets = 0, template 001001 001015
MESSAGE = [
    ['BUFR', 0, 4],
    [0, 0, 98, 0, 0, False, '0000000', 2, 4, 0, 33, 0, 2020, 5, 6, 7, 8, 9],
    [0, '00000000', 0, True, False, '000000', [1001, 1015]],
    [0, '00000000', []],
    ['7777'],
]


def main():
    b = Encoder().process(json.loads(json.dumps(MESSAGE)), wire_template_data=False).serialized_bytes
    msg = Decoder().process(b)
    flat = FlatJsonRenderer().render(msg)
    print('decoded: n_subsets =', msg.n_subsets.value, ' template data (flat JSON) =', flat[-2][-1])
    failures = 0
    for R, conv in ((NestedJsonRenderer, U.nested_json_to_flat_json), (FlatTextRenderer, U.flat_text_to_flat_json),
                    (NestedTextRenderer, U.nested_text_to_flat_json)):
        text = R().render(msg)
        try:
            back = conv(text)
            ok = back == flat
            print('%-20s converts back: %s' % (R.__name__, 'equal to flat JSON' if ok else 'DIFFERENT: %r' % (back[-2],)))
            failures += 0 if ok else 1
        except Exception as e:  # noqa
            print('%-20s conversion RAISES %s: %s' % (R.__name__, type(e).__name__, e))
            failures += 1
    sys.exit(1 if failures else 0)


if __name__ == '__main__':
    main()
