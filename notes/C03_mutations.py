"""
Mutation self-test of the C03 check, round 2 (siblings of seeded/C03-3 and seeded/C03-4): every planted change is
applied to a scratch copy of the repo (VERIF_REPO points at it), the quick check must exit 1 with a VIOLATION line.
    /venv/bin/python notes/C03_mutations.py [repo] [name-substring]        (run from the verif worktree)
(The first-round list - rounding, masking, clipping, reference order ... - is harness/selftest/enc_mutations.py.)
"""
import os
import shutil
import subprocess
import sys
import tempfile

VERIF = os.path.dirname(os.path.dirname(os.path.abspath(__file__)))
REPO = sys.argv[1] if len(sys.argv) > 1 else os.environ.get('VERIF_REPO', '/repo')
ONLY = sys.argv[2] if len(sys.argv) > 2 else ''
BIT, ENC, DEC, COD = 'pybufrkit/bitops.py', 'pybufrkit/encoder.py', 'pybufrkit/decoder.py', 'pybufrkit/coder.py'

WRITE_INT = "        self.write_bool(value < 0)\n        self.write_uint(abs(value), nbits - 1)\n"

MUTATIONS = [
    # --- the sign-and-magnitude field of 203YYY ------------------------------------------------------------
    ('write_int-one-field (seeded C03-3)', BIT, WRITE_INT,
     "        magnitude = abs(value)\n        if value < 0:\n            magnitude |= 1 << (nbits - 1)\n        self.write_uint(magnitude, nbits)\n"),
    ('write_int-range-check-on-nbits', BIT, WRITE_INT,
     "        if abs(value) >= 1 << nbits:\n            raise ValueError('too large')\n        self.write_bool(value < 0)\n"
     "        self.write_uint(abs(value) & ((1 << (nbits - 1)) - 1), nbits - 1)\n"),
    ('write_int-twos-complement', BIT, WRITE_INT,
     "        self.bit_stream += 'int:{}={}'.format(nbits, value)\n"),
    ('write_int-magnitude-clipped', BIT, WRITE_INT,
     "        self.write_bool(value < 0)\n        self.write_uint(min(abs(value), (1 << (nbits - 1)) - 1), nbits - 1)\n"),
    ('read_int-sign-from-the-last-bit', BIT,
     "        return (-1 if self.read_bool() else 1) * self.read_uint(nbits - 1)\n",
     "        magnitude = self.read_uint(nbits - 1)\n        return -magnitude if self.read_bool() else magnitude\n"),
    ('read_int-twos-complement', BIT,
     "        return (-1 if self.read_bool() else 1) * self.read_uint(nbits - 1)\n",
     "        return self._bit_stream_read('int:{}'.format(nbits))\n"),
    ('encoder-clips-new-reference-value', ENC,
     "        bit_writer.write_int(value, nbits)  # NOTE write_int NOT write_uint\n",
     "        bit_writer.write_int(max(-(2 ** (nbits - 1) - 1), min(2 ** (nbits - 1) - 1, value)), nbits)\n"),
    ('compressed-new-reference-written-unsigned', ENC,
     "        bit_writer.write_int(min_value, nbits_min_value)\n",
     "        bit_writer.write_uint(abs(min_value), nbits_min_value)\n"),
    # --- the missing test and the width in force ----------------------------------------------------------------
    ('compressed-numeric-recheck-with-table-width (seeded C03-4)', DEC,
     "                    value = min_value + diff\n                    if refval:\n",
     "                    value = min_value + diff\n                    if descriptor.nbits > 1 and value == NUMERIC_MISSING_VALUES[descriptor.nbits]:\n"
     "                        decoded_values.append(None)\n                        continue\n                    if refval:\n"),
    ('uncompressed-missing-test-with-table-width', DEC,
     "        value = bit_reader.read_uint_or_none(nbits)\n        if value is not None:\n            if refval:\n",
     "        value = bit_reader.read_uint(nbits)\n        if descriptor.nbits > 1 and value == NUMERIC_MISSING_VALUES[descriptor.nbits]:\n            value = None\n"
     "        if value is not None:\n            if refval:\n"),
    ('all-equal-compressed-missing-test-with-table-width', DEC,
     "        elif nbits_diff == 0:\n            value = min_value\n            if refval:\n",
     "        elif nbits_diff == 0:\n            value = min_value\n            if descriptor.nbits > 1 and value == NUMERIC_MISSING_VALUES[descriptor.nbits]:\n"
     "                for decoded_values in state.decoded_values_all_subsets:\n                    decoded_values.append(None)\n                return\n            if refval:\n"),
    ('encoder-all-ones-as-missing-with-table-width', ENC,
     "            values = self._all_ones_as_missing(values, nbits_min_value)\n            min_value, max_value = state.minmax(values)\n            if min_value is None:  # nothing but missing values\n                min_value = NUMERIC_MISSING_VALUES[nbits_min_value]\n                nbits_diff = 0\n            else:\n                nbits_diff = nbits_for_uint(max_value - min_value + 1)\n                # Now subtract",
     "            values = self._all_ones_as_missing(self._all_ones_as_missing(values, nbits_min_value), descriptor.nbits)\n            min_value, max_value = state.minmax(values)\n            if min_value is None:  # nothing but missing values\n                min_value = NUMERIC_MISSING_VALUES[nbits_min_value]\n                nbits_diff = 0\n            else:\n                nbits_diff = nbits_for_uint(max_value - min_value + 1)\n                # Now subtract"),
    ('201-applied-to-code-tables', COD,
     "            self.process_codeflag(state, bit_operator, descriptor, descriptor.nbits)\n",
     "            self.process_codeflag(state, bit_operator, descriptor, descriptor.nbits + state.nbits_offset)\n"),
    ('207-applied-to-code-tables', COD,
     "            self.process_codeflag(state, bit_operator, descriptor, descriptor.nbits)\n",
     "            self.process_codeflag(state, bit_operator, descriptor, descriptor.nbits + state.bsr_modifier.nbits_increment)\n"),
    ('one-bit-fields-have-a-missing-value', BIT,
     "        if nbits > 1 and value == NUMERIC_MISSING_VALUES[nbits]:\n",
     "        if value == NUMERIC_MISSING_VALUES[nbits]:\n"),
    # --- widths of the increments ------------------------------------------------------------------------------
    ('nbits_for_uint-no-extra-bit-at-all-ones', ENC,
     "    if binx.count('1') == len(binx):\n        nbits += 1\n", ""),
    ('nbits_for_uint-of-the-range-itself', ENC,
     "                nbits_diff = nbits_for_uint(max_value - min_value + 1)\n                # Now subtract",
     "                nbits_diff = len(bin(max_value - min_value)[2:])\n                # Now subtract"),
    # --- other fields the encoder writes -----------------------------------------------------------------------
    ('nested-associated-field-takes-the-last-width', COD,
     "        nbits_associated = sum(state.nbits_of_associated)\n",
     "        nbits_associated = state.nbits_of_associated[-1]\n"),
    ('string-longer-than-the-field-not-truncated', BIT,
     "            if value_len > nbytes:\n                value = value[:nbytes]\n",
     "            if value_len > nbytes + 1:\n                value = value[:nbytes]\n"),
    ('replication-factor-written-modulo-256', ENC,
     "        bit_writer.write_uint(value, nbits)\n\n    def process_numeric_compressed(",
     "        bit_writer.write_uint(value % 256 if descriptor.id == 31001 else value, nbits)\n\n    def process_numeric_compressed("),
    ('skipped-local-field-masked', COD,
     "            SkippedLocalDescriptor(descriptor.id, state.nbits_of_skipped_local_descriptor),\n            state.nbits_of_skipped_local_descriptor\n",
     "            SkippedLocalDescriptor(descriptor.id, state.nbits_of_skipped_local_descriptor),\n            min(state.nbits_of_skipped_local_descriptor, 32)\n"),
]

SCRATCH = tempfile.mkdtemp(prefix='c03mut_', dir='/tmp')


def run_one(m):
    name, path, old, new = m
    d = os.path.join(SCRATCH, name.split(' ')[0])
    if os.path.exists(d):
        shutil.rmtree(d)
    shutil.copytree(REPO, d, ignore=shutil.ignore_patterns('.git', '__pycache__', '*.pyc'))
    p = os.path.join(d, path)
    s = open(p).read()
    if old not in s:
        shutil.rmtree(d)
        return name, 'NOT-APPLICABLE', ''
    open(p, 'w').write(s.replace(old, new, 1))
    env = dict(os.environ, VERIF_REPO=d)
    r = subprocess.run(['./check', 'C03', '--tier', 'quick'], cwd=VERIF, env=env, stdout=subprocess.PIPE, stderr=subprocess.STDOUT, text=True)
    lines = r.stdout.split('\n')
    viol = [l for l in lines if l.startswith('VIOLATION')]
    first = ''
    for i, l in enumerate(lines):
        if l.startswith('VIOLATION') and i + 1 < len(lines):
            first = ('[nfi] ' if 'no-failing-input' in l else '') + lines[i + 1].strip()[:170]
            if 'no-failing-input' not in l:
                break
    shutil.rmtree(d)
    return name, ('CAUGHT' if r.returncode == 1 and viol else 'MISSED rc=%d' % r.returncode), first


if __name__ == '__main__':
    res = []
    for m in MUTATIONS:
        if ONLY and ONLY not in m[0]:
            continue
        res.append(run_one(m))           # one check at a time: every check runs on up to 16 processes itself
        print('%-52s %s   %s' % res[-1])
        sys.stdout.flush()
    shutil.rmtree(SCRATCH, ignore_errors=True)
    subprocess.run(['git', 'checkout', '--', 'evidence'], cwd=VERIF)
    print('%d/%d caught' % (sum(1 for r in res if r[1] == 'CAUGHT'), len(res)))
