"""
Mutation self-test of parts (E) declared-length sweep and (F) aborted template walks of the C12 quick check: sibling
mutations of seeded/C12-3 (a declared section length below the fixed part of a section is not reported with the library's
error) and seeded/C12-4 (a template walk that was aborted leaves state behind for every later message).

Usage (from the verif worktree):
    VERIF_REPO=<scratch worktree of /repo> /venv/bin/python notes/C12_round3_mutations.py [name ...]
Each mutation (a list of (file, old, new) edits) is applied to the scratch worktree (uncommitted), `./check C12` is run
(exit 1 + a VIOLATION line expected) and the worktree is restored with `git checkout -- .`.
With C12_BEHAVIOUR_ONLY=1 the structural comparison of the CoderState registers with the model's initial values
(`coder_state_check`) is switched off (harness: VERIF_C12_NO_STATE_CHECK), so that the "register shared" mutations have to be
caught by what they DO to the messages that follow an aborted walk.
"""
import os
import subprocess
import sys

REPO = os.environ['VERIF_REPO']
VERIF = os.path.dirname(os.path.dirname(os.path.abspath(__file__)))
D = 'pybufrkit/decoder.py'
C = 'pybufrkit/coder.py'

OVERRUN = ("            elif nbits_unread < 0:\n"
           "                raise PyBufrKitError('Read exceeds declared section {} length: {} by {} bits'.format(\n"
           "                    section.get_metadata('index'), section.section_length.value, -nbits_unread))\n")
F14 = ("                if nbits_to_read < 0:\n"
       "                    raise PyBufrKitError('Read exceeds declared section {} length: {} by {} bits'.format(\n"
       "                        section.get_metadata('index'), section.section_length.value, -nbits_to_read))\n")
COUNT = "        for _ in range((section.section_length.value - nbytes_read) // 2):\n"
LENBLOCK = "        if 'section_length' in section:\n            nbits_read = bit_reader.get_pos() - section.get_metadata(BITPOS_START)\n"


def shared_register(attr, reset_line, initial):
    """register `attr` of CoderState is kept in ONE module-level place and no longer assigned by reset_template_state
    ("it is back at its initial value at the end of every complete walk anyway")"""
    return [
        (C, reset_line, ''),
        (C, "class CoderState(object):\n",
            "_SHARED_REGISTERS = {%r: %s}\n\n\nclass CoderState(object):\n" % (attr, initial)),
        (C, "    # noinspection PyAttributeOutsideInit\n    def reset_template_state(self):\n",
            "    %s = property(lambda self: _SHARED_REGISTERS[%r],\n"
            "        lambda self, v: _SHARED_REGISTERS.__setitem__(%r, v))\n\n"
            "    # noinspection PyAttributeOutsideInit\n    def reset_template_state(self):\n" % (attr, attr, attr)),
    ]


MUT = [
    # ------------------------------------------------------------------ siblings of C12-3 (declared lengths)
    # F14 reverted: a rest-of-section parameter (section 1 local bytes of editions 2/3, section 2 local bits) is read with a
    # negative width when the declared length is below the fixed part
    ('L1-rest-of-section-negative-width', [(D, F14, '')]),
    # an overrun of up to one octet is tolerated: a section 1 declaring one octet less than its fixed part is accepted
    ('L2-overrun-tolerated-by-one-octet', [(D, "            elif nbits_unread < 0:\n", "            elif nbits_unread < -8:\n")]),
    # the declared length is taken modulo 2^16: 65536 is read as 0, ...
    ('L3-length-modulo-65536', [(D, "            nbits_unread = section.section_length.value * NBITS_PER_BYTE - nbits_read\n",
                                 "            nbits_unread = (section.section_length.value & 0xFFFF) * NBITS_PER_BYTE - nbits_read\n")]),
    # the overrun is reported with ValueError for sections 3 and 4 (PyBufrKitError kept for 1 and 2)
    ('L4-overrun-valueerror-in-sections-3-4', [(D, OVERRUN,
        "            elif nbits_unread < 0 and section.get_metadata('index') >= 3:\n"
        "                raise ValueError('Read exceeds declared section length')\n" + OVERRUN)]),
    # a declared length of 0 means "not given": the length handling is skipped and the message decodes
    ('L5-length-zero-means-unknown', [(D, LENBLOCK, "        if 'section_length' in section and section.section_length.value != 0:\n"
                                          "            nbits_read = bit_reader.get_pos() - section.get_metadata(BITPOS_START)\n")]),
    # skip branch of the scan: when the metadata-only decoding fails as well, give up the rest of the stream
    ('L6-skip-branch-gives-up', [(D, "                except PyBufrKitError:\n                    idx_start += 1\n",
                                     "                except PyBufrKitError:\n                    idx_start = len(s)\n")]),
    # a final section is not checked against its declared length (metadata-only scanning ends with the section-4 header)
    ('L7-no-length-check-for-final-section', [(D, LENBLOCK, "        if 'section_length' in section and not section.end_of_message:\n"
                                                  "            nbits_read = bit_reader.get_pos() - section.get_metadata(BITPOS_START)\n")]),
    # the descriptor count wraps around instead of being empty for a short section 3
    ('L8-descriptor-count-wraps', [(D, COUNT, "        for _ in range(((section.section_length.value - nbytes_read) // 2) & 0xFF):\n")]),
    # ------------------------------------------------------------------ siblings of C12-4 (aborted walks)
    # one register each kept in a module-level place and not reset any more: leaks only when a walk is aborted INSIDE the
    # scope of the operator (complete walks leave the register at its initial value)
    ('A1-221-count-shared', shared_register('data_not_present_count', "        self.data_not_present_count = 0  # 221\n", '0')),
    ('A2-206-width-shared', shared_register('nbits_of_skipped_local_descriptor', "        self.nbits_of_skipped_local_descriptor = 0  # 206\n", '0')),
    ('A3-201-offset-shared', shared_register('nbits_offset', "        self.nbits_offset = 0  # 201\n", '0')),
    ('A4-208-width-shared', shared_register('new_nbytes', "        self.new_nbytes = 0  # 208\n", '0')),
    ('A5-203-definition-shared', shared_register('nbits_of_new_refval', "        self.nbits_of_new_refval = 0  # 203\n", '0')),
    ('A6-bitmap-definition-state-shared', shared_register('bitmap_definition_state', "        self.bitmap_definition_state = BITMAP_NA\n", 'BITMAP_NA')),
    ('A7-207-modifier-shared', shared_register('bsr_modifier',
        "        self.bsr_modifier = BSRModifier(\n            nbits_increment=0, scale_increment=0, refval_factor=1\n        )  # 207\n",
        'BSRModifier(nbits_increment=0, scale_increment=0, refval_factor=1)')),
    # the Decoder recycles one CoderState per (compressed, n_subsets) and replaces it by a clean one only when the walk
    # has completed: after an aborted walk the next message with the same key starts on the dirty state
    ('A8-coder-state-recycled-cleaned-on-success-only', [
        (D, "        state = CoderState(bufr_message.is_compressed.value, bufr_message.n_subsets.value)\n",
            "        key = (bufr_message.is_compressed.value, bufr_message.n_subsets.value)\n"
            "        cache = self.__dict__.setdefault('_state_cache', {})\n"
            "        if key not in cache:\n"
            "            cache[key] = CoderState(*key)\n"
            "        state = cache[key]\n"),
        (D, "        return TemplateData(bufr_template,\n",
            "        cache[key] = CoderState(*key)\n        return TemplateData(bufr_template,\n")]),
    # new reference values: one dictionary for all states (203YYY writes into it, 203000 replaces the state's own)
    ('A9-new-refvals-shared', [(C, "        self.new_refvals = {}  # 2 03 255 to conclude, not cancel\n",
                                   "        self.new_refvals = _REFVALS  # 2 03 255 to conclude, not cancel\n"),
                               (C, "class CoderState(object):\n", "_REFVALS = {}\n\n\nclass CoderState(object):\n")]),
]


def main():
    names = sys.argv[1:]
    env = dict(os.environ)
    if os.environ.get('C12_BEHAVIOUR_ONLY'):
        env['VERIF_C12_NO_STATE_CHECK'] = '1'
    results = []
    for name, edits in MUT:
        if names and name not in names:
            continue
        ok = True
        for path, old, new in edits:
            full = os.path.join(REPO, path)
            src = open(full).read()
            if src.count(old) != 1:
                results.append((name, 'NOT-APPLICABLE (pattern count %d in %s: %r)' % (src.count(old), path, old[:50])))
                ok = False
                break
            open(full, 'w').write(src.replace(old, new))
        try:
            if ok:
                p = subprocess.run(['./check', 'C12', '--tier', 'quick'], cwd=VERIF, stdout=subprocess.PIPE,
                                   stderr=subprocess.STDOUT, text=True, env=env)
                lines = p.stdout.split('\n')
                viol = [l for l in lines if l.startswith('VIOLATION')]
                first = ''
                for i, l in enumerate(lines):
                    if l.startswith('VIOLATION') and i + 1 < len(lines):
                        first = lines[i + 1].strip()[:230]
                        break
                results.append((name, 'caught' if p.returncode == 1 and viol else 'MISSED (exit %d)' % p.returncode, len(viol), first))
                if p.returncode == 2:
                    print('\n'.join(lines[-15:]))
        finally:
            subprocess.run(['git', '-C', REPO, 'checkout', '--', '.'], check=True)
        print(results[-1], flush=True)
    print()
    for r in results:
        print(' | '.join(str(x) for x in r))


if __name__ == '__main__':
    main()
