"""
Planted-mutation self-test of the C16 quick check (second round: siblings of the seeded changes C16-1 / C16-2).
Usage (from the verif worktree):
    git -C /repo worktree add --detach /tmp/c16mut HEAD
    VERIF_REPO=/tmp/c16mut /venv/bin/python notes/C16_mutations.py [name fragment ...]
    git -C /repo worktree remove --force /tmp/c16mut
Each mutation is applied to the scratch worktree (uncommitted), `./check C16 --tier quick` is run and the worktree is
restored with `git checkout -- .`.  A mutation marked `preserving` does not change behaviour: the check must stay silent.
"""
import os
import subprocess
import sys

REPO = os.environ['VERIF_REPO']
HERE = os.path.dirname(os.path.dirname(os.path.abspath(__file__)))
F = 'pybufrkit/dataquery.py'

LOOP = """        for idx, node in enumerate(nodes):
            match = self.node_matches(node, path_component)
"""


def early(cond, needed):
    """an early exit of the sibling scan of filter_for_entities for child / attribute steps"""
    return ("""        slc = path_component.slice
        needed = None
        if path_component.separator != PATH_SEPARATOR_DESCEND and not isinstance(slc, int) and %s:
            needed = %s
        for idx, node in enumerate(nodes):
            if needed is not None and len(nodes_matched) >= needed:
                break
            match = self.node_matches(node, path_component)
""" % (cond, needed))


# (name, old, new, preserving)
MUTATIONS = [
    ('early exit [a:b:c] with a, b >= 0, c > 0 after b matches (behaviour preserving)', LOOP,
     early('slc.stop is not None and slc.stop >= 0 and (slc.start is None or slc.start >= 0) and (slc.step is None or slc.step > 0)', 'slc.stop'), True),
    ('early exit [a::-c] after a matches (needs a + 1)', LOOP,
     early('slc.step is not None and slc.step < 0 and slc.start is not None and slc.start >= 0', 'slc.start'), False),
    ('early exit [-k:] after k matches', LOOP,
     early('slc.start is not None and slc.start < 0 and slc.stop is None and (slc.step is None or slc.step > 0)', '-slc.start'), False),
    ('early exit [:-k] after k matches', LOOP,
     early('slc.stop is not None and slc.stop < 0 and slc.start is None and (slc.step is None or slc.step > 0)', '-slc.stop'), False),
    ('early exit [a:b] with b >= 0 after b - 1 matches when a > 0', LOOP,
     early('slc.stop is not None and slc.stop > 0 and slc.start is not None and slc.start > 0 and slc.step is None', 'slc.stop - 1'), False),
    ('kept nodes dropped for > under a slice', '            filtered_nodes = nodes_matched[path_component.slice] + nodes_kept\n',
     '            filtered_nodes = nodes_matched[path_component.slice] + (nodes_kept if path_component.slice == slice(None, None, None) else [])\n', False),
    ('slice applied to matches and kept nodes together', '            filtered_nodes = nodes_matched[path_component.slice] + nodes_kept\n',
     '            filtered_nodes = sorted(nodes_matched + nodes_kept, key=lambda x: x[0])[path_component.slice]\n', False),
    ('no document order for negative steps', '            for (idx, node) in sorted(filtered_nodes, key=lambda x: x[0])\n',
     '            for (idx, node) in filtered_nodes\n', False),
    ('nodes of the k-th subset for the k-th selected subset',
     '        for i_subset in subset_indices:\n            decoded_values = template_data.decoded_values_all_subsets[i_subset]\n\n            nodes = self.process_one_subset(\n                template_data.decoded_nodes_all_subsets[i_subset],',
     '        for k_subset, i_subset in enumerate(subset_indices):\n            decoded_values = template_data.decoded_values_all_subsets[i_subset]\n\n            nodes = self.process_one_subset(\n                template_data.decoded_nodes_all_subsets[k_subset],', False),
    ('matched nodes reused between subsets with flat lists of equal length',
     '        for i_subset in subset_indices:\n            decoded_values = template_data.decoded_values_all_subsets[i_subset]\n\n            nodes = self.process_one_subset(\n                template_data.decoded_nodes_all_subsets[i_subset],\n                node_path\n            )\n',
     '        nodes, n_prev = None, None\n        for i_subset in subset_indices:\n            decoded_values = template_data.decoded_values_all_subsets[i_subset]\n\n            if nodes is None or len(decoded_values) != n_prev:\n                nodes = self.process_one_subset(template_data.decoded_nodes_all_subsets[i_subset], node_path)\n                n_prev = len(decoded_values)\n', False),
    ('matched nodes reused between subsets with equal descriptors AND equal bitmap values (031031), links of markers ignored',
     '        for i_subset in subset_indices:\n            decoded_values = template_data.decoded_values_all_subsets[i_subset]\n\n            nodes = self.process_one_subset(\n                template_data.decoded_nodes_all_subsets[i_subset],\n                node_path\n            )\n',
     '        nodes, prev = None, None\n        for i_subset in subset_indices:\n            decoded_values = template_data.decoded_values_all_subsets[i_subset]\n            dd = template_data.decoded_descriptors_all_subsets[i_subset]\n            key = (dd, [v for d, v in zip(dd, decoded_values) if d.id in (31001, 31002)])\n            if nodes is None or key != prev:\n                nodes = self.process_one_subset(template_data.decoded_nodes_all_subsets[i_subset], node_path)\n                prev = key\n', False),
    ('envelope dropped for a replication with one repetition that matches',
     '            return [replication_envelope] if replication_envelope else []\n',
     '            return ([replication_envelope] if len(replication_envelope) > 1 else replication_envelope) if replication_envelope else []\n', False),
    ('empty envelope for a zero-count replication', '            if len(node.members) == 0:\n                return []\n',
     '            if len(node.members) == 0:\n                return [[]]\n', False),
    ('attribute step also matches members',
     "        if hasattr(node, 'attributes'):\n            sub_nodes += self.filter_for_nodes(node.attributes, path_component)\n",
     "        if hasattr(node, 'attributes'):\n            sub_nodes += self.filter_for_nodes(node.attributes, path_component)\n        if hasattr(node, 'members'):\n            sub_nodes += self.filter_for_nodes(node.members, path_component)\n", False),
    ('factor and attributes sliced as one list',
     "        sub_nodes = []\n        if isinstance(node, DelayedReplicationNode):\n            sub_nodes += self.filter_for_nodes([node.factor], path_component)\n\n        if hasattr(node, 'attributes'):\n            sub_nodes += self.filter_for_nodes(node.attributes, path_component)\n",
     "        sub_nodes = self.filter_for_nodes(([node.factor] if isinstance(node, DelayedReplicationNode) else []) + list(getattr(node, 'attributes', [])), path_component)\n", True),
    ('subset selector: negative stop clamped to the end', '            else list(range(bufr_message.n_subsets.value))[node_path.subset_slice]\n',
     '            else list(range(bufr_message.n_subsets.value))[slice(node_path.subset_slice.start, None if (node_path.subset_slice.stop or 0) < -bufr_message.n_subsets.value else node_path.subset_slice.stop, node_path.subset_slice.step)]\n', False),
]


def main():
    only = sys.argv[1:]
    results = []
    for name, old, new, preserving in MUTATIONS:
        if only and not any(o in name for o in only):
            continue
        path = os.path.join(REPO, F)
        with open(path) as f:
            src = f.read()
        if src.count(old) != 1:
            raise SystemExit('mutation target not found exactly once: %s (%d)' % (name, src.count(old)))
        try:
            with open(path, 'w') as f:
                f.write(src.replace(old, new))
            p = subprocess.run(['./check', 'C16', '--tier', 'quick'], cwd=HERE, stdout=subprocess.PIPE, stderr=subprocess.STDOUT, text=True)
            out = p.stdout.split('\n')
            lines = [l for l in out if l.startswith('VIOLATION')]
            first = ''
            for i, l in enumerate(out):
                if l.startswith('VIOLATION') and i + 1 < len(out):
                    first = out[i + 1].strip()[:150]
                    break
            caught = p.returncode == 1 and bool(lines)
            ok = (not caught and p.returncode == 0) if preserving else caught
            results.append((name, ok))
            print('%-100s %s (exit %d, %d VIOLATION lines) %s' % (name, ('SILENT' if ok else 'FALSE ALARM') if preserving else ('CAUGHT' if caught else 'MISSED'),
                                                                 p.returncode, len(lines), first))
            sys.stdout.flush()
        finally:
            subprocess.run(['git', '-C', REPO, 'checkout', '--', '.'], check=True)
    print('%d/%d as expected' % (sum(1 for r in results if r[1]), len(results)))


if __name__ == '__main__':
    main()
