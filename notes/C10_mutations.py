"""
Mutation self-test of the C10 check, history part (siblings of seeded/C10-3): each planted change is applied to a scratch
copy of the repo (VERIF_REPO points at it); the quick check must exit 1 with a VIOLATION line.
    /venv/bin/python notes/C10_mutations.py [name-prefix ...]          (run from the verif worktree)
One check at a time (every check uses up to 16 processes itself).
"""
import os
import shutil
import subprocess
import sys
import tempfile

VERIF = os.path.dirname(os.path.dirname(os.path.abspath(__file__)))
REPO = os.environ.get('VERIF_REPO', '/repo')
BUFR = 'pybufrkit/bufr.py'
ENC = 'pybufrkit/encoder.py'

SELECT = ("                    section_data.append(\n"
          "                        [v for i, v in enumerate(parameter.value.decoded_values_all_subsets)\n"
          "                         if i in subset_indices]\n"
          "                    )\n")
CHECKS_END = "            raise PyBufrKitError('minimum subset index out of range')\n"
RETURN = "            data.append(section_data)\n        return data\n"

MUTATIONS = [
    # result and source share a list that the code as it is builds afresh
    ('full-selection-returns-the-sources-row-list', [(BUFR, SELECT,
     "                    section_data.append(\n"
     "                        parameter.value.decoded_values_all_subsets if n_subsets == self.n_subsets.value else\n"
     "                        [v for i, v in enumerate(parameter.value.decoded_values_all_subsets)\n"
     "                         if i in subset_indices]\n"
     "                    )\n")]),
    # ... and the encoder changes the value lists it is given (they are the source's own lists)
    ('encoder-writes-the-missing-pattern-back-into-its-input', [(ENC,
     "        else:\n            value = NUMERIC_MISSING_VALUES[nbits]\n        bit_writer.write_uint(value, nbits)\n",
     "        else:\n            value = NUMERIC_MISSING_VALUES[nbits]\n            state.decoded_values[state.idx_value - 1] = value\n"
     "        bit_writer.write_uint(value, nbits)\n")]),
    ('encoder-reverses-the-list-of-value-lists-after-writing', [(ENC,
     "        section_parameter.value = TemplateData(bufr_template,\n",
     "        if not bufr_message.is_compressed.value:\n"
     "            section_parameter.value.reverse()\n"
     "        section_parameter.value = TemplateData(bufr_template,\n")]),
    ('subset-sorts-the-callers-index-list', [(BUFR, CHECKS_END, CHECKS_END + "        subset_indices.sort()\n")]),
    ('source-n_subsets-parameter-updated', [(BUFR, RETURN,
     "            data.append(section_data)\n        self.n_subsets.value = n_subsets\n        return data\n")]),
    ('source-is_compressed-cleared-for-single-subset-results', [(BUFR, RETURN,
     "            data.append(section_data)\n        if n_subsets == 1:\n            self.is_compressed.value = False\n        return data\n")]),
    ('cached-result-for-an-equal-index-tuple', [
        (BUFR, CHECKS_END, CHECKS_END +
         "        cache = self.__dict__.setdefault('_subset_cache', {})\n"
         "        if tuple(subset_indices) in cache:\n"
         "            return cache[tuple(subset_indices)]\n"),
        (BUFR, RETURN, "            data.append(section_data)\n        cache[tuple(subset_indices)] = data\n        return data\n")]),
    ('cache-by-selected-set-outer-list-copied-only', [
        (BUFR, CHECKS_END, CHECKS_END +
         "        cache = self.__dict__.setdefault('_subset_cache', {})\n"
         "        if frozenset(subset_indices) in cache:\n"
         "            return list(cache[frozenset(subset_indices)])\n"),
        (BUFR, RETURN, "            data.append(section_data)\n        cache[frozenset(subset_indices)] = data\n        return list(data)\n")]),
    ('section-3-list-shared-by-all-results', [(BUFR, "            data.append(section_data)\n",
     "            if any(p.name == 'n_subsets' for p in section):\n"
     "                shared = self.__dict__.setdefault('_subset_s3', section_data)\n"
     "                shared[:] = section_data\n"
     "                section_data = shared\n"
     "            data.append(section_data)\n")]),
    ('list-of-value-lists-shared-by-all-results', [(BUFR, SELECT,
     "                    shared = self.__dict__.setdefault('_subset_rows', [])\n"
     "                    shared[:] = [v for i, v in enumerate(parameter.value.decoded_values_all_subsets)\n"
     "                                 if i in subset_indices]\n"
     "                    section_data.append(shared)\n")]),
    ('refused-call-leaves-the-count-behind', [(BUFR,
     "        if max(subset_indices) >= self.n_subsets.value:\n            raise PyBufrKitError('maximum subset index out of range')\n",
     "        if max(subset_indices) >= self.n_subsets.value:\n"
     "            self._refused = len(set(subset_indices))\n"
     "            raise PyBufrKitError('maximum subset index out of range')\n"),
     (BUFR, "        n_subsets = len(set(subset_indices))\n",
      "        n_subsets = self.__dict__.pop('_refused', None) or len(set(subset_indices))\n")]),
    # stand-in for seeded/C10-2 (its patch no longer applies to the encoder after the F18 repair): "all non-missing values
    # coincide" taken for "all values are equal" in a compressed code/flag column
    ('compressed-codeflag-all-equal-ignores-missing (seeded C10-2 mechanism)', [(ENC,
     "        elif all_equal:\n            min_value = values[0]\n            nbits_diff = 0\n",
     "        elif all_equal or len(set(v for v in values if v is not None)) == 1:\n"
     "            min_value = [v for v in values if v is not None][0]\n            nbits_diff = 0\n")]),
]


def run_one(m, scratch):
    name, edits = m
    d = os.path.join(scratch, name.split(' ')[0])
    shutil.copytree(REPO, d, ignore=shutil.ignore_patterns('.git', '__pycache__', '*.pyc'))
    for path, old, new in edits:
        p = os.path.join(d, path)
        s = open(p).read()
        if old not in s:
            shutil.rmtree(d)
            return name, 'NOT-APPLICABLE', ''
        open(p, 'w').write(s.replace(old, new, 1))
    env = dict(os.environ, VERIF_REPO=d)
    r = subprocess.run(['./check', 'C10', '--tier', 'quick'], cwd=VERIF, env=env, stdout=subprocess.PIPE, stderr=subprocess.STDOUT, text=True)
    lines = r.stdout.split('\n')
    viol = [l for l in lines if l.startswith('VIOLATION')]
    kinds = []
    for i, l in enumerate(lines):
        if l.startswith('VIOLATION') and i + 1 < len(lines):
            k = lines[i + 1].strip().split(' ')[0] + (' (history)' if 'history(' in lines[i + 1] else '')
            if k not in kinds:
                kinds.append(k)
    shutil.rmtree(d)
    return name, ('CAUGHT' if r.returncode == 1 and viol else 'MISSED rc=%d %s' % (r.returncode, lines[-2][:200] if len(lines) > 1 else '')), ', '.join(kinds)


if __name__ == '__main__':
    scratch = tempfile.mkdtemp(prefix='c10mut_', dir='/tmp')
    want = sys.argv[1:]
    res = []
    for m in MUTATIONS:
        if want and not any(m[0].startswith(w) for w in want):
            continue
        r = run_one(m, scratch)
        res.append(r)
        print('%-75s %s   %s' % r)
        sys.stdout.flush()
    shutil.rmtree(scratch, ignore_errors=True)
    subprocess.run(['git', 'checkout', '--', 'evidence'], cwd=VERIF)
    print('%d/%d caught' % (sum(1 for r in res if r[1] == 'CAUGHT'), len(res)))
