"""Demonstration for notes/C11_fix_tabledef_on_rejected.diff (F25), on the implementation alone.
Run:  PYTHONPATH=<checkout of pybufrkit> /venv/bin/python notes/C11_f25_demo.py [<path of tests/data/prepbufr.bufr>]
Exit 0 = a filter yields exactly the messages for which it is true, each decoded as the unfiltered scan decodes it, and no
non-library exception leaves the scan; 1 = not so.

tests/data/prepbufr.bufr starts with table-definition messages (data category 11) that define the descriptors of the
messages that follow.  A filter that rejects a definition message made generate_bufr_message run the table-definition
processor on the METADATA-ONLY decode of that message (AttributeError '_template_data'): the scan aborted."""
from __future__ import print_function
import os
import sys

import pybufrkit
from pybufrkit.decoder import Decoder, generate_bufr_message
from pybufrkit.renderer import FlatJsonRenderer
from pybufrkit.tables import TableGroupCache, TableGroupCacheManager

PATH = sys.argv[1] if len(sys.argv) > 1 else os.path.join(
    os.path.dirname(os.path.dirname(os.path.abspath(pybufrkit.__file__))), 'tests', 'data', 'prepbufr.bufr')


def scan(filter_expr=None, info_only=False):
    TableGroupCacheManager._TABLE_GROUP_CACHE = TableGroupCache()   # every scan starts without in-stream definitions
    with open(PATH, 'rb') as f:
        s = f.read()
    try:
        out = []
        for m in generate_bufr_message(Decoder(), s, info_only=info_only, filter_expr=filter_expr):
            out.append((m.data_category.value, m.n_subsets.value, len(m.serialized_bytes),
                        None if info_only else FlatJsonRenderer().render(m)))
        return out
    except Exception as e:  # noqa
        return 'raised %s: %s' % (type(e).__name__, e)


def main():
    bad = 0
    plain = scan()
    if isinstance(plain, str):
        print('unfiltered scan', plain)
        return 1
    cats = sorted(set(c for c, _, _, _ in plain))
    print('unfiltered: %d messages, data categories %s' % (len(plain), cats))
    for expr, keep in (('${%data_category} != 11', lambda c: c != 11), ('${%data_category} == 11', lambda c: c == 11),
                       ('${%data_category} == 999', lambda c: False)):
        want = [x for x in plain if keep(x[0])]
        got = scan(expr)
        ok = got == want
        print('%-28s full     : %s' % (expr, 'ok, %d messages with the values of the unfiltered scan' % len(got) if ok else
                                        (got if isinstance(got, str) else 'DIFFERS (%d yielded, %d expected)' % (len(got), len(want)))))
        bad += not ok
        info_plain = scan(info_only=True)
        got_i = scan(expr, info_only=True)
        want_i = [x for x in info_plain if keep(x[0])] if not isinstance(info_plain, str) else info_plain
        ok = got_i == want_i
        print('%-28s info-only: %s' % (expr, 'ok, %d messages' % len(got_i) if ok else got_i if isinstance(got_i, str) else 'DIFFERS'))
        bad += not ok
    return 1 if bad else 0


if __name__ == '__main__':
    sys.exit(main())
