"""Planted-mutation self-test for C18: python notes/C18_mutations.py <repo> <verif> [M1 M2 ...]
Every mutation must give exit 1 and a VIOLATION line in the quick tier; the file is restored afterwards."""
import subprocess, sys, os, re
REPO, VERIF = sys.argv[1], sys.argv[2]   # worktrees: pybufrkit checkout, verification framework
F=REPO+'/pybufrkit/script.py'
orig=open(F).read()
MUTS=[
 ('M1 # recognised inside quotes', "elif c == '#' and state == STATE_IDLE:", "elif c == '#' and state != STATE_COMMENT:"),
 ('M2 fresh name for every occurrence', "if s not in substitutions:", "if True:"),
 ('M3 level 2 and 4 swapped', "elif data_values_nest_level == DATA_VALUES_NEST_LEVEL_2:\n            return qr.all_values(flat=True)\n\n        else:  # No flatten, fully nested\n            return qr.all_values()",
      "elif data_values_nest_level == DATA_VALUES_NEST_LEVEL_2:\n            return qr.all_values()\n\n        else:  # No flatten, fully nested\n            return qr.all_values(flat=True)"),
 ('M4 strip -> lstrip', "s = ''.join(query_expr).strip()", "s = ''.join(query_expr).lstrip()"),
 ('M5 pragma beats argument', "        # Read pragma from inside the script\n        self.process_pragma()\n\n        # Pragma passed from function call has higher priority\n        if data_values_nest_level is not None:\n            self.pragma['data_values_nest_level'] = data_values_nest_level\n",
      "        if data_values_nest_level is not None:\n            self.pragma['data_values_nest_level'] = data_values_nest_level\n        self.process_pragma()\n"),
 ('M6 metadata_only any instead of all', "        self.metadata_only = True\n        for query_str in self.substitutions.keys():\n            if not query_str.startswith('%'):\n                self.metadata_only = False\n                break",
      "        self.metadata_only = any(q.startswith('%') for q in self.substitutions.keys()) or not self.substitutions"),
 ('M7 newline does not end a comment when followed by nothing special (comment never ends)', "elif c == '\\n' and state == STATE_COMMENT:\n            state = STATE_IDLE", "elif c == '\\n' and state == STATE_COMMENT:\n            state = STATE_COMMENT"),
 ('M8 lone $ dropped', "                idx_char += 1\n            else:\n                keep.append(c)", "                idx_char += 1\n            else:\n                pass"),
 ('M9 level 0 returns last element', "return values[0] if len(values) > 0 else None", "return values[-1] if len(values) > 0 else None"),
 ('M10 variables bound under the expression instead of the name', "varname: self.get_query_result(bufr_message, query_string)", "query_string: self.get_query_result(bufr_message, query_string)"),
 ('M11 a quote of the other kind closes a literal', "if state == c:  # quoting pair found, pop it", "if state in (\"'\", '\"'):  # quoting pair found, pop it"),
 ('M12 counter advances on repeated expressions too', "                else:\n                    varname = substitutions[s]", "                else:\n                    varname = substitutions[s]\n                    idx_var += 1"),
 ('M13 PBK_FILENAME not bound', "                'PBK_FILENAME': bufr_message.filename,\n", ""),
 ('M14 quotes inside a comment open a literal', "elif state == '':  # new quote begins", "elif state in ('', '#'):  # new quote begins"),
 ('M15 level 1 concatenates in reverse subset order', "            values = qr.all_values(flat=True)\n            return functools.reduce(lambda x, y: x + y, values, [])", "            values = qr.all_values(flat=True)\n            return functools.reduce(lambda x, y: y + x, values, [])"),
 ('M16 metadata_only tested on unstripped prefix "%l" only', "if not query_str.startswith('%'):", "if not query_str.startswith('%l'):"),
 ('M17 pragma line read from line[2:]', "for assignment in line[3:].split(','):", "for assignment in line[2:].split(','):"),
 ('M18 expression buffer not reset after }', "                query_expr = []\n                if s not in", "                if s not in"),
 ('M19 strip of ASCII blanks only', "s = ''.join(query_expr).strip()", "s = ''.join(query_expr).strip(' \\t\\n\\r\\x0b\\x0c')"),
 ('M20 lookahead without bounds check', "if idx_char + 1 < len(input_string) and input_string[idx_char + 1] == '{':", "if input_string[idx_char + 1] == '{':"),
 ('M24 late pragma lines honoured', "            if not line.startswith('#$'):\n                return", "            if not line.startswith('#$'):\n                continue"),
 ('M25 level 4 for any unknown level only when > 2 (level 3 flattened like 2)', "elif data_values_nest_level == DATA_VALUES_NEST_LEVEL_2:", "elif data_values_nest_level in (2, 3):"),
 ('M26 embed also recognised inside double quotes', "elif c == '$' and state == STATE_IDLE:  # an unquoted $", "elif c == '$' and state in (STATE_IDLE, STATE_DOUBLE_QUOTE):  # an unquoted $"),
]
sel=sys.argv[3:]
res=[]
for name,a,b in MUTS:
    if sel and not any(name.startswith(x+' ') for x in sel): continue
    if orig.count(a)!=1:
        print('PATTERN PROBLEM', name, orig.count(a)); continue
    open(F,'w').write(orig.replace(a,b))
    try:
        p=subprocess.run(['./check','C18','--tier','quick'],cwd=VERIF,env=dict(os.environ,VERIF_REPO=REPO),stdout=subprocess.PIPE,stderr=subprocess.STDOUT,text=True)
    finally:
        open(F,'w').write(orig)
    viol=[l for l in p.stdout.split('\n') if l.startswith('VIOLATION')]
    first=p.stdout.split('\n')
    det=''
    for i,l in enumerate(first):
        if l.startswith('VIOLATION'):
            det=first[i+1][:160]; break
    res.append((name,p.returncode,len(viol),det))
    print('%-60s rc=%d violations=%d  %s'%(name,p.returncode,len(viol),det)); sys.stdout.flush()
    if p.returncode==2: print(p.stdout[-1500:])
assert open(F).read()==orig
