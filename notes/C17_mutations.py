"""Planted-mutation self-test for the metadata-only part of C17 (siblings of seeded/C17-4):
    python notes/C17_mutations.py <scratch worktree of /repo> <verif worktree> [M1 M2 ...]
Every mutation must give exit 1 and a VIOLATION line in the quick tier; the files are restored afterwards."""
import os
import subprocess
import sys

REPO, VERIF = sys.argv[1], sys.argv[2]
assert os.path.abspath(REPO) != '/repo', 'use a scratch worktree'

SCAN_INFO = """            if info_only:
                bufr_message.serialized_bytes = s[idx_start: idx_start + bufr_message.length.value]
            else:
                if (bufr_message.data_category.value == DATA_CATEGORY_DEFINE_BUFR_TABLES
                        and bufr_message.n_subsets.value > 0):
                    _, b_entries, d_entries = BufrTableDefinitionProcessor().process(bufr_message)
                    TableGroupCacheManager.invalidate()
                    TableGroupCacheManager.add_extra_entries(b_entries, d_entries)
"""


def scan_info(cond, guard_open='', guard_close='', indent=''):
    """the info-only branch of generate_bufr_message extended by a full decode + registration under `cond`"""
    reg = ("                if (%s bufr_message.data_category.value == DATA_CATEGORY_DEFINE_BUFR_TABLES\n"
           "                        and bufr_message.n_subsets.value > 0):\n"
           "%s"
           "                    %sfull = decoder.process(bufr_message.serialized_bytes, start_signature=None, info_only=False, *args, **kwargs)\n"
           "                    %s_, b_entries, d_entries = BufrTableDefinitionProcessor().process(full)\n"
           "                    %sTableGroupCacheManager.invalidate()\n"
           "                    %sTableGroupCacheManager.add_extra_entries(b_entries, d_entries)\n"
           "%s") % (cond, guard_open, indent, indent, indent, indent, guard_close)
    return SCAN_INFO.replace("            else:\n", reg + "            else:\n", 1)


D = 'pybufrkit/decoder.py'
MUTS = [
    # (building the template in info-only mode - bufr_message.build_template(...) after the section loop - is NOT a violation
    #  and is not observable: template_from_ids never fails, unknown descriptors become Undefined* nodes, missing tables fall
    #  back to the defaults, and no bit of the data section is read.  M0 below is that edit; it is expected to pass.)
    ('M0 info-only decode builds the template - equivalent, expected rc=0', [
        (D, "        if not info_only and wire_template_data:\n            bufr_message.wire()",
            "        if info_only:\n            bufr_message.build_template(self.tables_root_dir, normalize=1)\n"
            "        if not info_only and wire_template_data:\n            bufr_message.wire()")]),
    ('M1 Decoder.process(info_only=True) decodes the data of table-definition messages (category 11, subsets > 0)', [
        (D, "            section = self.section_configurer.configure_section(bufr_message, section_index,\n",
            "            if (info_only and section_index == 4 and bufr_message.data_category.value == 11\n"
            "                    and bufr_message.n_subsets.value > 0):\n"
            "                configuration_transformers = configuration_transformers[1:]\n"
            "            section = self.section_configurer.configure_section(bufr_message, section_index,\n")]),
    ('M2 info-only scan checks the stop signature (reads section 5)', [
        (D, "                bufr_message.serialized_bytes = s[idx_start: idx_start + bufr_message.length.value]\n",
            "                bufr_message.serialized_bytes = s[idx_start: idx_start + bufr_message.length.value]\n"
            "                if bufr_message.serialized_bytes[-4:] != b'7777':\n"
            "                    raise PyBufrKitError('no stop signature')\n")]),
    ('M3 info-only scan takes the decoded span + 4 instead of the declared total length', [
        (D, "bufr_message.serialized_bytes = s[idx_start: idx_start + bufr_message.length.value]",
            "bufr_message.serialized_bytes = s[idx_start: idx_start + len(bufr_message.serialized_bytes) + 4]")]),
    ('M4 table registration on an info-only scan, only when continue_on_error', [(D, SCAN_INFO, scan_info('continue_on_error and'))]),
    ('M5 the filter is evaluated on a full decode', [
        (D, "                bufr_message = decoder.process(\n                    s[idx_start:], start_signature=None, info_only=True, *args, **kwargs\n                )\n                matched = sr.run(bufr_message)",
            "                bufr_message = decoder.process(\n                    s[idx_start:], start_signature=None, info_only=False, *args, **kwargs\n                )\n                matched = sr.run(bufr_message)")]),
    ('M6 table registration on an info-only scan, every failure swallowed (only the side effect remains)', [
        (D, SCAN_INFO, scan_info('', "                    try:\n", "                    except Exception:\n                        pass\n", '    '))]),
    ('M7 table registration on an info-only scan only with a filter', [(D, SCAN_INFO, scan_info('filter_expr and'))]),
    ('M8 table registration on an info-only scan for every category >= 240 with subsets (local categories)', [
        (D, SCAN_INFO, scan_info('').replace('bufr_message.data_category.value == DATA_CATEGORY_DEFINE_BUFR_TABLES\n                        and bufr_message.n_subsets.value > 0):\n                    full',
                                             'bufr_message.data_category.value >= 240\n                        and bufr_message.n_subsets.value > 0):\n                    full', 1))]),
    ('M9 info-only decode of compressed messages peeks into the data section', [
        (D, "        if not info_only and wire_template_data:\n            bufr_message.wire()",
            "        if info_only and bufr_message.is_compressed.value and bufr_message.n_subsets.value > 1:\n"
            "            off = sum(8 if x.get_metadata('index') == 0 else x.section_length.value for x in bufr_message.sections[:-1])\n"
            "            if s[off + 4:off + 5] == b'\\xff':\n"
            "                raise PyBufrKitError('compressed data start with a missing value')\n"
            "        if not info_only and wire_template_data:\n            bufr_message.wire()")]),
    ('M10 messages of master table 10 are decoded in full also when only the metadata are asked for', [
        (D, "            section = self.section_configurer.configure_section(bufr_message, section_index,\n",
            "            if info_only and section_index == 4 and bufr_message.master_table_number.value == 10:\n"
            "                configuration_transformers = configuration_transformers[1:]\n"
            "            section = self.section_configurer.configure_section(bufr_message, section_index,\n")]),
]

sel = sys.argv[3:]
for name, edits in MUTS:
    if sel and not any(name.startswith(x + ' ') for x in sel):
        continue
    origs = {}
    ok = True
    for f, a, b in edits:
        path = os.path.join(REPO, f)
        src = origs.get(path) or open(path).read()
        origs.setdefault(path, src)
        cur = open(path).read()
        if cur.count(a) != 1:
            print('PATTERN PROBLEM', name, f, cur.count(a))
            ok = False
            break
        open(path, 'w').write(cur.replace(a, b))
    try:
        if ok:
            rc = subprocess.run([sys.executable, '-c', 'import sys; sys.path.insert(0, %r); import pybufrkit.decoder, pybufrkit.bufr' % REPO],
                                stdout=subprocess.PIPE, stderr=subprocess.STDOUT, text=True)
            if rc.returncode != 0:
                print('MUTANT DOES NOT IMPORT', name, rc.stdout[-400:])
                ok = False
        if ok:
            p = subprocess.run(['./check', 'C17', '--tier', 'quick'], cwd=VERIF, env=dict(os.environ, VERIF_REPO=REPO),
                               stdout=subprocess.PIPE, stderr=subprocess.STDOUT, text=True)
    finally:
        for path, src in origs.items():
            open(path, 'w').write(src)
    if not ok:
        continue
    lines = p.stdout.split('\n')
    viol = [l for l in lines if l.startswith('VIOLATION')]
    det = ''
    for i, l in enumerate(lines):
        if l.startswith('VIOLATION'):
            det = lines[i + 1][:170]
            break
    print('%-90s rc=%d violations=%d  %s' % (name, p.returncode, len(viol), det))
    sys.stdout.flush()
    if p.returncode == 2:
        print(p.stdout[-1500:])
subprocess.run(['git', 'checkout', '--', 'evidence'], cwd=VERIF)
