"""Demonstration for notes/C16_fix_empty_selection_compressed.diff (F16c), on the implementation alone.
Run:  PYTHONPATH=<checkout of pybufrkit> /venv/bin/python notes/C16_fix_empty_selection_compressed_demo.py
Exit 0 = the same data stored compressed and uncompressed answer every query alike, 1 = they differ.

The same two subsets (001001 012001, values as below) are encoded uncompressed and compressed.  `@[7:]` designates no
subset; the path `/001001/012001` steps below a value node (QueryError when evaluated).  Uncompressed data never look at
the path when no subset is selected and return the empty result; query_compressed_data filters the shared node tree
BEFORE its (empty) loop over the subsets and raises."""
from __future__ import print_function
import sys

from pybufrkit.decoder import Decoder
from pybufrkit.dataquery import DataQuerent, NodePathParser

# 001001 012001, two subsets (11, 280.1) (12, 281.2), encoded by pybufrkit's own Encoder
MESSAGES = {
    False: '425546520000360400001600006200000000020400210007e4050607080900000b0000028001010c0100000900175e232bf037373737',
    True: '425546520000370400001600006200000000020400210007e4050607080900000b000002c001010c0100000a001610d788816037373737',
}


def answer(msg, expr):
    try:
        r = DataQuerent(NodePathParser()).query(msg, expr)
        return [r.subset_indices(), r.all_values()]
    except Exception as e:
        return type(e).__name__


bad = 0
msgs = {}
for compressed in (False, True):
    msgs[compressed] = Decoder().process(bytes.fromhex(MESSAGES[compressed]))
    assert bool(msgs[compressed].is_compressed.value) == compressed
for expr in ['/012001', '@[1:]/012001', '@[7:]/012001', '@[7:]/001001/012001', '@[2:2]/301011', '@[5:1]>001001>012001', '/001001/012001']:
    u, c = answer(msgs[False], expr), answer(msgs[True], expr)
    same = u == c
    bad += not same
    print('%-24s uncompressed %-34s compressed %-34s %s' % (expr, u, c, 'same' if same else 'DIFFERENT'))
print('C16: compressed and uncompressed data answer alike' if not bad else 'C16 VIOLATED on %d queries' % bad)
sys.exit(1 if bad else 0)
