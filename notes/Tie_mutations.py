"""Planted-mutation self-test of the source tie (harness/py2lean.py + the `Cxx_src_*` theorems).

    python notes/Tie_mutations.py <scratch worktree of /repo> <verif worktree> [ids ...]

For every entry the Python source of the scratch tree is edited, `VERIF_REPO=<scratch> ./check <Cxx> --tier quick`
is run, and the file is restored.

  kind 'change'      behaviour-changing edit: must give exit 1 and a VIOLATION line (with a failing input
                     from the correspondence run where one exists, `no-failing-input-found` otherwise)
  kind 'unsupported' the edit uses a construct outside the translated subset: must give exit 1 (broken tie)
  kind 'preserve'    behaviour-preserving rewrite: exit 0 (the tie survives) or exit 1 where EVERY violation
                     line ends in `no-failing-input-found` (an accepted false "obligation broken" report);
                     a violation with a failing input would be a bogus counterexample and is an error.
At the end the generated files are restored from the unchanged repository.
"""
import os
import re
import subprocess
import sys

REPO, VERIF = sys.argv[1], sys.argv[2]

S = 'pybufrkit/script.py'
C = 'pybufrkit/constants.py'
D = 'pybufrkit/descriptors.py'
U = 'pybufrkit/utils.py'
E = 'pybufrkit/encoder.py'
M = 'pybufrkit/mdquery.py'
B = 'pybufrkit/bufr.py'
T = 'pybufrkit/tables.py'
Q = 'pybufrkit/dataquery.py'
G = 'pybufrkit/decoder.py'
K = 'pybufrkit/coder.py'

MUTS = [
    # ---- stage A: constants ------------------------------------------------------------------
    ('A1', 'change', 'C05', C, 'NBITS_FOR_NBITS_DIFF = 6', 'NBITS_FOR_NBITS_DIFF = 5'),
    ('A2', 'change', 'C04', C, "MESSAGE_STOP_SIGNATURE = b'7777'", "MESSAGE_STOP_SIGNATURE = b'7778'"),
    ('A3', 'change', 'C19', C, 'for i in range(65)]', 'for i in range(64)]'),
    ('A4', 'change', 'C09', C, "INDENT_CHARS = '    '", "INDENT_CHARS = '  '"),
    ('A5', 'change', 'C17', 'pybufrkit/mdquery.py', "METADATA_QUERY_INDICATOR_CHAR = '%'", "METADATA_QUERY_INDICATOR_CHAR = '&'"),
    ('A6', 'change', 'C15', 'pybufrkit/dataquery.py', "STATE_START_SLICE_X = ':'", "STATE_START_SLICE_X = '['"),
    ('A7', 'change', 'C14', 'pybufrkit/tables.py', 'DEFAULT_MASTER_TABLE_VERSION = 33', 'DEFAULT_MASTER_TABLE_VERSION = 32'),
    ('A8', 'change', 'C07', 'pybufrkit/coder.py', 'BITMAP_BIT_COUNTING = 5', 'BITMAP_BIT_COUNTING = 4'),
    ('A9', 'change', 'C20', C, "UNITS_FLAG_TABLE = 'FLAG TABLE'", "UNITS_FLAG_TABLE = 'FLAG  TABLE'"),
    ('A10', 'change', 'C02', C, 'NUMERIC_MISSING_VALUES = [2 ** i - 1 for', 'NUMERIC_MISSING_VALUES = [2 ** i - 2 for'),
    ('A11', 'change', 'C11', C, "MESSAGE_START_SIGNATURE = b'BUFR'", "MESSAGE_START_SIGNATURE = b'BUFF'"),
    ('A12', 'unsupported', 'C19', C, 'NBITS_PER_BYTE = 8', "NBITS_PER_BYTE = int('8')"),
    ('A13', 'unsupported', 'C19', C, 'NUMERIC_MISSING_VALUES = [2 ** i - 1 for', 'NUMERIC_MISSING_VALUES = [(1 << i) - 1 for'),
    ('A14', 'preserve', 'C05', C, 'NBITS_FOR_NBITS_DIFF = 6', 'NBITS_FOR_NBITS_DIFF = 3 + 3'),
    ('A15', 'preserve', 'C19', C, 'NUMERIC_MISSING_VALUES = [2 ** i - 1 for i in', 'NUMERIC_MISSING_VALUES = [2 ** k - 1 for k in'),
    # ---- stage B: small pure functions ---------------------------------------------------------
    ('B1', 'change', 'C14', D, 'return self.id // 100000', 'return self.id // 10000'),
    ('B2', 'change', 'C14', D, 'return self.id // 1000 % 100', 'return self.id // 1000 % 10'),
    ('B3', 'change', 'C14', D, "        directly from the descriptor ID.\n        \"\"\"\n        return self.id % 1000",
     "        directly from the descriptor ID.\n        \"\"\"\n        return self.id % 100"),
    ('B4', 'change', 'C01', D, "    def operator_code(self):\n        return self.id // 1000", "    def operator_code(self):\n        return self.id // 100"),
    ('B5', 'change', 'C09', U, "return '*' * width if len(ret) > width else ret", "return '*' * width if len(ret) >= width else ret"),
    ('B6', 'change', 'C14', D, 'return (self.id // 1000) % 100', 'return (self.id // 100) % 100'),
    ('B7', 'change', 'C09', U, "pad_dir='>' if pad_left else '>'", "pad_dir='>' if pad_left else '<'"),
    ('B8', 'unsupported', 'C14', D, 'return self.id // 100000', 'return int(self.id / 100000)'),
    ('B9', 'preserve', 'C14', D, 'return self.id // 1000 % 100', 'return (self.id // 1000) % 100'),
    ('B10', 'preserve', 'C14', D, "        THe Y value of the descriptor.\n        \"\"\"\n        return self.id % 1000",
     "        THe Y value of the descriptor.\n        \"\"\"\n        return self.id - self.id // 1000 * 1000"),
    ('B11', 'preserve', 'C09', U, "pad_dir='>' if pad_left else '>'", "pad_dir='>'"),
    ('B12', 'change', 'C18', U, "            flat_values += flatten_list(entry)", "            flat_values = flatten_list(entry) + flat_values"),
    ('B13', 'change', 'C18', U, "        else:\n            flat_values.append(entry)\n    return flat_values", "        else:\n            flat_values = [entry]\n    return flat_values"),
    ('B14', 'unsupported', 'C18', U, "            flat_values += flatten_list(entry)", "            flat_values.extend(flatten_list(entry))"),
    ('B15', 'preserve', 'C18', U, "            flat_values += flatten_list(entry)", "            flat_values = flat_values + flatten_list(entry)"),
    ('B16', 'preserve', 'C18', U, "        else:\n            flat_values.append(entry)\n    return flat_values", "        else:\n            flat_values += [entry]\n    return flat_values"),
    # ---- stage C: the character state machine of script.py -----------------------------------------
    ('C1', 'change', 'C18', S, "elif c == '#' and state == STATE_IDLE:", "elif c == '#':"),
    ('C2', 'change', 'C18', S, "                # double/single quotes will be ignored\n                idx_char += 1\n",
     "                # double/single quotes will be ignored\n"),
    ('C3', 'change', 'C18', S, "s = ''.join(query_expr).strip()", "s = ''.join(query_expr).lstrip()"),
    ('C4', 'change', 'C18', S, 'if s not in substitutions:', 'if s not in substitutions or True:'),
    ('C5', 'change', 'C18', S, "varname = 'PBK_{}'.format(idx_var)", "varname = 'PBK{}'.format(idx_var)"),
    ('C6', 'change', 'C18', S, "if idx_char + 1 < len(input_string) and input_string[idx_char + 1] == '{':",
     "if input_string[idx_char + 1] == '{':"),
    ('C7', 'change', 'C18', S, "STATE_COMMENT = '#'", "STATE_COMMENT = '\"'"),
    ('C8', 'change', 'C18', S, "                query_expr = []\n                if s not in", "                if s not in"),
    ('C9', 'change', 'C18', S, "                else:\n                    varname = substitutions[s]",
     "                else:\n                    varname = substitutions[s]\n                    idx_var += 1"),
    ('C10', 'unsupported', 'C18', S, "            if state == c:  # quoting pair found, pop it", "            if state is c:  # quoting pair found, pop it"),
    ('C11', 'preserve', 'C18', S, '@rename c ch', ''),
    ('C12', 'preserve', 'C18', S, "    keep = []\n    state = ''\n", "    state = ''\n    keep = []\n"),
    ('C13', 'preserve', 'C18', S, "elif c == '#' and state == STATE_IDLE:", "elif state == STATE_IDLE and c == '#':"),
    ('C14', 'preserve', 'C18', S, "            if c == '}':\n                state = STATE_IDLE\n", "            if c == '}':\n                state = ''\n"),
    ('C15', 'preserve', 'C18', S, "        elif c == '\\n' and state == STATE_COMMENT:\n            state = STATE_IDLE\n            keep.append(c)\n\n        else:\n            keep.append(c)\n",
     "        else:\n            if c == '\\n' and state == STATE_COMMENT:\n                state = STATE_IDLE\n            keep.append(c)\n"),
    # ---- w5-smallsrc, stages SD / SE / SF: small self-contained functions ------------------------------------
    # encoder.py nbits_for_uint
    ('SD1', 'change', 'C02', E, "binx = bin(x)[2:]", "binx = bin(x)[1:]"),
    ('SD2', 'change', 'C02', E, "    if binx.count('1') == len(binx):\n        nbits += 1", "    if binx.count('1') == len(binx) + 1:\n        nbits += 1"),
    ('SD3', 'change', 'C05', E, "    if binx.count('1') == len(binx):\n        nbits += 1", "    if binx.count('1') == len(binx):\n        nbits += 2"),
    ('SD4', 'change', 'C02', E, "    if binx.count('1') == len(binx):\n        nbits += 1", "    if binx.count('0') == len(binx):\n        nbits += 1"),
    ('SD5', 'unsupported', 'C02', E, "binx = bin(x)[2:]", "binx = '{:b}'.format(x)"),
    ('SD6', 'preserve', 'C02', E, "    nbits = len(binx)\n", "    nbits = 0\n    nbits += len(binx)\n"),
    ('SD7', 'preserve', 'C02', E, "    if binx.count('1') == len(binx):\n        nbits += 1", "    if binx.count('0') == 0:\n        nbits += 1"),
    # mdquery.py MetadataExprParser.parse
    ('SE1', 'change', 'C17', M, "metadata_expr[1:].split('.')", "metadata_expr.split('.')"),
    ('SE2', 'change', 'C17', M, "metadata_expr = metadata_expr.strip()", "metadata_expr = metadata_expr.lstrip()"),
    ('SE3', 'change', 'C17', M, "            section_index = None\n", "            section_index = 0\n"),
    ('SE4', 'change', 'C17', M, "            except ValueError:\n", "            except IndexError:\n"),
    ('SE5', 'change', 'C17', M, "            metadata_name = metadata_expr[1:]\n", "            metadata_name = metadata_expr[2:]\n"),
    ('SE6', 'unsupported', 'C17', M, "section_index = int(section_index)", "section_index = int(section_index, 10)"),
    ('SE7', 'preserve', 'C17', M, "            section_index = None\n            metadata_name = metadata_expr[1:]\n",
     "            metadata_name = metadata_expr[1:]\n            section_index = None\n"),
    ('SE8', 'preserve', 'C17', M, "if '.' in metadata_expr:", "if metadata_expr.count('.') > 0:"),
    # bufr.py BufrMessage.subset (fragments subset_checks, subset_select)
    ('SF1', 'change', 'C10', B, "if max(subset_indices) >= self.n_subsets.value:", "if max(subset_indices) > self.n_subsets.value:"),
    ('SF2', 'change', 'C10', B, "if min(subset_indices) < 0:", "if min(subset_indices) < -1:"),
    ('SF3', 'change', 'C10', B, "n_subsets = len(set(subset_indices))", "n_subsets = len(subset_indices)"),
    ('SF4', 'change', 'C10', B, "                         if i in subset_indices]", "                         if i not in subset_indices]"),
    ('SF5', 'preserve', 'C10', B, "if min(subset_indices) < 0:", "if 0 > min(subset_indices):"),
    ('SF6', 'unsupported', 'C10', B, "n_subsets = len(set(subset_indices))", "n_subsets = len(frozenset(subset_indices))"),
    # dataquery.py NodePath.__str__ / slice_to_str (round 2)
    ('SG1', 'change', 'C15', Q, "else '@{}'.format(self.slice_to_str(self.subset_slice))", "else '#{}'.format(self.slice_to_str(self.subset_slice))"),
    ('SG2', 'change', 'C15', Q, "slc.stop if slc.stop is not None else '',", "slc.stop if slc.stop is not None else '0',"),
    ('SG3', 'change', 'C15', Q, "component.separator, component.id, self.slice_to_str(component.slice)", "component.id, component.separator, self.slice_to_str(component.slice)"),
    ('SG4', 'change', 'C15', Q, "else '[{}:{}:{}]'.format(", "else '[{}:{}:{}:]'.format("),
    ('SG5', 'preserve', 'C15', Q, "ret = '' if self.subset_slice is None else '@{}'.format(self.slice_to_str(self.subset_slice))",
     "ret = '@{}'.format(self.slice_to_str(self.subset_slice)) if self.subset_slice is not None else ''"),
    ('SG6', 'unsupported', 'C15', Q, "return '[{}]'.format(slc) if not", "return '[%s]' % slc if not"),
    # descriptors.py __str__ of the decoded descriptors (round 2)
    ('SH1', 'change', 'C16', D, "return 'A{:05d}'.format(self.id)", "return 'A{:06d}'.format(self.id)"),
    ('SH2', 'change', 'C01', D, "        return '{:06d}'.format(self.id)", "        return '{:05d}'.format(self.id)"),
    ('SH3', 'change', 'C16', D, "    224255: 'F',", "    224255: 'D',"),
    ('SH4', 'change', 'C09', D, "return 'S{:05d}'.format(self.id)", "return 's{:05d}'.format(self.id)"),
    ('SH5', 'change', 'C16', D, "marker_descriptor_prefix.get(self.marker_id, 'M'),", "marker_descriptor_prefix.get(self.marker_id, 'X'),"),
    ('SH6', 'preserve', 'C16', D, "return 'A{:05d}'.format(self.id)", "return 'A' + '{:05d}'.format(self.id)"),
    ('SH7', 'unsupported', 'C01', D, "        return '{:06d}'.format(self.id)", "        return '%06d' % self.id"),
    # mdquery.py MetadataQuerent.query (round 3)
    ('SI1', 'change', 'C17', M, "if s.get_metadata('index') == section_index or section_index is None]", "if s.get_metadata('index') != section_index or section_index is None]"),
    ('SI2', 'change', 'C17', M, "if parameter.name == metadata_name:", "if parameter.name != metadata_name:"),
    ('SI3', 'change', 'C17', M, "return parameter.value", "return parameter.name"),
    ('SI4', 'change', 'C17', M, "if s.get_metadata('index') == section_index or section_index is None]", "if s.get_metadata('index') == section_index]"),
    ('SI5', 'preserve', 'C17', M, "if s.get_metadata('index') == section_index or section_index is None]", "if section_index is None or s.get_metadata('index') == section_index]"),
    ('SI6', 'unsupported', 'C17', M, "for parameter in section:", "for parameter in list(section):"),
    # tables.py dispatch tests of template building (round 3)
    ('SJ1', 'change', 'C14', T, "        if id_ >= 300000:\n            descriptors.append(d.lookup(id_))", "        if id_ > 300000:\n            descriptors.append(d.lookup(id_))"),
    ('SJ2', 'change', 'C14', T, "        if id_ % 1000 == 0:\n            return DelayedReplicationDescriptor(id_)", "        if id_ % 100 == 0:\n            return DelayedReplicationDescriptor(id_)"),
    ('SJ3', 'change', 'C14', T, "        elif id_ >= 100000:\n            descriptor = r.lookup(id_)\n            if isinstance", "        elif id_ >= 110000:\n            descriptor = r.lookup(id_)\n            if isinstance"),
    ('SJ4', 'preserve', 'C14', T, "        if id_ >= 300000:\n            descriptors.append(d.lookup(id_))", "        if 300000 <= id_:\n            descriptors.append(d.lookup(id_))"),
    # tables.py _descriptors_from_ids_iter, the whole builder (final round)
    ('SK1', 'change', 'C14', T, "g = generate_quiet(range(descriptor.n_items), next_id)", "g = generate_quiet(range(descriptor.n_items + 1), next_id)"),
    ('SK2', 'change', 'C14', T, "            if isinstance(descriptor, DelayedReplicationDescriptor):\n                descriptor.factor = b.lookup(next_id())\n\n            g = generate_quiet(range(descriptor.n_items), next_id)\n            # TODO: check whether the actual number of members equals to n_items\n            descriptor.members = _descriptors_from_ids_iter(b, c, r, d, functools.partial(next, g))\n", "            g = generate_quiet(range(descriptor.n_items), next_id)\n            # TODO: check whether the actual number of members equals to n_items\n            descriptor.members = _descriptors_from_ids_iter(b, c, r, d, functools.partial(next, g))\n\n            if isinstance(descriptor, DelayedReplicationDescriptor):\n                descriptor.factor = b.lookup(next_id())\n"),
    ('SK3', 'change', 'C14', T, "descriptor.members = _descriptors_from_ids_iter(b, c, r, d, functools.partial(next, g))", "descriptor.members = []"),
    ('SK4', 'change', 'C14', T, "            descriptors.append(b.lookup(id_))\n\n    return descriptors", "            descriptors.append(c.lookup(id_))\n\n    return descriptors"),
    ('SK5', 'change', 'C14', T, "        elif id_ >= 200000:\n            descriptors.append(c.lookup(id_))", "        elif id_ >= 200000:\n            descriptors.append(d.lookup(id_))"),
    ('SK6', 'change', 'C14', T, "        if id_ >= 300000:\n            descriptors.append(d.lookup(id_))", "        if id_ >= 300000:\n            descriptors.append(b.lookup(id_))"),
    ('SK7', 'change', 'C14', T, "        except StopIteration:\n            break\n        if id_ >= 300000:", "        except StopIteration:\n            return []\n        if id_ >= 300000:"),
    ('SK8', 'preserve', 'C14', T, "        if id_ >= 300000:\n            descriptors.append(d.lookup(id_))", "        if 300000 <= id_:\n            descriptors.append(d.lookup(id_))"),
    ('SK9', 'preserve', 'C14', T, "            # TODO: check whether the actual number of members equals to n_items\n", ""),
    # descriptors.py BufrTemplate.original_descriptor_ids (last round)
    ('SL1', 'change', 'C14', D, "                members = member.members + members", "                members = members + member.members"),
    ('SL2', 'change', 'C14', D, "                if isinstance(member, DelayedReplicationDescriptor):\n                    ret.append(member.factor.id)\n", ""),
    ('SL3', 'change', 'C14', D, "            ret.append(member.id)\n            if isinstance(member, ReplicationDescriptor):", "            ret.append(member.id)\n            if isinstance(member, SequenceDescriptor):"),
    ('SL4', 'preserve', 'C14', D, "Get the list of descriptor IDs that can be used to instantiate the Template.", "The ids this template was built from."),
    # descriptors.py flat_member_ids (very last round)
    ('SM1', 'change', 'C14', D, "        if isinstance(member, SequenceDescriptor):\n            ret.extend(flat_member_ids(member))", "        if isinstance(member, SequenceDescriptor):\n            ret.append(member.id)\n            ret.extend(flat_member_ids(member))"),
    ('SM2', 'change', 'C14', D, "            ret.append(member.id)\n            ret.append(member.factor.id)\n            ret.extend(flat_member_ids(member))", "            ret.append(member.factor.id)\n            ret.append(member.id)\n            ret.extend(flat_member_ids(member))"),
    ('SM3', 'change', 'C14', D, "        elif isinstance(member, FixedReplicationDescriptor):\n            ret.append(member.id)\n            ret.extend(flat_member_ids(member))", "        elif isinstance(member, FixedReplicationDescriptor):\n            ret.append(member.id)"),
    ('SM4', 'preserve', 'C14', D, "    Return a flat list of expanded numeric IDs for the given descriptor.", "    The flat list of expanded numeric ids of the given descriptor."),
    # ---- stage D: the whole NodePathParser of dataquery.py (stateful class, C15_src_parse_eq) ----------------
    ('D1', 'change', 'C15', Q, "                if self.current_state == STATE_START_PARSING:\n                    self.current_state = STATE_START_SUBSET\n",
     "                if True:\n                    self.current_state = STATE_START_SUBSET\n"),
    ('D2', 'change', 'C15', Q, "            if self.current_slice_elements[0] >= 0:", "            if self.current_slice_elements[0] > 0:"),
    ('D3', 'change', 'C15', Q, "self.current_slice_elements[0] + 1 if self.current_slice_elements[0] != -1 else None,",
     "self.current_slice_elements[0] + 1,"),
    ('D4', 'change', 'C15', Q, "            ret = None if self.current_token == '' else int(self.current_token)\n            self.current_token = ''\n",
     "            ret = None if self.current_token == '' else int(self.current_token)\n"),
    ('D5', 'change', 'C15', Q, "    def handle_separator(self, c):\n        if self.current_state == STATE_START_PARSING",
     "    def handle_separator(self, c):\n        self.current_separator = c\n        if self.current_state == STATE_START_PARSING"),
    ('D6', 'change', 'C15', Q, "            if c in string.whitespace:\n", "            if c in string.whitespace and self.current_state != STATE_START_ID:\n"),
    ('D7', 'change', 'C15', Q, "            self.current_state = STATE_START_SLICE_0\n            self.current_id = self.convert_id()\n",
     "            self.current_state = STATE_START_SLICE_0\n"),
    ('D8', 'change', 'C15', Q, "        elif len(self.current_slice_elements) <= 3:  # 2 or 3", "        elif len(self.current_slice_elements) <= 4:  # 2 or 3"),
    ('D9', 'change', 'C15', Q, "            if self.current_state == STATE_START_SUBSET_SLICE_0:\n                self.current_state = STATE_START_SUBSET_SLICE_X\n",
     "            if self.current_state == STATE_START_SUBSET_SLICE_0:\n                self.current_state = STATE_START_SLICE_X\n"),
    ('D10', 'change', 'C15', Q, "        self.current_separator = None\n        self.current_slice_elements = []\n", "        self.current_separator = None\n"),
    ('D11', 'change', 'C15', Q, "        if (c == ']' and self.current_token == '' and\n            self.current_state in (STATE_START_SLICE_0,\n                                       STATE_START_SUBSET_SLICE_0)):\n            raise unexpected_char_error(c, self.pos)\n\n",
     ""),
    ('D12', 'change', 'C15', Q, "            if self.bare_id_matches_all:\n", "            if True:\n"),
    ('D13', 'change', 'C15', Q, "'@/>0123456789ABCDEFGHIJKLMNOPQRSTUVWXYZ'", "'@/>0123456789ABCDEFGHIJKLMNOPQRSTUVWXY'"),
    ('D14', 'change', 'C15', Q, "        if self.current_token == '':\n            raise PathExprParsingError('empty ID at position {}'.format(self.pos))\n\n", ""),
    ('D15', 'change', 'C15', Q, "        elif self.current_state == STATE_STOP_SLICE:\n            self.add_new_path_component()\n\n        elif self.current_token != '':",
     "        elif self.current_state in (STATE_STOP_SLICE, STATE_STOP_SUBSET_SLICE):\n            self.add_new_path_component()\n\n        elif self.current_token != '':"),
    ('D16', 'change', 'C15', Q, "        except ValueError:\n            raise PathExprParsingError('invalid slice syntax", "        except TypeError:\n            raise PathExprParsingError('invalid slice syntax"),
    ('D17', 'unsupported', 'C15', Q, "                    self.current_token += c\n\n                elif self.current_state == STATE_START_PARSING:",
     "                    self.current_token = ''.join([self.current_token, c])\n\n                elif self.current_state == STATE_START_PARSING:"),
    ('D18', 'unsupported', 'C15', Q, "        self.node_path.add_component(\n            PathComponent(self.current_separator, self.current_id, slc_obj)\n        )",
     "        self.node_path.components.append(\n            PathComponent(self.current_separator, self.current_id, slc_obj)\n        )\n        log.debug(slc_obj)"),
    ('D19', 'preserve', 'C15', Q, '@renameparse c ch', ''),
    ('D20', 'preserve', 'C15', Q, "        self.current_id = None\n        self.current_separator = None\n", "        self.current_separator = None\n        self.current_id = None\n"),
    ('D21', 'preserve', 'C15', Q, "            elif c in (':', ']'):", "            elif c == ':' or c == ']':"),
    ('D22', 'preserve', 'C15', Q, "        if self.current_state == STATE_START_PARSING and c != PATH_SEPARATOR_ATTRIB:",
     "        if c != PATH_SEPARATOR_ATTRIB and self.current_state == STATE_START_PARSING:"),
    ('D23', 'preserve', 'C15', Q, "        token, self.current_token = self.current_token, ''\n", "        token = self.current_token\n        self.current_token = ''\n"),
    ('D24', 'preserve', 'C15', Q, "        if len(self.current_slice_elements) == 0:", "        if self.current_slice_elements == []:"),
    # ---- stage E (worker w5-codersrc): CoderState methods and Coder.process_operator_descriptor --------------
    ('E1', 'change', 'C01', K, "state.nbits_offset = (operand_value - 128) if operand_value else 0",
     "state.nbits_offset = (operand_value - 127) if operand_value else 0"),
    ('E2', 'change', 'C01', K, "nbits_increment=(10 * operand_value + 2) // 3,", "nbits_increment=(10 * operand_value) // 3,"),
    ('E3', 'change', 'C01', K, "                if operand_value == 0:\n                    state.cancel_new_refvals()\n",
     "                if operand_value == 0:\n                    pass\n"),
    ('E4', 'change', 'C01', K, "            if operand_value == 0:\n                state.nbits_of_associated.pop()\n            else:\n                state.nbits_of_associated.append(operand_value)\n",
     "            if operand_value != 0:\n                state.nbits_of_associated.pop()\n            else:\n                state.nbits_of_associated.append(operand_value)\n"),
    ('E5', 'change', 'C06', K, "        self.nbits_offset = 0  # 201\n", ""),
    ('E6', 'change', 'C07', K, "        self.bitmap = None\n        self.bitmapped_descriptors = None\n\n    def cancel_new_refvals",
     "        self.bitmap = None\n\n    def cancel_new_refvals"),
    ('E7', 'change', 'C01', K, "                if state.most_recent_bitmap_is_for_reuse:\n                    state.cancel_bitmap()\n",
     "                state.cancel_bitmap()\n"),
    ('E8', 'change', 'C01', K, "            state.nbits_of_skipped_local_descriptor = operand_value\n\n        elif operator_code == 207:",
     "            state.new_nbytes = operand_value\n\n        elif operator_code == 207:"),
    ('E9', 'change', 'C01', K, "                state.bitmap_definition_state = BITMAP_INDICATOR\n                state.mark_back_reference_boundary()\n",
     "                state.bitmap_definition_state = BITMAP_INDICATOR\n"),
    ('E10', 'change', 'C07', K, "        self.back_reference_boundary = len(self.decoded_descriptors)\n",
     "        self.back_reference_boundary = len(self.decoded_descriptors) - 1\n"),
    ('E11', 'change', 'C07', K, "    def recall_bitmap(self):\n        self.next_bitmapped_descriptor = functools.partial(next, iter(self.bitmapped_descriptors))",
     "    def recall_bitmap(self):\n        self.next_bitmapped_descriptor = functools.partial(next, iter(self.back_referenced_descriptors))"),
    ('E12', 'change', 'C07', K, "        self.bitmap_links[len(self.decoded_descriptors)] = idx_descriptor",
     "        self.bitmap_links[len(self.decoded_descriptors) + 1] = idx_descriptor"),
    ('E13', 'change', 'C06', K, "        # should NOT affect this subset. Also we do not care about what is\n        # defined in previous subset so we are not saving them.\n        self.reset_template_state()\n",
     "        # should NOT affect this subset. Also we do not care about what is\n        # defined in previous subset so we are not saving them.\n"),
    ('E14', 'change', 'C01', K, "                if operator_code == 222:\n                    state.status_qa_info_follows = QA_INFO_WAITING",
     "                if operator_code == 223:\n                    state.status_qa_info_follows = QA_INFO_WAITING"),
    ('E15', 'change', 'C01', K, "refval_factor=10 ** operand_value,", "refval_factor=10 ** (operand_value + 1),"),
    ('E16', 'change', 'C06', K, "        self.nbits_of_associated = []  # 204\n", ""),
    ('E17', 'unsupported', 'C06', K, "        self.new_refvals = {}  # 2 03 255 to conclude, not cancel", "        self.new_refvals = dict()  # 2 03 255 to conclude, not cancel"),
    ('E18', 'unsupported', 'C01', K, "                state.nbits_of_associated.pop()\n", "                del state.nbits_of_associated[-1]\n"),
    ('E19', 'preserve', 'C01', K, "state.nbits_offset = (operand_value - 128) if operand_value else 0",
     "state.nbits_offset = (operand_value - 128) if operand_value != 0 else 0"),
    ('E20', 'preserve', 'C06', K, "        self.nbits_offset = 0  # 201\n        self.scale_offset = 0  # 202\n", "        self.scale_offset = 0  # 202\n        self.nbits_offset = 0  # 201\n"),
    ('E21', 'preserve', 'C01', K, "        elif operator_code in (222, 223, 224, 225, 232):", "        elif operator_code in (232, 225, 224, 223, 222):"),
    ('E22', 'preserve', 'C07', K, "        self.back_referenced_descriptors = None\n        self.bitmap = None\n        self.bitmapped_descriptors = None\n",
     "        self.bitmapped_descriptors = None\n        self.bitmap = None\n        self.back_referenced_descriptors = None\n"),
    ('E23', 'preserve', 'C01', K, "            if operand_value == 0:\n                state.bsr_modifier = BSRModifier(\n                    nbits_increment=0, scale_increment=0, refval_factor=1\n                )",
     "            if operand_value == 0:\n                state.bsr_modifier = BSRModifier(0, 0, 1)"),
    # ---- stage F: the stream scanner decoder.generate_bufr_message (flow function, C11_src_generate_eq) ----------
    ('F1', 'change', 'C11', G, "            idx_start += len(bufr_message.serialized_bytes)\n", "            idx_start += len(bufr_message.serialized_bytes) - 1\n"),
    ('F2', 'change', 'C12', G, "                    idx_start += bufr_message.length.value\n", "                    idx_start += 1\n"),
    ('F3', 'change', 'C11', G, "                matched = sr.run(bufr_message)\n", "                matched = not sr.run(bufr_message)\n"),
    ('F4', 'change', 'C11', G, "bufr_message.serialized_bytes = s[idx_start: idx_start + bufr_message.length.value]",
     "bufr_message.serialized_bytes = s[:idx_start + bufr_message.length.value]"),
    ('F5', 'change', 'C11', G, "        idx_start = s.find(MESSAGE_START_SIGNATURE, idx_start)\n", "        idx_start = s.find(MESSAGE_START_SIGNATURE, idx_start + 1)\n"),
    ('F6', 'change', 'C11', G, "                    TableGroupCacheManager.invalidate()\n", ""),
    ('F7', 'change', 'C12', G, "            if not continue_on_error:\n                raise e\n", "            if continue_on_error:\n                raise e\n"),
    ('F8', 'change', 'C11', G, "        if idx_start < 0:\n            return\n", "        if idx_start <= 0:\n            return\n"),
    ('F9', 'change', 'C12', G, "            if info_only:\n                idx_start += 1\n", "            if info_only:\n                idx_start += 4\n"),
    ('F10', 'change', 'C12', G, "        except PyBufrKitError as e:\n", "        except Exception as e:\n"),
    ('F11', 'change', 'C11', G, "                if matched and not info_only:\n", "                if matched:\n"),
    ('F12', 'change', 'C12', G, "                except PyBufrKitError:\n                    idx_start += 1\n", "                except PyBufrKitError:\n                    idx_start += bufr_message.length.value\n"),
    ('F13', 'change', 'C11', G, "                    s[idx_start:], start_signature=None, info_only=info_only, *args, **kwargs\n", "                    s[idx_start:], start_signature=None, info_only=False, *args, **kwargs\n"),
    ('F14', 'unsupported', 'C11', G, "            matched = True\n            if filter_expr:", "            if filter_expr:"),
    ('F15', 'unsupported', 'C11', G, "            if matched:\n                yield bufr_message\n", "            if matched:\n                yield bufr_message\n                break\n"),
    ('F16', 'preserve', 'C11', G, "            idx_start += len(bufr_message.serialized_bytes)\n\n            if matched:\n                yield bufr_message\n",
     "            if matched:\n                yield bufr_message\n\n            idx_start += len(bufr_message.serialized_bytes)\n"),
    ('F17', 'preserve', 'C11', G, '@renamegen matched is_matched', ''),
    ('F18', 'preserve', 'C11', G, "        if idx_start < 0:\n            return\n", "        if idx_start == -1:\n            return\n"),
    ('F19', 'preserve', 'C12', G, "            print('Continuing on next message and ignoring error: {}'.format(e), file=sys.stderr)\n", "            print('Continuing with the next message, ignoring: {}'.format(e), file=sys.stderr)\n"),
    # ---- stage F/G (w5-codersrc, round 2): process_element_descriptor, process_bitmap_definition ----------------
    ('CF1', 'change', 'C01', K, "        if state.nbits_of_associated and X != 31:", "        if state.nbits_of_associated and X != 33:"),
    ('CF2', 'change', 'C01', K, "nbytes = state.new_nbytes if state.new_nbytes else descriptor.nbits // 8",
     "nbytes = state.new_nbytes if state.new_nbytes else descriptor.nbits // 4"),
    ('CF3', 'change', 'C01', K, "refval = descriptor.refval * state.bsr_modifier.refval_factor", "refval = descriptor.refval + state.bsr_modifier.refval_factor"),
    ('CF4', 'change', 'C07', K, "            if state.status_qa_info_follows == QA_INFO_PROCESSING:\n                state.status_qa_info_follows = QA_INFO_NA",
     "            if state.status_qa_info_follows == QA_INFO_PROCESSING:\n                state.status_qa_info_follows = QA_INFO_WAITING"),
    ('CF5', 'change', 'C01', K, "                     state.scale_offset +\n", "                     state.nbits_offset +\n"),
    ('CF6', 'preserve', 'C01', K, "nbytes = state.new_nbytes if state.new_nbytes else descriptor.nbits // 8",
     "nbytes = state.new_nbytes if state.new_nbytes != 0 else descriptor.nbits // 8"),
    ('CF7', 'preserve', 'C01', K, "        # Handle class 33 codes for QA information follows 222000 operator\n        if X == 33:",
     "        # Handle class 33 codes for QA information follows 222000 operator\n        if X == 30 + 3:"),
    ('CG1', 'change', 'C07', K, "            if descriptor.id == 31031:\n                state.bitmap_definition_state = BITMAP_BIT_COUNTING",
     "            if descriptor.id == 31021:\n                state.bitmap_definition_state = BITMAP_BIT_COUNTING"),
    ('CG2', 'change', 'C07', K, "            if descriptor.id == 31031:\n                state.n_031031 += 1\n            else:",
     "            if descriptor.id == 31031:\n                state.n_031031 += 2\n            else:"),
    ('CG3', 'change', 'C07', K, "                self.define_bitmap(state, state.most_recent_bitmap_is_for_reuse)\n                state.bitmap_definition_state = BITMAP_NA",
     "                self.define_bitmap(state, state.most_recent_bitmap_is_for_reuse)\n                state.bitmap_definition_state = BITMAP_INDICATOR"),
    ('CG4', 'change', 'C07', K, "                log.debug('Defining bitmap for reuse')\n                state.most_recent_bitmap_is_for_reuse = True",
     "                log.debug('Defining bitmap for reuse')\n                state.most_recent_bitmap_is_for_reuse = False"),
    ('CG5', 'preserve', 'C07', K, "                state.most_recent_bitmap_is_for_reuse = False\n                state.bitmap_definition_state = BITMAP_WAITING_FOR_BIT\n                state.n_031031 = 0",
     "                state.most_recent_bitmap_is_for_reuse = False\n                state.n_031031 = 0\n                state.bitmap_definition_state = BITMAP_WAITING_FOR_BIT"),
    # ---- stage H: the end of Decoder.process_section (fragment process_section_finish, C04_src_finish_section_eq) ----
    ('H1', 'change', 'C04', G, "            elif nbits_unread < 0:\n", "            elif nbits_unread < -8:\n"),
    ('H2', 'change', 'C04', G, "                bit_reader.read_bin(nbits_unread)\n", "                pass\n"),
    ('H3', 'change', 'C04', G, "            nbits_unread = section.section_length.value * NBITS_PER_BYTE - nbits_read\n",
     "            nbits_unread = section.section_length.value * NBITS_PER_BYTE - nbits_read - 1\n"),
    ('H4', 'change', 'C04', G, "            if nbits_unread > 0:\n", "            if nbits_unread > 8:\n"),
    ('H5', 'change', 'C12', G, "            elif nbits_unread < 0:\n                raise PyBufrKitError(", "            elif nbits_unread < 0:\n                raise ValueError("),
    ('H6', 'change', 'C04', G, "        return bit_reader.get_pos() - section.get_metadata(BITPOS_START)\n", "        return bit_reader.get_pos()\n"),
    ('H7', 'change', 'C04', G, "        if 'section_length' in section:\n            nbits_read", "        if 'length' in section:\n            nbits_read"),
    ('H8', 'change', 'C04', G, "                bit_reader.read_bin(nbits_unread)\n", "                bit_reader.read_bin(nbits_unread - nbits_unread % 16)\n"),
    ('H9', 'change', 'C04', G, "            nbits_read = bit_reader.get_pos() - section.get_metadata(BITPOS_START)\n", "            nbits_read = bit_reader.get_pos()\n"),
    ('H10', 'change', 'C04', G, "            elif nbits_unread < 0:\n                raise PyBufrKitError(", "            elif nbits_unread < 0 and False:\n                raise PyBufrKitError("),
    ('H11', 'unsupported', 'C04', G, "                bit_reader.read_bin(nbits_unread)\n", "                bit_reader.skip(nbits_unread)\n"),
    ('H12', 'preserve', 'C04', G, "                log.debug('Skipping {} bits to end of the section'.format(nbits_unread))\n", "                log.debug('Skipping {} bits of padding'.format(nbits_unread))\n"),
    ('H13', 'preserve', 'C04', G, "            if nbits_unread > 0:\n", "            if 0 < nbits_unread:\n"),
    ('H14', 'preserve', 'C04', G, '@renamefinish nbits_unread n_unread', ''),
    ('H15', 'preserve', 'C04', G, "            elif nbits_unread < 0:\n                raise PyBufrKitError(", "            elif 0 > nbits_unread:\n                raise PyBufrKitError("),
    # ---- stage M (w5-codersrc, round 3): process_members, the generated descriptor type -----------------------
    ('M1', 'change', 'C01', K, "                    if not (1 <= X <= 9 or X == 31):  # skipping", "                    if not (1 <= X <= 8 or X == 31):  # skipping"),
    ('M2', 'change', 'C01', K, "                state.data_not_present_count -= 1\n", "                state.data_not_present_count -= 2\n"),
    ('M3', 'change', 'C01', K, "            if state.nbits_of_new_refval and member_type is ElementDescriptor:", "            if state.nbits_of_new_refval and member_type is OperatorDescriptor:"),
    ('M4', 'change', 'C01', K, "                self.process_skipped_local_descriptor(state, bit_operator, member)\n                continue\n",
     "                self.process_skipped_local_descriptor(state, bit_operator, member)\n"),
    ('M5', 'preserve', 'C01', K, "            if state.bitmap_definition_state != BITMAP_NA:\n                self.process_bitmap_definition(state, bit_operator, member)",
     "            if not state.bitmap_definition_state == BITMAP_NA:\n                self.process_bitmap_definition(state, bit_operator, member)"),
    ('M6', 'unsupported', 'C01', D, "        super(ReplicationDescriptor, self).__init__(id_)\n        self.members = members", "        super(ReplicationDescriptor, self).__init__(id_)\n        self.items = members"),
    # ---- stage CH (w5-codersrc, last round): the composite descriptors ---------------------------------------------
    ('CH1', 'change', 'C01', K, "        for _ in range(descriptor.n_repeats):", "        for _ in range(descriptor.n_repeats + 1):"),
    ('CH2', 'change', 'C01', K, "        for _ in range(descriptor.n_repeats):", "        for _ in range(descriptor.n_items):"),
    ('CH3', 'change', 'C01', K, "        if descriptor.id in (31011, 31012):", "        if descriptor.id in (31001, 31012):"),
    ('CH4', 'change', 'C01', K, "        if type(descriptor.factor) is not ElementDescriptor:", "        if type(descriptor.factor) is ElementDescriptor:"),
    ('CH5', 'change', 'C01', K, "        self.process_element_descriptor(state, bit_operator, descriptor.factor)\n        for _ in range(self.get_value",
     "        for _ in range(self.get_value"),
    ('CH6', 'change', 'C01', K, "    def process_sequence_descriptor(self, state, bit_operator, descriptor):\n        self.process_members(state, bit_operator, descriptor.members)",
     "    def process_sequence_descriptor(self, state, bit_operator, descriptor):\n        self.process_members(state, bit_operator, descriptor.members + descriptor.members)"),
    ('CH7', 'preserve', 'C01', K, "        for _ in range(self.get_value_for_delayed_replication_factor(state)):\n            self.process_members(state, bit_operator, descriptor.members)",
     "        for _ in range(self.get_value_for_delayed_replication_factor(state)):\n            pass\n            self.process_members(state, bit_operator, descriptor.members)"),
]


def apply(text, a, b):
    if a.startswith('@renamefinish '):
        _, old, new = a.split()
        i = text.index("        if 'section_length' in section:\n            nbits_read")
        j = text.index('    def process_unexpanded_descriptors')
        return text[:i] + re.sub(r'\b%s\b' % old, new, text[i:j]) + text[j:]
    if a.startswith('@renamegen '):
        _, old, new = a.split()
        i = text.index('def generate_bufr_message(')
        body = re.sub(r'\b%s\b' % old, new, text[i:])
        return text[:i] + body
    if a.startswith('@renameparse '):
        _, old, new = a.split()
        i = text.index('    def parse(self, path_expr):')
        j = text.index('    def handle_left_bracket(self):')
        body = re.sub(r'(?<![\w.\'])%s(?![\w\'])' % old, new, text[i:j])
        return text[:i] + body + text[j:]
    if a.startswith('@rename '):
        _, old, new = a.split()
        i = text.index('def process_embedded_query_expr')
        j = text.index('\n# The following constants')
        body = re.sub(r'\b%s\b' % old, new, text[i:j])
        # the docstring does not mention the variable; string literals 'c' do not occur
        return text[:i] + body + text[j:]
    if text.count(a) != 1:
        raise SystemExit('PATTERN PROBLEM %r occurs %d times' % (a, text.count(a)))
    return text.replace(a, b)


def main():
    sel = sys.argv[3:]
    bad = 0
    for mid, kind, prop, rel, a, b in MUTS:
        if sel and mid not in sel:
            continue
        path = os.path.join(REPO, rel)
        orig = open(path).read()
        open(path, 'w').write(apply(orig, a, b))
        try:
            p = subprocess.run(['./check', prop, '--tier', 'quick'], cwd=VERIF, env=dict(os.environ, VERIF_REPO=REPO),
                               stdout=subprocess.PIPE, stderr=subprocess.STDOUT, text=True, timeout=3000)
        finally:
            open(path, 'w').write(orig)
        lines = p.stdout.split('\n')
        viol = [l for l in lines if l.startswith('VIOLATION')]
        with_input = [l for l in viol if not l.rstrip().endswith('no-failing-input-found')]
        det = ''
        for i, l in enumerate(lines):
            if l.startswith('VIOLATION'):
                det = lines[i + 1].strip()[:150]
                break
        if kind in ('change', 'unsupported'):
            ok = p.returncode == 1 and bool(viol)
        else:
            ok = p.returncode == 0 or (p.returncode == 1 and viol and not with_input)
        verdict = {'change': 'caught', 'unsupported': 'broken tie reported', 'preserve': (
            'tie survives' if p.returncode == 0 else 'false alarm (obligation broken, no failing input)')}[kind] if ok else 'UNEXPECTED'
        bad += not ok
        print('%-4s %-11s %s rc=%d violations=%d with_failing_input=%d  %-22s %s' % (
            mid, kind, prop, p.returncode, len(viol), len(with_input), verdict, det))
        sys.stdout.flush()
        if p.returncode == 2:
            print(p.stdout[-1500:])
    # restore the generated files from the unchanged repository
    env = dict(os.environ)
    env.pop('VERIF_REPO', None)
    subprocess.run([sys.executable, '-m', 'harness.py2lean'], cwd=VERIF, env=env, stdout=subprocess.DEVNULL)
    subprocess.run([sys.executable, '-c', 'from harness import gen_layouts; gen_layouts.regenerate()'], cwd=VERIF, env=env)
    print('unexpected outcomes: %d' % bad)
    sys.exit(1 if bad else 0)


if __name__ == '__main__':
    main()
