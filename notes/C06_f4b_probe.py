# C06: wiring state (meaning nodes) of one subset leaks into the next (uncompressed data)
import sys, json
sys.path.insert(0, sys.argv[1])
from pybufrkit.encoder import Encoder
from pybufrkit.decoder import Decoder
from pybufrkit.renderer import NestedJsonRenderer
ids = [204006, 101000, 31001, 31021, 21012, 204000]
def msg(subsets):
    return [["BUFR",0,4],[0,0,98,0,0,False,"0000000",2,4,0,33,0,2020,5,6,7,8,9],[0,"00000000",len(subsets),True,False,"000000",ids],[0,"00000000",subsets],["7777"]]
s0, s1 = [1, 5, 3, 100], [0, 62, 126]      # 031021 present once / not at all
def nested(subsets):
    b = Encoder().process(json.dumps(msg(subsets)), wire_template_data=False).serialized_bytes
    try:
        m = Decoder().process(b)
        td = [p['value'] for s in NestedJsonRenderer().render(m) for p in s if p['name'] == 'template_data'][0]
        return [json.dumps(x[-2]['attributes']) for x in td]
    except Exception as e:
        return repr(e)
print('s1 alone   :', nested([s1]))
print('s0, s1     :', nested([s0, s1]))
print('s1, s0     :', nested([s1, s0]))
