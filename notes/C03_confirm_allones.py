# usage: python notes/C03_confirm_allones.py <pybufrkit checkout>   (before commit 0604054: "DECODER FAILS"; after: reads back missing)
# standalone confirmation against the repo worktree: a compressed column whose only present value is the
# field's all-ones pattern, next to a missing entry, is ENCODED (minimum = all ones, width 2) into a
# message the Decoder cannot decode (AssertionError)
import sys, json, os
sys.path.insert(0, sys.argv[1])
sys.path.insert(0, os.path.dirname(os.path.dirname(os.path.abspath(__file__))))
os.environ['VERIF_REPO'] = sys.argv[1]
from harness import coder_io as C
from pybufrkit.encoder import Encoder
from pybufrkit.decoder import Decoder
for ids, vals in ([[25112], [[511], [None]]], [[12101], [[655.35], [None], [655.35]]], [[25112], [[511], [511]]], [[25112], [[511]]]):
    for comp in (True, False):
        js = C.make_message_json(ids, vals, comp)
        try:
            b = Encoder().process(json.loads(json.dumps(js))).serialized_bytes
        except Exception as e:
            print(ids, vals, 'compressed' if comp else 'uncompressed', 'ENCODER refuses', type(e).__name__); continue
        try:
            m = Decoder().process(b)
            print(ids, vals, 'compressed' if comp else 'uncompressed', 'reads back', m.template_data.value.decoded_values_all_subsets)
        except Exception as e:
            print(ids, vals, 'compressed' if comp else 'uncompressed', 'DECODER FAILS on the encoder output:', type(e).__name__, str(e)[:80])
