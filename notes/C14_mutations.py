import subprocess, sys, os
R='/tmp/w/c14/repo'; V='/tmp/w/c14/verif'
MUTS=[
 ('M1 take X+1', 'pybufrkit/tables.py', "generate_quiet(range(descriptor.n_items), next_id)", "generate_quiet(range(descriptor.n_items + 1), next_id)"),
 ('M2 factor after members', 'pybufrkit/tables.py',
  """            if isinstance(descriptor, DelayedReplicationDescriptor):
                descriptor.factor = b.lookup(next_id())

            g = generate_quiet(range(descriptor.n_items), next_id)
            # TODO: check whether the actual number of members equals to n_items
            descriptor.members = _descriptors_from_ids_iter(b, c, r, d, functools.partial(next, g))
""",
  """            g = generate_quiet(range(descriptor.n_items), next_id)
            # TODO: check whether the actual number of members equals to n_items
            descriptor.members = _descriptors_from_ids_iter(b, c, r, d, functools.partial(next, g))
            if isinstance(descriptor, DelayedReplicationDescriptor):
                descriptor.factor = b.lookup(next_id())
"""),
 ('M3 single-pass Table D', 'pybufrkit/tables.py',
  """                self.descriptors[id_] = SequenceDescriptor(id_, name, None)

            # Now populate the actual members
            for id_string in sorted_ids:
                id_ = int(id_string)
                member_ids""",
  """                self.descriptors[id_] = SequenceDescriptor(id_, name, None)
                member_ids"""),
 ('M4 local B entries do not override', 'pybufrkit/tables.py', "self.descriptors[id_] = ElementDescriptor(id_, *fields)", "self.descriptors.setdefault(id_, ElementDescriptor(id_, *fields))"),
 ('M4b local D entries do not override (stale)', 'pybufrkit/tables.py', "                self.descriptors[id_] = SequenceDescriptor(id_, name, None)", "                self.descriptors.setdefault(id_, SequenceDescriptor(id_, name, None))"),
 ('M4c Table D keeps the first definition of an id (stale entry returned by lookup)', 'pybufrkit/tables.py', "                self.descriptors[id_] = SequenceDescriptor(id_, name, None)\n", "                if id_ in self.descriptors:\n                    continue\n                self.descriptors[id_] = SequenceDescriptor(id_, name, None)\n"),
 ('M4d members of a row resolved against the WMO file only (local ids unknown while loading)', 'pybufrkit/tables.py', "                members = _descriptors_from_ids(b, c, r, self, member_ids)\n                self.descriptors[id_].members = members", "                members = _descriptors_from_ids(b, c, r, self, member_ids)\n                if self.descriptors[id_].members is None:\n                    self.descriptors[id_].members = members"),
 ('M4e Table D: a later file does not replace an id defined earlier (stale entry)', 'pybufrkit/tables.py',
  """                self.descriptors[id_] = SequenceDescriptor(id_, name, None)

            # Now populate the actual members
            for id_string in sorted_ids:
                id_ = int(id_string)
                member_ids = data[id_string][1]
                members = _descriptors_from_ids(b, c, r, self, member_ids)
                self.descriptors[id_].members = members""",
  """                self.descriptors.setdefault(id_, SequenceDescriptor(id_, name, None))

            # Now populate the actual members
            for id_string in sorted_ids:
                id_ = int(id_string)
                member_ids = data[id_string][1]
                members = _descriptors_from_ids(b, c, r, self, member_ids)
                if self.descriptors[id_].members is None:
                    self.descriptors[id_].members = members"""),
 ('M5 flat_member_ids drops factor', 'pybufrkit/descriptors.py', "            ret.append(member.factor.id)\n            ret.extend(flat_member_ids(member))", "            ret.extend(flat_member_ids(member))"),
 ('M6 original ids: members appended at the back', 'pybufrkit/descriptors.py', "members = member.members + members", "members = members + member.members"),
 ('M7 normalize: sub-centre fallback tries 0_sub', 'pybufrkit/tables.py', "'{}_{}'.format(originating_centre, DEFAULT_ORIGINATING_SUBCENTRE),", "'{}_{}'.format(DEFAULT_ORIGINATING_CENTRE, originating_subcentre),"),
 ('M7b normalize: version checked under requested master number', 'pybufrkit/tables.py', "        master_table_number_string = str(DEFAULT_MASTER_TABLE_NUMBER)\n", "        pass\n"),
 ('M8 unknown descriptor skipped', 'pybufrkit/coder.py', """                raise UnknownDescriptor('Cannot process descriptor {} of type: {}'.format(
                    member, member_type.__name__))""", "                pass"),
 ('M9 scale/refval swapped for class 12', 'pybufrkit/tables.py', "self.descriptors[id_] = ElementDescriptor(id_, *fields)", "self.descriptors[id_] = ElementDescriptor(id_, *(fields if id_ // 1000 != 12 else [fields[0], fields[1], fields[3], fields[2]] + fields[4:]))"),
 ('M10 undefined element dropped', 'pybufrkit/tables.py', "            descriptors.append(b.lookup(id_))\n\n    return descriptors", "            if id_ in b.descriptors:\n                descriptors.append(b.lookup(id_))\n\n    return descriptors"),
 ('M11 local version 1 treated as no local table', 'pybufrkit/tables.py', "    if local_table_version != 0:  # local table in use", "    if local_table_version > 1:  # local table in use"),
 ('M12 nested sequences looked up in B order (3xxxxx >= 300000 -> > 300002)', 'pybufrkit/tables.py', "        if id_ >= 300000:\n            descriptors.append(d.lookup(id_))", "        if id_ > 300002:\n            descriptors.append(d.lookup(id_))"),
 ('M13 flat_member_ids keeps sequence id', 'pybufrkit/descriptors.py', "            ret.extend(flat_member_ids(member))\n        elif isinstance(member, FixedReplicationDescriptor):", "            ret.append(member.id)\n            ret.extend(flat_member_ids(member))\n        elif isinstance(member, FixedReplicationDescriptor):"),
]
sel=sys.argv[1:] 
for name,f,old,new in MUTS:
    if sel and not any(name.startswith(x+' ') for x in sel): continue
    p=os.path.join(R,f); s=open(p).read()
    if s.count(old)!=1:
        print(name,'PATCH-FAILED',s.count(old)); continue
    open(p,'w').write(s.replace(old,new))
    try:
        r=subprocess.run(['./check','C14','--tier','quick'],cwd=V,env=dict(os.environ,VERIF_REPO=R),stdout=subprocess.PIPE,stderr=subprocess.STDOUT,text=True,timeout=150)
        lines=[l for l in r.stdout.split('\n') if l.startswith('VIOLATION') or l.startswith('  ') or l.startswith('MACHINERY')]
        print('%s: exit=%d %s'%(name,r.returncode,' | '.join(x[:170] for x in lines[:2])))
    except subprocess.TimeoutExpired:
        print(name,'TIMEOUT')
    finally:
        subprocess.run(['git','-C',R,'checkout','--','.'])
