"""Planted-mutation self-test for C20: python notes/C20_mutations.py <repo> <verif> [M1 M2 ...]
Every mutation must give exit 1 and a VIOLATION line in the quick tier; the files are restored afterwards."""
import subprocess, sys, os
REPO, VERIF = sys.argv[1], sys.argv[2]
DP = 'pybufrkit/dataprocessor.py'
TB = 'pybufrkit/tables.py'
DE = 'pybufrkit/decoder.py'
TC = 'pybufrkit/templatecompiler.py'
SIGN = "                (1 if next_value().strip() == '+' else -1) * int(next_value().strip()),\n"
MUTS = [
 ('M1 sign of the scale ignored', DP, SIGN + SIGN, "                (next_value() and 1) * int(next_value().strip()),\n" + SIGN),
 ('M2 sign of the reference value ignored', DP, SIGN + SIGN, SIGN + "                (next_value() and 1) * int(next_value().strip()),\n"),
 ('M3 extra entries consulted before the file entries', TB, "        if self.extra_entries:\n            contents.append(self.extra_entries)", "        if self.extra_entries:\n            contents.insert(0, self.extra_entries)"),
 ('M4 cache not invalidated after a definition message', DE, "                    TableGroupCacheManager.invalidate()\n", ""),
 ('M5 width parsed from the reference field', DP, SIGN + SIGN + "                int(next_value().strip()),\n",
      SIGN + "                (1 if next_value().strip() == '+' else -1) * int((lambda r: (r, next_value())[0])(next_value()).strip()),\n                abs(int(0)) or 12,\n"),
 ('M6 members of a redefined sequence appended instead of replaced', TB, "        self.extra_d_entries.update(d_entries)\n",
      "        for k_, v_ in d_entries.items():\n            if k_ in self.extra_d_entries:\n                self.extra_d_entries[k_] = [v_[0], self.extra_d_entries[k_][1] + v_[1]]\n            else:\n                self.extra_d_entries[k_] = v_\n"),
 ('M7 _fix_ncep_descriptors does not recurse into sequence members', TB, "            else:\n                descriptor.members = _fix_ncep_descriptors(descriptor.members)\n                ret.append(descriptor)", "            else:\n                ret.append(descriptor)"),
 ('M8 compiled templates keyed without the generation of the extra entries (the fixed defect)', TC, "            table_group.key,\n            TableGroupCacheManager.extra_entries_generation()\n", "            table_group.key\n"),
 ('M9 second name line dropped', DP, "                next_value().rstrip() + next_value().rstrip(),", "                next_value().rstrip() + next_value().rstrip()[:0],"),
 ('M10 Table A part skipped one value short', DP, "n_repeats * 3 + 1 if is_delayed_replication else 0", "n_repeats * 3 if is_delayed_replication else 0"),
 ('M11 unit not stripped', DP, "                next_value().strip(),\n", "                next_value(),\n"),
 ('M12 member-less replication takes the following descriptor without removing it from the list', TB, "                descriptor.members = [descriptors.pop(0)]", "                descriptor.members = [descriptors[0]]"),
 ('M13 extra D entries replace (not update) earlier ones', TB, "        self.extra_d_entries.update(d_entries)\n", "        self.extra_d_entries.clear()\n        self.extra_d_entries.update(d_entries)\n"),
 ('M14 only the first two name characters of Y used for the key', DP, "            next_value() + next_value() + next_value(),\n            [\n                next_value().rstrip() + next_value().rstrip(),", "            next_value() + next_value() + next_value()[:2] + '0',\n            [\n                next_value().rstrip() + next_value().rstrip(),"),
 ('M15 repair applied only at top level when the sequence is first (fix not applied inside replications)', TB, "                descriptor.members = [descriptors.pop(0)]\n            descriptor.members = _fix_ncep_descriptors(descriptor.members)", "                descriptor.members = [descriptors.pop(0)]\n                descriptor.members = _fix_ncep_descriptors(descriptor.members)"),
 # --- cache / history mutations (second round): one mutation may edit several places: [(file, old, new), ...]
 ('M16 table groups invalidated only when the definition message brings an id that was not defined in stream before', [
     (DE, "                    TableGroupCacheManager.invalidate()\n", ""),
     (TB, "        self.extra_b_entries.update(b_entries)\n        self.extra_d_entries.update(d_entries)\n",
          "        if any(k not in self.extra_b_entries for k in b_entries) or any(k not in self.extra_d_entries for k in d_entries):\n            self.invalidate()\n        self.extra_b_entries.update(b_entries)\n        self.extra_d_entries.update(d_entries)\n")]),
 ('M17 invalidation rebuilds Table B of the cached groups but keeps their Table D', [
     (DE, "                    TableGroupCacheManager.invalidate()\n                    TableGroupCacheManager.add_extra_entries(b_entries, d_entries)\n",
          "                    TableGroupCacheManager.add_extra_entries(b_entries, d_entries)\n                    TableGroupCacheManager.invalidate()\n"),
     (TB, "    def invalidate(self):\n        self._groups.clear()\n",
          "    def invalidate(self):\n        for key, g in list(self._groups.items()):\n            self._groups[key] = BufrTableGroup(g.A, TableB(key, self.extra_b_entries), g.C, g.D, g.R)\n")]),
 ('M18 invalidation rebuilds Table D of the cached groups but keeps their Table B', [
     (DE, "                    TableGroupCacheManager.invalidate()\n                    TableGroupCacheManager.add_extra_entries(b_entries, d_entries)\n",
          "                    TableGroupCacheManager.add_extra_entries(b_entries, d_entries)\n                    TableGroupCacheManager.invalidate()\n"),
     (TB, "    def invalidate(self):\n        self._groups.clear()\n",
          "    def invalidate(self):\n        for key, g in list(self._groups.items()):\n            self._groups[key] = BufrTableGroup(g.A, g.B, g.C, TableD(g.B, g.C, g.R, key, self.extra_d_entries), g.R)\n")]),
 ('M19 extra B entries merged with first-definition-wins', [
     (TB, "        self.extra_b_entries.update(b_entries)\n", "        for k_, v_ in b_entries.items():\n            self.extra_b_entries.setdefault(k_, v_)\n")]),
 ('M20 extra D entries merged with first-definition-wins', [
     (TB, "        self.extra_d_entries.update(d_entries)\n", "        for k_, v_ in d_entries.items():\n            self.extra_d_entries.setdefault(k_, v_)\n")]),
 ('M21 generation of the extra entries (compiled-template key) bumped only when the number of extra entries grew', [
     (TB, "        self.extra_b_entries.update(b_entries)\n        self.extra_d_entries.update(d_entries)\n        self.extra_entries_generation += 1\n",
          "        n_ = len(self.extra_b_entries) + len(self.extra_d_entries)\n        self.extra_b_entries.update(b_entries)\n        self.extra_d_entries.update(d_entries)\n        if len(self.extra_b_entries) + len(self.extra_d_entries) != n_:\n            self.extra_entries_generation += 1\n")]),
 ('M22 invalidation skipped when the definition message is as long (bytes) as the previous definition message', [
     (DE, "                    TableGroupCacheManager.invalidate()\n",
          "                    if getattr(decoder, '_last_def_len', None) != len(bufr_message.serialized_bytes):\n                        TableGroupCacheManager.invalidate()\n                    decoder._last_def_len = len(bufr_message.serialized_bytes)\n")]),
 ('M23 invalidation only when the definition message carries Table B entries', [
     (DE, "                    TableGroupCacheManager.invalidate()\n", "                    if b_entries:\n                        TableGroupCacheManager.invalidate()\n")]),
 ('M24 extra B entries replace (not update) earlier ones', [
     (TB, "        self.extra_b_entries.update(b_entries)\n", "        self.extra_b_entries.clear()\n        self.extra_b_entries.update(b_entries)\n")]),
 ('M25 generation bumped only when the definition message is not identical in length and entry count to the last (compiled templates kept for repeats)', [
     (TB, "        self.extra_entries_generation += 1\n",
          "        sig_ = (len(b_entries), len(d_entries))\n        if getattr(self, '_last_sig', None) != sig_:\n            self.extra_entries_generation += 1\n        self._last_sig = sig_\n")]),
]
sel = sys.argv[3:]
for mut in MUTS:
    name = mut[0]
    edits = mut[1] if isinstance(mut[1], list) else [mut[1:]]
    if sel and not any(name.startswith(x + ' ') for x in sel):
        continue
    origs = {}
    bad = False
    for fn, a, b in edits:
        F = os.path.join(REPO, fn)
        cur = open(F).read()
        origs.setdefault(F, cur)
        if cur.count(a) != 1:
            print('PATTERN PROBLEM', name, fn, cur.count(a)); bad = True; break
        open(F, 'w').write(cur.replace(a, b))
    try:
        if not bad:
            p = subprocess.run(['./check', 'C20', '--tier', 'quick'], cwd=VERIF, env=dict(os.environ, VERIF_REPO=REPO),
                               stdout=subprocess.PIPE, stderr=subprocess.STDOUT, text=True)
    finally:
        for F, orig in origs.items():
            open(F, 'w').write(orig)
    if bad:
        continue
    lines = p.stdout.split('\n')
    viol = [l for l in lines if l.startswith('VIOLATION')]
    det = ''
    for i, l in enumerate(lines):
        if l.startswith('VIOLATION'):
            det = lines[i + 1][:150]; break
    print('%-75s rc=%d violations=%d %s' % (name[:75], p.returncode, len(viol), det)); sys.stdout.flush()
    if p.returncode == 2:
        print(p.stdout[-1500:])
    for F, orig in origs.items():
        assert open(F).read() == orig
