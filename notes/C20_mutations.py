"""Planted-mutation self-test for C20: python notes/C20_mutations.py <repo> <verif> [M1 M2 ...]
Every mutation must give exit 1 and a VIOLATION line in the quick tier; the files are restored afterwards."""
import subprocess, sys, os
REPO, VERIF = sys.argv[1], sys.argv[2]
DP = 'pybufrkit/dataprocessor.py'
TB = 'pybufrkit/tables.py'
DE = 'pybufrkit/decoder.py'
TC = 'pybufrkit/templatecompiler.py'
SIGN = "                (1 if next_value().strip() == '+' else -1) * int(next_value().strip()),\n"
MUTS = [
 ('M1 sign of the scale ignored', DP, SIGN + SIGN, "                (next_value() and 1) * int(next_value().strip()),\n" + SIGN),
 ('M2 sign of the reference value ignored', DP, SIGN + SIGN, SIGN + "                (next_value() and 1) * int(next_value().strip()),\n"),
 ('M3 extra entries consulted before the file entries', TB, "        if self.extra_entries:\n            contents.append(self.extra_entries)", "        if self.extra_entries:\n            contents.insert(0, self.extra_entries)"),
 ('M4 cache not invalidated after a definition message', DE, "                    TableGroupCacheManager.invalidate()\n", ""),
 ('M5 width parsed from the reference field', DP, SIGN + SIGN + "                int(next_value().strip()),\n",
      SIGN + "                (1 if next_value().strip() == '+' else -1) * int((lambda r: (r, next_value())[0])(next_value()).strip()),\n                abs(int(0)) or 12,\n"),
 ('M6 members of a redefined sequence appended instead of replaced', TB, "        self.extra_d_entries.update(d_entries)\n",
      "        for k_, v_ in d_entries.items():\n            if k_ in self.extra_d_entries:\n                self.extra_d_entries[k_] = [v_[0], self.extra_d_entries[k_][1] + v_[1]]\n            else:\n                self.extra_d_entries[k_] = v_\n"),
 ('M7 _fix_ncep_descriptors does not recurse into sequence members', TB, "            else:\n                descriptor.members = _fix_ncep_descriptors(descriptor.members)\n                ret.append(descriptor)", "            else:\n                ret.append(descriptor)"),
 ('M8 compiled templates keyed without the generation of the extra entries (the fixed defect)', TC, "            table_group.key,\n            TableGroupCacheManager.extra_entries_generation()\n", "            table_group.key\n"),
 ('M9 second name line dropped', DP, "                next_value().rstrip() + next_value().rstrip(),", "                next_value().rstrip() + next_value().rstrip()[:0],"),
 ('M10 Table A part skipped one value short', DP, "n_repeats * 3 + 1 if is_delayed_replication else 0", "n_repeats * 3 if is_delayed_replication else 0"),
 ('M11 unit not stripped', DP, "                next_value().strip(),\n", "                next_value(),\n"),
 ('M12 member-less replication takes the following descriptor without removing it from the list', TB, "                descriptor.members = [descriptors.pop(0)]", "                descriptor.members = [descriptors[0]]"),
 ('M13 extra D entries replace (not update) earlier ones', TB, "        self.extra_d_entries.update(d_entries)\n", "        self.extra_d_entries.clear()\n        self.extra_d_entries.update(d_entries)\n"),
 ('M14 only the first two name characters of Y used for the key', DP, "            next_value() + next_value() + next_value(),\n            [\n                next_value().rstrip() + next_value().rstrip(),", "            next_value() + next_value() + next_value()[:2] + '0',\n            [\n                next_value().rstrip() + next_value().rstrip(),"),
 ('M15 repair applied only at top level when the sequence is first (fix not applied inside replications)', TB, "                descriptor.members = [descriptors.pop(0)]\n            descriptor.members = _fix_ncep_descriptors(descriptor.members)", "                descriptor.members = [descriptors.pop(0)]\n                descriptor.members = _fix_ncep_descriptors(descriptor.members)"),
]
sel = sys.argv[3:]
for name, fn, a, b in MUTS:
    if sel and not any(name.startswith(x + ' ') for x in sel):
        continue
    F = os.path.join(REPO, fn)
    orig = open(F).read()
    if orig.count(a) != 1:
        print('PATTERN PROBLEM', name, orig.count(a)); continue
    open(F, 'w').write(orig.replace(a, b))
    try:
        p = subprocess.run(['./check', 'C20', '--tier', 'quick'], cwd=VERIF, env=dict(os.environ, VERIF_REPO=REPO),
                           stdout=subprocess.PIPE, stderr=subprocess.STDOUT, text=True)
    finally:
        open(F, 'w').write(orig)
    lines = p.stdout.split('\n')
    viol = [l for l in lines if l.startswith('VIOLATION')]
    det = ''
    for i, l in enumerate(lines):
        if l.startswith('VIOLATION'):
            det = lines[i + 1][:150]; break
    print('%-75s rc=%d violations=%d %s' % (name[:75], p.returncode, len(viol), det)); sys.stdout.flush()
    if p.returncode == 2:
        print(p.stdout[-1500:])
    assert open(F).read() == orig
