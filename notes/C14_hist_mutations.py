"""
Sibling mutations of seeded/C14-4 (the repair pass `_fix_ncep_descriptors` / the in-stream extra entries), applied one at
a time to a scratch worktree of /repo and `./check C14 --tier quick` run on each.

  git -C /repo worktree add --detach /tmp/w-s14-repo HEAD
  /venv/bin/python notes/C14_hist_mutations.py [name prefix ...]
  git -C /repo worktree remove --force /tmp/w-s14-repo

A mutation is a list of (file, old, new) edits; `SEEDED` first applies seeded/C14-4/patch.diff.
"""
import os
import subprocess
import sys

R = os.environ.get('C14_MUT_REPO', '/tmp/w-s14-repo')
V = os.path.dirname(os.path.dirname(os.path.abspath(__file__)))
T = 'pybufrkit/tables.py'
SEEDED = 'SEEDED'

HELPER_OLD = """        n_items_present += 1
        if isinstance(member, DelayedReplicationDescriptor):
            n_items_present += 1 + member.n_items
"""

MUTS = [
    ('H1 fix-up applied to every template, extra entries or not (code as it is: X = 0 replications refused everywhere)',
     [(T, "        if TableGroupCacheManager.has_extra_entries():\n            members = _fix_ncep", "        if True:\n            members = _fix_ncep")]),
    ('H2 seeded generalisation, applied to every template', [SEEDED,
     (T, "        if TableGroupCacheManager.has_extra_entries():\n            members = _fix_ncep", "        if True:\n            members = _fix_ncep")]),
    ('H3 generalised fix-up counts a nested delayed replication without its factor (fixed ones right)', [SEEDED,
     (T, HELPER_OLD, """        n_items_present += 1
        if isinstance(member, DelayedReplicationDescriptor):
            n_items_present += member.n_items
        elif isinstance(member, FixedReplicationDescriptor):
            n_items_present += member.n_items
""")]),
    ('H4 generalised fix-up counts a nested replication by its built members (n_members), wrong from depth 3 on', [SEEDED,
     (T, HELPER_OLD, """        n_items_present += 1
        if isinstance(member, DelayedReplicationDescriptor):
            n_items_present += 1 + len(member.members)
        elif isinstance(member, FixedReplicationDescriptor):
            n_items_present += len(member.members)
""")]),
    ('H5 generalised fix-up right for every nesting, but a sequence member counts for its expansion', [SEEDED,
     (T, HELPER_OLD, """        n_items_present += 1
        if isinstance(member, DelayedReplicationDescriptor):
            n_items_present += 1 + member.n_items
        elif isinstance(member, FixedReplicationDescriptor):
            n_items_present += member.n_items
        elif isinstance(member, SequenceDescriptor):
            n_items_present -= 1 if len(member.members) == 0 else 0
""")]),
    ('H6 extra Table B entries do not replace table-file entries', [
     (T, "                self.descriptors[id_] = ElementDescriptor(id_, *fields)",
      "                if data is self.extra_entries and id_ in self.descriptors:\n                    continue\n"
      "                self.descriptors[id_] = ElementDescriptor(id_, *fields)")]),
    ('H7 extra Table D entries do not replace table-file rows', [
     (T, "                self.descriptors[id_] = SequenceDescriptor(id_, name, None)\n",
      "                if data is self.extra_entries and id_ in self.descriptors:\n                    continue\n"
      "                self.descriptors[id_] = SequenceDescriptor(id_, name, None)\n"),
     (T, "                members = _descriptors_from_ids(b, c, r, self, member_ids)\n                self.descriptors[id_].members = members",
      "                members = _descriptors_from_ids(b, c, r, self, member_ids)\n"
      "                if data is self.extra_entries and self.descriptors[id_].members is not None:\n                    continue\n"
      "                self.descriptors[id_].members = members")]),
    ('H8 rows of the extra entries resolved in one pass (no forward references among them)', [
     (T, "                self.descriptors[id_] = SequenceDescriptor(id_, name, None)\n",
      "                if data is not self.extra_entries:\n                    self.descriptors[id_] = SequenceDescriptor(id_, name, None)\n"),
     (T, "                members = _descriptors_from_ids(b, c, r, self, member_ids)\n                self.descriptors[id_].members = members",
      "                if data is self.extra_entries:\n                    self.descriptors[id_] = SequenceDescriptor(id_, data[id_string][0], None)\n"
      "                members = _descriptors_from_ids(b, c, r, self, member_ids)\n                self.descriptors[id_].members = members")]),
    ('H9 fix-up hoists the replication out of ANY one-member sequence (member-less or not)', [
     (T, "                    isinstance(descriptor.members[0], (FixedReplicationDescriptor, DelayedReplicationDescriptor)) and\n"
         "                    len(descriptor.members[0].members) == 0):",
      "                    isinstance(descriptor.members[0], (FixedReplicationDescriptor, DelayedReplicationDescriptor))):")]),
    ('H10 fix-up works on the cached descriptors (no deep copy): an NCEP sequence is repaired once only', [
     (T, "        descriptor = deepcopy(descriptors.pop(0))", "        descriptor = descriptors.pop(0)")]),
    ('H11 fix-up does not look into replication members', [
     (T, "                descriptor.members = [descriptors.pop(0)]\n            descriptor.members = _fix_ncep_descriptors(descriptor.members)\n",
      "                descriptor.members = [descriptors.pop(0)]\n")]),
    ('H12 fix-up only when extra Table D entries exist (a Table B only history builds X = 0 replications)', [
     (T, "        return self.extra_b_entries or self.extra_d_entries", "        return self.extra_d_entries")]),
    ('H13 member-less replication takes its X descriptors (assert dropped), fixed ones only', [
     (T, """                assert descriptor.n_items == 1, 'Fix for replication descriptor expects 1 member, got {}'.format(
                    len(descriptor.members))
                descriptor.members = [descriptors.pop(0)]""",
      """                descriptor.members = [descriptors.pop(0) for _ in range(descriptor.n_items)]""")]),
    ('H14 seeded generalisation restricted to depth >= 3 (a nested fixed replication that itself holds a replication)', [SEEDED,
     (T, HELPER_OLD, """        n_items_present += 1
        if isinstance(member, DelayedReplicationDescriptor):
            n_items_present += 1 + member.n_items
        elif isinstance(member, FixedReplicationDescriptor) and not any(
                isinstance(m, (FixedReplicationDescriptor, DelayedReplicationDescriptor)) for m in member.members):
            n_items_present += member.n_items
""")]),
]


def sh(*cmd, **kw):
    return subprocess.run(cmd, stdout=subprocess.PIPE, stderr=subprocess.STDOUT, text=True, **kw)


def main():
    sel = sys.argv[1:]
    for name, edits in MUTS:
        if sel and not any(name.startswith(x + ' ') for x in sel):
            continue
        ok = True
        try:
            for e in edits:
                if e == SEEDED:
                    r = sh('git', 'apply', os.path.join(V, 'seeded', 'C14-4', 'patch.diff'), cwd=R)
                    ok = ok and r.returncode == 0
                    continue
                f, old, new = e
                p = os.path.join(R, f)
                s = open(p).read()
                if s.count(old) != 1:
                    print(name, 'PATCH-FAILED', s.count(old))
                    ok = False
                    break
                open(p, 'w').write(s.replace(old, new))
            if not ok:
                continue
            r = sh('/venv/bin/python', '-c', 'import pybufrkit.tables', cwd=R, env=dict(os.environ, PYTHONPATH=R))
            if r.returncode != 0:
                print(name, 'DOES-NOT-IMPORT', r.stdout[-300:])
                continue
            r = sh('./check', 'C14', '--tier', 'quick', cwd=V, env=dict(os.environ, VERIF_REPO=R), timeout=600)
            lines = [l for l in r.stdout.split('\n') if l.startswith('VIOLATION') or l.startswith('  ') or l.startswith('MACHINERY')]
            streams = sorted(set('history' if 'in-stream' in l else 'other' for l in lines if l.startswith('  ')))
            print('%s: exit=%d streams=%s %s' % (name, r.returncode, streams, ' | '.join(x[:260] for x in lines[:2])))
        except subprocess.TimeoutExpired:
            print(name, 'TIMEOUT')
        finally:
            sh('git', '-C', R, 'checkout', '--', '.')
            sh('git', 'checkout', '--', 'evidence', cwd=V)


if __name__ == '__main__':
    main()
