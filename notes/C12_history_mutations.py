"""
Mutation self-test of the history part (D) of the C12 quick check: sibling mutations of seeded/C12-1 (state kept in a
Decoder's / the process's section configuration).  Usage (from the verif worktree):
    VERIF_REPO=<scratch worktree of /repo> /venv/bin/python notes/C12_history_mutations.py [name ...]
Each mutation (a list of (file, old, new) edits) is applied to the scratch worktree (uncommitted), `./check C12` is run
(exit 1 + a VIOLATION line expected) and the worktree is restored with `git checkout -- .`.
"""
import os
import subprocess
import sys

REPO = os.environ['VERIF_REPO']
VERIF = os.path.dirname(os.path.dirname(os.path.abspath(__file__)))
B = 'pybufrkit/bufr.py'
D = 'pybufrkit/decoder.py'

TRANSFORM = ("        config = self.get_configuration(bufr_message, section_index)\n\n"
             "        for configuration_transformer in configuration_transformers:\n"
             "            config = configuration_transformer(config)\n")
SHALLOW = ("        new_config = deepcopy(config)\n        for parameter in new_config['parameters']:\n",
           "        new_config = dict(config)\n        new_config['parameters'] = list(config['parameters'])\n"
           "        for parameter in new_config['parameters']:\n")

MUT = [
    # the seeded change itself (for reference)
    ('lenient-shallow-copy', [(B, ) + SHALLOW]),
    # info_configuration edits the cached configuration in place: after ONE metadata-only decode the Decoder's section 4
    # ends before the template data for ever
    ('info-config-in-place', [(B, "            new_config = deepcopy(config)\n            new_config['end_of_message'] = True\n",
                               "            new_config = config\n            new_config['end_of_message'] = True\n")]),
    # transformed configuration memoised per (section, transformers) - the edition is missing from the key
    ('transformed-config-cached-ignoring-edition', [(B, TRANSFORM,
        "        key = (section_index, tuple(t.__name__ for t in configuration_transformers))\n"
        "        cache = self.__dict__.setdefault('_tcache', {})\n"
        "        if key not in cache:\n"
        "            config = self.get_configuration(bufr_message, section_index)\n"
        "            for configuration_transformer in configuration_transformers:\n"
        "                config = configuration_transformer(config)\n"
        "            cache[key] = config\n"
        "        config = cache[key]\n")]),
    # ... per (section, edition) - the transformers (info_only / lenient) are missing from the key
    ('transformed-config-cached-ignoring-transformers', [(B, TRANSFORM,
        "        config = self.get_configuration(bufr_message, section_index)\n"
        "        key = id(config)\n"
        "        cache = self.__dict__.setdefault('_tcache', {})\n"
        "        if key not in cache:\n"
        "            for configuration_transformer in configuration_transformers:\n"
        "                config = configuration_transformer(config)\n"
        "            cache[key] = config\n"
        "        config = cache[key]\n")]),
    # the lenient transformer erases the expectation of ANOTHER parameter in the cached configuration: the start signature
    ('lenient-erases-cached-start-signature', [(B, "        new_config = deepcopy(config)\n        for parameter in new_config['parameters']:\n",
        "        if config['parameters'][0]['name'] == 'start_signature':\n"
        "            config['parameters'][0]['expected'] = None\n"
        "        new_config = deepcopy(config)\n        for parameter in new_config['parameters']:\n")]),
    # lenient = erase in place + restore at the end of Decoder.process; a FAILED lenient decode never restores
    ('failed-lenient-decode-leaves-config-erased', [
        (B, "        new_config = deepcopy(config)\n        for parameter in new_config['parameters']:\n            parameter['expected'] = None\n        return new_config\n",
            "        for parameter in config['parameters']:\n            _UNDO.append((parameter, parameter.get('expected')))\n"
            "            parameter['expected'] = None\n        return config\n"),
        (B, "# An indicator for using the fallback default edition of a section\n", "_UNDO = []\n"),
        (D, "        # The exact bytes that have been decoded\n",
            "        from pybufrkit import bufr as _bufr\n"
            "        for _p, _e in reversed(_bufr._UNDO):\n            _p['expected'] = _e\n        del _bufr._UNDO[:]\n")]),
    # the seeded change + definitions loaded once per PROCESS: the fresh Decoder is polluted too (only the oracle and
    # the model can see this one)
    ('lenient-shallow-copy-with-process-wide-definitions', [
        (B, ) + SHALLOW,
        (B, "                data = json.load(ins)\n", "                data = _DEFS.setdefault(fname, json.load(ins))\n"),
        (B, "# An indicator for using the fallback default edition of a section\n", "_DEFS = {}\n")]),
]


def main():
    names = sys.argv[1:]
    results = []
    for name, edits in MUT:
        if names and name not in names:
            continue
        ok = True
        for path, old, new in edits:
            full = os.path.join(REPO, path)
            src = open(full).read()
            if src.count(old) != 1:
                results.append((name, 'NOT-APPLICABLE (pattern count %d in %s)' % (src.count(old), path)))
                ok = False
                break
            open(full, 'w').write(src.replace(old, new))
        try:
            if ok:
                p = subprocess.run(['./check', 'C12', '--tier', 'quick'], cwd=VERIF, stdout=subprocess.PIPE,
                                   stderr=subprocess.STDOUT, text=True, env=dict(os.environ))
                lines = p.stdout.split('\n')
                viol = [l for l in lines if l.startswith('VIOLATION')]
                first = ''
                for i, l in enumerate(lines):
                    if l.startswith('VIOLATION') and i + 1 < len(lines):
                        first = lines[i + 1].strip()[:230]
                        break
                results.append((name, 'caught' if p.returncode == 1 and viol else 'MISSED (exit %d)' % p.returncode, len(viol), first))
        finally:
            subprocess.run(['git', '-C', REPO, 'checkout', '--', '.'], check=True)
        print(results[-1], flush=True)
    print()
    for r in results:
        print(' | '.join(str(x) for x in r))


if __name__ == '__main__':
    main()
