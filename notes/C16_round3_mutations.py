"""
Planted-mutation self-test of the C16 quick check, third round: siblings of the seeded change C16-3 (state that
survives from one query to the next on a reused NodePathParser / DataQuerent).
Usage (from the verif worktree):
    git -C /repo worktree add --detach /tmp/c16mut3 HEAD
    VERIF_REPO=/tmp/c16mut3 /venv/bin/python notes/C16_round3_mutations.py [name fragment ...]
    git -C /repo worktree remove --force /tmp/c16mut3
Each mutation (a list of (old, new) replacements in pybufrkit/dataquery.py) is applied to the scratch worktree
(uncommitted), `./check C16 --tier quick` is run and the worktree is restored with `git checkout -- .`.
A mutation marked `preserving` does not change behaviour: the check must stay silent.
"""
import os
import subprocess
import sys

REPO = os.environ['VERIF_REPO']
HERE = os.path.dirname(os.path.dirname(os.path.abspath(__file__)))
F = 'pybufrkit/dataquery.py'

INIT = "        self.bare_id_matches_all = bare_id_matches_all\n"
RESET_CALL = "        self.reset()\n        self.node_path = NodePath(path_expr)\n"
QUERY_PARSE = "        node_path = self.path_parser.parse(path_expr)\n"
SUBSETS = """        subset_indices = (
            [node_path.subset_slice] if isinstance(node_path.subset_slice, int)
            else list(range(bufr_message.n_subsets.value))[node_path.subset_slice]
        )
"""
PROCESS_ONE = """        sub_nodes = self.filter_for_sub_nodes(virtual_root_node, node_path.components)

        return sub_nodes
"""
NEW_RESULT_U = """    def query_uncompressed_data(self, template_data, node_path, subset_indices):
        path_query_result = QueryResult()
"""

# (name, [(old, new), ..], preserving)
MUTATIONS = [
    ('parser: token not cleared between expressions (leftover of a rejected [1x / id)',
     [(INIT, INIT + "        self.current_token = None\n"),
      ("        self.current_token = None\n        self.current_id = None\n", "        self.current_id = None\n"),
      ("        self.current_token = ''\n        while", "        if self.current_token is None:\n            self.current_token = ''\n        while")], False),
    ('parser: state machine not rewound (current_state survives)',
     [(INIT, INIT + "        self.current_state = None\n"),
      ("        self.pos = 0\n        self.current_state = None\n", "        self.pos = 0\n"),
      ("        self.current_state = STATE_START_PARSING\n        self.current_token = ''\n",
       "        if self.current_state is None:\n            self.current_state = STATE_START_PARSING\n        self.current_token = ''\n")], False),
    ('parser: pos not rewound',
     [(INIT, INIT + "        self.pos = 0\n"), ("        self.pos = 0\n        self.current_state = None\n", "        self.current_state = None\n")], False),
    ('parser: NodePath object reused, components not cleared',
     [(RESET_CALL, "        self.reset()\n        if getattr(self, 'node_path', None) is None:\n            self.node_path = NodePath(path_expr)\n"
                   "        else:\n            self.node_path.path_string = path_expr\n            self.node_path.subset_slice = None\n")], False),
    ('parser: reset() after a successful parse instead of before every parse',
     [(INIT, INIT + "        self.reset()\n"),
      (RESET_CALL, "        self.node_path = NodePath(path_expr)\n"),
      ("        return self.node_path\n\n    def handle_left_bracket", "        node_path = self.node_path\n        self.reset()\n        return node_path\n\n    def handle_left_bracket")], False),
    ('parser: slice buffer cleared only when a slice object is created (C16-3 itself, written differently)',
     [(INIT, INIT + "        self.current_slice_elements = []\n"),
      ("        self.current_separator = None\n        self.current_slice_elements = []\n", "        self.current_separator = None\n")], False),
    ('parser: current_id / current_separator not reset (behaviour preserving: set before every use)',
     [(INIT, INIT + "        self.current_id = None\n        self.current_separator = None\n"),
      ("        self.current_id = None\n        self.current_separator = None\n        self.current_slice_elements = []\n", "        self.current_slice_elements = []\n")], True),
    ('querent: parsed path cached per expression (behaviour preserving)',
     [(QUERY_PARSE, "        cache = self.__dict__.setdefault('_paths', {})\n        if path_expr not in cache:\n            cache[path_expr] = self.path_parser.parse(path_expr)\n        node_path = cache[path_expr]\n")], True),
    ('querent: selected subsets cached per expression (number of subsets of the first message)',
     [(SUBSETS, "        cache = self.__dict__.setdefault('_subsets', {})\n        if path_expr not in cache:\n            cache[path_expr] = (\n"
                "                [node_path.subset_slice] if isinstance(node_path.subset_slice, int)\n"
                "                else list(range(bufr_message.n_subsets.value))[node_path.subset_slice]\n            )\n        subset_indices = cache[path_expr]\n")], False),
    ('querent: matched nodes cached per expression and template length (other message, same template)',
     [(PROCESS_ONE, "        cache = self.__dict__.setdefault('_nodes', {})\n        key = (node_path.path_string, len(decoded_nodes))\n        if key not in cache:\n"
                    "            cache[key] = self.filter_for_sub_nodes(virtual_root_node, node_path.components)\n        return cache[key]\n")], False),
    ('querent: result cached per message, the expression forgotten',
     [(QUERY_PARSE, QUERY_PARSE + "        done = self.__dict__.setdefault('_done', {})\n        if id(bufr_message) in done:\n            return done[id(bufr_message)][1]\n"),
      ("        query_result.n_subsets = template_data.n_subsets\n", "        query_result.n_subsets = template_data.n_subsets\n        done[id(bufr_message)] = (bufr_message, query_result)\n")], False),
    ('querent: one QueryResult object reused and cleared (results handed out earlier change)',
     [(NEW_RESULT_U, "    def query_uncompressed_data(self, template_data, node_path, subset_indices):\n"
                     "        path_query_result = self.__dict__.setdefault('_result', QueryResult())\n        path_query_result.results.clear()\n")], False),
    ('querent: one QueryResult object reused, not cleared (subsets of earlier queries stay)',
     [(NEW_RESULT_U, "    def query_uncompressed_data(self, template_data, node_path, subset_indices):\n"
                     "        path_query_result = self.__dict__.setdefault('_result', QueryResult())\n")], False),
]


def main():
    only = sys.argv[1:]
    results = []
    path = os.path.join(REPO, F)
    for name, repl, preserving in MUTATIONS:
        if only and not any(o in name for o in only):
            continue
        with open(path) as f:
            src = f.read()
        for old, new in repl:
            if src.count(old) != 1:
                raise SystemExit('mutation target not found exactly once: %s: %r (%d)' % (name, old, src.count(old)))
            src = src.replace(old, new)
        try:
            with open(path, 'w') as f:
                f.write(src)
            p = subprocess.run(['./check', 'C16', '--tier', 'quick'], cwd=HERE, stdout=subprocess.PIPE, stderr=subprocess.STDOUT, text=True)
            out = p.stdout.split('\n')
            lines = [l for l in out if l.startswith('VIOLATION')]
            first = ''
            for i, l in enumerate(out):
                if l.startswith('VIOLATION') and i + 1 < len(out):
                    first = out[i + 1].strip()[:170]
                    break
            caught = p.returncode == 1 and bool(lines)
            ok = (not caught and p.returncode == 0) if preserving else caught
            results.append((name, ok))
            print('%-105s %s (exit %d, %d VIOLATION lines) %s' % (name, ('SILENT' if ok else 'FALSE ALARM') if preserving else ('CAUGHT' if caught else 'MISSED'),
                                                                  p.returncode, len(lines), first))
            if p.returncode == 2:
                print('\n'.join(out[-12:]))
            sys.stdout.flush()
        finally:
            subprocess.run(['git', '-C', REPO, 'checkout', '--', '.'], check=True)
    print('%d/%d as expected' % (sum(1 for r in results if r[1]), len(results)))


if __name__ == '__main__':
    main()
