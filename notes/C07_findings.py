"""Stand-alone confirmation of the open C07 findings on the real code:  VERIF_REPO=<repo> python notes/C07_findings.py
Each message is encoded and decoded by pybufrkit alone (no model, no harness logic beyond assembling the JSON input)."""
import os, sys
sys.path.insert(0, os.path.dirname(os.path.dirname(os.path.abspath(__file__))))
from harness import coder_io as C           # noqa: E402  (puts VERIF_REPO on sys.path)
from pybufrkit.encoder import Encoder       # noqa: E402
from pybufrkit.decoder import Decoder       # noqa: E402


def roundtrip(ids, vals):
    msg = Encoder().process(C.make_message_json(ids, [vals], False), wire_template_data=False)
    m = Decoder().process(msg.serialized_bytes, wire_template_data=False)
    td = m.template_data.value
    labels = [str(d) for d in td.decoded_descriptors_all_subsets[0]]
    links = sorted(td.bitmap_links_all_subsets[0].items())
    try:
        m.wire()
        wire = 'ok'
        nodes = td.decoded_nodes_all_subsets[0]
    except Exception as e:  # noqa
        wire = '%s: %s' % (type(e).__name__, e)
        nodes = None
    return labels, links, wire, nodes


CASES = [
    ('links-marker / wire-marker: 204 in force over 223255',
     [1001, 1002, 204004, 31021, 223000, 101002, 31031, 223255, 204000],
     [1, 2, 1, 0, 0, 1, 3, 3, 5]),
    ('wire-meaning: 204 in force over 008023',
     [1001, 204004, 31021, 224000, 101002, 31031, 8023, 224255, 204000],
     [1, 1, 0, 0, 1, 3, 4, 3, 3, 5]),
    ('wire-qa33: 204 in force over the class 33 value after 222000',
     [1001, 204004, 31021, 222000, 101001, 31031, 33007, 204000],
     [1, 1, 0, 0, 3, 50]),
    ('wire-203: 204 in force over a 203YYY definition',
     [204004, 31021, 203010, 1001, 203255, 1001, 204000],
     [1, 5, 3, 7]),
    ('wire-206: 204 in force over a 206YYY skipped known element',
     [204004, 31021, 206008, 1001, 1002, 204000],
     [1, 9, 3, 7]),
    ('marker-class33: a marker whose target is a class 33 element while quality information is pending takes TWO zero bits',
     [1001, 33007, 1002, 222000, 236000, 101003, 31031, 223000, 237000, 223255, 223255],
     [1, 50, 2, 0, 0, 0, 0, 0, 0, 0, 7, 60]),
]
for name, ids, vals in CASES:
    try:
        labels, links, wire, nodes = roundtrip(ids, vals)
    except Exception as e:  # noqa
        print('%s\n   could not round-trip: %s: %s' % (name, type(e).__name__, e))
        continue
    print(name)
    print('   ids    ', ids)
    print('   labels ', labels)
    print('   links  ', links, ' (attribute item -> owner item)')
    for a, o in links:
        print('      link key %d is item %s; the marker / class 33 value is item %s' % (
            a, labels[a], next((k for k in range(a, len(labels)) if labels[k][0] in 'TFDR' or labels[k].startswith('033')), None)))
    print('   wire   ', wire)
    if nodes is not None:
        def attrs(ns, out):
            for n in ns:
                if hasattr(n, 'members'):
                    attrs(n.members, out)
                elif hasattr(n, 'index'):
                    out.append((n.index, [a.index for a in getattr(n, 'attributes', [])]))
            return out
        print('   node -> attribute items', [x for x in attrs(nodes, []) if x[1]])
