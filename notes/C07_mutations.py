"""Planted-mutation self-test for C07: python notes/C07_mutations.py <repo> <verif> [M1 M2 ...]
Every mutation must give exit 1 and a VIOLATION line in the quick tier; the files are restored afterwards."""
import subprocess, sys, os
REPO, VERIF = sys.argv[1], sys.argv[2]
CODER = 'pybufrkit/coder.py'
TD = 'pybufrkit/templatedata.py'
DEC = 'pybufrkit/decoder.py'
MUTS = [
 ('M1 zero bits -> one bits', CODER, "            ) if bit == 0\n", "            ) if bit == 1\n"),
 ('M2 back references collected in reverse (insert(0) -> append)', CODER, "self.back_referenced_descriptors.insert(0, (idx, descriptor))", "self.back_referenced_descriptors.append((idx, descriptor))"),
 ('M3 boundary taken after the operator item (EQUIVALENT: the operator item is never a candidate)', CODER, "                state.mark_back_reference_boundary()\n                self.process_constant(state, bit_operator, descriptor, 0)", "                self.process_constant(state, bit_operator, descriptor, 0)\n                state.mark_back_reference_boundary()"),
 ('M3b boundary = items recorded when the bit-map is defined (the bits themselves become candidates)', CODER, "            for idx in range(self.back_reference_boundary - 1, -1, -1):", "            for idx in range(len(self.decoded_descriptors) - 1, -1, -1):"),
 ('M4 225255 width +1 dropped', CODER, "nbits=bitmapped_descriptor.nbits + 1,", "nbits=bitmapped_descriptor.nbits,"),
 ('M5 225255 reference sign', CODER, "refval=-2 ** bitmapped_descriptor.nbits,", "refval=2 ** bitmapped_descriptor.nbits,"),
 ('M6 recall does not restart the iterator', CODER, "    def recall_bitmap(self):\n        self.next_bitmapped_descriptor = functools.partial(next, iter(self.bitmapped_descriptors))\n", "    def recall_bitmap(self):\n"),
 ('M7 back references rebuilt for every bitmap', CODER, "        if not self.back_referenced_descriptors:\n", "        if True:\n"),
 ('M8 235000 does not cancel the back references', CODER, "    def cancel_all_back_references(self):\n        self.back_referenced_descriptors = None\n", "    def cancel_all_back_references(self):\n"),
 ('M9 any ElementDescriptor subclass counts as candidate (isinstance)', CODER, "                if type(descriptor) is ElementDescriptor:\n                    self.back_referenced_descriptors", "                if isinstance(descriptor, ElementDescriptor):\n                    self.back_referenced_descriptors"),
 ('M10 QA stretch not ended by another element', CODER, "            if state.status_qa_info_follows == QA_INFO_PROCESSING:\n                state.status_qa_info_follows = QA_INFO_NA", "            if False:\n                state.status_qa_info_follows = QA_INFO_NA"),
 ('M11 compressed bitmap taken from the last subset', DEC, "bitmap = state.decoded_values_all_subsets[0][-state.n_031031:]", "bitmap = state.decoded_values_all_subsets[-1][-state.n_031031:]"),
 ('M12 wiring attaches 223255 to the previous node', TD, "                node = self.add_node(SubstitutionNode(*self.get_next_descriptor_and_index()))\n                self.wire_bitmap_attribute(node)", "                node = self.add_node(SubstitutionNode(*self.get_next_descriptor_and_index()))\n                self.index_to_node[max(k for k in self.index_to_node if k < node.index - 1)].add_attribute(node)"),
 ('M13 wiring forgets the 008023 meaning on 224255', TD, "                node.add_attribute(self.first_order_stats_meaning)\n", ""),
 ('M14 associated field attached to the node before', TD, "            node = ValueDataNode(*self.get_next_descriptor_and_index())\n            node.add_attribute(assoc_node)\n            self.add_node(node)", "            node = ValueDataNode(*self.get_next_descriptor_and_index())\n            (self.decoded_nodes[-1] if self.decoded_nodes and hasattr(self.decoded_nodes[-1], 'index') else node).add_attribute(assoc_node)\n            self.add_node(node)"),
 ('M15 bit counting starts one late (first 031031 of a run skipped)', CODER, "            if descriptor.id == 31031:\n                state.bitmap_definition_state = BITMAP_BIT_COUNTING\n                state.n_031031 += 1", "            if descriptor.id == 31031:\n                state.bitmap_definition_state = BITMAP_BIT_COUNTING"),
 ('M16 link keyed one item late', CODER, "        self.bitmap_links[len(self.decoded_descriptors)] = idx_descriptor", "        self.bitmap_links[len(self.decoded_descriptors) + 1] = idx_descriptor"),
]
# ---- siblings of seeded/C07-2: something computed for one subset is remembered for the next one -------------
SCAN = """        if not self.back_referenced_descriptors:
            self.back_referenced_descriptors = []
            for idx in range(self.back_reference_boundary - 1, -1, -1):
                descriptor = self.decoded_descriptors[idx]
                # The type has to be an exact match, not just isinstance
                if type(descriptor) is ElementDescriptor:
                    self.back_referenced_descriptors.insert(0, (idx, descriptor))
                    if len(self.back_referenced_descriptors) == len(bitmap):
                        break
"""


def memo(key, load='_memo[_key]', store='self.back_referenced_descriptors', guard='True'):
    body = ''.join('    ' + l + '\n' for l in SCAN.split('\n')[1:-1])
    return ("        if not self.back_referenced_descriptors:\n"
            "            _memo = self.__dict__.setdefault('_memo', {})\n"
            "            _key = " + key + "\n"
            "            if (" + guard + ") and _key in _memo:\n"
            "                self.back_referenced_descriptors = " + load + "\n"
            "            else:\n" + body +
            "                _memo[_key] = " + store + "\n")


BUILD = """        self.bitmapped_descriptors = [
            (idx, d) for bit, (idx, d) in zip(
                bitmap,
                self.back_referenced_descriptors
            ) if bit == 0
        ]
"""
MUTS += [
 ('S1 scan remembered per message by (boundary, number of bits) [= seeded/C07-2]', CODER, SCAN, memo('(self.back_reference_boundary, len(bitmap))')),
 ('S2 scan remembered per message by boundary only', CODER, SCAN, memo('self.back_reference_boundary')),
 ('S3 scan remembered per message by number of bits only', CODER, SCAN, memo('len(bitmap)')),
 ('S4 scan remembered as offsets below the boundary, by number of bits', CODER, SCAN,
  memo('len(bitmap)', load='[(self.back_reference_boundary - k, self.decoded_descriptors[self.back_reference_boundary - k]) for k in _memo[_key]]',
       store='[self.back_reference_boundary - i for i, _ in self.back_referenced_descriptors]')),
 ('S5 scan remembered by (boundary, number of bits), encoder only', CODER, SCAN, memo('(self.back_reference_boundary, len(bitmap))', guard='self.idx_value > 0')),
 ('S6 zero-bit selection remembered per message by (boundary, bits)', CODER, BUILD,
  "        _sel = self.__dict__.setdefault('_sel', {})\n        _k = (self.back_reference_boundary, tuple(bitmap))\n        if _k not in _sel:\n"
  "            _sel[_k] = [(idx, d) for bit, (idx, d) in zip(bitmap, self.back_referenced_descriptors) if bit == 0]\n        self.bitmapped_descriptors = _sel[_k]\n"),
 ('S7 back references survive the switch to the next subset', CODER, "        self.reset_template_state()\n        self.decoded_descriptors = self.decoded_descriptors_all_subsets[idx_subset]",
  "        _keep = self.back_referenced_descriptors\n        self.reset_template_state()\n        self.back_referenced_descriptors = _keep\n        self.decoded_descriptors = self.decoded_descriptors_all_subsets[idx_subset]"),
 ('S8 boundary of the k-th operator remembered from the first subset that reached it', CODER,
  "    def mark_back_reference_boundary(self):\n        self.back_reference_boundary = len(self.decoded_descriptors)",
  "    def mark_back_reference_boundary(self):\n        _b = self.__dict__.setdefault('_bounds', {})\n"
  "        _k = sum(1 for d in self.decoded_descriptors if getattr(d, 'id', 0) in (222000, 223000, 224000, 225000, 232000))\n"
  "        self.back_reference_boundary = _b.setdefault(_k, len(self.decoded_descriptors))"),
]
sel = [a for a in sys.argv[3:] if a != '--oracle']
ORACLE = '--oracle' in sys.argv
for name, fn, a, b in MUTS:
    if sel and not any(name.startswith(x + ' ') for x in sel):
        continue
    F = os.path.join(REPO, fn)
    orig = open(F).read()
    if orig.count(a) != 1:
        print('PATTERN PROBLEM', name, orig.count(a))
        continue
    open(F, 'w').write(orig.replace(a, b))
    try:
        p = subprocess.run(['./check', 'C07', '--tier', 'quick'], cwd=VERIF, env=dict(os.environ, VERIF_REPO=REPO, **({'VERIF_C07_ORACLE_ONLY': '1'} if ORACLE else {})),
                           stdout=subprocess.PIPE, stderr=subprocess.STDOUT, text=True)
    finally:
        open(F, 'w').write(orig)
    lines = p.stdout.split('\n')
    viol = [l for l in lines if l.startswith('VIOLATION')]
    det = ''
    for i, l in enumerate(lines):
        if l.startswith('VIOLATION'):
            det = lines[i + 1][:150]
            break
    print('%-70s rc=%d violations=%d  %s' % (name, p.returncode, len(viol), det))
    sys.stdout.flush()
    if p.returncode == 2:
        print(p.stdout[-1500:])
    assert open(F).read() == orig
