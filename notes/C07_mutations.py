"""Planted-mutation self-test for C07: python notes/C07_mutations.py <repo> <verif> [M1 M2 ...]
Every mutation must give exit 1 and a VIOLATION line in the quick tier; the files are restored afterwards."""
import subprocess, sys, os
REPO, VERIF = sys.argv[1], sys.argv[2]
CODER = 'pybufrkit/coder.py'
TD = 'pybufrkit/templatedata.py'
DEC = 'pybufrkit/decoder.py'
MUTS = [
 ('M1 zero bits -> one bits', CODER, "            ) if bit == 0\n", "            ) if bit == 1\n"),
 ('M2 back references collected in reverse (insert(0) -> append)', CODER, "self.back_referenced_descriptors.insert(0, (idx, descriptor))", "self.back_referenced_descriptors.append((idx, descriptor))"),
 ('M3 boundary taken after the operator item (EQUIVALENT: the operator item is never a candidate)', CODER, "                state.mark_back_reference_boundary()\n                self.process_constant(state, bit_operator, descriptor, 0)", "                self.process_constant(state, bit_operator, descriptor, 0)\n                state.mark_back_reference_boundary()"),
 ('M3b boundary = items recorded when the bit-map is defined (the bits themselves become candidates)', CODER, "            for idx in range(self.back_reference_boundary - 1, -1, -1):", "            for idx in range(len(self.decoded_descriptors) - 1, -1, -1):"),
 ('M4 225255 width +1 dropped', CODER, "nbits=bitmapped_descriptor.nbits + 1,", "nbits=bitmapped_descriptor.nbits,"),
 ('M5 225255 reference sign', CODER, "refval=-2 ** bitmapped_descriptor.nbits,", "refval=2 ** bitmapped_descriptor.nbits,"),
 ('M6 recall does not restart the iterator', CODER, "    def recall_bitmap(self):\n        self.next_bitmapped_descriptor = functools.partial(next, iter(self.bitmapped_descriptors))\n", "    def recall_bitmap(self):\n"),
 ('M7 back references rebuilt for every bitmap', CODER, "        if not self.back_referenced_descriptors:\n", "        if True:\n"),
 ('M8 235000 does not cancel the back references', CODER, "    def cancel_all_back_references(self):\n        self.back_referenced_descriptors = None\n", "    def cancel_all_back_references(self):\n"),
 ('M9 any ElementDescriptor subclass counts as candidate (isinstance)', CODER, "                if type(descriptor) is ElementDescriptor:\n                    self.back_referenced_descriptors", "                if isinstance(descriptor, ElementDescriptor):\n                    self.back_referenced_descriptors"),
 ('M10 QA stretch not ended by another element', CODER, "            if state.status_qa_info_follows == QA_INFO_PROCESSING:\n                state.status_qa_info_follows = QA_INFO_NA", "            if False:\n                state.status_qa_info_follows = QA_INFO_NA"),
 ('M11 compressed bitmap taken from the last subset', DEC, "bitmap = state.decoded_values_all_subsets[0][-state.n_031031:]", "bitmap = state.decoded_values_all_subsets[-1][-state.n_031031:]"),
 ('M12 wiring attaches 223255 to the previous node', TD, "                node = self.add_node(SubstitutionNode(*self.get_next_descriptor_and_index()))\n                self.wire_bitmap_attribute(node)", "                node = self.add_node(SubstitutionNode(*self.get_next_descriptor_and_index()))\n                self.index_to_node[max(k for k in self.index_to_node if k < node.index - 1)].add_attribute(node)"),
 ('M13 wiring forgets the 008023 meaning on 224255', TD, "                node.add_attribute(self.first_order_stats_meaning)\n", ""),
 ('M14 associated field attached to the node before', TD, "            node = ValueDataNode(*self.get_next_descriptor_and_index())\n            node.add_attribute(assoc_node)\n            self.add_node(node)", "            node = ValueDataNode(*self.get_next_descriptor_and_index())\n            (self.decoded_nodes[-1] if self.decoded_nodes and hasattr(self.decoded_nodes[-1], 'index') else node).add_attribute(assoc_node)\n            self.add_node(node)"),
 ('M15 bit counting starts one late (first 031031 of a run skipped)', CODER, "            if descriptor.id == 31031:\n                state.bitmap_definition_state = BITMAP_BIT_COUNTING\n                state.n_031031 += 1", "            if descriptor.id == 31031:\n                state.bitmap_definition_state = BITMAP_BIT_COUNTING"),
 ('M16 link keyed one item late', CODER, "        self.bitmap_links[len(self.decoded_descriptors)] = idx_descriptor", "        self.bitmap_links[len(self.decoded_descriptors) + 1] = idx_descriptor"),
]
sel = [a for a in sys.argv[3:] if a != '--oracle']
ORACLE = '--oracle' in sys.argv
for name, fn, a, b in MUTS:
    if sel and not any(name.startswith(x + ' ') for x in sel):
        continue
    F = os.path.join(REPO, fn)
    orig = open(F).read()
    if orig.count(a) != 1:
        print('PATTERN PROBLEM', name, orig.count(a))
        continue
    open(F, 'w').write(orig.replace(a, b))
    try:
        p = subprocess.run(['./check', 'C07', '--tier', 'quick'], cwd=VERIF, env=dict(os.environ, VERIF_REPO=REPO, **({'VERIF_C07_ORACLE_ONLY': '1'} if ORACLE else {})),
                           stdout=subprocess.PIPE, stderr=subprocess.STDOUT, text=True)
    finally:
        open(F, 'w').write(orig)
    lines = p.stdout.split('\n')
    viol = [l for l in lines if l.startswith('VIOLATION')]
    det = ''
    for i, l in enumerate(lines):
        if l.startswith('VIOLATION'):
            det = lines[i + 1][:150]
            break
    print('%-70s rc=%d violations=%d  %s' % (name, p.returncode, len(viol), det))
    sys.stdout.flush()
    if p.returncode == 2:
        print(p.stdout[-1500:])
    assert open(F).read() == orig
