"""
Planted-mutation self-test of the C09 quick check.  Usage (from the verif worktree):
    VERIF_REPO=<repo worktree> /venv/bin/python notes/C09_mutations.py
    VERIF_REPO=<repo worktree> /venv/bin/python notes/C09_mutations.py [--oracle] [--cli] [name fragment ...]
Each mutation is applied to the repo worktree (uncommitted), `./check C09 --tier quick` must exit 1 with a
VIOLATION line, and the worktree is restored with `git checkout -- .` straight afterwards.  With --oracle the
model / implementation comparison is switched off (VERIF_C09_ORACLE_ONLY): the oracle on the implementation alone
must find the violation.  With --cli only the serialised-path part of the check runs (VERIF_C09_ONLY=cli, about 15 s per
mutation instead of 2 min; what it reports the whole check reports too) - meant for the T mutations, siblings of seeded/C09-5
in the serialisation code and the command line glue.  A mutation whose `file` is a list of (file, old, new) triples edits
several files.  Names starting with "CONTROL" are behaviour-preserving under the property and must NOT be reported.
"""
import os
import subprocess
import sys

REPO = os.environ['VERIF_REPO']
HERE = os.path.dirname(os.path.dirname(os.path.abspath(__file__)))

# (name, file, old, new, occurrence index)
MUTATIONS = [
    ('flat text value column 81 -> 80', 'pybufrkit/renderer.py', "'{} {:74.74} {!r}'", "'{} {:73.73} {!r}'", 0),
    ('flat text link line value column 81 -> 80', 'pybufrkit/renderer.py', "'{} {:64.64} -> {} {!r}'", "'{} {:63.63} -> {} {!r}'", 0),
    ('associated value inserted after the owner (nested text -> flat)', 'pybufrkit/utils.py',
     'data_all_subsets[-1].insert(-1, value)', 'data_all_subsets[-1].append(value)', 0),
    ('virtual attributes emitted by nested_json_to_flat_json', 'pybufrkit/utils.py',
     "if 'virtual' not in attr:", 'if True:', 0),
    ('nested JSON replication chunking by n_items', 'pybufrkit/renderer.py',
     'n_members = decoded_node.descriptor.n_members', 'n_members = decoded_node.descriptor.n_items', 0),
    ('nested text replication chunking by n_items', 'pybufrkit/renderer.py',
     'n_members = decoded_node.descriptor.n_members', 'n_members = decoded_node.descriptor.n_items', 1),
    ('replication factor omitted by nested_json_to_flat_json', 'pybufrkit/utils.py',
     "if 'factor' in parameter:", "if 'factor' in parameter and False:", 0),
    ('attribute order reversed (add_attribute inserts in front)', 'pybufrkit/templatedata.py',
     'self.attributes.append(attr_node)', 'self.attributes.insert(0, attr_node)', 0),
    ('wiring: associated field also taken for class 31', 'pybufrkit/templatedata.py',
     'if self.nbits_associated_list and descriptor.X != 31:', 'if self.nbits_associated_list:', 0),
    ('wiring: 221 count decremented only for elements', 'pybufrkit/templatedata.py',
     '                self.data_not_present_count -= 1\n                if isinstance(member, ElementDescriptor):',
     '                if isinstance(member, ElementDescriptor):\n                    self.data_not_present_count -= 1', 0),
    ('wiring: sequence members appended to the parent list', 'pybufrkit/templatedata.py',
     '        self.decoded_nodes = sequence_node.members\n', '        sequence_node.members = []\n', 0),
    ('nested text -> flat: strings searched with the wrong quote prefix', 'pybufrkit/utils.py',
     "string_left_bound = (' ' if six.PY2 else ' b') + line_trailing_char", "string_left_bound = ' ' + line_trailing_char", 0),
    ('F14 fix reverted (dots of the factor indentation)', 'pybufrkit/utils.py', ".strip().lstrip('. ')", '.strip()', 0),
    ('F8 fix reverted (221-suppressed element printed with its name)', 'pybufrkit/renderer.py',
     "ret.append('{}{}'.format(indent, decoded_node.descriptor))", "ret.append('{}{}'.format(indent, decoded_node))", 0),
    # -- siblings of seeded/C09-1: something of a subset is taken from another subset / an attribute hangs on the wrong owner
    ('S1 wiring: nodes of the previous subset reused when the decoded descriptors are equal (= seeded/C09-1)', 'pybufrkit/templatedata.py',
     "            self.decoded_nodes = self.decoded_nodes_all_subsets[idx_subset]\n",
     "            if idx_subset > 0 and self.decoded_descriptors_all_subsets[idx_subset] == self.decoded_descriptors_all_subsets[idx_subset - 1]:\n"
     "                self.decoded_nodes_all_subsets[idx_subset] = self.decoded_nodes_all_subsets[idx_subset - 1]\n"
     "                continue\n"
     "            self.decoded_nodes = self.decoded_nodes_all_subsets[idx_subset]\n", 0),
     ('S2 wiring: node trees cached across subsets, keyed on the descriptor ids (any earlier subset)', 'pybufrkit/templatedata.py',
     "            self.decoded_nodes = self.decoded_nodes_all_subsets[idx_subset]\n",
     "            cache = self.__dict__.setdefault('_nodes_by_ids', {})\n"
     "            key = tuple(str(d) for d in self.decoded_descriptors_all_subsets[idx_subset])\n"
     "            if key in cache:\n"
     "                self.decoded_nodes_all_subsets[idx_subset] = cache[key]\n"
     "                continue\n"
     "            cache[key] = self.decoded_nodes_all_subsets[idx_subset]\n"
     "            self.decoded_nodes = self.decoded_nodes_all_subsets[idx_subset]\n", 0),
    ('S3 wiring: bitmap links of the previous subset (stale) when it has the same keys', 'pybufrkit/templatedata.py',
     "            self.bitmap_links = self.bitmap_links_all_subsets[idx_subset]\n",
     "            self.bitmap_links = self.bitmap_links_all_subsets[idx_subset]\n"
     "            if idx_subset > 0 and sorted(self.bitmap_links) == sorted(self.bitmap_links_all_subsets[idx_subset - 1]):\n"
     "                self.bitmap_links = self.bitmap_links_all_subsets[idx_subset - 1]\n", 0),
    ('S4 wiring: decoded values of subset 0 (stale replication counts)', 'pybufrkit/templatedata.py',
     'self.decoded_values = self.decoded_values_all_subsets[idx_subset]', 'self.decoded_values = self.decoded_values_all_subsets[0]', 0),
    ('S5 wiring: marker value attached to the element after its owner', 'pybufrkit/templatedata.py',
     '        self.index_to_node[self.bitmap_links[attr_node.index]].add_attribute(attr_node)',
     '        owner = self.bitmap_links[attr_node.index]\n'
     '        self.index_to_node[owner + 1 if owner + 1 in self.index_to_node and owner + 1 != attr_node.index else owner].add_attribute(attr_node)', 0),
    ('S6 wiring: quality value attached to the element before its owner', 'pybufrkit/templatedata.py',
     '                self.index_to_node[self.bitmap_links[node.index]].add_attribute(node)',
     '                owner = self.bitmap_links[node.index]\n'
     '                self.index_to_node[owner - 1 if owner - 1 in self.index_to_node else owner].add_attribute(node)', 0),
    ('S7 nested text: attribute lines printed at the indentation of their owner', 'pybufrkit/renderer.py',
     '                    decoded_node, decoded_descriptors, decoded_values, indent + INDENT_CHARS\n', 
     '                    decoded_node, decoded_descriptors, decoded_values, indent\n', 0),
    ('S8 nested text: nodes of subset 1 shown for every subset with the same descriptors', 'pybufrkit/renderer.py',
     "                    template_data.decoded_nodes_all_subsets[idx_subset],\n"
     "                    template_data.decoded_descriptors_all_subsets[idx_subset],\n"
     "                    template_data.decoded_values_all_subsets[idx_subset],\n"
     "                    indent=''\n",
     "                    template_data.decoded_nodes_all_subsets[0 if template_data.decoded_descriptors_all_subsets[idx_subset] == template_data.decoded_descriptors_all_subsets[0] else idx_subset],\n"
     "                    template_data.decoded_descriptors_all_subsets[idx_subset],\n"
     "                    template_data.decoded_values_all_subsets[idx_subset],\n"
     "                    indent=''\n", 0),
    ('S9 nested JSON: nodes of subset 1 shown for every subset with the same descriptors', 'pybufrkit/renderer.py',
     "                    template_data.decoded_nodes_all_subsets[idx_subset],\n"
     "                    template_data.decoded_descriptors_all_subsets[idx_subset],\n"
     "                    template_data.decoded_values_all_subsets[idx_subset],\n"
     "                )\n",
     "                    template_data.decoded_nodes_all_subsets[0 if template_data.decoded_descriptors_all_subsets[idx_subset] == template_data.decoded_descriptors_all_subsets[0] else idx_subset],\n"
     "                    template_data.decoded_descriptors_all_subsets[idx_subset],\n"
     "                    template_data.decoded_values_all_subsets[idx_subset],\n"
     "                )\n", 0),
    ('S10 flat text: link column taken from the bitmap links of subset 1', 'pybufrkit/renderer.py',
     'bitmap_links = template_data.bitmap_links_all_subsets[idx_subset]',
     'bitmap_links = template_data.bitmap_links_all_subsets[idx_subset]\n'
     '            if sorted(bitmap_links) == sorted(template_data.bitmap_links_all_subsets[0]):\n'
     '                bitmap_links = template_data.bitmap_links_all_subsets[0]', 0),
    ('S11 flat text: link column shows the 0-based owner index', 'pybufrkit/renderer.py',
     'fixed_width_repr_of_int(bitmap_links[idx] + 1, 6, pad_left=False)', 'fixed_width_repr_of_int(bitmap_links[idx], 6, pad_left=False)', 0),
    ('S12 nested JSON: attributes of a replication factor not shown', 'pybufrkit/renderer.py',
     "                        n['factor'] = self._render_template_data_value_node(\n"
     "                            decoded_node.factor, decoded_descriptors, decoded_values,\n"
     "                        )\n",
     "                        n['factor'] = self._render_template_data_value_node(\n"
     "                            decoded_node.factor, decoded_descriptors, decoded_values,\n"
     "                        )\n"
     "                        n['factor'].pop('attributes', None)\n", 0),
    # -- siblings of seeded/C09-5: the serialised forms the command line writes and reads, and the option handling glue
    ('T1 EntityEncoder: bytes shown as ASCII, anything else replaced (errors=replace)', 'pybufrkit/utils.py',
     "return o.decode(encoding='latin-1')", "return o.decode('ascii', errors='replace')", 0),
    ('T2 JSON written with ensure_ascii=False (text depends on the encoding of the pipe / file)', 'pybufrkit/utils.py',
     "{'cls': EntityEncoder}", "{'cls': EntityEncoder, 'ensure_ascii': False}", 0),
    ('T2b ensure_ascii=False and encode reads its input as ASCII with errors=replace',
     [('pybufrkit/utils.py', "{'cls': EntityEncoder}", "{'cls': EntityEncoder, 'ensure_ascii': False}"),
      ('pybufrkit/commands.py', "        with open(ns.filename) as ins:\n            s = ins.read()\n    else:  # read from stdin",
       "        with open(ns.filename, encoding='ascii', errors='replace') as ins:\n            s = ins.read()\n    else:  # read from stdin")], None, None, 0),
    ('T3 write_bytes: text from JSON encoded as UTF-8', 'pybufrkit/bitops.py', "value = value.encode('latin-1')", "value = value.encode('utf-8')", 0),
    ('CONTROL T4 JSON written with sort_keys=True (key order of the nested JSON objects; the readers go by key)', 'pybufrkit/utils.py',
     "{'cls': EntityEncoder}", "{'cls': EntityEncoder, 'sort_keys': True}", 0),
    ('T5 encode --preamble written after the message', 'pybufrkit/commands.py',
     "            if ns.preamble:\n                outs.write(str.encode(ns.preamble, encoding='utf8'))\n            outs.write(bufr_message.serialized_bytes)",
     "            outs.write(bufr_message.serialized_bytes)\n            if ns.preamble:\n                outs.write(str.encode(ns.preamble, encoding='utf8'))", 0),
    ('T6 encode --append ignored (file always replaced)', 'pybufrkit/commands.py', "fmode = 'ab' if ns.append else 'wb'", "fmode = 'wb'", 0),
    ('T7 encode from stdin reads the first line only', 'pybufrkit/commands.py',
     "    else:  # read from stdin, this is useful for piping\n        s = sys.stdin.read()", "    else:  # read from stdin, this is useful for piping\n        s = sys.stdin.readline()", 0),
    ('T8 decode: only the first of several files', 'pybufrkit/commands.py',
     "    for filename in ns.filenames:\n        if filename != '-':", "    for filename in ns.filenames[:1]:\n        if filename != '-':", 0),
    ('T9 split: parts numbered from 1', 'pybufrkit/commands.py', "new_filename = '{}.{}'.format(filename, idx)", "new_filename = '{}.{}'.format(filename, idx + 1)", 0),
    ('T10 query -j: nested renderer without -n, flat renderer with it', 'pybufrkit/commands.py', "                if ns.nested:\n                    print(json.dumps(NestedJsonRenderer()",
     "                if not ns.nested:\n                    print(json.dumps(NestedJsonRenderer()", 0),
    ('T11 EntityEncoder: trailing white space of character values dropped (the encoder pads again)', 'pybufrkit/utils.py',
     "return o.decode(encoding='latin-1')", "return o.decode(encoding='latin-1').rstrip()", 0),
    ('T12 EntityEncoder: UTF-8 when valid, else latin-1 (= seeded/C09-5)', 'pybufrkit/utils.py',
     "            return o.decode(encoding='latin-1')",
     "            try:\n                return o.decode(encoding='utf-8')\n            except UnicodeDecodeError:\n                return o.decode(encoding='latin-1')", 0),
    ('T13 EntityEncoder: character values cut at the first NUL', 'pybufrkit/utils.py',
     "return o.decode(encoding='latin-1')", "return o.decode(encoding='latin-1').split('\\0')[0]", 0),
    ('T14 decode -j -a: the message is not wired again when it already is (flag kept on the renderer side): nested JSON of an unwired message',
     'pybufrkit/commands.py', "        if ns.attributed:\n            m.wire()\n            if ns.json:", "        if ns.attributed:\n            if not ns.json:\n                m.wire()\n            if ns.json:", 0),
    ('T15 subset: indices taken as 1-based', 'pybufrkit/commands.py', "subset_indices = [int(x) for x in ns.subset_indices.split(',')]",
     "subset_indices = [int(x) - 1 for x in ns.subset_indices.split(',')]", 0),
    ('T16 encode: text input (no -j) read with the nested converter when -a is absent', 'pybufrkit/commands.py',
     "            if ns.attributed:\n                data = nested_text_to_flat_json(s)\n            else:\n                data = flat_text_to_flat_json(s)",
     "            if not ns.attributed:\n                data = nested_text_to_flat_json(s)\n            else:\n                data = flat_text_to_flat_json(s)", 0),
]


def replace_nth(s, old, new, n):
    pos = -1
    for _ in range(n + 1):
        pos = s.find(old, pos + 1)
        if pos < 0:
            raise SystemExit('mutation target not found: %r (#%d)' % (old, n))
    return s[:pos] + new + s[pos + len(old):]


def main():
    only = [a for a in sys.argv[1:] if not a.startswith('--')]
    env = dict(os.environ)
    if '--oracle' in sys.argv:
        # only the property oracle on the implementation may report (no model / implementation comparison)
        env['VERIF_C09_ORACLE_ONLY'] = '1'
    if '--cli' in sys.argv:
        env['VERIF_C09_ONLY'] = 'cli'
    results = []
    for name, fn, old, new, n in MUTATIONS:
        if only and not any(o in name for o in only):
            continue
        edits = fn if isinstance(fn, list) else [(fn, old, new)]
        try:
            for fn1, old1, new1 in edits:
                path = os.path.join(REPO, fn1)
                with open(path) as f:
                    src = f.read()
                with open(path, 'w') as f:
                    f.write(replace_nth(src, old1, new1, n))
            p = subprocess.run(['./check', 'C09', '--tier', 'quick'], cwd=HERE, env=env, stdout=subprocess.PIPE, stderr=subprocess.STDOUT, text=True)
            lines = [l for l in p.stdout.split('\n') if l.startswith('VIOLATION')]
            first = ''
            out = p.stdout.split('\n')
            for i, l in enumerate(out):
                if l.startswith('VIOLATION') and i + 1 < len(out):
                    first = out[i + 1].strip()[:140]
                    break
            caught = p.returncode == 1 and bool(lines)
            if name.startswith('CONTROL'):
                quiet = p.returncode == 0 and not lines
                results.append((name, quiet, p.returncode, len(lines), first))
                print('%-75s %s (exit %d, %d VIOLATION lines) %s' % (name, 'QUIET (as it must be)' if quiet else 'FALSE ALARM', p.returncode, len(lines), first))
                continue
            results.append((name, caught, p.returncode, len(lines), first))
            print('%-75s %s (exit %d, %d VIOLATION lines) %s' % (name, 'CAUGHT' if caught else 'MISSED', p.returncode, len(lines), first))
            sys.stdout.flush()
        finally:
            subprocess.run(['git', '-C', REPO, 'checkout', '--', '.'], check=True)
    print('%d/%d as expected (caught, or quiet for a CONTROL)' % (sum(1 for r in results if r[1]), len(results)))


if __name__ == '__main__':
    main()
