"""
Planted-mutation self-test of the C09 quick check.  Usage (from the verif worktree):
    VERIF_REPO=<repo worktree> /venv/bin/python notes/C09_mutations.py
Each mutation is applied to the repo worktree (uncommitted), `./check C09 --tier quick` must exit 1 with a
VIOLATION line, and the worktree is restored with `git checkout -- .` straight afterwards.
"""
import os
import subprocess
import sys

REPO = os.environ['VERIF_REPO']
HERE = os.path.dirname(os.path.dirname(os.path.abspath(__file__)))

# (name, file, old, new, occurrence index)
MUTATIONS = [
    ('flat text value column 81 -> 80', 'pybufrkit/renderer.py', "'{} {:74.74} {!r}'", "'{} {:73.73} {!r}'", 0),
    ('flat text link line value column 81 -> 80', 'pybufrkit/renderer.py', "'{} {:64.64} -> {} {!r}'", "'{} {:63.63} -> {} {!r}'", 0),
    ('associated value inserted after the owner (nested text -> flat)', 'pybufrkit/utils.py',
     'data_all_subsets[-1].insert(-1, value)', 'data_all_subsets[-1].append(value)', 0),
    ('virtual attributes emitted by nested_json_to_flat_json', 'pybufrkit/utils.py',
     "if 'virtual' not in attr:", 'if True:', 0),
    ('nested JSON replication chunking by n_items', 'pybufrkit/renderer.py',
     'n_members = decoded_node.descriptor.n_members', 'n_members = decoded_node.descriptor.n_items', 0),
    ('nested text replication chunking by n_items', 'pybufrkit/renderer.py',
     'n_members = decoded_node.descriptor.n_members', 'n_members = decoded_node.descriptor.n_items', 1),
    ('replication factor omitted by nested_json_to_flat_json', 'pybufrkit/utils.py',
     "if 'factor' in parameter:", "if 'factor' in parameter and False:", 0),
    ('attribute order reversed (add_attribute inserts in front)', 'pybufrkit/templatedata.py',
     'self.attributes.append(attr_node)', 'self.attributes.insert(0, attr_node)', 0),
    ('wiring: associated field also taken for class 31', 'pybufrkit/templatedata.py',
     'if self.nbits_associated_list and descriptor.X != 31:', 'if self.nbits_associated_list:', 0),
    ('wiring: 221 count decremented only for elements', 'pybufrkit/templatedata.py',
     '                self.data_not_present_count -= 1\n                if isinstance(member, ElementDescriptor):',
     '                if isinstance(member, ElementDescriptor):\n                    self.data_not_present_count -= 1', 0),
    ('wiring: sequence members appended to the parent list', 'pybufrkit/templatedata.py',
     '        self.decoded_nodes = sequence_node.members\n', '        sequence_node.members = []\n', 0),
    ('nested text -> flat: strings searched with the wrong quote prefix', 'pybufrkit/utils.py',
     "string_left_bound = (' ' if six.PY2 else ' b') + line_trailing_char", "string_left_bound = ' ' + line_trailing_char", 0),
    ('F14 fix reverted (dots of the factor indentation)', 'pybufrkit/utils.py', ".strip().lstrip('. ')", '.strip()', 0),
    ('F8 fix reverted (221-suppressed element printed with its name)', 'pybufrkit/renderer.py',
     "ret.append('{}{}'.format(indent, decoded_node.descriptor))", "ret.append('{}{}'.format(indent, decoded_node))", 0),
]


def replace_nth(s, old, new, n):
    pos = -1
    for _ in range(n + 1):
        pos = s.find(old, pos + 1)
        if pos < 0:
            raise SystemExit('mutation target not found: %r (#%d)' % (old, n))
    return s[:pos] + new + s[pos + len(old):]


def main():
    only = sys.argv[1:]
    results = []
    for name, fn, old, new, n in MUTATIONS:
        if only and not any(o in name for o in only):
            continue
        path = os.path.join(REPO, fn)
        with open(path) as f:
            src = f.read()
        try:
            with open(path, 'w') as f:
                f.write(replace_nth(src, old, new, n))
            p = subprocess.run(['./check', 'C09', '--tier', 'quick'], cwd=HERE, stdout=subprocess.PIPE, stderr=subprocess.STDOUT, text=True)
            lines = [l for l in p.stdout.split('\n') if l.startswith('VIOLATION')]
            first = ''
            out = p.stdout.split('\n')
            for i, l in enumerate(out):
                if l.startswith('VIOLATION') and i + 1 < len(out):
                    first = out[i + 1].strip()[:140]
                    break
            caught = p.returncode == 1 and bool(lines)
            results.append((name, caught, p.returncode, len(lines), first))
            print('%-75s %s (exit %d, %d VIOLATION lines) %s' % (name, 'CAUGHT' if caught else 'MISSED', p.returncode, len(lines), first))
            sys.stdout.flush()
        finally:
            subprocess.run(['git', '-C', REPO, 'checkout', '--', '.'], check=True)
    print('%d/%d caught' % (sum(1 for r in results if r[1]), len(results)))


if __name__ == '__main__':
    main()
