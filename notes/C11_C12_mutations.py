"""
Mutation self-test of the C11 / C12 quick checks.  Usage (from the verif worktree):
    VERIF_REPO=<repo worktree> /venv/bin/python notes/C11_C12_mutations.py [C11|C12] [name ...]
Each mutation is applied to the repo worktree (uncommitted), the quick check is run (exit 1 + a VIOLATION line
expected), and the worktree is restored with `git checkout -- .`.
"""
import os
import subprocess
import sys

REPO = os.environ['VERIF_REPO']
VERIF = os.path.dirname(os.path.dirname(os.path.abspath(__file__)))

D = 'pybufrkit/decoder.py'
Q = 'pybufrkit/query.py'
MQ = 'pybufrkit/mdquery.py'
RUN = "                matched = sr.run(bufr_message)\n"
YIELD = "            if matched:\n                yield bufr_message\n"
QRET = "            return self.metadata_querent.query(bufr_message, query_expr)\n"
SECSEL = ("        sections = [s for s in bufr_message.sections\n"
          "                    if s.get_metadata('index') == section_index or section_index is None]\n")
MUT = {
    'C11': [
        ('advance-len-minus-1', D, "            idx_start += len(bufr_message.serialized_bytes)\n",
         "            idx_start += len(bufr_message.serialized_bytes) - 1\n"),
        ('info-only-advance-by-decoded-span', D,
         "                bufr_message.serialized_bytes = s[idx_start: idx_start + bufr_message.length.value]\n",
         "                pass\n"),
        ('filter-negated', D, "                matched = sr.run(bufr_message)\n", "                matched = not sr.run(bufr_message)\n"),
        ('filter-none-test', D, "            if matched:\n                yield bufr_message\n",
         "            if matched is not None:\n                yield bufr_message\n"),
        ('restart-search-inside-message', D, "            idx_start += len(bufr_message.serialized_bytes)\n",
         "            idx_start += len(MESSAGE_START_SIGNATURE)\n"),
        ('search-from-next-byte', D, "        idx_start = s.find(MESSAGE_START_SIGNATURE, idx_start)\n",
         "        idx_start = s.find(MESSAGE_START_SIGNATURE, idx_start + 1 if idx_start else 0)\n"),
        ('filter-on-full-decode-only-when-info', D, "                if matched and not info_only:\n",
         "                if matched and info_only:\n"),
        # round 2 (siblings of seeded/C11-3 and seeded/C11-4)
        ('rejected-advances-4-more', D, YIELD, YIELD + "            else:\n                idx_start += 4\n"),
        ('rejected-advances-1-more', D, YIELD, YIELD + "            else:\n                idx_start += 1\n"),
        ('rejected-advances-by-1-only', D, "            idx_start += len(bufr_message.serialized_bytes)\n",
         "            idx_start += len(bufr_message.serialized_bytes) if matched else 1\n"),
        ('rejected-info-only-advances-by-decoded-span', D,
         "            if info_only:\n                bufr_message.serialized_bytes = s[idx_start: idx_start + bufr_message.length.value]\n",
         "            if info_only and matched:\n                bufr_message.serialized_bytes = s[idx_start: idx_start + bufr_message.length.value]\n            elif info_only:\n                pass\n"),
        ('filter-on-previous-message', D, RUN,
         "                matched = sr.run(getattr(sr, '_prev', bufr_message))\n                sr._prev = bufr_message\n"),
        ('filter-result-cached-per-scan', D, RUN,
         "                matched = sr.__dict__.setdefault('_first', sr.run(bufr_message))\n"),
        ('filter-result-cached-per-expression', D, RUN,
         "                matched = generate_bufr_message.__dict__.setdefault(filter_expr, sr.run(bufr_message))\n"),
        ('md-query-falsy-to-none', Q, QRET,
         "            return self.metadata_querent.query(bufr_message, query_expr) or None\n"),
        ('md-query-falsy-to-message-attribute', Q, QRET,
         "            return (self.metadata_querent.query(bufr_message, query_expr) or\n"
         "                    getattr(getattr(bufr_message, query_expr.strip()[1:], None), 'value', None))\n"),
        ('md-query-none-test-on-wrong-side', Q, QRET,
         "            r = self.metadata_querent.query(bufr_message, query_expr)\n"
         "            d = getattr(getattr(bufr_message, query_expr.strip()[1:], None), 'value', None)\n"
         "            return d if r is not None else r\n"),
        ('section-qualified-uses-list-position', MQ, SECSEL,
         "        sections = [s for i, s in enumerate(bufr_message.sections)\n"
         "                    if i == section_index or section_index is None]\n"),
        ('bare-name-last-match-wins', MQ, "        for section in sections:\n            for parameter in section:\n",
         "        for section in reversed(sections):\n            for parameter in section:\n"),
        ('section-index-ignored', MQ, SECSEL, "        sections = list(bufr_message.sections)\n"),
        ('split-full-decode-span', 'pybufrkit/commands.py',
         "                                      file_path=filename, info_only=True)):\n            new_filename",
         "                                      file_path=filename, info_only=True)):\n            bufr_message.serialized_bytes = bufr_message.serialized_bytes[:-4] + b'7777'[:3]\n            new_filename"),
    ],
    'C12': [
        ('except-narrowed-to-BitReadError', D, "        except PyBufrKitError as e:\n",
         "        except __import__('pybufrkit.errors').errors.BitReadError as e:\n"),
        ('skip-branch-one-byte-only', D,
         "                    idx_start += bufr_message.length.value\n", "                    idx_start += 1\n"),
        ('bit-read-error-not-wrapped', 'pybufrkit/bitops.py', "        except self.bitstring_Error as e:\n            raise BitReadError(e.msg)\n",
         "        except ZeroDivisionError as e:\n            raise BitReadError(e.msg)\n"),
        ('F9-reverted-assert', D,
         "            if parameter.expected is not None and parameter.value != parameter.expected:\n                raise PyBufrKitError(",
         "            if parameter.expected is not None and parameter.value != parameter.expected:\n                raise AssertionError("),
        ('overrun-check-dropped', D, "            elif nbits_unread < 0:\n                raise PyBufrKitError(", "            elif nbits_unread < -10 ** 9:\n                raise PyBufrKitError("),
        ('unknown-descriptor-as-ValueError', 'pybufrkit/coder.py', "                raise UnknownDescriptor(", "                raise ValueError("),
        ('continue-flag-inverted', D, "            if not continue_on_error:\n                raise e\n", "            if continue_on_error:\n                raise e\n"),
        ('skip-by-metadata-span', D, "                    idx_start += bufr_message.length.value\n",
         "                    idx_start += len(bufr_message.serialized_bytes)\n"),
        ('cli-library-error-not-caught', 'pybufrkit/__init__.py', "    except PyBufrKitError as e:\n        print(e, file=sys.stderr)\n",
         "    except ZeroDivisionError as e:\n        print(e, file=sys.stderr)\n"),
        ('trailing-bytes-leak', D, "        bufr_message.serialized_bytes = s[:nbits_decoded // NBITS_PER_BYTE]\n",
         "        bufr_message.serialized_bytes = s[:nbits_decoded // NBITS_PER_BYTE + (1 if len(s) % 7 == 3 else 0)]\n"),
    ],
}


def main():
    props = [a for a in sys.argv[1:] if a in MUT] or ['C11', 'C12']
    names = [a for a in sys.argv[1:] if a not in MUT]
    results = []
    for prop in props:
        for name, path, old, new in MUT[prop]:
            if names and name not in names:
                continue
            full = os.path.join(REPO, path)
            src = open(full).read()
            if src.count(old) != 1:
                results.append((prop, name, 'NOT-APPLICABLE (pattern count %d)' % src.count(old)))
                continue
            open(full, 'w').write(src.replace(old, new))
            try:
                p = subprocess.run(['./check', prop, '--tier', 'quick'], cwd=VERIF, stdout=subprocess.PIPE,
                                   stderr=subprocess.STDOUT, text=True, env=dict(os.environ))
                viol = [l for l in p.stdout.split('\n') if l.startswith('VIOLATION')]
                first = ''
                lines = p.stdout.split('\n')
                for i, l in enumerate(lines):
                    if l.startswith('VIOLATION') and i + 1 < len(lines):
                        first = lines[i + 1].strip()[:140]
                        break
                results.append((prop, name, 'caught' if p.returncode == 1 and viol else 'MISSED (exit %d)' % p.returncode, len(viol), first))
            finally:
                subprocess.run(['git', '-C', REPO, 'checkout', '--', '.'], check=True)
            print(results[-1], flush=True)
    print()
    for r in results:
        print(' | '.join(str(x) for x in r))


if __name__ == '__main__':
    main()
