"""
C05: the code/flag re-check of Decoder.process_codeflag_compressed and the widths it sees - replay of the Lean witnesses
(lean/BufrModel/Props/C05Width.lean, namespace C05WEx) on the implementation.

    /venv/bin/python notes/C05_recheck_probe.py [<repo>]

1. THROUGH THE PUBLIC API a code / flag element never meets the two widths apart: 201YYY / 207YYY do not apply to code and
   flag tables (coder.py process_element_descriptor hands `descriptor.nbits` over for them), associated fields and skipped
   local descriptors get pseudo descriptors that carry the width read.  Compressed and uncompressed decodes agree, also on
   the special integers, and the field in the bit stream keeps its Table B width.  (Theorem C05_walk_recheck_uses_field_width.)
2. CALLED DIRECTLY with a width that is not the descriptor's own - what seeded/C05-4 makes the template walk do for
   scale-0 / reference-0 numeric elements under 201YYY - the reader takes minimum + increment = 2^(descriptor.nbits) - 1 for
   missing although the field read is wider: the Lean model `decCodeflagCD` does the same (example in C05WEx), the numeric
   reader does not (`C05_numeric_column_width_in_force`).
Exit status 0 when all of this is as described.
"""
import json
import sys

if len(sys.argv) > 1:
    sys.path.insert(0, sys.argv[1])

from pybufrkit.bitops import get_bit_reader
from pybufrkit.coder import CoderState
from pybufrkit.decoder import Decoder
from pybufrkit.encoder import Encoder
from pybufrkit.tables import TableGroupCacheManager

ok = True


def message(template, subsets, compressed):
    return json.dumps([
        ['BUFR', 0, 4],
        [22, 0, 0, 0, 0, False, '0000000', 0, 0, 0, 25, 0, 2020, 1, 1, 0, 0, 0],
        [0, '00000000', len(subsets), True, compressed, '000000', template],
        [0, '00000000', subsets],
        ['7777'],
    ])


def roundtrip(template, subsets, compressed):
    enc = Encoder().process(message(template, subsets, compressed))
    dec = Decoder().process(enc.serialized_bytes)
    return dec.template_data.value.decoded_values_all_subsets, len(enc.serialized_bytes)


# 1. public API: 020003 PRESENT WEATHER is a 9-bit code table; 201130 / 207002 in force
for template in ([201130, 20003, 201000], [207002, 20003, 207000], [202129, 20003, 202000]):
    subsets = [[510], [255], [256], [None], [127], [128]]
    u, nu = roundtrip(template, subsets, False)
    c, nc = roundtrip(template, subsets, True)
    good = u == subsets and c == subsets
    ok = ok and good
    print('%s  uncompressed %s  compressed %s  %s' % (template, [v[0] for v in u], [v[0] for v in c], 'same' if good else 'DIFFERENT'))
    # uncompressed: 6 subsets x 9 bits = 54 bits -> 7 octets of data (a widened 11-bit field would need 9)
    one = len(Encoder().process(message(template, [[1]], False)).serialized_bytes)
    six = nu
    print('    data octets for 6 uncompressed subsets: %d (9-bit fields: 7, 11-bit fields: 9)' % (six - one + 2))
    ok = ok and (six - one + 2) == 7

# 2. direct call with a width that is not the descriptor's own
group = TableGroupCacheManager.get_table_group(tables_root_dir=None, master_table_number=0, originating_centre=0,
                                               originating_subcentre=0, master_table_version=25, local_table_version=0,
                                               normalize=1)
d_num = group.lookup(1001)       # WMO BLOCK NUMBER, numeric, 7 bits, scale 0, reference 0
assert d_num.nbits == 7


def bits(col_min, nd, incs, w):
    s = format(col_min, '0%db' % w) + format(nd, '06b') + ''.join(format(x, '0%db' % nd) for x in incs)
    s += '0' * (-len(s) % 8)
    return bytes(int(s[i:i + 8], 2) for i in range(0, len(s), 8))


# column 126, 127, 128, missing in an 8-bit field: minimum 126, 2-bit increments 0, 1, 2, 3 (all ones = missing)
data = bits(126, 2, [0, 1, 2, 3], 8)
dec = Decoder()
st = CoderState(True, 4)
dec.process_codeflag_compressed(st, get_bit_reader(data), d_num, 8)
as_code = [v[0] for v in st.decoded_values_all_subsets]
st = CoderState(True, 4)
dec.process_numeric_compressed(st, get_bit_reader(data), d_num, 8, 1.0, 0)
as_num = [v[0] for v in st.decoded_values_all_subsets]
print('8-bit column 126, 127, 128, missing of a descriptor with nbits = 7:')
print('    process_codeflag_compressed(descriptor, 8) -> %s   (model decCodeflagCD: [126, missing, 128, missing])' % as_code)
print('    process_numeric_compressed (descriptor, 8) -> %s   (model decNumericC:   [126, 127, 128, missing])' % as_num)
ok = ok and as_code == [126, None, 128, None] and as_num == [126, 127, 128, None]
print('OK' if ok else 'NOT AS DESCRIBED')
sys.exit(0 if ok else 1)
