"""Planted-mutation self-test, round 3: siblings of seeded/C05-4 and seeded/C06-4.

     python notes/C05C06_round3_mutations.py <repo worktree> <verif worktree> C05|C06 [U2 T3 ...]

<repo worktree> is a scratch worktree of /repo (git -C /repo worktree add --detach /tmp/x HEAD); files are restored after
every mutation.  Each mutation must give exit 1 and a VIOLATION line in the quick tier.

C05 (U*): somewhere a compressed (or an uncompressed) reader / writer consults the TABLE B width of the element where the
width IN FORCE is the right one, or the other way round - visible only on the packed integers that are special for the
other width, in the right column shape.
C06 (T*): something that has to be per SUBSET is kept per message on the COMPILED-template path only (or only on the second
use of a compiled template, or only in the encoder / the decoder) - invisible to the default Decoder() / Encoder()."""
import subprocess, sys, os, json, glob, shutil
REPO, VERIF, PROP = sys.argv[1], sys.argv[2], sys.argv[3]
DEC, ENC, COD, TC = (REPO + '/pybufrkit/' + f for f in ('decoder.py', 'encoder.py', 'coder.py', 'templatecompiler.py'))


def patch_edits(path):
    """a seeded patch.diff as a list of whole-file edits"""
    files = sorted(set(l[6:].strip() for l in open(path) if l.startswith('+++ b/')))
    before = {f: open(os.path.join(REPO, f)).read() for f in files}
    subprocess.run(['git', 'apply', path], cwd=REPO, check=True)
    after = {f: open(os.path.join(REPO, f)).read() for f in files}
    subprocess.run(['git', 'apply', '-R', path], cwd=REPO, check=True)
    return [(os.path.join(REPO, f), before[f], after[f], 1) for f in files]


# ---------------------------------------------------------------------------------------------------------------------
# C05
NUM_VARY = """                    value = min_value + diff
                    if refval:
"""
NUM_VARY_TB = """                    value = min_value + diff
                    if descriptor.nbits > 1 and value == NUMERIC_MISSING_VALUES[descriptor.nbits]:
                        decoded_values.append(None)
                        continue
                    if refval:
"""
NUM_EQ = """        elif nbits_diff == 0:
            value = min_value
            if refval:
"""
NUM_EQ_TB = """        elif nbits_diff == 0 and descriptor.nbits > 1 and min_value == NUMERIC_MISSING_VALUES[descriptor.nbits]:
            for decoded_values in state.decoded_values_all_subsets:
                decoded_values.append(None)

        elif nbits_diff == 0:
            value = min_value
            if refval:
"""
NUM_U = """        value = bit_reader.read_uint_or_none(nbits)
        if value is not None:
            if refval:
"""
NUM_U_TB = """        value = bit_reader.read_uint_or_none(nbits)
        if value is not None and descriptor.nbits > 1 and value == NUMERIC_MISSING_VALUES[descriptor.nbits]:
            value = None
        if value is not None:
            if refval:
"""
CF_CALL = "            self.process_codeflag(state, bit_operator, descriptor, descriptor.nbits)\n"
CF_CALL_201 = "            self.process_codeflag(state, bit_operator, descriptor,\n                                  descriptor.nbits + (state.nbits_offset if state.is_compressed else 0))\n"
ASSOC = "                              AssociatedDescriptor(descriptor.id, nbits_associated),\n"
ASSOC_TB = "                              AssociatedDescriptor(descriptor.id, getattr(descriptor, 'nbits', nbits_associated)),\n"
SKIP = "            SkippedLocalDescriptor(descriptor.id, state.nbits_of_skipped_local_descriptor),\n"
SKIP_TB = "            SkippedLocalDescriptor(descriptor.id, getattr(descriptor, 'nbits', 0) or state.nbits_of_skipped_local_descriptor),\n"
NBITS = """            nbits = (descriptor.nbits +
                     state.nbits_offset +
                     state.bsr_modifier.nbits_increment)
"""
NBITS_NO207C = """            nbits = (descriptor.nbits +
                     state.nbits_offset +
                     (0 if state.is_compressed else state.bsr_modifier.nbits_increment))
"""
STR_BLANK = "        if nbits_diff != 0 and min_value in (b'\\0' * nbytes_min_value or b'\\xff' * nbytes_min_value):\n"
STR_BLANK_TB = "        if nbits_diff != 0 and min_value in (b'\\0' * (getattr(descriptor, 'nbits', 8 * nbytes_min_value) // 8) or b'\\xff'):\n"

C05 = [
 ('U1 seeded/C05-4 (scale-0 / reference-0 numerics dispatched to process_codeflag; its compressed reader re-checks against the Table B width)',
  lambda: patch_edits(VERIF + '/seeded/C05-4/patch.diff')),
 ('U2 decoder, compressed numeric column with increments: minimum + increment equal to the all-ones value of the TABLE B width is missing',
  lambda: [(DEC, NUM_VARY, NUM_VARY_TB, 1)]),
 ('U3 encoder, compressed numeric column: values equal to the all-ones value of the TABLE B width are written as missing',
  lambda: [(ENC, "            values = self._all_ones_as_missing(values, nbits_min_value)\n",
            "            values = self._all_ones_as_missing(values, descriptor.nbits)\n", 1)]),
 ('U4 decoder, compressed all-equal numeric column: a minimum equal to the all-ones value of the TABLE B width is missing',
  lambda: [(DEC, NUM_EQ, NUM_EQ_TB, 1)]),
 ('U5 code / flag elements take 201YYY in compressed data only',
  lambda: [(COD, CF_CALL, CF_CALL_201, 1)]),
 ('U6 associated field: the pseudo descriptor carries the width of the ELEMENT (the compressed re-check then uses it)',
  lambda: [(COD, ASSOC, ASSOC_TB, 1)]),
 ('U7 skipped local descriptor: the pseudo descriptor carries the Table B width of the skipped element when it is known',
  lambda: [(COD, SKIP, SKIP_TB, 1)]),
 ('U8 decoder, UNCOMPRESSED numeric field: the all-ones value of the TABLE B width is missing (compressed data are right)',
  lambda: [(DEC, NUM_U, NUM_U_TB, 1)]),
 ('U9 the width increment of 207YYY is not applied in compressed data',
  lambda: [(COD, NBITS, NBITS_NO207C, 1)]),
 ('U10 decoder, compressed character column: the NUL base is recognised by the TABLE B length (208YYY in force: not blanked)',
  lambda: [(DEC, STR_BLANK, STR_BLANK_TB, 1)]),
]

# ---------------------------------------------------------------------------------------------------------------------
# C06
PROPS = """            if statement.state_properties is not None:
                for k, v in statement.state_properties.items():
                    setattr(state, k, v)
"""
PROPS_ONCE = """            if statement.state_properties is not None and id(statement) not in state.__dict__.setdefault('_props_done', set()):
                state._props_done.add(id(statement))
                for k, v in statement.state_properties.items():
                    setattr(state, k, v)
"""
LOOP = """            if isinstance(statement.repeat, CoderMethodCall):
                repeat = getattr(coder, statement.repeat.method_name)(state)
"""
LOOP_MEMO = """            if isinstance(statement.repeat, CoderMethodCall):
                memo = state.__dict__.setdefault('_repeat_memo', {})
                repeat = getattr(coder, statement.repeat.method_name)(state)
                repeat = memo.setdefault(id(statement), repeat)
"""
SWITCH_DEF = "    def switch_subset_context(self, idx_subset):\n"
SWITCH_DEF_OPT = "    def switch_subset_context(self, idx_subset, reset=True):\n"
SWITCH_RESET = """        # defined in previous subset so we are not saving them.
        self.reset_template_state()
"""
SWITCH_RESET_OPT = """        # defined in previous subset so we are not saving them.
        if reset:
            self.reset_template_state()
"""
CALL = "                state.switch_subset_context(idx_subset)\n"
CALL_CACHED = "                state.switch_subset_context(idx_subset, reset=not getattr(template_to_process, 'served_from_cache', False))\n"
CALL_COMPILED = "                state.switch_subset_context(idx_subset, reset=self.compiled_template_manager is None)\n"
HIT = "        if compiled_template is None:\n            log.debug('Cached version not available. Compiling now ...')\n"
HIT_MARK = "        if compiled_template is not None:\n            compiled_template.served_from_cache = True\n" + HIT
CODER_CALL = """                else:
                    getattr(coder, statement.method_name)(state, *statement.args)
"""
CODER_CALL_BITMAP_MEMO = """                elif statement.method_name == 'define_bitmap':
                    memo = state.__dict__.setdefault('_bitmap_memo', {})
                    if id(statement) in memo:
                        state.back_referenced_descriptors, state.bitmapped_descriptors, state.bitmap = memo[id(statement)]
                        it = iter(state.bitmapped_descriptors)
                        state.next_bitmapped_descriptor = lambda it=it: next(it)
                    else:
                        coder.define_bitmap(state, *statement.args)
                        memo[id(statement)] = (state.back_referenced_descriptors, state.bitmapped_descriptors, state.bitmap)
                else:
                    getattr(coder, statement.method_name)(state, *statement.args)
"""
RUN = "    process_statements(coder, state, bit_operator, compiled_template.statements)\n"
RUN_MARK = "    state._compiled_run = True\n" + RUN
REFVALS = "        self.new_refvals = {}  # 2 03 255 to conclude, not cancel\n"
REFVALS_KEEP = "        if not getattr(self, '_compiled_run', False):\n            self.new_refvals = {}  # 2 03 255 to conclude, not cancel\n"
OPT_SWITCH = [(COD, SWITCH_DEF, SWITCH_DEF_OPT, 1), (COD, SWITCH_RESET, SWITCH_RESET_OPT, 1)]

C06 = [
 ('T1 seeded/C06-4 (reset only when an operator descriptor was PROCESSED; compiled templates process them at compile time)',
  lambda: patch_edits(VERIF + '/seeded/C06-4/patch.diff')),
 ('T2 compiled path: the state properties of a marker statement are applied once per message',
  lambda: [(TC, PROPS, PROPS_ONCE, 1)]),
 ('T3 compiled path: the count of a delayed replication loop is taken from its first execution in the message',
  lambda: [(TC, LOOP, LOOP_MEMO, 1)]),
 ('T4 a compiled template SERVED FROM THE CACHE (second use) runs the subsets without the reset (decoder and encoder)',
  lambda: OPT_SWITCH + [(DEC, CALL, CALL_CACHED, 1), (ENC, CALL, CALL_CACHED, 1), (TC, HIT, HIT_MARK, 1)]),
 ('T5 the ENCODER with compiled templates runs the subsets without the reset',
  lambda: OPT_SWITCH + [(ENC, CALL, CALL_COMPILED, 1)]),
 ('T6 the DECODER with compiled templates runs the subsets without the reset',
  lambda: OPT_SWITCH + [(DEC, CALL, CALL_COMPILED, 1)]),
 ('T7 compiled path: define_bitmap is evaluated once per message and statement (bitmap and back references of the first subset re-used)',
  lambda: [(TC, CODER_CALL, CODER_CALL_BITMAP_MEMO, 1)]),
 ('T8 compiled path: new reference values (203YYY) survive the subset switch',
  lambda: [(TC, RUN, RUN_MARK, 1), (COD, REFVALS, REFVALS_KEEP, 1)]),
]


def nth_replace(text, a, b, nth):
    pos = -1
    for _ in range(nth):
        pos = text.find(a, pos + 1)
        if pos < 0:
            return None
    return text[:pos] + b + text[pos + len(a):]


sel = sys.argv[4:]
for name, mk in (C05 if PROP == 'C05' else C06):
    if sel and name.split(' ')[0] not in sel:
        continue
    edits = mk()
    orig = {}
    ok = True
    for f, a, b, nth in edits:
        orig.setdefault(f, open(f).read())
    new = dict(orig)
    for f, a, b, nth in edits:
        t = nth_replace(new[f], a, b, nth) if a != orig[f] else b
        if t is None or a == b:
            print('PATTERN PROBLEM', name, f)
            ok = False
            break
        new[f] = t
    if not ok:
        continue
    shutil.rmtree(os.path.join(VERIF, 'replays', PROP), ignore_errors=True)
    try:
        for f in new:
            open(f, 'w').write(new[f])
        p = subprocess.run(['./check', PROP, '--tier', 'quick'], cwd=VERIF, env=dict(os.environ, VERIF_REPO=REPO),
                           stdout=subprocess.PIPE, stderr=subprocess.STDOUT, text=True)
    finally:
        for f in orig:
            open(f, 'w').write(orig[f])
    lines = p.stdout.split('\n')
    viol = [i for i, l in enumerate(lines) if l.startswith('VIOLATION')]
    det = lines[viol[0] + 1].strip()[:230] if viol else ''
    nf = sum(1 for i in viol if 'no-failing-input-found' in lines[i])
    reps = [json.load(open(f)) for f in glob.glob(os.path.join(VERIF, 'replays', PROP, '*.json'))]
    if PROP == 'C05':
        new_part = sum(1 for r in reps if str(r['replay'].get('note', '')).startswith('widths'))
        where = 'width-modifier probes %d, older parts %d' % (new_part, len(reps) - new_part)
    else:
        new_part = sum(1 for r in reps if str(r['replay'].get('stage', '')).startswith('compiled'))
        where = 'compiled-path stages %d, plain-path stages %d' % (new_part, len(reps) - new_part)
    summary = [l for l in lines if l.startswith(PROP + ' tier=')]
    print('%s\n        rc=%d distinct violations=%d (%s; without failing input: %d)\n        %s\n        %s' % (
        name, p.returncode, len(reps), where, nf, det, summary[-1] if summary else ''))
    sys.stdout.flush()
    if p.returncode == 2:
        print(p.stdout[-1500:])
subprocess.run(['git', 'checkout', '--', 'evidence'], cwd=VERIF)
