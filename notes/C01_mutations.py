"""Planted-mutation self-test for C01: python notes/C01_mutations.py <scratch repo> <verif worktree> [M1 M2 ...]
  git -C /repo worktree add --detach /tmp/c01mut HEAD ; python notes/C01_mutations.py /tmp/c01mut /work/w-s01 ;
  git -C /repo worktree remove --force /tmp/c01mut
Every mutation (except the ones marked EQUIVALENT) must give exit 1 and a VIOLATION line in the quick tier; the
files are restored afterwards.  The mutations are siblings of the seeded changes C01-3 (what a Decoder keeps between
messages must not outlive the table group it was built from) and C01-4 (which elements a bit-map refers back to)."""
import os
import subprocess
import sys

REPO, VERIF = sys.argv[1], sys.argv[2]
CODER = 'pybufrkit/coder.py'
DEC = 'pybufrkit/decoder.py'
TAB = 'pybufrkit/tables.py'
TC = 'pybufrkit/templatecompiler.py'
BUILD = "        bufr_template, table_group = bufr_message.build_template(self.tables_root_dir, normalize=1)\n"
MUTS = [
 ('T1 Decoder keeps built templates keyed by the descriptor ids only', DEC, BUILD,
  "        _k = tuple(bufr_message.unexpanded_descriptors.value)\n"
  "        _c = self.__dict__.setdefault('_templates', {})\n"
  "        if _k not in _c:\n"
  "            _c[_k] = bufr_message.build_template(self.tables_root_dir, normalize=1)\n"
  "        bufr_template, table_group = _c[_k]\n        bufr_message.table_group_key = table_group.key\n"),
 ('T2 Decoder keeps built templates keyed by ids + master table version (local tables / centre not in the key)', DEC, BUILD,
  "        _k = (tuple(bufr_message.unexpanded_descriptors.value), bufr_message.master_table_version.value)\n"
  "        _c = self.__dict__.setdefault('_templates', {})\n"
  "        if _k not in _c:\n"
  "            _c[_k] = bufr_message.build_template(self.tables_root_dir, normalize=1)\n"
  "        bufr_template, table_group = _c[_k]\n        bufr_message.table_group_key = table_group.key\n"),
 ('T3 Decoder remembers only the LAST template and reuses it when the ids repeat', DEC, BUILD,
  "        _k = tuple(bufr_message.unexpanded_descriptors.value)\n"
  "        if getattr(self, '_last', (None,))[0] != _k:\n"
  "            self._last = (_k, bufr_message.build_template(self.tables_root_dir, normalize=1))\n"
  "        bufr_template, table_group = self._last[1]\n        bufr_message.table_group_key = table_group.key\n"),
 ('T4 element descriptor objects interned per process across table groups', TAB,
  "                self.descriptors[id_] = ElementDescriptor(id_, *fields)\n",
  "                self.descriptors[id_] = _INTERNED.setdefault(id_, ElementDescriptor(id_, *fields))\n"),
 ('T5 table group cache ignores the local tables part of the key', TAB,
  "        if table_group_key not in self._groups:\n",
  "        for _k in self._groups:\n            if _k.wmo_tables_sn == table_group_key.wmo_tables_sn:\n                return self._groups[_k]\n"
  "        if table_group_key not in self._groups:\n"),
 ('T6 compiled templates keyed without the table group', TC,
  "            tuple(template.original_descriptor_ids),\n            table_group.key,\n",
  "            tuple(template.original_descriptor_ids),\n"),
 ('B1 back references rebuilt for every bit-map definition', CODER,
  "        if not self.back_referenced_descriptors:\n", "        if True:\n"),
 ('B2 boundary not advanced while a bit-map defined for re-use exists', CODER,
  "                state.mark_back_reference_boundary()\n",
  "                if not state.most_recent_bitmap_is_for_reuse:\n                    state.mark_back_reference_boundary()\n"),
 ('B3 236000 not remembered (EQUIVALENT for the decoded values: CoderState.bitmap is only ever written)', CODER,
  "                state.most_recent_bitmap_is_for_reuse = True\n", "                state.most_recent_bitmap_is_for_reuse = False\n"),
 ('B4 237255 cancels the back references as well (as 235000 does)', CODER,
  "                if state.most_recent_bitmap_is_for_reuse:\n                    state.cancel_bitmap()\n",
  "                if state.most_recent_bitmap_is_for_reuse:\n                    state.cancel_all_back_references()\n"),
 ('B5 marker operators keep the selection of the FIRST bit-map until 235000', CODER,
  "        # Lastly, get all the descriptors that has a corresponding Zero bit value\n        self.bitmapped_descriptors = [\n",
  "        if self.bitmapped_descriptors is not None:\n            self.next_bitmapped_descriptor = functools.partial(next, iter(self.bitmapped_descriptors))\n            return\n"
  "        self.bitmapped_descriptors = [\n"),
 ('B6 237000 does not restart the selection', CODER,
  "    def recall_bitmap(self):\n        self.next_bitmapped_descriptor = functools.partial(next, iter(self.bitmapped_descriptors))\n",
  "    def recall_bitmap(self):\n"),
 ('B7 235000 keeps the back references', CODER,
  "    def cancel_all_back_references(self):\n        self.back_referenced_descriptors = None\n",
  "    def cancel_all_back_references(self):\n"),
 ('B8 back references counted from the items recorded when the bit-map is complete', CODER,
  "            for idx in range(self.back_reference_boundary - 1, -1, -1):",
  "            for idx in range(len(self.decoded_descriptors) - 1, -1, -1):"),
]
PRELUDE = {'T4 ': (TAB, "class TableB(BaseTable):\n", "_INTERNED = {}\n\n\nclass TableB(BaseTable):\n")}

sel = sys.argv[3:]
for name, fn, a, b in MUTS:
    if sel and not any(name.startswith(x + ' ') for x in sel):
        continue
    F = os.path.join(REPO, fn)
    orig = open(F).read()
    if orig.count(a) != 1:
        print('PATTERN PROBLEM', name, orig.count(a))
        continue
    text = orig.replace(a, b)
    for k, (pf, pa, pb) in PRELUDE.items():
        if name.startswith(k):
            assert pf == fn and text.count(pa) == 1
            text = text.replace(pa, pb)
    open(F, 'w').write(text)
    try:
        p = subprocess.run(['./check', 'C01', '--tier', 'quick'], cwd=VERIF, env=dict(os.environ, VERIF_REPO=REPO),
                           stdout=subprocess.PIPE, stderr=subprocess.STDOUT, text=True)
    finally:
        open(F, 'w').write(orig)
    lines = p.stdout.split('\n')
    viol = [l for l in lines if l.startswith('VIOLATION')]
    det = ''
    for i, l in enumerate(lines):
        if l.startswith('VIOLATION'):
            det = lines[i + 1][:170]
            break
    print('%-100s rc=%d violations=%d %s\n      %s' % (name, p.returncode, len(viol), lines[-2][-12:] if len(lines) > 1 else '', det))
    sys.stdout.flush()
    if p.returncode == 2:
        print(p.stdout[-1500:])
    assert open(F).read() == orig
subprocess.run(['git', 'checkout', '--', 'evidence'], cwd=VERIF)
