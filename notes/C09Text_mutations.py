"""
Planted-mutation self-test of the text-format tie of C09 (harness/props/c09text.py).  Usage (from the verif worktree):
    git -C /repo worktree add --detach /tmp/c09text-mut HEAD
    VERIF_REPO=/tmp/c09text-mut /venv/bin/python notes/C09Text_mutations.py [name-substring ...]
    git -C /repo worktree remove --force /tmp/c09text-mut
Each mutation is applied to the scratch worktree (uncommitted), `python -m harness.props.c09text` must exit 1 with a
VIOLATION line, the worktree is restored straight afterwards.  'kind' says what is expected to catch it: the
oracle (the implementation's own round trip fails -> a failing input) or the correspondence only (the layout changed
but the implementation still converts its own text back -> `no-failing-input-found`).
"""
import os
import subprocess
import sys

REPO = os.environ['VERIF_REPO']
HERE = os.path.dirname(os.path.dirname(os.path.abspath(__file__)))

# (name, [(file, old, new, occurrence)], expected kind)
MUTATIONS = [
    ('flat text: descriptor column 74 -> 73 (token at column 80)', [('pybufrkit/renderer.py', "'{} {:74.74} {!r}'", "'{} {:73.73} {!r}'", 0)], 'oracle'),
    ('flat text: no truncation of the descriptor column', [('pybufrkit/renderer.py', "'{} {:74.74} {!r}'", "'{} {:74} {!r}'", 0)], 'oracle'),
    ('flat text: both columns one narrower AND the converter slices at 80 (consistent change of layout)',
     [('pybufrkit/renderer.py', "'{} {:74.74} {!r}'", "'{} {:73.73} {!r}'", 0),
      ('pybufrkit/renderer.py', "'{} {:64.64} -> {} {!r}'", "'{} {:63.63} -> {} {!r}'", 0),
      ('pybufrkit/utils.py', 'line[81:]', 'line[80:]', 0)], 'correspondence'),
    ('flat text: index column counts from 0', [('pybufrkit/renderer.py', 'fixed_width_repr_of_int(idx + 1, 5)', 'fixed_width_repr_of_int(idx, 5)', 1)], 'correspondence'),
    ('flat text: link column shows the 0-based index', [('pybufrkit/renderer.py', 'bitmap_links[idx] + 1', 'bitmap_links[idx]', 0)], 'correspondence'),
    ('flat text: flag table bits counted from 0', [('pybufrkit/renderer.py', '[(i + 1) for i, bit in enumerate(', '[i for i, bit in enumerate(', 0)], 'correspondence'),
    ('flat text: converter keeps the tuple of a flag table value', [('pybufrkit/utils.py', 'if isinstance(value, tuple):', 'if False:', 0)], 'oracle'),
    ('nested text: indentation of two blanks', [('pybufrkit/constants.py', "INDENT_CHARS = '    '", "INDENT_CHARS = '  '", 0)], 'correspondence'),
    ('nested text: replication header reworded', [('pybufrkit/renderer.py', "'{}# --- {} of {} replications ---'", "'{}# --- {}/{} ---'", 0)], 'correspondence'),
    ('nested text: attribute arrow => (renderer only)', [('pybufrkit/renderer.py', "'-> ' if is_attribute else ''", "'=> ' if is_attribute else ''", 0)], 'oracle'),
    ('nested text: marker value described by the element name', [('pybufrkit/renderer.py', "description = '{:06d}'.format(descriptor.marker_id)", "description = descriptor.name", 1)], 'correspondence'),
    ('nested text -> flat: associated value appended after the owner', [('pybufrkit/utils.py', 'data_all_subsets[-1].insert(-1, value)', 'data_all_subsets[-1].append(value)', 0)], 'oracle'),
    ('nested text -> flat: sequence lines not skipped', [('pybufrkit/utils.py', "                or line.startswith('3'):", "                or False:", 0)], 'oracle'),
    ('nested text -> flat: first instead of last b-quote (names holding the sequence)', [('pybufrkit/utils.py', 'line.rfind(string_left_bound, 0, len(line) - 1)', 'line.find(string_left_bound, 0, len(line) - 1)', 0)], 'oracle'),
    ('nested text -> flat: virtual attributes of kind "-> 0" also inserted', [('pybufrkit/utils.py', "(line.startswith('->') and not line.startswith('-> A'))", "(line.startswith('->') and not line.startswith('-> A') and not line.startswith('-> 0'))", 0)], 'oracle'),
    ('nested text -> flat: dots of the factor indentation not stripped (F14 reverted)', [('pybufrkit/utils.py', ".strip().lstrip('. ')", '.strip()', 0)], 'oracle'),
    ('nested text: 221-suppressed element printed with its name (F8 reverted)', [('pybufrkit/renderer.py', "ret.append('{}{}'.format(indent, decoded_node.descriptor))", "ret.append('{}{}'.format(indent, decoded_node))", 0)], 'oracle'),
]


def replace_nth(s, old, new, n):
    pos = -1
    for _ in range(n + 1):
        pos = s.find(old, pos + 1)
        if pos < 0:
            raise SystemExit('mutation target not found: %r (#%d)' % (old, n))
    return s[:pos] + new + s[pos + len(old):]


def main():
    only = sys.argv[1:]
    results = []
    for name, edits, kind in MUTATIONS:
        if only and not any(o in name for o in only):
            continue
        try:
            for fn, old, new, n in edits:
                path = os.path.join(REPO, fn)
                with open(path) as f:
                    src = f.read()
                with open(path, 'w') as f:
                    f.write(replace_nth(src, old, new, n))
            p = subprocess.run(['/venv/bin/python', '-m', 'harness.props.c09text', '0', 'quick'], cwd=HERE,
                               stdout=subprocess.PIPE, stderr=subprocess.STDOUT, text=True)
            out = p.stdout.split('\n')
            viol = [l for l in out if l.startswith('VIOLATION')]
            failing = [l for l in viol if 'no-failing-input-found' not in l]
            first = ''
            for i, l in enumerate(out):
                if l.startswith('VIOLATION') and i + 1 < len(out):
                    first = out[i + 1].strip()[:130]
                    break
            caught = p.returncode == 1 and bool(viol)
            got = 'oracle' if failing else ('correspondence' if viol else '-')
            results.append((name, caught, got == kind))
            print('%-95s %s exit %d, %d VIOLATION (%d with failing input) expected by %s | %s' % (
                name, 'CAUGHT' if caught else 'MISSED', p.returncode, len(viol), len(failing), kind, first))
            sys.stdout.flush()
        finally:
            subprocess.run(['git', '-C', REPO, 'checkout', '--', '.'], check=True)
    print('%d/%d caught, %d as expected' % (sum(1 for r in results if r[1]), len(results), sum(1 for r in results if r[2])))


if __name__ == '__main__':
    main()
