"""F24, side question: the OTHER structural value of compressed data, the bitmap (031031 run after 222000 / 223000 / ... / 236000).

`Decoder.define_bitmap` / `Encoder.define_bitmap` take the bitmap from subset 0 and never look at the other subsets
(`_assert_equal_values_of_index` has ONE caller: get_value_for_delayed_replication_factor).  This probe decodes compressed
messages whose bitmap bit differs / is missing in subset 1 and shows what each view makes of it.

usage: /venv/bin/python notes/F24_bitmap_probe.py [<repo>]
"""
import sys, json
REPO = sys.argv[1] if len(sys.argv) > 1 else '/repo'
sys.path.insert(0, REPO)
from pybufrkit.decoder import Decoder                                   # noqa: E402
from pybufrkit.encoder import Encoder                                   # noqa: E402
from pybufrkit.renderer import (FlatTextRenderer, FlatJsonRenderer, NestedTextRenderer, NestedJsonRenderer)   # noqa
from pybufrkit.utils import flat_text_to_flat_json, nested_json_to_flat_json, nested_text_to_flat_json         # noqa


def message(ids, valss, compressed):
    return [["BUFR", 0, 4], [0, 0, 98, 0, 0, False, "0000000", 2, 4, 0, 33, 0, 2020, 5, 6, 7, 8, 9],
            [0, "00000000", len(valss), True, compressed, "000000", list(ids)], [0, "00000000", valss], ["7777"]]


def u(v, n):
    return '{:0{}b}'.format(v, n)


def with_data(b, bits):
    pos = 8
    for _ in (1, 3):
        pos += int.from_bytes(b[pos:pos + 3], 'big')
    nb = (len(bits) + 7) // 8
    body = int(bits + '0' * (nb * 8 - len(bits)), 2).to_bytes(nb, 'big')
    new = b[:pos] + (4 + nb).to_bytes(3, 'big') + b'\0' + body + b'7777'
    return new[:4] + len(new).to_bytes(3, 'big') + new[7:]


def column(minimum, nbits, incs=None):
    w = 0 if incs is None else incs[0]
    s = u(minimum, nbits) + u(w, 6)
    if w:
        for d in incs[1]:
            s += '1' * w if d is None else u(d, w)
    return s


def outcome(f):
    try:
        return 'ok', f()
    except Exception as e:     # noqa
        return 'err', '%s: %s' % (type(e).__name__, e)


# 001001 (7 bits) 001002 (10 bits); 222000 236000 101002 031031 (1 bit) 001031 (16) 001032 (8) 101000 031001 033007 (7)
IDS = [1001, 1002, 222000, 236000, 101002, 31031, 1031, 1032, 101000, 31001, 33007]
ok_vals = [[5, 6, 0, 0, 0, 1, 98, 7, 1, 50], [5, 6, 0, 0, 0, 1, 98, 7, 1, 50]]
base = Encoder().process(json.dumps(message(IDS, ok_vals, True))).serialized_bytes
CASES = [
    ('bitmap equal (0 1 | 0 1)', column(0, 1), column(1, 1)),
    ('second bit differs in subset 1 (0 1 | 0 0)', column(0, 1), column(0, 1, (2, [1, 0]))),
    ('first bit differs in subset 1 (0 1 | 1 1)', column(0, 1, (2, [0, 1])), column(1, 1)),
    ('first bit missing in subset 1 (0 1 | None 1)', column(0, 1, (1, [0, None])), column(1, 1)),
    ('first bit missing in subset 0 (None 1 | 0 1)', column(0, 1, (1, [None, 0])), column(1, 1)),
]
print('repo:', REPO)
for name, b1, b2 in CASES:
    bits = (column(5, 7) + column(6, 10) + b1 + b2 + column(98, 16) + column(7, 8) + column(1, 8) + column(50, 7))
    k, msg = outcome(lambda: Decoder().process(with_data(base, bits)))
    print(name)
    if k != 'ok':
        print('   decode:', msg)
        continue
    td = msg.template_data.value
    vals = td.decoded_values_all_subsets
    print('   values', vals, 'links', [dict(x) for x in td.bitmap_links_all_subsets])
    k, flat = outcome(lambda: FlatJsonRenderer().render(msg))
    for nm, R, conv in (('flat text', FlatTextRenderer, flat_text_to_flat_json),
                        ('nested json', NestedJsonRenderer, nested_json_to_flat_json),
                        ('nested text', NestedTextRenderer, nested_text_to_flat_json)):
        k, r = outcome(lambda: conv(R().render(msg)))
        print('   %-12s -> flat: %s' % (nm, ('equal to flat JSON' if r == flat else 'DIFFERENT') if k == 'ok' else r))
    for comp in (True, False):
        k, r = outcome(lambda: Encoder().process(json.dumps(message(IDS, vals, comp))))
        if k == 'ok':
            k, r = outcome(lambda: Decoder().process(r.serialized_bytes))
            if k == 'ok':
                r = 'decodes to the same values' if r.template_data.value.decoded_values_all_subsets == vals else \
                    'decodes to %r' % r.template_data.value.decoded_values_all_subsets
        print('   re-encoded %s: %s' % ('compressed  ' if comp else 'uncompressed', r))
