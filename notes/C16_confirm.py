"""Standalone confirmation of the two C16 defects (run with PYTHONPATH=<repo>): no harness, no model.
F16a  a replication was filtered by the POSITIONS matching in its first repetition only;
F16b  descendant filtering listed the members of a delayed replication before its factor."""
from pybufrkit.decoder import Decoder
from pybufrkit.dataquery import DataQuerent, NodePathParser
from pybufrkit.renderer import NestedJsonRenderer

q = DataQuerent(NodePathParser())

# 012001 011001 010004 223000 101003 031031 101002 223255, two subsets, bitmap 0 1 0:
# the two repetitions of `101002 223255` carry T12001 and T10004
A = bytes.fromhex('4255465200004d0400001600006200000000020400210007e40506070809000017000002800c010b010a04970041031f1f41'
                  '0297ff00001400000ff7ffc93bff3bffe4b7ffcbffbfff37373737')
m = Decoder().process(A)
rep = NestedJsonRenderer().render(m.template_data.value)[0][-1]
print('nested JSON of the replication:', [[(d['id'], d['value']) for d in block] for block in rep['members']])
print("/101002/T12001 ->", q.query(m, '/101002/T12001').all_values()[0], '   expected [[[126.3]]]')
print("/101002/T10004 ->", q.query(m, '/101002/T10004').all_values()[0], '   expected [[[161870.0]]]')

# 105000 031001 001001 102000 031001 012001 011001 031001: nested delayed replications
B = bytes.fromhex('425546520000590400001600006200000000020400210007e405060708090000170000028045001f01010142001f010c010b'
                  '011f0100002000020003ffe00fc05ffffeffe0003817e014f3ffad02000ff3a228c1c037373737')
m = Decoder().process(B)
td = m.template_data.value
flat = [v for d, v in zip(td.decoded_descriptors_all_subsets[0], td.decoded_values_all_subsets[0]) if str(d) == '031001']
print("031001 ->", q.query(m, '031001').all_values(flat=True)[0], '   flat data:', flat)
