"""F24b (was open finding F24-bitmap): the bit-map of COMPRESSED data is taken from subset 0 and the other subsets are never
compared with it.

usage: /venv/bin/python notes/F24b_repro.py [<repo>]      (default /repo)
exit 1 while the defect is present, 0 when repaired.

`Decoder.define_bitmap` / `Encoder.define_bitmap` read `decoded_values_all_subsets[0]`; their docstrings say "For compressed
data, bitmap and back referenced descriptors must be identical", nothing checks it.  A compressed message whose 031031 bit
differs (or is missing) in a later subset decodes, every subset gets the attribute links of subset 0's bit-map - not the
links its OWN bits designate -, and the decoded values cannot be written uncompressed (StopIteration) or decode with
other links: C05 (compressed and uncompressed give different results), C07 (links of a subset follow from its bit-map).
The data section is assembled bit by bit; the compiled-template walk records `define_bitmap` as a call of the same method.

Template: 001001 001002 222000 236000 101002 031031 001031 001032 101000 031001 033007, 2 subsets.
"""
import sys
import json

REPO = sys.argv[1] if len(sys.argv) > 1 else '/repo'
sys.path.insert(0, REPO)
from pybufrkit.decoder import Decoder                                   # noqa: E402
from pybufrkit.encoder import Encoder                                   # noqa: E402
from pybufrkit.errors import PyBufrKitError                             # noqa: E402

bad = []


def note(ok, text):
    print(('ok      ' if ok else 'DEFECT  ') + text)
    if not ok:
        bad.append(text)

def message(ids, valss, compressed):
    return [["BUFR", 0, 4], [0, 0, 98, 0, 0, False, "0000000", 2, 4, 0, 33, 0, 2020, 5, 6, 7, 8, 9],
            [0, "00000000", len(valss), True, compressed, "000000", list(ids)], [0, "00000000", valss], ["7777"]]


def u(v, n):
    return '{:0{}b}'.format(v, n)


def with_data(b, bits):
    pos = 8
    for _ in (1, 3):
        pos += int.from_bytes(b[pos:pos + 3], 'big')
    nb = (len(bits) + 7) // 8
    body = int(bits + '0' * (nb * 8 - len(bits)), 2).to_bytes(nb, 'big')
    new = b[:pos] + (4 + nb).to_bytes(3, 'big') + b'\0' + body + b'7777'
    return new[:4] + len(new).to_bytes(3, 'big') + new[7:]


def column(minimum, nbits, incs=None):
    w = 0 if incs is None else incs[0]
    s = u(minimum, nbits) + u(w, 6)
    if w:
        for d in incs[1]:
            s += '1' * w if d is None else u(d, w)
    return s


def outcome(f):
    try:
        return 'ok', f()
    except PyBufrKitError as e:
        return 'lib', '%s: %s' % (type(e).__name__, e)
    except Exception as e:     # noqa
        return 'other', '%s: %s' % (type(e).__name__, e)


def coder(cls, compiled):
    return cls(compiled_template_cache_max=4) if compiled else cls()


def twice(c, arg, compiled):
    """the second message of a coder with a template cache runs the compiled template"""
    if compiled:
        try:
            c.process(arg)
        except Exception:      # noqa
            pass
    return c.process(arg)


IDS = [1001, 1002, 222000, 236000, 101002, 31031, 1031, 1032, 101000, 31001, 33007]
ok_vals = [[5, 6, 0, 0, 0, 1, 98, 7, 1, 50], [5, 6, 0, 0, 0, 1, 98, 7, 1, 50]]
base = Encoder().process(json.dumps(message(IDS, ok_vals, True))).serialized_bytes
CASES = [
    ('bit-map equal (0 1 | 0 1)', column(0, 1), column(1, 1), 'accept'),
    ('bit-map equal, wide increment form', column(0, 1, (2, [0, 0])), column(1, 1), 'accept'),
    ('second bit differs in subset 1 (0 1 | 0 0)', column(0, 1), column(0, 1, (2, [1, 0])), 'refuse'),
    ('first bit differs in subset 1 (0 1 | 1 1)', column(0, 1, (2, [0, 1])), column(1, 1), 'refuse'),
    ('first bit missing in subset 1 (0 1 | None 1)', column(0, 1, (1, [0, None])), column(1, 1), 'refuse'),
    ('first bit missing in subset 0 (None 1 | 0 1)', column(0, 1, (1, [None, 0])), column(1, 1), 'refuse'),
]
print('repo:', REPO)
for compiled in (False, True):
    for name, b1, b2, expect in CASES:
        bits = (column(5, 7) + column(6, 10) + b1 + b2 + column(98, 16) + column(7, 8) + column(1, 8) + column(50, 7))
        m = with_data(base, bits)
        k, msg = outcome(lambda: twice(coder(Decoder, compiled), m, compiled))
        tag = '%s, %s walk' % (name, 'compiled' if compiled else 'plain')
        if expect == 'accept':
            note(k == 'ok', '%s: %s' % (tag, 'decodes' if k == 'ok' else msg))
            continue
        if k != 'ok':
            note(k == 'lib', '%s: refused with %s' % (tag, msg))
            continue
        td = msg.template_data.value
        vals = td.decoded_values_all_subsets
        note(False, '%s: ACCEPTED, bit-maps %r, links of every subset %r' % (
            tag, [v[4:6] for v in vals], [dict(x) for x in td.bitmap_links_all_subsets]))
        k2, r = outcome(lambda: Encoder().process(json.dumps(message(IDS, vals, False))))
        if k2 == 'ok':
            k2, r = outcome(lambda: Decoder().process(r.serialized_bytes))
            if k2 == 'ok':
                r = 'links %r' % [dict(x) for x in r.template_data.value.bitmap_links_all_subsets]
        print('          the same values uncompressed: %s' % r)

# the encoder is given bit-maps per subset
for vals, expect in (([[5, 6, 0, 0, 0, 1, 98, 7, 1, 50], [5, 6, 0, 0, 1, 1, 98, 7, 1, 50]], 'refuse'),
                     ([[5, 6, 0, 0, 0, 1, 98, 7, 1, 50], [5, 6, 0, 0, 0, 0, 98, 7, 1, 50]], 'refuse'),
                     ([[5, 6, 0, 0, 0, 1, 98, 7, 1, 50], [5, 6, 0, 0, None, 1, 98, 7, 1, 50]], 'refuse'),
                     ([[5, 6, 0, 0, 0, 1, 98, 7, 1, 50], [5, 6, 0, 0, 0, 1, 99, 8, 1, 51]], 'accept')):
    for compiled in (False, True):
        js = json.dumps(message(IDS, vals, True))
        k, r = outcome(lambda: twice(coder(Encoder, compiled), js, compiled))
        tag = 'compressed encoder, %s walk, bit-maps %r' % ('compiled' if compiled else 'plain', [v[4:6] for v in vals])
        if expect == 'accept':
            note(k == 'ok', '%s: %s' % (tag, k if k == 'ok' else r))
        elif k == 'ok':
            note(False, '%s: WRITTEN (with the structure of subset 0)' % tag)
        else:
            note(k == 'lib', '%s: refused with %s' % (tag, r))

print('%d defect line(s)' % len(bad))
sys.exit(1 if bad else 0)
