"""
Aliasing / shared-object mutations of pybufrkit for the heap part of C13 (lean/BufrModel/Msg/Heap.lean, Props/C13Heap.lean,
harness/c13heap.py): each introduces a write that reaches a shared object, or changes which objects are shared.

  python notes/C13_heap_mutations.py <scratch worktree of /repo> <verif worktree> [--seed N] [name ...]

Every mutation is applied to the scratch worktree (never /repo), `./check C13 --tier quick` is run with VERIF_REPO set, and
the worktree is restored.  Caught = exit 1 with a VIOLATION line (the first line tells which part of the check reported).
"""
import os
import subprocess
import sys

args = [a for a in sys.argv[1:]]
PROP, SEED = 'C13', '0'
if '--seed' in args:
    i = args.index('--seed'); SEED = args[i + 1]; del args[i:i + 2]
REPO, VERIF = args[0], args[1]
WANT = args[2:]

CODER, TC, TD, BUFR, DESC, ENC = ('pybufrkit/coder.py', 'pybufrkit/templatecompiler.py', 'pybufrkit/templatedata.py',
                                  'pybufrkit/bufr.py', 'pybufrkit/descriptors.py', 'pybufrkit/encoder.py')

NUMERIC_OLD = """            scale_powered = 1.0 * 10 ** scale

            if descriptor.id not in state.new_refvals:"""

MUTS = [
    ('H1 201YYY applied by assignment to the cached ElementDescriptor (nbits patched, never restored)', True, [
        (CODER, NUMERIC_OLD, """            if state.nbits_offset and type(descriptor) is ElementDescriptor:
                descriptor.nbits = nbits
            scale_powered = 1.0 * 10 ** scale

            if descriptor.id not in state.new_refvals:""")]),
    ('H2 202YYY applied by assignment to the cached ElementDescriptor (scale patched)', True, [
        (CODER, NUMERIC_OLD, """            if state.scale_offset and type(descriptor) is ElementDescriptor:
                descriptor.scale = scale
            scale_powered = 1.0 * 10 ** scale

            if descriptor.id not in state.new_refvals:""")]),
    ('H3 CoderState: [[]] * n_subsets for UNCOMPRESSED data too', True, [
        (CODER, """            self.decoded_descriptors_all_subsets = [[] for _ in range(n_subsets)]
            self.bitmap_links_all_subsets = [{} for _ in range(n_subsets)]""",
         """            self.decoded_descriptors_all_subsets = [[]] * n_subsets
            self.bitmap_links_all_subsets = [{} for _ in range(n_subsets)]""")]),
    ('H4 CoderState: separate lists for COMPRESSED data (only subset 0 gets the descriptors)', True, [
        (CODER, """            self.decoded_descriptors_all_subsets = [[]] * n_subsets
            self.bitmap_links_all_subsets = [{}] * n_subsets""",
         """            self.decoded_descriptors_all_subsets = [[] for _ in range(n_subsets)]
            self.bitmap_links_all_subsets = [{}] * n_subsets""")]),
    ('H5 wire() remembers the last node on the descriptor object (attribute attached to cached descriptors; no output changes)', True, [
        (TD, """        node = ValueDataNode(*self.get_next_descriptor_and_index())
        self.decoded_nodes.append(node)
        self.index_to_node[node.index] = node
        return node""", """        node = ValueDataNode(*self.get_next_descriptor_and_index())
        node.descriptor.last_node_index = node.index
        self.decoded_nodes.append(node)
        self.index_to_node[node.index] = node
        return node""")]),
    ('H6 wire() collects the sequence nodes on the cached SequenceDescriptor (list on a cached object grows)', True, [
        (TD, """        sequence_node = SequenceNode(descriptor)
        nodes = self.decoded_nodes""", """        sequence_node = SequenceNode(descriptor)
        if type(descriptor) is SequenceDescriptor:
            descriptor.__dict__.setdefault('seen_nodes', []).append(len(self.decoded_nodes))
        nodes = self.decoded_nodes""")]),
    ('H7 add_attribute with a default-argument list (one attributes list shared by all nodes of the process)', True, [
        (TD, """    def add_attribute(self, attr_node):
        # Add attributes field only when it is necessary
        if not hasattr(self, 'attributes'):
            self.attributes = [attr_node]
        else:
            self.attributes.append(attr_node)""", """    def add_attribute(self, attr_node, attributes=[]):
        # Add attributes field only when it is necessary
        if not hasattr(self, 'attributes'):
            self.attributes = attributes
        self.attributes.append(attr_node)""")]),
    ('H8 compiled template keeps a reference to the compile-time CoderState list nbits_of_associated (no copy)', True, [
        (TC, "            'nbits_of_associated': list(state.nbits_of_associated),", "            'nbits_of_associated': state.nbits_of_associated,")]),
    ('H9 marker descriptor made by patching the cached ElementDescriptor (marker_id attached, object returned)', True, [
        (DESC, """        md = MarkerDescriptor(
            ed.id, ed.name, ed.unit,
            ed.scale if scale is None else scale,
            ed.refval if refval is None else refval,
            ed.nbits if nbits is None else nbits,
            ed.crex_unit, ed.crex_scale, ed.crex_nchars
        )
        md.marker_id = marker_id
        return md""", """        if scale is None and refval is None and nbits is None:
            ed.marker_id = marker_id
            return ed
        md = MarkerDescriptor(
            ed.id, ed.name, ed.unit,
            ed.scale if scale is None else scale,
            ed.refval if refval is None else refval,
            ed.nbits if nbits is None else nbits,
            ed.crex_unit, ed.crex_scale, ed.crex_nchars
        )
        md.marker_id = marker_id
        return md""")]),
    ('H10 subset() shares the value lists with the source message and the encoder edits its input lists in place', True, [
        (ENC, """    def process_numeric_uncompressed(self, state, bit_writer, descriptor, nbits, scale_powered, refval):
        state.decoded_descriptors.append(descriptor)
        value = state.decoded_values[state.idx_value]""", """    def process_numeric_uncompressed(self, state, bit_writer, descriptor, nbits, scale_powered, refval):
        state.decoded_descriptors.append(descriptor)
        value = state.decoded_values[state.idx_value]
        if isinstance(value, float):
            state.decoded_values[state.idx_value] = round(value, 1)""")]),
    ('H11 TableC memo hands out ONE OperatorDescriptor object per process (class-level memo shared by all table groups)', True, [
        ('pybufrkit/tables.py', """        super(TableC, self).__init__(*args, **kwargs)
        self._cache = {}""", """        super(TableC, self).__init__(*args, **kwargs)
        self._cache = _TABLE_C_SHARED"""),
        ('pybufrkit/tables.py', """class TableC(BaseTable):""", """_TABLE_C_SHARED = {}


class TableC(BaseTable):""")]),
]


def sh(cmd, **kw):
    return subprocess.run(cmd, stdout=subprocess.PIPE, stderr=subprocess.STDOUT, text=True, **kw)


def main():
    if os.path.realpath(REPO) == os.path.realpath('/repo'):
        print('give a scratch worktree (never /repo)')
        sys.exit(2)
    if sh(['git', '-C', REPO, 'status', '--porcelain']).stdout.strip():
        print('scratch worktree is not clean')
        sys.exit(2)
    results = []
    for name, markers, edits in MUTS:
        tag = name.split(' ')[0]
        if WANT and tag not in WANT:
            continue
        ok = True
        try:
            for path, old, new in edits:
                full = os.path.join(REPO, path)
                src = open(full).read()
                if src.count(old) != 1:
                    ok = False
                    break
                open(full, 'w').write(src.replace(old, new))
            if not ok:
                results.append((name, 'NOT-APPLICABLE (source text not found exactly once in %s)' % path, ''))
            else:
                rc = sh(['/venv/bin/python', '-c', 'import pybufrkit.decoder, pybufrkit.encoder, pybufrkit.renderer, pybufrkit.dataquery'],
                        cwd=REPO, env=dict(os.environ, PYTHONPATH=REPO))
                if rc.returncode != 0:
                    results.append((name, 'BROKEN MUTATION (does not import)', rc.stdout[-300:]))
                else:
                    env = dict(os.environ, VERIF_REPO=REPO, VERIF_SEED=SEED, VERIF_C13_SHRINK='40')
                    p = sh([os.path.join(VERIF, 'check'), PROP, '--tier', 'quick'], cwd=VERIF, env=env)
                    lines = p.stdout.split('\n')
                    viol = [l for l in lines if l.startswith('VIOLATION')]
                    first = next((lines[i + 1].strip() for i, l in enumerate(lines) if l.startswith('VIOLATION') and i + 1 < len(lines)), '')
                    caught = p.returncode == 1 and bool(viol)
                    results.append((name, 'CAUGHT' if caught else 'MISSED (exit %d)' % p.returncode,
                                    '%d violation line(s); first: %s | %s' % (len(viol), first[:230], lines[-2][-60:] if len(lines) > 1 else '')))
        finally:
            sh(['git', '-C', REPO, 'checkout', '--', '.'])
            sh(['git', 'checkout', '--', 'evidence'], cwd=VERIF)
        print('%s\n    %s\n    %s' % results[-1])
        sys.stdout.flush()
    missed = [r for r in results if not r[1].startswith('CAUGHT')]
    print('%s: %d mutations, %d caught' % (PROP, len(results), len(results) - len(missed)))
    sys.exit(1 if missed else 0)


if __name__ == '__main__':
    main()
