"""Planted-mutation self-test for the layout-varying part of C06 (siblings of seeded/C06-1 and seeded/C06-2):
     python notes/C06_layout_mutations.py <repo worktree> <verif worktree> [S1 S5 ...]
Every mutation keeps something per MESSAGE that has to be per SUBSET, keyed by positions / lengths only (or keeps it
under a condition that looks harmless).  Each must give exit 1 and a VIOLATION line in the quick tier; files are
restored afterwards.  <repo worktree> is a scratch worktree of /repo (git -C /repo worktree add --detach /tmp/x HEAD)."""
import subprocess, sys, os, json, glob, shutil
REPO, VERIF = sys.argv[1], sys.argv[2]
DEC, ENC, COD, TD = (REPO + '/pybufrkit/' + f for f in ('decoder.py', 'encoder.py', 'coder.py', 'templatedata.py'))

SCAN = """        if not self.back_referenced_descriptors:
            self.back_referenced_descriptors = []
            for idx in range(self.back_reference_boundary - 1, -1, -1):
                descriptor = self.decoded_descriptors[idx]
                # The type has to be an exact match, not just isinstance
                if type(descriptor) is ElementDescriptor:
                    self.back_referenced_descriptors.insert(0, (idx, descriptor))
                    if len(self.back_referenced_descriptors) == len(bitmap):
                        break
"""


def memo_scan(key, cond='True'):
    return """        if not self.back_referenced_descriptors:
            memo = self.__dict__.setdefault('_scan_memo', {})
            key = %s
            if (%s) and key in memo:
                self.back_referenced_descriptors = list(memo[key])
            else:
                self.back_referenced_descriptors = []
                for idx in range(self.back_reference_boundary - 1, -1, -1):
                    descriptor = self.decoded_descriptors[idx]
                    if type(descriptor) is ElementDescriptor:
                        self.back_referenced_descriptors.insert(0, (idx, descriptor))
                        if len(self.back_referenced_descriptors) == len(bitmap):
                            break
                memo[key] = list(self.back_referenced_descriptors)
""" % (key, cond)


N_BELOW = "sum(1 for d in self.decoded_descriptors[:self.back_reference_boundary] if type(d) is ElementDescriptor)"
IS_ENC = ("        self.idx_value = 0  # only needed for encoder\n",
          "        self.idx_value = 0  # only needed for encoder\n        self._enc = decoded_values_all_subsets is not None\n")
SELECT = """        self.bitmapped_descriptors = [
            (idx, d) for bit, (idx, d) in zip(
                bitmap,
                self.back_referenced_descriptors
            ) if bit == 0
        ]
"""
SELECT_MEMO = """        memo2 = self.__dict__.setdefault('_select_memo', {})
        key2 = (self.back_reference_boundary, tuple(bitmap))
        if key2 not in memo2:
            memo2[key2] = [
                (idx, d) for bit, (idx, d) in zip(
                    bitmap,
                    self.back_referenced_descriptors
                ) if bit == 0
            ]
        self.bitmapped_descriptors = memo2[key2]
"""
MARKER = """        else:
            bitmapped_descriptor = MarkerDescriptor.from_element_descriptor(
                bitmapped_descriptor,
                descriptor.id,
            )
"""
MARKER_MEMO = """        else:
            memo3 = state.__dict__.setdefault('_marker_memo', {})
            key3 = (idx_descriptor, descriptor.id)
            if key3 not in memo3:
                memo3[key3] = MarkerDescriptor.from_element_descriptor(
                    bitmapped_descriptor,
                    descriptor.id,
                )
            bitmapped_descriptor = memo3[key3]
"""
KEEP_BITMAP_OLD = "        if reuse:"
KEEP_BITMAP_NEW = """        last = state.__dict__.get('_last_bitmap')
        if last is not None and last[0] != state.idx_subset and len(last[1]) == len(bitmap):
            bitmap = last[1]
        else:
            state.__dict__['_last_bitmap'] = (state.idx_subset, bitmap)
        if reuse:"""
WIRE_OLD = """            self.bitmap_links = self.bitmap_links_all_subsets[idx_subset]

"""
WIRE_ANY = """            self.bitmap_links = self.bitmap_links_all_subsets[idx_subset]
            seen = self.__dict__.setdefault('_wired_by_layout', {})
            key = tuple(str(d) for d in self.decoded_descriptors)
            if key in seen:
                self.decoded_nodes_all_subsets[idx_subset] = seen[key]
                continue
            seen[key] = self.decoded_nodes

"""
WIRE_LEN = """            self.bitmap_links = self.bitmap_links_all_subsets[idx_subset]
            seen = self.__dict__.setdefault('_wired_by_layout', {})
            key = (len(self.decoded_descriptors), tuple(sorted(self.bitmap_links.items())))
            if key in seen:
                self.decoded_nodes_all_subsets[idx_subset] = seen[key]
                continue
            seen[key] = self.decoded_nodes

"""

def patch_edits(path):
    """a seeded patch.diff as a list of whole-file edits"""
    files = sorted(set(l[6:].strip() for l in open(path) if l.startswith('+++ b/')))
    before = {f: open(os.path.join(REPO, f)).read() for f in files}
    subprocess.run(['git', 'apply', path], cwd=REPO, check=True)
    after = {f: open(os.path.join(REPO, f)).read() for f in files}
    subprocess.run(['git', 'apply', '-R', path], cwd=REPO, check=True)
    return [(os.path.join(REPO, f), before[f], after[f], 1) for f in files]


MUTS = [
 ('P1 seeded/C06-1 (backward scan memoised per message, keyed by (boundary, bitmap length))', patch_edits(VERIF + '/seeded/C06-1/patch.diff')),
 ('P2 seeded/C06-2 (wiring: nodes of the PREVIOUS subset shared when the descriptors are equal)', patch_edits(VERIF + '/seeded/C06-2/patch.diff')),
 ('S1 backward scan memoised per message, keyed by the boundary only', [(COD, SCAN, memo_scan('self.back_reference_boundary'), 1)]),
 ('S2 backward scan memoised per message, keyed by the bitmap length only', [(COD, SCAN, memo_scan('len(bitmap)'), 1)]),
 ('S3 backward scan memoised per message, keyed by (boundary, bitmap length, number of element descriptors below the boundary)',
  [(COD, SCAN, memo_scan('(self.back_reference_boundary, len(bitmap), %s)' % N_BELOW), 1)]),
 ('S4 seeded/C06-1 in the encoder only', [(COD, IS_ENC[0], IS_ENC[1], 1), (COD, SCAN, memo_scan('(self.back_reference_boundary, len(bitmap))', 'self._enc'), 1)]),
 ('S5 seeded/C06-1 in the decoder only', [(COD, IS_ENC[0], IS_ENC[1], 1), (COD, SCAN, memo_scan('(self.back_reference_boundary, len(bitmap))', 'not self._enc'), 1)]),
 ('S6 bitmapped descriptors memoised per message, keyed by (boundary, bitmap bits)', [(COD, SELECT, SELECT_MEMO, 1)]),
 ('S7 marker descriptors memoised per message, keyed by (index of the element, marker operator)', [(COD, MARKER, MARKER_MEMO, 1)]),
 ('S8 the bitmap of an earlier subset is kept when the next subset defines one of the same length (decoder and encoder)',
  [(DEC, KEEP_BITMAP_OLD, KEEP_BITMAP_NEW, 1), (ENC, KEEP_BITMAP_OLD, KEEP_BITMAP_NEW, 1)]),
 ('S9 wiring: nodes of ANY earlier subset with equal descriptors are shared (seeded/C06-2, not only adjacent)', [(TD, WIRE_OLD, WIRE_ANY, 1)]),
 ('S10 wiring: nodes of an earlier subset with as many descriptors and the same links are shared', [(TD, WIRE_OLD, WIRE_LEN, 1)]),
]


def nth_replace(text, a, b, nth):
    pos = -1
    for _ in range(nth):
        pos = text.find(a, pos + 1)
        if pos < 0:
            return None
    return text[:pos] + b + text[pos + len(a):]


sel = sys.argv[3:]
for name, edits in MUTS:
    if sel and name.split(' ')[0] not in sel:
        continue
    orig = {}
    ok = True
    for f, a, b, nth in edits:
        orig.setdefault(f, open(f).read())
    new = dict(orig)
    for f, a, b, nth in edits:
        t = nth_replace(new[f], a, b, nth)
        if t is None or a == b:
            print('PATTERN PROBLEM', name, f)
            ok = False
            break
        new[f] = t
    if not ok:
        continue
    shutil.rmtree(os.path.join(VERIF, 'replays', 'C06'), ignore_errors=True)
    try:
        for f in new:
            open(f, 'w').write(new[f])
        p = subprocess.run(['./check', 'C06', '--tier', 'quick'], cwd=VERIF, env=dict(os.environ, VERIF_REPO=REPO),
                           stdout=subprocess.PIPE, stderr=subprocess.STDOUT, text=True)
    finally:
        for f in orig:
            open(f, 'w').write(orig[f])
    lines = p.stdout.split('\n')
    viol = [i for i, l in enumerate(lines) if l.startswith('VIOLATION')]
    det = lines[viol[0] + 1].strip()[:200] if viol else ''
    nf = sum(1 for i in viol if 'no-failing-input-found' in lines[i])
    # which part of the check found it: the layout-varying templates (harness/c06gen.py) or the older generators
    fams = [json.load(open(f))['replay'].get('family', '') for f in glob.glob(os.path.join(VERIF, 'replays', 'C06', '*.json'))]
    n_layout = sum(1 for x in fams if x.startswith('layout'))
    summary = [l for l in lines if l.startswith('C06 tier=')]
    print('%-110s rc=%d distinct violations=%d (layout templates %d, older generators %d; without failing input: %d)\n        %s\n        %s' % (
        name, p.returncode, len(fams), n_layout, len(fams) - n_layout, nf, det, summary[-1] if summary else ''))
    sys.stdout.flush()
    if p.returncode == 2:
        print(p.stdout[-1500:])
subprocess.run(['git', 'checkout', '--', 'evidence'], cwd=VERIF)
