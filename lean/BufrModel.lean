import BufrModel.Basic.Bits
import BufrModel.Lemmas.Bits
import BufrModel.Props.C19
