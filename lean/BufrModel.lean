import BufrModel.Basic.Bits
import BufrModel.Lemmas.Bits
import BufrModel.Props.C19
import BufrModel.Msg.Layout
import BufrModel.Gen.Layouts
import BufrModel.Lang.PathParser
import BufrModel.Spec.PathGrammar
import BufrModel.Props.C15
