/-
  bufrdrv — JSON-lines driver over the executable model.  One request per input line, one
  response per output line.  Imports no Lemmas/Props (and therefore no Mathlib).
-/
import BufrModel.Drv.JsonUtil
import BufrModel.Drv.BitsOp
import BufrModel.Drv.PathOp
open Lean Bufr.Drv

def dispatch (j : Json) : J Json := do
  let op ← asStr (← fld j "op")
  match op with
  | "ping" => pure (jobj [("pong", Json.bool true)])
  | "bits" => opBits j
  | "path" => opPath j
  | "path-enum" => opPathEnum j
  | _ => throw s!"unknown op {op}"

partial def loop (hin hout : IO.FS.Stream) : IO Unit := do
  let line ← hin.getLine
  if line.isEmpty then return ()
  let out : Json :=
    match Json.parse line with
    | .error e => jobj [("driver_error", jstr ("parse: " ++ e))]
    | .ok j => match dispatch j with
      | .ok r => r
      | .error e => jobj [("driver_error", jstr e)]
  hout.putStrLn out.compress
  loop hin hout

def main : IO Unit := do
  let hin ← IO.getStdin
  let hout ← IO.getStdout
  loop hin hout
  hout.flush
