/-
  bufrdrv — JSON-lines driver over the executable model.  One request per input line, one
  response per output line.  Imports no Lemmas/Props (and therefore no Mathlib).
  State: the table group loaded by the last `tables` request (Drv/State.lean).
-/
import BufrModel.Drv.JsonUtil
import BufrModel.Drv.State
import BufrModel.Drv.BitsOp
import BufrModel.Drv.PathOp
import BufrModel.Drv.CoderOp
import BufrModel.Drv.ColParseOp
import BufrModel.Drv.ScriptOp
import BufrModel.Drv.SectionsOp
import BufrModel.Drv.SubsetOp
import BufrModel.Drv.TemplateOp
import BufrModel.Drv.CacheOp
import BufrModel.Drv.SessionOp
import BufrModel.Drv.HeapOp
import BufrModel.Drv.CompilerOp
import BufrModel.Drv.TableDefOp
import BufrModel.Drv.FlatOp
import BufrModel.Drv.CanonOp
import BufrModel.Drv.LinksOp
import BufrModel.Drv.ViewOp
import BufrModel.Drv.StreamOp
import BufrModel.Drv.WidthsOp
import BufrModel.Drv.QueryOp
import BufrModel.Drv.TextOp
import BufrModel.Drv.HistoryOp
import BufrModel.Drv.JsonTextOp
open Lean Bufr.Drv

/-- stateless operations: one line per op -/
def statelessOps : List (String × (Json → J Json)) :=
  ("bits", opBits) ::
  ("path", opPath) ::
  ("path-enum", opPathEnum) ::
  ("script", opScript) ::
  ("script-segs", opScriptSegs) ::
  ("script-enum", opScriptEnum) ::
  ("flatten", opFlatten) ::
  ("msg-encode", opMsgEncode) ::
  ("msg-decode", opMsgDecode) ::
  ("mdquery", opMdQuery) ::
  ("subset", opSubset) ::
  ("normalize", opNormalize) ::
  ("cache", opCache) ::
  ("session", opSession) ::
  ("heap", opHeap) ::
  ("links-spec", opLinksSpec) ::
  ("pyslice", opPySlice) ::
  ("parser-history", opParserHistory) ::
  ("jsontext", opJsonText) ::
  []

/-- operations that read or change the driver state -/
def statefulOps : List (String × (DrvState → Json → J (DrvState × Json))) :=
  ("tables", opTables) ::
  ("dec-data", opDecData) ::
  ("enc-data", opEncData) ::
  ("gen-data", opGenData) ::
  ("build", opBuild) ::
  ("expand-row", opExpandRow) ::
  ("expand-all", opExpandAll) ::
  ("tables-wf", opTablesWf) ::
  ("compile", opCompile) ::
  ("dec-data-compiled", opDecDataCompiled) ::
  ("enc-data-compiled", opEncDataCompiled) ::
  ("compiled-cache", opCompiledCache) ::
  ("tabledef-extract", TD.opTableDefExtract) ::
  ("fix-ncep", TD.opFixNcep) ::
  ("build-src", TD.opBuildSrc) ::
  ("tabledef-stream", TD.opTableDefStream) ::
  ("dec-data-flat", opDecDataFlat) ::
  ("canon-bits", opCanonBits) ::
  ("col-parse", opColParse) ::
  ("wf-bitmap", opWfBitmap) ::
  ("wire", opWire) ::
  ("nested-json", opNestedJson) ::
  ("to-flat", opToFlat) ::
  ("views", opViews) ::
  ("scan", opScan) ::
  ("enc-data-widths", opEncDataWidths) ::
  ("dec-subsets", opDecSubsets) ::
  ("query", opQuery) ::
  ("paths", opPaths) ::
  ("text", opText) ::
  []

def dispatch (st : DrvState) (j : Json) : J (DrvState × Json) := do
  let op ← asStr (← fld j "op")
  if op == "ping" then return (st, jobj [("pong", Json.bool true)])
  match statelessOps.lookup op with
  | some f => return (st, ← f j)
  | none =>
    match statefulOps.lookup op with
    | some f => f st j
    | none => throw s!"unknown op {op}"

partial def loop (hin hout : IO.FS.Stream) (st : DrvState) : IO Unit := do
  let line ← hin.getLine
  if line.isEmpty then return ()
  let (st', out) : DrvState × Json :=
    match Json.parse line with
    | .error e => (st, jobj [("driver_error", jstr ("parse: " ++ e))])
    | .ok j => match dispatch st j with
      | .ok r => r
      | .error e => (st, jobj [("driver_error", jstr e)])
  hout.putStrLn out.compress
  loop hin hout st'

def main : IO Unit := do
  let hin ← IO.getStdin
  let hout ← IO.getStdout
  loop hin hout {}
  hout.flush
