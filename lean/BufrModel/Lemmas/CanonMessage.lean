/-
  C02 lemmas, message level: the section writer of `Msg/Sections.lean` with recomputed lengths IS the
  declarative section of `Spec/CanonMessage.lean`: parameter by parameter (`encParam_eq`), the content
  (`encParams_eq`), padding (`padBits_eq_sectionPad`) and the back-patched length (`encSection_eq`).
-/
import BufrModel.Spec.CanonMessage
import BufrModel.Lemmas.CanonBits
import BufrModel.Lemmas.Sections
set_option linter.unusedSimpArgs false
namespace Bufr
open Bufr.Spec

theorem writeUInt_eq (w : Bits) (v : Int) (n : Nat) :
    writeUInt w v n = (ofOpt (uintCode n v)).map (w ++ ·) := by
  have h := fieldUInt_eq v n
  unfold fieldUInt at h
  have hw : writeUInt w v n = (writeUInt [] v n).map (w ++ ·) := by
    unfold writeUInt
    split
    · rfl
    · split
      · rfl
      · split
        · rfl
        · simp [Except.map]
  rw [hw, h]

theorem ofOpt_map_append (o : Option Bits) (w : Bits) :
    (ofOpt o).map (w ++ ·) = ofOpt (o.map (w ++ ·)) := by cases o <;> rfl

theorem uintCode_nat (n k : Nat) :
    uintCode n (Int.ofNat k) = if 0 < n ∧ k < 2 ^ n then some (toBits n k) else none := by
  unfold uintCode
  have h1 : (0 : Int) ≤ (k : Int) := Int.natCast_nonneg k
  have h2 : ((k : Int) < 2 ^ n) ↔ k < 2 ^ n := by
    constructor
    · intro h; exact_mod_cast h
    · intro h; exact_mod_cast h
  simp only [h1, true_and, h2, Int.ofNat_eq_natCast, Int.toNat_natCast]

theorem descCode_eq (id : Nat) :
    descCode id = (uintCode 2 (Int.ofNat (id / 100000))).bind fun a =>
      (uintCode 6 (Int.ofNat (id / 1000 % 100))).bind fun b =>
        (uintCode 8 (Int.ofNat (id % 1000))).map fun c => a ++ b ++ c := by
  simp only [uintCode_nat, descCode, fOf, xOf, yOf]
  by_cases hF : id / 100000 < 4
  · by_cases hX : id / 1000 % 100 < 64
    · by_cases hY : id % 1000 < 256
      · simp [hF, hX, hY]
      · simp [hF, hX, hY]
    · simp [hF, hX]
  · simp [hF]

theorem encDescs_eq (ids : List Nat) (w : Bits) :
    encDescs w ids = (ofOpt ((ids.mapM descCode).map List.flatten)).map (w ++ ·) := by
  induction ids generalizing w with
  | nil => simp [encDescs, ofOpt, Except.map]
  | cons id ids ih =>
    simp only [encDescs, writeUInt_eq, List.mapM_cons, ih, descCode_eq id]
    cases uintCode 2 (Int.ofNat (id / 100000)) with
    | none => rfl
    | some a =>
      cases uintCode 6 (Int.ofNat (id / 1000 % 100)) with
      | none => rfl
      | some b =>
        cases uintCode 8 (Int.ofNat (id % 1000)) with
        | none => rfl
        | some c =>
          cases ids.mapM descCode with
          | none => rfl
          | some cs => simp [ofOpt, Except.map, List.append_assoc]

theorem writeInt_eq (w : Bits) (x : Int) (n : Nat) :
    writeInt w x n = (ofOpt (intCode n x)).map (w ++ ·) := by
  have h := fieldInt_eq x n
  unfold fieldInt at h
  have hw : writeInt w x n = (writeInt [] x n).map (w ++ ·) := by
    unfold writeInt writeBool
    rw [writeUInt_eq, writeUInt_eq ([] ++ _)]
    cases uintCode (n - 1) (Int.ofNat x.natAbs) <;> simp [ofOpt, Except.map]
  rw [hw, h]
  rfl

theorem encParam_eq (w : Bits) (p : Param) (v : PVal) (payload : Bits) :
    encParam w p v payload = (ofOpt (paramCode payload p v)).map (w ++ ·) := by
  unfold encParam paramCode
  cases hty : p.ty <;> cases v <;>
    simp [hty, writeUInt_eq, writeInt_eq, encDescs_eq, ofOpt, Except.map, writeBool, writeBin, writeBytes]

theorem encParams_eq (payload : Bits) (ps : List Param) (vs : List PVal) (w : Bits)
    (hlen : ps.length = vs.length) :
    encParams payload ps vs w = (ofOpt (sectionContent payload ps vs)).map (w ++ ·) := by
  induction ps generalizing vs w with
  | nil =>
    cases vs with
    | nil => simp [encParams, sectionContent, ofOpt, Except.map]
    | cons v vs => simp at hlen
  | cons p ps ih =>
    cases vs with
    | nil => simp at hlen
    | cons v vs =>
      simp only [List.length_cons, Nat.add_right_cancel_iff] at hlen
      simp only [encParams, sectionContent, encParam_eq]
      cases paramCode payload p v with
      | none => rfl
      | some c =>
        simp only [ofOpt, Except.map, ih vs (w ++ c) hlen]
        cases sectionContent payload ps vs with
        | none => rfl
        | some r => simp [ofOpt, Except.map, List.append_assoc]


theorem padBits_eq_sectionPad (ed : Int) (n : Nat) : padBits ed n = sectionPad ed n := by
  unfold padBits sectionPad
  by_cases he : ed ≤ 3
  · simp only [he, if_true]
    by_cases h1 : n / 8 % 2 = 0
    · have hb : (n / 8 % 2 != 0) = false := by simp [h1]
      simp only [hb, Bool.false_eq_true, if_false]
      by_cases h2 : n % 8 = 0
      · simp only [h2, if_true]; omega
      · simp only [h2, if_false]; omega
    · have hb : (n / 8 % 2 != 0) = true := by simp only [bne_iff_ne, ne_eq]; exact h1
      simp only [hb, if_true]; omega
  · simp only [he, if_false]
    by_cases h2 : n % 8 = 0
    · simp only [h2, if_true]
    · simp only [h2, if_false]; omega

theorem sectionContent_length_ne (payload : Bits) (ps : List Param) (vs : List PVal)
    (h : ps.length ≠ vs.length) : sectionContent payload ps vs = none := by
  induction ps generalizing vs with
  | nil =>
    cases vs with
    | nil => exact absurd rfl h
    | cons v vs => rfl
  | cons p ps ih =>
    cases vs with
    | nil => rfl
    | cons v vs =>
      have := ih vs (by simpa using h)
      simp only [sectionContent, this]
      cases paramCode payload p v <;> rfl

/-- `Encoder.process_section` with recomputed lengths is `canonSection` appended to the stream -/
theorem encSection_eq (cfg : EncCfg) (hc : cfg.ignoreDeclared = true) (s : SectionLayout)
    (hs : s.lenFirst = true) (vs : List PVal) (payload : Bits) (reg : Registry) (w : Bits)
    (ed : Int) (nb pos : Nat)
    (hed : (register reg w.length 0 s.params vs).get? "edition" = some ⟨.int ed, nb, pos⟩) :
    encSection cfg s vs payload reg w =
      (ofOpt (canonSection ed s vs payload)).map
        fun b => (register reg w.length 0 s.params vs, w ++ b) := by
  unfold encSection canonSection
  by_cases hlen : s.params.length = vs.length
  · have hne : (s.params.length != vs.length) = false := by simp [hlen]
    simp only [hne, Bool.false_eq_true, if_false, encParams_eq payload s.params vs w hlen, hed]
    cases hcnt : sectionContent payload s.params vs with
    | none => rfl
    | some c =>
      have hcl : (w ++ c).length - w.length = c.length := by simp
      simp only [ofOpt, Except.map, Option.bind_some, hcl, padBits_eq_sectionPad]
      by_cases hh : s.hasParam "section_length" = true
      · obtain ⟨p, ps', hp, hname, hnb, hty⟩ := lenFirst_cons hs hh
        have hpo : paramOf s.params "section_length" = some p := by
          rw [hp, ← hname]; simp [paramOf, List.find?]
        have hoff : s.offsetOf "section_length" = some 0 := by
          rw [← hname]; exact offsetOf_head hp
        -- the value supplied for the length is an integer (its code exists)
        obtain ⟨d, vs', hvs⟩ : ∃ d vs', vs = .int d :: vs' := by
          rw [hp] at hcnt
          cases vs with
          | nil => simp [sectionContent] at hcnt
          | cons v vs' =>
            cases v with
            | int d => exact ⟨d, vs', rfl⟩
            | _ => simp [sectionContent, paramCode, hty] at hcnt
        have hval : valOf s.params vs "section_length" = some (.int d) := by
          rw [hp, hvs, ← hname]; simp [valOf]
        have hcond : (d == 0 || cfg.ignoreDeclared) = true := by simp [hc]
        simp only [closeSection, hpo, hval, hoff, hcond, if_true, hh, hnb, Nat.add_zero]
        simp only [List.append_assoc]
        generalize c ++ zeros (sectionPad ed c.length) = body
        have hl : (w ++ body).length - w.length = body.length := by
          simp only [List.length_append]; omega
        rw [hl]
        unfold setUInt
        have e1 : (w ++ body).take w.length = w := List.take_left
        have e2 : (w ++ body).drop (w.length + 24) = body.drop 24 := by
          rw [← List.drop_drop, List.drop_left]
        by_cases hfit : body.length / 8 < 2 ^ 24
        · have h1 : ¬ (2 ^ 24 ≤ body.length / 8) := by omega
          simp only [show ¬ ((24 : Nat) = 0) by decide, if_false, h1, hfit, if_true, ofOpt, e1, e2,
            List.append_assoc]
        · have h1 : (2 ^ 24 ≤ body.length / 8) := by omega
          simp only [show ¬ ((24 : Nat) = 0) by decide, if_false, h1, hfit, if_true, ofOpt]
      · have hh' : s.hasParam "section_length" = false := by simpa using hh
        have hpo : paramOf s.params "section_length" = none := paramOf_none hh'
        simp only [closeSection, hpo, hh', Bool.false_eq_true, if_false, ofOpt, List.append_assoc]
  · have hne : (s.params.length != vs.length) = true := by simp [hlen]
    simp only [hne, if_true, sectionContent_length_ne payload _ _ hlen]
    rfl

end Bufr
