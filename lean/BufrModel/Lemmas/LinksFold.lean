/-
  C07, `Spec.links = linksFold`, part 3: the candidates in force (`EstInv`), the selection of the last
  definition and what is left of it (`CurInv`), the links; `linksFold_eq`.
-/
import BufrModel.Lemmas.LinksFoldStruct
namespace Bufr.Spec

/-! ### cancellation -/

theorem cb_self (cs : List Nat) (a : Nat) : cancelledBetween cs a a = false := by
  unfold cancelledBetween
  rw [List.any_eq_false]
  intro c _
  simp only [Bool.and_eq_true, decide_eq_true_eq, not_and]
  intro h; omega

theorem cb_succ_of_mem (cs : List Nat) (a n : Nat) (h : n ∈ cs) (ha : a ≤ n) : cancelledBetween cs a (n + 1) = true := by
  unfold cancelledBetween
  rw [List.any_eq_true]
  exact ⟨n, h, by simp only [Bool.and_eq_true, decide_eq_true_eq]; omega⟩

theorem cb_succ_of_not_mem (cs : List Nat) (a n : Nat) (h : n ∉ cs) :
    cancelledBetween cs a (n + 1) = cancelledBetween cs a n := by
  unfold cancelledBetween
  induction cs with
  | nil => rfl
  | cons c cs ih =>
    simp only [List.any_cons]
    rw [ih (fun hm => h (List.mem_cons_of_mem _ hm))]
    have hc : c ≠ n := fun e => h (by rw [e]; simp)
    congr 1
    have : (c < n + 1) = (c < n) := by apply propext; omega
    simp only [this]

/-- the earliest definition that no 235000 separates from time `E` -/
def estOf (ds : List BitmapDef) (cs : List Nat) (E : Nat) : Option BitmapDef :=
  (ds.filter fun d0 => !cancelledBetween cs d0.eff E).head?

theorem estOf_mem {ds : List BitmapDef} {cs : List Nat} {E : Nat} {d0 : BitmapDef} (h : estOf ds cs E = some d0) :
    d0 ∈ ds := (List.mem_filter.mp (List.mem_of_head? h)).1

/-- for a definition `d` that takes effect at `E`, at or behind all of `ds` -/
theorem establishing_eq (ds : List BitmapDef) (cs : List Nat) (d : BitmapDef) (hds : ∀ d0 ∈ ds, d0.eff ≤ d.eff) :
    establishing (ds ++ [d]) cs d = (estOf ds cs d.eff).getD d := by
  unfold establishing estOf
  rw [List.filter_append]
  have h1 : ds.filter (fun d0 => decide (d0.eff ≤ d.eff) && !cancelledBetween cs d0.eff d.eff) =
      ds.filter (fun d0 => !cancelledBetween cs d0.eff d.eff) := by
    apply List.filter_congr
    intro d0 hd0
    simp [hds d0 hd0]
  have h2 : [d].filter (fun d0 => decide (d0.eff ≤ d.eff) && !cancelledBetween cs d0.eff d.eff) = [d] := by
    simp [cb_self]
  rw [h1, h2]
  cases ds.filter (fun d0 => !cancelledBetween cs d0.eff d.eff) <;> rfl

theorem estOf_snoc (ds : List BitmapDef) (cs : List Nat) (d : BitmapDef) :
    estOf (ds ++ [d]) cs d.eff = some ((estOf ds cs d.eff).getD d) := by
  unfold estOf
  rw [List.filter_append]
  have h2 : [d].filter (fun d0 => !cancelledBetween cs d0.eff d.eff) = [d] := by simp [cb_self]
  rw [h2]
  cases ds.filter (fun d0 => !cancelledBetween cs d0.eff d.eff) <;> rfl

/-! ### the candidates in force -/

def EstInv (cs : List Nat) (pre : List Item) (ds : List BitmapDef) (est : Option (List (Nat × Elem))) : Prop :=
  est = (estOf ds cs pre.length).map fun d0 => lastN d0.bits.length (plainBelow pre d0.op)

theorem EstInv.advance {cs : List Nat} {pre : List Item} {ds : List BitmapDef} {est : Option (List (Nat × Elem))}
    (h : EstInv cs pre ds est) (x : Item) (hwf : ∀ d ∈ ds, d.op < d.eff ∧ d.eff ≤ pre.length) :
    EstInv cs (pre ++ [x]) ds (if cs.contains pre.length then none else est) := by
  unfold EstInv at *
  rw [List.length_append, List.length_singleton]
  by_cases hc : cs.contains pre.length = true
  · rw [if_pos hc]
    have hm : pre.length ∈ cs := by simpa using hc
    have : estOf ds cs (pre.length + 1) = none := by
      unfold estOf
      rw [List.head?_eq_none_iff, List.filter_eq_nil_iff]
      intro d0 hd0
      rw [cb_succ_of_mem cs _ _ hm (hwf d0 hd0).2]
      simp
    rw [this]; rfl
  · rw [if_neg hc]
    have hm : pre.length ∉ cs := by simpa using hc
    have e1 : estOf ds cs (pre.length + 1) = estOf ds cs pre.length := by
      unfold estOf
      congr 1
      apply List.filter_congr
      intro d0 _
      rw [cb_succ_of_not_mem cs _ _ hm]
    rw [e1, h]
    cases hd : estOf ds cs pre.length with
    | none => rfl
    | some d0 =>
      have := hwf d0 (estOf_mem hd)
      simp only [Option.map_some]
      rw [plainBelow_snoc_lt _ _ _ (by omega)]

/-- the candidates after the pending definition took effect -/
def newCands (est : Option (List (Nat × Elem))) (bits : List Val) (below : List (Nat × Elem)) : List (Nat × Elem) :=
  match est with
  | some c => c
  | none => lastN bits.length below

theorem EstInv.finalize {cs : List Nat} {pre : List Item} {ds : List BitmapDef} {est : Option (List (Nat × Elem))}
    (h : EstInv cs pre ds est) (d : BitmapDef) (hd : d.eff = pre.length) (below : List (Nat × Elem))
    (hb : below = plainBelow pre d.op) (hds : ∀ d0 ∈ ds, d0.eff ≤ d.eff) :
    EstInv cs pre (ds ++ [d]) (some (newCands est d.bits below)) ∧
    candidates pre (ds ++ [d]) cs d = newCands est d.bits below := by
  unfold EstInv at *
  have hc : lastN ((estOf ds cs d.eff).getD d).bits.length (plainBelow pre ((estOf ds cs d.eff).getD d).op) =
      newCands est d.bits below := by
    rw [h, hd]
    cases estOf ds cs pre.length with
    | none => simp [newCands, hb]
    | some d0 => simp [newCands]
  constructor
  · rw [← hd, estOf_snoc, Option.map_some, hc]
  · unfold candidates
    simp only
    rw [establishing_eq ds cs d hds]
    exact hc

/-! ### the selection of the last definition, and how much of it has been served -/

def startOf (pre : List Item) (d : BitmapDef) : Nat :=
  match lastPos (isOper 237000) pre with
  | some r => if d.eff ≤ r then r else d.eff
  | none => d.eff

def kOf (pre : List Item) (d : BitmapDef) : Nat := ((servedOf pre).drop (startOf pre d)).count true

def CurInv (cs : List Nat) (pre : List Item) (ds : List BitmapDef) (sel iter : List (Nat × Elem)) : Prop :=
  match ds.getLast? with
  | none => sel = [] ∧ iter = []
  | some d => sel.map (·.1) = selected pre ds cs d ∧ iter = sel.drop (kOf pre d)

theorem startOf_le (pre : List Item) (d : BitmapDef) (h : d.eff ≤ pre.length) : startOf pre d ≤ pre.length := by
  unfold startOf
  cases hl : lastPos (isOper 237000) pre with
  | none => exact h
  | some r =>
    have := lastPos_lt _ _ _ hl
    simp only
    split <;> omega

theorem kOf_fresh (pre : List Item) (d : BitmapDef) (h : d.eff = pre.length) : kOf pre d = 0 := by
  unfold kOf
  have : startOf pre d = pre.length := by
    unfold startOf
    cases hl : lastPos (isOper 237000) pre with
    | none => exact h
    | some r =>
      have := lastPos_lt _ _ _ hl
      simp only
      rw [if_neg (by omega)]; exact h
  rw [this, List.drop_of_length_le (by rw [servedOf_length]; omega)]
  rfl

theorem zsel_fst (bits : List Val) (cands : List (Nat × Elem)) :
    (zsel bits cands).map (·.1) = ((bits.zip cands).filter fun x => x.1 == Val.int 0).map (·.2.1) := by
  unfold zsel
  rw [List.map_map]
  rfl

theorem CurInv.finalize (cs : List Nat) (pre : List Item) (ds : List BitmapDef) (d : BitmapDef)
    (hd : d.eff = pre.length) (cands : List (Nat × Elem)) (hc : candidates pre (ds ++ [d]) cs d = cands) :
    CurInv cs pre (ds ++ [d]) (zsel d.bits cands) (zsel d.bits cands) := by
  unfold CurInv
  rw [List.getLast?_append, List.getLast?_singleton]
  simp only [Option.some_or]
  refine ⟨?_, ?_⟩
  · rw [zsel_fst]
    unfold selected
    rw [hc]
  · rw [kOf_fresh pre d hd]; rfl

theorem tail_drop {α : Type} (l : List α) (k : Nat) : (l.drop k).tail = l.drop (k + 1) := by
  rw [List.tail_drop]

theorem CurInv.advance {cs : List Nat} {pre : List Item} {ds : List BitmapDef} {sel iter : List (Nat × Elem)}
    (h : CurInv cs pre ds sel iter) (x : Item) (hwf : ∀ d ∈ ds, d.op < d.eff ∧ d.eff ≤ pre.length) :
    CurInv cs (pre ++ [x]) ds sel
      (if isOper 237000 x then sel else if consumesF (qaOf pre) x then iter.tail else iter) := by
  unfold CurInv at *
  cases hg : ds.getLast? with
  | none =>
    rw [hg] at h
    obtain ⟨rfl, rfl⟩ := h
    simp only
    refine ⟨by simp, ?_⟩
    split
    · rfl
    · split <;> rfl
  | some d =>
    rw [hg] at h
    obtain ⟨h1, h2⟩ := h
    have hdm : d ∈ ds := List.mem_of_getLast? hg
    have hw := hwf d hdm
    simp only
    refine ⟨?_, ?_⟩
    · have := selected_stable pre x ds [] [] cs d (fun _ h => nomatch h) (fun _ h => nomatch h)
        (fun d0 h0 => by have := hwf d0 h0; omega) (by omega)
      simp only [List.append_nil] at this
      rw [this, h1]
    · by_cases h7 : isOper 237000 x = true
      · rw [if_pos h7]
        have hs : startOf (pre ++ [x]) d = pre.length := by
          unfold startOf
          rw [lastPos_snoc, if_pos h7]
          simp only
          rw [if_pos hw.2]
        have : kOf (pre ++ [x]) d = 0 := by
          unfold kOf
          rw [hs, servedOf_snoc, List.drop_left' (servedOf_length pre), oper_not_consumer _ _ _ h7]
          rfl
        rw [this]; rfl
      · rw [if_neg h7]
        have hs : startOf (pre ++ [x]) d = startOf pre d := by
          unfold startOf
          rw [lastPos_snoc, if_neg h7]
        have hk : kOf (pre ++ [x]) d = kOf pre d + (if consumesF (qaOf pre) x then 1 else 0) := by
          unfold kOf
          rw [hs, servedOf_snoc, List.drop_append_of_le_length (by rw [servedOf_length]; exact startOf_le pre d hw.2),
            List.count_append]
          congr 1
          cases consumesF (qaOf pre) x <;> rfl
        rw [hk]
        split
        · rw [h2, tail_drop]
        · rw [h2]; rfl

/-! ### the owner of a value at the end of the items read -/

theorem owner_new (pre : List Item) (x : Item) (D : List BitmapDef) (cs : List Nat)
    (hD : ∀ d ∈ D, d.op < d.eff ∧ d.eff ≤ pre.length) :
    owner? (pre ++ [x]) D cs (servedOf (pre ++ [x])) pre.length =
      match D.getLast? with
      | none => none
      | some d => (selected pre D cs d)[kOf pre d]? := by
  unfold owner?
  have hf : D.filter (fun d => decide (d.eff ≤ pre.length)) = D := by
    rw [List.filter_eq_self]
    intro d hd
    simp [(hD d hd).2]
  rw [hf]
  cases hg : D.getLast? with
  | none => rfl
  | some d =>
    simp only
    have hdm : d ∈ D := List.mem_of_getLast? hg
    have hw := hD d hdm
    rw [lastBelow_eq, List.take_left' rfl]
    have hsel := selected_stable pre x D [] [] cs d (fun _ h => nomatch h) (fun _ h => nomatch h)
      (fun d0 h0 => by have := hD d0 h0; omega) (by omega)
    simp only [List.append_nil] at hsel
    rw [hsel, servedOf_snoc, List.take_left' (servedOf_length pre)]
    rfl

end Bufr.Spec

namespace Bufr.Spec

/-! ### the invariant of the fold -/

structure FInv (cs : List Nat) (pre : List Item) (st : FS) : Prop where
  s : SInv pre st
  qa : st.qa = qaOf pre
  est : EstInv cs pre st.defs st.est
  cur : CurInv cs pre st.defs st.sel st.iter
  links : st.links.reverse = links pre cs

theorem FInv.init (cs : List Nat) : FInv cs [] {} :=
  ⟨SInv.init, rfl, rfl, ⟨rfl, rfl⟩, rfl⟩

theorem finalize_run (st : FS) (p : Nat) (r : Bool) (bits : List Val) (h : st.ph = .run p r bits) :
    finalize st = { st with ph := .idle, defs := st.defs ++ [{ op := p, eff := st.pos, bits := bits, reusable := r }],
                            est := some (newCands st.est bits st.below),
                            sel := zsel bits (newCands st.est bits st.below),
                            iter := zsel bits (newCands st.est bits st.below) } := by
  unfold finalize
  split
  · next p' r' bits' heq =>
    rw [h] at heq
    injection heq with e1 e2 e3
    subst e1; subst e2; subst e3
    rfl
  · next hne => exact absurd h (hne _ _ _)

theorem finalize_nonrun (st : FS) (h : ∀ p r bits, st.ph ≠ .run p r bits) : finalize st = st := by
  unfold finalize
  split
  · next p r bits heq => exact absurd heq (h _ _ _)
  · rfl

theorem SInv.run_below {pre : List Item} {st : FS} (h : SInv pre st) (p : Nat) (r : Bool) (bits : List Val)
    (hph : st.ph = .run p r bits) : st.below = plainBelow pre p := by
  rcases h.seg with ⟨_, h2⟩ | ⟨A, op, B, e, _, _, hB, hbel⟩
  · rw [hph] at h2; cases h2
  · rw [hph] at hB
    obtain ⟨rfl, _⟩ := hB
    exact hbel

/-- `finalize` keeps the three parts of the invariant that speak about the definitions -/
theorem FInv.finalize {cs : List Nat} {pre : List Item} {st : FS} (h : FInv cs pre st) :
    (∀ d ∈ (finalize st).defs, d.op < d.eff ∧ d.eff ≤ pre.length) ∧
    EstInv cs pre (finalize st).defs (finalize st).est ∧
    CurInv cs pre (finalize st).defs (finalize st).sel (finalize st).iter := by
  have hwf : ∀ d ∈ (Spec.finalize st).defs, d.op < d.eff ∧ d.eff ≤ pre.length := by
    intro d hd
    rw [finalize_defs] at hd
    rcases List.mem_append.mp hd with hd | hd
    · exact h.s.wf d hd
    · have := pend_wf h.s d hd; omega
  refine ⟨hwf, ?_⟩
  cases hph : st.ph with
  | run p r bits =>
    rw [finalize_run st p r bits hph]
    simp only
    have hb := h.s.run_below p r bits hph
    have hE := h.est.finalize { op := p, eff := st.pos, bits := bits, reusable := r } h.s.pos st.below hb
      (fun d0 hd0 => by have := h.s.wf d0 hd0; simp only; rw [h.s.pos]; omega)
    exact ⟨hE.1, CurInv.finalize cs pre st.defs _ h.s.pos _ hE.2⟩
  | idle => rw [finalize_nonrun st (by intro p r b; rw [hph]; exact fun x => nomatch x)]; exact ⟨h.est, h.cur⟩
  | afterOp q => rw [finalize_nonrun st (by intro p r b; rw [hph]; exact fun x => nomatch x)]; exact ⟨h.est, h.cur⟩
  | pre q r => rw [finalize_nonrun st (by intro p r b; rw [hph]; exact fun x => nomatch x)]; exact ⟨h.est, h.cur⟩

theorem FInv.fin1 {cs : List Nat} {pre : List Item} {st : FS} (h : FInv cs pre st) (x : Item) :
    (∀ d ∈ (fin1 st x).defs, d.op < d.eff ∧ d.eff ≤ pre.length) ∧
    EstInv cs pre (fin1 st x).defs (fin1 st x).est ∧
    CurInv cs pre (fin1 st x).defs (fin1 st x).sel (fin1 st x).iter := by
  unfold Spec.fin1
  split
  · exact ⟨h.s.wf, h.est, h.cur⟩
  · exact h.finalize

theorem serve_iter (st : FS) : (serve st).iter = st.iter.tail := by
  unfold serve; split <;> simp_all

theorem phStep_nonbit_not_run (ph : Ph) (pos : Nat) (x : Item) (hb : isBit x = false)
    (hph : ∀ p r bits, ph ≠ .run p r bits) : ∀ p r bits, phStep ph pos x ≠ .run p r bits := by
  intro p r bits
  unfold phStep
  split
  · exact fun h => nomatch h
  · cases ph with
    | idle => exact fun h => nomatch h
    | afterOp q =>
      simp only [hb, Bool.false_eq_true, if_false]
      split <;> exact fun h => nomatch h
    | pre q r' => simp only [hb, Bool.false_eq_true, if_false]; exact fun h => nomatch h
    | run q r' b' => exact absurd rfl (hph q r' b')

theorem fin1_not_run (st : FS) (x : Item) (hb : isBit x = false) : ∀ p r bits, (fin1 st x).ph ≠ .run p r bits := by
  intro p r bits
  rw [fin1_ph, hb]
  simp only [Bool.false_eq_true, if_false]
  split
  · exact fun h => nomatch h
  · next hne => exact hne p r bits

theorem pend_step_nonbit (cs : List Nat) (st : FS) (x : Item) (hb : isBit x = false) : pend (step cs st x) = [] := by
  rw [pend_of_ph]
  have := phStep_nonbit_not_run (fin1 st x).ph st.pos x hb (fin1_not_run st x hb)
  rw [← step_ph cs] at this
  split
  · next p r bits heq => exact absurd heq (this _ _ _)
  · rfl

end Bufr.Spec

namespace Bufr.Spec

theorem FInv.step {cs : List Nat} {pre : List Item} {st : FS} (h : FInv cs pre st) (x : Item) :
    FInv cs (pre ++ [x]) (Spec.step cs st x) := by
  have hs := h.s.step cs x
  obtain ⟨hwf1, hest1, hcur1⟩ := h.fin1 x
  refine ⟨hs, ?_, ?_, ?_, ?_⟩
  · rw [step_qa, h.qa, qaOf_snoc]
  · rw [step_defs, step_est, h.s.pos]; exact hest1.advance x hwf1
  · rw [step_defs, step_sel, step_iter]
    have : (srv1 (can1 cs (Spec.fin1 st x)) x).iter =
        if consumesF (qaOf pre) x then (Spec.fin1 st x).iter.tail else (Spec.fin1 st x).iter := by
      unfold srv1
      simp only [can1_qa, fin1_qa, h.qa]
      split <;> simp [serve_iter]
    rw [this]; exact hcur1.advance x hwf1
  · rw [step_links]
    have hdefs' : defs (pre ++ [x]) = st.defs ++ ((if isBit x then [] else pend st) ++ pend (Spec.step cs st x)) := by
      rw [hs.defsEq, step_defs, fin1_defs, List.append_assoc]
    have he : ∀ d0 ∈ pend st, pre.length ≤ d0.eff := by
      intro d0 hd0; have := pend_wf h.s d0 hd0; omega
    have he' : ∀ d0 ∈ (if isBit x then [] else pend st) ++ pend (Spec.step cs st x), pre.length ≤ d0.eff := by
      intro d0 hd0
      rcases List.mem_append.mp hd0 with hd0 | hd0
      · split at hd0
        · cases hd0
        · exact he d0 hd0
      · have := pend_wf hs d0 hd0
        simp only [List.length_append, List.length_singleton] at this
        omega
    have hl := links_snoc pre x cs st.defs (pend st) _ h.s.defsEq hdefs' he he'
      (fun d0 hd0 => by have := h.s.wf d0 hd0; omega)
    rw [hl]
    by_cases hc : consumesF (qaOf pre) x = true
    · have hb : isBit x = false := by
        cases hbx : isBit x with
        | false => rfl
        | true => rw [bit_not_consumer _ _ hbx] at hc; cases hc
      have hD : st.defs ++ ((if isBit x then [] else pend st) ++ pend (Spec.step cs st x)) = (Spec.fin1 st x).defs := by
        rw [pend_step_nonbit cs st x hb, fin1_defs, List.append_nil]
      rw [hD]
      unfold linkAt
      rw [consumes_snoc_eq, hc, if_pos rfl, owner_new pre x _ cs hwf1]
      unfold srv1
      rw [can1_qa, fin1_qa, h.qa, if_pos hc]
      unfold CurInv at hcur1
      cases hg : (Spec.fin1 st x).defs.getLast? with
      | none =>
        rw [hg] at hcur1
        simp only [Option.map_none, Option.toList_none, List.append_nil]
        unfold serve
        rw [can1_iter, hcur1.2]
        simp only [can1_links, fin1_links]
        exact h.links
      | some d =>
        rw [hg] at hcur1
        obtain ⟨c1, c2⟩ := hcur1
        simp only
        rw [← c1, List.getElem?_map]
        have hh : (Spec.fin1 st x).iter.head? = (Spec.fin1 st x).sel[kOf pre d]? := by rw [c2, List.head?_drop]
        rw [← hh]
        unfold serve
        rw [can1_iter]
        cases hi : (Spec.fin1 st x).iter with
        | nil =>
          simp only [List.head?_nil, Option.map_none, Option.toList_none, List.append_nil, can1_links, fin1_links]
          exact h.links
        | cons y rest =>
          simp only [List.head?_cons, Option.map_some, Option.toList_some, can1_links, fin1_links, can1_pos, fin1_pos,
            List.reverse_cons, h.links, h.s.pos]
    · have hc' : consumesF (qaOf pre) x = false := by simpa using hc
      unfold linkAt
      rw [consumes_snoc_eq, hc']
      simp only [Bool.false_eq_true, if_false, Option.toList_none, List.append_nil]
      unfold srv1
      rw [can1_qa, fin1_qa, h.qa, hc']
      simp only [Bool.false_eq_true, if_false, can1_links, fin1_links]
      exact h.links

theorem FInv.fold (cs : List Nat) (its : List Item) : FInv cs its (foldItems cs its) := by
  refine snoc_induction (P := fun its => FInv cs its (foldItems cs its)) ?_ ?_ its
  · exact FInv.init cs
  · intro pre x ih
    rw [foldItems_snoc]
    exact ih.step x

/-- `Spec.links` is a left fold over the items: for every item list and all cancel times -/
theorem linksFold_eq (its : List Item) (cs : List Nat) : links its cs = linksFold its cs :=
  ((FInv.fold cs its).links).symm

end Bufr.Spec
