/-
  Which errors the section decoder can raise, and how many bits the parameters of a section take whatever its
  declared length says (used by `Props/C12Length.lean`).

  `R.ErrLib f`: every error of the reader `f` is a LIBRARY error (`Err.isLib`: BitReadError, UnknownDescriptor,
  PyBufrKitError …), never `Err.other` (ValueError, AssertionError, IndexError …).  The section layer has three
  places where `other` could come from: a zero or negative width handed to the bit reader (`uint:0`, `int:1`,
  `bin:-8` — finding F14), a `section_length` that is not there when a rest-of-section parameter or the descriptor
  list asks for it, and the data coder.  `Param.readOK` / `SectionLayout.lenOK` are the (decidable) conditions on a
  layout that exclude the first two; the third is a hypothesis on the data coder.
-/
import BufrModel.Msg.Sections
import BufrModel.Msg.Stream
import BufrModel.Lemmas.Bits
import BufrModel.Lemmas.SectionsDec
namespace Bufr

/-- every error of the reader is a library error -/
def R.ErrLib {α : Type} (f : R α) : Prop := ∀ x e, f x = .error e → e.isLib = true

namespace R.ErrLib

theorem pure {α : Type} (a : α) : R.ErrLib (R.pure a) := by
  intro x e h; simp only [R.pure] at h; cases h

theorem fail {α : Type} (e : Err) (he : e.isLib = true) : R.ErrLib (R.fail e : R α) := by
  intro x e' h; simp only [R.fail] at h; cases h; exact he

theorem lift {α : Type} (v : Except Err α) (hv : ∀ e, v = .error e → e.isLib = true) : R.ErrLib (R.lift v) := by
  cases v with
  | ok a => exact pure a
  | error e => exact fail e (hv e rfl)

/-- the continuation only has to behave for the values the first reader can return -/
theorem bind {α β : Type} {f : R α} {g : α → R β} (hf : R.ErrLib f)
    (hg : ∀ x a r, f x = .ok (a, r) → R.ErrLib (g a)) : R.ErrLib (R.bind f g) := by
  intro x e h
  simp only [R.bind] at h
  split at h
  · rename_i e' hfx
    cases h
    exact hf x _ hfx
  · rename_i a r hfx
    exact hg x a r hfx r e h

theorem map {α β : Type} {f : R α} (k : α → β) (hf : R.ErrLib f) : R.ErrLib (R.map k f) :=
  bind hf fun _ a _ _ => pure (k a)

theorem counted {α : Type} {f : R α} (hf : R.ErrLib f) : R.ErrLib (R.counted f) := by
  intro x e h
  simp only [R.counted] at h
  split at h
  · rename_i e' hfx
    cases h
    exact hf x _ hfx
  · cases h

end R.ErrLib

theorem errLib_readBits (n : Nat) : R.ErrLib (readBits n) := by
  intro x e h
  simp only [readBits] at h
  split at h
  · cases h; rfl
  · cases h

theorem errLib_readUInt (n : Nat) (hn : n ≠ 0) : R.ErrLib (readUInt n) := by
  intro x e h
  simp only [readUInt, hn, if_false] at h
  split at h
  · rename_i e' hb
    cases h
    exact errLib_readBits n x _ hb
  · cases h

theorem errLib_readBool : R.ErrLib readBool := by
  intro x e h
  cases x with
  | nil => simp only [readBool] at h; cases h; rfl
  | cons b r => simp only [readBool] at h; cases h

theorem errLib_readInt (n : Nat) (hn : 2 ≤ n) : R.ErrLib (readInt n) := by
  intro x e h
  have h0 : n ≠ 0 := by omega
  simp only [readInt, h0, if_false] at h
  split at h
  · rename_i e' hb
    cases h
    exact errLib_readBool x _ hb
  · rename_i s r hb
    split at h
    · rename_i e' hu
      cases h
      exact errLib_readUInt (n - 1) (by omega) r _ hu
    · cases h

theorem errLib_readBytes (k : Nat) : R.ErrLib (readBytes k) := by
  intro x e h
  simp only [readBytes] at h
  split at h
  · rename_i e' hb
    cases h
    exact errLib_readBits _ x _ hb
  · cases h

theorem errLib_readDescs : ∀ n, R.ErrLib (readDescs n)
  | 0 => R.ErrLib.pure _
  | n + 1 => by
    unfold readDescs
    exact R.ErrLib.bind (errLib_readUInt 2 (by decide)) fun _ _ _ _ =>
      R.ErrLib.bind (errLib_readUInt 6 (by decide)) fun _ _ _ _ =>
        R.ErrLib.bind (errLib_readUInt 8 (by decide)) fun _ _ _ _ => R.ErrLib.map _ (errLib_readDescs n)

/-- what the bit reader is asked for is a width it accepts: an unsigned field of at least one bit, a signed one of
    at least two, a flag of one bit, whole octets; descriptor list and template data have no width of their own.
    (A `bin` / `bytes` parameter may have width 0 = "the rest of the section".) -/
def Param.readOK (p : Param) : Bool :=
  match p.ty with
  | .uint => p.nbits != 0
  | .int => 2 ≤ p.nbits
  | .bool => p.nbits == 1
  | .bin => true
  | .bytes => p.nbits % 8 == 0
  | .descriptors => p.nbits == 0
  | .templateData => p.nbits == 0

/-- the section length comes first, 24 bits unsigned without an expected value; every other parameter is `readOK` -/
def SectionLayout.lenOK (s : SectionLayout) : Bool :=
  match s.params with
  | p :: ps => p.name == "section_length" && p.nbits == 24 && p.ty == .uint && p.expected.isNone && ps.all Param.readOK
  | [] => false

/-- the parameter list hands part of the section to the data coder -/
def HasData (ps : List Param) : Prop := ∃ p ∈ ps, p.ty = .templateData

/-- the bits the parameters of a section take whatever the declared length says -/
def fixedBits (ps : List Param) : Nat := (ps.map (·.nbits)).sum

theorem lookup_append_some {β : Type} {k : String} {l m : List (String × β)} {v : β} (h : l.lookup k = some v) :
    (l ++ m).lookup k = some v := by
  induction l with
  | nil => simp [List.lookup] at h
  | cons a l ih =>
    obtain ⟨k', v'⟩ := a
    cases hk : k == k' with
    | true => simp only [List.cons_append, List.lookup, hk] at h ⊢; exact h
    | false => simp only [List.cons_append, List.lookup, hk] at h ⊢; exact ih h

theorem secLen_of_lookup {acc : List (String × PVal)} {v : Int} (h : acc.lookup "section_length" = some (PVal.int v)) :
    secLen acc = .ok v.toNat := by
  simp only [secLen, h]

/-! ## errors -/

theorem errLib_readTyped_fixed (p : Param) (hp : p.readOK = true) (h0 : p.nbits ≠ 0)
    (hd : p.ty ≠ .descriptors) (ht : p.ty ≠ .templateData) : R.ErrLib (readTyped p.ty p.nbits) := by
  unfold Param.readOK at hp
  cases hty : p.ty <;> simp only [hty] at hp hd ht <;> simp only [readTyped]
  · exact R.ErrLib.map _ (errLib_readUInt _ h0)
  · exact R.ErrLib.map _ (errLib_readInt _ (by simpa using hp))
  · exact R.ErrLib.map _ errLib_readBool
  · exact R.ErrLib.map _ (errLib_readBits _)
  · exact R.ErrLib.map _ (errLib_readBytes _)
  · exact absurd rfl hd
  · exact absurd rfl ht

/-- a rest-of-section parameter (`nbits = 0`): under `readOK` it is `bin` or `bytes`, which take any width -/
theorem errLib_readTyped_rest (p : Param) (hp : p.readOK = true) (h0 : p.nbits = 0)
    (hd : p.ty ≠ .descriptors) (ht : p.ty ≠ .templateData) (n : Nat) : R.ErrLib (readTyped p.ty n) := by
  unfold Param.readOK at hp
  cases hty : p.ty <;> simp only [hty, h0] at hp hd ht <;> simp only [readTyped]
  · simp at hp
  · simp at hp
  · exact R.ErrLib.map _ errLib_readBool
  · exact R.ErrLib.map _ (errLib_readBits _)
  · exact R.ErrLib.map _ (errLib_readBytes _)
  · exact absurd rfl hd
  · exact absurd rfl ht

theorem errLib_decValue {α : Type} (dc : DataCoder α) (st : DecSt α) (p : Param)
    (hdc : p.ty = .templateData → ∀ reg, R.ErrLib (dc.dec reg))
    (hp : p.readOK = true) (hl : ∃ v, st.acc.lookup "section_length" = some (PVal.int v)) :
    R.ErrLib (decValue dc st p) := by
  obtain ⟨v, hv⟩ := hl
  have hs := secLen_of_lookup hv
  unfold decValue
  split
  · exact R.ErrLib.bind (R.ErrLib.lift _ (by intro e he; rw [hs] at he; cases he)) fun _ _ _ _ =>
      R.ErrLib.map _ (errLib_readDescs _)
  · rename_i htd
    exact R.ErrLib.map _ (hdc htd _)
  · rename_i ty hd ht
    split
    · rename_i h0
      split
      · rename_i hb
        exact R.ErrLib.map _ (errLib_readTyped_rest p hp h0 (by intro h; exact hd h) (by intro h; exact ht h) 0)
      · exact R.ErrLib.bind (R.ErrLib.lift _ (by intro e he; rw [hs] at he; cases he)) fun _ d _ _ => by
          split
          · exact R.ErrLib.fail _ rfl
          · exact R.ErrLib.map _ (errLib_readTyped_rest p hp h0 (by intro h; exact hd h) (by intro h; exact ht h) _)
    · rename_i h0
      exact R.ErrLib.map _ (errLib_readTyped_fixed p hp h0 (by intro h; exact hd h) (by intro h; exact ht h))

theorem checkExpected_error {p : Param} {v : PVal} {e : Err} (h : checkExpected p v = .error e) : e = .lib := by
  unfold checkExpected at h
  split at h
  · cases h
  · split at h
    · cases h
    · cases h; rfl

/-- the parameters of a section after its `section_length` has been read: every error is a library error -/
theorem errLib_decParams {α : Type} (dc : DataCoder α) (start : Nat) :
    ∀ (ps : List Param) (off : Nat) (st : DecSt α), (HasData ps → ∀ reg, R.ErrLib (dc.dec reg)) → ps.all Param.readOK = true →
      (∃ v, st.acc.lookup "section_length" = some (PVal.int v)) → R.ErrLib (decParams dc start ps off st) := by
  intro ps
  induction ps with
  | nil => intro off st _ _ _; simp only [decParams]; exact R.ErrLib.pure _
  | cons p ps ih =>
    intro off st hdc hall hl
    simp only [List.all_cons, Bool.and_eq_true] at hall
    simp only [decParams]
    refine R.ErrLib.bind (R.ErrLib.counted (errLib_decValue dc st p
      (fun h => hdc ⟨p, List.mem_cons_self, h⟩) hall.1 hl)) fun _ a _ _ => ?_
    obtain ⟨⟨v, d⟩, n⟩ := a
    refine R.ErrLib.bind (R.ErrLib.lift _ (fun e he => by rw [checkExpected_error he]; rfl)) fun _ _ _ _ => ?_
    apply ih _ _ (fun ⟨q, hq, h⟩ => hdc ⟨q, List.mem_cons_of_mem _ hq, h⟩) hall.2
    obtain ⟨w, hw⟩ := hl
    exact ⟨w, lookup_append_some hw⟩

/-! ## bits consumed -/

theorem readBits_len {n : Nat} {x b r : Bits} (h : readBits n x = .ok (b, r)) : x.length = n + r.length := by
  simp only [readBits] at h
  split at h
  · cases h
  · cases h
    simp only [List.length_drop]
    omega

theorem readUInt_len {n : Nat} {x r : Bits} {v : Nat} (h : readUInt n x = .ok (v, r)) : x.length = n + r.length := by
  simp only [readUInt] at h
  split at h
  · cases h
  · split at h
    · cases h
    · rename_i b r' hb
      cases h
      exact readBits_len hb

theorem readBool_len {x r : Bits} {v : Bool} (h : readBool x = .ok (v, r)) : x.length = 1 + r.length := by
  cases x with
  | nil => simp only [readBool] at h; cases h
  | cons b t => simp only [readBool] at h; cases h; simp; omega

theorem readInt_len {n : Nat} {x r : Bits} {v : Int} (h : readInt n x = .ok (v, r)) : x.length = n + r.length := by
  simp only [readInt] at h
  split at h
  · cases h
  · rename_i hn
    split at h
    · cases h
    · rename_i s r1 hb
      split at h
      · cases h
      · rename_i m r2 hu
        cases h
        have h1 := readBool_len hb
        have h2 := readUInt_len hu
        omega

theorem readBytes_len {k : Nat} {x r : Bits} {v : List UInt8} (h : readBytes k x = .ok (v, r)) :
    x.length = 8 * k + r.length := by
  simp only [readBytes] at h
  split at h
  · cases h
  · rename_i b r' hb
    cases h
    exact readBits_len hb

theorem map_ok {α β : Type} {k : α → β} {f : R α} {x r : Bits} {b : β} (h : R.map k f x = .ok (b, r)) :
    ∃ a, f x = .ok (a, r) ∧ b = k a := by
  simp only [R.map, R.bind] at h
  split at h
  · cases h
  · rename_i a r' hf
    simp only [R.pure] at h
    cases h
    exact ⟨a, hf, rfl⟩

/-- a fixed-width parameter takes at least its width -/
theorem readTyped_len (p : Param) (hp : p.readOK = true) {x r : Bits} {v : PVal}
    (h : readTyped p.ty p.nbits x = .ok (v, r)) : p.nbits + r.length ≤ x.length := by
  unfold Param.readOK at hp
  cases hty : p.ty <;> simp only [hty] at hp h <;> simp only [readTyped] at h
  · obtain ⟨a, ha, _⟩ := map_ok h
    have := readUInt_len ha; omega
  · obtain ⟨a, ha, _⟩ := map_ok h
    have := readInt_len ha; omega
  · obtain ⟨a, ha, _⟩ := map_ok h
    have := readBool_len ha
    have : p.nbits = 1 := by simpa using hp
    omega
  · obtain ⟨a, ha, _⟩ := map_ok h
    have := readBits_len ha; omega
  · obtain ⟨a, ha, _⟩ := map_ok h
    have := readBytes_len ha
    have : p.nbits % 8 = 0 := by simpa using hp
    omega
  · simp only [R.fail] at h; cases h
  · simp only [R.fail] at h; cases h

theorem decValue_len {α : Type} (dc : DataCoder α) (st : DecSt α) (p : Param) (hp : p.readOK = true)
    {x r : Bits} {v : PVal × Option α} {n : Nat} (h : R.counted (decValue dc st p) x = .ok ((v, n), r)) :
    p.nbits ≤ n := by
  by_cases h0 : p.nbits = 0
  · omega
  simp only [R.counted] at h
  split at h
  · cases h
  rename_i a r1 hv
  cases h
  have hd : p.ty ≠ .descriptors := by
    intro hty; unfold Param.readOK at hp; simp only [hty] at hp; exact h0 (by simpa using hp)
  have ht : p.ty ≠ .templateData := by
    intro hty; unfold Param.readOK at hp; simp only [hty] at hp; exact h0 (by simpa using hp)
  have key : ∀ a', R.map (fun v => ((v, none) : PVal × Option α)) (readTyped p.ty p.nbits) x = .ok (a', r) →
      p.nbits ≤ x.length - r.length := by
    intro a' hm
    obtain ⟨a, ha, _⟩ := map_ok hm
    have := readTyped_len p hp ha
    omega
  cases hty : p.ty <;> simp only [decValue, hty, h0, if_false] at hv
  · exact key _ (by rw [hty]; exact hv)
  · exact key _ (by rw [hty]; exact hv)
  · exact key _ (by rw [hty]; exact hv)
  · exact key _ (by rw [hty]; exact hv)
  · exact key _ (by rw [hty]; exact hv)
  · exact absurd hty hd
  · exact absurd hty ht

/-- the parameters of a section: `used` grows at least by their fixed widths, and what was recorded is kept -/
theorem decParams_used {α : Type} (dc : DataCoder α) (start : Nat) :
    ∀ (ps : List Param) (off : Nat) (st : DecSt α) (x : Bits) (st' : DecSt α) (r : Bits),
      ps.all Param.readOK = true → decParams dc start ps off st x = .ok (st', r) →
      st.used + fixedBits ps ≤ st'.used ∧ ∃ m, st'.acc = st.acc ++ m := by
  intro ps
  induction ps with
  | nil =>
    intro off st x st' r _ h
    simp only [decParams, R.pure] at h
    cases h
    exact ⟨by simp [fixedBits], [], by simp⟩
  | cons q qs ih =>
    intro off st x st' r hall h
    simp only [List.all_cons, Bool.and_eq_true] at hall
    simp only [decParams, R.bind] at h
    split at h
    · cases h
    rename_i vdn r1 hc
    obtain ⟨⟨v, d⟩, n⟩ := vdn
    simp only at h
    split at h
    · cases h
    rename_i u r2 hl
    have hn := decValue_len dc st q hall.1 hc
    obtain ⟨hu, m, hm⟩ := ih _ _ _ _ _ hall.2 h
    simp only at hu hm
    refine ⟨?_, (q.name, v) :: m, by rw [hm]; simp⟩
    simp only [fixedBits, List.map_cons, List.sum_cons] at hu ⊢
    omega

/-! ## one section with a length: the two ways its decoding can go -/

theorem R.bind_eq_of_ok {α β : Type} {f : R α} {g : α → R β} {x r : Bits} {a : α} (h : f x = .ok (a, r)) :
    R.bind f g x = g a r := by
  simp only [R.bind, h]

theorem R.bind_eq_of_error {α β : Type} {f : R α} {g : α → R β} {x : Bits} {e : Err} (h : f x = .error e) :
    R.bind f g x = .error e := by
  simp only [R.bind, h]

theorem lenOK_cons {s : SectionLayout} (h : s.lenOK = true) :
    ∃ p ps, s.params = p :: ps ∧ p.name = "section_length" ∧ p.nbits = 24 ∧ p.ty = .uint ∧ p.expected = none ∧
      ps.all Param.readOK = true := by
  unfold SectionLayout.lenOK at h
  cases hp : s.params with
  | nil => rw [hp] at h; cases h
  | cons p ps =>
    rw [hp] at h
    simp only [Bool.and_eq_true, beq_iff_eq, Option.isNone_iff_eq_none] at h
    exact ⟨p, ps, rfl, h.1.1.1.1, h.1.1.1.2, h.1.1.2, h.1.2, h.2⟩

theorem lenOK_hasParam {s : SectionLayout} (h : s.lenOK = true) : s.hasParam "section_length" = true := by
  obtain ⟨p, ps, hps, hname, _⟩ := lenOK_cons h
  simp [SectionLayout.hasParam, hps, hname]

theorem errLib_finishSection {α : Type} (s : SectionLayout) (st : DecSt α)
    (hl : ∃ v, st.acc.lookup "section_length" = some (PVal.int v)) : R.ErrLib (finishSection s st) := by
  obtain ⟨v, hv⟩ := hl
  have hs := secLen_of_lookup hv
  unfold finishSection
  split
  · refine R.ErrLib.bind (R.ErrLib.lift _ (by intro e he; rw [hs] at he; cases he)) fun _ d _ _ => ?_
    split
    · exact R.ErrLib.map _ (errLib_readBits _)
    · split
      · exact R.ErrLib.fail _ rfl
      · exact R.ErrLib.pure _
  · exact R.ErrLib.pure _

/-- the first parameter of a section with a length: what `decValue` reads is the 24-bit unsigned value -/
theorem decValue_len_first {α : Type} (dc : DataCoder α) (st : DecSt α) (p : Param) (hnb : p.nbits = 24) (hty : p.ty = .uint)
    (x : Bits) :
    R.counted (decValue dc st p) x =
      (match readUInt 24 x with
       | .error e => .error e
       | .ok (d, r) => .ok (((PVal.int (Int.ofNat d), none), x.length - r.length), r)) := by
  simp only [R.counted, decValue, hty, hnb, if_neg (by decide : ¬ (24 : Nat) = 0), readTyped, R.map, R.bind, R.pure]
  cases hr : readUInt 24 x with
  | error e => rfl
  | ok a => obtain ⟨d, r⟩ := a; rfl

/-- what the decoding of a section with a length comes to: either it fails before the tail of `process_section`, with
    a library error; or all parameters were read, `used` is at least the fixed part, the declared length `d` is
    what the first 24 bits say, and the result is the tail's (`finishSection`) -/
theorem decSection_cases {α : Type} (dc : DataCoder α) (s : SectionLayout)
    (hdc : HasData s.params → ∀ reg, R.ErrLib (dc.dec reg))
    (hs : s.lenOK = true) (reg : Registry) (start : Nat) (x : Bits) :
    (∃ e, decSection dc s reg start x = .error e ∧ e.isLib = true) ∨
    (∃ (d : Nat) (r1 : Bits) (st' : DecSt α) (r3 : Bits), readUInt 24 x = .ok (d, r1) ∧
        fixedBits s.params ≤ st'.used ∧ st'.acc.lookup "section_length" = some (PVal.int (Int.ofNat d)) ∧
        decSection dc s reg start x = finishSection s st' r3) := by
  obtain ⟨p, ps, hps, hname, hnb, hty, hexp, hall⟩ := lenOK_cons hs
  have hfirst := decValue_len_first dc { reg := reg, acc := [], used := 0, data := none } p hnb hty x
  unfold decSection
  rw [hps]
  cases hr : readUInt 24 x with
  | error e =>
    left
    rw [hr] at hfirst
    refine ⟨e, ?_, errLib_readUInt 24 (by decide) x e hr⟩
    rw [R.bind_eq_of_error]
    simp only [decParams]
    exact R.bind_eq_of_error hfirst
  | ok a =>
    obtain ⟨d, r1⟩ := a
    rw [hr] at hfirst
    simp only at hfirst
    have hce : checkExpected p (PVal.int (Int.ofNat d)) = .ok () := by simp only [checkExpected, hexp]
    have hlen := readUInt_len hr
    -- the state after the first parameter
    have hstep : ∀ (k : DecSt α → R (DecSection × Registry × Option α)),
        R.bind (decParams dc start (p :: ps) 0 { reg := reg, acc := [], used := 0, data := none }) k x =
        R.bind (decParams dc start ps (0 + p.nbits)
          { reg := if p.asProperty then (p.name, { val := PVal.int (Int.ofNat d), nbits := p.nbits, pos := start + 0 }) :: reg else reg,
            acc := [] ++ [(p.name, PVal.int (Int.ofNat d))], used := 0 + (x.length - r1.length), data := none }) k r1 := by
      intro k
      simp only [decParams, R.bind, hfirst, hce, R.lift, R.pure]
    rw [hstep]
    cases hq : decParams dc start ps (0 + p.nbits)
          { reg := if p.asProperty then (p.name, { val := PVal.int (Int.ofNat d), nbits := p.nbits, pos := start + 0 }) :: reg else reg,
            acc := [] ++ [(p.name, PVal.int (Int.ofNat d))], used := 0 + (x.length - r1.length), data := none } r1 with
    | error e =>
      left
      refine ⟨e, R.bind_eq_of_error hq, ?_⟩
      exact errLib_decParams dc start ps _ _ (fun ⟨q, hq, h⟩ => hdc ⟨q, by rw [hps]; exact List.mem_cons_of_mem _ hq, h⟩)
        hall ⟨Int.ofNat d, by simp [hname]⟩ r1 e hq
    | ok b =>
      obtain ⟨st', r3⟩ := b
      right
      obtain ⟨hu, m, hm⟩ := decParams_used dc start ps _ _ _ _ _ hall hq
      simp only at hu hm
      refine ⟨d, r1, st', r3, rfl, ?_, ?_, R.bind_eq_of_ok hq⟩
      · simp only [fixedBits, List.map_cons, List.sum_cons, hnb] at hu ⊢
        omega
      · rw [hm]
        exact lookup_append_some (by simp [hname])

/-- the driver's raw data reader raises bit-read errors only -/
theorem errLib_rawCoder (n : Nat) : ∀ reg, R.ErrLib ((rawCoder n).dec reg) := fun _ => errLib_readBits n

/-- a data coder built on `decodeData` raises library errors only as far as `decodeData` does (it does NOT in general:
    finding F15 — a garbled template or garbled data make the walk raise `other`; which is why the two theorems above
    carry the hypothesis) -/
theorem errLib_tableCoder (T : Tables)
    (h : ∀ tmpl c n bits e, decodeData tmpl c n bits = .error e → e.isLib = true)
    (hb : ∀ ids e, build T ids = .error e → e.isLib = true)
    (reg : Registry)
    (hreg : ∃ ids comp n a b c d e f, reg.get? "unexpanded_descriptors" = some { val := .descs ids, nbits := a, pos := b } ∧
      reg.get? "is_compressed" = some { val := .bool comp, nbits := c, pos := d } ∧
      reg.get? "n_subsets" = some { val := .int n, nbits := e, pos := f }) :
    R.ErrLib ((Stream.tableCoder T).dec reg) := by
  obtain ⟨ids, comp, n, a, b, c, d, e, f, h1, h2, h3⟩ := hreg
  intro x err hx
  simp only [Stream.tableCoder, h1, h2, h3] at hx
  cases hbt : build T ids with
  | error e' => rw [hbt] at hx; cases hx; exact hb ids _ hbt
  | ok tmpl => rw [hbt] at hx; exact h tmpl comp n.toNat x err hx

/-! ## the sections of a successful run, one by one -/

/-- a successful run of the section loop, section by section: for every section `sec` it decoded, the run on `p ++ y`
    (`p` = the bits of the sections before `sec`) arrives — for EVERY `y` — at the loop state in which `sec`'s layout
    was configured and found present; what follows `p` does not matter for getting there -/
theorem decLoop_visits {α : Type} (L : Layouts) (dc : DataCoder α) (hdc : ∀ reg, Local (dc.dec reg)) (o : DecOpts) :
    ∀ (fuel idx : Nat) (reg : Registry) (out : DecOut α) (x : Bits) (out' : DecOut α) (r : Bits),
      decLoop L dc o fuel idx reg out x = .ok (out', r) →
      ∃ news : List DecSection, out'.sections = out.sections ++ news ∧
        ∀ (n1 : List DecSection) (sec : DecSection) (n2 : List DecSection), news = n1 ++ sec :: n2 →
          ∃ (p q : Bits) (fuel' idx' : Nat) (reg' : Registry) (outk : DecOut α) (s0 : SectionLayout),
            x = p ++ q ∧ p.length = (n1.map (·.nbits)).sum ∧
            getCfg L idx' reg'.editionKey = .ok s0 ∧ isPresent reg' (o.transform s0) idx' = .ok true ∧
            sec.index = (o.transform s0).index ∧
            sec.params.map (·.1) = (o.transform s0).params.map (·.name) ∧
            ∀ y, decLoop L dc o fuel idx reg out (p ++ y) = decLoop L dc o (fuel' + 1) idx' reg' outk y := by
  intro fuel
  induction fuel with
  | zero => intro idx reg out x out' r h; simp only [decLoop, R.fail] at h; cases h
  | succ fuel ih =>
    intro idx reg out x out' r h
    simp only [decLoop, R.bind] at h
    split at h
    · cases h
    rename_i s0 r1 hl1
    obtain ⟨hcfg, rfl⟩ := lift_ok hl1
    split at h
    · cases h
    rename_i present r2 hl2
    obtain ⟨hpres, rfl⟩ := lift_ok hl2
    cases present with
    | false =>
      simp only [Bool.not_false, if_true] at h
      obtain ⟨news, hnews, hv⟩ := ih _ _ _ _ _ _ h
      refine ⟨news, hnews, fun n1 sec n2 hsplit => ?_⟩
      obtain ⟨p, q, fuel', idx', reg', outk, s0', hx, hpl, hc, hp, hi, hn, heq⟩ := hv n1 sec n2 hsplit
      refine ⟨p, q, fuel', idx', reg', outk, s0', hx, hpl, hc, hp, hi, hn, fun y => ?_⟩
      rw [← heq y]
      simp only [decLoop, R.bind, hcfg, hpres, R.lift, R.pure, Bool.not_false, if_true]
    | true =>
      simp only [Bool.not_true, Bool.false_eq_true, if_false] at h
      cases hsec : decSection dc (o.transform s0) reg out.nbits r2 with
      | error e =>
        simp only [R.bind, hsec] at h
        cases h
      | ok res =>
      obtain ⟨⟨sec1, reg1, d⟩, r3⟩ := res
      simp only [R.bind, hsec] at h
      obtain ⟨p1, hx, hn, hidx, hnames, _, hp1⟩ := decSection_local dc hdc _ _ _ _ _ _ _ _ hsec
      -- the current state is where `sec1` is decoded
      have here : ∀ y, decLoop L dc o (fuel + 1) idx reg out ([] ++ y) = decLoop L dc o (fuel + 1) idx reg out y :=
        fun y => rfl
      split at h
      · rename_i hend
        simp only [R.pure] at h
        cases h
        refine ⟨[sec1], rfl, fun n1 sec n2 hsplit => ?_⟩
        cases n1 with
        | nil =>
          simp only [List.nil_append, List.cons.injEq] at hsplit
          obtain ⟨rfl, _⟩ := hsplit
          exact ⟨[], r2, fuel, idx, reg, out, s0, rfl, rfl, hcfg, hpres, hidx, hnames, here⟩
        | cons a n1' =>
          simp only [List.cons_append, List.cons.injEq] at hsplit
          have := hsplit.2
          cases n1' <;> simp at this
      · rename_i hend
        obtain ⟨news, hnews, hv⟩ := ih _ _ _ _ _ _ h
        refine ⟨sec1 :: news, by rw [hnews]; simp, fun n1 sec n2 hsplit => ?_⟩
        cases n1 with
        | nil =>
          simp only [List.nil_append, List.cons.injEq] at hsplit
          obtain ⟨rfl, _⟩ := hsplit
          exact ⟨[], r2, fuel, idx, reg, out, s0, rfl, rfl, hcfg, hpres, hidx, hnames, here⟩
        | cons a n1' =>
          simp only [List.cons_append, List.cons.injEq] at hsplit
          obtain ⟨rfl, hrest⟩ := hsplit
          obtain ⟨p2, q, fuel', idx', reg', outk, s0', hx2, hpl, hc, hp, hi, hnm, heq⟩ := hv n1' sec n2 hrest
          refine ⟨p1 ++ p2, q, fuel', idx', reg', outk, s0', by rw [hx, hx2, List.append_assoc], ?_, hc, hp, hi, hnm, fun y => ?_⟩
          · simp only [List.length_append, List.map_cons, List.sum_cons, hpl, hn]
          · rw [← heq y]
            simp only [decLoop, R.bind, hcfg, hpres, R.lift, R.pure, Bool.not_true, Bool.false_eq_true, if_false,
              List.append_assoc, hp1 (p2 ++ y), hend]

theorem transform_index (o : DecOpts) (s : SectionLayout) : (o.transform s).index = s.index := by
  unfold DecOpts.transform SectionLayout.infoOnly SectionLayout.noExpect
  cases o.infoOnly <;> cases o.ignoreExpect <;> simp <;> split <;> rfl

end Bufr
