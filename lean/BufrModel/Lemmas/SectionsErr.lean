/-
  Which errors the section decoder can raise, and how many bits the parameters of a section take whatever its
  declared length says (used by `Props/C12Length.lean`).

  `R.ErrLib f`: every error of the reader `f` is a LIBRARY error (`Err.isLib`: BitReadError, UnknownDescriptor,
  PyBufrKitError …), never `Err.other` (ValueError, AssertionError, IndexError …).  The section layer has three
  places where `other` could come from: a zero or negative width handed to the bit reader (`uint:0`, `int:1`,
  `bin:-8` — finding F14), a `section_length` that is not there when a rest-of-section parameter or the descriptor
  list asks for it, and the data coder.  `Param.readOK` / `SectionLayout.lenOK` are the (decidable) conditions on a
  layout that exclude the first two; the third is a hypothesis on the data coder.
-/
import BufrModel.Msg.Sections
import BufrModel.Lemmas.Bits
namespace Bufr

/-- every error of the reader is a library error -/
def R.ErrLib {α : Type} (f : R α) : Prop := ∀ x e, f x = .error e → e.isLib = true

namespace R.ErrLib

theorem pure {α : Type} (a : α) : R.ErrLib (R.pure a) := by
  intro x e h; simp only [R.pure] at h; cases h

theorem fail {α : Type} (e : Err) (he : e.isLib = true) : R.ErrLib (R.fail e : R α) := by
  intro x e' h; simp only [R.fail] at h; cases h; exact he

theorem lift {α : Type} (v : Except Err α) (hv : ∀ e, v = .error e → e.isLib = true) : R.ErrLib (R.lift v) := by
  cases v with
  | ok a => exact pure a
  | error e => exact fail e (hv e rfl)

/-- the continuation only has to behave for the values the first reader can return -/
theorem bind {α β : Type} {f : R α} {g : α → R β} (hf : R.ErrLib f)
    (hg : ∀ x a r, f x = .ok (a, r) → R.ErrLib (g a)) : R.ErrLib (R.bind f g) := by
  intro x e h
  simp only [R.bind] at h
  split at h
  · rename_i e' hfx
    cases h
    exact hf x _ hfx
  · rename_i a r hfx
    exact hg x a r hfx r e h

theorem map {α β : Type} {f : R α} (k : α → β) (hf : R.ErrLib f) : R.ErrLib (R.map k f) :=
  bind hf fun _ a _ _ => pure (k a)

theorem counted {α : Type} {f : R α} (hf : R.ErrLib f) : R.ErrLib (R.counted f) := by
  intro x e h
  simp only [R.counted] at h
  split at h
  · rename_i e' hfx
    cases h
    exact hf x _ hfx
  · cases h

end R.ErrLib

theorem errLib_readBits (n : Nat) : R.ErrLib (readBits n) := by
  intro x e h
  simp only [readBits] at h
  split at h
  · cases h; rfl
  · cases h

theorem errLib_readUInt (n : Nat) (hn : n ≠ 0) : R.ErrLib (readUInt n) := by
  intro x e h
  simp only [readUInt, hn, if_false] at h
  split at h
  · rename_i e' hb
    cases h
    exact errLib_readBits n x _ hb
  · cases h

theorem errLib_readBool : R.ErrLib readBool := by
  intro x e h
  cases x with
  | nil => simp only [readBool] at h; cases h; rfl
  | cons b r => simp only [readBool] at h; cases h

theorem errLib_readInt (n : Nat) (hn : 2 ≤ n) : R.ErrLib (readInt n) := by
  intro x e h
  have h0 : n ≠ 0 := by omega
  simp only [readInt, h0, if_false] at h
  split at h
  · rename_i e' hb
    cases h
    exact errLib_readBool x _ hb
  · rename_i s r hb
    split at h
    · rename_i e' hu
      cases h
      exact errLib_readUInt (n - 1) (by omega) r _ hu
    · cases h

theorem errLib_readBytes (k : Nat) : R.ErrLib (readBytes k) := by
  intro x e h
  simp only [readBytes] at h
  split at h
  · rename_i e' hb
    cases h
    exact errLib_readBits _ x _ hb
  · cases h

theorem errLib_readDescs : ∀ n, R.ErrLib (readDescs n)
  | 0 => R.ErrLib.pure _
  | n + 1 => by
    unfold readDescs
    exact R.ErrLib.bind (errLib_readUInt 2 (by decide)) fun _ _ _ _ =>
      R.ErrLib.bind (errLib_readUInt 6 (by decide)) fun _ _ _ _ =>
        R.ErrLib.bind (errLib_readUInt 8 (by decide)) fun _ _ _ _ => R.ErrLib.map _ (errLib_readDescs n)

/-- what the bit reader is asked for is a width it accepts: an unsigned field of at least one bit, a signed one of
    at least two, a flag of one bit, whole octets; descriptor list and template data have no width of their own.
    (A `bin` / `bytes` parameter may have width 0 = "the rest of the section".) -/
def Param.readOK (p : Param) : Bool :=
  match p.ty with
  | .uint => p.nbits != 0
  | .int => 2 ≤ p.nbits
  | .bool => p.nbits == 1
  | .bin => true
  | .bytes => p.nbits % 8 == 0
  | .descriptors => p.nbits == 0
  | .templateData => p.nbits == 0

/-- the section length comes first, 24 bits unsigned without an expected value; every other parameter is `readOK` -/
def SectionLayout.lenOK (s : SectionLayout) : Bool :=
  match s.params with
  | p :: ps => p.name == "section_length" && p.nbits == 24 && p.ty == .uint && p.expected.isNone && ps.all Param.readOK
  | [] => false

/-- the bits the parameters of a section take whatever the declared length says -/
def fixedBits (ps : List Param) : Nat := (ps.map (·.nbits)).sum

theorem lookup_append_some {β : Type} {k : String} {l m : List (String × β)} {v : β} (h : l.lookup k = some v) :
    (l ++ m).lookup k = some v := by
  induction l with
  | nil => simp [List.lookup] at h
  | cons a l ih =>
    obtain ⟨k', v'⟩ := a
    cases hk : k == k' with
    | true => simp only [List.cons_append, List.lookup, hk] at h ⊢; exact h
    | false => simp only [List.cons_append, List.lookup, hk] at h ⊢; exact ih h

theorem secLen_of_lookup {acc : List (String × PVal)} {v : Int} (h : acc.lookup "section_length" = some (PVal.int v)) :
    secLen acc = .ok v.toNat := by
  simp only [secLen, h]

/-! ## errors -/

theorem errLib_readTyped_fixed (p : Param) (hp : p.readOK = true) (h0 : p.nbits ≠ 0)
    (hd : p.ty ≠ .descriptors) (ht : p.ty ≠ .templateData) : R.ErrLib (readTyped p.ty p.nbits) := by
  unfold Param.readOK at hp
  cases hty : p.ty <;> simp only [hty] at hp hd ht <;> simp only [readTyped]
  · exact R.ErrLib.map _ (errLib_readUInt _ h0)
  · exact R.ErrLib.map _ (errLib_readInt _ (by simpa using hp))
  · exact R.ErrLib.map _ errLib_readBool
  · exact R.ErrLib.map _ (errLib_readBits _)
  · exact R.ErrLib.map _ (errLib_readBytes _)
  · exact absurd rfl hd
  · exact absurd rfl ht

/-- a rest-of-section parameter (`nbits = 0`): under `readOK` it is `bin` or `bytes`, which take any width -/
theorem errLib_readTyped_rest (p : Param) (hp : p.readOK = true) (h0 : p.nbits = 0)
    (hd : p.ty ≠ .descriptors) (ht : p.ty ≠ .templateData) (n : Nat) : R.ErrLib (readTyped p.ty n) := by
  unfold Param.readOK at hp
  cases hty : p.ty <;> simp only [hty, h0] at hp hd ht <;> simp only [readTyped]
  · simp at hp
  · simp at hp
  · exact R.ErrLib.map _ errLib_readBool
  · exact R.ErrLib.map _ (errLib_readBits _)
  · exact R.ErrLib.map _ (errLib_readBytes _)
  · exact absurd rfl hd
  · exact absurd rfl ht

theorem errLib_decValue {α : Type} (dc : DataCoder α) (hdc : ∀ reg, R.ErrLib (dc.dec reg)) (st : DecSt α) (p : Param)
    (hp : p.readOK = true) (hl : ∃ v, st.acc.lookup "section_length" = some (PVal.int v)) :
    R.ErrLib (decValue dc st p) := by
  obtain ⟨v, hv⟩ := hl
  have hs := secLen_of_lookup hv
  unfold decValue
  split
  · exact R.ErrLib.bind (R.ErrLib.lift _ (by intro e he; rw [hs] at he; cases he)) fun _ _ _ _ =>
      R.ErrLib.map _ (errLib_readDescs _)
  · exact R.ErrLib.map _ (hdc _)
  · rename_i ty hd ht
    split
    · rename_i h0
      split
      · rename_i hb
        exact R.ErrLib.map _ (errLib_readTyped_rest p hp h0 (by intro h; exact hd h) (by intro h; exact ht h) 0)
      · exact R.ErrLib.bind (R.ErrLib.lift _ (by intro e he; rw [hs] at he; cases he)) fun _ d _ _ => by
          split
          · exact R.ErrLib.fail _ rfl
          · exact R.ErrLib.map _ (errLib_readTyped_rest p hp h0 (by intro h; exact hd h) (by intro h; exact ht h) _)
    · rename_i h0
      exact R.ErrLib.map _ (errLib_readTyped_fixed p hp h0 (by intro h; exact hd h) (by intro h; exact ht h))

theorem checkExpected_error {p : Param} {v : PVal} {e : Err} (h : checkExpected p v = .error e) : e = .lib := by
  unfold checkExpected at h
  split at h
  · cases h
  · split at h
    · cases h
    · cases h; rfl

/-- the parameters of a section after its `section_length` has been read: every error is a library error -/
theorem errLib_decParams {α : Type} (dc : DataCoder α) (hdc : ∀ reg, R.ErrLib (dc.dec reg)) (start : Nat) :
    ∀ (ps : List Param) (off : Nat) (st : DecSt α), ps.all Param.readOK = true →
      (∃ v, st.acc.lookup "section_length" = some (PVal.int v)) → R.ErrLib (decParams dc start ps off st) := by
  intro ps
  induction ps with
  | nil => intro off st _ _; simp only [decParams]; exact R.ErrLib.pure _
  | cons p ps ih =>
    intro off st hall hl
    simp only [List.all_cons, Bool.and_eq_true] at hall
    simp only [decParams]
    refine R.ErrLib.bind (R.ErrLib.counted (errLib_decValue dc hdc st p hall.1 hl)) fun _ a _ _ => ?_
    obtain ⟨⟨v, d⟩, n⟩ := a
    refine R.ErrLib.bind (R.ErrLib.lift _ (fun e he => by rw [checkExpected_error he]; rfl)) fun _ _ _ _ => ?_
    apply ih _ _ hall.2
    obtain ⟨w, hw⟩ := hl
    exact ⟨w, lookup_append_some hw⟩

/-! ## bits consumed -/

theorem readBits_len {n : Nat} {x b r : Bits} (h : readBits n x = .ok (b, r)) : x.length = n + r.length := by
  simp only [readBits] at h
  split at h
  · cases h
  · cases h
    simp only [List.length_drop]
    omega

theorem readUInt_len {n : Nat} {x r : Bits} {v : Nat} (h : readUInt n x = .ok (v, r)) : x.length = n + r.length := by
  simp only [readUInt] at h
  split at h
  · cases h
  · split at h
    · cases h
    · rename_i b r' hb
      cases h
      exact readBits_len hb

theorem readBool_len {x r : Bits} {v : Bool} (h : readBool x = .ok (v, r)) : x.length = 1 + r.length := by
  cases x with
  | nil => simp only [readBool] at h; cases h
  | cons b t => simp only [readBool] at h; cases h; simp; omega

theorem readInt_len {n : Nat} {x r : Bits} {v : Int} (h : readInt n x = .ok (v, r)) : x.length = n + r.length := by
  simp only [readInt] at h
  split at h
  · cases h
  · rename_i hn
    split at h
    · cases h
    · rename_i s r1 hb
      split at h
      · cases h
      · rename_i m r2 hu
        cases h
        have h1 := readBool_len hb
        have h2 := readUInt_len hu
        omega

theorem readBytes_len {k : Nat} {x r : Bits} {v : List UInt8} (h : readBytes k x = .ok (v, r)) :
    x.length = 8 * k + r.length := by
  simp only [readBytes] at h
  split at h
  · cases h
  · rename_i b r' hb
    cases h
    exact readBits_len hb

theorem map_ok {α β : Type} {k : α → β} {f : R α} {x r : Bits} {b : β} (h : R.map k f x = .ok (b, r)) :
    ∃ a, f x = .ok (a, r) ∧ b = k a := by
  simp only [R.map, R.bind] at h
  split at h
  · cases h
  · rename_i a r' hf
    simp only [R.pure] at h
    cases h
    exact ⟨a, hf, rfl⟩

/-- a fixed-width parameter takes at least its width -/
theorem readTyped_len (p : Param) (hp : p.readOK = true) {x r : Bits} {v : PVal}
    (h : readTyped p.ty p.nbits x = .ok (v, r)) : p.nbits + r.length ≤ x.length := by
  unfold Param.readOK at hp
  cases hty : p.ty <;> simp only [hty] at hp h <;> simp only [readTyped] at h
  · obtain ⟨a, ha, _⟩ := map_ok h
    have := readUInt_len ha; omega
  · obtain ⟨a, ha, _⟩ := map_ok h
    have := readInt_len ha; omega
  · obtain ⟨a, ha, _⟩ := map_ok h
    have := readBool_len ha
    have : p.nbits = 1 := by simpa using hp
    omega
  · obtain ⟨a, ha, _⟩ := map_ok h
    have := readBits_len ha; omega
  · obtain ⟨a, ha, _⟩ := map_ok h
    have := readBytes_len ha
    have : p.nbits % 8 = 0 := by simpa using hp
    omega
  · simp only [R.fail] at h; cases h
  · simp only [R.fail] at h; cases h

theorem decValue_len {α : Type} (dc : DataCoder α) (st : DecSt α) (p : Param) (hp : p.readOK = true)
    {x r : Bits} {v : PVal × Option α} {n : Nat} (h : R.counted (decValue dc st p) x = .ok ((v, n), r)) :
    p.nbits ≤ n := by
  by_cases h0 : p.nbits = 0
  · omega
  simp only [R.counted] at h
  split at h
  · cases h
  rename_i a r1 hv
  cases h
  have hd : p.ty ≠ .descriptors := by
    intro hty; unfold Param.readOK at hp; simp only [hty] at hp; exact h0 (by simpa using hp)
  have ht : p.ty ≠ .templateData := by
    intro hty; unfold Param.readOK at hp; simp only [hty] at hp; exact h0 (by simpa using hp)
  have key : ∀ a', R.map (fun v => ((v, none) : PVal × Option α)) (readTyped p.ty p.nbits) x = .ok (a', r) →
      p.nbits ≤ x.length - r.length := by
    intro a' hm
    obtain ⟨a, ha, _⟩ := map_ok hm
    have := readTyped_len p hp ha
    omega
  cases hty : p.ty <;> simp only [decValue, hty, h0, if_false] at hv
  · exact key _ (by rw [hty]; exact hv)
  · exact key _ (by rw [hty]; exact hv)
  · exact key _ (by rw [hty]; exact hv)
  · exact key _ (by rw [hty]; exact hv)
  · exact key _ (by rw [hty]; exact hv)
  · exact absurd hty hd
  · exact absurd hty ht

/-- the parameters of a section: `used` grows at least by their fixed widths, and what was recorded is kept -/
theorem decParams_used {α : Type} (dc : DataCoder α) (start : Nat) :
    ∀ (ps : List Param) (off : Nat) (st : DecSt α) (x : Bits) (st' : DecSt α) (r : Bits),
      ps.all Param.readOK = true → decParams dc start ps off st x = .ok (st', r) →
      st.used + fixedBits ps ≤ st'.used ∧ ∃ m, st'.acc = st.acc ++ m := by
  intro ps
  induction ps with
  | nil =>
    intro off st x st' r _ h
    simp only [decParams, R.pure] at h
    cases h
    exact ⟨by simp [fixedBits], [], by simp⟩
  | cons q qs ih =>
    intro off st x st' r hall h
    simp only [List.all_cons, Bool.and_eq_true] at hall
    simp only [decParams, R.bind] at h
    split at h
    · cases h
    rename_i vdn r1 hc
    obtain ⟨⟨v, d⟩, n⟩ := vdn
    simp only at h
    split at h
    · cases h
    rename_i u r2 hl
    have hn := decValue_len dc st q hall.1 hc
    obtain ⟨hu, m, hm⟩ := ih _ _ _ _ _ hall.2 h
    simp only at hu hm
    refine ⟨?_, (q.name, v) :: m, by rw [hm]; simp⟩
    simp only [fixedBits, List.map_cons, List.sum_cons] at hu ⊢
    omega

end Bufr
