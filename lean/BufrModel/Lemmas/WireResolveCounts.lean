/-
  `Spec.sameCountsList` (every subset carries the delayed replication counts of subset 0) passes from the RAW tree of the
  wiring pass to the RESOLVED tree every reader sees (`Wired.tree`: the attributes attached through bit-map links put
  under their owners): attachment adds value nodes only, and a value node asks nothing of the counts beyond its own
  attributes.  (The converse is `sameCountsList_raw`, Lemmas/WireResolve.lean.)
-/
import BufrModel.Lemmas.WireResolve
namespace Bufr.C09
open Bufr

theorem sameCountsList_iff (a b : SubsetOut) : ∀ (l : List Node),
    Spec.sameCountsList a b l = true ↔ ∀ n ∈ l, Spec.sameCounts1 a b n = true
  | [] => by rw [Spec.sameCountsList]; simp
  | x :: xs => by
    rw [Spec.sameCountsList, Bool.and_eq_true, sameCountsList_iff a b xs]
    simp

theorem mapE_mem {α β : Type} (g : α → CM β) : ∀ (l : List α) (r : List β), mapE g l = .ok r →
    ∀ y ∈ r, ∃ x ∈ l, g x = .ok y
  | [], r, h, y, hy => by rw [mapE] at h; cases h; cases hy
  | x :: xs, r, h, y, hy => by
    rw [mapE] at h
    cases hx : g x with
    | error e => rw [hx] at h; cases h
    | ok b =>
      rw [hx] at h
      dsimp only at h
      cases hr : mapE g xs with
      | error e => rw [hr] at h; cases h
      | ok bs =>
        rw [hr] at h
        cases h
        rw [List.mem_cons] at hy
        rcases hy with rfl | hy
        · exact ⟨x, by simp, hx⟩
        · obtain ⟨x', hx', e⟩ := mapE_mem g xs bs hr y hy
          exact ⟨x', by simp [hx'], e⟩

theorem tabFor_mem {tab : List (Nat × Node)} {i : Nat} {n : Node} (h : n ∈ tabFor tab i) : ∃ p ∈ tab, p.2 = n := by
  unfold tabFor at h
  obtain ⟨p, hp, rfl⟩ := List.mem_map.mp h
  exact ⟨p, by simpa using (List.mem_filter.mp hp).1, rfl⟩

theorem resolveV_noval (tab : List (Nat × Node)) (f id : Nat) : resolveV tab (f + 1) (.noval id) = .ok (.noval id) := rfl
theorem resolveV_seq (tab : List (Nat × Node)) (f id : Nat) (ms : List Node) :
    resolveV tab (f + 1) (.seq id ms) = .ok (.seq id ms) := rfl
theorem resolveV_fixedRep (tab : List (Nat × Node)) (f id n : Nat) (ms : List Node) :
    resolveV tab (f + 1) (.fixedRep id n ms) = .ok (.fixedRep id n ms) := rfl
theorem resolveV_delayedRep (tab : List (Nat × Node)) (f id n : Nat) (fc : Node) (ms : List Node) :
    resolveV tab (f + 1) (.delayedRep id n fc ms) = .ok (.delayedRep id n fc ms) := rfl

/-- resolving a node whose own attributes respect the counts, with a table of such nodes, gives such a node -/
theorem resolveV_sameCounts (a b : SubsetOut) (tab : List (Nat × Node))
    (hT : ∀ p ∈ tab, Spec.sameCounts1 a b p.2 = true) : ∀ (fuel : Nat) (n r : Node),
    Spec.sameCounts1 a b n = true → resolveV tab fuel n = .ok r → Spec.sameCounts1 a b r = true
  | 0, n, r, _, h => by rw [resolveV] at h; cases h
  | f + 1, .value k i own, r, hn, h => by
    rw [resolveV] at h
    cases h1 : mapE (resolveV tab f) own with
    | error e => rw [h1] at h; cases h
    | ok as1 =>
      rw [h1] at h
      dsimp only at h
      cases h2 : mapE (resolveV tab f) (tabFor tab i) with
      | error e => rw [h2] at h; cases h
      | ok as2 =>
        rw [h2] at h
        cases h
        rw [Spec.sameCounts1] at hn ⊢
        rw [sameCountsList_iff] at hn ⊢
        intro y hy
        rw [List.mem_append] at hy
        rcases hy with hy | hy
        · obtain ⟨x, hx, e⟩ := mapE_mem _ _ _ h1 y hy
          exact resolveV_sameCounts a b tab hT f x y (hn x hx) e
        · obtain ⟨x, hx, e⟩ := mapE_mem _ _ _ h2 y hy
          obtain ⟨p, hp, rfl⟩ := tabFor_mem hx
          exact resolveV_sameCounts a b tab hT f p.2 y (hT p hp) e
  | f + 1, .noval id, r, hn, h => by rw [resolveV_noval] at h; cases h; exact hn
  | f + 1, .seq id ms, r, hn, h => by rw [resolveV_seq] at h; cases h; exact hn
  | f + 1, .fixedRep id n ms, r, hn, h => by rw [resolveV_fixedRep] at h; cases h; exact hn
  | f + 1, .delayedRep id n fc ms, r, hn, h => by rw [resolveV_delayedRep] at h; cases h; exact hn

mutual
theorem resolveList_sameCounts (a b : SubsetOut) (tab : List (Nat × Node)) (fuel : Nat)
    (hT : ∀ p ∈ tab, Spec.sameCounts1 a b p.2 = true) : ∀ (raw res : List Node),
    resolveList tab fuel raw = .ok res → Spec.sameCountsList a b raw = true → Spec.sameCountsList a b res = true
  | [], res, h, _ => by rw [resolveList] at h; cases h; rw [Spec.sameCountsList]
  | n :: ns, res, h, hs => by
    rw [resolveList] at h
    cases h1 : resolve1 tab fuel n with
    | error e => rw [h1] at h; cases h
    | ok n' =>
      rw [h1] at h
      dsimp only at h
      cases h2 : resolveList tab fuel ns with
      | error e => rw [h2] at h; cases h
      | ok ns' =>
        rw [h2] at h
        cases h
        rw [Spec.sameCountsList, Bool.and_eq_true] at hs
        rw [Spec.sameCountsList, resolve1_sameCounts a b tab fuel hT n n' h1 hs.1,
          resolveList_sameCounts a b tab fuel hT ns ns' h2 hs.2]
        rfl

theorem resolve1_sameCounts (a b : SubsetOut) (tab : List (Nat × Node)) (fuel : Nat)
    (hT : ∀ p ∈ tab, Spec.sameCounts1 a b p.2 = true) : ∀ (n n' : Node),
    resolve1 tab fuel n = .ok n' → Spec.sameCounts1 a b n = true → Spec.sameCounts1 a b n' = true
  | .value k i own, n', h, hs => by
    rw [resolve1] at h
    exact resolveV_sameCounts a b tab hT fuel _ n' hs h
  | .noval id, n', h, hs => by rw [resolve1] at h; cases h; exact hs
  | .seq id ms, n', h, hs => by
    rw [resolve1] at h
    cases h1 : resolveList tab fuel ms with
    | error e => rw [h1] at h; cases h
    | ok ms' =>
      rw [h1] at h
      cases h
      rw [Spec.sameCounts1] at hs ⊢
      exact resolveList_sameCounts a b tab fuel hT ms ms' h1 hs
  | .fixedRep id n ms, n', h, hs => by
    rw [resolve1] at h
    cases h1 : resolveList tab fuel ms with
    | error e => rw [h1] at h; cases h
    | ok ms' =>
      rw [h1] at h
      cases h
      rw [Spec.sameCounts1] at hs ⊢
      exact resolveList_sameCounts a b tab fuel hT ms ms' h1 hs
  | .delayedRep id n fc ms, n', h, hs => by
    rw [resolve1] at h
    cases hf : resolveV tab fuel fc with
    | error e => rw [hf] at h; cases h
    | ok fc' =>
      rw [hf] at h
      dsimp only at h
      cases h1 : resolveList tab fuel ms with
      | error e => rw [h1] at h; cases h
      | ok ms' =>
        rw [h1] at h
        cases h
        cases fuel with
        | zero => rw [resolveV] at hf; cases hf
        | succ f =>
          cases fc with
          | value k i own =>
            rw [Spec.sameCounts1, Bool.and_eq_true, Bool.and_eq_true] at hs
            have hv : Spec.sameCounts1 a b (.value k i own) = true := by rw [Spec.sameCounts1]; exact hs.1.2
            have hv' := resolveV_sameCounts a b tab hT (f + 1) _ fc' hv hf
            rw [resolveV] at hf
            cases g1 : mapE (resolveV tab f) own with
            | error e => rw [g1] at hf; cases hf
            | ok as1 =>
              rw [g1] at hf
              dsimp only at hf
              cases g2 : mapE (resolveV tab f) (tabFor tab i) with
              | error e => rw [g2] at hf; cases hf
              | ok as2 =>
                rw [g2] at hf
                cases hf
                rw [Spec.sameCounts1] at hv'
                rw [Spec.sameCounts1, hs.1.1, hv', resolveList_sameCounts a b tab (f + 1) hT ms ms' h1 hs.2]
                rfl
          | noval x =>
            rw [resolveV_noval] at hf; cases hf
            simp only [Spec.sameCounts1] at hs ⊢
            exact resolveList_sameCounts a b tab (f + 1) hT ms ms' h1 hs
          | seq x y =>
            rw [resolveV_seq] at hf; cases hf
            simp only [Spec.sameCounts1] at hs ⊢
            exact resolveList_sameCounts a b tab (f + 1) hT ms ms' h1 hs
          | fixedRep x y z =>
            rw [resolveV_fixedRep] at hf; cases hf
            simp only [Spec.sameCounts1] at hs ⊢
            exact resolveList_sameCounts a b tab (f + 1) hT ms ms' h1 hs
          | delayedRep x y z u =>
            rw [resolveV_delayedRep] at hf; cases hf
            simp only [Spec.sameCounts1] at hs ⊢
            exact resolveList_sameCounts a b tab (f + 1) hT ms ms' h1 hs
end

end Bufr.C09
