/-
  Helper lemmas for C09, nested text: `subsets_nested_text_to_flat_json` run over the lines rendered for a
  resolved node tree appends exactly the values at the tree's flat indices (`idxList` of the raw tree), in order.
-/
import BufrModel.Lemmas.TextLines
namespace Bufr.C09T
open Bufr

variable (env : TextEnv) (ev : Line → Option PyLit)

/-! ### one step of the loop -/

theorem ntLoop_skip (l : Line) (rest : List Line) (data : List (List PyLit)) (h : ntClassify ev l = .skip) :
    ntLoop ev (l :: rest) data = ntLoop ev rest data := by
  rw [ntLoop, h]

theorem ntLoop_append (l : Line) (rest : List Line) (pre : List (List PyLit)) (cur : List PyLit) (x : PyLit)
    (h : ntClassify ev l = .append x) :
    ntLoop ev (l :: rest) (pre ++ [cur]) = ntLoop ev rest (pre ++ [cur ++ [x]]) := by
  rw [ntLoop, h]
  simp only [modifyLast_concat]

theorem insertBeforeLast_concat {α : Type} (x y : α) (cur : List α) : insertBeforeLast x (cur ++ [y]) = cur ++ [x, y] := by
  unfold insertBeforeLast
  simp

theorem ntLoop_insert (l : Line) (rest : List Line) (pre : List (List PyLit)) (cur : List PyLit) (x y : PyLit)
    (h : ntClassify ev l = .insert x) :
    ntLoop ev (l :: rest) (pre ++ [cur ++ [y]]) = ntLoop ev rest (pre ++ [cur ++ [x, y]]) := by
  rw [ntLoop, h]
  simp only [modifyLast_concat, insertBeforeLast_concat]

/-- every value of the subset satisfies the token hypotheses -/
def AllReprOK (o : SubsetOut) : Prop := ∀ v ∈ o.vals, ReprCore env ev v

theorem reprOK_at {o : SubsetOut} (h : AllReprOK env ev o) {i : Nat} {v : Val} (hv : o.vals[i]? = some v) : ReprCore env ev v :=
  h v (List.mem_of_getElem? hv)

/-! ### attribute lines below the first layer are skipped -/

theorem ntValue_inv {o : SubsetOut} {J : Line} {isAttr : Bool} {k : VKind} {i : Nat} {attrs : List Node} {ls : List Line}
    (h : ntValue env o J isAttr (.value k i attrs) = .ok ls) :
    ∃ d v as, o.descs[i]? = some d ∧ o.vals[i]? = some v ∧ ntAttrs env o (J ++ indent4) attrs = .ok as ∧
      ls = ntValueLine env J isAttr k d v :: as := by
  rw [ntValue] at h
  split at h
  · next d v hd hv =>
    split at h
    · cases h
    · next as has =>
      injection h with h
      exact ⟨d, v, as, hd, hv, has, h.symm⟩
  · cases h

mutual
theorem deepSkipList (o : SubsetOut) (hR : AllReprOK env ev o) :
    ∀ (as : List Node) (J : Line) (ls : List Line), deepOKList o as = true → ntAttrs env o J as = .ok ls → IndentOK J →
      ∀ (rest : List Line) (data : List (List PyLit)), ntLoop ev (ls ++ rest) data = ntLoop ev rest data
  | [], J, ls, _, h, _, rest, data => by
    rw [ntAttrs] at h; injection h with h; subst h; rfl
  | a :: as, J, ls, hok, h, hJ, rest, data => by
    rw [deepOKList, Bool.and_eq_true] at hok
    rw [ntAttrs] at h
    split at h
    · cases h
    · next x hx =>
      split at h
      · cases h
      · next xs hxs =>
        injection h with h; subst h
        rw [List.append_assoc, deepSkip1 o hR a J x hok.1 hx hJ, deepSkipList o hR as J xs hok.2 hxs hJ]

theorem deepSkip1 (o : SubsetOut) (hR : AllReprOK env ev o) :
    ∀ (a : Node) (J : Line) (ls : List Line), deepOK1 o a = true → ntValue env o J true a = .ok ls → IndentOK J →
      ∀ (rest : List Line) (data : List (List PyLit)), ntLoop ev (ls ++ rest) data = ntLoop ev rest data
  | .value k i attrs, J, ls, hok, h, hJ, rest, data => by
    obtain ⟨d, v, as, hd, hv, has, rfl⟩ := ntValue_inv env h
    rw [deepOK1, hd, Bool.and_eq_true] at hok
    have hna : d.isAssoc = false := by simpa using hok.1
    rw [List.cons_append, ntLoop_skip ev _ _ _ (classify_attr_skip env ev J k d v hJ hna (reprOK_at env ev hR hv))]
    exact deepSkipList o hR attrs (J ++ indent4) as hok.2 has (indentOK_append hJ indentOK_indent4) rest data
  | .noval _, _, _, hok, _, _, _, _ => by simp [deepOK1] at hok
  | .seq _ _, _, _, hok, _, _, _, _ => by simp [deepOK1] at hok
  | .fixedRep _ _ _, _, _, hok, _, _, _, _ => by simp [deepOK1] at hok
  | .delayedRep _ _ _ _, _, _, hok, _, _, _, _ => by simp [deepOK1] at hok
end

/-! ### the first attribute layer -/

/-- the flat indices of the first-layer attributes that carry an `A` label -/
def attrIdx (o : SubsetOut) : List Node → List Nat
  | [] => []
  | .value _ i _ :: rest =>
    (match o.descs[i]? with
     | some d => if d.isAssoc then i :: attrIdx o rest else attrIdx o rest
     | none => attrIdx o rest)
  | _ :: rest => attrIdx o rest

theorem attrIdx_append (o : SubsetOut) : ∀ (a b : List Node), attrIdx o (a ++ b) = attrIdx o a ++ attrIdx o b
  | [], b => rfl
  | .value k i as :: a, b => by
    rw [List.cons_append, attrIdx, attrIdx, attrIdx_append o a b]
    split
    · split <;> simp
    · rfl
  | .noval _ :: a, b => by simp only [List.cons_append, attrIdx, attrIdx_append o a b]
  | .seq _ _ :: a, b => by simp only [List.cons_append, attrIdx, attrIdx_append o a b]
  | .fixedRep _ _ _ :: a, b => by simp only [List.cons_append, attrIdx, attrIdx_append o a b]
  | .delayedRep _ _ _ _ :: a, b => by simp only [List.cons_append, attrIdx, attrIdx_append o a b]

/-- the lines of a first-layer attribute list put the values of the associated fields before the owner's
    value `y` (which is the last one appended), everything else is skipped -/
theorem attrs_loop (o : SubsetOut) (hR : AllReprOK env ev o) :
    ∀ (as : List Node) (J : Line) (ls : List Line), attrsTextOK o as = true → ntAttrs env o J as = .ok ls → IndentOK J →
      ∃ avs : List Val, avs.map some = (attrIdx o as).map (fun i => o.vals[i]?) ∧
        ∀ (rest : List Line) (pre : List (List PyLit)) (cur : List PyLit) (y : PyLit),
          ntLoop ev (ls ++ rest) (pre ++ [cur ++ [y]]) = ntLoop ev rest (pre ++ [cur ++ avs.map PyLit.val ++ [y]])
  | [], J, ls, _, h, _ => by
    rw [ntAttrs] at h; injection h with h; subst h
    exact ⟨[], rfl, fun rest pre cur y => by simp⟩
  | .value k i deep :: as, J, ls, hok, h, hJ => by
    rw [attrsTextOK, Bool.and_eq_true] at hok
    rw [ntAttrs] at h
    split at h
    · cases h
    · next x hx =>
      split at h
      · cases h
      · next xs hxs =>
        injection h with h; subst h
        obtain ⟨d, v, dl, hd, hv, hdl, rfl⟩ := ntValue_inv env hx
        obtain ⟨avs, hav, hloop⟩ := attrs_loop o hR as J xs hok.2 hxs hJ
        have hJ4 := indentOK_append hJ indentOK_indent4
        have hr := reprOK_at env ev hR hv
        cases hA : d.isAssoc
        · refine ⟨avs, by rw [attrIdx, hd]; simp [hA, hav], fun rest pre cur y => ?_⟩
          rw [List.append_assoc, List.cons_append, ntLoop_skip ev _ _ _ (classify_attr_skip env ev J k d v hJ hA hr),
            List.append_assoc, deepSkipList env ev o hR deep _ dl hok.1 hdl hJ4, hloop]
          simp
        · refine ⟨v :: avs, by rw [attrIdx, hd]; simp [hA, hav, hv], fun rest pre cur y => ?_⟩
          rw [List.append_assoc, List.cons_append, ntLoop_insert ev _ _ _ _ _ _ (classify_attr_insert env ev J k d v hJ hA hr),
            List.append_assoc, deepSkipList env ev o hR deep _ dl hok.1 hdl hJ4]
          have := hloop rest pre (cur ++ [PyLit.val v]) y
          simp only [List.append_assoc, List.cons_append, List.nil_append] at this
          rw [this]
          simp
  | .noval _ :: _, _, _, hok, _, _ => by simp [attrsTextOK] at hok
  | .seq _ _ :: _, _, _, hok, _, _ => by simp [attrsTextOK] at hok
  | .fixedRep _ _ _ :: _, _, _, hok, _, _ => by simp [attrsTextOK] at hok
  | .delayedRep _ _ _ _ :: _, _, _, hok, _, _ => by simp [attrsTextOK] at hok

end Bufr.C09T
