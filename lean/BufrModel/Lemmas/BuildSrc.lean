/-
  Helper definitions and lemmas for `C14_src_build_eq` (`Props/C14SrcBuild.lean`): the template builder generated from
  `pybufrkit/tables.py _descriptors_from_ids_iter` / `TableR.lookup` (`Gen/PyTables.lean`) against the model's
  `buildD` (`Basic/Desc.lean`).
-/
import BufrModel.Basic.Desc
import BufrModel.Basic.Template
import BufrModel.Gen.PyTables
namespace Bufr.BuildSrc
open PyGen.tables Py.Small

mutual
/-- the descriptor object (by value) a tree of the model stands for -/
def reprD : Desc → Descr Elem
  | .elem e => .elem e
  | .undefElem i => .undefElem (i : Int)
  | .undefSeq i => .undefSeq (i : Int)
  | .op i => .op (i : Int)
  | .seq i ms => .seq (i : Int) (reprL ms)
  | .fixedRep i ms => .fixedRep (i : Int) (reprL ms)
  | .delayedRep i f ms => .delayedRep (i : Int) (some (reprD f)) (reprL ms)
def reprL : List Desc → List (Descr Elem)
  | [] => []
  | d :: ds => reprD d :: reprL ds
end

theorem reprL_append (a b : List Desc) : reprL (a ++ b) = reprL a ++ reprL b := by
  induction a with
  | nil => rfl
  | cons d ds ih => simp [reprL, ih]

/-- every sequence of Table D builds (within `depth` levels of nesting, without a missing replication factor): the
    table group could be loaded (`TableD.__init__` builds every sequence when the tables are read) -/
def Loads (T : Tables) (depth : Nat) : Prop :=
  ∀ id ms, T.d id = some ms → ∃ r, buildD T depth ms = .ok r

/-- the lookups of the table group of `T`, as functions on ids: Table B (undefined ids give an
    `UndefinedElementDescriptor`), Table C (an `OperatorDescriptor` for every id), Table D: the sequence object built
    when the tables were loaded (members by value), an `UndefinedSequenceDescriptor` for an id that is not in the table -/
def envOf (T : Tables) (depth : Nat) : TableGroup Elem where
  b_lookup i := reprD (T.lookupB i.toNat)
  c_lookup i := .op i
  d_lookup i :=
    match T.d i.toNat with
    | none => .undefSeq i
    | some ms =>
      match buildD T depth ms with
      | .ok r => .seq i (reprL r)
      | .error _ => .undefSeq i          -- not reached under `Loads`

/-- the Python outcome for an outcome of the model: the only error of `buildD` above a table group that loads is the
    missing replication factor, a `StopIteration` that escapes -/
def outcome (acc : List (Descr Elem)) : Except Err (List Desc) → Except Py.Exc (List (Descr Elem))
  | .ok r => .ok (acc ++ reprL r)
  | .error _ => .error (.raised "StopIteration")

theorem n_items_nat (id : Nat) :
    (PyGen.descriptors.ReplicationDescriptor.n_items ⟨(id : Int), []⟩).toNat = xOf id := by
  have : PyGen.descriptors.ReplicationDescriptor.n_items ⟨(id : Int), []⟩ = (xOf id : Int) := by
    simp only [PyGen.descriptors.ReplicationDescriptor.n_items, xOf]
    have h1 : Int.fdiv (id : Int) (Int.ofNat 1000) = ((id / 1000 : Nat) : Int) := by
      simp [Int.fdiv_eq_ediv_of_nonneg]
    rw [h1]
    simp [Int.fmod_eq_emod_of_nonneg]
  rw [this]; simp

theorem lookup_delayed (id : Nat) (h : id % 1000 = 0) :
    (TableR.lookup (id : Int) : Descr Elem) = .delayedRep (id : Int) none [] := by
  have : Int.fmod (id : Int) 1000 = 0 := by
    rw [Int.fmod_eq_emod_of_nonneg _ (by omega)]; omega
  simp [TableR.lookup, this]

theorem lookup_fixed (id : Nat) (h : ¬ id % 1000 = 0) :
    (TableR.lookup (id : Int) : Descr Elem) = .fixedRep (id : Int) [] := by
  have : ¬ Int.fmod (id : Int) 1000 = 0 := by
    rw [Int.fmod_eq_emod_of_nonneg _ (by omega)]; omega
  simp [TableR.lookup, this]

theorem map_take (n : Nat) (l : List Nat) : List.take n (l.map Int.ofNat) = (l.take n).map Int.ofNat := by
  simp [List.map_take]
theorem map_drop (n : Nat) (l : List Nat) : List.drop n (l.map Int.ofNat) = (l.drop n).map Int.ofNat := by
  simp [List.map_drop]

/-- the loop of the generated builder, from any position and with any list built so far -/
theorem loop_eq (T : Tables) (depth : Nat) (hL : Loads T depth) :
    ∀ (fuel : Nat) (ids : List Nat) (acc : List (Descr Elem)), ids.length < fuel →
      _descriptors_from_ids_iter.loop (envOf T depth) fuel (ids.map Int.ofNat) acc
        = outcome acc (buildD T (depth + 1) ids) := by
  intro fuel
  induction fuel with
  | zero => intro ids acc h; omega
  | succ fuel ih =>
    intro ids acc hlen
    cases ids with
    | nil => simp [_descriptors_from_ids_iter.loop, buildD, outcome, reprL]
    | cons id rest =>
      simp only [List.length_cons] at hlen
      have hrest : rest.length < fuel := by omega
      rw [buildD.eq_def]
      simp only [List.map_cons, _descriptors_from_ids_iter.loop]
      have c3 : decide ((Int.ofNat id) ≥ Int.ofNat 300000) = decide (300000 ≤ id) := by
        simp; omega
      have c2 : decide ((Int.ofNat id) ≥ Int.ofNat 200000) = decide (200000 ≤ id) := by
        simp; omega
      have c1 : decide ((Int.ofNat id) ≥ Int.ofNat 100000) = decide (100000 ≤ id) := by
        simp; omega
      simp only [c3, c2, c1]
      by_cases h3 : 300000 ≤ id
      · -- Table D
        simp only [h3, decide_true, if_true, bind, Except.bind, pure, Except.pure]
        rw [ih rest _ hrest]
        simp only [envOf, Int.toNat_natCast, Int.ofNat_eq_natCast]
        cases hd : T.d id with
        | none =>
          cases buildD T (depth + 1) rest with
          | error e => rfl
          | ok tl => simp [outcome, reprL, reprD]
        | some ms =>
          obtain ⟨r, hr⟩ := hL id ms hd
          simp only [hr]
          cases buildD T (depth + 1) rest with
          | error e => rfl
          | ok tl => simp [outcome, reprL, reprD]
      · simp only [h3, decide_false, Bool.false_eq_true, if_false]
        by_cases h2 : 200000 ≤ id
        · -- Table C
          simp only [h2, decide_true, if_true, bind, Except.bind, pure, Except.pure]
          rw [ih rest _ hrest]
          cases buildD T (depth + 1) rest with
          | error e => rfl
          | ok tl => simp [outcome, reprL, reprD, envOf]
        · simp only [h2, decide_false, Bool.false_eq_true, if_false]
          by_cases h1 : 100000 ≤ id
          · -- replication
            simp only [h1, decide_true, if_true]
            by_cases hy : id % 1000 = 0
            · -- delayed: the factor first
              have hl := lookup_delayed id hy
              try simp only [Int.ofNat_eq_natCast] at hl ⊢
              simp only [hy, if_true, hl, Descr.isDelayed, bind, Except.bind, pure, Except.pure]
              cases rest with
              | nil => simp [outcome]
              | cons f rest' =>
                simp only [List.map_cons, Descr.setFactor, Descr.id, Int.ofNat_eq_natCast, n_items_nat]
                have e1 := map_take (xOf id) rest'
                have e2 := map_drop (xOf id) rest'
                try simp only [Int.ofNat_eq_natCast] at e1 e2
                rw [e1, e2]
                have hlen' : (rest'.take (xOf id)).length < fuel := by
                  simp only [List.length_cons] at hrest
                  have := List.length_take (i := xOf id) (l := rest'); omega
                have hlen'' : (rest'.drop (xOf id)).length < fuel := by
                  simp only [List.length_cons] at hrest
                  have := List.length_drop (i := xOf id) (l := rest'); omega
                have ih1 := ih (rest'.take (xOf id)) [] hlen'
                try simp only [Int.ofNat_eq_natCast] at ih1
                rw [ih1]
                cases hm : buildD T (depth + 1) (rest'.take (xOf id)) with
                | error e => simp [outcome]
                | ok ms =>
                  simp only [outcome, List.nil_append, Descr.setMembers]
                  have ih2 := ih (rest'.drop (xOf id)) (acc ++ [Descr.delayedRep (id : Int) (some ((envOf T depth).b_lookup (f : Int))) (reprL ms)]) hlen''
                  try simp only [Int.ofNat_eq_natCast] at ih2
                  rw [ih2]
                  cases buildD T (depth + 1) (rest'.drop (xOf id)) with
                  | error e => rfl
                  | ok tl => simp [outcome, reprL, reprD, envOf]
            · -- fixed
              have hl := lookup_fixed id hy
              try simp only [Int.ofNat_eq_natCast] at hl ⊢
              simp only [hy, if_false, hl, Descr.isDelayed, Bool.false_eq_true, bind, Except.bind, pure, Except.pure,
                Descr.id, n_items_nat]
              have e1 := map_take (xOf id) rest
              have e2 := map_drop (xOf id) rest
              try simp only [Int.ofNat_eq_natCast] at e1 e2
              rw [e1, e2]
              have hlen' : (rest.take (xOf id)).length < fuel := by
                have := List.length_take (i := xOf id) (l := rest); omega
              have hlen'' : (rest.drop (xOf id)).length < fuel := by
                have := List.length_drop (i := xOf id) (l := rest); omega
              have ih1 := ih (rest.take (xOf id)) [] hlen'
              try simp only [Int.ofNat_eq_natCast] at ih1
              rw [ih1]
              cases hm : buildD T (depth + 1) (rest.take (xOf id)) with
              | error e => simp [outcome]
              | ok ms =>
                simp only [outcome, List.nil_append, Descr.setMembers]
                have ih2 := ih (rest.drop (xOf id)) (acc ++ [Descr.fixedRep (id : Int) (reprL ms)]) hlen''
                try simp only [Int.ofNat_eq_natCast] at ih2
                rw [ih2]
                cases buildD T (depth + 1) (rest.drop (xOf id)) with
                | error e => rfl
                | ok tl => simp [outcome, reprL, reprD]
          · -- Table B
            simp only [h1, decide_false, Bool.false_eq_true, if_false, bind, Except.bind, pure, Except.pure]
            rw [ih rest _ hrest]
            cases buildD T (depth + 1) rest with
            | error e => rfl
            | ok tl => simp [outcome, reprL, envOf]

/-! ### `BufrTemplate.original_descriptor_ids` -/

/-- the `id` attribute of a Table B element -/
def eid (e : Elem) : Int := (e.id : Int)

theorem idWith_repr (d : Desc) : Descr.idWith eid (reprD d) = (d.id : Int) := by
  cases d <;> simp [reprD, Descr.idWith, Descr.id, Desc.id, eid]

open PyGen.descriptors in
/-- the work-queue loop of the generated `original_descriptor_ids` on the object tree of a queue of the model -/
theorem walk_eq : ∀ (fuel : Nat) (q : List Desc) (ret : List Int), sizeL q < fuel →
    BufrTemplate.original_descriptor_ids.loop eid fuel (reprL q) ret = .ok (ret ++ (originalIdsQ q).map Int.ofNat) := by
  intro fuel
  induction fuel with
  | zero => intro q ret h; omega
  | succ fuel ih =>
    intro q ret h
    cases q with
    | nil => simp [reprL, BufrTemplate.original_descriptor_ids.loop, originalIdsQ]
    | cons d rest =>
      have hr : sizeL rest < fuel := by
        have : 1 ≤ d.size := by cases d <;> simp [Desc.size] <;> omega
        simp only [sizeL] at h; omega
      cases d with
      | elem e =>
        rw [originalIdsQ]
        simp [reprL, reprD, BufrTemplate.original_descriptor_ids.loop, Descr.idWith, Descr.isReplication, eid,
          bind, Except.bind, pure, Except.pure, ih rest _ hr]
      | undefElem i =>
        rw [originalIdsQ]
        simp [reprL, reprD, BufrTemplate.original_descriptor_ids.loop, Descr.idWith, Descr.id, Descr.isReplication,
          bind, Except.bind, pure, Except.pure, ih rest _ hr]
      | undefSeq i =>
        rw [originalIdsQ]
        simp [reprL, reprD, BufrTemplate.original_descriptor_ids.loop, Descr.idWith, Descr.id, Descr.isReplication,
          bind, Except.bind, pure, Except.pure, ih rest _ hr]
      | op i =>
        rw [originalIdsQ]
        simp [reprL, reprD, BufrTemplate.original_descriptor_ids.loop, Descr.idWith, Descr.id, Descr.isReplication,
          bind, Except.bind, pure, Except.pure, ih rest _ hr]
      | seq i ms =>
        rw [originalIdsQ]
        simp [reprL, reprD, BufrTemplate.original_descriptor_ids.loop, Descr.idWith, Descr.id, Descr.isReplication,
          bind, Except.bind, pure, Except.pure, ih rest _ hr]
      | fixedRep i ms =>
        have hq : sizeL (ms ++ rest) < fuel := by
          simp only [sizeL, Desc.size] at h; rw [sizeL_append]; omega
        rw [originalIdsQ]
        simp [reprL, reprD, BufrTemplate.original_descriptor_ids.loop, Descr.idWith, Descr.id, Descr.isReplication,
          Descr.isDelayed, Descr.membersOf, bind, Except.bind, pure, Except.pure, ← reprL_append, ih (ms ++ rest) _ hq]
      | delayedRep i f ms =>
        have hq : sizeL (ms ++ rest) < fuel := by
          simp only [sizeL, Desc.size] at h; rw [sizeL_append]; omega
        rw [originalIdsQ]
        simp [reprL, reprD, BufrTemplate.original_descriptor_ids.loop, Descr.idWith, Descr.id, Descr.isReplication,
          Descr.isDelayed, Descr.membersOf, Descr.factorId, bind, Except.bind, pure, Except.pure,
          ← reprL_append, ih (ms ++ rest) _ hq]
        have := idWith_repr f
        simpa [Descr.idWith, Descr.id] using this

/-! ### the representation is injective: equal object trees come from equal trees of the model -/

mutual
theorem reprD_inj : ∀ (a b : Desc), reprD a = reprD b → a = b
  | .elem e, b, h => by cases b <;> simp_all [reprD]
  | .undefElem i, b, h => by cases b <;> simp_all [reprD] <;> omega
  | .undefSeq i, b, h => by cases b <;> simp_all [reprD] <;> omega
  | .op i, b, h => by cases b <;> simp_all [reprD] <;> omega
  | .seq i ms, b, h => by
    cases b <;> simp [reprD] at h
    rename_i j ms'
    have e1 : i = j := by omega
    rw [e1, reprL_inj ms ms' h.2]
  | .fixedRep i ms, b, h => by
    cases b <;> simp [reprD] at h
    rename_i j ms'
    have e1 : i = j := by omega
    rw [e1, reprL_inj ms ms' h.2]
  | .delayedRep i f ms, b, h => by
    cases b <;> simp [reprD] at h
    rename_i j f' ms'
    have e1 : i = j := by omega
    rw [e1, reprD_inj f f' h.2.1, reprL_inj ms ms' h.2.2]
theorem reprL_inj : ∀ (a b : List Desc), reprL a = reprL b → a = b
  | [], b, h => by cases b <;> simp_all [reprL]
  | d :: ds, b, h => by
    cases b with
    | nil => simp [reprL] at h
    | cons e es =>
      simp only [reprL, List.cons.injEq] at h
      rw [reprD_inj d e h.1, reprL_inj ds es h.2]
end

/-! ### `flat_member_ids` -/

theorem size_le_of_mem (d : Desc) (ms : List Desc) (h : d ∈ ms) : d.size ≤ sizeL ms := by
  induction ms with
  | nil => cases h
  | cons x xs ih =>
    simp only [sizeL]
    rcases List.mem_cons.mp h with rfl | h'
    · omega
    · have := ih h'; omega

theorem forIn_flatIds (f : Descr Elem → List Int → Except Py.Exc (List Int)) (ms : List Desc)
    (hf : ∀ d ∈ ms, ∀ ret, f (reprD d) ret = .ok (ret ++ d.flatIds.map Int.ofNat)) :
    ∀ ret, Py.forIn (reprL ms) ret f = .ok (ret ++ (flatMemberIds ms).map Int.ofNat) := by
  induction ms with
  | nil => intro ret; simp [reprL, Py.forIn, flatMemberIds]
  | cons d ds ih =>
    intro ret
    simp only [reprL, Py.forIn, hf d (by simp)]
    rw [ih (fun x hx => hf x (List.mem_cons_of_mem _ hx))]
    simp [flatMemberIds]

open PyGen.descriptors in
/-- the generated `flat_member_ids` on an object whose members are the object trees of `ms` -/
theorem flat_eq : ∀ (fuel : Nat) (X : Descr Elem) (ms : List Desc), Descr.membersOf X = reprL ms → sizeL ms < fuel →
    flat_member_ids eid fuel X = .ok ((flatMemberIds ms).map Int.ofNat) := by
  intro fuel
  induction fuel with
  | zero => intro X ms _ h; omega
  | succ fuel ih =>
    intro X ms hX hsz
    rw [flat_member_ids, hX]
    refine (forIn_flatIds _ ms ?_ []).trans (by simp)
    · intro d hd ret
      have hds := size_le_of_mem d ms hd
      cases d with
      | elem e => simp [reprD, Descr.isSequence, Descr.isFixed, Descr.isDelayed, Descr.idWith, Desc.flatIds, eid, pure, Except.pure]
      | undefElem i => simp [reprD, Descr.isSequence, Descr.isFixed, Descr.isDelayed, Descr.idWith, Descr.id, Desc.flatIds, pure, Except.pure]
      | undefSeq i => simp [reprD, Descr.isSequence, Descr.isFixed, Descr.isDelayed, Descr.idWith, Descr.id, Desc.flatIds, pure, Except.pure]
      | op i => simp [reprD, Descr.isSequence, Descr.isFixed, Descr.isDelayed, Descr.idWith, Descr.id, Desc.flatIds, pure, Except.pure]
      | seq i ms' =>
        have h' : sizeL ms' < fuel := by simp only [Desc.size] at hds; omega
        simp [reprD, Descr.isSequence, Desc.flatIds, bind, Except.bind, pure, Except.pure,
          ih (.seq (i : Int) (reprL ms')) ms' rfl h']
      | fixedRep i ms' =>
        have h' : sizeL ms' < fuel := by simp only [Desc.size] at hds; omega
        simp [reprD, Descr.isSequence, Descr.isFixed, Descr.idWith, Descr.id, Desc.flatIds, bind, Except.bind, pure,
          Except.pure, ih (.fixedRep (i : Int) (reprL ms')) ms' rfl h']
      | delayedRep i f ms' =>
        have h' : sizeL ms' < fuel := by simp only [Desc.size] at hds; omega
        have hid := idWith_repr f
        simp [reprD, Descr.isSequence, Descr.isFixed, Descr.isDelayed, Descr.idWith, Descr.id, Descr.factorId,
          Desc.flatIds, bind, Except.bind, pure, Except.pure,
          ih (.delayedRep (i : Int) (some (reprD f)) (reprL ms')) ms' rfl h']
        simpa [Descr.idWith, Descr.id] using hid

end Bufr.BuildSrc
