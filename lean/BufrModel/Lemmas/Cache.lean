/-
  Helper lemmas for C13: both caches are memo tables (every stored pair is `f key`), with distinct
  keys and bounded size; every state reachable from `init` satisfies `Inv`; from a state satisfying
  `Inv` every operation returns what the stateless reference semantics (`pureOut`) returns.
-/
import BufrModel.Msg.Cache
set_option linter.unusedSectionVars false
namespace Bufr.Cache

theorem lookup_mem' {κ ν : Type} [BEq κ] [LawfulBEq κ] {d : List (κ × ν)} {k : κ} {v : ν}
    (h : d.lookup k = some v) : (k, v) ∈ d := by
  obtain ⟨l₁, l₂, rfl, _⟩ := List.lookup_eq_some_iff.mp h
  simp

section Dict
variable {κ ν : Type} [DecidableEq κ]

theorem lookup_mem {d : Dict κ ν} {k : κ} {v : ν} (h : d.lookup k = some v) : (k, v) ∈ d := by
  obtain ⟨l₁, l₂, rfl, _⟩ := List.lookup_eq_some_iff.mp h
  simp

theorem lookup_none_not_key {d : Dict κ ν} {k : κ} (h : d.lookup k = none) : k ∉ d.keys := by
  intro hk
  simp only [Dict.keys, List.mem_map] at hk
  obtain ⟨p, hp, rfl⟩ := hk
  have := (List.lookup_eq_none_iff.mp h) p hp
  simp at this

theorem popLoop_spec (n : Nat) (d : Dict κ ν) :
    (popLoop n d).1.Sublist d ∧ (popLoop n d).1.length = d.length - n ∧
    ((popLoop n d).2 = true ↔ d.length < n) := by
  induction n generalizing d with
  | zero => simp [popLoop]
  | succ n ih =>
    unfold popLoop
    by_cases he : d.isEmpty = true
    · simp only [he, if_true]
      have : d = [] := List.isEmpty_iff.mp he
      subst this
      simp
    · rw [if_neg he]
      have hne : d ≠ [] := fun h => he (by simp [h])
      have hlen : 0 < d.length := List.length_pos_iff.mpr hne
      obtain ⟨h1, h2, h3⟩ := ih d.dropLast
      refine ⟨h1.trans (List.dropLast_sublist d), ?_, ?_⟩
      · rw [h2, List.length_dropLast]; omega
      · rw [h3, List.length_dropLast]; omega

/-- A memo table of `f`: every pair is `(k, f k)`, keys are distinct, at most `bound` pairs. -/
def DictOk (f : κ → Except Err ν) (bound : Nat) (d : Dict κ ν) : Prop :=
  (∀ p ∈ d, f p.1 = .ok p.2) ∧ d.keys.Nodup ∧ d.length ≤ bound

theorem DictOk.nil (f : κ → Except Err ν) (b : Nat) : DictOk f b ([] : Dict κ ν) := by
  simp [DictOk, Dict.keys]

theorem keys_sublist {d1 d : Dict κ ν} (h : d1.Sublist d) : (Dict.keys d1).Sublist (Dict.keys d) :=
  h.map _

/-- appending a new pair to a sub-dictionary keeps the memo-table property -/
theorem DictOk.snoc {f : κ → Except Err ν} {b : Nat} {d d1 : Dict κ ν} {k : κ} {v : ν}
    (hd : DictOk f b d) (hs : d1.Sublist d) (hk : k ∉ d.keys) (hv : f k = .ok v) (hl : d1.length + 1 ≤ b) :
    DictOk f b (d1 ++ [(k, v)]) := by
  obtain ⟨h1, h2, _⟩ := hd
  refine ⟨?_, ?_, ?_⟩
  · intro p hp
    rcases List.mem_append.mp hp with hp | hp
    · exact h1 p (hs.subset hp)
    · simp only [List.mem_singleton] at hp; subst hp; exact hv
  · simp only [Dict.keys, List.map_append, List.map_cons, List.map_nil]
    rw [List.nodup_append]
    refine ⟨(keys_sublist hs).nodup h2, by simp, ?_⟩
    intro a ha b' hb'
    simp only [List.mem_singleton] at hb'
    subst hb'
    intro hab
    subst hab
    exact hk ((keys_sublist hs).subset ha)
  · simp only [List.length_append, List.length_singleton]; exact hl

theorem DictOk.sub {f : κ → Except Err ν} {b : Nat} {d d1 : Dict κ ν}
    (hd : DictOk f b d) (hs : d1.Sublist d) : DictOk f b d1 := by
  obtain ⟨h1, h2, h3⟩ := hd
  exact ⟨fun p hp => h1 p (hs.subset hp), (keys_sublist hs).nodup h2, Nat.le_trans hs.length_le h3⟩

theorem tableGet_ok (limit : Nat) (load : κ → Except Err ν) (d : Dict κ ν) (k : κ)
    (hd : DictOk load limit d) : DictOk load limit (tableGet limit load d k).1 := by
  unfold tableGet
  cases hl : d.lookup k with
  | some g => simpa using hd
  | none =>
    have hk := lookup_none_not_key hl
    simp only
    by_cases hlim : limit ≤ d.length
    · simp only [hlim, if_true]
      obtain ⟨p1, p2, p3⟩ := popLoop_spec (d.length + 1 - limit) d
      cases hr : (popLoop (d.length + 1 - limit) d).2 with
      | true => simpa using hd.sub p1
      | false =>
        simp only [Bool.false_eq_true, if_false]
        cases hld : load k with
        | error e => simpa using hd.sub p1
        | ok g =>
          simp only
          have hnot : ¬ d.length < d.length + 1 - limit := by
            intro h; have := p3.mpr h; rw [hr] at this; cases this
          exact hd.snoc p1 hk hld (by rw [p2]; omega)
    · simp only [hlim, if_false, Bool.false_eq_true]
      cases hld : load k with
      | error e => simpa using hd
      | ok g => exact hd.snoc (List.Sublist.refl d) hk hld (by omega)

theorem tableGet_out (limit : Nat) (load : κ → Except Err ν) (d : Dict κ ν) (k : κ)
    (hd : DictOk load limit d) :
    (tableGet limit load d k).2 = if limit = 0 then .error .other else load k := by
  unfold tableGet
  cases hl : d.lookup k with
  | some g =>
    have hm := hd.1 _ (lookup_mem hl)
    have hpos : limit ≠ 0 := by
      intro h0
      have := hd.2.2
      have hne : 0 < d.length := List.length_pos_iff.mpr (List.ne_nil_of_mem (lookup_mem hl))
      omega
    simp only [hpos, if_false]
    exact hm.symm
  | none =>
    simp only
    by_cases hlim : limit ≤ d.length
    · simp only [hlim, if_true]
      obtain ⟨_, _, p3⟩ := popLoop_spec (d.length + 1 - limit) d
      have hle := hd.2.2
      by_cases h0 : limit = 0
      · subst h0
        have : (popLoop (d.length + 1) d).2 = true := by simpa using p3.mpr (by omega)
        simp [this]
      · have : (popLoop (d.length + 1 - limit) d).2 = false := by
          cases hr : (popLoop (d.length + 1 - limit) d).2 with
          | false => rfl
          | true => have := p3.mp hr; omega
        simp only [this, Bool.false_eq_true, if_false, h0]
        cases load k <;> rfl
    · have h0 : limit ≠ 0 := by omega
      simp only [hlim, if_false, Bool.false_eq_true, h0]
      cases load k <;> rfl

theorem compiledGet_ok (mx : Nat) (f : κ → Except Err ν) (d : Dict κ ν) (k : κ)
    (hd : DictOk f mx d) : DictOk f mx (compiledGet mx (f k) d k).1 := by
  unfold compiledGet
  cases hl : d.lookup k with
  | some c => simpa using hd
  | none =>
    have hk := lookup_none_not_key hl
    simp only
    cases hc : f k with
    | error e => simpa using hd
    | ok c =>
      simp only
      by_cases hpos : 0 < mx
      · simp only [hpos, if_true]
        by_cases hfull : mx ≤ d.length
        · simp only [hfull, if_true]
          refine hd.snoc (List.dropLast_sublist d) hk hc ?_
          simp only [List.length_dropLast]
          have := hd.2.2
          omega
        · simp only [hfull, if_false]
          exact hd.snoc (List.Sublist.refl d) hk hc (by omega)
      · simpa [hpos] using hd

theorem compiledGet_out (mx : Nat) (f : κ → Except Err ν) (d : Dict κ ν) (k : κ)
    (hd : DictOk f mx d) : (compiledGet mx (f k) d k).2 = f k := by
  unfold compiledGet
  cases hl : d.lookup k with
  | some c => exact (hd.1 _ (lookup_mem hl)).symm
  | none =>
    simp only
    cases hc : f k with
    | error e => rfl
    | ok c => by_cases hpos : 0 < mx <;> simp [hpos]

end Dict

section Proc
variable {κ γ τ χ ι δ ν φ ω : Type} [DecidableEq κ] [DecidableEq ι]
variable (P : Params κ γ τ χ ι δ ν φ ω)

/-- a kept object agrees with a fresh decode of its key, and its nodes with its flag -/
def ObjOk (key : ObjKey ι) (o : Obj δ ν) : Prop :=
  pureFetch P key.1 key.2.1 key.2.2 = .ok o.data ∧
  (o.isWired = true → P.wireFn o.data = .ok o.nodes) ∧ (o.isWired = false → o.nodes = [])

/-- The invariant of every reachable state. -/
structure Inv (s : State κ γ χ ι δ ν) : Prop where
  tables : DictOk P.loadGroup P.limit s.tables
  compiled : ∀ c, DictOk (compileFor P) ((P.cacheMax c).getD 0) (s.compiled c)
  objs : ∀ p ∈ s.objs, ObjOk P p.1 p.2

theorem Inv.init : Inv P (State.init : State κ γ χ ι δ ν) :=
  ⟨DictOk.nil _ _, fun _ => DictOk.nil _ _, by simp [State.init]⟩

theorem stageTables_spec (s : State κ γ χ ι δ ν) (k : κ) (h : Inv P s) :
    Inv P (stageTables P s k).1 ∧ (stageTables P s k).2 = loadVia P k ∧
    (stageTables P s k).1.objs = s.objs := by
  refine ⟨⟨tableGet_ok _ _ _ _ h.tables, h.compiled, h.objs⟩, ?_, rfl⟩
  simp only [stageTables, loadVia]
  exact tableGet_out _ _ _ _ h.tables

theorem loadVia_ok {k : κ} {g : γ} (h : loadVia P k = .ok g) : P.loadGroup k = .ok g := by
  unfold loadVia at h
  split at h
  · cases h
  · exact h

theorem stageCompiled_spec (s : State κ γ χ ι δ ν) (c : Nat) (g : γ) (t : τ) (ids : List Nat) (k : κ)
    (h : Inv P s) (hg : P.loadGroup k = .ok g) (ht : P.build g ids = .ok t) :
    Inv P (stageCompiled P s c g t ids k).1 ∧
    (stageCompiled P s c g t ids k).2 =
      (match P.cacheMax c with | none => .ok none | some _ => (P.compile g t).map some) ∧
    (stageCompiled P s c g t ids k).1.objs = s.objs := by
  unfold stageCompiled
  cases hc : P.cacheMax c with
  | none => exact ⟨h, rfl, rfl⟩
  | some mx =>
    have hf : compileFor P (ids, k) = P.compile g t := by simp [compileFor, hg, ht]
    have hd : DictOk (compileFor P) mx (s.compiled c) := by simpa [hc] using h.compiled c
    refine ⟨⟨h.tables, ?_, h.objs⟩, ?_, rfl⟩
    · intro c'
      simp only [upd]
      by_cases hcc : c' = c
      · subst hcc
        simp only [if_true, hc, Option.getD_some]
        rw [← hf]
        exact compiledGet_ok _ _ _ _ hd
      · simp only [hcc, if_false]
        exact h.compiled c'
    · simp only
      rw [← hf, compiledGet_out _ _ _ _ hd]

theorem fetch_spec (s : State κ γ χ ι δ ν) (c : Nat) (dir : Dir) (m : ι) (h : Inv P s) :
    Inv P (fetch P s c dir m).1 ∧ (fetch P s c dir m).2 = pureFetch P c dir m ∧
    (fetch P s c dir m).1.objs = s.objs := by
  unfold fetch pureFetch
  cases hh : P.header dir m with
  | error e => exact ⟨h, rfl, rfl⟩
  | ok kid =>
    obtain ⟨k, ids⟩ := kid
    simp only
    obtain ⟨i1, o1, b1⟩ := stageTables_spec P s k h
    rw [o1]
    cases hl : loadVia P k with
    | error e => exact ⟨i1, rfl, b1⟩
    | ok g =>
      simp only
      cases hb : P.build g ids with
      | error e => exact ⟨i1, rfl, b1⟩
      | ok t =>
        simp only
        obtain ⟨i2, o2, b2⟩ := stageCompiled_spec P (stageTables P s k).1 c g t ids k i1 (loadVia_ok P hl) hb
        rw [o2]
        cases hc : P.cacheMax c with
        | none => exact ⟨i2, rfl, b2.trans b1⟩
        | some mx =>
          simp only
          cases hcp : P.compile g t with
          | error e => exact ⟨i2, rfl, b2.trans b1⟩
          | ok x => exact ⟨i2, rfl, b2.trans b1⟩

theorem keep_inv (s : State κ γ χ ι δ ν) (key : ObjKey ι) (o : Obj δ ν) (h : Inv P s) (ho : ObjOk P key o) :
    Inv P (keep s key o) := by
  refine ⟨h.tables, h.compiled, ?_⟩
  intro p hp
  simp only [keep, List.mem_cons] at hp
  rcases hp with rfl | hp
  · exact ho
  · exact h.objs p hp

/-- wiring a consistent object: result consistent; outcome and nodes are those of one wiring pass -/
theorem wire_spec (key : ObjKey ι) (o : Obj δ ν) (ho : ObjOk P key o) :
    ObjOk P key (o.wire P.wireFn).1 ∧ (o.wire P.wireFn).1.data = o.data ∧
    (match P.wireFn o.data with
     | .error e => (o.wire P.wireFn).2 = .error e
     | .ok ns => (o.wire P.wireFn).2 = .ok () ∧ (o.wire P.wireFn).1.nodes = ns) := by
  obtain ⟨h1, h2, h3⟩ := ho
  unfold Obj.wire
  cases hw : o.isWired with
  | true =>
    rw [if_pos rfl]
    refine ⟨⟨h1, h2, h3⟩, rfl, ?_⟩
    rw [h2 hw]
    exact ⟨rfl, rfl⟩
  | false =>
    rw [if_neg Bool.false_ne_true]
    cases hf : P.wireFn o.data with
    | error e =>
      exact ⟨⟨h1, fun h => (by cases h), fun _ => rfl⟩, rfl, rfl⟩
    | ok ns =>
      have hn : o.nodes ++ ns = ns := by rw [h3 hw]; rfl
      refine ⟨⟨h1, fun _ => ?_, fun h => (by cases h)⟩, rfl, rfl, hn⟩
      show P.wireFn o.data = .ok (o.nodes ++ ns)
      rw [hn, hf]

theorem obtain_spec (s : State κ γ χ ι δ ν) (c : Nat) (dir : Dir) (m : ι) (h : Inv P s) :
    Inv P (obtain P s c dir m).1 ∧
    (match (obtain P s c dir m).2 with
     | .error e => pureFetch P c dir m = .error e
     | .ok o => ObjOk P (c, dir, m) o) := by
  unfold obtain
  cases hl : s.objs.lookup (c, dir, m) with
  | some o => exact ⟨h, h.objs _ (lookup_mem' hl)⟩
  | none =>
    obtain ⟨i1, o1, _⟩ := fetch_spec P s c dir m h
    refine ⟨i1, ?_⟩
    simp only
    rw [o1]
    cases hp : pureFetch P c dir m with
    | error e => rfl
    | ok d => exact ⟨hp, by simp, by simp⟩

/-- Main lemma: from a state satisfying the invariant, an operation returns the stateless reference
    output and leads to a state satisfying the invariant. -/
theorem step_spec (s : State κ γ χ ι δ ν) (op : Op ι φ) (h : Inv P s) :
    Inv P (step P s op).1 ∧ (step P s op).2 = pureOut P op := by
  cases op with
  | proc c dir m w =>
    obtain ⟨i1, o1, _⟩ := fetch_spec P s c dir m h
    simp only [step, pureOut]
    rw [o1]
    cases hp : pureFetch P c dir m with
    | error e => exact ⟨i1, rfl⟩
    | ok d =>
      simp only
      have ho : ObjOk P (c, dir, m) ({ data := d, nodes := [], isWired := false } : Obj δ ν) :=
        ⟨hp, by simp, by simp⟩
      cases w with
      | false => exact ⟨keep_inv P _ _ _ i1 ho, rfl⟩
      | true =>
        simp only [if_true]
        obtain ⟨w1, _, w3⟩ := wire_spec P (c, dir, m) _ ho
        simp only at w3
        cases hw : P.wireFn d with
        | error e =>
          rw [hw] at w3
          simp only at w3
          rw [w3]
          exact ⟨i1, rfl⟩
        | ok ns =>
          rw [hw] at w3
          simp only at w3
          rw [w3.1]
          exact ⟨keep_inv P _ _ _ i1 w1, rfl⟩
  | wire c dir m =>
    obtain ⟨i1, o1⟩ := obtain_spec P s c dir m h
    simp only [step, pureOut]
    cases hr : (obtain P s c dir m).2 with
    | error e =>
      rw [hr] at o1
      simp only at o1
      rw [o1]
      exact ⟨i1, rfl⟩
    | ok o =>
      rw [hr] at o1
      simp only at o1
      obtain ⟨w1, w2, w3⟩ := wire_spec P (c, dir, m) o o1
      simp only
      rw [o1.1]
      simp only
      refine ⟨keep_inv P _ _ _ i1 w1, ?_⟩
      cases hw : P.wireFn o.data with
      | error e => rw [hw] at w3; simp only at w3; rw [w3]
      | ok ns => rw [hw] at w3; simp only at w3; rw [w3.1]
  | view c dir m v =>
    obtain ⟨i1, o1⟩ := obtain_spec P s c dir m h
    simp only [step, pureOut]
    cases hr : (obtain P s c dir m).2 with
    | error e =>
      rw [hr] at o1
      simp only at o1
      rw [o1]
      exact ⟨i1, rfl⟩
    | ok o =>
      rw [hr] at o1
      simp only at o1
      obtain ⟨w1, w2, w3⟩ := wire_spec P (c, dir, m) o o1
      simp only
      rw [o1.1]
      simp only
      refine ⟨keep_inv P _ _ _ i1 w1, ?_⟩
      cases hw : P.wireFn o.data with
      | error e => rw [hw] at w3; simp only at w3; rw [w3]
      | ok ns => rw [hw] at w3; simp only at w3; rw [w3.1, w3.2, w2]
  | invalidate =>
    exact ⟨⟨DictOk.nil _ _, h.compiled, h.objs⟩, rfl⟩

theorem run_spec (s : State κ γ χ ι δ ν) (ops : List (Op ι φ)) (h : Inv P s) :
    Inv P (run P s ops).1 ∧ (run P s ops).2 = ops.map (pureOut P) := by
  induction ops generalizing s with
  | nil => exact ⟨h, rfl⟩
  | cons op ops ih =>
    obtain ⟨i1, o1⟩ := step_spec P s op h
    obtain ⟨i2, o2⟩ := ih (step P s op).1 i1
    simp only [run, List.map_cons]
    exact ⟨i2, by rw [o1, o2]⟩

end Proc

end Bufr.Cache
