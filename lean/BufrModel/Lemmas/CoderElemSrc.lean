/-
  The source tie of the element step: the function generated from `coder.py: Coder.process_element_descriptor`
  (`Gen/PyCoder.lean`; every top-level statement a definition `stmt_k`, the method their composition) against
  `Coder/Walk.lean: elementDescriptor`.  Same framework as `Lemmas/CoderOpSrc.lean` (`Rep`, `AbsSt`, `Corr`).

  * `elemOf d` — the model's `Elem` for the descriptor object as the method sees it (`id`, `unit`, `nbits`, `scale`,
    `refval`; the kind is read from the unit string by `TableDef.kindOfUnit`, which `C20_src_const_units` ties to the
    regenerated `UNITS_*`).
  * `LinkClosed A` — the data relation survives `add_bitmap_link` / `addLink`.
  * `CbCorrE` — the five callbacks correspond to the primitives of the model for this descriptor object and its label.
  * `scale_powered = 1.0 * 10 ** scale` is the exact power of ten `Py.pow10 scale` (`PyPrelude.lean`): the callback is
    handed the power whose exponent the model hands to `P.numeric`.
-/
import BufrModel.Lemmas.CoderOpSrc
import BufrModel.Msg.TableDef
set_option linter.unusedSimpArgs false
set_option linter.unusedVariables false
set_option maxRecDepth 8000
namespace Bufr
open PyGen.coder PyGen.constants

theorem TableDef.C20_src_const_units_aux (u : List Char) :
    TableDef.kindOfUnit u = if u = UNITS_STRING then .string else if u = UNITS_FLAG_TABLE ∨ u = UNITS_CODE_TABLE then .codeflag else .numeric := rfl

open PyGen.coder.Coder.process_element_descriptor (Locals Callbacks stmt_1 stmt_2 stmt_3 stmt_4)

variable {D V B : Type}

/-- the model's element for a Python element (or marker) descriptor object -/
def elemOf (d : ElementDescriptor.Self) : Elem :=
  { id := d.id.toNat, kind := TableDef.kindOfUnit d.unit, nbits := d.nbits.toNat, scale := d.scale, ref := d.refval }

/-- the data relation survives the addition of a bitmap link on both sides -/
def LinkClosed (A : PyData D V → B → StData → Prop) : Prop :=
  ∀ pd b sd (i : Int), A pd b sd →
    A { pd with bitmap_links := Py.dictSetItem pd.bitmap_links (pd.decoded_descriptors.length : Nat) i } b
      { sd with links := (sd.descs.length, i.toNat) :: sd.links }

/-- The callbacks of the generated `process_element_descriptor` correspond to the primitives of the model, for
    the descriptor object `d` recorded under the label `dd`. -/
structure CbCorrE (φ : D → Elem) (A : PyData D V → B → StData → Prop) (cb : Callbacks D V B) (P : Prims)
    (dd : DDesc) (d : ElementDescriptor.Self) : Prop where
  assoc : ∀ ps b s, AbsSt φ A ps b s →
    Corr φ A (cb.process_associated_field ps b d) (associatedField P d.id.toNat s)
  string : ∀ ps b s (n : Nat), AbsSt φ A ps b s → Corr φ A (cb.process_string ps b d n) (P.string dd n s)
  codeflag : ∀ ps b s (n : Nat), AbsSt φ A ps b s → Corr φ A (cb.process_codeflag ps b d n) (P.codeflag dd n s)
  numeric : ∀ ps b s (nbits scale ref : Int), AbsSt φ A ps b s →
    Corr φ A (cb.process_numeric ps b d nbits (Py.pow10 scale) ref) (P.numeric dd nbits scale ref s)
  numericNew : ∀ ps b s (nbits scale f nr : Int), AbsSt φ A ps b s → lookupRef s.regs.newRefvals d.id.toNat = some nr →
    Corr φ A (cb.process_numeric_of_new_refval ps b d nbits (Py.pow10 scale) f) (P.numeric dd nbits scale (nr * f) s)

/-- the locals of the generated function stand for the model state while `d` is processed -/
def AbsV (φ : D → Elem) (A : PyData D V → B → StData → Prop) (d : ElementDescriptor.Self) (v : Locals D V B) (s : St) : Prop :=
  AbsSt φ A v.state v.bit_operator s ∧ v.descriptor = d ∧ v.X = d.X

def CorrV (φ : D → Elem) (A : PyData D V → B → StData → Prop) (d : ElementDescriptor.Self) :
    Except Py.Exc (Locals D V B) → CM St → Prop
  | .ok v, .ok s => AbsV φ A d v s
  | .error e, .error e' => excClass e = e'
  | _, _ => False

theorem corrV_bind {φ : D → Elem} {A : PyData D V → B → StData → Prop} {d : ElementDescriptor.Self}
    {x : Except Py.Exc (Locals D V B)} {y : CM St} (hxy : CorrV φ A d x y)
    (f : Locals D V B → Except Py.Exc (Locals D V B)) (g : St → CM St)
    (hfg : ∀ v s, AbsV φ A d v s → CorrV φ A d (f v) (g s)) : CorrV φ A d (x >>= f) (y >>= g) := by
  cases x with
  | error e => cases y with
    | error e' => exact hxy
    | ok s' => exact hxy.elim
  | ok p => cases y with
    | error e' => exact hxy.elim
    | ok s' => exact hfg p s' hxy

/-- a callback result put back into the locals -/
theorem corrV_of_corr {φ : D → Elem} {A : PyData D V → B → StData → Prop} {d : ElementDescriptor.Self}
    {x : Except Py.Exc (CoderState.Self D V × B)} {y : CM St} (hxy : Corr φ A x y) (v : Locals D V B)
    (hd : v.descriptor = d) (hX : v.X = d.X) :
    CorrV φ A d (x >>= fun t => pure { v with state := t.1, bit_operator := t.2 }) y := by
  cases x with
  | error e => cases y with
    | error e' => exact hxy
    | ok s' => exact hxy.elim
  | ok p => cases y with
    | error e' => exact hxy.elim
    | ok s' => exact ⟨hxy, hd, hX⟩

theorem corr_of_corrV_final {φ : D → Elem} {A : PyData D V → B → StData → Prop}
    {x : Except Py.Exc (CoderState.Self D V × B)} {y : CM St} (hxy : Corr φ A x y)
    (k : CoderState.Self D V × B → Locals D V B) (hk : ∀ t, ((k t).state, (k t).bit_operator) = t) :
    Corr φ A ((x >>= fun t => (pure (k t) : Except Py.Exc (Locals D V B))) >>=
      fun v => pure (v.state, v.bit_operator)) y := by
  cases x with
  | error e => exact hxy
  | ok p =>
    show Corr φ A (Except.ok ((k p).state, (k p).bit_operator)) y
    rw [hk p]; exact hxy

theorem assoc_nonempty {φ : D → Elem} {ps : CoderState.Self D V} {r : Regs} (h : Rep φ ps r) :
    r.assocStack = [] ↔ ps.nbits_of_associated = [] := by
  obtain ⟨_, nr, rfl, _⟩ := h
  simp [regsOf]

/-- statement 2: the associated field (204YYY in force, class ≠ 31) -/
theorem elem_stmt2 (φ : D → Elem) (A : PyData D V → B → StData → Prop) (cb : Callbacks D V B) (P : Prims)
    (dd : DDesc) (d : ElementDescriptor.Self) (hcb : CbCorrE φ A cb P dd d)
    (hX : d.X = (xOf d.id.toNat : Int)) (v : Locals D V B) (s : St) (h : AbsV φ A d v s) :
    CorrV φ A d (stmt_2 cb v)
      (if s.regs.assocStack ≠ [] ∧ xOf d.id.toNat ≠ 31 then associatedField P d.id.toNat s else pure s) := by
  obtain ⟨habs, hd, hvX⟩ := h
  have he := assoc_nonempty habs.1
  have hx31 : (v.X = 31) ↔ xOf d.id.toNat = 31 := by rw [hvX, hX]; omega
  unfold stmt_2
  by_cases c1 : v.state.nbits_of_associated = []
  · have cg : ¬ ((!v.state.nbits_of_associated.isEmpty && !decide (v.X = Int.ofNat 31)) = true) := by simp [c1]
    have cm : ¬ (s.regs.assocStack ≠ [] ∧ xOf d.id.toNat ≠ 31) := fun h => h.1 (he.mpr c1)
    rw [if_neg cg, if_neg cm]
    exact (⟨habs, hd, hvX⟩ : AbsV φ A d v s)
  · by_cases c2 : xOf d.id.toNat = 31
    · have cg : ¬ ((!v.state.nbits_of_associated.isEmpty && !decide (v.X = Int.ofNat 31)) = true) := by
        have := hx31.mpr c2
        simp [this]
      have cm : ¬ (s.regs.assocStack ≠ [] ∧ xOf d.id.toNat ≠ 31) := fun h => h.2 c2
      rw [if_neg cg, if_neg cm]
      exact (⟨habs, hd, hvX⟩ : AbsV φ A d v s)
    · have cg : (!v.state.nbits_of_associated.isEmpty && !decide (v.X = Int.ofNat 31)) = true := by
        have : ¬ v.X = 31 := fun h => c2 (hx31.mp h)
        simp [c1, this]
      have cm : s.regs.assocStack ≠ [] ∧ xOf d.id.toNat ≠ 31 := ⟨fun h => c1 (he.mp h), c2⟩
      rw [if_pos cg, if_pos cm]
      subst hd
      exact corrV_of_corr (hcb.assoc _ _ _ habs) v rfl hvX

theorem qaOfTag_cases {ps : CoderState.Self D V} (hwf : WF ps) :
    (ps.status_qa_info_follows = QA_INFO_NA ∧ qaOfTag ps.status_qa_info_follows = .na) ∨
    (ps.status_qa_info_follows = QA_INFO_WAITING ∧ qaOfTag ps.status_qa_info_follows = .waiting) ∨
    (ps.status_qa_info_follows = QA_INFO_PROCESSING ∧ qaOfTag ps.status_qa_info_follows = .processing) := by
  rcases hwf.2.2.2.2.2.2.1 with h | h | h <;> rw [h] <;> simp [qaOfTag, QA_INFO_NA, QA_INFO_WAITING, QA_INFO_PROCESSING]

theorem regs_qa {φ : D → Elem} {ps : CoderState.Self D V} {r : Regs} (h : Rep φ ps r) :
    r.qa = qaOfTag ps.status_qa_info_follows := by
  obtain ⟨_, nr, rfl, _⟩ := h
  rfl

/-- a change of the QA status register on both sides -/
theorem absSt_setQa {φ : D → Elem} {A : PyData D V → B → StData → Prop} {ps : CoderState.Self D V} {b : B} {s : St}
    (h : AbsSt φ A ps b s) (t : Int) (q : QaStatus) (ht : t = QA_INFO_NA ∨ t = QA_INFO_WAITING ∨ t = QA_INFO_PROCESSING)
    (hq : qaOfTag t = q) :
    AbsSt φ A { ps with status_qa_info_follows := t } b (s.setRegs fun r => { r with qa := q }) := by
  refine absSt_setRegs h _ rfl ?_
  obtain ⟨hwf, nr, hr, href⟩ := h.1
  refine ⟨?_, nr, ?_, href⟩
  · simp only [WF] at hwf ⊢
    obtain ⟨w1, w2, w3, w4, w5, w6, w7, w8, w9, w10⟩ := hwf
    exact ⟨w1, w2, w3, w4, w5, w6, ht, w8, w9, w10⟩
  · rw [hr]; simp [regsOf, hq]

/-- the model's step for class 33 / QA information (second statement of `elementDescriptor`) -/
def qaStep (x : Nat) (s : St) : CM St :=
  if x = 33 then
    let s1 := if s.regs.qa = .waiting then s.setRegs fun r => { r with qa := .processing } else s
    if s1.regs.qa = .processing then do
      let ((owner, _), s2) ← nextBitmapped s1
      pure (addLink s2 owner)
    else pure s1
  else
    pure (if s.regs.qa = .processing then s.setRegs fun r => { r with qa := .na } else s)

/-- `add_bitmap_link` on a corresponding state, put back into the locals -/
theorem link_step (φ : D → Elem) (A : PyData D V → B → StData → Prop) (hA : LinkClosed A) (d : ElementDescriptor.Self)
    (v : Locals D V B) (ps1 : CoderState.Self D V) (s1 : St) (h1 : AbsSt φ A ps1 v.bit_operator s1)
    (hd : v.descriptor = d) (hX : v.X = d.X) :
    CorrV φ A d
      (CoderState.add_bitmap_link ps1 >>= fun t => pure { v with state := t })
      (nextBitmapped s1 >>= fun p => pure (addLink p.2 p.1.1)) := by
  have hc := add_bitmap_link_corr φ ps1 s1 h1.1
  cases hl : CoderState.add_bitmap_link ps1 with
  | error e =>
    cases hn : nextBitmapped s1 with
    | error e' => rw [hl, hn] at hc; exact hc
    | ok p => rw [hl, hn] at hc; exact hc.elim
  | ok ps' =>
    cases hn : nextBitmapped s1 with
    | error e' => rw [hl, hn] at hc; exact hc.elim
    | ok p =>
      obtain ⟨⟨owner, e⟩, s2⟩ := p
      rw [hl, hn] at hc
      obtain ⟨i, d', rest, hnx, rfl, _, rfl, hrep, hdata⟩ := hc
      refine ⟨⟨hrep, ?_, ?_⟩, hd, hX⟩
      · have := congrArg StData.descs hdata
        simp only [St.data] at this
        show ps1.decoded_descriptors.length = s2.descs.length
        rw [this]; exact h1.2.1
      · have hl' := hA _ _ _ i h1.2.2
        have e1 : (addLink s2 i.toNat).data = { s1.data with links := (s1.data.descs.length, i.toNat) :: s1.data.links } := by
          have h2 : s2.data = s1.data := hdata
          simp only [St.data, StData.mk.injEq] at h2
          obtain ⟨a1, a2, a3, a4, a5, a6, a7⟩ := h2
          simp [addLink, St.data, a1, a2, a3, a4, a5, a6, a7]
        rw [e1]
        exact hl'

/-- statement 3: class 33 under 222000 (QA information): status transitions and the bitmap link -/
theorem elem_stmt3 (φ : D → Elem) (A : PyData D V → B → StData → Prop) (hA : LinkClosed A) (cb : Callbacks D V B)
    (d : ElementDescriptor.Self) (hX : d.X = (xOf d.id.toNat : Int)) (v : Locals D V B) (s : St) (h : AbsV φ A d v s) :
    CorrV φ A d (stmt_3 cb v) (qaStep (xOf d.id.toNat) s) := by
  obtain ⟨habs, hd, hvX⟩ := h
  have hx33 : (v.X = 33) ↔ xOf d.id.toNat = 33 := by rw [hvX, hX]; omega
  have hq := regs_qa habs.1
  unfold stmt_3 qaStep
  by_cases c33 : xOf d.id.toNat = 33
  · have cg : decide (v.X = Int.ofNat 33) = true := by simpa using hx33.mpr c33
    rw [if_pos cg, if_pos c33]
    rcases qaOfTag_cases habs.1.1 with ⟨ht, hm⟩ | ⟨ht, hm⟩ | ⟨ht, hm⟩
    · -- not in a QA block
      rw [hm] at hq
      simp [ht, hq, QA_INFO_NA, QA_INFO_WAITING, QA_INFO_PROCESSING, exc_pure]
      exact (⟨habs, hd, hvX⟩ : AbsV φ A d v s)
    · -- first class-33 element after 222000: WAITING -> PROCESSING, then the link
      rw [hm] at hq
      have h1 := absSt_setQa habs QA_INFO_PROCESSING .processing (Or.inr (Or.inr rfl)) (by decide)
      simp [ht, hq, QA_INFO_NA, QA_INFO_WAITING, QA_INFO_PROCESSING, exc_pure, St.setRegs]
      exact link_step φ A hA d _ _ _ h1 hd hvX
    · rw [hm] at hq
      simp [ht, hq, QA_INFO_NA, QA_INFO_WAITING, QA_INFO_PROCESSING, exc_pure]
      exact link_step φ A hA d v _ _ habs hd hvX
  · have cg : ¬ (decide (v.X = Int.ofNat 33) = true) := by
      have : ¬ v.X = 33 := fun h => c33 (hx33.mp h)
      simpa using this
    rw [if_neg cg, if_neg c33]
    rcases qaOfTag_cases habs.1.1 with ⟨ht, hm⟩ | ⟨ht, hm⟩ | ⟨ht, hm⟩
    · rw [hm] at hq
      simp [ht, hq, QA_INFO_NA, QA_INFO_WAITING, QA_INFO_PROCESSING, exc_pure]
      exact (⟨habs, hd, hvX⟩ : AbsV φ A d v s)
    · rw [hm] at hq
      simp [ht, hq, QA_INFO_NA, QA_INFO_WAITING, QA_INFO_PROCESSING, exc_pure]
      exact (⟨habs, hd, hvX⟩ : AbsV φ A d v s)
    · rw [hm] at hq
      have h1 := absSt_setQa habs QA_INFO_NA .na (Or.inl rfl) (by decide)
      simp [ht, hq, QA_INFO_NA, QA_INFO_WAITING, QA_INFO_PROCESSING, exc_pure]
      show AbsV φ A d _ _
      exact ⟨h1, hd, hvX⟩

/-- the model's dispatch on the kind of the element (last statement of `elementDescriptor`) -/
def kindStep (P : Prims) (dd : DDesc) (e : Elem) (s : St) : CM St :=
  match e.kind with
  | .string =>
    let nbytes := if s.regs.newNbytes ≠ 0 then s.regs.newNbytes else e.nbits / 8
    P.string dd nbytes s
  | .codeflag => P.codeflag dd e.nbits s
  | .numeric =>
    let nbits : Int := (e.nbits : Int) + s.regs.nbitsOffset + s.regs.nbitsInc
    let scale : Int := e.scale + s.regs.scaleOffset + s.regs.scaleInc
    match lookupRef s.regs.newRefvals e.id with
    | none => P.numeric dd nbits scale (e.ref * s.regs.refFactor) s
    | some nr => P.numeric dd nbits scale (nr * s.regs.refFactor) s

theorem elementDescriptor_steps (P : Prims) (dd : DDesc) (e : Elem) (s : St) :
    elementDescriptor P dd e s =
      ((if s.regs.assocStack ≠ [] ∧ xOf e.id ≠ 31 then associatedField P e.id s else pure s) >>= fun s =>
        qaStep (xOf e.id) s >>= fun s => kindStep P dd e s) := rfl

/-- statement 4: string / code-flag / numeric with the effective width, scale and reference -/
theorem elem_stmt4 (φ : D → Elem) (A : PyData D V → B → StData → Prop) (cb : Callbacks D V B) (P : Prims)
    (dd : DDesc) (d : ElementDescriptor.Self) (hcb : CbCorrE φ A cb P dd d) (hid : 0 ≤ d.id) (hnb : 0 ≤ d.nbits)
    (v : Locals D V B) (s : St) (h : AbsV φ A d v s) :
    Corr φ A (stmt_4 cb v >>= fun v => pure (v.state, v.bit_operator)) (kindStep P dd (elemOf d) s) := by
  obtain ⟨habs, hd, hvX⟩ := h
  subst hd
  obtain ⟨hwf, nr, hr, href⟩ := habs.1
  obtain ⟨w1, w2, w3, w4, w5, w6, w7, w8, w9, w10⟩ := hwf
  unfold stmt_4 kindStep
  have hk : (elemOf v.descriptor).kind = TableDef.kindOfUnit v.descriptor.unit := rfl
  rw [hk, TableDef.C20_src_const_units_aux]
  have hnn : s.regs.newNbytes = v.state.new_nbytes.toNat := by rw [hr]; rfl
  by_cases cs : v.descriptor.unit = UNITS_STRING
  · have cg : decide (v.descriptor.unit = UNITS_STRING) = true := by simpa using cs
    rw [if_pos cg, if_pos cs]
    have hN : (if (!decide (v.state.new_nbytes = 0)) = true then v.state.new_nbytes
          else Int.fdiv v.descriptor.nbits (Int.ofNat 8)) =
        (((if s.regs.newNbytes ≠ 0 then s.regs.newNbytes else (elemOf v.descriptor).nbits / 8 : Nat)) : Int) := by
      rw [hnn]
      by_cases c0 : v.state.new_nbytes = 0
      · simp [c0, elemOf, Int.fdiv_eq_ediv_of_nonneg, hnb]
        omega
      · have : v.state.new_nbytes.toNat ≠ 0 := by omega
        simp [c0, this]
        omega
    simp only [hN]
    exact corr_of_corrV_final (hcb.string _ _ _ _ habs) _ (fun t => rfl)
  · have cg : ¬ (decide (v.descriptor.unit = UNITS_STRING) = true) := by simpa using cs
    rw [if_neg cg, if_neg cs]
    by_cases cf : v.descriptor.unit = UNITS_FLAG_TABLE ∨ v.descriptor.unit = UNITS_CODE_TABLE
    · have cg2 : (decide (v.descriptor.unit = UNITS_FLAG_TABLE) || decide (v.descriptor.unit = UNITS_CODE_TABLE)) = true := by
        simpa using cf
      rw [if_pos cg2, if_pos cf]
      have hN : v.descriptor.nbits = (((elemOf v.descriptor).nbits : Nat) : Int) := by simp [elemOf]; omega
      have := hcb.codeflag _ _ _ (elemOf v.descriptor).nbits habs
      rw [← hN] at this
      exact corr_of_corrV_final this _ (fun t => rfl)
    · have cg2 : ¬ ((decide (v.descriptor.unit = UNITS_FLAG_TABLE) || decide (v.descriptor.unit = UNITS_CODE_TABLE)) = true) := by
        simpa using cf
      rw [if_neg cg2, if_neg cf]
      have hb : v.state.bsr_modifier = bsrOf s.regs.y207 := by rw [hr]; exact w4.2
      have hnbits : v.descriptor.nbits + v.state.nbits_offset + v.state.bsr_modifier.nbits_increment =
          ((elemOf v.descriptor).nbits : Int) + s.regs.nbitsOffset + s.regs.nbitsInc := by
        rw [hb]; simp only [bsrOf, Regs.nbitsInc, elemOf]; rw [hr]; simp [regsOf]; omega
      have hscale : v.descriptor.scale + v.state.scale_offset + v.state.bsr_modifier.scale_increment =
          (elemOf v.descriptor).scale + s.regs.scaleOffset + s.regs.scaleInc := by
        rw [hb]; simp only [bsrOf, Regs.scaleInc, elemOf]; rw [hr]; simp [regsOf]
      have hfac : v.state.bsr_modifier.refval_factor = s.regs.refFactor := by
        rw [hb]; simp [bsrOf, Regs.refFactor]
      have hlk : lookupRef s.regs.newRefvals (elemOf v.descriptor).id = v.state.new_refvals.lookup v.descriptor.id := by
        have : s.regs.newRefvals = nr := by rw [hr]
        rw [this, href]; simp [elemOf, Int.toNat_of_nonneg hid]
      cases hl : v.state.new_refvals.lookup v.descriptor.id with
      | none =>
        rw [hl] at hlk
        have cg3 : (!Py.dictContains v.state.new_refvals v.descriptor.id) = true := by simp [Py.dictContains, hl]
        rw [if_pos cg3]
        simp only [hlk, hnbits, hscale, hfac]
        exact corr_of_corrV_final (hcb.numeric _ _ _ _ _ _ habs) _ (fun t => rfl)
      | some x =>
        rw [hl] at hlk
        have cg3 : ¬ ((!Py.dictContains v.state.new_refvals v.descriptor.id) = true) := by simp [Py.dictContains, hl]
        rw [if_neg cg3]
        simp only [hlk, hnbits, hscale, hfac]
        exact corr_of_corrV_final (hcb.numericNew _ _ _ _ _ _ x habs hlk) _ (fun t => rfl)

theorem exc_bind_assoc {ε α β γ : Type} (x : Except ε α) (f : α → Except ε β) (g : β → Except ε γ) :
    (x >>= f) >>= g = x >>= fun a => f a >>= g := by
  cases x <;> rfl

theorem corrV_bind_final {φ : D → Elem} {A : PyData D V → B → StData → Prop} {d : ElementDescriptor.Self}
    {x : Except Py.Exc (Locals D V B)} {y : CM St} (hxy : CorrV φ A d x y)
    (f : Locals D V B → Except Py.Exc (CoderState.Self D V × B)) (g : St → CM St)
    (hfg : ∀ v s, AbsV φ A d v s → Corr φ A (f v) (g s)) : Corr φ A (x >>= f) (y >>= g) := by
  cases x with
  | error e => cases y with
    | error e' => exact hxy
    | ok s' => exact hxy.elim
  | ok p => cases y with
    | error e' => exact hxy.elim
    | ok s' => exact hfg p s' hxy

/-- the generated `process_element_descriptor` against the model's `elementDescriptor` -/
theorem elem_core (φ : D → Elem) (A : PyData D V → B → StData → Prop) (hA : LinkClosed A) (cb : Callbacks D V B)
    (P : Prims) (dd : DDesc) (d : ElementDescriptor.Self) (hcb : CbCorrE φ A cb P dd d)
    (hid : 0 ≤ d.id) (hX : d.X = (xOf d.id.toNat : Int)) (hnb : 0 ≤ d.nbits)
    (ps : CoderState.Self D V) (b : B) (s : St) (h : AbsSt φ A ps b s) :
    Corr φ A (Coder.process_element_descriptor cb ps b d) (elementDescriptor P dd (elemOf d) s) := by
  rw [elementDescriptor_steps]
  simp only [Coder.process_element_descriptor, exc_bind_assoc]
  refine corrV_bind_final (elem_stmt2 φ A cb P dd d hcb hX _ s ⟨h, rfl, rfl⟩) _ _ ?_
  intro v1 s1 h1
  refine corrV_bind_final (elem_stmt3 φ A hA cb d hX v1 s1 h1) _ _ ?_
  intro v2 s2 h2
  exact elem_stmt4 φ A cb P dd d hcb hid hnb v2 s2 h2

end Bufr
