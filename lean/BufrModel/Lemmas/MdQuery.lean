/-
  Helper lemmas and the layout-name predicate for C17.
-/
import BufrModel.Lang.MdQuery
import BufrModel.Gen.Layouts
namespace Bufr
open MdQuery

theorem splitDot_nodot (s : List Char) (h : '.' ∉ s) : splitDot s = [s] := by
  induction s with
  | nil => rfl
  | cons c cs ih =>
    have hc : c ≠ '.' := fun e => h (by simp [e])
    have hcs : '.' ∉ cs := fun m => h (List.mem_cons_of_mem _ m)
    simp only [splitDot, hc, if_false, ih hcs]

theorem splitDot_one (a b : List Char) (ha : '.' ∉ a) (hb : '.' ∉ b) : splitDot (a ++ '.' :: b) = [a, b] := by
  induction a with
  | nil => simp only [List.nil_append, splitDot, if_true, splitDot_nodot b hb]
  | cons c cs ih =>
    have hc : c ≠ '.' := fun e => ha (by simp [e])
    have hcs : '.' ∉ cs := fun m => ha (List.mem_cons_of_mem _ m)
    simp only [List.cons_append, splitDot, hc, if_false, ih hcs]

theorem filter_selects_none (secs : List DecSection) : secs.filter (selects none) = secs := by
  simp [selects]

theorem all_takeWhile {β : Type} (p : β → Bool) (l : List β) : (l.takeWhile p).all p = true := by
  induction l with
  | nil => rfl
  | cons a l ih =>
    by_cases h : p a = true
    · simp only [List.takeWhile_cons, h, if_true, List.all_cons, ih, Bool.and_self]
    · simp only [List.takeWhile_cons, h, if_false, List.all_nil, Bool.false_eq_true]

/-- does the layout configured for section `idx` of edition `ed` have a parameter called `n`? -/
def cfgHas (ed idx : Nat) (n : String) : Bool :=
  match getCfg Gen.layouts idx ed with
  | .ok s => s.hasParam n
  | .error _ => false

end Bufr
