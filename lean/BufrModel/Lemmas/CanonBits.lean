/-
  C02 lemmas, uncompressed part: the encoder's uncompressed primitives ARE the code-writing primitives
  of the specification (`Spec/CanonBits.lean`): `encPrimsU = canonPrimsU`, field by field
  (round-half-even, the unsigned writer with its refusals, the missing pattern, sign and magnitude).
-/
import BufrModel.Spec.CanonBits
import BufrModel.Lemmas.Quant
import BufrModel.Lemmas.Column
namespace Bufr
open Bufr.Spec

/-- `Option` into the encoder's error monad: every refusal of a primitive is `Err.other` -/
def ofOpt {α : Type} : Option α → CM α
  | some a => .ok a
  | none => .error .other

theorem roundHalfEven_eq (a : Int) (b : Nat) (hb : 0 < b) : roundHalfEven a b = roundHalfEvenDiv a b := by
  symm
  rw [rhe_iff a b hb]
  unfold roundHalfEven
  simp only []
  have hb2 : (0 : Int) < 2 * (b : Int) := by omega
  have h1 := Int.emod_nonneg (2 * a + (b : Int)) (Int.ne_of_gt hb2)
  have h2 := Int.emod_lt_of_pos (2 * a + (b : Int)) hb2
  have h3 := Int.emod_add_mul_ediv (2 * a + (b : Int)) (2 * (b : Int))
  generalize (2 * a + (b : Int)) / (2 * (b : Int)) = q at *
  generalize (2 * a + (b : Int)) % (2 * (b : Int)) = r at *
  have hq : 2 * (b : Int) * q = 2 * (q * (b : Int)) := by rw [Int.mul_assoc, Int.mul_comm (b : Int) q]
  rw [hq] at h3
  split
  · rename_i hc
    have hm : (q - 1) * (b : Int) = q * (b : Int) - (b : Int) := by rw [Int.sub_mul, Int.one_mul]
    rw [hm]
    right
    constructor <;> omega
  · rename_i hc
    by_cases hr : r = 0
    · right
      constructor <;> omega
    · left; omega

theorem quantise_eq (v : Val) (scale : Int) : quantise v scale = ofOpt (scaledRound v scale) := by
  cases v with
  | missing => rfl
  | bytes b => rfl
  | int i =>
    simp only [quantise, scaledRound, ofOpt]
    by_cases h0 : scale = 0
    · subst h0; simp
    · simp only [h0, if_false]
      by_cases h1 : 0 ≤ scale
      · simp [h1]
      · simp only [h1, if_false, roundHalfEven_eq _ _ (pow10_pos _)]
  | num m k =>
    simp only [quantise, scaledRound]
    by_cases h0 : scale = 0
    · simp [h0, ofOpt]
    · simp only [h0, if_false, ofOpt]
      by_cases h1 : 0 ≤ scale - k
      · simp only [h1, if_true]
      · simp only [h1, if_false, roundHalfEven_eq _ _ (pow10_pos _)]

theorem fieldUInt_eq (raw : Int) (w : Nat) : fieldUInt raw w = ofOpt (uintCode w raw) := by
  unfold fieldUInt writeUInt uintCode ofOpt
  by_cases hw : w = 0
  · simp [hw]
  · by_cases hr : raw < 0
    · have : ¬ (0 ≤ raw) := by omega
      simp [hw, hr, this]
    · by_cases h2 : 2 ^ w ≤ raw.toNat
      · have : ¬ raw < 2 ^ w := by
          intro h
          have : ((raw.toNat : Nat) : Int) = raw := Int.toNat_of_nonneg (by omega)
          have h3 : ((2 ^ w : Nat) : Int) ≤ ((raw.toNat : Nat) : Int) := by exact_mod_cast h2
          rw [this] at h3
          have : ((2 ^ w : Nat) : Int) = (2 : Int) ^ w := by norm_cast
          omega
        simp [hw, hr, h2, this]
      · have : raw < 2 ^ w := by
          have h3 : ((raw.toNat : Nat) : Int) < ((2 ^ w : Nat) : Int) := by exact_mod_cast (Nat.lt_of_not_le h2)
          have h4 : ((raw.toNat : Nat) : Int) = raw := Int.toNat_of_nonneg (by omega)
          have : ((2 ^ w : Nat) : Int) = (2 : Int) ^ w := by norm_cast
          omega
        have hw' : 0 < w := by omega
        have h0 : 0 ≤ raw := by omega
        simp [hw, hr, h2, this, hw', h0]


theorem ofOpt_bind {α β : Type} (o : Option α) (f : α → Option β) :
    ofOpt (o.bind f) = (ofOpt o).bind fun a => ofOpt (f a) := by
  cases o <;> rfl

theorem missingField_eq (n : Nat) :
    ((missingPattern n).bind fun p => fieldUInt p n) = ofOpt (missingCode n) := by
  unfold missingCode
  by_cases h64 : n ≤ 64
  · by_cases hn : 0 < n
    · have hp : 2 ^ n - 1 < 2 ^ n := by have := Nat.two_pow_pos n; omega
      simp only [missingPattern_ok n h64, Except.bind, fieldUInt_ofNat n _ hn hp, toBits_max, hn, h64,
        and_self, if_true, ofOpt]
    · have : n = 0 := by omega
      subst this
      simp [missingPattern, Except.bind, fieldUInt, writeUInt, ofOpt]
  · have h : 64 < n := by omega
    have h' : ¬ (0 < n ∧ n ≤ 64) := by omega
    simp only [missingPattern, h, if_true, Except.bind, h', if_false, ofOpt]

theorem numericField_eq (v : Val) (scale ref nbits : Int) (h : 0 < nbits) :
    numericField v scale ref nbits.toNat = ofOpt (fieldCode (.numeric nbits scale ref) v) := by
  have hn : ¬ nbits ≤ 0 := by omega
  cases v with
  | missing => simp only [numericField, fieldCode, hn, if_false, missingField_eq]
  | int i =>
    simp only [numericField, fieldCode, hn, if_false, quantise_eq, ofOpt_bind, fieldUInt_eq]
  | num m k =>
    simp only [numericField, fieldCode, hn, if_false, quantise_eq, ofOpt_bind, fieldUInt_eq]
  | bytes b =>
    simp only [numericField, fieldCode, hn, if_false, quantise_eq, ofOpt_bind, fieldUInt_eq]

theorem emit_of_curVal (dd : DDesc) (spec : FieldSpec) (s : St) (v : Val) (h : s.curVal = some v) :
    emit dd spec s = (ofOpt (fieldCode spec v)).map (s.afterWrite dd) := by
  unfold emit
  rw [h]
  simp only [Option.bind_some]
  cases fieldCode spec v <;> rfl

theorem emit_noval (dd : DDesc) (spec : FieldSpec) (s : St) (h : s.curVal = none) :
    emit dd spec s = .error .other := by
  unfold emit; rw [h]; rfl

theorem encNumericU_canon (dd : DDesc) (nbits scale ref : Int) (s : St) :
    encNumericU dd nbits scale ref s = emit dd (.numeric nbits scale ref) s := by
  cases hv : s.curVal with
  | none => rw [encNumericU_noval _ _ _ _ _ hv, emit_noval _ _ _ hv]
  | some v =>
    rw [emit_of_curVal _ _ _ _ hv]
    by_cases hn : nbits ≤ 0
    · rw [encNumericU_badwidth _ _ _ _ _ _ hv hn]
      simp [fieldCode, hn, ofOpt, Except.map]
    · have hw : natWidth nbits = .ok nbits.toNat := by simp [natWidth, hn]
      rw [encNumericU_eq _ _ _ _ _ _ _ hv hw, numericField_eq _ _ _ _ (by omega)]

theorem codeflagField_eq (v : Val) (n : Nat) : codeflagField v n = ofOpt (fieldCode (.uint n) v) := by
  cases v with
  | missing => simp only [codeflagField, fieldCode, missingField_eq]
  | int i => simp only [codeflagField, fieldCode, fieldUInt_eq]
  | num m k => rfl
  | bytes b => rfl

theorem encCodeflagU_canon (dd : DDesc) (n : Nat) (s : St) :
    encCodeflagU dd n s = emit dd (.uint n) s := by
  cases hv : s.curVal with
  | none => rw [encCodeflagU_noval _ _ _ hv, emit_noval _ _ _ hv]
  | some v => rw [emit_of_curVal _ _ _ _ hv, encCodeflagU_eq _ _ _ _ hv, codeflagField_eq]

theorem encStringU_canon (dd : DDesc) (k : Nat) (s : St) :
    encStringU dd k s = emit dd (.chars k) s := by
  cases hv : s.curVal with
  | none => rw [encStringU_noval _ _ _ hv, emit_noval _ _ _ hv]
  | some v =>
    rw [emit_of_curVal _ _ _ _ hv, encStringU_eq _ _ _ _ hv]
    cases v <;> rfl

theorem fieldInt_eq (i : Int) (n : Nat) : fieldInt i n = ofOpt (fieldCode (.newRef n) (.int i)) := by
  simp only [fieldCode]
  by_cases h : 1 < n ∧ i.natAbs < 2 ^ (n - 1)
  · simp only [h, and_self, if_true, ofOpt, fieldInt_ok i n h.1 h.2]
  · simp only [h, if_false, ofOpt]
    cases hf : fieldInt i n with
    | error e => rw [fieldInt_error hf]
    | ok f => exact absurd (let ⟨a, b, _⟩ := fieldInt_inv hf; ⟨a, b⟩) h

theorem encNewRefvalU_canon (e : Elem) (n : Nat) (s : St) :
    encNewRefvalU e n s = canonPrimsU.newRefval e n s := by
  show _ = (match s.curVal with
    | some (.int i) => emit (.plain e) (.newRef n) (setNewRefval s e.id i)
    | _ => .error .other)
  cases hv : s.curVal with
  | none => rw [encNewRefvalU_noval _ _ _ hv]
  | some v =>
    rw [encNewRefvalU_eq _ _ _ _ hv]
    cases v with
    | int i =>
      have hv' : (setNewRefval s e.id i).curVal = some (.int i) := hv
      simp only [emit_of_curVal _ _ _ _ hv', fieldInt_eq]
    | missing => rfl
    | num m k => rfl
    | bytes b => rfl

theorem encConstantU_canon (dd : DDesc) (c : Int) (s : St) :
    encConstantU dd c s = emit dd (.const c) s := by
  cases hv : s.curVal with
  | none =>
    rw [emit_noval _ _ _ hv]
    simp only [St.curVal] at hv
    simp [encConstantU, nthVal, hv, bind, Except.bind]
  | some v =>
    rw [emit_of_curVal _ _ _ _ hv]
    simp only [St.curVal] at hv
    simp only [encConstantU, nthVal, hv, bind, Except.bind, fieldCode]
    by_cases h : v = .int c
    · simp [h, ofOpt, Except.map, St.afterWrite, St.pushDesc, pure, Except.pure]
    · simp [h, ofOpt, Except.map]

theorem encPrimsU_eq_canon : encPrimsU = canonPrimsU := by
  unfold encPrimsU canonPrimsU
  congr
  · funext dd w sc rf s; exact encNumericU_canon dd w sc rf s
  · funext dd k s; exact encStringU_canon dd k s
  · funext dd w s; exact encCodeflagU_canon dd w s
  · funext e w s; exact encNewRefvalU_canon e w s
  · funext dd c s; exact encConstantU_canon dd c s

end Bufr
