/-
  The decoder half of C05 at walk level.

  * `encPrimsCT` — the compressed encoder, checked for TRANSPARENCY: `encPrimsCX` (`SimComp.lean`)
    instrumented with ghost rows (`St.forced`: per subset, the values a decoder will return, most
    recent first) and with the refusals without which compressed and uncompressed decoding differ
    (see the docstring of `encPrimsCT`).
  * `primSim_ct_dec`   : `encPrimsCT ⟶ decPrimsC`   (indexed, like `primSim_enc_dec`): every column
    written is read back by the compressed decoder as the column of canonical values.
  * `primSim_ct_ux k`  : `encPrimsCT ⟶ encPrimsUX`  (projection onto subset `k`): the checked
    UNCOMPRESSED encoder accepts subset `k` alone and computes the same canonical values.
  * `primSim_ct_cx`    : `encPrimsCT ⟶ encPrimsCX`  (erasure of the ghost rows and extra refusals).
-/
import BufrModel.Lemmas.SimComp
import BufrModel.Lemmas.CompFactors
import BufrModel.Lemmas.SimCanon
import BufrModel.Lemmas.Column
import BufrModel.Props.C05
set_option linter.unusedSimpArgs false
set_option linter.unusedVariables false
namespace Bufr

/-! ### `mapM` in `Except`, element-wise -/

theorem ct_mapM_rel2 {α β : Type} (f : α → Except Err β) :
    ∀ (l : List α) (r : List β), List.mapM (m := Except Err) f l = .ok r →
      Rel2 (fun a b => f a = .ok b) l r
  | [], r, h => by cases h; exact .nil
  | x :: xs, r, h => by
    rw [List.mapM_cons] at h
    cases hx : f x with
    | error e => rw [hx] at h; cases h
    | ok b =>
      rw [hx] at h
      cases hxs : List.mapM (m := Except Err) f xs with
      | error e => rw [hxs] at h; cases h
      | ok bs =>
        rw [hxs] at h
        cases h
        exact .cons hx (ct_mapM_rel2 f xs bs hxs)

theorem ct_mapM_length {α β : Type} {f : α → Except Err β} {l : List α} {r : List β}
    (h : List.mapM (m := Except Err) f l = .ok r) : r.length = l.length :=
  (ct_mapM_rel2 f l r h).length_eq.symm

theorem ct_rel2_map {α β γ : Type} {f : α → Except Err β} {l : List α} {r : List β}
    (h : Rel2 (fun a b => f a = .ok b) l r) (p : β → γ) (g : α → γ)
    (hg : ∀ a ∈ l, ∀ b, f a = .ok b → p b = g a) : r.map p = l.map g := by
  induction h with
  | nil => rfl
  | cons h1 _ ih =>
    simp only [List.map_cons]
    rw [hg _ (by simp) _ h1, ih (fun a ha b hb => hg a (by simp [ha]) b hb)]

theorem ct_rel2_ok {α β : Type} {f : α → Except Err β} {l : List α} {r : List β}
    (h : Rel2 (fun a b => f a = .ok b) l r) : ∀ a ∈ l, ∃ b, f a = .ok b := by
  induction h with
  | nil => intro a ha; cases ha
  | cons h1 _ ih =>
    intro a ha
    rcases List.mem_cons.mp ha with rfl | ha
    · exact ⟨_, h1⟩
    · exact ih a ha

theorem ct_mapM_of_forall {α β : Type} (f : α → Except Err β) (g : α → β) :
    ∀ (l : List α), (∀ a ∈ l, f a = .ok (g a)) → List.mapM (m := Except Err) f l = .ok (l.map g)
  | [], _ => rfl
  | x :: xs, h => by
    rw [List.mapM_cons, h x (by simp), ct_mapM_of_forall f g xs (fun a ha => h a (by simp [ha]))]
    rfl

/-! ### columns in step shape, decoder side -/

/-- column reader: number of subsets ↦ reader of (the column of values, register update) -/
abbrev RdC := Nat → R (List Val × (Regs → Regs))

def decStepC (dd : DDesc) (rd : RdC) (t : St) : CM St :=
  match rd t.vals.length t.bits with
  | .error e => .error e
  | .ok ((col, g), rest) =>
    .ok { t with regs := g t.regs, descs := dd :: t.descs, bits := rest,
                 vals := List.zipWith (· :: ·) col t.vals }

def rdNumericC (nbits scale ref : Int) : RdC := fun m bs => do
  let n ← natWidth nbits
  let (col, r) ← readColumn n m bs
  pure ((col.map fun v => numVal v scale ref, id), r)

def rdCodeflagC (n : Nat) : RdC := fun m bs => do
  let (col, r) ← readColumn n m bs
  pure ((col.map (codeflagVal n), id), r)

def rdStringC (n : Nat) : RdC := fun m bs => do
  let (col, r) ← readStringColumn n m bs
  pure ((col.map Val.bytes, id), r)

def rdNewRefvalC (id n : Nat) : RdC := fun m bs => do
  let (v, r) ← readInt n bs
  let (nd, r') ← readUInt 6 r
  if nd ≠ 0 then .error .other
  else pure ((List.replicate m (.int v), updNewRefval id v), r')

def rdConstantC (c : Int) : RdC := fun m bs => .ok ((List.replicate m (.int c), id), bs)

theorem ct_zipWith_replicate (v : Val) : ∀ (l : List (List Val)),
    List.zipWith (· :: ·) (List.replicate l.length v) l = l.map (v :: ·)
  | [] => rfl
  | x :: xs => by
    simp only [List.length_cons, List.replicate_succ, List.zipWith_cons_cons, List.map_cons,
      ct_zipWith_replicate v xs]

theorem decNumericC_eq (dd : DDesc) (nbits scale ref : Int) (t : St) :
    decNumericC dd nbits scale ref t = decStepC dd (rdNumericC nbits scale ref) t := by
  unfold decNumericC decStepC rdNumericC St.read St.pushDesc St.pushCol
  simp only [bind, Except.bind, pure, Except.pure]
  cases hn : natWidth nbits with
  | error e => rfl
  | ok n =>
    simp only []
    cases hr : readColumn n t.vals.length t.bits with
    | error e => rfl
    | ok x => rfl

theorem decCodeflagC_eq (dd : DDesc) (n : Nat) (t : St) :
    decCodeflagC dd n t = decStepC dd (rdCodeflagC n) t := by
  unfold decCodeflagC decStepC rdCodeflagC St.read St.pushDesc St.pushCol
  simp only [bind, Except.bind, pure, Except.pure]
  cases hr : readColumn n t.vals.length t.bits with
  | error e => rfl
  | ok x => rfl

theorem decStringC_eq (dd : DDesc) (n : Nat) (t : St) :
    decStringC dd n t = decStepC dd (rdStringC n) t := by
  unfold decStringC decStepC rdStringC St.read St.pushDesc St.pushCol
  simp only [bind, Except.bind, pure, Except.pure]
  cases hr : readStringColumn n t.vals.length t.bits with
  | error e => rfl
  | ok x => rfl

theorem decNewRefvalC_eq (e : Elem) (n : Nat) (t : St) :
    decNewRefvalC e n t = decStepC (.plain e) (rdNewRefvalC e.id n) t := by
  unfold decNewRefvalC decStepC rdNewRefvalC St.read St.pushDesc St.pushAll setNewRefval St.setRegs
  simp only [bind, Except.bind, pure, Except.pure]
  cases hr : readInt n t.bits with
  | error e => rfl
  | ok x =>
    obtain ⟨v, r⟩ := x
    simp only []
    cases hr2 : readUInt 6 r with
    | error e => rfl
    | ok y =>
      obtain ⟨nd, r'⟩ := y
      simp only []
      by_cases hnd : nd = 0
      · simp only [hnd, ne_eq, not_true_eq_false, if_false, ct_zipWith_replicate, updNewRefval]
      · simp only [hnd, ne_eq, not_false_eq_true, if_true]

theorem decConstantC_eq (dd : DDesc) (c : Int) (t : St) :
    decConstant dd c t = decStepC dd (rdConstantC c) t := by
  unfold decConstant decStepC rdConstantC St.pushDesc St.pushAll
  simp only [ct_zipWith_replicate]
  rfl

/-! ### the integer column, from the supplied values to the column read back -/

theorem ct_catBits_cons {x : CM Bits} {xs : List (CM Bits)} {f : Bits} (h : catBits (x :: xs) = .ok f) :
    ∃ a b, x = .ok a ∧ catBits xs = .ok b ∧ f = a ++ b := by
  unfold catBits at h
  cases hx : x with
  | error e => rw [hx] at h; cases h
  | ok a =>
    rw [hx] at h
    dsimp only at h
    cases hxs : catBits xs with
    | error e => rw [hxs] at h; cases h
    | ok b => rw [hxs] at h; cases h; exact ⟨a, b, rfl, rfl, rfl⟩

/-- the general path of the encoder succeeds only when the spread of the column fits the 6-bit
    increment width: `Spec.SpanOK` is implied by success -/
theorem ct_spanOK_of_enc (w : Nat) (raws : List (Option Nat)) (f : Bits)
    (hne : ∃ x, some x ∈ raws)
    (h : intColumnBits (raws.map (Option.map Int.ofNat)) w = .ok f) : Spec.SpanOK raws := by
  obtain ⟨x0, hx0⟩ := hne
  cases hmin : Spec.colMin raws with
  | none => have := (colMin_none_iff raws).mp hmin _ hx0; cases this
  | some lo =>
    cases hmax : Spec.colMax raws with
    | none => have := (colMax_none_iff raws).mp hmax _ hx0; cases this
    | some hi =>
      obtain ⟨hlomem, hlomin⟩ := colMin_some raws lo hmin
      obtain ⟨himem, himax⟩ := colMax_some raws hi hmax
      have hlohi : lo ≤ hi := hlomin hi himem
      have hx : ((hi : Int) - (lo : Int) + 1).toNat = hi - lo + 1 := by omega
      simp only [intColumnBits, minmaxOpt_map_some raws lo hi hmin hmax, hx] at h
      obtain ⟨_, b1, _, h1, _⟩ := ct_catBits_cons h
      obtain ⟨a2, _, h2, _, _⟩ := ct_catBits_cons h1
      obtain ⟨_, _, hlt, _⟩ := fieldUInt_ok h2
      have hnd : nbitsForUInt (hi - lo + 1) ≤ 63 := by
        have : ((nbitsForUInt (hi - lo + 1) : Nat) : Int).toNat = nbitsForUInt (hi - lo + 1) := by omega
        rw [this] at hlt
        have : (2 : Nat) ^ 6 = 64 := by decide
        omega
      have hfit := nbitsForUInt_fits (hi - lo + 1)
      have hpow : 2 ^ nbitsForUInt (hi - lo + 1) ≤ 2 ^ 63 := Nat.pow_le_pow_right (by omega) hnd
      intro x y hx' hy'
      have := hlomin x hx'
      have := himax y hy'
      omega

/-- the column theorem with the encoder's success as a hypothesis (no `SpanOK`) -/
theorem ct_intColumn_read (w : Nat) (allEqual : Bool) (raws : List (Option Nat)) (f suf : Bits)
    (hw : 0 < w) (hw64 : w ≤ 64) (hr : Spec.InRange w raws) (hw1 : w = 1 → ∃ x, some x ∈ raws)
    (hn : 0 < raws.length)
    (heq : allEqual = true → ∀ r ∈ raws, r = raws.headD none)
    (hne : allEqual = false → ∃ x, some x ∈ raws)
    (henc : encIntColumn allEqual (raws.map (Option.map Int.ofNat)) w = .ok f) :
    readColumn w raws.length (f ++ suf) = .ok (raws, suf) := by
  have hspan : Spec.SpanOK raws := by
    cases allEqual with
    | true =>
      intro x y hx hy
      have h1 := heq rfl _ hx
      have h2 := heq rfl _ hy
      rw [← h2] at h1
      cases h1
      have : (2 : Nat) ^ 63 = 9223372036854775808 := by decide
      omega
    | false =>
      refine ct_spanOK_of_enc w raws f (hne rfl) ?_
      simpa [encIntColumn] using henc
  obtain ⟨bits, hb, hrd⟩ := C05_column_roundtrip w allEqual raws suf hw hw64 hr hw1 hn heq hne hspan
  rw [hb] at henc
  cases henc
  exact hrd

theorem ct_fieldUInt_int {r : Int} {w : Nat} (hw : 0 < w) (h0 : 0 ≤ r) (hlt : r.toNat < 2 ^ w) :
    fieldUInt r w = .ok (toBits w r.toNat) := by
  have := fieldUInt_nat r.toNat w hw hlt
  rwa [Int.toNat_of_nonneg h0] at this

theorem ct_catBits_two {a b f : Bits} (h : catBits [.ok a, .ok b] = .ok f) : f = a ++ b := by
  simp only [catBits, List.append_nil] at h
  cases h; rfl

/-- The integer column, from the supplied values to what the compressed decoder reads: per subset
    exactly what the UNCOMPRESSED decoder reads from the field of that subset
    (`rdOrNone w raw`: all ones of a field wider than one bit is missing).
    `rawOpt` is the compressed encoder's conversion of a supplied value, `rawU v` the unsigned integer
    the uncompressed encoder writes for `v` (the all-ones pattern for a missing value).
    `hbad`: the one exception — a missing value in a one-bit field of a column that is not all-equal. -/
theorem ct_intColumnN_vals (w : Nat) (rawOpt : Val → Except Err (Option Int)) (rawU : Val → Int)
    (v0 : Val) (vs : List Val) (raws : List (Option Int)) (f : Bits)
    (hw : 0 < w) (hw64 : w ≤ 64)
    (hU : ∀ v ∈ v0 :: vs, 0 ≤ rawU v ∧ (rawU v).toNat < 2 ^ w)
    (hopt : ∀ v ∈ v0 :: vs, rawOpt v = .ok (if v = .missing then none else some (rawU v)))
    (hmiss : ∀ v ∈ v0 :: vs, v = .missing → rawU v = ((2 ^ w - 1 : Nat) : Int))
    (hbad : ¬ (((v0 :: vs).all (· == v0)) = false ∧ w = 1 ∧ ∃ v ∈ v0 :: vs, v = .missing))
    (hmap : List.mapM (m := Except Err) rawOpt
      (if ((v0 :: vs).all (· == v0)) = true then (v0 :: vs).take 1 else v0 :: vs) = .ok raws)
    (henc : encIntColumnN ((v0 :: vs).all (· == v0)) raws w = .ok f) (suf : Bits) :
    readColumn w (v0 :: vs).length (f ++ suf) =
      .ok ((v0 :: vs).map (fun v => rdOrNone w (rawU v).toNat), suf) := by
  have hp := Nat.two_pow_pos w
  have h06 : fieldUInt 0 6 = .ok (toBits 6 0) := rfl
  have hmissf : (do fieldUInt (← missingPattern w) w : CM Bits) = .ok (ones w) := fieldUInt_missing w hw hw64
  cases ha : ((v0 :: vs).all (· == v0)) with
  | true =>
    rw [ha] at hmap henc
    simp only [if_true, List.take_succ_cons, List.take_zero, List.mapM_cons, List.mapM_nil,
      hopt v0 (by simp)] at hmap
    cases hmap
    obtain ⟨h0, hlt⟩ := hU v0 (by simp)
    have hf : f = toBits w (rawU v0).toNat ++ toBits 6 0 := by
      by_cases hv0 : v0 = .missing
      · have hr := hmiss v0 (by simp) hv0
        simp only [encIntColumnN, if_true, encIntColumn, hv0, List.headD_cons, hmissf, h06] at henc
        rw [ct_catBits_two henc, hv0] at *
        rw [hr, ← toBits_max]
        congr 2
      · simp only [encIntColumnN, if_true, encIntColumn, hv0, if_false, List.headD_cons,
          ct_fieldUInt_int hw h0 hlt, h06] at henc
        exact ct_catBits_two henc
    have hrep : (v0 :: vs).map (fun v => rdOrNone w (rawU v).toNat)
        = List.replicate (v0 :: vs).length (rdOrNone w (rawU v0).toNat) := by
      rw [List.eq_replicate_iff]
      refine ⟨by simp, fun b hb => ?_⟩
      obtain ⟨v, hv, rfl⟩ := List.mem_map.mp hb
      rw [all_beq_mem ha hv]
    rw [hf, hrep]
    simp only [readColumn, List.append_assoc, readUIntOrNone_toBits w _ _ hw hw64 hlt,
      readUInt_toBits 6 0 suf (by omega) (by omega)]
    cases rdOrNone w (rawU v0).toNat <;> simp
  | false =>
    rw [ha] at hmap henc hbad
    simp only [Bool.false_eq_true, if_false] at hmap
    rw [ct_mapM_of_forall rawOpt (fun v => if v = .missing then none else some (rawU v)) (v0 :: vs) hopt]
      at hmap
    cases hmap
    -- the column as the compressed encoder sees it after `allOnesAsMissing`
    let e : Val → Option Nat := fun v =>
      if v = .missing then none
      else if 1 < w ∧ (rawU v).toNat = 2 ^ w - 1 then none else some (rawU v).toNat
    have hraws : allOnesAsMissing w ((v0 :: vs).map fun v => if v = .missing then none else some (rawU v))
        = ((v0 :: vs).map e).map (Option.map Int.ofNat) := by
      unfold allOnesAsMissing
      by_cases hw1 : w ≤ 1
      · rw [if_pos hw1, List.map_map]
        apply List.map_congr_left
        intro v hv
        obtain ⟨h0, _⟩ := hU v hv
        by_cases hvm : v = .missing
        · simp [e, hvm]
        · have : ¬ 1 < w := by omega
          simp only [e, hvm, if_false, this, false_and, Function.comp, Option.map_some,
            Int.ofNat_eq_natCast, Int.toNat_of_nonneg h0]
      · rw [if_neg hw1, List.map_map, List.map_map]
        apply List.map_congr_left
        intro v hv
        obtain ⟨h0, _⟩ := hU v hv
        have h1 : 1 < w := by omega
        by_cases hvm : v = .missing
        · simp [e, hvm]
        · by_cases hones : (rawU v).toNat = 2 ^ w - 1
          · have : rawU v = ((2 ^ w - 1 : Nat) : Int) := by omega
            simp [e, hvm, h1, hones, this]
          · have : ¬ rawU v = ((2 ^ w - 1 : Nat) : Int) := by omega
            simp only [e, hvm, if_false, h1, hones, and_false, Function.comp, Option.map_some,
              Int.ofNat_eq_natCast, Int.toNat_of_nonneg h0, Option.some.injEq, this]
    have he : ∀ v ∈ v0 :: vs, e v = rdOrNone w (rawU v).toNat := by
      intro v hv
      by_cases hvm : v = .missing
      · have h1 : 1 < w := by
          rcases Nat.lt_or_ge 1 w with h | h
          · exact h
          · exact absurd ⟨rfl, by omega, v, hv, hvm⟩ hbad
        have hr := hmiss v hv hvm
        have : (rawU v).toNat = 2 ^ w - 1 := by omega
        simp only [e, hvm, if_true, rdOrNone]
        rw [hvm] at this
        rw [if_pos ⟨h1, this⟩]
      · simp only [e, hvm, if_false, rdOrNone]
    have hmapeq : (v0 :: vs).map (fun v => rdOrNone w (rawU v).toNat) = (v0 :: vs).map e :=
      List.map_congr_left (fun v hv => (he v hv).symm)
    rw [hmapeq]
    simp only [encIntColumnN, Bool.false_eq_true, if_false, hraws] at henc
    by_cases hall : ((List.map (Option.map Int.ofNat) ((v0 :: vs).map e)).all (· == none)) = true
    · rw [if_pos hall, hmissf, h06] at henc
      have hf := ct_catBits_two henc
      have hnone : ∀ v ∈ v0 :: vs, e v = none := by
        intro v hv
        have := List.all_eq_true.mp hall ((e v).map Int.ofNat)
          (List.mem_map.mpr ⟨e v, List.mem_map.mpr ⟨v, hv, rfl⟩, rfl⟩)
        cases hev : e v with
        | none => rfl
        | some x => rw [hev] at this; simp at this
      have h1 : 1 < w := by
        rcases Nat.lt_or_ge 1 w with h | h
        · exact h
        · have hn0 := hnone v0 (by simp)
          have : ¬ 1 < w := by omega
          by_cases hvm : v0 = .missing
          · exact absurd ⟨rfl, by omega, v0, by simp, hvm⟩ hbad
          · simp [e, hvm, this] at hn0
      have hrep : (v0 :: vs).map e = List.replicate (v0 :: vs).length none := by
        rw [List.eq_replicate_iff]
        exact ⟨by simp, fun b hb => by obtain ⟨v, hv, rfl⟩ := List.mem_map.mp hb; exact hnone v hv⟩
      rw [hf, hrep]
      simp only [readColumn, List.append_assoc, readUIntOrNone_ones w _ h1 hw64,
        readUInt_toBits 6 0 suf (by omega) (by omega)]
      simp
    · rw [if_neg hall] at henc
      have hex : ∃ x, some x ∈ (v0 :: vs).map e := by
        apply Classical.byContradiction
        intro hno
        apply hall
        rw [List.all_eq_true]
        intro r hr
        obtain ⟨r', hr', rfl⟩ := List.mem_map.mp hr
        cases r' with
        | none => rfl
        | some x => exact absurd ⟨x, hr'⟩ hno
      have hlen : (v0 :: vs).length = ((v0 :: vs).map e).length := by simp
      rw [hlen]
      refine ct_intColumn_read w false _ f suf hw hw64 ?_ (fun _ => hex) (by simp)
        (fun h => by cases h) (fun _ => hex) henc
      intro x hx
      obtain ⟨v, hv, hvx⟩ := List.mem_map.mp hx
      obtain ⟨_, hlt⟩ := hU v hv
      by_cases hvm : v = .missing
      · simp [e, hvm] at hvx
      · simp only [e, hvm, if_false] at hvx
        split at hvx
        · cases hvx
        · rename_i hno
          cases hvx
          exact ⟨hlt, fun h1 => by
            have : (rawU v).toNat ≠ 2 ^ w - 1 := fun h => hno ⟨h1, h⟩
            omega⟩

/-! ### what the uncompressed checked field writers put into a field -/

/-- the unsigned integer the uncompressed encoder writes for a supplied numeric value -/
def rawUnumeric (n : Nat) (scale ref : Int) (v : Val) : Int :=
  match rawNumeric n scale ref v with
  | .ok r => r
  | .error _ => 0

def rawUcodeflag (n : Nat) (v : Val) : Int :=
  match rawCodeflag n v with
  | .ok r => r
  | .error _ => 0

theorem ct_fldNumericX_ok {nb sc rf : Int} {n : Nat} {v : Val} {fo : FldOut}
    (hn : natWidth nb = .ok n) (h : fldNumericX nb sc rf v = .ok fo) :
    0 < n ∧ n ≤ 64 ∧ (0 ≤ rawUnumeric n sc rf v ∧ (rawUnumeric n sc rf v).toNat < 2 ^ n) ∧
    rawOptNumeric sc rf v = .ok (if v = .missing then none else some (rawUnumeric n sc rf v)) ∧
    (v = .missing → rawUnumeric n sc rf v = ((2 ^ n - 1 : Nat) : Int)) ∧
    fo.canon = numVal (rdOrNone n (rawUnumeric n sc rf v).toNat) sc rf := by
  unfold fldNumericX fldNumeric at h
  rw [hn] at h
  simp only [bind, Except.bind, pure, Except.pure] at h
  split at h
  · cases h
  · rename_i h64
    cases hraw : rawNumeric n sc rf v with
    | error e => rw [hraw] at h; cases h
    | ok raw =>
      rw [hraw] at h
      dsimp only at h
      cases hf : fieldUInt raw n with
      | error e => rw [hf] at h; cases h
      | ok fb =>
        rw [hf] at h
        cases h
        obtain ⟨h0, hnn, hlt, _⟩ := fieldUInt_ok hf
        have hU : rawUnumeric n sc rf v = raw := by unfold rawUnumeric; rw [hraw]
        rw [hU]
        refine ⟨h0, by omega, ⟨hnn, hlt⟩, ?_, ?_, rfl⟩
        · cases v with
          | missing => rfl
          | int i =>
            simp only [rawNumeric, bind, Except.bind, pure, Except.pure] at hraw
            cases hq : quantise (.int i) sc with
            | error e => rw [hq] at hraw; cases hraw
            | ok q =>
              rw [hq] at hraw; cases hraw
              simp only [rawOptNumeric, bind, Except.bind, pure, Except.pure, hq, reduceCtorEq, if_false]
          | num a b =>
            simp only [rawNumeric, bind, Except.bind, pure, Except.pure] at hraw
            cases hq : quantise (.num a b) sc with
            | error e => rw [hq] at hraw; cases hraw
            | ok q =>
              rw [hq] at hraw; cases hraw
              simp only [rawOptNumeric, bind, Except.bind, pure, Except.pure, hq, reduceCtorEq, if_false]
          | bytes b =>
            simp only [rawNumeric, bind, Except.bind, pure, Except.pure] at hraw
            cases hq : quantise (.bytes b) sc with
            | error e => rw [hq] at hraw; cases hraw
            | ok q =>
              rw [hq] at hraw; cases hraw
              simp only [rawOptNumeric, bind, Except.bind, pure, Except.pure, hq, reduceCtorEq, if_false]
        · intro hvm
          subst hvm
          simp only [rawNumeric, missingPattern, h64, if_false] at hraw
          cases hraw; rfl

theorem ct_fldCodeflagX_ok {n : Nat} {v : Val} {fo : FldOut} (h : fldCodeflagX n v = .ok fo) :
    0 < n ∧ n ≤ 64 ∧ (0 ≤ rawUcodeflag n v ∧ (rawUcodeflag n v).toNat < 2 ^ n) ∧
    rawOptCodeflag v = .ok (if v = .missing then none else some (rawUcodeflag n v)) ∧
    (v = .missing → rawUcodeflag n v = ((2 ^ n - 1 : Nat) : Int)) ∧
    fo.canon = uintVal (rdOrNone n (rawUcodeflag n v).toNat) := by
  unfold fldCodeflagX fldCodeflag at h
  simp only [bind, Except.bind, pure, Except.pure] at h
  split at h
  · cases h
  · rename_i h64
    cases hraw : rawCodeflag n v with
    | error e => rw [hraw] at h; cases h
    | ok raw =>
      rw [hraw] at h
      dsimp only at h
      cases hf : fieldUInt raw n with
      | error e => rw [hf] at h; cases h
      | ok fb =>
        rw [hf] at h
        cases h
        obtain ⟨h0, hnn, hlt, _⟩ := fieldUInt_ok hf
        have hU : rawUcodeflag n v = raw := by unfold rawUcodeflag; rw [hraw]
        rw [hU]
        refine ⟨h0, by omega, ⟨hnn, hlt⟩, ?_, ?_, rfl⟩
        · cases v with
          | missing => rfl
          | int i =>
            simp only [rawCodeflag] at hraw
            cases hraw
            simp only [rawOptCodeflag, pure, Except.pure, reduceCtorEq, if_false]
          | num a b => cases hraw
          | bytes b => cases hraw
        · intro hvm
          subst hvm
          simp only [rawCodeflag, missingPattern, h64, if_false] at hraw
          cases hraw; rfl

/-- the decoder's re-check of a code / flag entry against the field's missing pattern is inert on
    what `read_uint_or_none` returns -/
theorem ct_codeflagVal_rd (n x : Nat) : codeflagVal n (rdOrNone n x) = uintVal (rdOrNone n x) := by
  unfold rdOrNone
  split
  · rfl
  · rename_i h
    simp only [codeflagVal, h, if_false, uintVal]

/-! ### the column writers checked for transparency, and their codecs -/

/-- The one situation in which a supplied value reads back differently from a compressed column
    and from an uncompressed field: a MISSING value in a ONE-BIT field (uncompressed it is written as
    the bit 1 and reads back as the value 1), in a column whose subsets do not all supply the same
    value (there it is an all-ones increment and reads back missing). -/
def oneBitMissing (w : Int) (allEq : Bool) (values : List Val) : Bool :=
  !allEq && decide (w = 1) && values.any (· == Val.missing)

def neverBad (_ : Bool) (_ : List Val) : Bool := false

/-- `col`, refusing unless every subset's value is accepted by the (checked) uncompressed field
    writer `fld`, and refusing the columns `bad`; the ghost output `canon` is what the UNCOMPRESSED
    decoder returns per subset -/
def colT (col : ColW) (fld : Fld) (bad : Bool → List Val → Bool) : ColW := fun allEq values => do
  let o ← col allEq values
  let fos ← values.mapM fld
  if bad allEq values then .error .other else pure { o with canon := fos.map (·.canon) }

theorem colT_ok {col : ColW} {fld : Fld} {bad : Bool → List Val → Bool} {a : Bool} {values : List Val}
    {o : ColOut} (h : colT col fld bad a values = .ok o) :
    ∃ o' fos, col a values = .ok o' ∧ List.mapM (m := Except Err) fld values = .ok fos ∧
      bad a values = false ∧ o = { o' with canon := fos.map (·.canon) } := by
  unfold colT at h
  simp only [bind, Except.bind, pure, Except.pure] at h
  cases hc : col a values with
  | error e => rw [hc] at h; cases h
  | ok o' =>
    rw [hc] at h
    dsimp only at h
    cases hm : List.mapM (m := Except Err) fld values with
    | error e => rw [hm] at h; cases h
    | ok fos =>
      rw [hm] at h
      dsimp only at h
      cases hb : bad a values with
      | true => rw [hb] at h; cases h
      | false => rw [hb] at h; cases h; exact ⟨o', fos, rfl, rfl, rfl, rfl⟩

theorem ct_not_oneBitMissing {nb : Int} {n : Nat} (hn : natWidth nb = .ok n) {a : Bool} {values : List Val}
    (h : oneBitMissing nb a values = false) : ¬ (a = false ∧ n = 1 ∧ ∃ v ∈ values, v = .missing) := by
  rintro ⟨ha, h1, v, hv, hvm⟩
  have hnb : nb = 1 := by have := (sim_natWidth_ok hn).2; omega
  have hany : values.any (· == Val.missing) = true := by
    rw [List.any_eq_true]; exact ⟨v, hv, by simp [hvm]⟩
  simp [oneBitMissing, ha, hnb, hany] at h

/-- the column reader, run on `n` subsets and a stream that starts with the column, returns the
    ghost column, the register update, and consumes exactly the column -/
def CodecC (col : ColW) (rd : RdC) : Prop :=
  ∀ v0 vs o, col ((v0 :: vs).all (· == v0)) (v0 :: vs) = .ok o →
    o.canon.length = (v0 :: vs).length ∧
    ∀ rest, rd (v0 :: vs).length (o.bits ++ rest) = .ok ((o.canon, o.upd), rest)

theorem codecC_numeric (nb sc rf : Int) :
    CodecC (colT (colNumeric nb sc rf) (fldNumericX nb sc rf) (oneBitMissing nb)) (rdNumericC nb sc rf) := by
  intro v0 vs o h
  obtain ⟨o', fos, hc, hm, hbad, rfl⟩ := colT_ok h
  have hrel := ct_mapM_rel2 _ _ _ hm
  refine ⟨by simp [ct_mapM_length hm], fun rest => ?_⟩
  unfold colNumeric at hc
  cases hn : natWidth nb with
  | error e => rw [hn] at hc; cases hc
  | ok n =>
    rw [hn] at hc
    simp only [bind, Except.bind, pure, Except.pure] at hc
    cases hr : List.mapM (m := Except Err) (rawOptNumeric sc rf)
        (if ((v0 :: vs).all fun x => x == v0) = true then List.take 1 (v0 :: vs) else v0 :: vs) with
    | error e => rw [hr] at hc; cases hc
    | ok raws =>
      rw [hr] at hc
      dsimp only at hc
      cases hf : encIntColumnN ((v0 :: vs).all fun x => x == v0) raws n with
      | error e => rw [hf] at hc; cases hc
      | ok f =>
        rw [hf] at hc
        cases hc
        have hall : ∀ v ∈ v0 :: vs, ∃ fo, fldNumericX nb sc rf v = .ok fo := ct_rel2_ok hrel
        obtain ⟨fo0, hfo0⟩ := hall v0 (by simp)
        obtain ⟨hw, hw64, _⟩ := ct_fldNumericX_ok hn hfo0
        have hrd := ct_intColumnN_vals n (rawOptNumeric sc rf) (rawUnumeric n sc rf) v0 vs raws f hw hw64
          (fun v hv => by obtain ⟨fo, hfo⟩ := hall v hv; exact (ct_fldNumericX_ok hn hfo).2.2.1)
          (fun v hv => by obtain ⟨fo, hfo⟩ := hall v hv; exact (ct_fldNumericX_ok hn hfo).2.2.2.1)
          (fun v hv => by obtain ⟨fo, hfo⟩ := hall v hv; exact (ct_fldNumericX_ok hn hfo).2.2.2.2.1)
          (ct_not_oneBitMissing hn hbad) hr hf rest
        have hcanon : fos.map (·.canon)
            = (v0 :: vs).map (fun v => numVal (rdOrNone n (rawUnumeric n sc rf v).toNat) sc rf) :=
          ct_rel2_map hrel _ _ (fun v _ fo hfo => (ct_fldNumericX_ok hn hfo).2.2.2.2.2)
        simp only [rdNumericC, hn, bind, Except.bind, pure, Except.pure, hrd, hcanon, List.map_map]
        rfl

theorem codecC_codeflag (n : Nat) :
    CodecC (colT (colCodeflag n) (fldCodeflagX n) (oneBitMissing n)) (rdCodeflagC n) := by
  intro v0 vs o h
  obtain ⟨o', fos, hc, hm, hbad, rfl⟩ := colT_ok h
  have hrel := ct_mapM_rel2 _ _ _ hm
  refine ⟨by simp [ct_mapM_length hm], fun rest => ?_⟩
  unfold colCodeflag at hc
  simp only [bind, Except.bind, pure, Except.pure] at hc
  cases hr : List.mapM (m := Except Err) rawOptCodeflag
      (if ((v0 :: vs).all fun x => x == v0) = true then List.take 1 (v0 :: vs) else v0 :: vs) with
  | error e => rw [hr] at hc; cases hc
  | ok raws =>
    rw [hr] at hc
    dsimp only at hc
    cases hf : encIntColumnN ((v0 :: vs).all fun x => x == v0) raws n with
    | error e => rw [hf] at hc; cases hc
    | ok f =>
      rw [hf] at hc
      cases hc
      have hall : ∀ v ∈ v0 :: vs, ∃ fo, fldCodeflagX n v = .ok fo := ct_rel2_ok hrel
      obtain ⟨fo0, hfo0⟩ := hall v0 (by simp)
      obtain ⟨hw, hw64, _⟩ := ct_fldCodeflagX_ok hfo0
      have hnw : natWidth (n : Int) = .ok n := by
        unfold natWidth
        rw [if_neg (by omega)]
        rfl
      have hrd := ct_intColumnN_vals n rawOptCodeflag (rawUcodeflag n) v0 vs raws f hw hw64
        (fun v hv => by obtain ⟨fo, hfo⟩ := hall v hv; exact (ct_fldCodeflagX_ok hfo).2.2.1)
        (fun v hv => by obtain ⟨fo, hfo⟩ := hall v hv; exact (ct_fldCodeflagX_ok hfo).2.2.2.1)
        (fun v hv => by obtain ⟨fo, hfo⟩ := hall v hv; exact (ct_fldCodeflagX_ok hfo).2.2.2.2.1)
        (ct_not_oneBitMissing hnw hbad) hr hf rest
      have hcanon : fos.map (·.canon)
          = (v0 :: vs).map (fun v => codeflagVal n (rdOrNone n (rawUcodeflag n v).toNat)) :=
        ct_rel2_map hrel _ _ (fun v _ fo hfo => by
          rw [(ct_fldCodeflagX_ok hfo).2.2.2.2.2, ct_codeflagVal_rd])
      simp only [rdCodeflagC, bind, Except.bind, pure, Except.pure, hrd, hcanon, List.map_map]
      rfl

/-- a supplied character value as the encoder's column entry -/
def sNstring (v : Val) : Option (List UInt8) :=
  match v with
  | .bytes b => some b
  | _ => none

theorem ct_fldString_ok {n : Nat} {v : Val} {fo : FldOut} (h : fldString n v = .ok fo) :
    strOpt v = .ok (sNstring v) ∧ fo.canon = .bytes (Spec.strCanon n (sNstring v)) := by
  unfold fldString at h
  simp only [bind, Except.bind, pure, Except.pure] at h
  cases v with
  | missing =>
    simp only [strBytes] at h
    cases h
    refine ⟨rfl, ?_⟩
    simp only [sNstring, Spec.strCanon]
    rw [padBytes_of_length _ _ (by simp)]
  | bytes b =>
    simp only [strBytes] at h
    cases h
    exact ⟨rfl, rfl⟩
  | int i => cases h
  | num a b => cases h

theorem codecC_string (n : Nat) : CodecC (colT (colString n) (fldString n) neverBad) (rdStringC n) := by
  intro v0 vs o h
  obtain ⟨o', fos, hc, hm, _, rfl⟩ := colT_ok h
  have hrel := ct_mapM_rel2 _ _ _ hm
  refine ⟨by simp [ct_mapM_length hm], fun rest => ?_⟩
  unfold colString at hc
  simp only [bind, Except.bind, pure, Except.pure] at hc
  have hall : ∀ v ∈ v0 :: vs, ∃ fo, fldString n v = .ok fo := ct_rel2_ok hrel
  have hstrs : List.mapM (m := Except Err) strOpt (v0 :: vs) = .ok ((v0 :: vs).map sNstring) :=
    ct_mapM_of_forall strOpt sNstring _
      (fun v hv => by obtain ⟨fo, hfo⟩ := hall v hv; exact (ct_fldString_ok hfo).1)
  rw [hstrs] at hc
  dsimp only at hc
  cases hf : encStringColumn ((v0 :: vs).all fun x => x == v0) ((v0 :: vs).map sNstring) n with
  | error e => rw [hf] at hc; cases hc
  | ok f =>
    rw [hf] at hc
    cases hc
    have h63 : ((v0 :: vs).all fun x => x == v0) = false → n ≤ 63 := by
      intro ha
      rw [ha] at hf
      simp only [encStringColumn, Bool.false_eq_true, if_false] at hf
      obtain ⟨_, _, _, h1, _⟩ := ct_catBits_cons hf
      obtain ⟨_, _, h2, _, _⟩ := ct_catBits_cons h1
      obtain ⟨_, _, hlt, _⟩ := fieldUInt_ok h2
      have : (2 : Nat) ^ 6 = 64 := by decide
      omega
    have heq : ((v0 :: vs).all fun x => x == v0) = true →
        ∀ s ∈ (v0 :: vs).map sNstring, s = ((v0 :: vs).map sNstring).headD none := by
      intro ha s hs
      obtain ⟨v, hv, rfl⟩ := List.mem_map.mp hs
      rw [all_beq_mem ha hv]
      rfl
    obtain ⟨bits, hb, hrd⟩ := C05_string_column_roundtrip n _ ((v0 :: vs).map sNstring) rest h63 heq
    rw [hb] at hf
    cases hf
    have hcanon : fos.map (·.canon) = (v0 :: vs).map (fun v => Val.bytes (Spec.strCanon n (sNstring v))) :=
      ct_rel2_map hrel _ _ (fun v _ fo hfo => (ct_fldString_ok hfo).2)
    simp only [List.length_map] at hrd
    simp only [rdStringC, bind, Except.bind, pure, Except.pure, hrd, hcanon, List.map_map]
    rfl

theorem codecC_newRefval (id n : Nat) :
    CodecC (colT (colNewRefval id n) (fldNewRefval id n) neverBad) (rdNewRefvalC id n) := by
  intro v0 vs o h
  obtain ⟨o', fos, hc, hm, _, rfl⟩ := colT_ok h
  have hrel := ct_mapM_rel2 _ _ _ hm
  refine ⟨by simp [ct_mapM_length hm], fun rest => ?_⟩
  unfold colNewRefval at hc
  cases ha : ((v0 :: vs).all fun x => x == v0) with
  | false => rw [ha] at hc; cases hc
  | true =>
    rw [ha] at hc
    simp only [Bool.not_true, Bool.false_eq_true, if_false, List.headD_cons] at hc
    cases v0 with
    | int i =>
      simp only [bind, Except.bind, pure, Except.pure] at hc
      cases hf1 : fieldInt i n with
      | error e => rw [hf1] at hc; cases hc
      | ok f1 =>
        rw [hf1] at hc
        dsimp only at hc
        have hf2 : fieldUInt 0 6 = .ok (toBits 6 0) := rfl
        rw [hf2] at hc
        cases hc
        obtain ⟨h0, hlt, rfl⟩ := sim_fieldInt_ok hf1
        have hcanon : fos.map (·.canon) = (Val.int i :: vs).map (fun _ => Val.int i) :=
          ct_rel2_map hrel _ _ (fun v hv fo hfo => by
            rw [all_beq_mem ha hv] at hfo
            simp only [fldNewRefval, bind, Except.bind, pure, Except.pure, hf1] at hfo
            cases hfo; rfl)
        have hrep : (Val.int i :: vs).map (fun _ => Val.int i)
            = List.replicate (Val.int i :: vs).length (Val.int i) := by
          rw [List.eq_replicate_iff]
          exact ⟨by simp, fun b hb => by obtain ⟨_, _, rfl⟩ := List.mem_map.mp hb; rfl⟩
        have hri := sim_readInt_field n i (toBits 6 0 ++ rest) h0 hlt
        simp only [List.cons_append, List.append_assoc] at hri ⊢
        simp only [rdNewRefvalC, bind, Except.bind, pure, Except.pure, hri,
          readUInt_toBits 6 0 rest (by omega) (by omega), hcanon, hrep]
        rfl
    | missing => cases hc
    | num a b => cases hc
    | bytes b => cases hc

theorem codecC_constant (c : Int) :
    CodecC (colT (colConstant c) (fldConstant c) neverBad) (rdConstantC c) := by
  intro v0 vs o h
  obtain ⟨o', fos, hc, hm, _, rfl⟩ := colT_ok h
  have hrel := ct_mapM_rel2 _ _ _ hm
  refine ⟨by simp [ct_mapM_length hm], fun rest => ?_⟩
  unfold colConstant at hc
  by_cases hb : (((v0 :: vs).all fun x => x == v0) && (v0 :: vs).headD .missing == Val.int c) = true
  · rw [if_pos hb] at hc
    cases hc
    simp only [Bool.and_eq_true, List.headD_cons, beq_iff_eq] at hb
    have hcanon : fos.map (·.canon) = (v0 :: vs).map (fun _ => Val.int c) :=
      ct_rel2_map hrel _ _ (fun v hv fo hfo => by
        rw [all_beq_mem hb.1 hv, hb.2] at hfo
        simp only [fldConstant, ne_eq, not_true_eq_false, if_false] at hfo
        cases hfo; rfl)
    have hrep : (v0 :: vs).map (fun _ => Val.int c) = List.replicate (v0 :: vs).length (Val.int c) := by
      rw [List.eq_replicate_iff]
      exact ⟨by simp, fun b hb => by obtain ⟨_, _, rfl⟩ := List.mem_map.mp hb; rfl⟩
    simp only [rdConstantC, hcanon, hrep, List.nil_append]
  · rw [if_neg hb] at hc; cases hc

/-! ### the compressed encoder checked for transparency -/

/-- push one canonical value per subset onto the ghost rows -/
def ghostPush (canon : List Val) (forced : List (Nat × List Val)) : List (Nat × List Val) :=
  List.zipWith (fun c g => (g.1, c :: g.2)) canon forced

theorem ghostPush_map_snd : ∀ (canon : List Val) (forced : List (Nat × List Val)),
    (ghostPush canon forced).map (·.2) = List.zipWith (· :: ·) canon (forced.map (·.2))
  | [], _ => by simp [ghostPush]
  | _ :: _, [] => by simp [ghostPush]
  | c :: cs, g :: gs => by
    have := ghostPush_map_snd cs gs
    simp only [ghostPush, List.zipWith_cons_cons, List.map_cons] at this ⊢
    rw [this]

theorem ghostPush_length (canon : List Val) (forced : List (Nat × List Val)) :
    (ghostPush canon forced).length = min canon.length forced.length := by
  simp [ghostPush]

theorem ghostPush_get {canon : List Val} {forced : List (Nat × List Val)} {k : Nat} {c : Val}
    {g : Nat × List Val} (hc : canon[k]? = some c) (hg : forced[k]? = some g) :
    (ghostPush canon forced)[k]? = some (g.1, c :: g.2) := by
  simp [ghostPush, List.getElem?_zipWith, hc, hg]

/-- `encStepC` that also pushes the ghost column onto the ghost rows (`St.forced`) -/
def encStepCT (dd : DDesc) (col : ColW) (s : St) : CM St :=
  match colVals s with
  | .error e => .error e
  | .ok values =>
    match values with
    | [] => .error .other
    | v0 :: vs =>
      match col ((v0 :: vs).all (· == v0)) (v0 :: vs) with
      | .error e => .error e
      | .ok o => .ok { s with regs := o.upd s.regs, descs := dd :: s.descs, idx := s.idx + 1,
                              bits := o.bits.reverse ++ s.bits, forced := ghostPush o.canon s.forced }

/-- the factor as every subset will READ it has to be the supplied one -/
def encFactorCT (s : St) : CM Val := do
  let v ← encFactorCX s
  if s.forced.all (fun g => g.2.head? == some v) then pure v else .error .other

/-- the bitmap as every subset will READ it has to have its zeros where the supplied one has them -/
def encLastValuesCT (n : Nat) (s : St) : CM (List Val) := do
  let l ← encLastValuesCX n s
  if n = 0 ∨ s.forced.isEmpty then .error .other
  else if s.forced.all (fun g => zeroMask ((g.2.take n).reverse) == zeroMask l) then pure l
  else .error .other

/-- The compressed encoder CHECKED FOR TRANSPARENCY.  It is `encPrimsC` with ghost rows
    (`St.forced`: per subset the values a decoder returns, most recent first) and these refusals:
    1. (as `encPrimsCX`) a numeric / code / flag value of some subset that the uncompressed encoder
       refuses (negative or too large for its field; the compressed encoder range-checks only the
       minimum of a column);
    2. a numeric / code / flag field wider than 64 bits (no decoder reads it);
    3. a missing value in a ONE-BIT field, in a column whose subsets do not all supply the same value
       (`oneBitMissing`; uncompressed it reads back as 1, compressed as missing);
    4. (as `encPrimsCX`) replication factors that are not literally equal in all subsets, and (as
       `encPrimsUX`) a factor whose field does not read back as supplied;
    5. (as `encPrimsCX`) bitmaps whose zero entries differ between subsets, and (as `encPrimsUX`)
       bitmap entries that read back zero at other positions than supplied; a bitmap of length
       zero (unreachable).
    NOT refused (no longer, since the repair of finding F18 = `encIntColumnN`): a present value that
    is the all-ones pattern of its field — both forms read it back as missing.
    A column whose spread does not fit the 6-bit increment width (`Spec.SpanOK`) needs no refusal:
    the compressed encoder itself fails on it (`ct_spanOK_of_enc`). -/
def encPrimsCT : Prims where
  numeric dd nb sc rf := encStepCT dd (colT (colNumeric nb sc rf) (fldNumericX nb sc rf) (oneBitMissing nb))
  string dd n := encStepCT dd (colT (colString n) (fldString n) neverBad)
  codeflag dd n := encStepCT dd (colT (colCodeflag n) (fldCodeflagX n) (oneBitMissing n))
  newRefval e n := encStepCT (.plain e) (colT (colNewRefval e.id n) (fldNewRefval e.id n) neverBad)
  constant dd c := encStepCT dd (colT (colConstant c) (fldConstant c) neverBad)
  factorValue := encFactorCT
  lastValues := encLastValuesCT

/-! ### checked compressed encoder ⟶ compressed decoder -/

/-- encoder state `s` (ghost rows = canonical values so far) vs compressed decoder state `t`;
    `L` = number of subsets -/
def RelCD (L : Nat) (i : Bits) (s t : St) : Prop :=
  t.regs = s.regs ∧ t.descs = s.descs ∧ t.links = s.links ∧ t.bits = i ∧
    t.vals = s.forced.map (·.2) ∧ s.forced.length = L ∧ s.vals.length = L

theorem encStepCT_decStepC_sim (W rest : Bits) (L : Nat) (dd : DDesc) (col : ColW) (rd : RdC)
    (hc : CodecC col rd) (s : St) :
    SimAt (IxED W rest) (RelCD L) s (encStepCT dd col s) (decStepC dd rd) := by
  intro s' hr j hj
  unfold encStepCT at hr
  cases hv : colVals s with
  | error e => rw [hv] at hr; cases hr
  | ok values =>
    rw [hv] at hr
    cases values with
    | nil => cases hr
    | cons v0 vs =>
      dsimp only at hr
      cases ho : col ((v0 :: vs).all (· == v0)) (v0 :: vs) with
      | error e => rw [ho] at hr; cases hr
      | ok o =>
        rw [ho] at hr
        cases hr
        obtain ⟨hclen, hrd⟩ := hc v0 vs o ho
        have hvlen : (v0 :: vs).length = s.vals.length := ct_mapM_length hv
        obtain ⟨hW, out, hout⟩ := hj
        refine ⟨o.bits ++ j, ⟨?_, o.bits ++ out, by rw [hout, List.append_assoc]⟩, ?_⟩
        · simpa [List.reverse_append, List.append_assoc] using hW
        · intro t ⟨hregs, hdescs, hlinks, hbits, hvals, hfl, hvl⟩
          unfold decStepC
          have htl : t.vals.length = (v0 :: vs).length := by
            rw [hvals, List.length_map, hfl, hvlen, hvl]
          rw [htl, hbits, hrd j]
          refine ⟨_, rfl, ?_⟩
          simp only [RelCD, hregs, hdescs, hlinks, hvals, ghostPush_map_snd, ghostPush_length, hvl,
            true_and]
          rw [hclen, hvlen, hvl, hfl]
          simp

theorem ct_encFactorC_nonempty {s : St} {v : Val} (h : encFactorC s = .ok v) : s.vals ≠ [] :=
  (encFactorC_ok h).2.1

theorem ct_minmaxInt_replicate (i : Int) : ∀ (L : Nat),
    minmaxInt (List.replicate (L + 1) (Val.int i)) = .ok (some (i, i))
  | 0 => rfl
  | L + 1 => by
    rw [List.replicate_succ, minmaxInt, ct_minmaxInt_replicate i L]
    simp [bind, Except.bind, pure, Except.pure]

theorem ct_encFactorCT_ok {s : St} {n : Nat} (h : (encFactorCT s >>= factorCount) = .ok n) :
    ∃ v, encFactorCX s = .ok v ∧ (s.forced.all (fun g => g.2.head? == some v)) = true ∧
      factorCount v = .ok n := by
  unfold encFactorCT at h
  cases hv : encFactorCX s with
  | error e => simp only [hv, bind, Except.bind] at h; cases h
  | ok v =>
    simp only [hv, bind, Except.bind, pure, Except.pure] at h
    by_cases hall : (s.forced.all (fun g => g.2.head? == some v)) = true
    · simp only [hall, if_true] at h
      exact ⟨v, rfl, hall, h⟩
    · simp only [hall, if_false] at h; cases h

theorem ct_encFactorCX_ok {s : St} {v : Val} (h : encFactorCX s = .ok v) : encFactorC s = .ok v := by
  unfold encFactorCX at h
  cases hv : encFactorC s with
  | error e => rw [hv] at h; cases h
  | ok w =>
    rw [hv] at h
    simp only [bind, Except.bind, pure, Except.pure] at h
    split at h
    · cases h
    · split at h
      · cases h; rfl
      · cases h

theorem ct_encLastValuesCT_ok {s : St} {n : Nat} {l : List Val} (h : encLastValuesCT n s = .ok l) :
    encLastValuesCX n s = .ok l ∧ n ≠ 0 ∧ s.forced ≠ [] ∧
      (s.forced.all (fun g => zeroMask ((g.2.take n).reverse) == zeroMask l)) = true := by
  unfold encLastValuesCT at h
  cases hv : encLastValuesCX n s with
  | error e => simp only [hv, bind, Except.bind] at h; cases h
  | ok l0 =>
    simp only [hv, bind, Except.bind, pure, Except.pure] at h
    split at h
    · cases h
    · rename_i hno
      split at h
      · rename_i hall
        cases h
        refine ⟨rfl, fun h0 => hno (Or.inl h0), fun hnil => hno (Or.inr ?_), hall⟩
        rw [hnil]; rfl
      · cases h

theorem primSim_ct_dec (W rest : Bits) (L : Nat) :
    PrimSim encPrimsCT decPrimsC (IxED W rest) (RelCD L) where
  agree := fun h => ⟨h.1, h.2.1, h.2.2.1⟩
  rel_setRegs := fun f ⟨h1, h2, h3, h4, h5, h6, h7⟩ => by
    simp only [RelCD, St.setRegs_regs, St.setRegs_descs, St.setRegs_links, St.setRegs_bits,
      St.setRegs_vals, St.setRegs_forced, h1, h2, h3, h4, h5, h6, h7, and_self]
  rel_addLink := fun o ⟨h1, h2, h3, h4, h5, h6, h7⟩ => by
    simp only [RelCD, addLink_regs, addLink_descs, addLink_links, addLink_bits,
      addLink_vals, addLink_forced, h1, h2, h3, h4, h5, h6, h7, and_self]
  ix_setRegs := fun _ => Iff.rfl
  ix_addLink := fun _ => Iff.rfl
  numeric := fun dd nb sc rf s =>
    SimAt.congr_rel (fun _ t _ => decNumericC_eq dd nb sc rf t)
      (encStepCT_decStepC_sim W rest L dd _ _ (codecC_numeric nb sc rf) s)
  string := fun dd n s =>
    SimAt.congr_rel (fun _ t _ => decStringC_eq dd n t)
      (encStepCT_decStepC_sim W rest L dd _ _ (codecC_string n) s)
  codeflag := fun dd n s =>
    SimAt.congr_rel (fun _ t _ => decCodeflagC_eq dd n t)
      (encStepCT_decStepC_sim W rest L dd _ _ (codecC_codeflag n) s)
  newRefval := fun e n s =>
    SimAt.congr_rel (fun _ t _ => decNewRefvalC_eq e n t)
      (encStepCT_decStepC_sim W rest L _ _ _ (codecC_newRefval e.id n) s)
  constant := fun dd c s =>
    SimAt.congr_rel (fun _ t _ => decConstantC_eq dd c t)
      (encStepCT_decStepC_sim W rest L dd _ _ (codecC_constant c) s)
  factor := by
    intro i s t n ⟨_, _, _, _, hvals, hfl, hvl⟩ h
    show (decFactorC t >>= factorCount) = .ok n
    change (encFactorCT s >>= factorCount) = .ok n at h
    obtain ⟨v, hv, hall, hcount⟩ := ct_encFactorCT_ok h
    have hne := ct_encFactorC_nonempty (ct_encFactorCX_ok hv)
    have hheads : List.mapM (m := Except Err) headVal t.vals = .ok (t.vals.map (fun _ => v)) := by
      apply ct_mapM_of_forall
      intro row hrow
      rw [hvals] at hrow
      obtain ⟨g, hg, rfl⟩ := List.mem_map.mp hrow
      have := List.all_eq_true.mp hall g hg
      cases hg2 : g.2 with
      | nil => rw [hg2] at this; simp at this
      | cons a as =>
        rw [hg2] at this
        simp only [List.head?_cons, beq_iff_eq, Option.some.injEq] at this
        rw [this]; rfl
    have hlen : t.vals.length = L := by rw [hvals, List.length_map, hfl]
    have hLpos : 0 < L := by
      rw [← hvl]
      exact List.length_pos_iff.mpr hne
    obtain ⟨L', rfl⟩ : ∃ L', L = L' + 1 := ⟨L - 1, by omega⟩
    have hrep : t.vals.map (fun _ => v) = List.replicate (L' + 1) v := by
      rw [List.eq_replicate_iff]
      exact ⟨by simp [hlen], fun b hb => by obtain ⟨_, _, rfl⟩ := List.mem_map.mp hb; rfl⟩
    unfold decFactorC
    rw [hheads, hrep]
    simp only [bind, Except.bind, sameAsFirst_replicate]
    simp only [List.replicate_succ, headVal]
    exact hcount
  lastValues := by
    intro i s t n l ⟨_, _, _, _, hvals, hfl, hvl⟩ h
    change encLastValuesCT n s = .ok l at h
    show ∃ l', decLastValues n t = .ok l' ∧ zeroMask l' = zeroMask l
    obtain ⟨_, hn, hne, hall⟩ := ct_encLastValuesCT_ok h
    unfold decLastValues
    rw [hvals]
    cases hf : s.forced with
    | nil => exact absurd hf hne
    | cons g gs =>
      have := List.all_eq_true.mp hall g (by rw [hf]; simp)
      simp only [List.map_cons, hn, if_false]
      exact ⟨_, rfl, by simpa using this⟩

/-! ### projection onto the CHECKED uncompressed encoder of one subset -/

/-- compressed encoder state `s` vs the checked uncompressed encoder state `t` of subset `k`:
    as `RelProj`, and the ghost register of `t` is ghost row `k` of `s` -/
def RelProjT (k : Nat) (s t : St) : Prop :=
  t.regs = s.regs ∧ t.descs = s.descs ∧ t.links = s.links ∧ t.idx = s.idx ∧
    (∃ row, s.vals[k]? = some row ∧ t.vals = [row]) ∧
    (∃ g, s.forced[k]? = some g ∧ t.aux = g.2)

/-- the register update of an accepted column is the one of every accepted entry -/
def ColUpd (col : ColW) (fld : Fld) : Prop :=
  ∀ v0 vs o, col ((v0 :: vs).all (· == v0)) (v0 :: vs) = .ok o →
    ∀ v, v ∈ v0 :: vs → ∀ fo, fld v = .ok fo → fo.upd = o.upd

theorem colUpd_of_proj {col : ColW} {fld : Fld} (h : ColProj col fld) : ColUpd col fld := by
  intro v0 vs o ho v hv fo hfo
  obtain ⟨fo', hfo', hupd⟩ := h v0 vs o ho v hv
  rw [hfo] at hfo'
  cases hfo'
  exact hupd

theorem colUpd_of_id {col : ColW} {fld : Fld} (h1 : ∀ a vs o, col a vs = .ok o → o.upd = id)
    (h2 : ∀ v fo, fld v = .ok fo → fo.upd = id) : ColUpd col fld := by
  intro v0 vs o ho v hv fo hfo
  rw [h1 _ _ _ ho, h2 _ _ hfo]

theorem encStepCT_encStepX_sim (k : Nat) (dd : DDesc) (col : ColW) (fld fldX : Fld)
    (bad : Bool → List Val → Bool)
    (hle : ∀ v fo, fld v = .ok fo → fldX v = .ok fo) (hu : ColUpd col fld) (s : St) :
    SimAt (I := Unit) (fun _ _ => True) (fun _ => RelProjT k) s
      (encStepCT dd (colT col fld bad) s) (encStepX dd fldX) := by
  intro s' hr j _
  refine ⟨(), trivial, ?_⟩
  rintro t ⟨h1, h2, h3, h4, ⟨row, hrow, hvals⟩, ⟨g, hg, haux⟩⟩
  unfold encStepCT at hr
  cases hv : colVals s with
  | error e => rw [hv] at hr; cases hr
  | ok values =>
    rw [hv] at hr
    cases values with
    | nil => cases hr
    | cons v0 vs =>
      dsimp only at hr
      cases ho : colT col fld bad ((v0 :: vs).all (· == v0)) (v0 :: vs) with
      | error e => rw [ho] at hr; cases hr
      | ok o =>
        rw [ho] at hr
        cases hr
        obtain ⟨o', fos, hc, hm, _, rfl⟩ := colT_ok ho
        obtain ⟨v, hvk, hnth⟩ := mapM_ok_get _ _ _ hv k row hrow
        obtain ⟨fo, hfok, hfo⟩ := mapM_ok_get fld _ _ hm k v hvk
        have hupd := hu v0 vs o' hc v (List.mem_of_getElem? hvk) fo hfo
        unfold encStepX
        have hcur : curVals t = row := by unfold curVals; rw [hvals]; rfl
        rw [hcur, h4, hnth]
        dsimp only
        rw [hle v fo hfo]
        refine ⟨_, rfl, ?_⟩
        have hck : (fos.map (·.canon))[k]? = some fo.canon := by
          rw [List.getElem?_map, hfok]; rfl
        simp only [RelProjT, h1, h2, h3, h4, hupd, hvals, haux, true_and]
        exact ⟨⟨row, hrow, rfl⟩, ⟨_, ghostPush_get hck hg, rfl⟩⟩

theorem fldNumericX_upd (nb sc rf : Int) (v : Val) (fo : FldOut)
    (h : fldNumericX nb sc rf v = .ok fo) : fo.upd = id :=
  fldNumeric_upd nb sc rf v fo (fldNumericX_le nb sc rf v fo h)

theorem fldCodeflagX_upd (n : Nat) (v : Val) (fo : FldOut)
    (h : fldCodeflagX n v = .ok fo) : fo.upd = id :=
  fldCodeflag_upd n v fo (fldCodeflagX_le n v fo h)

theorem ct_encFactorCX_row {s : St} {v : Val} (h : encFactorCX s = .ok v) {k : Nat} {row : List Val}
    (hrow : s.vals[k]? = some row) : s.idx ≠ 0 ∧ nthVal row (s.idx - 1) = .ok v := by
  have hc := ct_encFactorCX_ok h
  have hidx : s.idx ≠ 0 := by
    intro h0
    unfold encFactorC at hc
    simp [h0] at hc
  refine ⟨hidx, ?_⟩
  unfold encFactorCX at h
  rw [hc] at h
  cases hm : List.mapM (m := Except Err) (fun l => nthVal l (s.idx - 1)) s.vals with
  | error e =>
    simp only [bind, Except.bind] at h
    rw [hm] at h; cases h
  | ok heads =>
    simp only [bind, Except.bind, pure, Except.pure] at h
    rw [hm] at h
    dsimp only at h
    by_cases hall : (heads.all fun x => x == v) = true
    · obtain ⟨b, hb, hnth⟩ := mapM_ok_get _ _ _ hm k row hrow
      have hbv : b = v := by
        have := List.all_eq_true.mp hall b (List.mem_of_getElem? hb)
        simpa using this
      rw [← hbv]; exact hnth
    · simp only [hall, if_false] at h; cases h

theorem ct_encLastValuesCX_ok {s : St} {n : Nat} {l : List Val} (h : encLastValuesCX n s = .ok l) :
    encLastValues n s = .ok l ∧
      (s.vals.all (fun row => zeroMask ((row.take s.idx).drop (s.idx - n)) == zeroMask l)) = true := by
  unfold encLastValuesCX at h
  cases hv : encLastValues n s with
  | error e => rw [hv] at h; cases h
  | ok l0 =>
    rw [hv] at h
    simp only [bind, Except.bind, pure, Except.pure] at h
    split at h
    · rename_i hall; cases h; exact ⟨rfl, hall⟩
    · cases h

theorem primSim_ct_ux (k : Nat) : PrimSim₀ encPrimsCT encPrimsUX (RelProjT k) where
  agree := fun h => ⟨h.1, h.2.1, h.2.2.1⟩
  rel_setRegs := fun f ⟨h1, h2, h3, h4, h5, h6⟩ => by
    simp only [RelProjT, St.setRegs_regs, St.setRegs_descs, St.setRegs_links, St.setRegs_idx,
      St.setRegs_vals, St.setRegs_forced, St.setRegs_aux, h1, h2, h3, h4, true_and]
    exact ⟨h5, h6⟩
  rel_addLink := fun o ⟨h1, h2, h3, h4, h5, h6⟩ => by
    simp only [RelProjT, addLink_regs, addLink_descs, addLink_links, addLink_idx,
      addLink_vals, addLink_forced, addLink_aux, h1, h2, h3, h4, true_and]
    exact ⟨h5, h6⟩
  ix_setRegs := fun _ => Iff.rfl
  ix_addLink := fun _ => Iff.rfl
  numeric := fun dd nb sc rf s =>
    encStepCT_encStepX_sim k dd _ _ _ _ (fun _ _ h => h)
      (colUpd_of_id (colNumeric_upd nb sc rf) (fldNumericX_upd nb sc rf)) s
  string := fun dd n s =>
    encStepCT_encStepX_sim k dd _ _ _ _ (fun _ _ h => h) (colUpd_of_proj (colProj_string n)) s
  codeflag := fun dd n s =>
    encStepCT_encStepX_sim k dd _ _ _ _ (fun _ _ h => h)
      (colUpd_of_id (colCodeflag_upd n) (fldCodeflagX_upd n)) s
  newRefval := fun e n s =>
    encStepCT_encStepX_sim k _ _ _ _ _ (fun _ _ h => h) (colUpd_of_proj (colProj_newRefval e.id n)) s
  constant := fun dd c s =>
    encStepCT_encStepX_sim k dd _ _ _ _ (fun _ _ h => h) (colUpd_of_proj (colProj_constant c)) s
  factor := by
    intro i s t n ⟨_, _, _, h4, ⟨row, hrow, hvals⟩, ⟨g, hg, haux⟩⟩ h
    show (encFactorX t >>= factorCount) = .ok n
    change (encFactorCT s >>= factorCount) = .ok n at h
    obtain ⟨v, hv, hall, hcount⟩ := ct_encFactorCT_ok h
    obtain ⟨hidx, hnth⟩ := ct_encFactorCX_row hv hrow
    have hU : encFactorU t = .ok v := by
      unfold encFactorU curVals
      rw [hvals, h4]
      simp only [hidx, if_false, List.headD_cons, hnth]
    have hgh := List.all_eq_true.mp hall g (List.mem_of_getElem? hg)
    unfold encFactorX
    rw [hU, haux]
    cases hg2 : g.2 with
    | nil => rw [hg2] at hgh; simp at hgh
    | cons c cs =>
      rw [hg2] at hgh
      simp only [List.head?_cons, beq_iff_eq, Option.some.injEq] at hgh
      simp only [bind, Except.bind, pure, Except.pure, hgh, if_true]
      exact hcount
  lastValues := by
    intro i s t n l ⟨_, _, _, h4, ⟨row, hrow, hvals⟩, ⟨g, hg, haux⟩⟩ h
    change encLastValuesCT n s = .ok l at h
    show ∃ l', encLastValuesX n t = .ok l' ∧ zeroMask l' = zeroMask l
    obtain ⟨hcx, hn, _, hall⟩ := ct_encLastValuesCT_ok h
    obtain ⟨_, hrows⟩ := ct_encLastValuesCX_ok hcx
    have hr := List.all_eq_true.mp hrows row (List.mem_of_getElem? hrow)
    have hgh := List.all_eq_true.mp hall g (List.mem_of_getElem? hg)
    simp only [beq_iff_eq] at hr hgh
    unfold encLastValuesX encLastValues curVals
    rw [hvals, h4, haux]
    simp only [bind, Except.bind, pure, Except.pure, List.headD_cons, hn, if_false, hgh, hr, if_true]
    exact ⟨_, rfl, hr⟩

/-! ### erasure: checked for transparency ⟶ checked for shared structure (`encPrimsCX`) -/

theorem encStepCT_encStepC_sim (dd : DDesc) (colA colB : ColW)
    (hc : ∀ a vs o, colA a vs = .ok o → ∃ o', colB a vs = .ok o' ∧ o'.bits = o.bits ∧ o'.upd = o.upd)
    (s : St) :
    SimAt (I := Unit) (fun _ _ => True) (fun _ => RelErase) s (encStepCT dd colA s) (encStepC dd colB) := by
  intro s' hr j _
  refine ⟨(), trivial, ?_⟩
  intro t ⟨h1, h2, h3, h4, h5, h6⟩
  unfold encStepCT at hr
  unfold encStepC
  have hcv : colVals t = colVals s := by unfold colVals; rw [h4, h5]
  rw [hcv]
  cases hv : colVals s with
  | error e => rw [hv] at hr; cases hr
  | ok values =>
    rw [hv] at hr
    cases values with
    | nil => cases hr
    | cons v0 vs =>
      dsimp only at hr ⊢
      cases ho : colA ((v0 :: vs).all (· == v0)) (v0 :: vs) with
      | error e => rw [ho] at hr; cases hr
      | ok o =>
        rw [ho] at hr
        cases hr
        obtain ⟨o', ho', hb, hu⟩ := hc _ _ _ ho
        rw [ho']
        exact ⟨_, rfl, by simp only [RelErase, h1, h2, h3, h4, h5, h6, hb, hu, and_self]⟩

theorem colT_le (col : ColW) (fld : Fld) (bad : Bool → List Val → Bool) (a : Bool) (vs : List Val)
    (o : ColOut) (h : colT col fld bad a vs = .ok o) : ∃ o', col a vs = .ok o' ∧ o'.bits = o.bits ∧ o'.upd = o.upd := by
  obtain ⟨o', fos, hc, _, _, rfl⟩ := colT_ok h
  exact ⟨o', hc, rfl, rfl⟩

theorem colT_le_checked (col : ColW) (fldT fld : Fld) (bad : Bool → List Val → Bool)
    (hle : ∀ v fo, fldT v = .ok fo → fld v = .ok fo)
    (a : Bool) (vs : List Val) (o : ColOut) (h : colT col fldT bad a vs = .ok o) :
    ∃ o', colChecked col fld a vs = .ok o' ∧ o'.bits = o.bits ∧ o'.upd = o.upd := by
  obtain ⟨o', fos, hc, hm, _, rfl⟩ := colT_ok h
  refine ⟨o', ?_, rfl, rfl⟩
  unfold colChecked
  rw [hc]
  have hall : (vs.all fun v => (fld v).toBool) = true := by
    rw [List.all_eq_true]
    intro v hv
    obtain ⟨fo, hfo⟩ := ct_rel2_ok (ct_mapM_rel2 _ _ _ hm) v hv
    rw [hle v fo hfo]; rfl
  simp only [bind, Except.bind, pure, Except.pure, hall, if_true]

theorem primSim_ct_cx : PrimSim₀ encPrimsCT encPrimsCX RelErase where
  agree := fun h => ⟨h.1, h.2.2.1, h.2.2.2.2.2⟩
  rel_setRegs := fun f ⟨h1, h2, h3, h4, h5, h6⟩ => by
    simp only [RelErase, St.setRegs_regs, St.setRegs_descs, St.setRegs_links, St.setRegs_bits,
      St.setRegs_vals, St.setRegs_idx, h1, h2, h3, h4, h5, h6, and_self]
  rel_addLink := fun o ⟨h1, h2, h3, h4, h5, h6⟩ => by
    simp only [RelErase, addLink_regs, addLink_descs, addLink_links, addLink_bits,
      addLink_vals, addLink_idx, h1, h2, h3, h4, h5, h6, and_self]
  ix_setRegs := fun _ => Iff.rfl
  ix_addLink := fun _ => Iff.rfl
  numeric := fun dd nb sc rf s =>
    encStepCT_encStepC_sim dd _ _ (colT_le_checked _ _ _ _ (fldNumericX_le nb sc rf)) s
  string := fun dd n s => encStepCT_encStepC_sim dd _ _ (colT_le _ _ _) s
  codeflag := fun dd n s =>
    encStepCT_encStepC_sim dd _ _ (colT_le_checked _ _ _ _ (fldCodeflagX_le n)) s
  newRefval := fun e n s => encStepCT_encStepC_sim _ _ _ (colT_le _ _ _) s
  constant := fun dd c s => encStepCT_encStepC_sim dd _ _ (colT_le _ _ _) s
  factor := by
    intro i s t n ⟨_, _, _, h4, h5, _⟩ h
    show (encFactorCX t >>= factorCount) = .ok n
    change (encFactorCT s >>= factorCount) = .ok n at h
    obtain ⟨v, hv, _, hcount⟩ := ct_encFactorCT_ok h
    have : encFactorCX t = encFactorCX s := by
      unfold encFactorCX encFactorC
      rw [h4, h5]
    rw [this, hv]
    exact hcount
  lastValues := by
    intro i s t n l ⟨_, _, _, h4, h5, _⟩ h
    change encLastValuesCT n s = .ok l at h
    show ∃ l', encLastValuesCX n t = .ok l' ∧ zeroMask l' = zeroMask l
    obtain ⟨hcx, _⟩ := ct_encLastValuesCT_ok h
    have : encLastValuesCX n t = encLastValuesCX n s := by
      unfold encLastValuesCX encLastValues curVals
      rw [h4, h5]
    rw [this]
    exact ⟨l, hcx, rfl⟩

end Bufr
