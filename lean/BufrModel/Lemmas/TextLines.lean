/-
  Helper lemmas for C09, nested text: what `subsets_nested_text_to_flat_json` does with each kind of line the
  renderer emits (value line, attribute line, bare descriptor, sequence header, replication header).
-/
import BufrModel.Lemmas.TextBasic
namespace Bufr.C09T
open Bufr

/-- an indentation: blanks and dots only -/
def IndentOK (indent : Line) : Prop := ∀ x ∈ indent, isDotSpace x = true

theorem indentOK_nil : IndentOK [] := by intro x hx; simp at hx

theorem indentOK_append {a b : Line} (ha : IndentOK a) (hb : IndentOK b) : IndentOK (a ++ b) := by
  intro x hx
  rw [List.mem_append] at hx
  rcases hx with h | h
  · exact ha x h
  · exact hb x h

theorem indentOK_indent4 : IndentOK indent4 := by
  have : ∀ x ∈ indent4, isDotSpace x = true := by decide
  exact this

theorem indentOK_dots4 : IndentOK dots4 := by
  have : ∀ x ∈ dots4, isDotSpace x = true := by decide
  exact this

/-- stripping a line that ends in a value token: only the indentation goes -/
theorem norm_value (indent cs D tok : Line) (c : Char) (hi : IndentOK indent)
    (hc : isPySpace c = false) (hd : isDotSpace c = false) (he : EdgesOK tok) :
    lstripDotSpace (pyStrip (indent ++ (c :: cs ++ ' ' :: D ++ ' ' :: tok))) = c :: cs ++ ' ' :: D ++ ' ' :: tok := by
  obtain ⟨hne, _, hl⟩ := he
  obtain ⟨t0, tl, rfl⟩ : ∃ t0 tl, tok = t0 ++ [tl] := ⟨tok.dropLast, tok.getLast hne, (List.dropLast_concat_getLast hne).symm⟩
  have hl' := hl tl (by simp)
  have e : c :: cs ++ ' ' :: D ++ ' ' :: (t0 ++ [tl]) = c :: ((cs ++ ' ' :: D ++ ' ' :: t0) ++ [tl]) := by simp
  rw [e, norm_cons indent _ c hi hc hd, pyRstrip_concat _ tl hl']

theorem contains_blank (a b : Line) : (a ++ ' ' :: b).contains ' ' = true := by simp

/-- the token of a value: what `ntToken` cuts out of a stripped line that ends in ` ` + token -/
theorem ntToken_value (env : TextEnv) (ev : Line → Option PyLit) (v : Val) (h : ReprCore env ev v) (pre : Line) :
    ev (ntToken (pre ++ ' ' :: env.reprV v)) = some (.val v) := by
  have : ntToken (pre ++ ' ' :: env.reprV v) = env.reprV v := by
    by_cases hb : ∃ b, v = .bytes b
    · obtain ⟨b, hb⟩ := hb
      exact ntToken_bytes pre _ (h.bytes_tok b hb)
    · exact ntToken_plain pre _ h.edges.1 (h.plain_tok (fun b hb' => hb ⟨b, hb'⟩))
  rw [this, h.eval_repr]

/-- a member / factor value line: the value is appended -/
theorem classify_value_line (env : TextEnv) (ev : Line → Option PyLit) (indent : Line) (k : VKind) (d : DDesc) (v : Val)
    (hi : IndentOK indent) (h3 : (descStr d).head? ≠ some '3') (h : ReprCore env ev v) :
    ntClassify ev (ntValueLine env indent false k d v) = .append (.val v) := by
  obtain ⟨c, cs, hd, hc, _⟩ := descStr_cons d
  obtain ⟨f1, f2, f3, f4, f5, _⟩ := headChars_facts c hc
  have hc3 : c ≠ '3' := by
    intro e; apply h3; rw [hd, e]; rfl
  have hraw : ntValueLine env indent false k d v =
      indent ++ (c :: cs ++ ' ' :: description env k d ++ ' ' :: env.reprV v) := by
    simp [ntValueLine, hd]
  have htok := ntToken_value env ev v h (c :: cs ++ ' ' :: description env k d)
  unfold ntClassify
  rw [hraw, norm_value indent cs _ _ c hi f1 f2 h.edges]
  have e1 : startsWith sectionMark (c :: cs ++ ' ' :: description env k d ++ ' ' :: env.reprV v) = false :=
    startsWith_head_ne _ _ _ _ (Ne.symm f5)
  have e2 : startsWith subsetMark (c :: cs ++ ' ' :: description env k d ++ ' ' :: env.reprV v) = false :=
    startsWith_head_ne _ _ _ _ (Ne.symm f3)
  have e3 : startsWith ['#'] (c :: cs ++ ' ' :: description env k d ++ ' ' :: env.reprV v) = false :=
    startsWith_head_ne _ _ _ _ (Ne.symm f3)
  have e4 : startsWith ['-', '>'] (c :: cs ++ ' ' :: description env k d ++ ' ' :: env.reprV v) = false :=
    startsWith_head_ne _ _ _ _ (Ne.symm f4)
  have e5 : startsWith ['3'] (c :: cs ++ ' ' :: description env k d ++ ' ' :: env.reprV v) = false :=
    startsWith_head_ne _ _ _ _ (Ne.symm hc3)
  have e6 : startsWith ['-', '>', ' ', 'A'] (c :: cs ++ ' ' :: description env k d ++ ' ' :: env.reprV v) = false :=
    startsWith_head_ne _ _ _ _ (Ne.symm f4)
  have e7 : (c :: cs ++ ' ' :: description env k d ++ ' ' :: env.reprV v).contains ' ' = true := contains_blank _ _
  simp only [e1, e2, e3, e4, e5, e6, e7, htok, Bool.false_eq_true, if_false, Bool.false_and, Bool.or_self, Bool.not_true]

/-- the stripped form of an attribute line -/
theorem attr_line_norm (env : TextEnv) (ev : Line → Option PyLit) (indent : Line) (k : VKind) (d : DDesc) (v : Val)
    (hi : IndentOK indent) (h : ReprCore env ev v) :
    ∃ c cs, descStr d = c :: cs ∧ (c = 'A' ↔ d.isAssoc = true) ∧
      lstripDotSpace (pyStrip (ntValueLine env indent true k d v)) =
        '-' :: '>' :: ' ' :: c :: cs ++ ' ' :: description env k d ++ ' ' :: env.reprV v := by
  obtain ⟨c, cs, hd, _, hA⟩ := descStr_cons d
  refine ⟨c, cs, hd, hA, ?_⟩
  have hraw : ntValueLine env indent true k d v =
      indent ++ ('-' :: ('>' :: ' ' :: c :: cs) ++ ' ' :: description env k d ++ ' ' :: env.reprV v) := by
    simp [ntValueLine, hd, attrArrow]
  rw [hraw, norm_value indent _ _ _ '-' hi (by decide) (by decide) h.edges]

/-- an attribute line whose descriptor is not an associated field: skipped -/
theorem classify_attr_skip (env : TextEnv) (ev : Line → Option PyLit) (indent : Line) (k : VKind) (d : DDesc) (v : Val)
    (hi : IndentOK indent) (hd : d.isAssoc = false) (h : ReprCore env ev v) :
    ntClassify ev (ntValueLine env indent true k d v) = .skip := by
  obtain ⟨c, cs, _, hA, hn⟩ := attr_line_norm env ev indent k d v hi h
  have hcA : c ≠ 'A' := by
    intro e; have := hA.mp e; rw [hd] at this; cases this
  unfold ntClassify
  rw [hn]
  simp [startsWith_cons, sectionMark, subsetMark, startsWith_nil_left, Ne.symm hcA]

/-- the attribute line of an associated field: its value is inserted before the owner's -/
theorem classify_attr_insert (env : TextEnv) (ev : Line → Option PyLit) (indent : Line) (k : VKind) (d : DDesc) (v : Val)
    (hi : IndentOK indent) (hd : d.isAssoc = true) (h : ReprCore env ev v) :
    ntClassify ev (ntValueLine env indent true k d v) = .insert (.val v) := by
  obtain ⟨c, cs, _, hA, hn⟩ := attr_line_norm env ev indent k d v hi h
  have hcA : c = 'A' := hA.mpr hd
  subst hcA
  have htok := ntToken_value env ev v h ('-' :: '>' :: ' ' :: 'A' :: cs ++ ' ' :: description env k d)
  have e7 : ('-' :: '>' :: ' ' :: 'A' :: cs ++ ' ' :: description env k d ++ ' ' :: env.reprV v).contains ' ' = true :=
    contains_blank _ _
  unfold ntClassify
  rw [hn]
  simp only [List.cons_append, List.append_assoc] at htok e7 ⊢
  simp [startsWith_cons, sectionMark, subsetMark, startsWith_nil_left, htok]

/-- a bare descriptor (replication, operator, element suppressed by 221YYY): skipped -/
theorem classify_bare (ev : Line → Option PyLit) (indent : Line) (id : Nat) (hi : IndentOK indent) :
    ntClassify ev (indent ++ zpad 6 id) = .skip := by
  obtain ⟨c, cs, hz, hc⟩ := zpad_cons 6 id
  obtain ⟨f1, f2, f3, f4, f5, _⟩ := headChars_facts c (by simp [headChars, hc])
  have hnb : ∀ x ∈ c :: cs, x ≠ ' ' := fun x hx => digitChars_no_blank x (zpad_digits 6 id x (by rw [hz]; exact hx))
  -- the last character is a digit: nothing is stripped on the right
  have hr : pyRstrip cs = cs := by
    rcases List.eq_nil_or_concat cs with rfl | ⟨t0, tl, rfl⟩
    · rfl
    · have htl : tl ∈ c :: (t0.concat tl) := by simp
      have : isPySpace tl = false := by
        have hdig := zpad_digits 6 id tl (by rw [hz]; exact htl)
        exact (headChars_facts tl (by simp [headChars, hdig])).1
      rw [List.concat_eq_append]
      exact pyRstrip_concat t0 tl this
  unfold ntClassify
  rw [hz, norm_cons indent cs c hi f1 f2, hr]
  have e1 : startsWith sectionMark (c :: cs) = false := startsWith_head_ne _ _ _ _ (Ne.symm f5)
  have e2 : startsWith subsetMark (c :: cs) = false := startsWith_head_ne _ _ _ _ (Ne.symm f3)
  have e7 : (c :: cs).contains ' ' = false := by
    rw [List.contains_eq_mem]
    simp only [decide_eq_false_iff_not]
    intro hm
    exact hnb ' ' hm rfl
  simp only [e1, e2, e7, Bool.false_eq_true, if_false, Bool.not_false, if_true]
  split <;> rfl

/-- a sequence header `3XXYYY name`: skipped, whatever the name is -/
theorem classify_seq (ev : Line → Option PyLit) (indent name : Line) (id : Nat) (hi : IndentOK indent)
    (h3 : (zpad 6 id).head? = some '3') : ntClassify ev (indent ++ zpad 6 id ++ ' ' :: name) = .skip := by
  obtain ⟨c, cs, hz, _⟩ := zpad_cons 6 id
  have hc : c = '3' := by rw [hz] at h3; simpa using h3
  subst hc
  unfold ntClassify
  have e : indent ++ zpad 6 id ++ ' ' :: name = indent ++ '3' :: (cs ++ ' ' :: name) := by simp [hz]
  rw [e, norm_cons indent _ '3' hi (by decide) (by decide)]
  simp [startsWith_cons, sectionMark, subsetMark, startsWith_nil_left]

/-- a replication header `# --- i of n replications ---`: skipped (and not taken for a subset header) -/
theorem classify_rep_header (ev : Line → Option PyLit) (indent : Line) (ir k : Nat) (hi : IndentOK indent) :
    ntClassify ev (repHeader indent ir k) = .skip := by
  unfold ntClassify repHeader
  rw [norm_cons indent _ '#' hi (by decide) (by decide)]
  have : pyRstrip (' ' :: (("--- ".toList ++ natStr ir ++ " of ".toList ++ natStr k ++ " replications --".toList) ++ ['-']))
      = ' ' :: (("--- ".toList ++ natStr ir ++ " of ".toList ++ natStr k ++ " replications --".toList) ++ ['-']) := by
    have := pyRstrip_concat (' ' :: ("--- ".toList ++ natStr ir ++ " of ".toList ++ natStr k ++ " replications --".toList)) '-' (by decide)
    simpa using this
  rw [this]
  simp [startsWith_cons, sectionMark, subsetMark, startsWith_nil_left]

end Bufr.C09T
