/-
  By-source member resolution of `TableD` (`buildSrc`) vs. the merged lookup (`buildD`), two sources.
-/
import BufrModel.Msg.TableDef
namespace Bufr.C20
open Bufr Bufr.TableDef

/-- no sequence of the older source mentions an id the newer source defines -/
def NoBackRef (old new : Nat → Option (List Nat)) : Prop :=
  ∀ id ms, old id = some ms → ∀ m ∈ ms, new m = none

theorem buildSrc_old (b : Nat → Option Elem) (old new : Nat → Option (List Nat)) (Tm : Tables)
    (hb : Tm.b = b) (hd : ∀ i, Tm.d i = (new i).orElse (fun _ => old i)) (hnb : NoBackRef old new)
    (depth : Nat) (ids : List Nat) (hids : ∀ m ∈ ids, new m = none) :
    buildSrc b [old] depth ids = buildD Tm depth ids := by
  fun_induction buildD Tm depth ids with
  | case1 depth => unfold buildSrc; rfl
  | case2 depth id rest h3 hT ih =>
    have hn := hids id (by simp)
    have ho : old id = none := by have := hd id; rw [hn, hT] at this; exact this.symm
    unfold buildSrc
    simp only [h3, if_true, findSrc, ho]
    rw [ih (fun m hm => hids m (List.mem_cons_of_mem _ hm))]
  | case3 id rest h3 ms hT =>
    have hn := hids id (by simp)
    have ho : old id = some ms := by have := hd id; rw [hn, hT] at this; exact this.symm
    unfold buildSrc
    simp only [h3, if_true, findSrc, ho]
  | case4 id rest h3 ms hT depth' ih1 ih2 =>
    have hn := hids id (by simp)
    have ho : old id = some ms := by have := hd id; rw [hn, hT] at this; exact this.symm
    unfold buildSrc
    simp only [h3, if_true, findSrc, ho, List.length_nil, List.length_cons, Nat.zero_add, Nat.sub_self, List.drop_zero]
    rw [ih1 (hnb id ms ho), ih2 (fun m hm => hids m (List.mem_cons_of_mem _ hm))]
  | case5 depth id rest h3 h2 ih =>
    unfold buildSrc
    simp only [h3, h2, if_true, if_false]
    rw [ih (fun m hm => hids m (List.mem_cons_of_mem _ hm))]
  | case6 depth id h3 h2 h1 h0 =>
    unfold buildSrc
    simp only [h3, h2, h1, h0, if_true, if_false]
  | case7 depth id h3 h2 h1 h0 f rest' ih1 ih2 =>
    unfold buildSrc
    simp only [h3, h2, h1, h0, if_true, if_false]
    rw [ih1 (fun m hm => hids m (List.mem_cons_of_mem _ (List.mem_cons_of_mem _ (List.mem_of_mem_take hm)))),
        ih2 (fun m hm => hids m (List.mem_cons_of_mem _ (List.mem_cons_of_mem _ (List.mem_of_mem_drop hm))))]
    simp only [Tables.lookupB, hb]
  | case8 depth id rest h3 h2 h1 h0 ih1 ih2 =>
    unfold buildSrc
    simp only [h3, h2, h1, h0, if_true, if_false]
    rw [ih1 (fun m hm => hids m (List.mem_cons_of_mem _ (List.mem_of_mem_take hm))),
        ih2 (fun m hm => hids m (List.mem_cons_of_mem _ (List.mem_of_mem_drop hm)))]
  | case9 depth id rest h3 h2 h1 ih =>
    unfold buildSrc
    simp only [h3, h2, h1, if_true, if_false]
    rw [ih (fun m hm => hids m (List.mem_cons_of_mem _ hm))]
    simp only [Tables.lookupB, hb]

theorem buildSrc_two (b : Nat → Option Elem) (old new : Nat → Option (List Nat)) (Tm : Tables)
    (hb : Tm.b = b) (hd : ∀ i, Tm.d i = (new i).orElse (fun _ => old i)) (hnb : NoBackRef old new)
    (depth : Nat) (ids : List Nat) :
    buildSrc b [new, old] depth ids = buildD Tm depth ids := by
  fun_induction buildD Tm depth ids with
  | case1 depth => unfold buildSrc; rfl
  | case2 depth id rest h3 hT ih =>
    have h := hd id
    rw [hT] at h
    cases hn : new id with
    | some v => rw [hn] at h; cases h
    | none =>
      rw [hn] at h
      have ho : old id = none := h.symm
      unfold buildSrc
      simp only [h3, if_true, findSrc, hn, ho]
      rw [ih]
  | case3 id rest h3 ms hT =>
    have h := hd id
    rw [hT] at h
    unfold buildSrc
    cases hn : new id with
    | some v => simp only [h3, if_true, findSrc, hn]
    | none =>
      rw [hn] at h
      have ho : old id = some ms := h.symm
      simp only [h3, if_true, findSrc, hn, ho]
  | case4 id rest h3 ms hT depth' ih1 ih2 =>
    have h := hd id
    rw [hT] at h
    unfold buildSrc
    cases hn : new id with
    | some v =>
      rw [hn] at h
      have hv : v = ms := by simpa [Option.orElse] using h.symm
      subst hv
      simp only [h3, if_true, findSrc, hn, List.length_cons, List.length_nil, Nat.zero_add, Nat.sub_self, List.drop_zero]
      rw [ih1, ih2]
    | none =>
      rw [hn] at h
      have ho : old id = some ms := h.symm
      simp only [h3, if_true, findSrc, hn, ho, List.length_cons, List.length_nil, Nat.zero_add]
      have : [new, old].drop (1 + 1 - (0 + 1)) = [old] := rfl
      rw [this, buildSrc_old b old new Tm hb hd hnb depth' ms (hnb id ms ho), ih2]
  | case5 depth id rest h3 h2 ih =>
    unfold buildSrc
    simp only [h3, h2, if_true, if_false]
    rw [ih]
  | case6 depth id h3 h2 h1 h0 =>
    unfold buildSrc
    simp only [h3, h2, h1, h0, if_true, if_false]
  | case7 depth id h3 h2 h1 h0 f rest' ih1 ih2 =>
    unfold buildSrc
    simp only [h3, h2, h1, h0, if_true, if_false]
    rw [ih1, ih2]
    simp only [Tables.lookupB, hb]
  | case8 depth id rest h3 h2 h1 h0 ih1 ih2 =>
    unfold buildSrc
    simp only [h3, h2, h1, h0, if_true, if_false]
    rw [ih1, ih2]
  | case9 depth id rest h3 h2 h1 ih =>
    unfold buildSrc
    simp only [h3, h2, h1, if_true, if_false]
    rw [ih]
    simp only [Tables.lookupB, hb]

end Bufr.C20
