/-
  Lemmas for C16: the structural query model (`View/Query.lean`) followed by the value pass equals the
  path-recursive evaluation over the nested JSON rendering (`Spec/EvalPath.lean`), for every path of child and
  attribute steps.
-/
import BufrModel.Lemmas.QueryBase
namespace Bufr.C16
open Bufr.Query Bufr.PathLang Bufr.Spec Bufr.C09

/-! ### the continuation of one node -/

/-- what `contList` computes for one node -/
def contFor (ds : List DDesc) (c : Comp) (rest : List Comp) (n : Node) : Cont :=
  contOf (nodeMatch ds c n) n rest (fun _ => subNodes ds n c rest)
    (fun _ => match rest with
      | [] => .ok []
      | c' :: rest' => subNodes ds n c' rest')

theorem contList_eq_map (ds : List DDesc) (c : Comp) (rest : List Comp) :
    ∀ (ns : List Node), contList ds ns c rest = ns.map (contFor ds c rest)
  | [] => by simp [contList]
  | n :: ns => by
    simp only [contList, List.map_cons, contList_eq_map ds c rest ns, contFor]
    cases rest <;> rfl

theorem zip_map_self {α β : Type} (f : α → β) : ∀ (l : List α), l.zip (l.map f) = l.map (fun a => (a, f a))
  | [] => rfl
  | a :: as => by simp only [List.map_cons, List.zip_cons_cons, zip_map_self f as]

/-! ### the specification, one step -/

/-- the dicts a step selects among `cands`, the rest of the path evaluated at each -/
def evalSel (rest : List Comp) (c : Comp) (cands : List NJ) : CM (List QV) :=
  match choose c cands with
  | .error e => .error e
  | .ok sel => concatQ (sel.map (evalAt rest))

theorem evalAt_cons (c : Comp) (rest : List Comp) (d : NJ) :
    evalAt (c :: rest) d = (match targets d c.sep with
      | .nothing => if c.sep = '/' ∨ c.sep = '.' then .error .query else .error .other
      | .flat cands => evalSel rest c cands
      | .reps bs => wrapQ (envelopeQ (bs.map (evalSel rest c)))) := by
  rw [evalAt]
  cases targets d c.sep with
  | nothing => rfl
  | flat cands => rfl
  | reps bs => rfl

theorem evalSel_qerr (rest : List Comp) (c : Comp) (hs : sliceOK c.slice = true) (cands : List NJ)
    (h : ∀ x, QErr (evalAt rest x)) : QErr (evalSel rest c cands) := by
  unfold evalSel choose
  rw [if_pos hs]
  simp only
  apply concatQ_qerr
  intro r hr
  obtain ⟨x, _, rfl⟩ := List.mem_map.mp hr
  exact h x

/-- a path of child and attribute steps with slices of the path language can only fail with `QueryError` -/
theorem evalAt_qerr : ∀ (comps : List Comp), (∀ c ∈ comps, c.sep = '/' ∨ c.sep = '.') →
    (∀ c ∈ comps, sliceOK c.slice = true) → ∀ x, QErr (evalAt comps x)
  | [], _, _, x => by
    cases x <;> simp only [evalAt] <;> first | exact QErr.ok _ | exact QErr.query
  | c :: rest, hp, hs, x => by
    have ih := evalAt_qerr rest (fun c' h => hp c' (List.mem_cons_of_mem _ h)) (fun c' h => hs c' (List.mem_cons_of_mem _ h))
    have hs1 := hs c List.mem_cons_self
    rw [evalAt_cons]
    cases targets x c.sep with
    | nothing =>
      simp only
      rw [if_pos (hp c List.mem_cons_self)]
      exact QErr.query
    | flat cands => exact evalSel_qerr rest c hs1 cands ih
    | reps bs =>
      simp only
      apply wrapQ_qerr
      apply envelopeQ_qerr
      intro r hr
      obtain ⟨b, _, rfl⟩ := List.mem_map.mp hr
      exact evalSel_qerr rest c hs1 b ih

/-! ### one step over a list of candidates -/

theorem nodeMatch_hit_iff (ds : List DDesc) (c : Comp) (hsep : c.sep ≠ '>') (n : Node) :
    nodeMatch ds c n = .hit ↔ nodeLabel ds n = some c.id := by
  by_cases h : nodeLabel ds n = some c.id
  · simp [nodeMatch, h]
  · simp [nodeMatch, h, hsep]

theorem nodeMatch_ne_keep (ds : List DDesc) (c : Comp) (hsep : c.sep ≠ '>') (n : Node) :
    nodeMatch ds c n ≠ .keep := by
  by_cases h : nodeLabel ds n = some c.id
  · simp [nodeMatch, h]
  · simp [nodeMatch, h, hsep]

/-- `filter_for_entities` + the continuations of the selection + the value pass = the specification's
    selection among the rendered candidates, when labels agree and every continuation of a matching node
    agrees with the evaluation of the rest of the path at its rendering -/
theorem selectRun_eval {τ : Type} (ds : List DDesc) (vals : List Val) (c : Comp) (rest : List Comp)
    (hsep : c.sep ≠ '>') (hs : sliceOK c.slice = true)
    (T : List τ) (fn : τ → Node) (fk : τ → Cont) (g : τ → NJ)
    (hlab : ∀ t ∈ T, nodeLabel ds (fn t) = njLabel (g t))
    (hcont : ∀ t ∈ T, nodeLabel ds (fn t) = some c.id → runVals vals (fk t) = evalAt rest (g t))
    (hq : ∀ t ∈ T, QErr (evalAt rest (g t))) :
    runVals vals (selectRun ds c (T.map (fun t => (fn t, fk t)))) = evalSel rest c (T.map g) := by
  unfold selectRun
  rw [filterEnt_eq c _ _ (fun p _ => nodeMatch_ne_keep ds c hsep p.1) hs]
  simp only
  unfold evalSel choose
  rw [if_pos hs]
  simp only
  rw [List.filter_map, ← pickSel_map, List.filter_map, ← pickSel_map, List.map_map, List.map_map]
  have hf : T.filter ((fun (p : Node × Cont) => decide (nodeMatch ds c p.1 = .hit)) ∘ (fun t => (fn t, fk t))) =
      T.filter (fun t => decide (nodeLabel ds (fn t) = some c.id)) := by
    apply List.filter_congr
    intro t _
    simp only [Function.comp, nodeMatch_hit_iff ds c hsep]
  have hg : T.filter ((fun d => decide (njLabel d = some c.id)) ∘ g) =
      T.filter (fun t => decide (nodeLabel ds (fn t) = some c.id)) := by
    apply List.filter_congr
    intro t ht
    simp only [Function.comp, hlab t ht]
  rw [hf, hg]
  generalize hS : pickSel c.slice (T.filter (fun t => decide (nodeLabel ds (fn t) = some c.id))) = S
  have hmem : ∀ s ∈ S, s ∈ T ∧ nodeLabel ds (fn s) = some c.id := by
    intro s hs'
    rw [← hS] at hs'
    have := pickSel_subset _ _ s hs'
    rw [List.mem_filter] at this
    exact ⟨this.1, by simpa using this.2⟩
  have := concat_eval vals (S.map (fun t => (fk t, evalAt rest (g t)))) (by
    intro s hs'
    obtain ⟨t, ht, rfl⟩ := List.mem_map.mp hs'
    obtain ⟨h1, h2⟩ := hmem t ht
    exact ⟨hcont t h1 h2, hq t h1⟩)
  rw [List.map_map, List.map_map] at this
  exact this

/-! ### a node and its rendering -/

/-- `x` is the dict the renderer emits for `n` (as a member, a factor or an attribute) -/
def Rend (o : SubsetOut) (n : Node) (x : NJ) : Prop :=
  renderNode o n = .ok x ∨ renderValue o true n = .ok x

theorem rend_value {o : SubsetOut} {k : VKind} {i : Nat} {attrs : List Node} {x : NJ}
    (h : Rend o (.value k i attrs) x) :
    ∃ d v virt as, o.descs[i]? = some d ∧ o.vals[i]? = some v ∧ renderAttrs o attrs = .ok as ∧
      x = .value d v virt as := by
  rcases h with h | h
  · rw [renderNode] at h
    obtain ⟨d, v, as, h1, h2, h3, h4⟩ := renderValue_attr h
    exact ⟨d, v, _, as, h1, h2, h3, h4⟩
  · obtain ⟨d, v, as, h1, h2, h3, h4⟩ := renderValue_attr h
    exact ⟨d, v, _, as, h1, h2, h3, h4⟩

theorem rend_noval {o : SubsetOut} {id : Nat} {x : NJ} (h : Rend o (.noval id) x) : x = .noval id := by
  rcases h with h | h
  · rw [renderNode] at h; cases h; rfl
  · simp [renderValue] at h

theorem rend_seq {o : SubsetOut} {id : Nat} {ms : List Node} {x : NJ} (h : Rend o (.seq id ms) x) :
    ∃ xs, renderNodes o ms = .ok xs ∧ x = .group id [] xs := by
  rcases h with h | h
  · rw [renderNode] at h
    split at h
    · cases h
    · next xs hxs => cases h; exact ⟨xs, hxs, rfl⟩
  · simp [renderValue] at h

theorem rend_fixed {o : SubsetOut} {id n : Nat} {ms : List Node} {x : NJ} (h : Rend o (.fixedRep id n ms) x) :
    ∃ xs, renderNodes o ms = .ok xs ∧ x = .group id [] ((chunks n (yOf id) xs).map NJ.arr) := by
  rcases h with h | h
  · rw [renderNode] at h
    split at h
    · cases h
    · next xs hxs => cases h; exact ⟨xs, hxs, rfl⟩
  · simp [renderValue] at h

theorem rend_delayed {o : SubsetOut} {id n : Nat} {f : Node} {ms : List Node} {x : NJ}
    (h : Rend o (.delayedRep id n f ms) x) :
    ∃ kf i fattrs k fj xs, f = .value kf i fattrs ∧ wireCount o i = .ok k ∧ renderValue o false f = .ok fj ∧
      renderNodes o ms = .ok xs ∧ x = .group id [fj] ((chunks n k xs).map NJ.arr) := by
  rcases h with h | h
  · cases f with
    | value kf i fattrs =>
      rw [renderNode] at h
      split at h
      · cases h
      · next k hk =>
        split at h
        · cases h
        · next fj hfj =>
          split at h
          · cases h
          · next xs hxs =>
            cases h
            exact ⟨kf, i, fattrs, k, fj, xs, rfl, hk, hfj, hxs, rfl⟩
    | noval _ => simp [renderNode] at h
    | seq _ _ => simp [renderNode] at h
    | fixedRep _ _ _ => simp [renderNode] at h
    | delayedRep _ _ _ _ => simp [renderNode] at h
  · simp [renderValue] at h

theorem rend_label {o : SubsetOut} {n : Node} {x : NJ} (h : Rend o n x) : nodeLabel o.descs n = njLabel x := by
  cases n with
  | value k i attrs =>
    obtain ⟨d, v, virt, as, h1, _, _, rfl⟩ := rend_value h
    simp only [nodeLabel, h1, Option.map_some, njLabel]
  | noval id => rw [rend_noval h]; rfl
  | seq id ms => obtain ⟨xs, _, rfl⟩ := rend_seq h; rfl
  | fixedRep id n ms => obtain ⟨xs, _, rfl⟩ := rend_fixed h; rfl
  | delayedRep id n f ms => obtain ⟨_, _, _, _, _, xs, _, _, _, _, rfl⟩ := rend_delayed h; rfl

/-- end of the path: the value pass on the node = the `value` key of its dict -/
theorem rend_leaf {o : SubsetOut} {n : Node} {x : NJ} (h : Rend o n x) :
    runVals o.vals (.ok [.node n]) = evalAt [] x := by
  cases n with
  | value k i attrs =>
    obtain ⟨d, v, virt, as, _, h2, _, rfl⟩ := rend_value h
    simp only [runVals, valuesOf_cons, valueOf1, h2, valuesOf_nil, evalAt]
  | noval id =>
    rw [rend_noval h]
    simp only [runVals, valuesOf_cons, valueOf1, evalAt]
  | seq id ms =>
    obtain ⟨xs, _, rfl⟩ := rend_seq h
    simp only [runVals, valuesOf_cons, valueOf1, evalAt]
  | fixedRep id n ms =>
    obtain ⟨xs, _, rfl⟩ := rend_fixed h
    simp only [runVals, valuesOf_cons, valueOf1, evalAt]
  | delayedRep id n f ms =>
    obtain ⟨_, _, _, _, _, xs, _, _, _, _, rfl⟩ := rend_delayed h
    simp only [runVals, valuesOf_cons, valueOf1, evalAt]

/-! ### equations of the model -/

theorem childStep_fixed (ds : List DDesc) (c : Comp) (id n : Nat) (ms : List Node) (conts : List Cont) :
    childStep ds c (.fixedRep id n ms) conts =
      if ms.isEmpty then .ok [] else if n = 0 then .error .other
      else wrapC (envelope ds c (blocks n ms.length (ms.zip conts))) := rfl

theorem childStep_delayed (ds : List DDesc) (c : Comp) (id n : Nat) (f : Node) (ms : List Node) (conts : List Cont) :
    childStep ds c (.delayedRep id n f ms) conts =
      if ms.isEmpty then .ok [] else if n = 0 then .error .other
      else wrapC (envelope ds c (blocks n ms.length (ms.zip conts))) := rfl

theorem subNodes_value (ds : List DDesc) (c : Comp) (rest : List Comp) (k : VKind) (i : Nat) (attrs : List Node) :
    subNodes ds (.value k i attrs) c rest = stepNode ds c (.value k i attrs) [] (.ok []) (contList ds attrs c rest) := by
  simp only [subNodes]

theorem subNodes_noval (ds : List DDesc) (c : Comp) (rest : List Comp) (id : Nat) :
    subNodes ds (.noval id) c rest = stepNode ds c (.noval id) [] (.ok []) [] := by
  simp only [subNodes]

theorem subNodes_seq (ds : List DDesc) (c : Comp) (rest : List Comp) (id : Nat) (ms : List Node) :
    subNodes ds (.seq id ms) c rest = stepNode ds c (.seq id ms) (contList ds ms c rest) (.ok []) [] := by
  simp only [subNodes]

theorem subNodes_fixed (ds : List DDesc) (c : Comp) (rest : List Comp) (id n : Nat) (ms : List Node) :
    subNodes ds (.fixedRep id n ms) c rest =
      stepNode ds c (.fixedRep id n ms) (contList ds ms c rest) (.ok []) [] := by
  simp only [subNodes]

theorem subNodes_delayed (ds : List DDesc) (c : Comp) (rest : List Comp) (id n : Nat) (f : Node) (ms : List Node) :
    subNodes ds (.delayedRep id n f ms) c rest =
      stepNode ds c (.delayedRep id n f ms) (contList ds ms c rest) (contFor ds c rest f) [] := by
  simp only [subNodes, contFor]
  cases rest <;> rfl

/-! ### the induction over the tree -/

/-- a path of child and attribute steps with slices of the path language -/
def PathOK (comps : List Comp) : Prop :=
  (∀ c ∈ comps, c.sep = '/' ∨ c.sep = '.') ∧ (∀ c ∈ comps, sliceOK c.slice = true)

theorem PathOK.tail {c : Comp} {rest : List Comp} (h : PathOK (c :: rest)) : PathOK rest :=
  ⟨fun c' h' => h.1 c' (List.mem_cons_of_mem _ h'), fun c' h' => h.2 c' (List.mem_cons_of_mem _ h')⟩

theorem PathOK.sep_ne {c : Comp} {rest : List Comp} (h : PathOK (c :: rest)) : c.sep ≠ '>' := by
  rcases h.1 c List.mem_cons_self with h' | h' <;> rw [h'] <;> decide

/-- the statement proved by induction: filtering below `n` + value pass = evaluation at the rendering of `n` -/
def EvalOK (o : SubsetOut) (n : Node) : Prop :=
  ∀ (x : NJ), Rend o n x → repsOK1 o n = true →
  ∀ (c : Comp) (rest : List Comp), PathOK (c :: rest) →
    runVals o.vals (subNodes o.descs n c rest) = evalAt (c :: rest) x

/-- the continuation of a matching node = the evaluation of the rest of the path at its rendering -/
theorem contFor_eval {o : SubsetOut} {n : Node} {x : NJ} (hE : EvalOK o n) (hR : Rend o n x)
    (hS : repsOK1 o n = true) (c : Comp) (rest : List Comp) (hP : PathOK rest) (hsep : c.sep ≠ '>')
    (hhit : nodeLabel o.descs n = some c.id) :
    runVals o.vals (contFor o.descs c rest n) = evalAt rest x := by
  unfold contFor
  rw [(nodeMatch_hit_iff o.descs c hsep n).mpr hhit]
  cases rest with
  | nil => exact rend_leaf hR
  | cons c' rest' =>
    simp only [contOf, List.isEmpty_cons, Bool.false_eq_true, if_false]
    exact hE x hR hS c' rest' hP

/-- one step over a list of (node, rendering) pairs -/
theorem list_eval (o : SubsetOut) (c : Comp) (rest : List Comp) (hP : PathOK (c :: rest)) (T : List (Node × NJ))
    (hT : ∀ t ∈ T, EvalOK o t.1 ∧ Rend o t.1 t.2 ∧ repsOK1 o t.1 = true) :
    runVals o.vals (selectRun o.descs c (T.map (fun t => (t.1, contFor o.descs c rest t.1)))) =
      evalSel rest c (T.map (·.2)) :=
  selectRun_eval o.descs o.vals c rest hP.sep_ne (hP.2 c List.mem_cons_self) T (·.1)
    (fun t => contFor o.descs c rest t.1) (·.2)
    (fun t ht => rend_label (hT t ht).2.1)
    (fun t ht hhit => contFor_eval (hT t ht).1 (hT t ht).2.1 (hT t ht).2.2 c rest hP.tail hP.sep_ne hhit)
    (fun t _ => evalAt_qerr rest hP.tail.1 hP.tail.2 t.2)

theorem zip_conts (ds : List DDesc) (c : Comp) (rest : List Comp) (ns : List Node) (xs : List NJ)
    (hl : xs.length = ns.length) :
    ns.zip (contList ds ns c rest) = (ns.zip xs).map (fun t => (t.1, contFor ds c rest t.1)) := by
  rw [contList_eq_map, zip_map_self]
  conv => lhs; rw [← zip_map_fst ns xs hl]
  rw [List.map_map]
  rfl

theorem pickSel_nil {β : Type} (sl : Slice) : pickSel sl ([] : List β) = [] := by
  cases sl <;> simp [pickSel, enumFrom]

theorem evalSel_nil (rest : List Comp) (c : Comp) (hs : sliceOK c.slice = true) : evalSel rest c [] = .ok [] := by
  unfold evalSel choose
  rw [if_pos hs]
  simp only [List.filter_nil, pickSel_nil, List.map_nil, concatQ]

theorem envelopeQ_all_nil : ∀ (l : List (CM (List QV))), (∀ r ∈ l, r = .ok []) → envelopeQ l = .ok []
  | [], _ => by rw [envelopeQ]
  | r :: rs, h => by
    rw [h r List.mem_cons_self, envelopeQ, envelopeQ_all_nil rs (fun x hx => h x (List.mem_cons_of_mem _ hx))]
    rfl

/-- the members of a replication: blocks of `n` nodes, one list per repetition with a result, one envelope -/
theorem rep_eval (o : SubsetOut) (c : Comp) (rest : List Comp) (hP : PathOK (c :: rest)) (n k : Nat)
    (ms : List Node) (xs : List NJ) (hlen : ms.length = k * n) (hl : xs.length = ms.length)
    (hT : ∀ t ∈ ms.zip xs, EvalOK o t.1 ∧ Rend o t.1 t.2 ∧ repsOK1 o t.1 = true) :
    runVals o.vals (if ms.isEmpty then .ok [] else if n = 0 then .error .other
      else wrapC (envelope o.descs c (blocks n ms.length (ms.zip (contList o.descs ms c rest))))) =
      wrapQ (envelopeQ ((chunks n k xs).map (evalSel rest c))) := by
  have hs1 := hP.2 c List.mem_cons_self
  cases hms : ms with
  | nil =>
    subst hms
    have hx : xs = [] := List.eq_nil_of_length_eq_zero (by simpa using hl)
    subst hx
    simp only [List.isEmpty_nil, if_true, runVals, valuesOf_nil]
    rw [envelopeQ_all_nil]
    · rfl
    · intro r hr
      obtain ⟨b, hb, rfl⟩ := List.mem_map.mp hr
      rw [chunks_nil n k b hb]
      exact evalSel_nil rest c hs1
  | cons m ms' =>
    rw [← hms]
    have hne : ms.isEmpty = false := by rw [hms]; rfl
    have hn : n ≠ 0 := by
      intro h0
      rw [h0, Nat.mul_zero, hms] at hlen
      simp at hlen
    have hk : k ≤ ms.length := by
      rw [hlen]
      exact Nat.le_mul_of_pos_right k (Nat.pos_of_ne_zero hn)
    rw [hne]
    simp only [Bool.false_eq_true, if_false, if_neg hn]
    apply wrap_eval
    rw [zip_conts o.descs c rest ms xs hl]
    rw [blocks_eq_chunks n (Nat.pos_of_ne_zero hn) k ms.length _ (by rw [List.length_map, List.length_zip, hl, Nat.min_self, hlen]) hk]
    rw [chunks_map, envelope_eq, List.map_map]
    have hxs : xs = (ms.zip xs).map (·.2) := (zip_map_snd ms xs hl).symm
    conv => rhs; rw [hxs, chunks_map, List.map_map]
    have := envelope_eval o.vals ((chunks n k (ms.zip xs)).map (fun B =>
      (selectRun o.descs c (B.map (fun t => (t.1, contFor o.descs c rest t.1))), evalSel rest c (B.map (·.2))))) (by
        intro s hs'
        obtain ⟨B, hB, rfl⟩ := List.mem_map.mp hs'
        refine ⟨list_eval o c rest hP B (fun t ht => hT t (chunks_mem n k _ B hB t ht)), ?_⟩
        exact evalSel_qerr rest c hs1 _ (evalAt_qerr rest hP.tail.1 hP.tail.2))
    rw [List.map_map, List.map_map] at this
    exact this

theorem renderNode_not_arr (o : SubsetOut) (n : Node) (l : List NJ) : renderNode o n ≠ .ok (.arr l) := by
  intro h
  cases n with
  | value k i attrs => obtain ⟨_, _, _, _, _, _, _, hx⟩ := rend_value (Or.inl h); cases hx
  | noval id => have := rend_noval (Or.inl h); cases this
  | seq id ms => obtain ⟨_, _, hx⟩ := rend_seq (Or.inl h); cases hx
  | fixedRep id n ms => obtain ⟨_, _, hx⟩ := rend_fixed (Or.inl h); cases hx
  | delayedRep id n f ms => obtain ⟨_, _, _, _, _, _, _, _, _, _, hx⟩ := rend_delayed (Or.inl h); cases hx

theorem repetitions_dicts (o : SubsetOut) (m : Node) (x : NJ) (xs : List NJ) (h : renderNode o m = .ok x) :
    repetitions (x :: xs) = none := by
  cases x with
  | arr l => exact absurd h (renderNode_not_arr o m l)
  | value _ _ _ _ => rfl
  | noval _ => rfl
  | group _ _ _ => rfl

/-- the pairs of a node list and its rendering -/
theorem pairs_ok (o : SubsetOut) (g : Node → CM NJ) (hg : ∀ n x, g n = .ok x → Rend o n x) (ns : List Node) (xs : List NJ)
    (hx : mapE g ns = .ok xs) (hE : ∀ m ∈ ns, EvalOK o m) (hS : repsOKList o ns = true) :
    xs.length = ns.length ∧ ∀ t ∈ ns.zip xs, EvalOK o t.1 ∧ Rend o t.1 t.2 ∧ repsOK1 o t.1 = true := by
  obtain ⟨hl, hp⟩ := mapE_zip g ns xs hx
  refine ⟨hl, fun t ht => ?_⟩
  have hm := (List.of_mem_zip ht).1
  exact ⟨hE t.1 hm, hg t.1 t.2 (hp t ht), repsOKList_mem o ns hS t.1 hm⟩

theorem sep_dot_ne_slash {c : Comp} (h : c.sep = '.') : ¬ c.sep = '/' := by rw [h]; decide

theorem evalOK_all (o : SubsetOut) : ∀ n, EvalOK o n := by
  apply Node.induct' (EvalOK o)
  · -- value node: only an attribute step goes on
    intro k i attrs ih x hR hS c rest hP
    obtain ⟨d, v, virt, as, _, _, has, rfl⟩ := rend_value hR
    rw [repsOK1] at hS
    rw [renderAttrs_eq_mapE] at has
    obtain ⟨hl, hT⟩ := pairs_ok o (renderValue o true) (fun _ _ h => Or.inr h) attrs as has ih hS
    rw [subNodes_value, stepNode, evalAt_cons]
    unfold targets
    rcases hP.1 c List.mem_cons_self with h | h
    · rw [if_pos h, if_pos h]
      simp only [childStep, runVals, if_pos (Or.inl h)]
    · rw [if_neg (sep_dot_ne_slash h), if_pos h, if_neg (sep_dot_ne_slash h), if_pos h]
      cases has' : as with
      | nil =>
        subst has'
        have : attrs = [] := List.eq_nil_of_length_eq_zero (by simpa using hl.symm)
        subst this
        simp only [attrStep, List.isEmpty_nil, if_true, runVals, if_pos (Or.inr h)]
      | cons a as' =>
        rw [← has']
        have hne : attrs.isEmpty = false := by
          cases attrs with
          | nil => rw [has'] at hl; simp at hl
          | cons _ _ => rfl
        simp only [attrStep, hne, Bool.false_eq_true, if_false]
        rw [zip_conts o.descs c rest attrs as hl, list_eval o c rest hP _ hT, zip_map_snd attrs as hl, has']
  · -- a node without value, members, attributes
    intro id x hR _ c rest hP
    rw [rend_noval hR, subNodes_noval, stepNode, evalAt_cons]
    unfold targets
    rcases hP.1 c List.mem_cons_self with h | h
    · rw [if_pos h, if_pos h]
      simp only [childStep, runVals, if_pos (Or.inl h)]
    · rw [if_neg (sep_dot_ne_slash h), if_pos h, if_neg (sep_dot_ne_slash h), if_pos h]
      simp only [attrStep, runVals, if_pos (Or.inr h)]
  · -- sequence
    intro id ms ih x hR hS c rest hP
    obtain ⟨xs, hxs, rfl⟩ := rend_seq hR
    rw [repsOK1] at hS
    rw [renderNodes_eq_mapE] at hxs
    obtain ⟨hl, hT⟩ := pairs_ok o (renderNode o) (fun _ _ h => Or.inl h) ms xs hxs ih hS
    rw [subNodes_seq, stepNode, evalAt_cons]
    unfold targets
    rcases hP.1 c List.mem_cons_self with h | h
    · rw [if_pos h, if_pos h]
      simp only [childStep]
      rw [zip_conts o.descs c rest ms xs hl, list_eval o c rest hP _ hT, zip_map_snd ms xs hl]
      cases hxs' : xs with
      | nil =>
        simp only [repetitions, List.map_nil, envelopeQ, wrapQ, List.isEmpty_nil, if_true]
        exact evalSel_nil rest c (hP.2 c List.mem_cons_self)
      | cons x0 xs' =>
        have hm : ∃ m, renderNode o m = .ok x0 := by
          cases ms with
          | nil => rw [hxs'] at hl; simp at hl
          | cons m ms' =>
            obtain ⟨_, hp⟩ := mapE_zip (renderNode o) (m :: ms') xs hxs
            refine ⟨m, ?_⟩
            have := hp (m, x0) (by rw [hxs']; simp)
            exact this
        obtain ⟨m, hm⟩ := hm
        rw [repetitions_dicts o m x0 xs' hm]
    · rw [if_neg (sep_dot_ne_slash h), if_pos h, if_neg (sep_dot_ne_slash h), if_pos h]
      simp only [attrStep, runVals, if_pos (Or.inr h)]
  · -- fixed replication
    intro id n ms ih x hR hS c rest hP
    obtain ⟨xs, hxs, rfl⟩ := rend_fixed hR
    rw [repsOK1, Bool.and_eq_true] at hS
    have hlen : ms.length = yOf id * n := by simpa using hS.1
    rw [renderNodes_eq_mapE] at hxs
    obtain ⟨hl, hT⟩ := pairs_ok o (renderNode o) (fun _ _ h => Or.inl h) ms xs hxs ih hS.2
    rw [subNodes_fixed, stepNode, evalAt_cons]
    unfold targets
    rcases hP.1 c List.mem_cons_self with h | h
    · rw [if_pos h, if_pos h, childStep_fixed, rep_eval o c rest hP n (yOf id) ms xs hlen hl hT]
      simp only [repetitions_arr]
    · rw [if_neg (sep_dot_ne_slash h), if_pos h, if_neg (sep_dot_ne_slash h), if_pos h]
      simp only [attrStep, runVals, if_pos (Or.inr h)]
  · -- delayed replication
    intro id n f ms ihf ih x hR hS c rest hP
    obtain ⟨kf, i, fattrs, k, fj, xs, rfl, hk, hfj, hxs, rfl⟩ := rend_delayed hR
    rw [repsOK1, Bool.and_eq_true] at hS
    have hS1 := hS.1
    simp only [hk, Bool.and_eq_true] at hS1
    have hlen : ms.length = k * n := by simpa using hS1.1
    rw [renderNodes_eq_mapE] at hxs
    obtain ⟨hl, hT⟩ := pairs_ok o (renderNode o) (fun _ _ h => Or.inl h) ms xs hxs ih hS.2
    rw [subNodes_delayed, stepNode, evalAt_cons]
    unfold targets
    rcases hP.1 c List.mem_cons_self with h | h
    · rw [if_pos h, if_pos h, childStep_delayed, rep_eval o c rest hP n k ms xs hlen hl hT]
      simp only [repetitions_arr]
    · rw [if_neg (sep_dot_ne_slash h), if_pos h, if_neg (sep_dot_ne_slash h), if_pos h]
      simp only [attrStep]
      have hRf : Rend o (.value kf i fattrs) fj := Or.inl (by rw [renderNode]; exact hfj)
      have hSf : repsOK1 o (.value kf i fattrs) = true := by rw [repsOK1]; exact hS1.2
      exact list_eval o c rest hP [(.value kf i fattrs, fj)] (by
        intro t ht
        rw [List.mem_singleton] at ht
        subst ht
        exact ⟨ihf, hRf, hSf⟩)

/-! ### one subset, the whole message -/

theorem pathOK_of (comps : List Comp) (hp : childAttrOnly comps = true)
    (hs : ∀ c ∈ comps, sliceOK c.slice = true) : PathOK comps := by
  refine ⟨fun c hc => ?_, hs⟩
  unfold childAttrOnly at hp
  rw [List.all_eq_true] at hp
  have := hp c hc
  simpa using this

theorem evalComps_cons (js : List NJ) (c : Comp) (rest : List Comp) :
    evalComps js (c :: rest) =
      if c.sep = '/' then evalSel rest c js else if c.sep = '.' then .error .query else .error .other := rfl

/-- one subset: filtering the tree and reading the values = evaluating the path over the rendering -/
theorem processOne_eval (o : SubsetOut) (tree : List Node) (js : List NJ) (comps : List Comp)
    (hr : renderNested o tree = .ok js) (hshape : repsOKList o tree = true) (hP : PathOK comps) :
    runVals o.vals (processOne o.descs tree comps) = evalComps js comps := by
  cases comps with
  | nil => rfl
  | cons c rest =>
    unfold renderNested at hr
    rw [renderNodes_eq_mapE] at hr
    obtain ⟨hl, hT⟩ := pairs_ok o (renderNode o) (fun _ _ h => Or.inl h) tree js hr
      (fun m _ => evalOK_all o m) hshape
    rw [evalComps_cons]
    simp only [processOne]
    rcases hP.1 c List.mem_cons_self with h | h
    · have hnd : ¬ c.sep = '.' := by rw [h]; decide
      rw [if_neg hnd, if_pos h]
      rw [zip_conts o.descs c rest tree js hl, list_eval o c rest hP _ hT, zip_map_snd tree js hl]
    · rw [if_pos h, if_neg (sep_dot_ne_slash h), if_pos h]
      rfl

theorem mapE_getElem {α β : Type} (g : α → CM β) : ∀ (l : List α) (xs : List β), mapE g l = .ok xs →
    ∀ (i : Nat) (a : α), l[i]? = some a → ∃ b, xs[i]? = some b ∧ g a = .ok b
  | [], _, _, i, a, ha => by simp at ha
  | a0 :: as, xs, h, i, a, ha => by
    rw [mapE] at h
    split at h
    · cases h
    · next b hb =>
      split at h
      · cases h
      · next bs hbs =>
        cases h
        cases i with
        | zero =>
          simp only [List.getElem?_cons_zero, Option.some.injEq] at ha
          subst ha
          exact ⟨b, rfl, hb⟩
        | succ j =>
          simp only [List.getElem?_cons_succ] at ha ⊢
          exact mapE_getElem g as bs hbs j a ha

theorem mapE_length {α β : Type} (g : α → CM β) (l : List α) (xs : List β) (h : mapE g l = .ok xs) :
    xs.length = l.length := (mapE_zip g l xs h).1

/-- subset `i` of `evalPath` -/
def specSubset (nested : List (List NJ)) (comps : List Comp) (i : Nat) : CM (Nat × List QV) :=
  match nested[i]? with
  | none => .error .other
  | some js => match evalComps js comps with
    | .error e => .error e
    | .ok vs => .ok (i, vs)

theorem evalPath_eq (nested : List (List NJ)) (sel : List Nat) (comps : List Comp) :
    evalPath nested sel comps = mapIdx (specSubset nested comps) sel := rfl

/-- subset `i` of an uncompressed message -/
theorem uncompressedSubset_eval (m : QMsg) (nested : List (List NJ)) (comps : List Comp)
    (hn : nestedOf m = .ok nested) (hshape : shapeOK m = true) (hP : PathOK comps) (i : Nat) :
    uncompressedSubset m comps i = specSubset nested comps i := by
  unfold specSubset
  unfold nestedOf at hn
  have hlen := mapE_length _ _ _ hn
  unfold uncompressedSubset
  cases ho : m.outs[i]? with
  | none =>
    have hi : m.outs.length ≤ i := by
      rcases Nat.lt_or_ge i m.outs.length with h | h
      · rw [List.getElem?_eq_getElem h] at ho; cases ho
      · exact h
    have : nested[i]? = none := by
      apply List.getElem?_eq_none
      rw [hlen, List.length_zip]; omega
    rw [this]
  | some o =>
    simp only
    cases ht : m.trees[i]? with
    | none =>
      have hi : m.trees.length ≤ i := by
        rcases Nat.lt_or_ge i m.trees.length with h | h
        · rw [List.getElem?_eq_getElem h] at ht; cases ht
        · exact h
      have : nested[i]? = none := by
        apply List.getElem?_eq_none
        rw [hlen, List.length_zip]; omega
      rw [this]
    | some t =>
      simp only
      have hz : (m.outs.zip m.trees)[i]? = some (o, t) := by
        rw [List.getElem?_zip_eq_some]; exact ⟨ho, ht⟩
      obtain ⟨js, hjs, hr⟩ := mapE_getElem _ _ _ hn i (o, t) hz
      have hsh : repsOKList o t = true := by
        unfold shapeOK at hshape
        rw [List.all_eq_true] at hshape
        exact hshape (o, t) (List.mem_of_getElem? hz)
      have := processOne_eval o t js comps hr hsh hP
      rw [hjs]
      simp only
      rw [← this]
      cases processOne o.descs t comps with
      | error e => rfl
      | ok hits =>
        simp only [runVals]
        cases valuesOf o.vals hits <;> rfl

end Bufr.C16
