/-
  C07: the end of the walk — the links recorded are `Spec.links` of the items recorded
  (`walk_links_eq_spec`) — and the recording primitives of the decoder and the encoder (`Rec`).
-/
import BufrModel.Lemmas.LinkSpecWalk
namespace Bufr.C07
open Bufr.Spec

/-- a fresh coder state: nothing recorded, default registers -/
theorem Core.init (V : St → List Val) (s : St) (hd : s.descs = []) (hl : s.links = []) (hr : s.regs = {})
    (hv : V s = []) : Core V s [] := by
  have hi_items : items V s = [] := by unfold items; rw [hd, hv]; rfl
  have hf : foldItems [] (items V s) = {} := by rw [hi_items]; rfl
  refine ⟨by rw [hv, hd]; rfl, by rw [hf, hl], by rw [hf, hr], by rw [hr]; exact ⟨rfl, rfl, rfl⟩,
    (fun _ h => nomatch h), ?_, ?_, ?_⟩
  · rw [hf]
    unfold PhaseRel
    rw [hr]
    exact Or.inl rfl
  · rw [hf]
    have hvw : vw s {} = {} := by
      unfold vw
      rw [hr]
      rfl
    refine ⟨Or.inl ⟨by rw [hr], ?_⟩, Or.inl (by rw [hr]), ?_⟩
    · unfold estV
      rw [hvw]; rfl
    · rw [hvw, hr]; rfl
  · intro i hi
    rw [hi_items] at hi
    cases hi

/-- THE walk theorem: for recording primitives and a template that satisfies `WFlinks`, from a fresh state,
    the links recorded are `Spec.links` of the items recorded — with the times at which the run processed
    235000 as second input — provided the items are `markersOk`. -/
theorem walk_links_eq_spec {P : Prims} {V : St → List Val} {X : St → Prop} (hR : Rec P V X) (t : List Desc) (hwf : WFlinks t)
    (s0 s : St) (hd : s0.descs = []) (hl : s0.links = []) (hr : s0.regs = {}) (hv : V s0 = []) (hx : X s0)
    (h : walkList P t s0 = .ok s) (hok : markersOk (items V s) = true) :
    s.links.reverse = Spec.links (items V s) (cancelsL P t s0) ∧ (V s).length = s.descs.length ∧
      s.vals.length = s0.vals.length ∧ (∀ i, consumes (items V s) i = true → ∃ o, (i, o) ∈ s.links) := by
  have h0 : CorePhX V X .idle s0 [] :=
    ⟨⟨Core.init V s0 hd hl hr hv, by rw [hr]; exact fun x => nomatch x⟩, hx⟩
  have := presG_walkL hR t .idle hwf s0 s [] h hok h0
  rw [List.nil_append] at this
  have hg := grows_walkList hR t s0 s (by rw [hv, hd]; rfl) h
  refine ⟨?_, this.1.1.len, hg.2.2.1, this.1.1.complete⟩
  rw [this.1.1.links, linksFold_eq]
  rfl

/-! ### templates without 235YYY have no cancel times -/

mutual
theorem cancelsL_noCancel (P : Prims) : (t : List Desc) → noCancelL t = true → ∀ s, cancelsL P t s = []
  | [], _, s => cancelsL_nil P s
  | d :: ds, h, s => by
    simp only [noCancelL, Bool.and_eq_true] at h
    have h1 := cancelsD_noCancel P d h.1
    have h2 := cancelsL_noCancel P ds h.2
    have c1 : cancels1 P d s = [] := by
      rw [cancels1_eq]
      cases entryOf P d s with
      | none => rfl
      | some s1 => exact h1 s1
    rw [cancelsL_cons, c1]
    cases walk1 P d s with
    | error _ => rfl
    | ok s' => exact h2 s'

theorem cancelsD_noCancel (P : Prims) : (d : Desc) → noCancelD d = true → ∀ s, cancelsD P d s = []
  | .op id, h, s => by
    simp only [noCancelD, bne_iff_ne, ne_eq] at h
    simp only [cancelsD, if_neg h]
  | .fixedRep id ms, h, s => by
    simp only [noCancelD] at h
    simp only [cancelsD]
    exact ghostIter_nil _ _ (cancelsL_noCancel P ms h) _ _
  | .delayedRep id f ms, h, s => by
    simp only [noCancelD] at h
    have ih := cancelsL_noCancel P ms h
    cases f with
    | elem fe =>
      simp only [cancelsD]
      cases elementDescriptor P (.plain fe) fe s with
      | error _ => rfl
      | ok s1 =>
        simp only
        cases P.factorValue s1 >>= factorCount with
        | error _ => rfl
        | ok n => exact ghostIter_nil _ _ ih _ _
    | _ => rfl
  | .seq id ms, h, s => by
    simp only [noCancelD] at h
    simp only [cancelsD]
    exact cancelsL_noCancel P ms h s
  | .elem _, _, _ => rfl
  | .undefElem _, _, _ => rfl
  | .undefSeq _, _, _ => rfl
end

/-! ### the decoder's primitives record -/

/-- the values recorded so far, of the first subset (the one the bit-maps are taken from) -/
def decV (s : St) : List Val :=
  match s.vals with
  | [] => List.replicate s.descs.length Val.missing
  | l :: _ => l.reverse

theorem decV_setRegs (s : St) (f : Regs → Regs) : decV (s.setRegs f) = decV s := rfl
theorem decV_addLink (s : St) (o : Nat) : decV (addLink s o) = decV s := rfl

theorem decV_pushAll (s : St) (dd : DDesc) (v : Val) (b : Bits) :
    decV ({ (s.pushDesc dd) with bits := b }.pushAll v) = decV s ++ [(match s.vals with | [] => Val.missing | _ => v)] := by
  unfold decV St.pushAll St.pushDesc
  cases hv : s.vals with
  | nil => simp [List.replicate_succ']
  | cons l r => simp

theorem read_shape {α : Type} (s : St) (r : R α) (a : α) (s' : St) (h : s.read r = .ok (a, s')) :
    ∃ b, s' = { s with bits := b } := by
  unfold St.read at h
  split at h
  · cases h
  · injection h with h; injection h with h1 h2; exact ⟨_, h2.symm⟩

theorem decLastValues_spec (k : Nat) (s : St) (l : List Val) (h : decLastValues k s = .ok l) (hk : 1 ≤ k)
    (_hl : k ≤ (decV s).length) (_ : True) : l = Spec.lastN k (decV s) := by
  unfold decLastValues at h
  cases hv : s.vals with
  | nil => rw [hv] at h; cases h
  | cons x r =>
    rw [hv] at h
    injection h with h
    rw [if_neg (by omega)] at h
    subst h
    unfold decV Spec.lastN
    rw [hv]
    simp only
    rw [List.reverse_take, List.length_reverse]

theorem decPrimsU_rec : Rec decPrimsU decV (fun _ => True) where
  quiet := decPrimsU_quiet
  numeric := by
    intro dd n sc r s s' h
    have h : decNumericU dd n sc r s = .ok s' := h
    unfold decNumericU at h
    cases hw : natWidth n with
    | error e => simp [hw, bind, Except.bind] at h
    | ok w =>
      simp only [hw, bind, Except.bind] at h
      split at h
      · cases h
      · next x hx =>
        obtain ⟨a, s1⟩ := x
        obtain ⟨b, rfl⟩ := read_shape _ _ _ _ hx
        simp only [pure, Except.pure] at h
        injection h with h; subst h
        exact ⟨_, decV_pushAll s dd _ b⟩
  string := by
    intro dd n s s' h
    have h : decStringU dd n s = .ok s' := h
    unfold decStringU at h
    simp only [bind, Except.bind] at h
    split at h
    · cases h
    · next x hx =>
      obtain ⟨a, s1⟩ := x
      obtain ⟨b, rfl⟩ := read_shape _ _ _ _ hx
      simp only [pure, Except.pure] at h
      injection h with h; subst h
      exact ⟨_, decV_pushAll s dd _ b⟩
  codeflag := by
    intro dd n s s' h
    have h : decCodeflagU dd n s = .ok s' := h
    unfold decCodeflagU at h
    simp only [bind, Except.bind] at h
    split at h
    · cases h
    · next x hx =>
      obtain ⟨a, s1⟩ := x
      obtain ⟨b, rfl⟩ := read_shape _ _ _ _ hx
      simp only [pure, Except.pure] at h
      injection h with h; subst h
      exact ⟨_, decV_pushAll s dd _ b⟩
  constant := by
    intro dd c s s' h
    have h : decConstant dd c s = .ok s' := h
    unfold decConstant at h
    injection h with h; subst h
    have := decV_pushAll s dd (.int c) s.bits
    exact ⟨_, this⟩
  newRefval := by
    intro e n s s' h
    have h : decNewRefvalU e n s = .ok s' := h
    simp only [decNewRefvalU, bind, Except.bind, pure, Except.pure] at h
    cases hr : (s.pushDesc (.plain e)).read (readInt n) with
    | error err => simp [hr] at h
    | ok p =>
      obtain ⟨v, s1⟩ := p
      simp only [hr] at h
      injection h with h; subst h
      obtain ⟨b, rfl⟩ := read_shape _ _ _ _ hr
      exact ⟨rfl, _, decV_pushAll s (.plain e) _ b⟩
  lastValues := decLastValues_spec
  numericL := by
    intro dd n sc r s s' h
    have h : decNumericU dd n sc r s = .ok s' := h
    unfold decNumericU at h
    cases hw : natWidth n with
    | error e => simp [hw, bind, Except.bind] at h
    | ok w =>
      simp only [hw, bind, Except.bind] at h
      split at h
      · cases h
      · next x hx =>
        obtain ⟨a, s1⟩ := x
        obtain ⟨b, rfl⟩ := read_shape _ _ _ _ hx
        simp only [pure, Except.pure] at h
        injection h with h; subst h
        simp [St.pushAll, St.pushDesc]
  stringL := by
    intro dd n s s' h
    have h : decStringU dd n s = .ok s' := h
    unfold decStringU at h
    simp only [bind, Except.bind] at h
    split at h
    · cases h
    · next x hx =>
      obtain ⟨a, s1⟩ := x
      obtain ⟨b, rfl⟩ := read_shape _ _ _ _ hx
      simp only [pure, Except.pure] at h
      injection h with h; subst h
      simp [St.pushAll, St.pushDesc]
  codeflagL := by
    intro dd n s s' h
    have h : decCodeflagU dd n s = .ok s' := h
    unfold decCodeflagU at h
    simp only [bind, Except.bind] at h
    split at h
    · cases h
    · next x hx =>
      obtain ⟨a, s1⟩ := x
      obtain ⟨b, rfl⟩ := read_shape _ _ _ _ hx
      simp only [pure, Except.pure] at h
      injection h with h; subst h
      simp [St.pushAll, St.pushDesc]
  constantL := by
    intro dd c s s' h
    have h : decConstant dd c s = .ok s' := h
    unfold decConstant at h
    injection h with h; subst h
    simp [St.pushAll, St.pushDesc]
  newRefvalL := by
    intro e n s s' h
    have h : decNewRefvalU e n s = .ok s' := h
    simp only [decNewRefvalU, bind, Except.bind, pure, Except.pure] at h
    cases hr : (s.pushDesc (.plain e)).read (readInt n) with
    | error err => simp [hr] at h
    | ok p =>
      obtain ⟨v, s1⟩ := p
      simp only [hr] at h
      injection h with h; subst h
      obtain ⟨b, rfl⟩ := read_shape _ _ _ _ hr
      simp [St.pushAll, St.pushDesc, setNewRefval, St.setRegs]
  setRegs := decV_setRegs
  addLink := decV_addLink
  numericX := fun _ _ _ _ _ _ _ _ => trivial
  stringX := fun _ _ _ _ _ _ => trivial
  codeflagX := fun _ _ _ _ _ _ => trivial
  constantX := fun _ _ _ _ _ _ => trivial
  newRefvalX := fun _ _ _ _ _ _ => trivial
  setRegsX := fun _ _ _ => trivial
  addLinkX := fun _ _ _ => trivial

end Bufr.C07
