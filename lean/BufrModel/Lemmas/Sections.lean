/-
  Helper lemmas about the section coder model (`Msg/Sections.lean`): what the encoder appends,
  the frame of one section, the section loop.
-/
import BufrModel.Msg.Sections
import BufrModel.Spec.Frame
import BufrModel.Lemmas.Bits
namespace Bufr

/-! ### writers only append -/

theorem writeUInt_ok {w : Bits} {v : Int} {n : Nat} {w' : Bits} (h : writeUInt w v n = .ok w') :
    w' = w ++ toBits n v.toNat ∧ 0 < n ∧ 0 ≤ v ∧ v.toNat < 2 ^ n := by
  unfold writeUInt at h
  split at h
  · cases h
  split at h
  · cases h
  split at h
  · cases h
  cases h
  refine ⟨rfl, ?_, ?_, ?_⟩ <;> omega

theorem encDescs_append {ids : List Nat} {w w' : Bits} (h : encDescs w ids = .ok w') :
    ∃ x, w' = w ++ x := by
  induction ids generalizing w with
  | nil =>
    simp only [encDescs] at h
    cases h
    exact ⟨[], by simp⟩
  | cons id ids ih =>
    simp only [encDescs] at h
    split at h
    · cases h
    rename_i w1 h1
    split at h
    · cases h
    rename_i w2 h2
    split at h
    · cases h
    rename_i w3 h3
    obtain ⟨x, hx⟩ := ih h
    have e1 := (writeUInt_ok h1).1
    have e2 := (writeUInt_ok h2).1
    have e3 := (writeUInt_ok h3).1
    subst e1 e2 e3
    refine ⟨toBits 2 (Int.ofNat (id / 100000)).toNat ++ (toBits 6 (Int.ofNat (id / 1000 % 100)).toNat ++
      (toBits 8 (Int.ofNat (id % 1000)).toNat ++ x)), ?_⟩
    rw [hx]; simp only [List.append_assoc]

theorem encParam_append {w : Bits} {p : Param} {v : PVal} {payload w' : Bits}
    (h : encParam w p v payload = .ok w') : ∃ x, w' = w ++ x := by
  unfold encParam at h
  split at h
  · exact encDescs_append h
  · cases h; exact ⟨_, rfl⟩
  · exact ⟨_, (writeUInt_ok h).1⟩
  · unfold writeInt writeBool at h
    have := (writeUInt_ok h).1
    exact ⟨_, by rw [this, List.append_assoc]⟩
  · cases h; exact ⟨_, rfl⟩
  · cases h; exact ⟨_, rfl⟩
  · cases h; exact ⟨_, rfl⟩
  · cases h

theorem encParams_append {payload : Bits} {ps : List Param} {vs : List PVal} {w w' : Bits}
    (h : encParams payload ps vs w = .ok w') : ∃ x, w' = w ++ x := by
  induction ps generalizing vs w with
  | nil => simp only [encParams] at h; cases h; exact ⟨[], by simp⟩
  | cons p ps ih =>
    cases vs with
    | nil => simp only [encParams] at h; cases h
    | cons v vs =>
      simp only [encParams] at h
      split at h
      · cases h
      rename_i w1 h1
      obtain ⟨x, rfl⟩ := encParam_append h1
      obtain ⟨y, rfl⟩ := ih h
      exact ⟨x ++ y, by rw [List.append_assoc]⟩

/-! ### padding arithmetic -/

theorem padBits_octets (ed : Int) (n : Nat) : (n + padBits ed n) % 8 = 0 := by
  unfold padBits
  split <;> split <;> (try split) <;> (try simp only [bne_iff_ne, ne_eq] at *) <;> omega

theorem padBits_even (ed : Int) (n : Nat) (h : ed ≤ 3) : (n + padBits ed n) % 16 = 0 := by
  unfold padBits
  rw [if_pos h]
  split <;> (try split) <;> (try simp only [bne_iff_ne, ne_eq] at *) <;> omega

theorem padBits_lt16 (ed : Int) (n : Nat) : padBits ed n < 16 := by
  unfold padBits
  split <;> split <;> (try split) <;> omega

theorem padBits_lt8 (ed : Int) (n : Nat) (h : 3 < ed) : padBits ed n < 8 := by
  unfold padBits
  rw [if_neg (by omega)]
  split <;> omega

/-! ### the frame of one section -/

theorem setUInt_ok {w : Bits} {v n pos : Nat} {w' : Bits} (h : setUInt w v n pos = .ok w') :
    w' = w.take pos ++ toBits n v ++ w.drop (pos + n) ∧ 0 < n ∧ v < 2 ^ n := by
  unfold setUInt at h
  split at h
  · cases h
  split at h
  · cases h
  cases h
  refine ⟨rfl, ?_, ?_⟩ <;> omega

theorem zeros_length (n : Nat) : (zeros n).length = n := by simp [zeros]

theorem zeros_append (a b : Nat) : zeros a ++ zeros b = zeros (a + b) := by
  simp [zeros, List.replicate_append_replicate]

theorem paramOf_none {ps : List Param} {n : String} (h : ps.any (·.name == n) = false) :
    paramOf ps n = none := by
  unfold paramOf
  rw [List.find?_eq_none]
  intro x hx
  have := List.any_eq_false.mp h x hx
  simpa using this

theorem wf_lenFirst {s : SectionLayout} (h : s.WF = true) : s.lenFirst = true := by
  simp only [SectionLayout.WF, Bool.and_eq_true] at h
  exact h.1.2

theorem lenFirst_cons {s : SectionLayout} (h : s.lenFirst = true) (hh : s.hasParam "section_length" = true) :
    ∃ p ps, s.params = p :: ps ∧ p.name = "section_length" ∧ p.nbits = 24 ∧ p.ty = .uint := by
  unfold SectionLayout.lenFirst at h
  rw [hh] at h
  simp only [Bool.not_true, Bool.false_or] at h
  split at h
  · rename_i p ps hp
    simp only [Bool.and_eq_true, beq_iff_eq] at h
    exact ⟨p, ps, hp, h.1.1, h.1.2, h.2⟩
  · cases h

/-- frame built from a 24-bit length `H`, further content `x` and `z` zero bits -/
theorem frame_of_shape (cfg : EncCfg) (idx : Nat) (ed : Int) (H : Nat) (x : Bits) (z : Nat) (decl : Option Int)
    (hH : H < 2 ^ 24) (hlen : 8 * H = 24 + x.length + z)
    (hmin : (cfg.ignoreDeclared = true ∨ decl = some 0) → z = padBits ed (24 + x.length))
    (hhon : cfg.ignoreDeclared = false → ∀ d, decl = some d → d ≠ 0 → (H : Int) = d) :
    SecFrame.OK cfg { index := idx, hasLen := true, edition := ed, content := 24 + x.length, declared := decl,
                      bits := toBits 24 H ++ x ++ zeros z } := by
  have hl : (toBits 24 H ++ x ++ zeros z).length = 24 + x.length + z := by
    simp only [List.length_append, toBits_length, zeros_length]
  constructor
  · show (toBits 24 H ++ x ++ zeros z).length % 8 = 0
    rw [hl]; omega
  · show 24 + x.length ≤ (toBits 24 H ++ x ++ zeros z).length
    rw [hl]; omega
  · show (toBits 24 H ++ x ++ zeros z).drop (24 + x.length) = zeros ((toBits 24 H ++ x ++ zeros z).length - (24 + x.length))
    rw [hl]
    have : (toBits 24 H ++ x).length = 24 + x.length := by simp only [List.length_append, toBits_length]
    rw [← this, List.drop_left, this]
    congr 1; omega
  · intro _
    show readUInt 24 (toBits 24 H ++ x ++ zeros z) = .ok ((toBits 24 H ++ x ++ zeros z).length / 8, (toBits 24 H ++ x ++ zeros z).drop 24)
    rw [hl, List.append_assoc, readUInt_toBits 24 H _ (by omega) hH]
    have h24 : (toBits 24 H).length = 24 := toBits_length 24 H
    have hd : (toBits 24 H ++ (x ++ zeros z)).drop 24 = x ++ zeros z := by
      conv => lhs; arg 1; rw [← h24]
      exact List.drop_left
    rw [hd]
    have : (24 + x.length + z) / 8 = H := by omega
    rw [this]
  · intro hr
    show (toBits 24 H ++ x ++ zeros z).length = 24 + x.length + padBits ed (24 + x.length)
    rw [hl]
    rcases hr with hr | hr | hr
    · cases hr
    · rw [hmin (Or.inl hr)]
    · rw [hmin (Or.inr hr)]
  · intro _ hi d hd hd0
    show ((toBits 24 H ++ x ++ zeros z).length : Int) = 8 * d
    rw [hl, ← hhon hi d hd hd0]
    omega

theorem frame_noLen (cfg : EncCfg) (idx : Nat) (ed : Int) (x : Bits) (decl : Option Int) :
    SecFrame.OK cfg { index := idx, hasLen := false, edition := ed, content := x.length, declared := decl,
                      bits := x ++ zeros (padBits ed x.length) } := by
  have hl : (x ++ zeros (padBits ed x.length)).length = x.length + padBits ed x.length := by
    simp only [List.length_append, zeros_length]
  constructor
  · show (x ++ zeros (padBits ed x.length)).length % 8 = 0
    rw [hl]; exact padBits_octets ed x.length
  · show x.length ≤ (x ++ zeros (padBits ed x.length)).length
    rw [hl]; omega
  · show (x ++ zeros (padBits ed x.length)).drop x.length = zeros ((x ++ zeros (padBits ed x.length)).length - x.length)
    rw [hl, List.drop_left]
    congr 1; omega
  · intro h; cases h
  · intro _; exact hl
  · intro h; cases h

theorem drop_two (w a r : Bits) (n : Nat) (ha : a.length = n) : (w ++ a ++ r).drop (w.length + n) = r := by
  have : (w ++ a).length = w.length + n := by simp [ha]
  rw [← this, List.drop_left]

theorem offsetOf_head {s : SectionLayout} {p : Param} {ps : List Param} (hp : s.params = p :: ps) :
    s.offsetOf p.name = some 0 := by
  simp [SectionLayout.offsetOf, hp, SectionLayout.offsetOf.go]

/-- what `encSection` appends is a well-formed frame -/
theorem encSection_frame {cfg : EncCfg} {s : SectionLayout} {vs : List PVal} {payload : Bits}
    {reg : Registry} {w : Bits} {reg1 : Registry} {w' : Bits} (hs : s.WF = true)
    (h : encSection cfg s vs payload reg w = .ok (reg1, w')) :
    ∃ f : SecFrame, w' = w ++ f.bits ∧ f.OK cfg ∧ f.index = s.index ∧
      f.hasLen = s.hasParam "section_length" ∧
      reg1 = register reg w.length 0 s.params vs ∧
      (∃ nb ps, reg1.get? "edition" = some ⟨.int f.edition, nb, ps⟩) ∧
      ∃ x, encParams payload s.params vs w = .ok (w ++ x) ∧ f.content = x.length ∧
        (s.hasParam "section_length" = false → f.bits = x ++ zeros (padBits f.edition x.length)) := by
  unfold encSection at h
  split at h
  · cases h
  split at h
  · cases h
  rename_i w1 h1
  obtain ⟨x, rfl⟩ := encParams_append h1
  simp only at h
  split at h
  rotate_left
  · cases h
  rename_i ed nb ps hed
  split at h
  · cases h
  rename_i w3 hc
  cases h
  have hxl : (w ++ x).length - w.length = x.length := by simp
  rw [hxl] at hc
  by_cases hh : s.hasParam "section_length" = true
  · obtain ⟨p, ps', hp, hname, hnb, hty⟩ := lenFirst_cons (wf_lenFirst hs) hh
    rw [hp] at h1
    cases vs with
    | nil => simp only [encParams] at h1; cases h1
    | cons v vs' =>
      simp only [encParams] at h1
      split at h1
      · cases h1
      rename_i wa ha
      obtain ⟨y, hy⟩ := encParams_append h1
      -- the first parameter is the 24-bit length
      cases v with
      | int d =>
        simp only [encParam, hty, hnb] at ha
        obtain ⟨hwa, _, hd0, hdlt⟩ := writeUInt_ok ha
        subst hwa
        have hx : x = toBits 24 d.toNat ++ y := by
          rw [List.append_assoc] at hy
          exact List.append_cancel_left hy
        subst hx
        have hpo : paramOf s.params "section_length" = some p := by
          rw [hp, ← hname]; simp [paramOf, List.find?]
        have hvo : valOf s.params (PVal.int d :: vs') "section_length" = some (PVal.int d) := by
          rw [hp, ← hname]; simp [valOf]
        have hoff : s.offsetOf "section_length" = some 0 := by
          rw [← hname]; exact offsetOf_head hp
        simp only [closeSection, hpo, hvo, hoff, hnb, Nat.add_zero] at hc
        have h24 : (toBits 24 d.toNat).length = 24 := toBits_length _ _
        have hwl : (w ++ (toBits 24 d.toNat ++ y) ++ zeros (padBits ed (toBits 24 d.toNat ++ y).length)).length - w.length
            = 24 + y.length + padBits ed (24 + y.length) := by
          simp only [List.length_append, h24, zeros_length]; omega
        have hyl : (toBits 24 d.toNat ++ y).length = 24 + y.length := by
          simp only [List.length_append, h24]
        rw [hwl, hyl] at hc
        simp only [Int.ofNat_eq_natCast] at hc
        split at hc
        · -- length recomputed and patched in place
          rename_i hcond
          obtain ⟨hw3, _, hH⟩ := setUInt_ok hc
          have htake : (w ++ (toBits 24 d.toNat ++ y) ++ zeros (padBits ed (24 + y.length))).take w.length = w := by
            rw [List.append_assoc, List.take_left']; rfl
          have hdrop : (w ++ (toBits 24 d.toNat ++ y) ++ zeros (padBits ed (24 + y.length))).drop (w.length + 24)
              = y ++ zeros (padBits ed (24 + y.length)) := by
            have := drop_two w (toBits 24 d.toNat) (y ++ zeros (padBits ed (24 + y.length))) 24 h24
            simpa only [List.append_assoc] using this
          rw [htake, hdrop] at hw3
          have hoct := padBits_octets ed (24 + y.length)
          refine ⟨{ index := s.index, hasLen := true, edition := ed, content := 24 + y.length, declared := some d,
                    bits := toBits 24 ((24 + y.length + padBits ed (24 + y.length)) / 8) ++ y ++ zeros (padBits ed (24 + y.length)) },
            ?_, ?_, rfl, hh.symm, rfl, ⟨nb, ps, hed⟩, toBits 24 d.toNat ++ y, ?_, ?_, ?_⟩
          · rw [hw3]; simp only [List.append_assoc]
          · apply frame_of_shape cfg s.index ed _ y _ (some d) hH
            · omega
            · intro _; rfl
            · intro hi d' hd' hd0'
              cases hd'
              simp only [hi, Bool.or_false, beq_iff_eq] at hcond
              exact absurd hcond hd0'
          · rw [hp]; simp only [encParams, encParam, hty, hnb, ha]; exact h1
          · exact hyl.symm
          · intro hf; rw [hh] at hf; cases hf
        · rename_i hcond
          simp only [Bool.or_eq_true, beq_iff_eq, not_or, Bool.not_eq_true] at hcond
          split at hc
          · -- declared longer: zero fill
            rename_i hpos
            unfold skip at hc
            split at hc
            · cases hc
            cases hc
            refine ⟨{ index := s.index, hasLen := true, edition := ed, content := 24 + y.length, declared := some d,
                      bits := toBits 24 d.toNat ++ y ++ zeros (padBits ed (24 + y.length) +
                        (d * 8 - ((24 + y.length + padBits ed (24 + y.length) : Nat) : Int)).toNat) },
              ?_, ?_, rfl, hh.symm, rfl, ⟨nb, ps, hed⟩, toBits 24 d.toNat ++ y, ?_, ?_, ?_⟩
            · simp only [List.append_assoc, zeros_append]
            · apply frame_of_shape cfg s.index ed _ y _ (some d) hdlt
              · omega
              · intro hr
                rcases hr with hr | hr
                · simp [hcond.2] at hr
                · injection hr with hr; exact absurd hr hcond.1
              · intro _ d' hd' _
                cases hd'; omega
            · rw [hp]; simp only [encParams, encParam, hty, hnb, ha]; exact h1
            · exact hyl.symm
            · intro hf; rw [hh] at hf; cases hf
          · split at hc
            · cases hc
            · -- declared exactly
              rename_i hnpos hnneg
              cases hc
              refine ⟨{ index := s.index, hasLen := true, edition := ed, content := 24 + y.length, declared := some d,
                        bits := toBits 24 d.toNat ++ y ++ zeros (padBits ed (24 + y.length)) },
                ?_, ?_, rfl, hh.symm, rfl, ⟨nb, ps, hed⟩, toBits 24 d.toNat ++ y, ?_, ?_, ?_⟩
              · simp only [List.append_assoc]
              · apply frame_of_shape cfg s.index ed _ y _ (some d) hdlt
                · omega
                · intro hr
                  rcases hr with hr | hr
                  · simp [hcond.2] at hr
                  · injection hr with hr; exact absurd hr hcond.1
                · intro _ d' hd' _
                  cases hd'; omega
              · rw [hp]; simp only [encParams, encParam, hty, hnb, ha]; exact h1
              · exact hyl.symm
              · intro hf; rw [hh] at hf; cases hf
      | bool b => simp [encParam, hty] at ha
      | bin b => simp [encParam, hty] at ha
      | bytes b => simp [encParam, hty] at ha
      | descs b => simp [encParam, hty] at ha
      | data => simp [encParam, hty] at ha
  · have hh' : s.hasParam "section_length" = false := by simpa using hh
    have hpo : paramOf s.params "section_length" = none := paramOf_none hh'
    simp only [closeSection, hpo] at hc
    cases hc
    refine ⟨{ index := s.index, hasLen := false, edition := ed, content := x.length,
              declared := none, bits := x ++ zeros (padBits ed x.length) },
      ?_, frame_noLen cfg s.index ed x none, rfl, hh'.symm, rfl, ⟨nb, ps, hed⟩, x, h1, rfl, fun _ => rfl⟩
    simp only [List.append_assoc]

theorem encSection_len {cfg : EncCfg} {s : SectionLayout} {vs : List PVal} {payload : Bits}
    {reg : Registry} {w : Bits} {r : Registry × Bits}
    (h : encSection cfg s vs payload reg w = .ok r) : s.params.length = vs.length := by
  unfold encSection at h
  split at h
  · cases h
  · rename_i hne; simpa using hne

/-! ### the section loop -/

theorem getCfg_mem {L : Layouts} {idx ed : Nat} {s : SectionLayout} (h : getCfg L idx ed = .ok s) :
    ∃ e ∈ L, e.layout = s ∧ e.index = idx := by
  unfold getCfg at h
  split at h
  · cases h
  rename_i d hd
  split at h
  · rename_i e he
    cases h
    have hm := List.mem_of_find?_eq_some he
    have hp := List.find?_some he
    simp only [Bool.and_eq_true, beq_iff_eq] at hp
    exact ⟨e, hm, rfl, hp.1⟩
  · cases h
    have hm := List.mem_of_find?_eq_some hd
    have hp := List.find?_some hd
    simp only [Bool.and_eq_true, beq_iff_eq] at hp
    exact ⟨d, hm, rfl, hp.1⟩

theorem register_get_other (n : String) :
    ∀ (ps : List Param) (vs : List PVal) (reg : Registry) (start off : Nat),
      (∀ p ∈ ps, ¬ (p.name = n ∧ p.asProperty = true)) →
      (register reg start off ps vs).get? n = reg.get? n := by
  intro ps
  induction ps with
  | nil => intro vs reg start off _; cases vs <;> rfl
  | cons p ps ih =>
    intro vs reg start off h
    cases vs with
    | nil => rfl
    | cons v vs =>
      simp only [register]
      rw [ih vs _ start _ (fun q hq => h q (List.mem_cons_of_mem _ hq))]
      by_cases hp : p.asProperty = true
      · simp only [hp, if_true]
        have hne : ¬ (p.name = n) := fun hn => h p (List.mem_cons_self) ⟨hn, hp⟩
        simp only [Registry.get?, List.lookup]
        have : (n == p.name) = false := by
          simp only [beq_eq_false_iff_ne, ne_eq]; exact fun h => hne h.symm
        rw [this]
      · simp only [hp]; rfl

theorem wf_all {L : Layouts} (h : L.WF = true) : ∀ e ∈ L, e.layout.WF = true := by
  simp only [Layouts.WF, Bool.and_eq_true, List.all_eq_true] at h
  exact h.1.1.1

theorem wf_lengthOnce {L : Layouts} (h : L.WF = true) {e : LayoutEntry} (he : e ∈ L) (hi : e.index ≠ 0) :
    ∀ p ∈ e.layout.params, ¬ (p.name = "length" ∧ p.asProperty = true) := by
  simp only [Layouts.WF, Bool.and_eq_true] at h
  have h2 := h.1.2
  simp only [Layouts.lengthOnce, List.all_eq_true, Bool.or_eq_true, beq_iff_eq] at h2
  intro p hp hcon
  rcases h2 e he with h0 | h0
  · exact hi h0
  · have := h0 p hp
    simp [hcon.1, hcon.2] at this

theorem wf_endOK {L : Layouts} (h : L.WF = true) {e : LayoutEntry} (he : e ∈ L)
    (hend : e.layout.endOfMessage = true) :
    ∃ p, e.layout.params = [p] ∧ p.ty = .bytes ∧ p.nbits = 32 := by
  simp only [Layouts.WF, Bool.and_eq_true] at h
  have h2 := h.2
  simp only [Layouts.endOK, List.all_eq_true, Bool.or_eq_true] at h2
  rcases h2 e he with h0 | h0
  · simp [hend] at h0
  · split at h0
    · rename_i p hp
      simp only [Bool.and_eq_true, beq_iff_eq] at h0
      exact ⟨p, hp, h0.1.1, h0.1.2⟩
    · cases h0

theorem padBits_32 (ed : Int) : padBits ed 32 = 0 := by
  unfold padBits; split <;> simp

theorem framesBits_append (a b : List SecFrame) : framesBits (a ++ b) = framesBits a ++ framesBits b := by
  simp [framesBits, List.flatMap_append]

theorem framesBits_cons (a : SecFrame) (b : List SecFrame) : framesBits (a :: b) = a.bits ++ framesBits b := by
  simp [framesBits]

/-- a final section (a lone 4-octet signature) is written as the supplied bytes -/
theorem final_frame {payload : Bits} {p : Param} {vs : List PVal} {w x : Bits}
    (hty : p.ty = .bytes) (hnb : p.nbits = 32) (hlen : [p].length = vs.length)
    (h : encParams payload [p] vs w = .ok (w ++ x)) :
    ∃ b, vs = [PVal.bytes b] ∧ x = bytesToBits (padBytes b 4) := by
  cases vs with
  | nil => cases hlen
  | cons v vs' =>
    cases vs' with
    | cons _ _ => simp at hlen
    | nil =>
      simp only [encParams] at h
      split at h
      · cases h
      rename_i w1 h1
      cases h
      cases v <;> simp only [encParam, hty, hnb] at h1 <;> try cases h1
      rename_i b
      simp only [writeBytes] at h1
      refine ⟨b, rfl, ?_⟩
      have := List.append_cancel_left (Except.ok.inj h1)
      exact this.symm

theorem encLoop_frames {L : Layouts} {cfg : EncCfg} {payload : Bits} (hL : L.WF = true) :
    ∀ (fuel idx : Nat) (vals : List (List PVal)) (reg : Registry) (w : Bits) (tr : List (Nat × Nat))
      (reg' : Registry) (w' : Bits) (tr' : List (Nat × Nat)),
      encLoop L cfg payload fuel idx vals reg w tr = .ok (reg', w', tr') →
      ∃ (fs : List SecFrame) (fl : SecFrame) (b : List UInt8),
        w' = w ++ framesBits (fs ++ [fl]) ∧ (∀ f ∈ fs ++ [fl], f.OK cfg) ∧
        tr' = tr ++ (fs ++ [fl]).map (fun f => (f.index, f.bits.length)) ∧
        [PVal.bytes b] ∈ vals ∧ fl.bits = bytesToBits (padBytes b 4) ∧
        (1 ≤ idx → reg'.get? "length" = reg.get? "length") := by
  intro fuel
  induction fuel with
  | zero => intro idx vals reg w tr reg' w' tr' h; simp only [encLoop] at h; cases h
  | succ fuel ih =>
    intro idx vals reg w tr reg' w' tr' h
    cases vals with
    | nil => simp only [encLoop] at h; cases h
    | cons vs rest =>
      simp only [encLoop] at h
      split at h
      · cases h
      rename_i s hcfg
      obtain ⟨e, heL, hes, hei⟩ := getCfg_mem hcfg
      have hsWF : s.WF = true := hes ▸ wf_all hL e heL
      split at h
      · cases h
      · -- optional section absent
        obtain ⟨fs, fl, b, h1, h2, h3, h4, h5, h6⟩ := ih _ _ _ _ _ _ _ _ h
        exact ⟨fs, fl, b, h1, h2, h3, h4, h5, fun hi => h6 (by omega)⟩
      · split at h
        · cases h
        rename_i reg1 w1 hsec
        obtain ⟨f, hw1, hfok, hfi, hfl, hreg1, _, x, hx, hxc, hxb⟩ := encSection_frame hsWF hsec
        have hlen := encSection_len hsec
        have hregl : 1 ≤ idx → reg1.get? "length" = reg.get? "length" := by
          intro hi
          rw [hreg1]
          apply register_get_other
          rw [← hes]
          exact wf_lengthOnce hL heL (by omega)
        have hwl : w1.length - w.length = f.bits.length := by rw [hw1]; simp
        split at h
        · -- final section
          rename_i hend
          cases h
          obtain ⟨p, hp, hty, hnb⟩ := wf_endOK hL heL (hes ▸ hend)
          rw [hes] at hp
          have hnl : s.hasParam "section_length" = false := by
            cases hh : s.hasParam "section_length" with
            | false => rfl
            | true =>
              obtain ⟨q, qs, hq, _, _, hqt⟩ := lenFirst_cons (wf_lenFirst hsWF) hh
              rw [hp] at hq; cases hq
              rw [hty] at hqt; cases hqt
          rw [hp] at hx hlen
          obtain ⟨b, hvs, hxb'⟩ := final_frame hty hnb hlen hx
          have hfb : f.bits = bytesToBits (padBytes b 4) := by
            rw [hxb hnl, hxb']
            have : (bytesToBits (padBytes b 4)).length = 32 := by
              rw [bytesToBits_length, padBytes_length]
            rw [this, padBits_32]; simp [zeros]
          refine ⟨[], f, b, ?_, ?_, ?_, ?_, hfb, hregl⟩
          · simp [framesBits, hw1]
          · intro g hg; simp at hg; rw [hg]; exact hfok
          · simp [hwl, hfi]
          · rw [hvs]; exact List.mem_cons_self
        · obtain ⟨fs, fl, b, h1, h2, h3, h4, h5, h6⟩ := ih _ _ _ _ _ _ _ _ h
          refine ⟨f :: fs, fl, b, ?_, ?_, ?_, List.mem_cons_of_mem _ h4, h5, ?_⟩
          · rw [h1, hw1, List.cons_append, framesBits_cons, List.append_assoc]
          · intro g hg
            rw [List.cons_append] at hg
            rcases List.mem_cons.mp hg with hg | hg
            · rw [hg]; exact hfok
            · exact h2 g hg
          · rw [h3, hwl, ← hfi]; simp
          · intro hi; rw [h6 (by omega)]; exact hregl hi

/-! ### section 0 and the total length -/

theorem wf_sec0 {L : Layouts} (h : L.WF = true) :
    ∃ e0 p0 p1 ps, L.find? (fun e => e.index == 0 && e.edition == 0) = some e0 ∧
      e0.layout.optional = false ∧ e0.layout.hasParam "section_length" = false ∧
      e0.layout.params = p0 :: p1 :: ps ∧ p0.ty = .bytes ∧ p0.nbits = 32 ∧
      p1.name = "length" ∧ p1.ty = .uint ∧ p1.nbits = 24 ∧ p1.asProperty = true := by
  simp only [Layouts.WF, Bool.and_eq_true] at h
  have h2 := h.1.1.2
  unfold Layouts.sec0OK at h2
  split at h2
  · cases h2
  rename_i e0 he0
  simp only [Bool.and_eq_true, Bool.not_eq_true'] at h2
  obtain ⟨⟨ho, hl⟩, hm⟩ := h2
  split at hm
  · rename_i p0 p1 ps hp
    simp only [Bool.and_eq_true, beq_iff_eq] at hm
    obtain ⟨⟨⟨⟨⟨⟨a1, a2⟩, _⟩, a4⟩, a5⟩, a6⟩, a7⟩ := hm
    exact ⟨e0, p0, p1, ps, he0, ho, hl, hp, a1, a2, a4, a5, a6, a7⟩
  · cases hm

theorem wf_nodup {s : SectionLayout} (h : s.WF = true) : (s.params.map (·.name)).Nodup := by
  simp only [SectionLayout.WF, Bool.and_eq_true, decide_eq_true_eq] at h
  exact h.1.1.1.1.1

structure EncShape (cfg : EncCfg) (vals : List (List PVal)) (w : Bits) (tr : List (Nat × Nat)) : Prop where
  ex : ∃ (b0 : List UInt8) (d : Int) (rest0 : List PVal) (restv : List (List PVal)) (y : Bits) (ed : Int) (i0 : Nat)
      (fs : List SecFrame) (fl : SecFrame) (b : List UInt8) (T : Nat),
    vals = (PVal.bytes b0 :: PVal.int d :: rest0) :: restv ∧
    w = (bytesToBits (padBytes b0 4) ++ toBits 24 T ++ y) ++ zeros (padBits ed (56 + y.length)) ++ framesBits (fs ++ [fl]) ∧
    T < 2 ^ 24 ∧ T = w.length / 8 ∧
    (cfg.ignoreDeclared = false → d ≠ 0 → d = Int.ofNat T) ∧
    (∀ f ∈ fs ++ [fl], f.OK cfg) ∧
    tr = (i0, 56 + y.length + padBits ed (56 + y.length)) :: (fs ++ [fl]).map (fun f => (f.index, f.bits.length)) ∧
    [PVal.bytes b] ∈ restv ∧ fl.bits = bytesToBits (padBytes b 4)

theorem encodeBits_shape {L : Layouts} {cfg : EncCfg} {vals : List (List PVal)} {payload : Bits}
    {w : Bits} {tr : List (Nat × Nat)} (hL : L.WF = true)
    (h : encodeBits L cfg vals payload = .ok (w, tr)) : EncShape cfg vals w tr := by
  obtain ⟨e0, p0, p1, ps, he0, hopt, hnl, hp, ht0, hn0, hname1, ht1, hn1, hap1⟩ := wf_sec0 hL
  have he0L := List.mem_of_find?_eq_some he0
  have hs0WF := wf_all hL e0 he0L
  unfold encodeBits at h
  split at h
  · cases h
  rename_i reg wl trl hloop
  split at h
  · cases h
  rename_i w2 hpatch
  split at h
  · cases h
  cases h
  -- first round of the loop: section 0
  cases vals with
  | nil => simp only [encLoop] at hloop; cases hloop
  | cons vs0 restv =>
    have hk : Registry.init.editionKey = 0 := by decide
    have hcfg : getCfg L 0 0 = .ok e0.layout := by
      unfold getCfg; rw [he0]
    simp only [encLoop, hk, hcfg, isPresent, hopt, Bool.not_false, if_true] at hloop
    split at hloop
    · cases hloop
    rename_i reg1 w1 hsec
    obtain ⟨f, hw1, hfok, hfi, hfl, hreg1, ⟨nbe, pse, hed⟩, x, hx, hxc, hxb⟩ := encSection_frame hs0WF hsec
    have hlen := encSection_len hsec
    rw [hp] at hx hlen
    -- the two leading parameters
    cases vs0 with
    | nil => cases hlen
    | cons v0 vs1 =>
    cases vs1 with
    | nil => simp at hlen
    | cons v1 rest0 =>
    simp only [encParams] at hx
    split at hx
    · cases hx
    rename_i wa ha
    split at hx
    · cases hx
    rename_i wb hb
    obtain ⟨y, hy⟩ := encParams_append hx
    cases v0 <;> simp only [encParam, ht0, hn0] at ha <;> try cases ha
    rename_i b0
    cases v1 <;> simp only [encParam, ht1, hn1] at hb <;> try cases hb
    rename_i d
    have hw4 : writeBytes [] b0 (some (32 / 8)) = bytesToBits (padBytes b0 4) := by
      simp only [writeBytes, List.nil_append]
    rw [hw4] at hb
    obtain ⟨hwb, _, hd0, hdlt⟩ := writeUInt_ok hb
    subst hwb
    have hxe : x = bytesToBits (padBytes b0 4) ++ toBits 24 d.toNat ++ y := by
      simpa using hy
    have hSl : (bytesToBits (padBytes b0 4)).length = 32 := by rw [bytesToBits_length, padBytes_length]
    have hxl : x.length = 56 + y.length := by
      rw [hxe]; simp only [List.length_append, hSl, toBits_length]
    have hfb := hxb hnl
    -- the registry entry of `length`
    have hnd := wf_nodup hs0WF
    rw [hp] at hnd
    simp only [List.map_cons, List.nodup_cons, List.mem_cons, List.mem_map, not_or] at hnd
    have hreglen : reg1.get? "length" = some ⟨.int d, 24, 32⟩ := by
      rw [hreg1, hp]
      simp only [register, hap1, if_true]
      rw [register_get_other]
      · simp [Registry.get?, List.lookup, hname1, hn0, hn1]
      · intro q hq hcon
        exact hnd.2.1 ⟨q, hq, by rw [hcon.1, hname1]⟩
    -- not the final section
    have hnend : e0.layout.endOfMessage = false := by
      cases hh : e0.layout.endOfMessage with
      | false => rfl
      | true =>
        obtain ⟨q, hq, _, _⟩ := wf_endOK hL he0L hh
        rw [hp] at hq; cases hq
    simp only [hnend, Bool.false_eq_true, if_false] at hloop
    obtain ⟨fs, fl, b, h1, h2, h3, h4, h5, h6⟩ := encLoop_frames hL _ _ _ _ _ _ _ _ _ hloop
    have hreg : reg.get? "length" = some ⟨.int d, 24, 32⟩ := by rw [h6 (by omega), hreglen]
    -- shape of the stream before the total is patched
    have hwl : wl = (bytesToBits (padBytes b0 4) ++ toBits 24 d.toNat ++ y) ++ zeros (padBits f.edition (56 + y.length))
        ++ framesBits (fs ++ [fl]) := by
      rw [h1, hw1, hfb, hxe, ← hxl, hxe]; simp only [List.nil_append]
    have h24 : ∀ v, (toBits 24 v).length = 24 := fun v => toBits_length 24 v
    have hshape : ∀ T, (bytesToBits (padBytes b0 4) ++ toBits 24 T ++ y ++ zeros (padBits f.edition (56 + y.length))
        ++ framesBits (fs ++ [fl])).length = wl.length := by
      intro T; rw [hwl]; simp only [List.length_append, h24]
    have htr : tr = (e0.layout.index, 56 + y.length + padBits f.edition (56 + y.length)) ::
        (fs ++ [fl]).map (fun f => (f.index, f.bits.length)) := by
      rw [h3, hw1, hfb]; simp [zeros_length, hxl]
    unfold patchTotal at hpatch
    rw [hreg] at hpatch
    simp only at hpatch
    split at hpatch
    · -- total recomputed
      rename_i hcond
      obtain ⟨hw2, _, hT⟩ := setUInt_ok hpatch
      have htake : wl.take 32 = bytesToBits (padBytes b0 4) := by
        rw [hwl]; simp only [List.append_assoc]; rw [← hSl, List.take_left]
      have hdrop : wl.drop (32 + 24) = y ++ zeros (padBits f.edition (56 + y.length)) ++ framesBits (fs ++ [fl]) := by
        rw [hwl]
        have := drop_two (bytesToBits (padBytes b0 4)) (toBits 24 d.toNat)
          (y ++ zeros (padBits f.edition (56 + y.length)) ++ framesBits (fs ++ [fl])) 24 (h24 _)
        rw [hSl] at this
        simpa only [List.append_assoc] using this
      rw [htake, hdrop] at hw2
      refine ⟨b0, d, rest0, restv, y, f.edition, e0.layout.index, fs, fl, b, wl.length / 8, rfl, ?_, hT, ?_, ?_, h2, htr, h4, h5⟩
      · rw [hw2]; simp only [List.append_assoc]
      · have hwlen : w.length = wl.length := by
          have := hshape (wl.length / 8)
          rw [hw2]
          simp only [List.append_assoc] at this ⊢
          exact this
        rw [hwlen]
      · intro hi hd
        simp [hi, hd] at hcond
    · split at hpatch
      · cases hpatch
      rename_i hcond hne
      cases hpatch
      simp only [Bool.or_eq_true, beq_iff_eq, not_or, Bool.not_eq_true] at hcond
      simp only [bne_iff_ne, ne_eq, Decidable.not_not, Int.ofNat_eq_natCast] at hne
      have hdT : d.toNat = w.length / 8 := by omega
      refine ⟨b0, d, rest0, restv, y, f.edition, e0.layout.index, fs, fl, b, d.toNat, rfl, hwl, hdlt, hdT, ?_, h2, htr, h4, h5⟩
      intro _ _; simp only [Int.ofNat_eq_natCast]; omega

/-! ### bits <-> bytes -/

theorem split8 (w : Bits) (h : 8 ≤ w.length) :
    ∃ b0 b1 b2 b3 b4 b5 b6 b7 rest, w = b0 :: b1 :: b2 :: b3 :: b4 :: b5 :: b6 :: b7 :: rest := by
  rcases w with _ | ⟨b0, _ | ⟨b1, _ | ⟨b2, _ | ⟨b3, _ | ⟨b4, _ | ⟨b5, _ | ⟨b6, _ | ⟨b7, rest⟩⟩⟩⟩⟩⟩⟩⟩ <;>
    simp at h
  exact ⟨b0, b1, b2, b3, b4, b5, b6, b7, rest, rfl⟩

theorem byteBits_ofBits (l : Bits) (h : l.length = 8) : byteBits (UInt8.ofNat (ofBits l)) = l := by
  have hlt := ofBits_lt l
  rw [h] at hlt
  unfold byteBits
  have : (UInt8.ofNat (ofBits l)).toNat = ofBits l := by
    rw [UInt8.toNat_ofNat']; omega
  rw [this, ← h, toBits_ofBits]

theorem bytesToBits_cons (b : UInt8) (bs : List UInt8) : bytesToBits (b :: bs) = byteBits b ++ bytesToBits bs := by
  simp [bytesToBits]

theorem bytesToBits_bitsToBytes : ∀ (n : Nat) (w : Bits), w.length = 8 * n → bytesToBits (bitsToBytes w) = w
  | 0, w, h => by
    have : w = [] := List.eq_nil_of_length_eq_zero (by omega)
    subst this; rfl
  | n + 1, w, h => by
    obtain ⟨b0, b1, b2, b3, b4, b5, b6, b7, rest, rfl⟩ := split8 w (by omega)
    have hr : rest.length = 8 * n := by simp only [List.length_cons] at h; omega
    simp only [bitsToBytes, bytesToBits_cons]
    rw [bytesToBits_bitsToBytes n rest hr, byteBits_ofBits _ rfl]
    rfl

theorem bitsToBytes_append (a : List UInt8) (rest : Bits) :
    bitsToBytes (bytesToBits a ++ rest) = a ++ bitsToBytes rest := by
  induction a with
  | nil => rfl
  | cons x xs ih =>
    have h := ofNat_ofBits_byteBits x
    simp only [bytesToBits_cons, List.append_assoc]
    simp only [byteBits, toBits, List.cons_append, List.nil_append, bitsToBytes] at *
    rw [ih, h]

end Bufr
