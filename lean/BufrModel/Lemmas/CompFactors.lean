/-
  Finding F24 (repaired): `CoderState._assert_equal_values_of_index` compares EVERY value of the column with the
  first one, `None` included (`sameAsFirst`).  Basic facts about the repaired check, and what the compressed
  coder's `factorValue` primitives return: the value EVERY subset holds at that position.

  The old check (`minmaxInt` / `decFactorCLax`: only the non-missing values must agree) is strictly weaker:
  `decFactorC_lax` (whatever the repaired check accepts the old one accepted, with the same result) and
  `decFactorCLax_accepts_missing` (the old one accepts `1, missing`, the repaired one refuses it with the library
  error).
-/
import BufrModel.Coder.Encode
namespace Bufr

theorem sameAsFirst_cons_ok {v : Val} {vs : List Val} :
    sameAsFirst (v :: vs) = .ok () ↔ ∀ x ∈ vs, x = v := by
  rw [sameAsFirst]
  constructor
  · intro h x hx
    split at h
    · next hall => simpa using List.all_eq_true.mp hall x hx
    · cases h
  · intro h
    have : (vs.all (· == v)) = true := List.all_eq_true.mpr (fun x hx => by simp [h x hx])
    rw [if_pos this]

/-- the repaired check accepts a column exactly when all its entries are equal (to the first one) -/
theorem sameAsFirst_ok_iff {hs : List Val} :
    sameAsFirst hs = .ok () ↔ ∀ x ∈ hs, some x = hs.head? := by
  cases hs with
  | nil => simp [sameAsFirst]
  | cons v vs =>
    rw [sameAsFirst_cons_ok]
    simp only [List.mem_cons, List.head?_cons, Option.some.injEq, forall_eq_or_imp, true_and]

/-- and refuses every other column with the LIBRARY error -/
theorem sameAsFirst_err {hs : List Val} {e : Err} (h : sameAsFirst hs = .error e) : e = .lib := by
  cases hs with
  | nil => rw [sameAsFirst] at h; cases h
  | cons v vs =>
    rw [sameAsFirst] at h
    split at h
    · cases h
    · injection h with h; exact h.symm

theorem sameAsFirst_replicate (v : Val) (n : Nat) : sameAsFirst (List.replicate n v) = .ok () := by
  rw [sameAsFirst_ok_iff]
  intro x hx
  rw [List.mem_replicate] at hx
  obtain ⟨hn, rfl⟩ := hx
  cases n with
  | zero => exact absurd rfl hn
  | succ n => rfl

theorem mapM_ok_mem {α β : Type} (f : α → Except Err β) : ∀ (l : List α) (r : List β),
    l.mapM f = .ok r → (∀ a ∈ l, ∃ b ∈ r, f a = .ok b) ∧ r.length = l.length
  | [], r, h => by
    rw [List.mapM_nil] at h
    cases h
    exact ⟨fun a ha => by simp at ha, rfl⟩
  | a :: l, r, h => by
    rw [List.mapM_cons] at h
    cases ha : f a with
    | error e => rw [ha] at h; cases h
    | ok b =>
      rw [ha] at h
      cases hl : l.mapM f with
      | error e => rw [hl] at h; cases h
      | ok bs =>
        rw [hl] at h
        cases h
        obtain ⟨ih, ihl⟩ := mapM_ok_mem f l bs hl
        refine ⟨fun x hx => ?_, by simp [ihl]⟩
        rw [List.mem_cons] at hx
        rcases hx with rfl | hx
        · exact ⟨b, by simp, ha⟩
        · obtain ⟨y, hy, e⟩ := ih x hx
          exact ⟨y, by simp [hy], e⟩

theorem headVal_ok {l : List Val} {v : Val} (h : headVal l = .ok v) : l.head? = some v := by
  unfold headVal at h
  split at h
  · cases h
  · injection h with h; subst h; rfl

/-- shape of a successful repaired check inside the `do` block of `decFactorC` / `encFactorC` -/
theorem sameAsFirst_bind_ok {heads : List Val} {v : Val}
    (h : (sameAsFirst heads >>= fun _ => headVal heads) = .ok v) :
    sameAsFirst heads = .ok () ∧ headVal heads = .ok v := by
  cases hs : sameAsFirst heads with
  | error e => rw [hs] at h; cases h
  | ok u => rw [hs] at h; exact ⟨rfl, h⟩

/-- **what the repaired compressed decoder returns as a delayed replication factor is the value that EVERY subset
    holds on top of its value list** (and there is at least one subset) -/
theorem decFactorC_ok {s : St} {v : Val} (h : decFactorC s = .ok v) :
    s.vals ≠ [] ∧ ∀ l ∈ s.vals, l.head? = some v := by
  unfold decFactorC at h
  cases hm : s.vals.mapM headVal with
  | error e => simp only [hm, bind, Except.bind] at h; cases h
  | ok heads =>
    simp only [hm, bind, Except.bind] at h
    obtain ⟨hs, hv⟩ := sameAsFirst_bind_ok (heads := heads) (v := v) h
    have hh := headVal_ok hv
    obtain ⟨hall, hlen⟩ := mapM_ok_mem headVal s.vals heads hm
    refine ⟨?_, fun l hl => ?_⟩
    · intro hnil
      rw [hnil] at hlen
      cases heads with
      | nil => cases hh
      | cons _ _ => cases hlen
    · obtain ⟨b, hb, e⟩ := hall l hl
      have := sameAsFirst_ok_iff.mp hs b hb
      rw [hh] at this
      injection this with this
      subst this
      exact headVal_ok e

/-- the converse: when every subset holds `v` on top (and there is a subset) the factor is `v` -/
theorem decFactorC_of_all {s : St} {v : Val} (hne : s.vals ≠ []) (h : ∀ l ∈ s.vals, l.head? = some v) :
    decFactorC s = .ok v := by
  have hm : s.vals.mapM headVal = .ok (List.replicate s.vals.length v) := by
    generalize s.vals = L at h
    induction L with
    | nil => rfl
    | cons l r ih =>
      have hl := h l (by simp)
      rw [List.mapM_cons, ih (fun x hx => h x (by simp [hx]))]
      cases l with
      | nil => cases hl
      | cons a t =>
        simp only [List.head?_cons, Option.some.injEq] at hl
        subst hl
        rfl
  unfold decFactorC
  simp only [hm, bind, Except.bind, sameAsFirst_replicate]
  cases hL : s.vals with
  | nil => exact absurd hL hne
  | cons l r => rfl

/-- a refusal of the repaired factor check itself is the library error or the `IndexError` of an empty list -/
theorem decFactorC_iff {s : St} {v : Val} :
    decFactorC s = .ok v ↔ s.vals ≠ [] ∧ ∀ l ∈ s.vals, l.head? = some v :=
  ⟨decFactorC_ok, fun h => decFactorC_of_all h.1 h.2⟩

theorem nthVal_ok {l : List Val} {i : Nat} {v : Val} (h : nthVal l i = .ok v) : l[i]? = some v := by
  unfold nthVal at h
  split at h
  · cases h
  · next w hw => injection h with h; subst h; exact hw

/-- the compressed ENCODER: the factor it takes is the value every subset supplies at that position -/
theorem encFactorC_ok {s : St} {v : Val} (h : encFactorC s = .ok v) :
    s.idx ≠ 0 ∧ s.vals ≠ [] ∧ ∀ l ∈ s.vals, l[s.idx - 1]? = some v := by
  unfold encFactorC at h
  by_cases h0 : s.idx = 0
  · simp [h0] at h
  · simp only [h0, if_false] at h
    cases hm : s.vals.mapM (fun l => nthVal l (s.idx - 1)) with
    | error e => simp only [hm, bind, Except.bind] at h; cases h
    | ok heads =>
      simp only [hm, bind, Except.bind] at h
      obtain ⟨hs, hv⟩ := sameAsFirst_bind_ok (heads := heads) (v := v) h
      have hh := headVal_ok hv
      obtain ⟨hall, hlen⟩ := mapM_ok_mem _ s.vals heads hm
      refine ⟨h0, ?_, fun l hl => ?_⟩
      · intro hnil
        rw [hnil] at hlen
        cases heads with
        | nil => cases hh
        | cons _ _ => cases hlen
      · obtain ⟨b, hb, e⟩ := hall l hl
        have := sameAsFirst_ok_iff.mp hs b hb
        rw [hh] at this
        injection this with this
        subst this
        exact nthVal_ok e

/-! ### the old check is weaker -/

theorem minmaxInt_replicate_int (i : Int) : ∀ (L : Nat),
    minmaxInt (List.replicate (L + 1) (Val.int i)) = .ok (some (i, i))
  | 0 => rfl
  | L + 1 => by
    rw [List.replicate_succ, minmaxInt, minmaxInt_replicate_int i L]
    simp [bind, Except.bind, pure, Except.pure]

theorem minmaxInt_replicate_missing : ∀ (L : Nat), minmaxInt (List.replicate L Val.missing) = .ok none
  | 0 => rfl
  | L + 1 => by
    rw [List.replicate_succ, minmaxInt, minmaxInt_replicate_missing L]
    rfl

theorem eq_replicate_of_all_eq {v : Val} : ∀ (l : List Val), (∀ x ∈ l, x = v) → l = List.replicate l.length v
  | [], _ => rfl
  | a :: l, h => by
    rw [List.length_cons, List.replicate_succ, h a (by simp),
      ← eq_replicate_of_all_eq l (fun x hx => h x (by simp [hx]))]

/-- on integer or missing factors (what a decoder produces for a class 31 element) everything the repaired check
    accepts was accepted before, with the same result: the repair only REFUSES more -/
theorem decFactorC_lax {s : St} {v : Val} (h : decFactorC s = .ok v) (hv : v = .missing ∨ ∃ i, v = .int i) :
    decFactorCLax s = .ok v := by
  unfold decFactorC at h
  unfold decFactorCLax
  cases hm : s.vals.mapM headVal with
  | error e => simp only [hm, bind, Except.bind] at h; cases h
  | ok heads =>
    simp only [hm, bind, Except.bind] at h ⊢
    obtain ⟨hs, hh⟩ := sameAsFirst_bind_ok (heads := heads) (v := v) h
    cases heads with
    | nil => cases hh
    | cons a r =>
      have ha : a = v := by
        unfold headVal at hh
        injection hh
      subst ha
      have hr := sameAsFirst_cons_ok.mp hs
      have : a :: r = List.replicate (r.length + 1) a := by
        rw [List.replicate_succ, ← eq_replicate_of_all_eq r hr]
      rw [this]
      rcases hv with rfl | ⟨i, rfl⟩
      · rw [minmaxInt_replicate_missing]
        rfl
      · rw [minmaxInt_replicate_int]
        simp only [ne_eq, not_true_eq_false, if_false]
        rfl

/-- the column `1, missing`: the old check lets it pass with the count of subset 0, the repaired check refuses it
    with the library error -/
theorem decFactorCLax_accepts_missing :
    decFactorCLax { vals := [[.int 1], [.missing]] } = .ok (.int 1) ∧
    decFactorC { vals := [[.int 1], [.missing]] } = .error .lib ∧
    decFactorC { vals := [[.int 1], [.int 2]] } = .error .lib ∧
    decFactorC { vals := [[.missing], [.int 1]] } = .error .lib ∧
    decFactorC { vals := [[.int 1], [.int 1]] } = .ok (.int 1) := by decide

end Bufr
