/-
  Helper lemmas of C07: the back-reference collection and the zero-bit selection of
  `buildBitmapped`, and "quiet" primitives (each primitive records exactly one item and leaves the
  link list and the bitmap registers alone).
-/
import BufrModel.Coder.Decode
namespace Bufr.C07

/-! ### plain items with their positions -/

def plain? : DDesc → Option Elem
  | .plain e => some e
  | _ => none

theorem plain?_eq_some (d : DDesc) (e : Elem) : plain? d = some e ↔ d = .plain e := by
  cases d <;> simp [plain?]

/-- plain element items of `l` (OLDEST first), with their positions counted from `base` -/
def plainFrom (base : Nat) : List DDesc → List (Nat × Elem)
  | [] => []
  | d :: r => ((plain? d).map fun e => (base, e)).toList ++ plainFrom (base + 1) r

/-- the same, read off a list held most recent first whose head has position `i - 1` -/
def plainRev (i : Nat) : List DDesc → List (Nat × Elem)
  | [] => []
  | d :: ds => plainRev (i - 1) ds ++ ((plain? d).map fun e => (i - 1, e)).toList

def lastN {α : Type} (n : Nat) (l : List α) : List α := l.drop (l.length - n)

theorem lastN_snoc {α : Type} (k : Nat) (l : List α) (x : α) (hk : 1 ≤ k) :
    lastN k (l ++ [x]) = lastN (k - 1) l ++ [x] := by
  unfold lastN
  rw [List.length_append, List.length_singleton]
  have h : l.length + 1 - k = l.length - (k - 1) := by omega
  rw [h, List.drop_append_of_le_length (by omega)]

theorem lastN_one_snoc {α : Type} (l : List α) (x : α) : lastN 1 (l ++ [x]) = [x] := by
  rw [lastN_snoc 1 l x (by omega)]
  simp [lastN]

theorem plainFrom_append (b : Nat) (l1 l2 : List DDesc) :
    plainFrom b (l1 ++ l2) = plainFrom b l1 ++ plainFrom (b + l1.length) l2 := by
  induction l1 generalizing b with
  | nil => simp [plainFrom]
  | cons d r ih =>
    have e : b + (r.length + 1) = b + 1 + r.length := by omega
    simp [plainFrom, ih, e]

theorem plainRev_eq_plainFrom (i : Nat) (ds : List DDesc) (h : ds.length ≤ i) :
    plainRev i ds = plainFrom (i - ds.length) ds.reverse := by
  induction ds generalizing i with
  | nil => simp [plainRev, plainFrom]
  | cons d ds ih =>
    simp only [List.length_cons] at h
    have e1 : i - 1 - ds.length = i - (ds.length + 1) := by omega
    have e2 : i - (ds.length + 1) + ds.reverse.length = i - 1 := by rw [List.length_reverse]; omega
    simp only [List.reverse_cons, plainFrom_append, plainRev, ih (i - 1) (by omega), List.length_cons, e1, e2,
      plainFrom, List.append_nil]

/-- every entry of `plainFrom b l` is a plain item of `l` at that position, and conversely -/
theorem mem_plainFrom (b : Nat) (l : List DDesc) (i : Nat) (e : Elem) :
    (i, e) ∈ plainFrom b l ↔ b ≤ i ∧ l[i - b]? = some (.plain e) := by
  induction l generalizing b with
  | nil => simp [plainFrom]
  | cons d r ih =>
    simp only [plainFrom, List.mem_append, ih (b + 1)]
    constructor
    · rintro (h | ⟨h1, h2⟩)
      · cases hd : plain? d with
        | none => simp [hd] at h
        | some e0 =>
          simp only [hd, Option.map_some, Option.toList_some, List.mem_singleton, Prod.mk.injEq] at h
          obtain ⟨h1, h2⟩ := h
          subst h1; subst h2
          simp [(plain?_eq_some d e).1 hd]
      · refine ⟨by omega, ?_⟩
        have : i - b = (i - (b + 1)) + 1 := by omega
        rw [this, List.getElem?_cons_succ]; exact h2
    · rintro ⟨h1, h2⟩
      by_cases hib : i = b
      · subst hib
        simp at h2
        left
        simp [(plain?_eq_some d e).2 h2]
      · right
        refine ⟨by omega, ?_⟩
        have : i - b = (i - (b + 1)) + 1 := by omega
        rw [this, List.getElem?_cons_succ] at h2; exact h2

theorem plainFrom_lb (b : Nat) (l : List DDesc) : ∀ x ∈ plainFrom b l, b ≤ x.1 := by
  intro x hx
  have := (mem_plainFrom b l x.1 x.2).1 hx
  exact this.1

/-- positions strictly increasing -/
theorem plainFrom_pairwise (b : Nat) (l : List DDesc) : (plainFrom b l).Pairwise (fun x y => x.1 < y.1) := by
  induction l generalizing b with
  | nil => simp [plainFrom]
  | cons d r ih =>
    simp only [plainFrom]
    rw [List.pairwise_append]
    refine ⟨?_, ih (b + 1), ?_⟩
    · cases plain? d <;> simp
    · intro x hx y hy
      have := plainFrom_lb (b + 1) r y hy
      cases hd : plain? d with
      | none => simp [hd] at hx
      | some e0 =>
        simp [hd] at hx
        subst hx
        show b < y.1
        omega

/-! ### `collectBackRefs` -/

/-- once the accumulator is at least `n` long the loop never stops early: everything is collected
    (this is the `len(bitmap) == 0` accident and never happens for `n ≥ 1` from an empty start) -/
theorem collect_all (n : Nat) (ds : List DDesc) (i : Nat) (acc : List (Nat × Elem)) (h : n ≤ acc.length) (h0 : acc ≠ [] ∨ n = 0) :
    collectBackRefs n ds i acc = plainRev i ds ++ acc := by
  induction ds generalizing i acc with
  | nil => simp [collectBackRefs, plainRev]
  | cons d ds ih =>
    cases d with
    | plain e =>
      simp only [collectBackRefs, plainRev, plain?]
      have hne : ¬ ((i - 1, e) :: acc).length = n := by simp only [List.length_cons]; omega
      rw [if_neg hne, ih (i - 1) _ (by simp only [List.length_cons]; omega) (Or.inl (by simp))]
      simp
    | assoc a b => simp only [collectBackRefs, plainRev, plain?]; rw [ih (i - 1) acc h h0]; simp
    | skipped a b => simp only [collectBackRefs, plainRev, plain?]; rw [ih (i - 1) acc h h0]; simp
    | marker a b => simp only [collectBackRefs, plainRev, plain?]; rw [ih (i - 1) acc h h0]; simp
    | oper a => simp only [collectBackRefs, plainRev, plain?]; rw [ih (i - 1) acc h h0]; simp

theorem collect_lastN (n : Nat) (ds : List DDesc) (i : Nat) (acc : List (Nat × Elem)) (h : acc.length < n) :
    collectBackRefs n ds i acc = lastN (n - acc.length) (plainRev i ds) ++ acc := by
  induction ds generalizing i acc with
  | nil => simp [collectBackRefs, plainRev, lastN]
  | cons d ds ih =>
    cases d with
    | plain e =>
      simp only [collectBackRefs, plainRev, plain?, Option.map_some, Option.toList_some]
      by_cases hn : ((i - 1, e) :: acc).length = n
      · rw [if_pos hn]
        simp only [List.length_cons] at hn
        have : n - acc.length = 1 := by omega
        rw [this, lastN_one_snoc]; rfl
      · rw [if_neg hn]
        simp only [List.length_cons] at hn
        rw [ih (i - 1) _ (by simp only [List.length_cons]; omega)]
        rw [lastN_snoc _ _ _ (by omega)]
        simp only [List.length_cons, List.append_assoc, List.singleton_append]
        have : n - (acc.length + 1) = n - acc.length - 1 := by omega
        rw [this]
    | assoc a b => simp only [collectBackRefs, plainRev, plain?]; rw [ih (i - 1) acc h]; simp
    | skipped a b => simp only [collectBackRefs, plainRev, plain?]; rw [ih (i - 1) acc h]; simp
    | marker a b => simp only [collectBackRefs, plainRev, plain?]; rw [ih (i - 1) acc h]; simp
    | oper a => simp only [collectBackRefs, plainRev, plain?]; rw [ih (i - 1) acc h]; simp

/-! ### zero-bit selection -/

/-- the entries of `br` whose bit is 0, in order -/
def zeroSel {α : Type} (bm : List Val) (br : List α) : List α :=
  ((bm.zip br).filter (fun p => p.1 == Val.int 0)).map (·.2)

theorem zeroSel_cons_zero {α : Type} (bm : List Val) (x : α) (br : List α) :
    zeroSel (Val.int 0 :: bm) (x :: br) = x :: zeroSel bm br := by
  simp [zeroSel]

theorem zeroSel_cons_other {α : Type} (b : Val) (bm : List Val) (x : α) (br : List α) (h : b ≠ Val.int 0) :
    zeroSel (b :: bm) (x :: br) = zeroSel bm br := by
  simp [zeroSel, h]

theorem zeroSel_sublist {α : Type} (bm : List Val) (br : List α) : (zeroSel bm br).Sublist br := by
  induction bm generalizing br with
  | nil => simp [zeroSel]
  | cons b bm ih =>
    cases br with
    | nil => simp [zeroSel]
    | cons x br =>
      by_cases hb : b = Val.int 0
      · subst hb; rw [zeroSel_cons_zero]; exact (ih br).cons_cons x
      · rw [zeroSel_cons_other _ _ _ _ hb]; exact (ih br).cons x

theorem mem_zeroSel {α : Type} (bm : List Val) (br : List α) (x : α) :
    x ∈ zeroSel bm br ↔ ∃ i : Nat, bm[i]? = some (Val.int 0) ∧ br[i]? = some x := by
  induction bm generalizing br with
  | nil => simp [zeroSel]
  | cons b bm ih =>
    cases br with
    | nil => simp [zeroSel]
    | cons y br =>
      by_cases hb : b = Val.int 0
      · subst hb
        rw [zeroSel_cons_zero, List.mem_cons, ih br]
        constructor
        · rintro (rfl | ⟨i, h1, h2⟩)
          · exact ⟨0, by simp, by simp⟩
          · exact ⟨i + 1, by simpa using h1, by simpa using h2⟩
        · rintro ⟨i, h1, h2⟩
          cases i with
          | zero => left; simp at h2; exact h2.symm
          | succ i => right; exact ⟨i, by simpa using h1, by simpa using h2⟩
      · rw [zeroSel_cons_other _ _ _ _ hb, ih br]
        constructor
        · rintro ⟨i, h1, h2⟩
          exact ⟨i + 1, by simpa using h1, by simpa using h2⟩
        · rintro ⟨i, h1, h2⟩
          cases i with
          | zero => simp at h1; exact absurd h1 hb
          | succ i => exact ⟨i, by simpa using h1, by simpa using h2⟩

/-- as many selected entries as zero bits (lengths equal) -/
theorem zeroSel_length {α : Type} (bm : List Val) (br : List α) (h : br.length = bm.length) :
    (zeroSel bm br).length = bm.count (Val.int 0) := by
  induction bm generalizing br with
  | nil => simp [zeroSel]
  | cons b bm ih =>
    cases br with
    | nil => simp at h
    | cons y br =>
      simp only [List.length_cons, Nat.add_right_cancel_iff] at h
      by_cases hb : b = Val.int 0
      · subst hb; rw [zeroSel_cons_zero]; simp [ih br h]
      · rw [zeroSel_cons_other _ _ _ _ hb, ih br h, List.count_cons_of_ne (by intro hh; exact hb hh)]

end Bufr.C07

namespace Bufr.C07

/-! ### quiet primitives -/

/-- what a primitive must leave alone -/
def Same (s s' : St) (dd : DDesc) : Prop :=
  s'.descs = dd :: s.descs ∧ s'.links = s.links ∧ s'.regs = s.regs

/-- Every value primitive records exactly one item (with the label it was given) and changes
    neither the link list nor any register. -/
structure Quiet (P : Prims) : Prop where
  numeric : ∀ dd n sc r s s', P.numeric dd n sc r s = .ok s' → Same s s' dd
  string : ∀ dd n s s', P.string dd n s = .ok s' → Same s s' dd
  codeflag : ∀ dd n s s', P.codeflag dd n s = .ok s' → Same s s' dd
  constant : ∀ dd v s s', P.constant dd v s = .ok s' → Same s s' dd

theorem read_same {α : Type} (s : St) (r : R α) (a : α) (s' : St) (h : s.read r = .ok (a, s')) :
    s'.descs = s.descs ∧ s'.links = s.links ∧ s'.regs = s.regs ∧ s'.vals = s.vals := by
  unfold St.read at h
  split at h
  · cases h
  · injection h with h; injection h with h1 h2; subst h2; exact ⟨rfl, rfl, rfl, rfl⟩

theorem decNumericU_same (dd n sc r s s') (h : decNumericU dd n sc r s = .ok s') : Same s s' dd := by
  unfold decNumericU at h
  cases hw : natWidth n with
  | error e => simp [hw, bind, Except.bind] at h
  | ok w =>
    simp only [hw, bind, Except.bind] at h
    split at h
    · cases h
    · next x hx =>
      obtain ⟨a, s1⟩ := x
      have := read_same _ _ _ _ hx
      simp only [pure, Except.pure] at h
      injection h with h; subst h
      exact ⟨this.1, this.2.1, this.2.2.1⟩

theorem decStringU_same (dd n s s') (h : decStringU dd n s = .ok s') : Same s s' dd := by
  unfold decStringU at h
  simp only [bind, Except.bind] at h
  split at h
  · cases h
  · next x hx =>
    obtain ⟨a, s1⟩ := x
    have := read_same _ _ _ _ hx
    simp only [pure, Except.pure] at h
    injection h with h; subst h
    exact ⟨this.1, this.2.1, this.2.2.1⟩

theorem decCodeflagU_same (dd n s s') (h : decCodeflagU dd n s = .ok s') : Same s s' dd := by
  unfold decCodeflagU at h
  simp only [bind, Except.bind] at h
  split at h
  · cases h
  · next x hx =>
    obtain ⟨a, s1⟩ := x
    have := read_same _ _ _ _ hx
    simp only [pure, Except.pure] at h
    injection h with h; subst h
    exact ⟨this.1, this.2.1, this.2.2.1⟩

theorem decConstant_same (dd v s s') (h : decConstant dd v s = .ok s') : Same s s' dd := by
  unfold decConstant at h
  injection h with h; subst h
  exact ⟨rfl, rfl, rfl⟩

theorem decPrimsU_quiet : Quiet decPrimsU :=
  ⟨decNumericU_same, decStringU_same, decCodeflagU_same, decConstant_same⟩

theorem decNumericC_same (dd n sc r s s') (h : decNumericC dd n sc r s = .ok s') : Same s s' dd := by
  unfold decNumericC at h
  cases hw : natWidth n with
  | error e => simp [hw, bind, Except.bind] at h
  | ok w =>
    simp only [hw, bind, Except.bind] at h
    split at h
    · cases h
    · next x hx =>
      obtain ⟨a, s1⟩ := x
      have := read_same _ _ _ _ hx
      simp only [pure, Except.pure] at h
      injection h with h; subst h
      exact ⟨this.1, this.2.1, this.2.2.1⟩

theorem decStringC_same (dd n s s') (h : decStringC dd n s = .ok s') : Same s s' dd := by
  unfold decStringC at h
  simp only [bind, Except.bind] at h
  split at h
  · cases h
  · next x hx =>
    obtain ⟨a, s1⟩ := x
    have := read_same _ _ _ _ hx
    simp only [pure, Except.pure] at h
    injection h with h; subst h
    exact ⟨this.1, this.2.1, this.2.2.1⟩

theorem decCodeflagC_same (dd n s s') (h : decCodeflagC dd n s = .ok s') : Same s s' dd := by
  unfold decCodeflagC at h
  simp only [bind, Except.bind] at h
  split at h
  · cases h
  · next x hx =>
    obtain ⟨a, s1⟩ := x
    have := read_same _ _ _ _ hx
    simp only [pure, Except.pure] at h
    injection h with h; subst h
    exact ⟨this.1, this.2.1, this.2.2.1⟩

theorem decPrimsC_quiet : Quiet decPrimsC :=
  ⟨decNumericC_same, decStringC_same, decCodeflagC_same, decConstant_same⟩

end Bufr.C07

namespace Bufr.C07

/-! ### `elementDescriptor` in three stages -/

/-- stage 1: the associated field -/
def stAssoc (P : Prims) (e : Elem) (s : St) : CM St :=
  if s.regs.assocStack ≠ [] ∧ xOf e.id ≠ 31 then associatedField P e.id s else pure s

/-- stage 2: quality information (class 33 after 222000) -/
def stQa (e : Elem) (s : St) : CM St :=
  if xOf e.id = 33 then
    let s1 := if s.regs.qa = .waiting then s.setRegs fun r => { r with qa := .processing } else s
    if s1.regs.qa = .processing then do
      let ((owner, _), s2) ← nextBitmapped s1
      pure (addLink s2 owner)
    else pure s1
  else
    pure (if s.regs.qa = .processing then s.setRegs fun r => { r with qa := .na } else s)

/-- stage 3: the value itself -/
def stValue (P : Prims) (dd : DDesc) (e : Elem) (s : St) : CM St :=
  match e.kind with
  | .string =>
    let nbytes := if s.regs.newNbytes ≠ 0 then s.regs.newNbytes else e.nbits / 8
    P.string dd nbytes s
  | .codeflag => P.codeflag dd e.nbits s
  | .numeric =>
    let nbits : Int := (e.nbits : Int) + s.regs.nbitsOffset + s.regs.nbitsInc
    let scale : Int := e.scale + s.regs.scaleOffset + s.regs.scaleInc
    match lookupRef s.regs.newRefvals e.id with
    | none => P.numeric dd nbits scale (e.ref * s.regs.refFactor) s
    | some nr => P.numeric dd nbits scale (nr * s.regs.refFactor) s

theorem elementDescriptor_eq (P : Prims) (dd : DDesc) (e : Elem) (s : St) :
    elementDescriptor P dd e s = (stAssoc P e s >>= fun s => stQa e s >>= fun s => stValue P dd e s) := rfl

theorem stAssoc_ok {P : Prims} (hP : Quiet P) {e : Elem} {s s1 : St} (h : stAssoc P e s = .ok s1) :
    ((s.regs.assocStack ≠ [] ∧ xOf e.id ≠ 31) ∧ Same s s1 (.assoc e.id s.regs.assocStack.sum)) ∨
    (¬ (s.regs.assocStack ≠ [] ∧ xOf e.id ≠ 31) ∧ s1 = s) := by
  unfold stAssoc at h
  split at h
  · next hc => left; exact ⟨hc, hP.codeflag _ _ _ _ h⟩
  · next hc => right; injection h with h; exact ⟨hc, h.symm⟩

theorem stValue_ok {P : Prims} (hP : Quiet P) {dd : DDesc} {e : Elem} {s s3 : St} (h : stValue P dd e s = .ok s3) :
    Same s s3 dd := by
  unfold stValue at h
  split at h
  · exact hP.string _ _ _ _ h
  · exact hP.codeflag _ _ _ _ h
  · split at h
    · exact hP.numeric _ _ _ _ _ _ h
    · exact hP.numeric _ _ _ _ _ _ h

/-- does this element take the next entry of the bit-map selection -/
def takesBit (e : Elem) (s : St) : Prop := xOf e.id = 33 ∧ s.regs.qa ≠ .na

instance (e : Elem) (s : St) : Decidable (takesBit e s) := by unfold takesBit; infer_instance

theorem stQa_ok {e : Elem} {s s2 : St} (h : stQa e s = .ok s2) :
    s2.descs = s.descs ∧ s2.regs.assocStack = s.regs.assocStack ∧
    ((takesBit e s ∧ ∃ owner el rest, s.regs.bmIter = some ((owner, el) :: rest) ∧
        s2.links = (s.descs.length, owner) :: s.links ∧ s2.regs.bmIter = some rest ∧ s2.regs.qa = .processing) ∨
     (¬ takesBit e s ∧ s2.links = s.links ∧ s2.regs.bmIter = s.regs.bmIter)) := by
  unfold stQa at h
  by_cases hx : xOf e.id = 33
  · rw [if_pos hx] at h
    cases hq : s.regs.qa with
    | na =>
      simp only [hq, reduceCtorEq, if_false] at h
      simp only [hq, reduceCtorEq, if_false, pure, Except.pure] at h
      injection h with h; subst h
      exact ⟨rfl, rfl, Or.inr ⟨by simp [takesBit, hq], rfl, rfl⟩⟩
    | waiting =>
      simp only [hq, St.setRegs, if_true, bind, Except.bind, nextBitmapped] at h
      cases hb : s.regs.bmIter with
      | none => simp [hb] at h
      | some l =>
        cases l with
        | nil => simp [hb] at h
        | cons x rest =>
          obtain ⟨owner, el⟩ := x
          simp only [hb, pure, Except.pure, St.setRegs, addLink] at h
          injection h with h; subst h
          exact ⟨rfl, rfl, Or.inl ⟨by simp [takesBit, hx, hq], owner, el, rest, rfl, rfl, rfl, rfl⟩⟩
    | processing =>
      simp only [hq, reduceCtorEq, if_false] at h
      simp only [hq, if_true, St.setRegs, bind, Except.bind, nextBitmapped] at h
      cases hb : s.regs.bmIter with
      | none => simp [hb] at h
      | some l =>
        cases l with
        | nil => simp [hb] at h
        | cons x rest =>
          obtain ⟨owner, el⟩ := x
          simp only [hb, pure, Except.pure, St.setRegs, addLink] at h
          injection h with h; subst h
          exact ⟨rfl, rfl, Or.inl ⟨by simp [takesBit, hx, hq], owner, el, rest, rfl, rfl, rfl, rfl⟩⟩
  · rw [if_neg hx] at h
    simp only [pure, Except.pure] at h
    injection h with h; subst h
    by_cases hq : s.regs.qa = .processing
    · simp only [hq, if_true, St.setRegs]
      refine ⟨?_, ?_, Or.inr ⟨by simp [takesBit, hx], ?_, ?_⟩⟩ <;> trivial
    · simp only [hq, if_false]
      refine ⟨?_, ?_, Or.inr ⟨by simp [takesBit, hx], ?_, ?_⟩⟩ <;> trivial

end Bufr.C07
