/-
  C07: `Core` through the whole walk of a template that satisfies `Spec.WFlinks` (`presG_walkL`), and what
  it says at the end (`walk_links_eq_spec`): the links recorded are `Spec.links` of the items recorded, with
  the cancel times of the run.
-/
import BufrModel.Lemmas.LinkSpecWalkD
namespace Bufr.C07
open Bufr.Spec

/-- `Core` at the three places of a member list -/
def CorePh (V : St → List Val) : WPh → St → List Nat → Prop
  | .idle, s, cs => Core V s cs ∧ s.regs.bitmapDef ≠ .indicator
  | .afterOp, s, cs => Core V s cs ∧ s.regs.bitmapDef = .indicator
  | .after236, s, cs => Core V s cs ∧ s.regs.bitmapDef = .waiting ∧ ∀ c ∈ cs, c ≤ s.regs.backBoundary

/-- behind the prelude of a member outside a bit-map definition -/
def CoreD (V : St → List Val) (s : St) (cs : List Nat) : Prop := Core V s cs ∧ Settled s

theorem CorePh.core {V : St → List Val} {ph : WPh} {s : St} {cs : List Nat} (h : CorePh V ph s cs) : Core V s cs := by
  cases ph <;> exact h.1

theorem CorePh.len {V : St → List Val} (ph : WPh) (s : St) (cs : List Nat) (h : CorePh V ph s cs) :
    (V s).length = s.descs.length := h.core.len

theorem CoreD.idle {V : St → List Val} (s : St) (cs : List Nat) (h : CoreD V s cs) : CorePh V .idle s cs :=
  ⟨h.1, h.2.not_indicator⟩

section members
variable {P : Prims} {V : St → List Val} (hR : Rec P V)
include hR

/-- a member outside a bit-map definition that is not a bit-map operator: prelude, then dispatch -/
theorem presG_walk1_idle (d : Desc) (hid : d.id ≠ 31031)
    (hd : PresG V (CoreD V) (CorePh V .idle) (dispatch P d) (cancelsD P d)) :
    PresG V (CorePh V .idle) (CorePh V .idle) (walk1 P d) (cancels1 P d) := by
  intro s s' cs h hok hi
  obtain ⟨hc, hni⟩ := hi
  have hq := hc.quiet
  rw [walk1_quiet P d s hq.1 hq.2.1 hq.2.2] at h
  rw [cancels1_eq, entryOf_quiet P d s hq.1 hq.2.1 hq.2.2]
  cases h1 : bitmapDefinition P d.id s with
  | error err => rw [h1] at h; cases h
  | ok s1 =>
    rw [h1] at h
    simp only at h ⊢
    obtain ⟨c1, st1, _⟩ := hc.prelude hR hni d.id hid h1
    exact hd s1 s' cs h hok ⟨c1, st1⟩

/-- the bit-map operator -/
theorem presG_walk1_bitmapOp (id : Nat) (hid : isBitmapOpId id = true) :
    PresG V (CorePh V .idle) (CorePh V .afterOp) (walk1 P (.op id)) (cancels1 P (.op id)) := by
  intro s s' cs h hok hi
  obtain ⟨hc, hni⟩ := hi
  have hq := hc.quiet
  rw [walk1_quiet P _ s hq.1 hq.2.1 hq.2.2] at h
  rw [cancels1_eq, entryOf_quiet P _ s hq.1 hq.2.1 hq.2.2]
  have hne : (Desc.op id).id ≠ 31031 := by
    show id ≠ 31031
    rcases bitmapOp_cases id hid with rfl | rfl | rfl | rfl | rfl <;> decide
  have h235 : ¬ id / 1000 = 235 := by
    rcases bitmapOp_cases id hid with rfl | rfl | rfl | rfl | rfl <;> decide
  cases h1 : bitmapDefinition P (Desc.op id).id s with
  | error err => rw [h1] at h; cases h
  | ok s1 =>
    rw [h1] at h
    simp only [dispatch, cancelsD, if_neg h235, List.append_nil] at h ⊢
    obtain ⟨c1, st1, _⟩ := hc.prelude hR hni _ hne h1
    exact c1.bitmapOp hR st1 id hid h

/-- `237000` directly behind the operator -/
theorem presG_walk1_recall :
    PresG V (CorePh V .afterOp) (CorePh V .idle) (walk1 P (.op 237000)) (cancels1 P (.op 237000)) := by
  intro s s' cs h hok hi
  obtain ⟨hc, hind⟩ := hi
  have hq := hc.quiet
  rw [walk1_quiet P _ s hq.1 hq.2.1 hq.2.2] at h
  rw [cancels1_eq, entryOf_quiet P _ s hq.1 hq.2.1 hq.2.2]
  cases h1 : bitmapDefinition P (Desc.op 237000).id s with
  | error err => rw [h1] at h; cases h
  | ok s1 =>
    rw [h1] at h
    have e0 : (237000 : Nat) / 1000 = 235 ↔ False := by decide
    simp only [dispatch, cancelsD, e0, if_false, List.append_nil] at h ⊢
    obtain ⟨a, b⟩ := hc.recall hR hind h1 h
    exact ⟨a, by rw [b]; exact fun x => nomatch x⟩

/-- `236000` directly behind the operator -/
theorem presG_walk1_reuse :
    PresG V (CorePh V .afterOp) (CorePh V .after236) (walk1 P (.op 236000)) (cancels1 P (.op 236000)) := by
  intro s s' cs h hok hi
  obtain ⟨hc, hind⟩ := hi
  have hq := hc.quiet
  rw [walk1_quiet P _ s hq.1 hq.2.1 hq.2.2] at h
  rw [cancels1_eq, entryOf_quiet P _ s hq.1 hq.2.1 hq.2.2]
  cases h1 : bitmapDefinition P (Desc.op 236000).id s with
  | error err => rw [h1] at h; cases h
  | ok s1 =>
    rw [h1] at h
    have e0 : (236000 : Nat) / 1000 = 235 ↔ False := by decide
    simp only [dispatch, cancelsD, e0, if_false, List.append_nil] at h ⊢
    exact hc.reuse hR hind h1 h

/-- the replication of 031031 -/
theorem presG_walk1_bitrep (d : Desc) (hd : isBitRep d = true) (ph : WPh) (hph : ph = .afterOp ∨ ph = .after236) :
    PresG V (CorePh V ph) (CorePh V .idle) (walk1 P d) (cancels1 P d) := by
  intro s s' cs h hok hi
  have hc := hi.core
  have hp : s.regs.bitmapDef = .indicator ∨ (s.regs.bitmapDef = .waiting ∧ ∀ c ∈ cs, c ≤ s.regs.backBoundary) := by
    rcases hph with rfl | rfl
    · exact Or.inl hi.2
    · exact Or.inr hi.2
  obtain ⟨a, b, c⟩ := hc.bitrep hR hp d hd h
  rw [c, List.append_nil]
  exact ⟨a, b⟩

end members

end Bufr.C07
