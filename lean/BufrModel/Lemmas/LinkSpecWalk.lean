/-
  C07: `Core` through the whole walk of a template that satisfies `Spec.WFlinks` (`presG_walkL`), and what
  it says at the end (`walk_links_eq_spec`): the links recorded are `Spec.links` of the items recorded, with
  the cancel times of the run.
-/
import BufrModel.Lemmas.LinkSpecWalkD
namespace Bufr.C07
open Bufr.Spec

/-- `Core` at the three places of a member list -/
def CorePh (V : St → List Val) : WPh → St → List Nat → Prop
  | .idle, s, cs => Core V s cs ∧ s.regs.bitmapDef ≠ .indicator
  | .afterOp, s, cs => Core V s cs ∧ s.regs.bitmapDef = .indicator
  | .after236, s, cs => Core V s cs ∧ s.regs.bitmapDef = .waiting ∧ ∀ c ∈ cs, c ≤ s.regs.backBoundary

/-- behind the prelude of a member outside a bit-map definition -/
def CoreD (V : St → List Val) (s : St) (cs : List Nat) : Prop := Core V s cs ∧ Settled s

theorem CorePh.core {V : St → List Val} {ph : WPh} {s : St} {cs : List Nat} (h : CorePh V ph s cs) : Core V s cs := by
  cases ph <;> exact h.1

theorem CorePh.len {V : St → List Val} (ph : WPh) (s : St) (cs : List Nat) (h : CorePh V ph s cs) :
    (V s).length = s.descs.length := h.core.len

theorem CoreD.idle {V : St → List Val} (s : St) (cs : List Nat) (h : CoreD V s cs) : CorePh V .idle s cs :=
  ⟨h.1, h.2.not_indicator⟩

/-- ... together with the invariant of the primitives -/
def CorePhX (V : St → List Val) (X : St → Prop) (ph : WPh) (s : St) (cs : List Nat) : Prop := CorePh V ph s cs ∧ X s
def CoreDX (V : St → List Val) (X : St → Prop) (s : St) (cs : List Nat) : Prop := CoreD V s cs ∧ X s

theorem CorePhX.len {V : St → List Val} {X : St → Prop} (ph : WPh) (s : St) (cs : List Nat) (h : CorePhX V X ph s cs) :
    (V s).length = s.descs.length := h.1.core.len

theorem CoreDX.idle {V : St → List Val} {X : St → Prop} (s : St) (cs : List Nat) (h : CoreDX V X s cs) :
    CorePhX V X .idle s cs := ⟨CoreD.idle s cs h.1, h.2⟩

theorem grows_walk1 {P : Prims} {V : St → List Val} {X : St → Prop} (hR : Rec P V X) (d : Desc) : Grows V X (walk1 P d) :=
  Grows.of_pres (fun s0 => growG_walk1_of hR s0 d (growG_dispatch hR s0 d))

theorem grows_dispatch {P : Prims} {V : St → List Val} {X : St → Prop} (hR : Rec P V X) (d : Desc) :
    Grows V X (dispatch P d) :=
  Grows.of_pres (fun s0 => growG_dispatch hR s0 d)

section members
variable {P : Prims} {V : St → List Val} {X : St → Prop} (hR : Rec P V X)
include hR

/-- a member outside a bit-map definition that is not a bit-map operator: prelude, then dispatch -/
theorem presG_walk1_idle (d : Desc) (hid : d.id ≠ 31031)
    (hd : PresG V (CoreDX V X) (CorePhX V X .idle) (dispatch P d) (cancelsD P d)) :
    PresG V (CorePhX V X .idle) (CorePhX V X .idle) (walk1 P d) (cancels1 P d) := by
  intro s s' cs h hok hi
  obtain ⟨⟨hc, hni⟩, hx⟩ := hi
  have hq := hc.quiet
  rw [walk1_quiet P d s hq.1 hq.2.1 hq.2.2] at h
  rw [cancels1_eq, entryOf_quiet P d s hq.1 hq.2.1 hq.2.2]
  cases h1 : bitmapDefinition P d.id s with
  | error err => rw [h1] at h; cases h
  | ok s1 =>
    rw [h1] at h
    simp only at h ⊢
    obtain ⟨c1, st1, _⟩ := hc.prelude hR hni d.id hid h1 hx
    have hx1 : X s1 := (growG_bitmapDefinition hR s d.id s s1 h1 (G.refl V X s hc.len)).2.2.2 hx
    exact hd s1 s' cs h hok ⟨⟨c1, st1⟩, hx1⟩

/-- the bit-map operator -/
theorem presG_walk1_bitmapOp (id : Nat) (hid : isBitmapOpId id = true) :
    PresG V (CorePhX V X .idle) (CorePhX V X .afterOp) (walk1 P (.op id)) (cancels1 P (.op id)) := by
  intro s s' cs h hok hi
  obtain ⟨⟨hc, hni⟩, hx⟩ := hi
  have hx' : X s' := (grows_walk1 hR _ s s' hc.len h).2.2.2 hx
  refine ⟨?_, hx'⟩
  have hq := hc.quiet
  rw [walk1_quiet P _ s hq.1 hq.2.1 hq.2.2] at h
  rw [cancels1_eq, entryOf_quiet P _ s hq.1 hq.2.1 hq.2.2]
  have hne : (Desc.op id).id ≠ 31031 := by
    show id ≠ 31031
    rcases bitmapOp_cases id hid with rfl | rfl | rfl | rfl | rfl <;> decide
  have h235 : ¬ id / 1000 = 235 := by
    rcases bitmapOp_cases id hid with rfl | rfl | rfl | rfl | rfl <;> decide
  cases h1 : bitmapDefinition P (Desc.op id).id s with
  | error err => rw [h1] at h; cases h
  | ok s1 =>
    rw [h1] at h
    simp only [dispatch, cancelsD, if_neg h235, List.append_nil] at h ⊢
    obtain ⟨c1, st1, _⟩ := hc.prelude hR hni _ hne h1 hx
    exact c1.bitmapOp hR st1 id hid h

/-- `237000` directly behind the operator -/
theorem presG_walk1_recall :
    PresG V (CorePh V .afterOp) (CorePh V .idle) (walk1 P (.op 237000)) (cancels1 P (.op 237000)) := by
  intro s s' cs h hok hi
  obtain ⟨hc, hind⟩ := hi
  have hq := hc.quiet
  rw [walk1_quiet P _ s hq.1 hq.2.1 hq.2.2] at h
  rw [cancels1_eq, entryOf_quiet P _ s hq.1 hq.2.1 hq.2.2]
  cases h1 : bitmapDefinition P (Desc.op 237000).id s with
  | error err => rw [h1] at h; cases h
  | ok s1 =>
    rw [h1] at h
    have e0 : (237000 : Nat) / 1000 = 235 ↔ False := by decide
    simp only [dispatch, cancelsD, e0, if_false, List.append_nil] at h ⊢
    obtain ⟨a, b⟩ := hc.recall hR hind h1 h
    exact ⟨a, by rw [b]; exact fun x => nomatch x⟩

/-- `236000` directly behind the operator -/
theorem presG_walk1_reuse :
    PresG V (CorePh V .afterOp) (CorePh V .after236) (walk1 P (.op 236000)) (cancels1 P (.op 236000)) := by
  intro s s' cs h hok hi
  obtain ⟨hc, hind⟩ := hi
  have hq := hc.quiet
  rw [walk1_quiet P _ s hq.1 hq.2.1 hq.2.2] at h
  rw [cancels1_eq, entryOf_quiet P _ s hq.1 hq.2.1 hq.2.2]
  cases h1 : bitmapDefinition P (Desc.op 236000).id s with
  | error err => rw [h1] at h; cases h
  | ok s1 =>
    rw [h1] at h
    have e0 : (236000 : Nat) / 1000 = 235 ↔ False := by decide
    simp only [dispatch, cancelsD, e0, if_false, List.append_nil] at h ⊢
    exact hc.reuse hR hind h1 h

/-- the replication of 031031 -/
theorem presG_walk1_bitrep (d : Desc) (hd : isBitRep d = true) (ph : WPh) (hph : ph = .afterOp ∨ ph = .after236) :
    PresG V (CorePh V ph) (CorePh V .idle) (walk1 P d) (cancels1 P d) := by
  intro s s' cs h hok hi
  have hc := hi.core
  have hp : s.regs.bitmapDef = .indicator ∨ (s.regs.bitmapDef = .waiting ∧ ∀ c ∈ cs, c ≤ s.regs.backBoundary) := by
    rcases hph with rfl | rfl
    · exact Or.inl hi.2
    · exact Or.inr hi.2
  obtain ⟨a, b, c⟩ := hc.bitrep hR hp d hd h
  rw [c, List.append_nil]
  exact ⟨a, b⟩

end members

/-! ### the dispatch on a member outside a bit-map definition -/

section dispatch
variable {P : Prims} {V : St → List Val} {X : St → Prop} (hR : Rec P V X)
include hR

theorem presG_disp_elem (e : Elem) (he : e.id ≠ 31031) :
    PresG V (CoreD V) (CorePh V .idle) (dispatch P (.elem e)) (cancelsD P (.elem e)) := by
  intro s s' cs h _ hi
  simp only [dispatch, cancelsD, List.append_nil] at h ⊢
  obtain ⟨a, b, _, _⟩ := hi.1.element hR hi.2 e he h
  refine ⟨a, ?_⟩
  rw [b]; exact hi.2.not_indicator

theorem presG_disp_op (id : Nat) (h1 : okIdleOp id = true) (h2 : isBitmapOpId id = false) :
    PresG V (CoreD V) (CorePh V .idle) (dispatch P (.op id)) (cancelsD P (.op id)) := by
  intro s s' cs h hok hi
  simp only [dispatch, cancelsD] at h ⊢
  obtain ⟨a, b⟩ := hi.1.operator hR hi.2 id h1 h2 h hok
  exact ⟨a, b.not_indicator⟩

theorem presG_disp_iter (ms : List Desc) (n : Nat)
    (ih : PresG V (CorePhX V X .idle) (CorePhX V X .idle) (walkList P ms) (cancelsL P ms)) :
    PresG V (CoreDX V X) (CorePhX V X .idle) (iterN n (walkList P ms)) (ghostIter (walkList P ms) (cancelsL P ms) n) :=
  (PresG.iterN ih (CorePhX.len .idle) (fun s0 => growG_walkList hR s0 ms) n).weaken CoreDX.idle (fun _ _ h => h)

theorem presG_disp_delayed (id : Nat) (fe : Elem) (ms : List Desc) (hfe : fe.id ≠ 31031)
    (ih : PresG V (CorePhX V X .idle) (CorePhX V X .idle) (walkList P ms) (cancelsL P ms)) :
    PresG V (CoreDX V X) (CorePhX V X .idle) (dispatch P (.delayedRep id (.elem fe) ms))
      (cancelsD P (.delayedRep id (.elem fe) ms)) := by
  intro s s' cs h hok hi
  simp only [dispatch, cancelsD] at h ⊢
  cases h2 : elementDescriptor P (.plain fe) fe s with
  | error err => rw [h2] at h; cases h
  | ok s1 =>
    rw [h2] at h
    simp only at h ⊢
    obtain ⟨a, b, _, _⟩ := hi.1.1.element hR hi.1.2 fe hfe h2
    have hx1 : X s1 := (growG_elementDescriptor hR s _ _ s s1 h2 (G.refl V X s hi.1.1.len)).2.2.2 hi.2
    have hd1 : CoreDX V X s1 cs := ⟨⟨a, by unfold Settled; rw [b]; exact hi.1.2⟩, hx1⟩
    cases h3 : P.factorValue s1 >>= factorCount with
    | error err => rw [h3] at h; cases h
    | ok n =>
      rw [h3] at h
      simp only at h ⊢
      exact presG_disp_iter hR ms n ih s1 s' cs h hok hd1

end dispatch

/-! ### the whole walk -/

theorem walkList_cons_kl (P : Prims) (d : Desc) (ds : List Desc) (s : St) :
    walkList P (d :: ds) s = Bufr.kl (walk1 P d) (walkList P ds) s := by
  rw [walkList]; rfl

/-- a member followed by the rest of its list -/
theorem presG_cons {P : Prims} {V : St → List Val} {X : St → Prop} (hR : Rec P V X) (d : Desc) (ds : List Desc)
    (ph ph' : WPh)
    (h1 : PresG V (CorePhX V X ph) (CorePhX V X ph') (walk1 P d) (cancels1 P d))
    (h2 : PresG V (CorePhX V X ph') (CorePhX V X .idle) (walkList P ds) (cancelsL P ds)) :
    PresG V (CorePhX V X ph) (CorePhX V X .idle) (walkList P (d :: ds)) (cancelsL P (d :: ds)) :=
  (PresG.kl h1 h2 (CorePhX.len ph) (grows_walk1 hR d) (grows_walkList hR ds)).congr
    (walkList_cons_kl P d ds) (cancelsL_cons P d ds)

/-! ### `wfL`, unfolded -/

theorem wfL_idle_cons (d : Desc) (ds : List Desc) (h : wfL .idle (d :: ds) = true) :
    (∃ id, d = .op id ∧ isBitmapOpId id = true ∧ wfL .afterOp ds = true) ∨
    ((∀ id, d = .op id → isBitmapOpId id = false) ∧ wfD d = true ∧ wfL .idle ds = true) := by
  cases d with
  | op id =>
    simp only [wfL] at h
    by_cases hid : isBitmapOpId id = true
    · rw [if_pos hid] at h; exact Or.inl ⟨id, rfl, hid, h⟩
    · rw [if_neg hid] at h
      simp only [Bool.and_eq_true] at h
      refine Or.inr ⟨?_, h.1, h.2⟩
      intro id' e; injection e with e; subst e; simpa using hid
  | elem e => simp only [wfL, Bool.and_eq_true] at h; exact Or.inr ⟨(fun _ e => nomatch e), h.1, h.2⟩
  | undefElem i => simp only [wfL, Bool.and_eq_true] at h; exact Or.inr ⟨(fun _ e => nomatch e), h.1, h.2⟩
  | undefSeq i => simp only [wfL, Bool.and_eq_true] at h; exact Or.inr ⟨(fun _ e => nomatch e), h.1, h.2⟩
  | fixedRep i ms => simp only [wfL, Bool.and_eq_true] at h; exact Or.inr ⟨(fun _ e => nomatch e), h.1, h.2⟩
  | delayedRep i f ms => simp only [wfL, Bool.and_eq_true] at h; exact Or.inr ⟨(fun _ e => nomatch e), h.1, h.2⟩
  | seq i ms => simp only [wfL, Bool.and_eq_true] at h; exact Or.inr ⟨(fun _ e => nomatch e), h.1, h.2⟩

theorem wfL_afterOp_cons (d : Desc) (ds : List Desc) (h : wfL .afterOp (d :: ds) = true) :
    (d = .op 237000 ∧ wfL .idle ds = true) ∨ (d = .op 236000 ∧ wfL .after236 ds = true) ∨
    (isBitRep d = true ∧ wfL .idle ds = true) := by
  cases d with
  | op id =>
    simp only [wfL] at h
    by_cases h7 : id = 237000
    · subst h7; exact Or.inl ⟨rfl, by simpa using h⟩
    · rw [if_neg h7] at h
      by_cases h6 : id = 236000
      · subst h6; exact Or.inr (Or.inl ⟨rfl, by simpa using h⟩)
      · rw [if_neg h6] at h; cases h
  | elem e => simp only [wfL, Bool.and_eq_true] at h; exact Or.inr (Or.inr h)
  | undefElem i => simp only [wfL, Bool.and_eq_true] at h; exact Or.inr (Or.inr h)
  | undefSeq i => simp only [wfL, Bool.and_eq_true] at h; exact Or.inr (Or.inr h)
  | fixedRep i ms => simp only [wfL, Bool.and_eq_true] at h; exact Or.inr (Or.inr h)
  | delayedRep i f ms => simp only [wfL, Bool.and_eq_true] at h; exact Or.inr (Or.inr h)
  | seq i ms => simp only [wfL, Bool.and_eq_true] at h; exact Or.inr (Or.inr h)

theorem wfL_after236_cons (d : Desc) (ds : List Desc) (h : wfL .after236 (d :: ds) = true) :
    isBitRep d = true ∧ wfL .idle ds = true := by
  simp only [wfL, Bool.and_eq_true] at h; exact h

theorem wfL_nil (ph : WPh) (h : wfL ph [] = true) : ph = .idle := by
  simp only [wfL] at h; simpa using h

theorem wfD_id (d : Desc) (h : wfD d = true) : d.id ≠ 31031 := by
  cases d with
  | elem e => simp only [wfD] at h; simpa [Desc.id] using h
  | op id => simp only [wfD, okIdleOp, Bool.and_eq_true, bne_iff_ne, ne_eq] at h; exact h.1.1.2
  | fixedRep id ms => simp only [wfD, Bool.and_eq_true, bne_iff_ne, ne_eq] at h; exact h.1
  | delayedRep id f ms => simp only [wfD, Bool.and_eq_true, bne_iff_ne, ne_eq] at h; exact h.1.1
  | seq id ms => simp only [wfD, Bool.and_eq_true, bne_iff_ne, ne_eq] at h; exact h.1
  | undefElem id => simp only [wfD] at h; cases h
  | undefSeq id => simp only [wfD] at h; cases h

mutual
/-- the walk of a member list that is well-formed from the phase `ph` -/
theorem presG_walkL {P : Prims} {V : St → List Val} {X : St → Prop} (hR : Rec P V X) :
    (t : List Desc) → (ph : WPh) → wfL ph t = true →
      PresG V (CorePhX V X ph) (CorePhX V X .idle) (walkList P t) (cancelsL P t)
  | [], ph, h => by
    intro s s' cs hw _ hi
    rw [walkList] at hw
    cases hw
    rw [cancelsL_nil, List.append_nil]
    have := wfL_nil ph h
    subst this
    exact hi
  | d :: ds, ph, h => by
    have hD := presG_disp hR d
    have hL := presG_walkL hR ds
    have wx : ∀ ph ph', PresG V (CorePh V ph) (CorePh V ph') (walk1 P d) (cancels1 P d) →
        PresG V (CorePhX V X ph) (CorePhX V X ph') (walk1 P d) (cancels1 P d) :=
      fun ph ph' hh => hh.withX (CorePh.len ph) (grows_walk1 hR d)
    cases ph with
    | idle =>
      rcases wfL_idle_cons d ds h with ⟨id, rfl, hid, hw⟩ | ⟨_, hw1, hw2⟩
      · exact presG_cons hR _ ds .idle .afterOp (presG_walk1_bitmapOp hR id hid) (hL .afterOp hw)
      · exact presG_cons hR d ds .idle .idle (presG_walk1_idle hR d (wfD_id d hw1) (hD hw1)) (hL .idle hw2)
    | afterOp =>
      rcases wfL_afterOp_cons d ds h with ⟨rfl, hw⟩ | ⟨rfl, hw⟩ | ⟨hb, hw⟩
      · exact presG_cons hR _ ds .afterOp .idle (wx _ _ (presG_walk1_recall hR)) (hL .idle hw)
      · exact presG_cons hR _ ds .afterOp .after236 (wx _ _ (presG_walk1_reuse hR)) (hL .after236 hw)
      · exact presG_cons hR d ds .afterOp .idle (wx _ _ (presG_walk1_bitrep hR d hb .afterOp (Or.inl rfl))) (hL .idle hw)
    | after236 =>
      obtain ⟨hb, hw⟩ := wfL_after236_cons d ds h
      exact presG_cons hR d ds .after236 .idle (wx _ _ (presG_walk1_bitrep hR d hb .after236 (Or.inr rfl))) (hL .idle hw)

/-- the dispatch on a member outside a bit-map definition -/
theorem presG_disp {P : Prims} {V : St → List Val} {X : St → Prop} (hR : Rec P V X) :
    (d : Desc) → wfD d = true → PresG V (CoreDX V X) (CorePhX V X .idle) (dispatch P d) (cancelsD P d)
  | .elem e, h => by
    simp only [wfD] at h
    exact (presG_disp_elem hR e (by simpa using h)).withX (fun _ _ hh => hh.1.len) (grows_dispatch hR _)
  | .op id, h => by
    simp only [wfD, Bool.and_eq_true, Bool.not_eq_true'] at h
    exact (presG_disp_op hR id h.1 h.2).withX (fun _ _ hh => hh.1.len) (grows_dispatch hR _)
  | .fixedRep id ms, h => by
    simp only [wfD, Bool.and_eq_true] at h
    have ih := presG_walkL hR ms .idle h.2
    exact (presG_disp_iter hR ms (yOf id) ih).congr (fun s => rfl) (fun s => rfl)
  | .delayedRep id f ms, h => by
    have ih := presG_walkL hR ms .idle
    cases f with
    | elem fe =>
      simp only [wfD, Bool.and_eq_true, bne_iff_ne, ne_eq] at h
      exact presG_disp_delayed hR id fe ms h.1.2 (ih h.2)
    | _ => simp [wfD] at h
  | .seq id ms, h => by
    simp only [wfD, Bool.and_eq_true] at h
    have ih := presG_walkL hR ms .idle h.2
    exact (ih.weaken CoreDX.idle (fun _ _ x => x)).congr (fun s => rfl) (fun s => rfl)
  | .undefElem _, h => by simp [wfD] at h
  | .undefSeq _, h => by simp [wfD] at h
end

end Bufr.C07
