/-
  C09: the link between the coder and the wiring pass, for the templates in which the coder has no state that
  the wiring pass lacks (`quietList`): elements (class 33 included), Table D sequences, fixed and delayed
  replication, arbitrarily nested, and the operators 201, 202, 203 (definition of new reference values
  included), 205, 207, 208 and 221.  Excluded: 204 (findings F11a-d), 206, the bitmap operators 222-225 / 232 /
  235-237 (F15) and sequences that are in no table.  The class also asks the ids of replications to start with
  the digit 1 and those of sequences not to (every id built from F-X-Y does; the nested JSON converter tests it).

  For such a template every successful UNCOMPRESSED decode (any primitives that record exactly one descriptor
  and one value per call, `PushOne`; `decPrimsU` does) is followed step by step by the wiring pass run on the
  FINAL flat lists: both walks advance their index together (`WRel`), so the pass succeeds and has consumed
  exactly the decoded values when it ends.
-/
import BufrModel.Lemmas.Wire
import BufrModel.Lemmas.NestedJson
namespace Bufr.C09
open Bufr

/-- operators that both walks count alike and for which the wiring pass needs no state of its own -/
def quietOp (id : Nat) : Bool :=
  id / 1000 == 201 || id / 1000 == 202 || id / 1000 == 203 || id / 1000 == 205 || id / 1000 == 207 ||
  id / 1000 == 208 || id / 1000 == 221

mutual
def quietList : List Desc → Bool
  | [] => true
  | d :: ds => quiet1 d && quietList ds

def quiet1 : Desc → Bool
  | .elem _ => true
  | .undefElem _ => true
  | .undefSeq _ => false
  | .fixedRep id ms => id / 100000 == 1 && quietList ms
  | .delayedRep id _ ms => id / 100000 == 1 && quietList ms
  | .op id => quietOp id
  | .seq id ms => id / 100000 != 1 && quietList ms
end

/-- the registers of the coder that the wiring pass has no counterpart for are idle, and the (single) value
    list is as long as the descriptor list -/
structure Idle (s : St) : Prop where
  assoc : s.regs.assocStack = []
  bdef : s.regs.bitmapDef = .na
  qa : s.regs.qa = .na
  skipped : s.regs.nbitsSkipped = 0
  vals : ∃ l, s.vals = [l] ∧ l.length = s.descs.length

/-- one descriptor and one value were recorded; the registers both walks look at are unchanged -/
structure Pushed (s s' : St) : Prop where
  descs : ∃ dd, s'.descs = dd :: s.descs
  vals : ∀ l, s.vals = [l] → ∃ v, s'.vals = [v :: l]
  assoc : s'.regs.assocStack = s.regs.assocStack
  bdef : s'.regs.bitmapDef = s.regs.bitmapDef
  qa : s'.regs.qa = s.regs.qa
  skipped : s'.regs.nbitsSkipped = s.regs.nbitsSkipped
  dnp : s'.regs.dnpCount = s.regs.dnpCount

/-- what the simulation needs from the primitives -/
structure PushOne (P : Prims) : Prop where
  numeric : ∀ dd a b c s s', P.numeric dd a b c s = .ok s' → Pushed s s'
  string : ∀ dd n s s', P.string dd n s = .ok s' → Pushed s s'
  codeflag : ∀ dd n s s', P.codeflag dd n s = .ok s' → Pushed s s'
  newRefval : ∀ e n s s', P.newRefval e n s = .ok s' → Pushed s s'
  factor : ∀ s v l, P.factorValue s = .ok v → s.vals = [l] → l.head? = some v

/-- `s'` was reached from `s` by recording descriptors and values only -/
def Ext (s s' : St) : Prop :=
  ∃ dl vl l, s.vals = [l] ∧ s'.vals = [vl ++ l] ∧ s'.descs = dl ++ s.descs

theorem Ext.refl {s : St} (h : Idle s) : Ext s s := by
  obtain ⟨l, hl, _⟩ := h.vals
  exact ⟨[], [], l, hl, by simpa using hl, rfl⟩

theorem Ext.trans {a b c : St} (h1 : Ext a b) (h2 : Ext b c) : Ext a c := by
  obtain ⟨d1, v1, l1, e1, e2, e3⟩ := h1
  obtain ⟨d2, v2, l2, f1, f2, f3⟩ := h2
  rw [e2] at f1
  injection f1 with f1 _
  subst f1
  exact ⟨d2 ++ d1, v2 ++ v1, l1, e1, by rw [f2, List.append_assoc], by rw [f3, e3, List.append_assoc]⟩

theorem Pushed.ext {s s' : St} (hi : Idle s) (h : Pushed s s') : Ext s s' := by
  obtain ⟨l, hl, _⟩ := hi.vals
  obtain ⟨dd, hd⟩ := h.descs
  obtain ⟨v, hv⟩ := h.vals l hl
  exact ⟨[dd], [v], l, hl, hv, hd⟩

theorem Pushed.idle {s s' : St} (hi : Idle s) (h : Pushed s s') : Idle s' := by
  obtain ⟨l, hl, hn⟩ := hi.vals
  obtain ⟨dd, hd⟩ := h.descs
  obtain ⟨v, hv⟩ := h.vals l hl
  exact ⟨h.assoc.trans hi.assoc, h.bdef.trans hi.bdef, h.qa.trans hi.qa, h.skipped.trans hi.skipped,
    ⟨v :: l, hv, by rw [hd, List.length_cons, List.length_cons, hn]⟩⟩

/-! ### the coder's side -/

theorem bitmapDefinition_na (P : Prims) (id : Nat) (s : St) (h : s.regs.bitmapDef = .na) :
    bitmapDefinition P id s = .ok s := by
  unfold bitmapDefinition
  rw [h]

theorem elementDescriptor_pushed {P : Prims} (hP : PushOne P) {dd : DDesc} {e : Elem} {s s' : St} (hi : Idle s)
    (h : elementDescriptor P dd e s = .ok s') : Pushed s s' := by
  unfold elementDescriptor at h
  simp only [hi.assoc, ne_eq, not_true_eq_false, false_and, if_false, hi.qa, reduceCtorEq,
    bind, Except.bind, pure, Except.pure, ite_self] at h
  split at h
  · exact hP.string _ _ _ _ h
  · exact hP.codeflag _ _ _ _ h
  · split at h
    · exact hP.numeric _ _ _ _ _ _ h
    · exact hP.numeric _ _ _ _ _ _ h

/-! ### the wiring pass's side -/

/-- the wiring state follows the coder state -/
structure WRel (s : St) (w : WSt) : Prop where
  next : w.next = s.descs.length
  dnp : w.dnp = s.regs.dnpCount
  assoc : w.assoc = []
  waitQa : w.waitQa = false

/-- the flat lists of `s` are initial segments of the final output `o` -/
def Below (o : SubsetOut) (s : St) : Prop :=
  ∃ l, s.vals = [l] ∧ l.reverse <+: o.vals ∧ s.descs.length ≤ o.descs.length

theorem Below.of_ext {o : SubsetOut} {s s' : St} (h : Ext s s') (hb : Below o s') : Below o s := by
  obtain ⟨dl, vl, l, e1, e2, e3⟩ := h
  obtain ⟨l', f1, f2, f3⟩ := hb
  rw [e2] at f1
  injection f1 with f1 _
  subst f1
  refine ⟨l, e1, ?_, ?_⟩
  · rw [List.reverse_append] at f2
    exact (List.prefix_append _ _).trans f2
  · rw [e3, List.length_append] at f3
    omega

theorem valueNode_sim {o : SubsetOut} {s s1 : St} {w : WSt} (hp : Pushed s s1) (hw : WRel s w)
    (hb : Below o s1) :
    ∃ w', w.valueNode o = .ok (.value .value w.next [], w.next, w') ∧ WRel s1 w' ∧
      w'.wait1st = w.wait1st ∧ w'.waitDiff = w.waitDiff := by
  obtain ⟨dd, hd⟩ := hp.descs
  obtain ⟨_, _, _, hlen⟩ := hb
  rw [hd, List.length_cons] at hlen
  have hlt : w.next < o.descs.length := by rw [hw.next]; omega
  refine ⟨({ w with next := w.next + 1 } : WSt).register w.next, ?_, ?_, rfl, rfl⟩
  · unfold WSt.valueNode WSt.take
    rw [if_pos hlt]
  · exact ⟨by simp [WSt.register, hd, hw.next], by simp [WSt.register, hw.dnp, hp.dnp],
      by simp [WSt.register, hw.assoc], by simp [WSt.register, hw.waitQa]⟩

theorem plainValue_sim {o : SubsetOut} {s s1 : St} {w : WSt} (hp : Pushed s s1) (hw : WRel s w)
    (hb : Below o s1) : ∃ n w', w.plainValue o = .ok (n, w') ∧ WRel s1 w' := by
  obtain ⟨w', h1, h2, _⟩ := valueNode_sim hp hw hb
  exact ⟨_, w', by unfold WSt.plainValue; rw [h1], h2⟩

theorem wireElement_sim {o : SubsetOut} {id : Nat} {s s1 : St} {w : WSt} (hp : Pushed s s1) (hw : WRel s w)
    (hb : Below o s1) : ∃ n w', wireElement o id w = .ok (n, w') ∧ WRel s1 w' := by
  obtain ⟨w', h1, h2, _⟩ := valueNode_sim hp hw hb
  unfold wireElement
  simp only [hw.assoc, ne_eq, not_true_eq_false, false_and, if_false, hw.waitQa, Bool.false_eq_true, and_false, h1]
  split
  · exact ⟨_, _, rfl, ⟨h2.next, h2.dnp, h2.assoc, h2.waitQa⟩⟩
  · split
    · exact ⟨_, _, rfl, ⟨h2.next, h2.dnp, h2.assoc, h2.waitQa⟩⟩
    · split
      · exact ⟨_, _, rfl, ⟨h2.next, h2.dnp, h2.assoc, h2.waitQa⟩⟩
      · exact ⟨_, _, rfl, h2⟩

theorem setRegs_idle {s : St} {f : Regs → Regs} (hi : Idle s)
    (ha : (f s.regs).assocStack = s.regs.assocStack) (hb : (f s.regs).bitmapDef = s.regs.bitmapDef)
    (hq : (f s.regs).qa = s.regs.qa) (hs : (f s.regs).nbitsSkipped = s.regs.nbitsSkipped) :
    Idle (s.setRegs f) ∧ Ext s (s.setRegs f) := by
  obtain ⟨l, hl, hn⟩ := hi.vals
  refine ⟨⟨ha.trans hi.assoc, hb.trans hi.bdef, hq.trans hi.qa, hs.trans hi.skipped, ⟨l, hl, hn⟩⟩, ?_⟩
  exact ⟨[], [], l, hl, by simpa [St.setRegs] using hl, rfl⟩

/-- an operator that changes registers only, on both sides -/
theorem regsOnly_sim {s s' : St} {f : Regs → Regs} (hi : Idle s)
    (h : (Except.ok (s.setRegs f) : CM St) = .ok s')
    (ha : (f s.regs).assocStack = s.regs.assocStack) (hb : (f s.regs).bitmapDef = s.regs.bitmapDef)
    (hq : (f s.regs).qa = s.regs.qa) (hs : (f s.regs).nbitsSkipped = s.regs.nbitsSkipped) :
    (Idle s' ∧ Ext s s') ∧ ∀ (w w' : WSt), WRel s w → w'.next = w.next → w'.dnp = (f s.regs).dnpCount →
      w'.assoc = w.assoc → w'.waitQa = w.waitQa → WRel s' w' := by
  injection h with h
  subst h
  refine ⟨setRegs_idle hi ha hb hq hs, fun w w' hw h1 h2 h3 h4 => ⟨?_, ?_, ?_, ?_⟩⟩
  · rw [h1, hw.next]; rfl
  · rw [h2]; rfl
  · rw [h3, hw.assoc]
  · rw [h4, hw.waitQa]

set_option linter.unusedSimpArgs false in
theorem operator_sim {P : Prims} (hP : PushOne P) {id : Nat} (hq : quietOp id = true) {s s' : St} (hi : Idle s)
    (h : operatorDescriptor P id s = .ok s') :
    (Idle s' ∧ Ext s s') ∧ ∀ o w, WRel s w → Below o s' →
      ∃ n w', wireOperator o id w = .ok (n, w') ∧ WRel s' w' := by
  unfold quietOp at hq
  simp only [Bool.or_eq_true, beq_iff_eq] at hq
  unfold operatorDescriptor at h
  unfold wireOperator wireOperatorCY
  simp only [] at h ⊢
  rcases hq with ((((((h1 | h1) | h1) | h1) | h1) | h1) | h1) <;>
    simp only [h1, Nat.reduceEqDiff, true_or, or_true, or_false, false_or, if_true, if_false] at h ⊢
  · obtain ⟨a, b⟩ := regsOnly_sim hi h rfl rfl rfl rfl
    exact ⟨a, fun o w hw _ => ⟨_, w, rfl, b w w hw rfl (by rw [hw.dnp]) rfl rfl⟩⟩
  · obtain ⟨a, b⟩ := regsOnly_sim hi h rfl rfl rfl rfl
    exact ⟨a, fun o w hw _ => ⟨_, w, rfl, b w w hw rfl (by rw [hw.dnp]) rfl rfl⟩⟩
  · split at h
    · obtain ⟨a, b⟩ := regsOnly_sim hi h rfl rfl rfl rfl
      exact ⟨a, fun o w hw _ => ⟨_, w, rfl, b w w hw rfl (by rw [hw.dnp]) rfl rfl⟩⟩
    · split at h
      · obtain ⟨a, b⟩ := regsOnly_sim hi h rfl rfl rfl rfl
        exact ⟨a, fun o w hw _ => ⟨_, w, rfl, b w w hw rfl (by rw [hw.dnp]) rfl rfl⟩⟩
      · obtain ⟨a, b⟩ := regsOnly_sim hi h rfl rfl rfl rfl
        exact ⟨a, fun o w hw _ => ⟨_, w, rfl, b w w hw rfl (by rw [hw.dnp]) rfl rfl⟩⟩
  · have hp := hP.string _ _ _ _ h
    exact ⟨⟨hp.idle hi, hp.ext hi⟩, fun o w hw hb => plainValue_sim hp hw hb⟩
  · obtain ⟨a, b⟩ := regsOnly_sim hi h rfl rfl rfl rfl
    exact ⟨a, fun o w hw _ => ⟨_, w, rfl, b w w hw rfl (by rw [hw.dnp]) rfl rfl⟩⟩
  · obtain ⟨a, b⟩ := regsOnly_sim hi h rfl rfl rfl rfl
    exact ⟨a, fun o w hw _ => ⟨_, w, rfl, b w w hw rfl (by rw [hw.dnp]) rfl rfl⟩⟩
  · obtain ⟨a, b⟩ := regsOnly_sim hi h rfl rfl rfl rfl
    exact ⟨a, fun o w hw _ => ⟨_, _, rfl, b w _ hw rfl rfl rfl rfl⟩⟩

/-! ### composition -/

/-- the piece of the coder's walk from `s` to `s'` is followed by the piece `run` of the wiring pass -/
def Sim {α : Type} (s s' : St) (run : SubsetOut → WSt → CM (α × WSt)) : Prop :=
  (Idle s' ∧ Ext s s') ∧ ∀ o w, WRel s w → Below o s' → ∃ n w', run o w = .ok (n, w') ∧ WRel s' w'

theorem Sim.seq {α β γ : Type} {s s1 s' : St} {r1 : SubsetOut → WSt → CM (α × WSt)}
    {r2 : SubsetOut → WSt → CM (β × WSt)} {r : SubsetOut → WSt → CM (γ × WSt)}
    (h1 : Sim s s1 r1) (h2 : Sim s1 s' r2)
    (hr : ∀ o w a w1 b w2, r1 o w = .ok (a, w1) → r2 o w1 = .ok (b, w2) → ∃ c, r o w = .ok (c, w2)) :
    Sim s s' r := by
  refine ⟨⟨h2.1.1, h1.1.2.trans h2.1.2⟩, fun o w hw hb => ?_⟩
  obtain ⟨a, w1, e1, hw1⟩ := h1.2 o w hw (Below.of_ext h2.1.2 hb)
  obtain ⟨b, w2, e2, hw2⟩ := h2.2 o w1 hw1 hb
  obtain ⟨c, e⟩ := hr o w a w1 b w2 e1 e2
  exact ⟨c, w2, e, hw2⟩

theorem Sim.refl {α : Type} {s : St} (hi : Idle s) {run : SubsetOut → WSt → CM (α × WSt)} (a : α)
    (h : ∀ o w, run o w = .ok (a, w)) : Sim s s run :=
  ⟨⟨hi, Ext.refl hi⟩, fun o w hw _ => ⟨a, w, h o w, hw⟩⟩

theorem iter_sim {f : St → CM St} {g : SubsetOut → WSt → CM (List Node × WSt)}
    (hf : ∀ s s', Idle s → f s = .ok s' → Sim s s' g) :
    ∀ n s s', Idle s → iterN n f s = .ok s' → Sim s s' (fun o w => wireRepeat (g o) n w) := by
  intro n
  induction n with
  | zero =>
    intro s s' hi h
    unfold iterN at h
    injection h with h
    subst h
    exact Sim.refl hi [] (fun o w => by unfold wireRepeat; rfl)
  | succ n ih =>
    intro s s' hi h
    unfold iterN at h
    split at h
    · cases h
    · next s1 h1 =>
      have a := hf s s1 hi h1
      have b := ih s1 s' a.1.1 h
      refine Sim.seq a b (fun o w x w1 y w2 e1 e2 => ⟨x ++ y, ?_⟩)
      show wireRepeat (g o) (n + 1) w = _
      rw [wireRepeat, e1]
      simp only [e2]

/-! ### one step of both walks: the common prelude, then the dispatch -/

/-- the 221 count is decremented first, by both walks -/
abbrev preS (s0 : St) : St :=
  if s0.regs.dnpCount ≠ 0 then s0.setRegs fun r => { r with dnpCount := s0.regs.dnpCount - 1 } else s0

abbrev preW (w0 : WSt) : WSt := if w0.dnp ≠ 0 then { w0 with dnp := w0.dnp - 1 } else w0

theorem preS_idle {s0 : St} (hi : Idle s0) : Idle (preS s0) ∧ Ext s0 (preS s0) := by
  unfold preS
  split
  · exact setRegs_idle hi rfl rfl rfl rfl
  · exact ⟨hi, Ext.refl hi⟩

theorem pre_rel {s0 : St} {w0 : WSt} (hw : WRel s0 w0) : WRel (preS s0) (preW w0) := by
  unfold preS preW
  rw [hw.dnp]
  split
  · exact ⟨hw.next, rfl, hw.assoc, hw.waitQa⟩
  · exact hw

theorem preS_descs (s0 : St) : (preS s0).descs = s0.descs ∧ (preS s0).vals = s0.vals := by
  unfold preS
  split <;> exact ⟨rfl, rfl⟩

/-- `Sim` for a whole `walk1` step from what follows the decrement -/
theorem Sim.pre {α : Type} {s0 s' : St} {run : SubsetOut → WSt → CM (α × WSt)} (hi : Idle s0)
    (h : Sim (preS s0) s' (fun o w => run o w)) : Sim s0 s' (fun o w0 => run o (preW w0)) := by
  refine ⟨⟨h.1.1, (preS_idle hi).2.trans h.1.2⟩, fun o w hw hb => ?_⟩
  exact h.2 o (preW w) (pre_rel hw) hb

theorem walk1_fixed (P : Prims) (id : Nat) (ms : List Desc) (s0 : St) (hi : Idle s0) :
    walk1 P (.fixedRep id ms) s0 = iterN (yOf id) (walkList P ms) (preS s0) := by
  have hp := (preS_idle hi).1
  rw [walk1] <;> first | (intro e h; cases h) | skip
  simp only [Bool.and_false, Bool.false_eq_true, if_false, ite_self]
  rw [if_neg (by rw [hp.skipped]; simp), Desc.id, bitmapDefinition_na P _ _ hp.bdef]

theorem walk1_delayed (P : Prims) (id : Nat) (f : Desc) (ms : List Desc) (s0 : St) (hi : Idle s0) :
    walk1 P (.delayedRep id f ms) s0 =
      (match f with
       | .elem fe =>
         match elementDescriptor P (.plain fe) fe (preS s0) with
         | .error e => .error e
         | .ok s1 =>
           match P.factorValue s1 >>= factorCount with
           | .error e => .error e
           | .ok n => iterN n (walkList P ms) s1
       | _ => .error .unknownDescr) := by
  have hp := (preS_idle hi).1
  rw [walk1] <;> first | (intro e h; cases h) | skip
  simp only [Bool.and_false, Bool.false_eq_true, if_false, ite_self]
  rw [if_neg (by rw [hp.skipped]; simp), Desc.id, bitmapDefinition_na P _ _ hp.bdef]
  rfl

theorem walk1_op (P : Prims) (id : Nat) (s0 : St) (hi : Idle s0) :
    walk1 P (.op id) s0 = operatorDescriptor P id (preS s0) := by
  have hp := (preS_idle hi).1
  rw [walk1] <;> first | (intro e h; cases h) | skip
  simp only [Bool.and_false, Bool.false_eq_true, if_false, ite_self]
  rw [if_neg (by rw [hp.skipped]; simp), Desc.id, bitmapDefinition_na P _ _ hp.bdef]

theorem walk1_seq (P : Prims) (id : Nat) (ms : List Desc) (s0 : St) (hi : Idle s0) :
    walk1 P (.seq id ms) s0 = walkList P ms (preS s0) := by
  have hp := (preS_idle hi).1
  rw [walk1] <;> first | (intro e h; cases h) | skip
  simp only [Bool.and_false, Bool.false_eq_true, if_false, ite_self]
  rw [if_neg (by rw [hp.skipped]; simp), Desc.id, bitmapDefinition_na P _ _ hp.bdef]

theorem walk1_undefElem (P : Prims) (id : Nat) (s0 : St) (hi : Idle s0) :
    walk1 P (.undefElem id) s0 = .error .unknownDescr := by
  have hp := (preS_idle hi).1
  rw [walk1] <;> first | (intro e h; cases h) | skip
  simp only [Bool.and_false, Bool.false_eq_true, if_false, ite_self]
  rw [if_neg (by rw [hp.skipped]; simp), Desc.id, bitmapDefinition_na P _ _ hp.bdef]

theorem walk1_elem (P : Prims) (e : Elem) (s0 : St) (hi : Idle s0) :
    walk1 P (.elem e) s0 =
      (if (decide (s0.regs.dnpCount ≠ 0) && dnpSkips (.elem e)) = true then .ok (preS s0)
       else if (preS s0).regs.nbitsNewRefval ≠ 0 then
         (if e.kind = .string then .error .lib else P.newRefval e (preS s0).regs.nbitsNewRefval (preS s0))
       else elementDescriptor P (.plain e) e (preS s0)) := by
  have hp := (preS_idle hi).1
  rw [walk1]
  simp only [dnpSkips]
  split
  · next hs => simp only [hs, ↓reduceIte]
  · next hs =>
    simp only [hs, Bool.false_eq_true, if_false]
    by_cases hn : (preS s0).regs.nbitsNewRefval ≠ 0
    · simp only [if_pos hn]
    · simp only [if_neg hn]
      rw [if_neg (by rw [hp.skipped]; simp), Desc.id, bitmapDefinition_na P _ _ hp.bdef]

theorem wire1_fixed (o : SubsetOut) (id : Nat) (ms : List Desc) (w0 : WSt) :
    wire1 o (.fixedRep id ms) w0 =
      (match wireRepeat (wireList o ms) (yOf id) (preW w0) with
       | .error e => .error e
       | .ok (ns, s') => .ok (.fixedRep id ms.length ns, s')) := by
  rw [wire1]
  simp only [dnpSkips, Bool.and_false, Bool.false_eq_true, if_false]
  rfl

theorem wire1_delayed (o : SubsetOut) (id : Nat) (f : Desc) (ms : List Desc) (w0 : WSt) :
    wire1 o (.delayedRep id f ms) w0 =
      (match (preW w0).take o with
       | .error e => .error e
       | .ok (i, s1) =>
         match wireCount o i with
         | .error e => .error e
         | .ok n =>
           match wireRepeat (wireList o ms) n (s1.register i) with
           | .error e => .error e
           | .ok (ns, s') => .ok (.delayedRep id ms.length (.value .value i []) ns, s')) := by
  rw [wire1]
  simp only [dnpSkips, Bool.and_false, Bool.false_eq_true, if_false]
  rfl

theorem wire1_op (o : SubsetOut) (id : Nat) (w0 : WSt) :
    wire1 o (.op id) w0 = wireOperator o id (preW w0) := by
  rw [wire1]
  simp only [dnpSkips, Bool.and_false, Bool.false_eq_true, if_false]

theorem wire1_seq (o : SubsetOut) (id : Nat) (ms : List Desc) (w0 : WSt) :
    wire1 o (.seq id ms) w0 =
      (match wireList o ms (preW w0) with
       | .error e => .error e
       | .ok (ns, s') => .ok (.seq id ns, s')) := by
  rw [wire1]
  simp only [dnpSkips, Bool.and_false, Bool.false_eq_true, if_false]
  rfl

theorem wire1_elem (o : SubsetOut) (e : Elem) (w0 : WSt) :
    wire1 o (.elem e) w0 =
      (if (decide (w0.dnp ≠ 0) && dnpSkips (.elem e)) = true then .ok (.noval e.id, preW w0)
       else wireElement o e.id (preW w0)) := by
  rw [wire1]
  rfl

/-! ### the simulation -/

theorem take_sim {o : SubsetOut} {s s1 : St} {w : WSt} (hp : Pushed s s1) (hw : WRel s w) (hb : Below o s1) :
    w.take o = .ok (w.next, { w with next := w.next + 1 }) ∧
      WRel s1 (({ w with next := w.next + 1 } : WSt).register w.next) := by
  obtain ⟨dd, hd⟩ := hp.descs
  obtain ⟨_, _, _, hlen⟩ := hb
  rw [hd, List.length_cons] at hlen
  have hlt : w.next < o.descs.length := by rw [hw.next]; omega
  refine ⟨by unfold WSt.take; rw [if_pos hlt], ?_⟩
  exact ⟨by simp [WSt.register, hd, hw.next], by simp [WSt.register, hw.dnp, hp.dnp],
    by simp [WSt.register, hw.assoc], by simp [WSt.register, hw.waitQa]⟩

/-- the replication count the wiring pass reads from the final value list is the one the coder used -/
theorem count_sim {P : Prims} (hP : PushOne P) {o : SubsetOut} {s s1 : St} {n : Nat} {w : WSt} (hi : Idle s)
    (hp : Pushed s s1) (hw : WRel s w) (hb : Below o s1)
    (hn : (P.factorValue s1 >>= factorCount) = .ok n) : wireCount o w.next = .ok n := by
  obtain ⟨l, hl, hlen⟩ := hi.vals
  obtain ⟨v0, hv0⟩ := hp.vals l hl
  obtain ⟨l', hl', hpre, _⟩ := hb
  rw [hv0] at hl'
  injection hl' with hl' _
  subst hl'
  cases hfv : P.factorValue s1 with
  | error e => rw [hfv] at hn; cases hn
  | ok v =>
    rw [hfv] at hn
    have hh := hP.factor s1 v (v0 :: l) hfv hv0
    simp only [List.head?_cons, Option.some.injEq] at hh
    subst hh
    obtain ⟨t, ht⟩ := hpre
    have hget : o.vals[w.next]? = some v0 := by
      rw [← ht, List.reverse_cons, hw.next, ← hlen, List.append_assoc]
      rw [List.getElem?_append_right (by simp)]
      simp
    unfold wireCount
    rw [hget]
    change factorCount v0 = .ok n at hn
    unfold factorCount at hn
    cases v0 with
    | missing => cases hn
    | int i =>
      simp only at hn ⊢
      split at hn
      · cases hn
      · injection hn with hn; rw [hn]
    | num _ _ => cases hn
    | bytes _ => cases hn

theorem elem_push_sim {s0 s' : St} {e : Elem} (hi : Idle s0) (hp : Pushed (preS s0) s')
    (hs : ¬ (decide (s0.regs.dnpCount ≠ 0) && dnpSkips (.elem e)) = true) :
    Sim s0 s' (fun o w => wire1 o (.elem e) w) := by
  have hpre := preS_idle hi
  refine ⟨⟨hp.idle hpre.1, hpre.2.trans (hp.ext hpre.1)⟩, fun o w hw hb => ?_⟩
  dsimp only
  rw [wire1_elem, hw.dnp, if_neg hs]
  exact wireElement_sim hp (pre_rel hw) hb

mutual
theorem walkList_sim {P : Prims} (hP : PushOne P) : ∀ (ds : List Desc), quietList ds = true →
    ∀ (s s' : St), Idle s → walkList P ds s = .ok s' → Sim s s' (fun o w => wireList o ds w)
  | [], _, s, s', hi, h => by
    rw [walkList] at h
    injection h with h
    subst h
    exact Sim.refl hi [] (fun o w => by rw [wireList])
  | d :: ds, hq, s, s', hi, h => by
    rw [quietList, Bool.and_eq_true] at hq
    rw [walkList] at h
    split at h
    · cases h
    · next s1 h1 =>
      have a := walk1_sim hP d hq.1 s s1 hi h1
      have b := walkList_sim hP ds hq.2 s1 s' a.1.1 h
      refine Sim.seq a b (fun o w x w1 y w2 e1 e2 => ⟨x :: y, ?_⟩)
      show wireList o (d :: ds) w = _
      rw [wireList, e1]
      simp only [e2]

theorem walk1_sim {P : Prims} (hP : PushOne P) : ∀ (d : Desc), quiet1 d = true →
    ∀ (s s' : St), Idle s → walk1 P d s = .ok s' → Sim s s' (fun o w => wire1 o d w)
  | .elem e, _, s0, s', hi, h => by
    rw [walk1_elem P e s0 hi] at h
    have hpre := preS_idle hi
    split at h
    · next hs =>
      injection h with h
      subst h
      refine ⟨hpre, fun o w hw hb => ⟨.noval e.id, preW w, ?_, pre_rel hw⟩⟩
      dsimp only
      rw [wire1_elem, hw.dnp, if_pos hs]
    · next hs =>
      split at h
      · split at h
        · cases h
        · exact elem_push_sim hi (hP.newRefval _ _ _ _ h) hs
      · exact elem_push_sim hi (elementDescriptor_pushed hP hpre.1 h) hs
  | .fixedRep id ms, hq, s0, s', hi, h => by
    rw [walk1_fixed P id ms s0 hi] at h
    rw [quiet1, Bool.and_eq_true] at hq
    replace hq := hq.2
    have hpre := preS_idle hi
    have a := iter_sim (g := fun o => wireList o ms) (fun s s' hi h => walkList_sim hP ms hq s s' hi h)
      (yOf id) (preS s0) s' hpre.1 h
    refine ⟨⟨a.1.1, hpre.2.trans a.1.2⟩, fun o w hw hb => ?_⟩
    obtain ⟨ns, w', e1, hw'⟩ := a.2 o (preW w) (pre_rel hw) hb
    refine ⟨.fixedRep id ms.length ns, w', ?_, hw'⟩
    dsimp only at e1 ⊢
    rw [wire1_fixed]
    simp only [e1]
  | .delayedRep id f ms, hq, s0, s', hi, h => by
    rw [walk1_delayed P id f ms s0 hi] at h
    rw [quiet1, Bool.and_eq_true] at hq
    replace hq := hq.2
    split at h
    · next fe =>
      split at h
      · cases h
      · next s1 h1 =>
        split at h
        · cases h
        · next n hn =>
          have hpre := preS_idle hi
          have hp := elementDescriptor_pushed hP hpre.1 h1
          have a := iter_sim (g := fun o => wireList o ms) (fun s s' hi h => walkList_sim hP ms hq s s' hi h)
            n s1 s' (hp.idle hpre.1) h
          refine ⟨⟨a.1.1, hpre.2.trans ((hp.ext hpre.1).trans a.1.2)⟩, fun o w hw hb => ?_⟩
          have hb1 : Below o s1 := Below.of_ext a.1.2 hb
          obtain ⟨ht, hw1⟩ := take_sim hp (pre_rel hw) hb1
          have hc := count_sim hP hpre.1 hp (pre_rel hw) hb1 hn
          obtain ⟨ns, w', e1, hw'⟩ := a.2 o _ hw1 hb
          refine ⟨.delayedRep id ms.length (.value .value (preW w).next []) ns, w', ?_, hw'⟩
          dsimp only at e1 ⊢
          rw [wire1_delayed, ht]
          simp only [hc, e1]
    · cases h
  | .op id, hq, s0, s', hi, h => by
    rw [walk1_op P id s0 hi] at h
    rw [quiet1] at hq
    have a := Sim.pre hi (operator_sim hP hq (preS_idle hi).1 h)
    refine ⟨a.1, fun o w hw hb => ?_⟩
    have := a.2 o w hw hb
    dsimp only at this ⊢
    rw [wire1_op]
    exact this
  | .seq id ms, hq, s0, s', hi, h => by
    rw [walk1_seq P id ms s0 hi] at h
    rw [quiet1, Bool.and_eq_true] at hq
    replace hq := hq.2
    have hpre := preS_idle hi
    have a := walkList_sim hP ms hq (preS s0) s' hpre.1 h
    refine ⟨⟨a.1.1, hpre.2.trans a.1.2⟩, fun o w hw hb => ?_⟩
    obtain ⟨ns, w', e1, hw'⟩ := a.2 o (preW w) (pre_rel hw) hb
    refine ⟨.seq id ns, w', ?_, hw'⟩
    dsimp only at e1 ⊢
    rw [wire1_seq]
    simp only [e1]
  | .undefElem id, _, s0, s', hi, h => by
    rw [walk1_undefElem P id s0 hi] at h
    cases h
  | .undefSeq id, hq, _, _, _, _ => by
    rw [quiet1] at hq
    cases hq
end

/-! ### the decoder's primitives for uncompressed data record one descriptor and one value per call -/

theorem read_ok {α : Type} {s s' : St} {r : R α} {a : α} (h : s.read r = .ok (a, s')) :
    ∃ rest, s' = { s with bits := rest } := by
  unfold St.read at h
  split at h
  · cases h
  · next a' rest _ =>
    injection h with h
    injection h with _ h2
    exact ⟨rest, h2.symm⟩

theorem pushed_desc_val (s : St) (dd : DDesc) (rest : Bits) (v : Val) :
    Pushed s (({ s.pushDesc dd with bits := rest } : St).pushAll v) := by
  refine ⟨⟨dd, rfl⟩, fun l hl => ⟨v, ?_⟩, rfl, rfl, rfl, rfl, rfl⟩
  show (s.vals.map (v :: ·)) = _
  rw [hl]
  rfl

theorem pushOne_decPrimsU : PushOne decPrimsU where
  numeric := by
    intro dd a b c s s' h
    change decNumericU dd a b c s = .ok s' at h
    unfold decNumericU at h
    simp only [bind, Except.bind, pure, Except.pure] at h
    split at h
    · cases h
    · split at h
      · cases h
      · next x hr =>
        obtain ⟨v, s1⟩ := x
        obtain ⟨rest, hs1⟩ := read_ok hr
        injection h with h
        subst h hs1
        exact pushed_desc_val s dd rest _
  string := by
    intro dd n s s' h
    change decStringU dd n s = .ok s' at h
    unfold decStringU at h
    simp only [bind, Except.bind, pure, Except.pure] at h
    split at h
    · cases h
    · next x hr =>
      obtain ⟨v, s1⟩ := x
      obtain ⟨rest, hs1⟩ := read_ok hr
      injection h with h
      subst h hs1
      exact pushed_desc_val s dd rest _
  codeflag := by
    intro dd n s s' h
    change decCodeflagU dd n s = .ok s' at h
    unfold decCodeflagU at h
    simp only [bind, Except.bind, pure, Except.pure] at h
    split at h
    · cases h
    · next x hr =>
      obtain ⟨v, s1⟩ := x
      obtain ⟨rest, hs1⟩ := read_ok hr
      injection h with h
      subst h hs1
      exact pushed_desc_val s dd rest _
  newRefval := by
    intro e n s s' h
    change decNewRefvalU e n s = .ok s' at h
    unfold decNewRefvalU at h
    simp only [bind, Except.bind, pure, Except.pure] at h
    split at h
    · cases h
    · next x hr =>
      obtain ⟨v, s1⟩ := x
      obtain ⟨rest, hs1⟩ := read_ok hr
      injection h with h
      subst h hs1
      refine ⟨⟨.plain e, rfl⟩, fun l hl => ⟨.int v, ?_⟩, rfl, rfl, rfl, rfl, rfl⟩
      show (s.vals.map (Val.int v :: ·)) = _
      rw [hl]
      rfl
  factor := by
    intro s v l h hl
    change decFactorU s = .ok v at h
    unfold decFactorU at h
    rw [hl] at h
    simp only at h
    unfold headVal at h
    split at h
    · cases h
    · injection h with h
      subst h
      rfl

/-! ### from the decoder to the wiring pass -/

/-- for a quiet template the wiring pass follows every successful uncompressed decode to its end -/
theorem decodeSubset_wire {t : List Desc} (hq : quietList t = true) {bits rest : Bits} {o : SubsetOut}
    (h : decodeSubset t bits = .ok (o, rest)) :
    ∃ w, wireRaw t o = .ok w ∧ w.st.next = o.vals.length ∧ o.descs.length = o.vals.length := by
  unfold decodeSubset at h
  split at h
  · cases h
  · next s hs =>
    injection h with h
    injection h with ho _
    have hi0 : Idle ({ bits := bits, vals := [[]] } : St) := ⟨rfl, rfl, rfl, rfl, ⟨[], rfl, rfl⟩⟩
    have sim := walkList_sim pushOne_decPrimsU t hq _ s hi0 hs
    obtain ⟨l, hl, hlen⟩ := sim.1.1.vals
    have hb : Below o s := by
      refine ⟨l, hl, ?_, ?_⟩
      · rw [← ho, hl]; exact List.prefix_refl _
      · rw [← ho]; simp
    have hw0 : WRel ({ bits := bits, vals := [[]] } : St) ({} : WSt) := ⟨rfl, rfl, rfl, rfl⟩
    obtain ⟨ns, w', e, hw'⟩ := sim.2 o {} hw0 hb
    dsimp only at e
    refine ⟨{ nodes := ns, st := w' }, by unfold wireRaw; rw [e], ?_, ?_⟩
    · show w'.next = o.vals.length
      rw [hw'.next, ← hlen, ← ho, hl]
      simp
    · rw [← ho, hl]
      simp [hlen]

theorem decodeSubsets_wire {t : List Desc} (hq : quietList t = true) :
    ∀ (n : Nat) (bits rest : Bits) (outs : List SubsetOut), decodeSubsets t n bits = .ok (outs, rest) →
      ∀ o ∈ outs, ∃ w, wireRaw t o = .ok w ∧ w.st.next = o.vals.length
  | 0, bits, rest, outs, h => by
    rw [decodeSubsets] at h
    injection h with h
    injection h with h _
    subst h
    intro o ho
    cases ho
  | n + 1, bits, rest, outs, h => by
    rw [decodeSubsets] at h
    split at h
    · cases h
    · next o1 r1 h1 =>
      split at h
      · cases h
      · next os r2 h2 =>
        injection h with h
        injection h with h _
        subst h
        intro o ho
        cases ho with
        | head =>
          obtain ⟨w, a, b, _⟩ := decodeSubset_wire hq h1
          exact ⟨w, a, b⟩
        | tail _ hm => exact decodeSubsets_wire hq n r1 r2 os h2 o hm

/-! ### the shape of the tree the wiring pass builds for a quiet template -/

def plainValue? (o : SubsetOut) : Node → Bool
  | .value _ i attrs => attrs.isEmpty && decide (i < o.descs.length)
  | _ => false

/-- the members of a delayed replication are `count * n_members` nodes, the count being read where the renderers read it -/
def countOK (o : SubsetOut) (n len : Nat) : Node → Bool
  | .value _ i _ => (match wireCount o i with | .ok c => len == c * n | .error _ => false)
  | _ => false

mutual
/-- value nodes without attributes and with an index inside the flat lists, composite ids as the converter
    expects them, replications as long as their count says -/
def plainList (o : SubsetOut) : List Node → Bool
  | [] => true
  | n :: ns => plain1 o n && plainList o ns

def plain1 (o : SubsetOut) : Node → Bool
  | .value k i attrs => plainValue? o (.value k i attrs)
  | .noval _ => true
  | .seq id ms => id / 100000 != 1 && plainList o ms
  | .fixedRep id n ms => id / 100000 == 1 && ms.length == yOf id * n && plainList o ms
  | .delayedRep id n f ms =>
    id / 100000 == 1 && plainValue? o f && countOK o n ms.length f && plainList o ms
end

theorem plainList_append (o : SubsetOut) : ∀ (a b : List Node),
    plainList o (a ++ b) = (plainList o a && plainList o b)
  | [], b => by rw [List.nil_append, plainList]; rfl
  | x :: xs, b => by
    rw [List.cons_append, plainList, plainList, plainList_append o xs b, Bool.and_assoc]

/-- what the wiring pass keeps when it runs over a quiet template -/
structure Calm (w : WSt) : Prop where
  assoc : w.assoc = []
  waitQa : w.waitQa = false
  tab : w.tab = []

theorem valueNode_calm {o : SubsetOut} {w w' : WSt} {n : Node} {i : Nat} (hc : Calm w)
    (h : w.valueNode o = .ok (n, i, w')) : plain1 o n = true ∧ Calm w' ∧ w'.wait1st = w.wait1st ∧ w'.waitDiff = w.waitDiff := by
  unfold WSt.valueNode at h
  split at h
  · cases h
  · next i' s1 ht =>
    obtain ⟨hi, hs1, hlt⟩ := take_ok ht
    injection h with h
    injection h with h1 h2
    injection h2 with h2 h3
    subst h1 h2 h3 hs1
    refine ⟨?_, ⟨hc.assoc, hc.waitQa, hc.tab⟩, rfl, rfl⟩
    simp [plain1, plainValue?, hlt]

theorem plainValue_calm {o : SubsetOut} {w w' : WSt} {n : Node} (hc : Calm w)
    (h : w.plainValue o = .ok (n, w')) : plain1 o n = true ∧ Calm w' := by
  unfold WSt.plainValue at h
  split at h
  · cases h
  · next n' i s1 hv =>
    injection h with h
    injection h with h1 h2
    subst h1 h2
    exact ⟨(valueNode_calm hc hv).1, (valueNode_calm hc hv).2.1⟩

theorem wireElement_calm {o : SubsetOut} {id : Nat} {w w' : WSt} {n : Node} (hc : Calm w)
    (h : wireElement o id w = .ok (n, w')) : plain1 o n = true ∧ Calm w' := by
  unfold wireElement at h
  simp only [hc.assoc, ne_eq, not_true_eq_false, false_and, if_false, hc.waitQa, Bool.false_eq_true, and_false] at h
  split at h
  · cases h
  · next n' i s1 hv =>
    obtain ⟨hp, hc1, _, _⟩ := valueNode_calm hc hv
    split at h
    · injection h with h; injection h with h1 h2; subst h1 h2
      exact ⟨hp, ⟨hc1.assoc, hc1.waitQa, hc1.tab⟩⟩
    · split at h
      · injection h with h; injection h with h1 h2; subst h1 h2
        exact ⟨hp, ⟨hc1.assoc, hc1.waitQa, hc1.tab⟩⟩
      · split at h
        · injection h with h; injection h with h1 h2; subst h1 h2
          exact ⟨hp, ⟨hc1.assoc, hc1.waitQa, hc1.tab⟩⟩
        · injection h with h; injection h with h1 h2; subst h1 h2
          exact ⟨hp, hc1⟩

set_option linter.unusedSimpArgs false in
theorem wireOperator_calm {o : SubsetOut} {id : Nat} (hq : quietOp id = true) {w w' : WSt} {n : Node} (hc : Calm w)
    (h : wireOperator o id w = .ok (n, w')) : plain1 o n = true ∧ Calm w' := by
  unfold quietOp at hq
  simp only [Bool.or_eq_true, beq_iff_eq] at hq
  unfold wireOperator wireOperatorCY at h
  rcases hq with ((((((h1 | h1) | h1) | h1) | h1) | h1) | h1) <;>
    simp only [h1, Nat.reduceEqDiff, true_or, or_true, or_false, false_or, if_true, if_false] at h
  · injection h with h; injection h with h1 h2; subst h1 h2; exact ⟨rfl, hc⟩
  · injection h with h; injection h with h1 h2; subst h1 h2; exact ⟨rfl, hc⟩
  · injection h with h; injection h with h1 h2; subst h1 h2; exact ⟨rfl, hc⟩
  · exact plainValue_calm hc h
  · injection h with h; injection h with h1 h2; subst h1 h2; exact ⟨rfl, hc⟩
  · injection h with h; injection h with h1 h2; subst h1 h2; exact ⟨rfl, hc⟩
  · injection h with h; injection h with h1 h2; subst h1 h2; exact ⟨rfl, ⟨hc.assoc, hc.waitQa, hc.tab⟩⟩

theorem preW_calm {w : WSt} (hc : Calm w) : Calm (preW w) := by
  unfold preW
  split
  · exact ⟨hc.assoc, hc.waitQa, hc.tab⟩
  · exact hc

theorem wireRepeat_calm {o : SubsetOut} (f : WSt → CM (List Node × WSt))
    (hf : ∀ w ns w', Calm w → f w = .ok (ns, w') → plainList o ns = true ∧ Calm w') :
    ∀ n w ns w', Calm w → wireRepeat f n w = .ok (ns, w') → plainList o ns = true ∧ Calm w' := by
  intro n
  induction n with
  | zero =>
    intro w ns w' hc h
    unfold wireRepeat at h
    injection h with h; injection h with ha hb; subst ha hb
    exact ⟨by rw [plainList], hc⟩
  | succ n ih =>
    intro w ns w' hc h
    unfold wireRepeat at h
    split at h
    · cases h
    · next ns1 s1 h1 =>
      split at h
      · cases h
      · next ns2 s2 h2 =>
        injection h with h; injection h with ha hb; subst ha hb
        obtain ⟨p1, c1⟩ := hf _ _ _ hc h1
        obtain ⟨p2, c2⟩ := ih _ _ _ c1 h2
        exact ⟨by rw [plainList_append, p1, p2]; rfl, c2⟩

theorem wireRepeat_length (o : SubsetOut) (ds : List Desc) (k : Nat) (s s' : WSt) (ns : List Node)
    (h : wireRepeat (wireList o ds) k s = .ok (ns, s')) : ns.length = k * ds.length :=
  (wireRepeat_consumes (wireList o ds) ds.length
    (fun s ns s' hh => wireList_consumes o ds s ns s' hh) k s ns s' h).2

mutual
theorem wireList_calm (o : SubsetOut) : ∀ (ds : List Desc), quietList ds = true →
    ∀ (w : WSt) (ns : List Node) (w' : WSt), Calm w → wireList o ds w = .ok (ns, w') →
      plainList o ns = true ∧ Calm w'
  | [], _, w, ns, w', hc, h => by
    rw [wireList] at h
    injection h with h; injection h with ha hb; subst ha hb
    exact ⟨by rw [plainList], hc⟩
  | d :: ds, hq, w, ns, w', hc, h => by
    rw [quietList, Bool.and_eq_true] at hq
    rw [wireList] at h
    split at h
    · cases h
    · next n s1 h1 =>
      split at h
      · cases h
      · next ns2 s2 h2 =>
        injection h with h; injection h with ha hb; subst ha hb
        obtain ⟨p1, c1⟩ := wire1_calm o d hq.1 w n s1 hc h1
        obtain ⟨p2, c2⟩ := wireList_calm o ds hq.2 s1 ns2 s2 c1 h2
        exact ⟨by rw [plainList, p1, p2]; rfl, c2⟩

theorem wire1_calm (o : SubsetOut) : ∀ (d : Desc), quiet1 d = true →
    ∀ (w : WSt) (n : Node) (w' : WSt), Calm w → wire1 o d w = .ok (n, w') → plain1 o n = true ∧ Calm w'
  | .elem e, _, w, n, w', hc, h => by
    rw [wire1_elem] at h
    split at h
    · injection h with h; injection h with ha hb; subst ha hb
      exact ⟨rfl, preW_calm hc⟩
    · exact wireElement_calm (preW_calm hc) h
  | .fixedRep id ms, hq, w, n, w', hc, h => by
    rw [quiet1, Bool.and_eq_true] at hq
    rw [wire1_fixed] at h
    split at h
    · cases h
    · next ns s1 hr =>
      injection h with h; injection h with ha hb; subst ha hb
      obtain ⟨p, c⟩ := wireRepeat_calm (o := o) (wireList o ms)
        (fun w ns w' hc hh => wireList_calm o ms hq.2 w ns w' hc hh) _ _ _ _ (preW_calm hc) hr
      have hl := wireRepeat_length o ms (yOf id) _ _ _ hr
      refine ⟨?_, c⟩
      rw [plain1, hq.1, p, hl]
      simp
  | .delayedRep id f ms, hq, w, n, w', hc, h => by
    rw [quiet1, Bool.and_eq_true] at hq
    rw [wire1_delayed] at h
    split at h
    · cases h
    · next i s1 ht =>
      obtain ⟨hi, hs1, hlt⟩ := take_ok ht
      split at h
      · cases h
      · next cnt hcnt =>
        split at h
        · cases h
        · next ns s2 hr =>
          injection h with h; injection h with ha hb; subst ha hb
          have hc1 : Calm (s1.register i) := by
            subst hs1
            exact ⟨(preW_calm hc).assoc, (preW_calm hc).waitQa, (preW_calm hc).tab⟩
          obtain ⟨p, c⟩ := wireRepeat_calm (o := o) (wireList o ms)
            (fun w ns w' hc hh => wireList_calm o ms hq.2 w ns w' hc hh) _ _ _ _ hc1 hr
          have hl := wireRepeat_length o ms cnt _ _ _ hr
          refine ⟨?_, c⟩
          rw [plain1, hq.1, p]
          simp [plainValue?, countOK, hlt, hcnt, hl]
  | .op id, hq, w, n, w', hc, h => by
    rw [quiet1] at hq
    rw [wire1_op] at h
    exact wireOperator_calm hq (preW_calm hc) h
  | .seq id ms, hq, w, n, w', hc, h => by
    rw [quiet1, Bool.and_eq_true] at hq
    rw [wire1_seq] at h
    split at h
    · cases h
    · next ns s1 hl =>
      injection h with h; injection h with ha hb; subst ha hb
      obtain ⟨p, c⟩ := wireList_calm o ms hq.2 _ _ _ (preW_calm hc) hl
      exact ⟨by rw [plain1, hq.1, p]; rfl, c⟩
  | .undefElem id, _, w, n, w', hc, h => by
    rw [wire1] at h
    simp only [dnpSkips, Bool.and_false, Bool.false_eq_true, if_false] at h
    exact plainValue_calm (preW_calm hc) h
  | .undefSeq id, hq, _, _, _, _, _ => by
    rw [quiet1] at hq
    cases hq
end

theorem plainValue?_inv {o : SubsetOut} {n : Node} (h : plainValue? o n = true) :
    ∃ k i, n = .value k i [] ∧ i < o.descs.length := by
  cases n with
  | value k i attrs =>
    rw [plainValue?, Bool.and_eq_true, List.isEmpty_iff, decide_eq_true_eq] at h
    obtain ⟨ha, hi⟩ := h
    subst ha
    exact ⟨k, i, rfl, hi⟩
  | noval _ => cases h
  | seq _ _ => cases h
  | fixedRep _ _ _ => cases h
  | delayedRep _ _ _ _ => cases h

/-! ### the side conditions of the conversion theorem hold for such a tree -/

mutual
theorem plainList_treeOK (o : SubsetOut) : ∀ (ns : List Node), plainList o ns = true → treeOKList o ns = true
  | [], _ => by rw [treeOKList]
  | n :: ns, h => by
    rw [plainList, Bool.and_eq_true] at h
    rw [treeOKList, plain1_treeOK o n h.1, plainList_treeOK o ns h.2]
    rfl

theorem plain1_treeOK (o : SubsetOut) : ∀ (n : Node), plain1 o n = true → treeOK1 o n = true
  | .value k i attrs, h => by
    rw [plain1] at h
    obtain ⟨k', i', e, _⟩ := plainValue?_inv h
    injection e with _ _ e3
    subst e3
    rw [treeOK1]
    rfl
  | .noval _, _ => by rw [treeOK1]
  | .seq id ms, h => by
    rw [plain1, Bool.and_eq_true] at h
    rw [treeOK1, h.1, plainList_treeOK o ms h.2]
    rfl
  | .fixedRep id n ms, h => by
    rw [plain1, Bool.and_eq_true, Bool.and_eq_true] at h
    rw [treeOK1, h.1.1, h.1.2, plainList_treeOK o ms h.2]
    rfl
  | .delayedRep id n f ms, h => by
    rw [plain1, Bool.and_eq_true, Bool.and_eq_true, Bool.and_eq_true] at h
    obtain ⟨⟨⟨h1, h2⟩, h3⟩, h4⟩ := h
    obtain ⟨k, i, e, _⟩ := plainValue?_inv h2
    subst e
    rw [treeOK1, h1, plainList_treeOK o ms h4]
    simp only [factorOK, List.all_nil, Bool.true_and, Bool.and_true]
    exact h3
end

/-! ### nothing is attached later: the tree is final -/

theorem resolveV_plain (fuel : Nat) (k : VKind) (i : Nat) :
    resolveV [] (fuel + 1) (.value k i []) = .ok (.value k i []) := by
  rw [resolveV]
  rfl

mutual
theorem resolveList_plain (o : SubsetOut) (fuel : Nat) : ∀ (ns : List Node), plainList o ns = true →
    resolveList [] (fuel + 1) ns = .ok ns
  | [], _ => by rw [resolveList]
  | n :: ns, h => by
    rw [plainList, Bool.and_eq_true] at h
    rw [resolveList, resolve1_plain o fuel n h.1]
    simp only [resolveList_plain o fuel ns h.2]

theorem resolve1_plain (o : SubsetOut) (fuel : Nat) : ∀ (n : Node), plain1 o n = true →
    resolve1 [] (fuel + 1) n = .ok n
  | .value k i attrs, h => by
    rw [plain1] at h
    obtain ⟨k', i', e, _⟩ := plainValue?_inv h
    injection e with _ _ e3
    subst e3
    rw [resolve1, resolveV_plain]
  | .noval _, _ => by rw [resolve1]
  | .seq id ms, h => by
    rw [plain1, Bool.and_eq_true] at h
    rw [resolve1]
    simp only [resolveList_plain o fuel ms h.2]
  | .fixedRep id n ms, h => by
    rw [plain1, Bool.and_eq_true, Bool.and_eq_true] at h
    rw [resolve1]
    simp only [resolveList_plain o fuel ms h.2]
  | .delayedRep id n f ms, h => by
    rw [plain1, Bool.and_eq_true, Bool.and_eq_true, Bool.and_eq_true] at h
    obtain ⟨⟨⟨_, h2⟩, _⟩, h4⟩ := h
    obtain ⟨k, i, e, _⟩ := plainValue?_inv h2
    subst e
    rw [resolve1, resolveV_plain]
    simp only [resolveList_plain o fuel ms h4]
end

/-! ### and it can be rendered -/

theorem renderValue_plain {o : SubsetOut} (hlen : o.descs.length ≤ o.vals.length) {n : Node}
    (h : plainValue? o n = true) (isAttr : Bool) : ∃ x, renderValue o isAttr n = .ok x := by
  obtain ⟨k, i, e, hi⟩ := plainValue?_inv h
  subst e
  have h2 : i < o.vals.length := by omega
  rw [renderValue, List.getElem?_eq_getElem hi, List.getElem?_eq_getElem h2]
  simp only [renderAttrs]
  exact ⟨_, rfl⟩

mutual
theorem renderNodes_plain (o : SubsetOut) (hlen : o.descs.length ≤ o.vals.length) : ∀ (ns : List Node),
    plainList o ns = true → ∃ xs, renderNodes o ns = .ok xs
  | [], _ => ⟨[], by rw [renderNodes]⟩
  | n :: ns, h => by
    rw [plainList, Bool.and_eq_true] at h
    obtain ⟨x, hx⟩ := renderNode_plain o hlen n h.1
    obtain ⟨xs, hxs⟩ := renderNodes_plain o hlen ns h.2
    exact ⟨x :: xs, by rw [renderNodes, hx]; simp only [hxs]⟩

theorem renderNode_plain (o : SubsetOut) (hlen : o.descs.length ≤ o.vals.length) : ∀ (n : Node),
    plain1 o n = true → ∃ x, renderNode o n = .ok x
  | .value k i attrs, h => by
    rw [plain1] at h
    rw [renderNode]
    exact renderValue_plain hlen h false
  | .noval id, _ => ⟨_, by rw [renderNode]⟩
  | .seq id ms, h => by
    rw [plain1, Bool.and_eq_true] at h
    obtain ⟨xs, hxs⟩ := renderNodes_plain o hlen ms h.2
    exact ⟨_, by rw [renderNode]; simp only [hxs]; rfl⟩
  | .fixedRep id n ms, h => by
    rw [plain1, Bool.and_eq_true, Bool.and_eq_true] at h
    obtain ⟨xs, hxs⟩ := renderNodes_plain o hlen ms h.2
    exact ⟨_, by rw [renderNode]; simp only [hxs]; rfl⟩
  | .delayedRep id n f ms, h => by
    rw [plain1, Bool.and_eq_true, Bool.and_eq_true, Bool.and_eq_true] at h
    obtain ⟨⟨⟨_, h2⟩, h3⟩, h4⟩ := h
    obtain ⟨xs, hxs⟩ := renderNodes_plain o hlen ms h4
    obtain ⟨fj, hfj⟩ := renderValue_plain hlen h2 false
    obtain ⟨k, i, e, _⟩ := plainValue?_inv h2
    subst e
    simp only [countOK] at h3
    cases hc : wireCount o i with
    | error e => rw [hc] at h3; cases h3
    | ok c =>
      exact ⟨_, by rw [renderNode]; simp only [hc, hfj, hxs]; rfl⟩
end

end Bufr.C09
