/-
  C09: the link between the coder and the wiring pass, for the templates in which the coder has no state that
  the wiring pass lacks.  Two decidable classes, `quietList a` (`Desc` trees):

  * both: elements of every class (class 33 included), Table D sequences, fixed and delayed replication,
    arbitrarily nested, the operators 201, 202, 205, 207, 208 and 221; ids of replications start with the
    digit 1, ids of sequences do not (every id built from F-X-Y does; the nested JSON converter tests it);
  * `a = false`: + 203 (definition of new reference values included), no 204;
  * `a = true` : + 204YYY / 204000 (associated fields on plain elements, nested 204 included), each 204YYY
    followed at once by its 031021 (as FM-94 prescribes), no 203.
  Excluded from both: 203 together with 204 (finding F11a), 206 (F11b), the bitmap operators 222-225 / 232 /
  235-237 (F11c, F11d, F15) and sequences that are in no table.

  For such a template every successful UNCOMPRESSED decode (any primitives that record exactly one descriptor
  and one value per call, `PushOne`; `decPrimsU` does) is followed step by step by the wiring pass run on the
  FINAL flat lists: both walks advance their index together and keep the same 204 stack and 221 count
  (`WRel`), so the pass succeeds and has consumed exactly the decoded values when it ends; the tree it builds
  has the shape (`plainList`) the conversion theorem needs: value nodes whose only attribute is their associated
  field (labelled `A…` in the flat list) with its 031021 meaning, replications of `count * n_members` members.
-/
import BufrModel.Lemmas.Wire
import BufrModel.Lemmas.NestedJson
import BufrModel.View.WireClass
namespace Bufr.C09
open Bufr

/-- the registers of the coder that the wiring pass has no counterpart for are idle, and the (single) value
    list is as long as the descriptor list -/
structure Idle (a : Bool) (s : St) : Prop where
  assoc : a = false → s.regs.assocStack = []
  nref : a = true → s.regs.nbitsNewRefval = 0
  bdef : s.regs.bitmapDef = .na
  qa : s.regs.qa = .na
  skipped : s.regs.nbitsSkipped = 0
  vals : ∃ l, s.vals.head? = some l ∧ l.length = s.descs.length
  al : ∀ l ∈ s.vals, l.length = s.descs.length

/-- the descriptor `dd` and one value were recorded; the registers both walks look at are unchanged -/
structure Pushed (dd : DDesc) (s s' : St) : Prop where
  descs : s'.descs = dd :: s.descs
  vals : ∀ l, s.vals.head? = some l → ∃ v, s'.vals.head? = some (v :: l)
  al : (∀ l ∈ s.vals, l.length = s.descs.length) → ∀ l ∈ s'.vals, l.length = s'.descs.length
  assoc : s'.regs.assocStack = s.regs.assocStack
  nref : s'.regs.nbitsNewRefval = s.regs.nbitsNewRefval
  bdef : s'.regs.bitmapDef = s.regs.bitmapDef
  qa : s'.regs.qa = s.regs.qa
  skipped : s'.regs.nbitsSkipped = s.regs.nbitsSkipped
  dnp : s'.regs.dnpCount = s.regs.dnpCount
  links : s'.links = s.links

/-- what the simulation needs from the primitives -/
structure PushOne (P : Prims) : Prop where
  numeric : ∀ dd a b c s s', P.numeric dd a b c s = .ok s' → Pushed dd s s'
  string : ∀ dd n s s', P.string dd n s = .ok s' → Pushed dd s s'
  codeflag : ∀ dd n s s', P.codeflag dd n s = .ok s' → Pushed dd s s'
  newRefval : ∀ e n s s', P.newRefval e n s = .ok s' → Pushed (.plain e) s s'
  constant : ∀ dd v s s', P.constant dd v s = .ok s' → Pushed dd s s'
  factor : ∀ s v l, P.factorValue s = .ok v → s.vals.head? = some l → l.head? = some v

/-- `s'` was reached from `s` by recording descriptors and values only -/
def Ext (s s' : St) : Prop :=
  ∃ dl vl l, s.vals.head? = some l ∧ s'.vals.head? = some (vl ++ l) ∧ s'.descs = dl ++ s.descs

theorem Ext.refl {a : Bool} {s : St} (h : Idle a s) : Ext s s := by
  obtain ⟨l, hl, _⟩ := h.vals
  exact ⟨[], [], l, hl, by simpa using hl, rfl⟩

theorem Ext.trans {a b c : St} (h1 : Ext a b) (h2 : Ext b c) : Ext a c := by
  obtain ⟨d1, v1, l1, e1, e2, e3⟩ := h1
  obtain ⟨d2, v2, l2, f1, f2, f3⟩ := h2
  rw [e2] at f1
  injection f1 with f1
  subst f1
  exact ⟨d2 ++ d1, v2 ++ v1, l1, e1, by rw [f2, List.append_assoc], by rw [f3, e3, List.append_assoc]⟩

theorem Pushed.ext {a : Bool} {dd : DDesc} {s s' : St} (hi : Idle a s) (h : Pushed dd s s') : Ext s s' := by
  obtain ⟨l, hl, _⟩ := hi.vals
  obtain ⟨v, hv⟩ := h.vals l hl
  exact ⟨[dd], [v], l, hl, hv, h.descs⟩

theorem Pushed.idle {a : Bool} {dd : DDesc} {s s' : St} (hi : Idle a s) (h : Pushed dd s s') : Idle a s' := by
  obtain ⟨l, hl, hn⟩ := hi.vals
  obtain ⟨v, hv⟩ := h.vals l hl
  exact ⟨fun ha => h.assoc.trans (hi.assoc ha), fun ha => h.nref.trans (hi.nref ha), h.bdef.trans hi.bdef,
    h.qa.trans hi.qa, h.skipped.trans hi.skipped,
    ⟨v :: l, hv, by rw [h.descs, List.length_cons, List.length_cons, hn]⟩, h.al hi.al⟩

/-! ### the coder's side -/

theorem bitmapDefinition_na (P : Prims) (id : Nat) (s : St) (h : s.regs.bitmapDef = .na) :
    bitmapDefinition P id s = .ok s := by
  unfold bitmapDefinition
  rw [h]

/-- an element records its associated field (when 204 is in force and the class is not 31) and itself -/
theorem elementDescriptor_pushed {P : Prims} (hP : PushOne P) {a : Bool} {dd : DDesc} {e : Elem} {s s' : St}
    (hi : Idle a s) (h : elementDescriptor P dd e s = .ok s') :
    (s.regs.assocStack ≠ [] ∧ xOf e.id ≠ 31 ∧
        ∃ s1, Pushed (.assoc e.id s.regs.assocStack.sum) s s1 ∧ Pushed dd s1 s') ∨
    ((s.regs.assocStack = [] ∨ xOf e.id = 31) ∧ Pushed dd s s') := by
  unfold elementDescriptor at h
  by_cases hc : s.regs.assocStack ≠ [] ∧ xOf e.id ≠ 31
  · left
    refine ⟨hc.1, hc.2, ?_⟩
    simp only [if_pos hc, bind, Except.bind] at h
    unfold associatedField at h
    split at h
    · cases h
    · next s1 h1 =>
      have hp1 := hP.codeflag _ _ _ _ h1
      refine ⟨s1, hp1, ?_⟩
      have hq1 : s1.regs.qa = .na := hp1.qa.trans hi.qa
      simp only [hq1, reduceCtorEq, if_false, ite_self, pure, Except.pure] at h
      split at h
      · exact hP.string _ _ _ _ h
      · exact hP.codeflag _ _ _ _ h
      · split at h
        · exact hP.numeric _ _ _ _ _ _ h
        · exact hP.numeric _ _ _ _ _ _ h
  · right
    refine ⟨by
      by_cases h1 : s.regs.assocStack = []
      · exact Or.inl h1
      · exact Or.inr (by
          by_cases h2 : xOf e.id = 31
          · exact h2
          · exact absurd ⟨h1, h2⟩ hc), ?_⟩
    simp only [if_neg hc, hi.qa, reduceCtorEq, if_false, ite_self, bind, Except.bind, pure, Except.pure] at h
    split at h
    · exact hP.string _ _ _ _ h
    · exact hP.codeflag _ _ _ _ h
    · split at h
      · exact hP.numeric _ _ _ _ _ _ h
      · exact hP.numeric _ _ _ _ _ _ h

/-! ### the wiring pass's side -/

/-- the wiring state follows the coder state; nothing has been attached through a bitmap link -/
structure WRel (s : St) (w : WSt) : Prop where
  next : w.next = s.descs.length
  dnp : w.dnp = s.regs.dnpCount
  assoc : w.assoc = s.regs.assocStack
  waitQa : w.waitQa = false
  tab : w.tab = []

/-- while an associated field is in force its 031021 meaning node is known -/
def Meant (o : SubsetOut) (w : WSt) : Prop :=
  w.assoc ≠ [] → ∃ m, w.assocMeaning = some m ∧ m < o.descs.length

/-- the flat lists of `s` are initial segments of the final output `o` -/
def Below (o : SubsetOut) (s : St) : Prop :=
  ∃ l, s.vals.head? = some l ∧ l.reverse <+: o.vals ∧ s.descs.reverse <+: o.descs

theorem Below.of_ext {o : SubsetOut} {s s' : St} (h : Ext s s') (hb : Below o s') : Below o s := by
  obtain ⟨dl, vl, l, e1, e2, e3⟩ := h
  obtain ⟨l', f1, f2, f3⟩ := hb
  rw [e2] at f1
  injection f1 with f1
  subst f1
  refine ⟨l, e1, ?_, ?_⟩
  · rw [List.reverse_append] at f2
    exact (List.prefix_append _ _).trans f2
  · rw [e3, List.reverse_append] at f3
    exact (List.prefix_append _ _).trans f3

theorem Below.len {o : SubsetOut} {s : St} (hb : Below o s) : s.descs.length ≤ o.descs.length := by
  obtain ⟨_, _, _, h⟩ := hb
  have := h.length_le
  simpa using this

/-- the label recorded at position `|r|` is the label found there in the final list -/
theorem Below.label {o : SubsetOut} {s : St} {dd : DDesc} {r : List DDesc} (hb : Below o s)
    (hd : s.descs = dd :: r) : o.descs[r.length]? = some dd := by
  obtain ⟨_, _, _, t, ht⟩ := hb
  rw [hd, List.reverse_cons, List.append_assoc] at ht
  rw [← ht, List.getElem?_append_right (by simp)]
  simp

/-! the shape of the tree -/

/-- no attribute, or the associated field (labelled so in the flat list) with its meaning -/
def attrsOK (o : SubsetOut) : List Node → Bool
  | [] => true
  | [.value .assoc a [.value .value m []]] =>
    decide (a < o.descs.length) && decide (m < o.descs.length) &&
      (match o.descs[a]? with | some d => d.isAssoc | none => false)
  | _ => false

def plainValue? (o : SubsetOut) : Node → Bool
  | .value _ i attrs => attrsOK o attrs && decide (i < o.descs.length)
  | _ => false

/-- the members of a delayed replication are `count * n_members` nodes, the count being read where the renderers read it -/
def countOK (o : SubsetOut) (n len : Nat) : Node → Bool
  | .value _ i _ => (match wireCount o i with | .ok c => len == c * n | .error _ => false)
  | _ => false

mutual
/-- value nodes with at most their associated field and with indices inside the flat lists, composite ids as the
    converter expects them, replications as long as their count says -/
def plainList (o : SubsetOut) : List Node → Bool
  | [] => true
  | n :: ns => plain1 o n && plainList o ns

def plain1 (o : SubsetOut) : Node → Bool
  | .value k i attrs => plainValue? o (.value k i attrs)
  | .noval _ => true
  | .seq id ms => id / 100000 != 1 && plainList o ms
  | .fixedRep id n ms => id / 100000 == 1 && ms.length == yOf id * n && plainList o ms
  | .delayedRep id n f ms =>
    id / 100000 == 1 && plainValue? o f && countOK o n ms.length f && plainList o ms
end

theorem plainList_append (o : SubsetOut) : ∀ (a b : List Node),
    plainList o (a ++ b) = (plainList o a && plainList o b)
  | [], b => by rw [List.nil_append, plainList]; rfl
  | x :: xs, b => by
    rw [List.cons_append, plainList, plainList, plainList_append o xs b, Bool.and_assoc]

theorem take_sim {o : SubsetOut} {dd : DDesc} {s s1 : St} {w : WSt} (hp : Pushed dd s s1) (hw : WRel s w)
    (hb : Below o s1) :
    w.take o = .ok (w.next, { w with next := w.next + 1 }) ∧ w.next < o.descs.length ∧
      o.descs[w.next]? = some dd ∧
      WRel s1 (({ w with next := w.next + 1 } : WSt).register w.next) := by
  have hlen := hb.len
  rw [hp.descs, List.length_cons] at hlen
  have hlt : w.next < o.descs.length := by rw [hw.next]; omega
  refine ⟨by unfold WSt.take; rw [if_pos hlt], hlt, by rw [hw.next]; exact hb.label hp.descs, ?_⟩
  exact ⟨by simp [WSt.register, hp.descs, hw.next], by simp [WSt.register, hw.dnp, hp.dnp],
    by simp [WSt.register, hw.assoc, hp.assoc], by simp [WSt.register, hw.waitQa], by simp [WSt.register, hw.tab]⟩

theorem valueNode_sim {o : SubsetOut} {dd : DDesc} {s s1 : St} {w : WSt} (hp : Pushed dd s s1) (hw : WRel s w)
    (hb : Below o s1) :
    ∃ w', w.valueNode o = .ok (.value .value w.next [], w.next, w') ∧ WRel s1 w' ∧ w.next < o.descs.length ∧
      w'.assocMeaning = w.assocMeaning ∧ w'.assoc = w.assoc := by
  obtain ⟨ht, hlt, _, hw1⟩ := take_sim hp hw hb
  refine ⟨_, ?_, hw1, hlt, rfl, rfl⟩
  unfold WSt.valueNode
  rw [ht]

theorem plain1_value_nil {o : SubsetOut} {k : VKind} {i : Nat} (h : i < o.descs.length) :
    plain1 o (.value k i []) = true := by
  simp [plain1, plainValue?, attrsOK, h]

theorem plainValue_sim {o : SubsetOut} {dd : DDesc} {s s1 : St} {w : WSt} (hp : Pushed dd s s1) (hw : WRel s w)
    (hb : Below o s1) :
    ∃ n w', w.plainValue o = .ok (n, w') ∧ WRel s1 w' ∧ (Meant o w → Meant o w') ∧ plain1 o n = true := by
  obtain ⟨w', h1, h2, hlt, hm, ha⟩ := valueNode_sim hp hw hb
  refine ⟨_, w', by unfold WSt.plainValue; rw [h1], h2, ?_, plain1_value_nil hlt⟩
  intro hM
  unfold Meant
  rw [ha, hm]
  exact hM

/-- an element without associated field -/
theorem wireElement_sim1 {o : SubsetOut} {id : Nat} {dd : DDesc} {s s1 : St} {w : WSt} (hp : Pushed dd s s1)
    (hw : WRel s w) (hb : Below o s1) (hc : s.regs.assocStack = [] ∨ xOf id = 31) :
    ∃ n w', wireElement o id w = .ok (n, w') ∧ WRel s1 w' ∧ ((id ≠ 31021 → Meant o w) → Meant o w') ∧
      plain1 o n = true := by
  obtain ⟨w', h1, h2, hlt, hm, ha⟩ := valueNode_sim hp hw hb
  have hc' : ¬ (w.assoc ≠ [] ∧ xOf id ≠ 31) := by
    rw [hw.assoc]
    rintro ⟨c1, c2⟩
    rcases hc with hc | hc
    · exact c1 hc
    · exact c2 hc
  unfold wireElement
  simp only [if_neg hc', hw.waitQa, Bool.false_eq_true, and_false, if_false, h1]
  have hkeep : (id ≠ 31021 → Meant o w) → id ≠ 31021 → Meant o w' := by
    intro hM hne
    unfold Meant
    rw [ha, hm]
    exact hM hne
  split
  · next hid =>
    refine ⟨_, _, rfl, ⟨h2.next, h2.dnp, h2.assoc, h2.waitQa, h2.tab⟩, ?_, plain1_value_nil hlt⟩
    intro _ _
    exact ⟨w.next, rfl, hlt⟩
  · next hid =>
    have hMeant : (id ≠ 31021 → Meant o w) → Meant o w' := by
      intro hM
      by_cases h31 : id = 31021
      · intro hne
        exact absurd ⟨h31, hne⟩ hid
      · exact hkeep hM h31
    split
    · refine ⟨_, _, rfl, ⟨h2.next, h2.dnp, h2.assoc, h2.waitQa, h2.tab⟩, ?_, plain1_value_nil hlt⟩
      intro hM; exact hMeant hM
    · split
      · refine ⟨_, _, rfl, ⟨h2.next, h2.dnp, h2.assoc, h2.waitQa, h2.tab⟩, ?_, plain1_value_nil hlt⟩
        intro hM; exact hMeant hM
      · exact ⟨_, _, rfl, h2, hMeant, plain1_value_nil hlt⟩

/-- an element with its associated field: two indices, the field (labelled `A…`) first -/
theorem wireElement_sim2 {o : SubsetOut} {id n : Nat} {dd : DDesc} {s s1 s2 : St} {w : WSt}
    (hp1 : Pushed (.assoc id n) s s1) (hp2 : Pushed dd s1 s2) (hw : WRel s w) (hM : Meant o w) (hb : Below o s2)
    (hi1 : ∃ a, Idle a s1)
    (hc : s.regs.assocStack ≠ [] ∧ xOf id ≠ 31) :
    ∃ nd w', wireElement o id w = .ok (nd, w') ∧ WRel s2 w' ∧ Meant o w' ∧ plain1 o nd = true := by
  obtain ⟨a, hi1⟩ := hi1
  have hb1 : Below o s1 := Below.of_ext (hp2.ext hi1) hb
  obtain ⟨ht1, hlt1, hlab, hw1⟩ := take_sim hp1 hw hb1
  have hc' : w.assoc ≠ [] ∧ xOf id ≠ 31 := by rw [hw.assoc]; exact hc
  obtain ⟨m, hm, hmlt⟩ := hM hc'.1
  -- the second index
  have hw1' : WRel s1 ({ w with next := w.next + 1 } : WSt) :=
    ⟨hw1.next, hw1.dnp, hw1.assoc, hw1.waitQa, hw1.tab⟩
  obtain ⟨ht2, hlt2, _, hw2⟩ := take_sim hp2 hw1' hb
  have hlt2' : w.next + 1 < o.descs.length := hlt2
  unfold wireElement
  simp only [if_pos hc', ht1, hm]
  unfold WSt.take
  simp only [if_pos hlt2']
  refine ⟨_, _, rfl, ⟨?_, ?_, ?_, ?_, ?_⟩, ?_, ?_⟩
  · simpa [WSt.register] using hw2.next
  · simpa [WSt.register] using hw2.dnp
  · simpa [WSt.register] using hw2.assoc
  · simpa [WSt.register] using hw2.waitQa
  · simpa [WSt.register] using hw2.tab
  · intro _
    exact ⟨m, rfl, hmlt⟩
  · simp only [plain1, plainValue?, attrsOK, hlab, DDesc.isAssoc]
    simp [hlt1, hmlt, hlt2']

theorem setRegs_idle {a : Bool} {s : St} {f : Regs → Regs} (hi : Idle a s)
    (ha : a = false → (f s.regs).assocStack = s.regs.assocStack)
    (hn : a = true → (f s.regs).nbitsNewRefval = s.regs.nbitsNewRefval)
    (hb : (f s.regs).bitmapDef = s.regs.bitmapDef)
    (hq : (f s.regs).qa = s.regs.qa) (hs : (f s.regs).nbitsSkipped = s.regs.nbitsSkipped) :
    Idle a (s.setRegs f) ∧ Ext s (s.setRegs f) := by
  obtain ⟨l, hl, hlen⟩ := hi.vals
  refine ⟨⟨fun h => (ha h).trans (hi.assoc h), fun h => (hn h).trans (hi.nref h), hb.trans hi.bdef,
    hq.trans hi.qa, hs.trans hi.skipped, ⟨l, hl, hlen⟩, hi.al⟩, ?_⟩
  exact ⟨[], [], l, hl, by simpa [St.setRegs] using hl, rfl⟩

/-- an operator that changes registers only, on both sides -/
theorem regsOnly_sim {a : Bool} {s s' : St} {f : Regs → Regs} (hi : Idle a s)
    (h : (Except.ok (s.setRegs f) : CM St) = .ok s')
    (ha : a = false → (f s.regs).assocStack = s.regs.assocStack)
    (hn : a = true → (f s.regs).nbitsNewRefval = s.regs.nbitsNewRefval)
    (hb : (f s.regs).bitmapDef = s.regs.bitmapDef)
    (hq : (f s.regs).qa = s.regs.qa) (hs : (f s.regs).nbitsSkipped = s.regs.nbitsSkipped) :
    (Idle a s' ∧ Ext s s') ∧ ∀ (w w' : WSt), WRel s w → w'.next = w.next → w'.dnp = (f s.regs).dnpCount →
      w'.assoc = (f s.regs).assocStack → w'.waitQa = w.waitQa → w'.tab = w.tab → WRel s' w' := by
  injection h with h
  subst h
  refine ⟨setRegs_idle hi ha hn hb hq hs, fun w w' hw h1 h2 h3 h4 h5 => ⟨?_, ?_, ?_, ?_, ?_⟩⟩
  · rw [h1, hw.next]; rfl
  · rw [h2]; rfl
  · rw [h3]; rfl
  · rw [h4, hw.waitQa]
  · rw [h5, hw.tab]

/-- `Meant` only looks at the 204 stack and the meaning node -/
theorem Meant.of_eq {o : SubsetOut} {w w' : WSt} (h : Meant o w) (ha : w'.assoc = w.assoc)
    (hm : w'.assocMeaning = w.assocMeaning) : Meant o w' := by
  unfold Meant
  rw [ha, hm]
  exact h

set_option linter.unusedSimpArgs false in
theorem operator_sim {P : Prims} (hP : PushOne P) {a : Bool} {id : Nat} (hq : quietOp a id = true) {s s' : St}
    (hi : Idle a s) (h : operatorDescriptor P id s = .ok s') :
    (Idle a s' ∧ Ext s s') ∧ ∀ o w, WRel s w → Below o s' →
      ∃ n w', wireOperator o id w = .ok (n, w') ∧ WRel s' w' ∧
        (opens204 (.op id) = false → Meant o w → Meant o w') ∧ plain1 o n = true := by
  unfold quietOp at hq
  simp only [Bool.or_eq_true, beq_iff_eq, Bool.and_eq_true, Bool.not_eq_true'] at hq
  unfold operatorDescriptor at h
  unfold wireOperator wireOperatorCY
  simp only [] at h ⊢
  rcases hq with (((((((h1 | h1) | ⟨h1, h2⟩) | ⟨h1, h2⟩) | h1) | h1) | h1) | h1) <;>
    simp only [h1, Nat.reduceEqDiff, true_or, or_true, or_false, false_or, if_true, if_false] at h ⊢
  · obtain ⟨x, b⟩ := regsOnly_sim hi h (fun _ => rfl) (fun _ => rfl) rfl rfl rfl
    exact ⟨x, fun o w hw _ => ⟨_, w, rfl, b w w hw rfl (by rw [hw.dnp]) (by rw [hw.assoc]) rfl rfl, fun _ hM => hM, rfl⟩⟩
  · obtain ⟨x, b⟩ := regsOnly_sim hi h (fun _ => rfl) (fun _ => rfl) rfl rfl rfl
    exact ⟨x, fun o w hw _ => ⟨_, w, rfl, b w w hw rfl (by rw [hw.dnp]) (by rw [hw.assoc]) rfl rfl, fun _ hM => hM, rfl⟩⟩
  · -- 203 (a = false)
    split at h
    · obtain ⟨x, b⟩ := regsOnly_sim hi h (fun _ => rfl) (fun ha => by rw [h2] at ha; cases ha) rfl rfl rfl
      exact ⟨x, fun o w hw _ => ⟨_, w, rfl, b w w hw rfl (by rw [hw.dnp]) (by rw [hw.assoc]) rfl rfl, fun _ hM => hM, rfl⟩⟩
    · split at h
      · obtain ⟨x, b⟩ := regsOnly_sim hi h (fun _ => rfl) (fun ha => by rw [h2] at ha; cases ha) rfl rfl rfl
        exact ⟨x, fun o w hw _ => ⟨_, w, rfl, b w w hw rfl (by rw [hw.dnp]) (by rw [hw.assoc]) rfl rfl, fun _ hM => hM, rfl⟩⟩
      · obtain ⟨x, b⟩ := regsOnly_sim hi h (fun _ => rfl) (fun ha => by rw [h2] at ha; cases ha) rfl rfl rfl
        exact ⟨x, fun o w hw _ => ⟨_, w, rfl, b w w hw rfl (by rw [hw.dnp]) (by rw [hw.assoc]) rfl rfl, fun _ hM => hM, rfl⟩⟩
  · -- 204 (a = true)
    split at h
    · next hy =>
      split at h
      · cases h
      · next hne =>
        obtain ⟨x, b⟩ := regsOnly_sim hi h (fun ha => by rw [h2] at ha; cases ha) (fun _ => rfl) rfl rfl rfl
        refine ⟨x, fun o w hw _ => ?_⟩
        have hne' : ¬ w.assoc = [] := by rw [hw.assoc]; exact hne
        simp only [hy, if_true, if_neg hne']
        refine ⟨_, _, rfl, b w _ hw rfl (by rw [hw.dnp]) (by simp [hw.assoc]) rfl rfl, ?_, rfl⟩
        intro _ hM hnn
        exact hM (by
          intro h0
          apply hnn
          simp [h0])
    · next hy =>
      obtain ⟨x, b⟩ := regsOnly_sim hi h (fun ha => by rw [h2] at ha; cases ha) (fun _ => rfl) rfl rfl rfl
      refine ⟨x, fun o w hw _ => ?_⟩
      simp only [if_neg hy]
      refine ⟨_, _, rfl, b w _ hw rfl (by rw [hw.dnp]) (by simp [hw.assoc]) rfl rfl, ?_, rfl⟩
      intro ho
      simp [opens204, h1, hy] at ho
  · have hp := hP.string _ _ _ _ h
    refine ⟨⟨hp.idle hi, hp.ext hi⟩, fun o w hw hb => ?_⟩
    obtain ⟨n, w', e, hw', hM, hg⟩ := plainValue_sim hp hw hb
    exact ⟨n, w', e, hw', fun _ => hM, hg⟩
  · obtain ⟨x, b⟩ := regsOnly_sim hi h (fun _ => rfl) (fun _ => rfl) rfl rfl rfl
    exact ⟨x, fun o w hw _ => ⟨_, w, rfl, b w w hw rfl (by rw [hw.dnp]) (by rw [hw.assoc]) rfl rfl, fun _ hM => hM, rfl⟩⟩
  · obtain ⟨x, b⟩ := regsOnly_sim hi h (fun _ => rfl) (fun _ => rfl) rfl rfl rfl
    exact ⟨x, fun o w hw _ => ⟨_, w, rfl, b w w hw rfl (by rw [hw.dnp]) (by rw [hw.assoc]) rfl rfl, fun _ hM => hM, rfl⟩⟩
  · obtain ⟨x, b⟩ := regsOnly_sim hi h (fun _ => rfl) (fun _ => rfl) rfl rfl rfl
    exact ⟨x, fun o w hw _ => ⟨_, _, rfl, b w _ hw rfl rfl (by rw [hw.assoc]) rfl rfl, fun _ hM => hM.of_eq rfl rfl, rfl⟩⟩

/-! ### composition -/

/-- the piece of the coder's walk from `s` to `s'` is followed by the piece `run` of the wiring pass; `pre`: when
    the meaning node has to be known before, `post`: when it is known afterwards; `good`: the shape of the result -/
def Sim {α : Type} (a : Bool) (pre post : Prop) (good : SubsetOut → α → Prop) (s s' : St)
    (run : SubsetOut → WSt → CM (α × WSt)) : Prop :=
  (Idle a s' ∧ Ext s s') ∧ ∀ o w, WRel s w → (pre → Meant o w) → Below o s' →
    ∃ n w', run o w = .ok (n, w') ∧ WRel s' w' ∧ (post → Meant o w') ∧ good o n

theorem Sim.seq {α β γ : Type} {a : Bool} {p1 q1 p2 q2 : Prop} {g1 : SubsetOut → α → Prop}
    {g2 : SubsetOut → β → Prop} {g : SubsetOut → γ → Prop} {s s1 s' : St}
    {r1 : SubsetOut → WSt → CM (α × WSt)} {r2 : SubsetOut → WSt → CM (β × WSt)}
    {r : SubsetOut → WSt → CM (γ × WSt)}
    (h1 : Sim a p1 q1 g1 s s1 r1) (h2 : Sim a p2 q2 g2 s1 s' r2) (hpq : p2 → q1)
    (hr : ∀ o w x w1 y w2, r1 o w = .ok (x, w1) → r2 o w1 = .ok (y, w2) → g1 o x → g2 o y →
      ∃ c, r o w = .ok (c, w2) ∧ g o c) :
    Sim a p1 q2 g s s' r := by
  refine ⟨⟨h2.1.1, h1.1.2.trans h2.1.2⟩, fun o w hw hM hb => ?_⟩
  obtain ⟨x, w1, e1, hw1, hM1, gx⟩ := h1.2 o w hw hM (Below.of_ext h2.1.2 hb)
  obtain ⟨y, w2, e2, hw2, hM2, gy⟩ := h2.2 o w1 hw1 (fun hp => hM1 (hpq hp)) hb
  obtain ⟨c, e, gc⟩ := hr o w x w1 y w2 e1 e2 gx gy
  exact ⟨c, w2, e, hw2, hM2, gc⟩

theorem Sim.mono {α : Type} {a : Bool} {p q p' q' : Prop} {g : SubsetOut → α → Prop} {s s' : St}
    {r : SubsetOut → WSt → CM (α × WSt)} (h : Sim a p q g s s' r) (hp : p → p') (hq : q' → q) :
    Sim a p' q' g s s' r := by
  refine ⟨h.1, fun o w hw hM hb => ?_⟩
  obtain ⟨n, w', e, hw', hM', gn⟩ := h.2 o w hw (fun x => hM (hp x)) hb
  exact ⟨n, w', e, hw', fun x => hM' (hq x), gn⟩

theorem Sim.refl {α : Type} {a : Bool} {s : St} (hi : Idle a s) {g : SubsetOut → α → Prop}
    {run : SubsetOut → WSt → CM (α × WSt)} (x : α) (h : ∀ o w, run o w = .ok (x, w)) (hg : ∀ o, g o x) :
    Sim a True True g s s run :=
  ⟨⟨hi, Ext.refl hi⟩, fun o w hw hM _ => ⟨x, w, h o w, hw, hM, hg o⟩⟩

theorem iter_sim {a : Bool} {f : St → CM St} {g : SubsetOut → WSt → CM (List Node × WSt)}
    (hf : ∀ s s', Idle a s → f s = .ok s' → Sim a True True (fun o ns => plainList o ns = true) s s' g) :
    ∀ n s s', Idle a s → iterN n f s = .ok s' →
      Sim a True True (fun o ns => plainList o ns = true) s s' (fun o w => wireRepeat (g o) n w) := by
  intro n
  induction n with
  | zero =>
    intro s s' hi h
    unfold iterN at h
    injection h with h
    subst h
    exact Sim.refl hi [] (fun o w => by unfold wireRepeat; rfl) (fun o => by rw [plainList])
  | succ n ih =>
    intro s s' hi h
    unfold iterN at h
    split at h
    · cases h
    · next s1 h1 =>
      have x := hf s s1 hi h1
      have y := ih s1 s' x.1.1 h
      refine Sim.seq x y (fun t => t) (fun o w x w1 y w2 e1 e2 gx gy => ⟨x ++ y, ?_, ?_⟩)
      · show wireRepeat (g o) (n + 1) w = _
        rw [wireRepeat, e1]
        simp only [e2]
      · show plainList o (x ++ y) = true
        rw [plainList_append, gx, gy]
        rfl

/-! ### one step of both walks: the common prelude, then the dispatch -/

/-- the 221 count is decremented first, by both walks -/
abbrev preS (s0 : St) : St :=
  if s0.regs.dnpCount ≠ 0 then s0.setRegs fun r => { r with dnpCount := s0.regs.dnpCount - 1 } else s0

abbrev preW (w0 : WSt) : WSt := if w0.dnp ≠ 0 then { w0 with dnp := w0.dnp - 1 } else w0

theorem preS_idle {a : Bool} {s0 : St} (hi : Idle a s0) : Idle a (preS s0) ∧ Ext s0 (preS s0) := by
  unfold preS
  split
  · exact setRegs_idle hi (fun _ => rfl) (fun _ => rfl) rfl rfl rfl
  · exact ⟨hi, Ext.refl hi⟩

theorem pre_rel {s0 : St} {w0 : WSt} (hw : WRel s0 w0) : WRel (preS s0) (preW w0) := by
  unfold preS preW
  rw [hw.dnp]
  split
  · exact ⟨hw.next, rfl, hw.assoc, hw.waitQa, hw.tab⟩
  · exact hw

theorem pre_meant {o : SubsetOut} {w0 : WSt} (h : Meant o w0) : Meant o (preW w0) := by
  unfold preW
  split
  · exact h.of_eq rfl rfl
  · exact h

theorem preS_assoc (s0 : St) : (preS s0).regs.assocStack = s0.regs.assocStack := by
  unfold preS
  split <;> rfl

theorem walk1_fixed (P : Prims) (id : Nat) (ms : List Desc) (s0 : St) {a : Bool} (hi : Idle a s0) :
    walk1 P (.fixedRep id ms) s0 = iterN (yOf id) (walkList P ms) (preS s0) := by
  have hp := (preS_idle hi).1
  rw [walk1] <;> first | (intro e h; cases h) | skip
  simp only [Bool.and_false, Bool.false_eq_true, if_false, ite_self]
  rw [if_neg (by rw [hp.skipped]; simp), Desc.id, bitmapDefinition_na P _ _ hp.bdef]

theorem walk1_delayed (P : Prims) (id : Nat) (f : Desc) (ms : List Desc) (s0 : St) {a : Bool} (hi : Idle a s0) :
    walk1 P (.delayedRep id f ms) s0 =
      (match f with
       | .elem fe =>
         match elementDescriptor P (.plain fe) fe (preS s0) with
         | .error e => .error e
         | .ok s1 =>
           match P.factorValue s1 >>= factorCount with
           | .error e => .error e
           | .ok n => iterN n (walkList P ms) s1
       | _ => .error .unknownDescr) := by
  have hp := (preS_idle hi).1
  rw [walk1] <;> first | (intro e h; cases h) | skip
  simp only [Bool.and_false, Bool.false_eq_true, if_false, ite_self]
  rw [if_neg (by rw [hp.skipped]; simp), Desc.id, bitmapDefinition_na P _ _ hp.bdef]
  rfl

theorem walk1_op (P : Prims) (id : Nat) (s0 : St) {a : Bool} (hi : Idle a s0) :
    walk1 P (.op id) s0 = operatorDescriptor P id (preS s0) := by
  have hp := (preS_idle hi).1
  rw [walk1] <;> first | (intro e h; cases h) | skip
  simp only [Bool.and_false, Bool.false_eq_true, if_false, ite_self]
  rw [if_neg (by rw [hp.skipped]; simp), Desc.id, bitmapDefinition_na P _ _ hp.bdef]

theorem walk1_seq (P : Prims) (id : Nat) (ms : List Desc) (s0 : St) {a : Bool} (hi : Idle a s0) :
    walk1 P (.seq id ms) s0 = walkList P ms (preS s0) := by
  have hp := (preS_idle hi).1
  rw [walk1] <;> first | (intro e h; cases h) | skip
  simp only [Bool.and_false, Bool.false_eq_true, if_false, ite_self]
  rw [if_neg (by rw [hp.skipped]; simp), Desc.id, bitmapDefinition_na P _ _ hp.bdef]

theorem walk1_undefElem (P : Prims) (id : Nat) (s0 : St) {a : Bool} (hi : Idle a s0) :
    walk1 P (.undefElem id) s0 = .error .unknownDescr := by
  have hp := (preS_idle hi).1
  rw [walk1] <;> first | (intro e h; cases h) | skip
  simp only [Bool.and_false, Bool.false_eq_true, if_false, ite_self]
  rw [if_neg (by rw [hp.skipped]; simp), Desc.id, bitmapDefinition_na P _ _ hp.bdef]

theorem walk1_elem (P : Prims) (e : Elem) (s0 : St) {a : Bool} (hi : Idle a s0) :
    walk1 P (.elem e) s0 =
      (if (decide (s0.regs.dnpCount ≠ 0) && dnpSkips (.elem e)) = true then .ok (preS s0)
       else if (preS s0).regs.nbitsNewRefval ≠ 0 then
         (if e.kind = .string then .error .lib else P.newRefval e (preS s0).regs.nbitsNewRefval (preS s0))
       else elementDescriptor P (.plain e) e (preS s0)) := by
  have hp := (preS_idle hi).1
  rw [walk1]
  simp only [dnpSkips]
  split
  · next hs => simp only [hs, ↓reduceIte]
  · next hs =>
    simp only [hs, Bool.false_eq_true, if_false]
    by_cases hn : (preS s0).regs.nbitsNewRefval ≠ 0
    · simp only [if_pos hn]
    · simp only [if_neg hn]
      rw [if_neg (by rw [hp.skipped]; simp), Desc.id, bitmapDefinition_na P _ _ hp.bdef]

theorem wire1_fixed (o : SubsetOut) (id : Nat) (ms : List Desc) (w0 : WSt) :
    wire1 o (.fixedRep id ms) w0 =
      (match wireRepeat (wireList o ms) (yOf id) (preW w0) with
       | .error e => .error e
       | .ok (ns, s') => .ok (.fixedRep id ms.length ns, s')) := by
  rw [wire1]
  simp only [dnpSkips, Bool.and_false, Bool.false_eq_true, if_false]
  rfl

theorem wire1_delayed (o : SubsetOut) (id : Nat) (f : Desc) (ms : List Desc) (w0 : WSt) :
    wire1 o (.delayedRep id f ms) w0 =
      (match (preW w0).take o with
       | .error e => .error e
       | .ok (i, s1) =>
         match wireCount o i with
         | .error e => .error e
         | .ok n =>
           match wireRepeat (wireList o ms) n (s1.register i) with
           | .error e => .error e
           | .ok (ns, s') => .ok (.delayedRep id ms.length (.value .value i []) ns, s')) := by
  rw [wire1]
  simp only [dnpSkips, Bool.and_false, Bool.false_eq_true, if_false]
  rfl

theorem wire1_op (o : SubsetOut) (id : Nat) (w0 : WSt) :
    wire1 o (.op id) w0 = wireOperator o id (preW w0) := by
  rw [wire1]
  simp only [dnpSkips, Bool.and_false, Bool.false_eq_true, if_false]

theorem wire1_seq (o : SubsetOut) (id : Nat) (ms : List Desc) (w0 : WSt) :
    wire1 o (.seq id ms) w0 =
      (match wireList o ms (preW w0) with
       | .error e => .error e
       | .ok (ns, s') => .ok (.seq id ns, s')) := by
  rw [wire1]
  simp only [dnpSkips, Bool.and_false, Bool.false_eq_true, if_false]
  rfl

theorem wire1_elem (o : SubsetOut) (e : Elem) (w0 : WSt) :
    wire1 o (.elem e) w0 =
      (if (decide (w0.dnp ≠ 0) && dnpSkips (.elem e)) = true then .ok (.noval e.id, preW w0)
       else wireElement o e.id (preW w0)) := by
  rw [wire1]
  rfl

/-! ### the simulation -/

theorem x31_of_31021 {id : Nat} (h : id = 31021) : xOf id = 31 := by
  subst h
  rfl

/-- the replication count the wiring pass reads from the final value list is the one the coder used -/
theorem count_sim {P : Prims} (hP : PushOne P) {a : Bool} {o : SubsetOut} {dd : DDesc} {s s1 : St} {n : Nat}
    {w : WSt} (hi : Idle a s) (hp : Pushed dd s s1) (hw : WRel s w) (hb : Below o s1)
    (hn : (P.factorValue s1 >>= factorCount) = .ok n) : wireCount o w.next = .ok n := by
  obtain ⟨l, hl, hlen⟩ := hi.vals
  obtain ⟨v0, hv0⟩ := hp.vals l hl
  obtain ⟨l', hl', hpre, _⟩ := hb
  rw [hv0] at hl'
  injection hl' with hl'
  subst hl'
  cases hfv : P.factorValue s1 with
  | error e => rw [hfv] at hn; cases hn
  | ok v =>
    rw [hfv] at hn
    have hh := hP.factor s1 v (v0 :: l) hfv hv0
    simp only [List.head?_cons, Option.some.injEq] at hh
    subst hh
    obtain ⟨t, ht⟩ := hpre
    have hget : o.vals[w.next]? = some v0 := by
      rw [← ht, List.reverse_cons, hw.next, ← hlen, List.append_assoc]
      rw [List.getElem?_append_right (by simp)]
      simp
    unfold wireCount
    rw [hget]
    change factorCount v0 = .ok n at hn
    unfold factorCount at hn
    cases v0 with
    | missing => cases hn
    | int i =>
      simp only at hn ⊢
      split at hn
      · cases hn
      · injection hn with hn; rw [hn]
    | num _ _ => cases hn
    | bytes _ => cases hn

theorem wireRepeat_length (o : SubsetOut) (ds : List Desc) (k : Nat) (s s' : WSt) (ns : List Node)
    (h : wireRepeat (wireList o ds) k s = .ok (ns, s')) : ns.length = k * ds.length :=
  (wireRepeat_consumes (wireList o ds) ds.length
    (fun s ns s' hh => wireList_consumes o ds s ns s' hh) k s ns s' h).2

/-- an element that is not suppressed by 221: one or two indices on both sides -/
theorem elem_sim {P : Prims} (hP : PushOne P) {a : Bool} {s0 s' : St} {e : Elem} (hi : Idle a s0)
    (h : elementDescriptor P (.plain e) e (preS s0) = .ok s')
    (hs : ¬ (decide (s0.regs.dnpCount ≠ 0) && dnpSkips (.elem e)) = true) :
    Sim a (is31021 (.elem e) = false) True (fun o n => plain1 o n = true) s0 s'
      (fun o w => wire1 o (.elem e) w) := by
  have hpre := preS_idle hi
  rcases elementDescriptor_pushed hP hpre.1 h with ⟨hne, hx, s1, hp1, hp2⟩ | ⟨hc, hp⟩
  · have hi1 := hp1.idle hpre.1
    refine ⟨⟨hp2.idle hi1, hpre.2.trans ((hp1.ext hpre.1).trans (hp2.ext hi1))⟩, fun o w hw hM hb => ?_⟩
    have h31 : is31021 (.elem e) = false := by
      unfold is31021
      rw [beq_eq_false_iff_ne]
      intro he
      exact hx (x31_of_31021 he)
    dsimp only
    rw [wire1_elem, hw.dnp, if_neg hs]
    obtain ⟨nd, w', e1, hw', hM', g⟩ :=
      wireElement_sim2 hp1 hp2 (pre_rel hw) (pre_meant (hM h31)) hb ⟨a, hi1⟩ ⟨hne, hx⟩
    exact ⟨nd, w', e1, hw', fun _ => hM', g⟩
  · refine ⟨⟨hp.idle hpre.1, hpre.2.trans (hp.ext hpre.1)⟩, fun o w hw hM hb => ?_⟩
    dsimp only
    rw [wire1_elem, hw.dnp, if_neg hs]
    obtain ⟨nd, w', e1, hw', hM', g⟩ := wireElement_sim1 (id := e.id) hp (pre_rel hw) hb hc
    refine ⟨nd, w', e1, hw', fun _ => hM' (fun hne => pre_meant (hM ?_)), g⟩
    unfold is31021
    rw [beq_eq_false_iff_ne]
    exact hne

mutual
theorem walkList_sim {P : Prims} (hP : PushOne P) (a : Bool) : ∀ (ds : List Desc), quietList a ds = true →
    ∀ (s s' : St), Idle a s → walkList P ds s = .ok s' →
      Sim a (starts31021 ds = false) True (fun o ns => plainList o ns = true) s s' (fun o w => wireList o ds w)
  | [], _, s, s', hi, h => by
    rw [walkList] at h
    injection h with h
    subst h
    exact (Sim.refl hi [] (fun o w => by rw [wireList]) (fun o => by rw [plainList])).mono (fun _ => rfl) (fun t => t)
  | d :: ds, hq, s, s', hi, h => by
    rw [quietList, Bool.and_eq_true, Bool.and_eq_true] at hq
    rw [walkList] at h
    split at h
    · cases h
    · next s1 h1 =>
      have x := walk1_sim hP a d hq.1.1 s s1 hi h1
      have y := walkList_sim hP a ds hq.2 s1 s' x.1.1 h
      have hpq : starts31021 ds = false → opens204 d = false := by
        intro h0
        have := hq.1.2
        rw [h0, Bool.or_false] at this
        simpa using this
      refine Sim.seq x y hpq (fun o w x w1 y w2 e1 e2 gx gy => ⟨x :: y, ?_, ?_⟩)
      · show wireList o (d :: ds) w = _
        rw [wireList, e1]
        simp only [e2]
      · show plainList o (x :: y) = true
        rw [plainList, gx, gy]
        rfl

theorem walk1_sim {P : Prims} (hP : PushOne P) (a : Bool) : ∀ (d : Desc), quiet1 a d = true →
    ∀ (s s' : St), Idle a s → walk1 P d s = .ok s' →
      Sim a (is31021 d = false) (opens204 d = false) (fun o n => plain1 o n = true) s s'
        (fun o w => wire1 o d w)
  | .elem e, _, s0, s', hi, h => by
    rw [walk1_elem P e s0 hi] at h
    have hpre := preS_idle hi
    split at h
    · next hs =>
      injection h with h
      subst h
      refine ⟨hpre, fun o w hw hM hb => ⟨.noval e.id, preW w, ?_, pre_rel hw, fun _ => pre_meant (hM ?_), rfl⟩⟩
      · dsimp only
        rw [wire1_elem, hw.dnp, if_pos hs]
      · -- a suppressed element is not of class 31
        unfold is31021
        rw [beq_eq_false_iff_ne]
        intro he
        have hx := x31_of_31021 he
        simp [dnpSkips, hx] at hs
    · next hs =>
      split at h
      · next hnr =>
        split at h
        · cases h
        · -- 203: only without 204
          have ha : a = false := by
            cases a with
            | false => rfl
            | true => exact absurd (hpre.1.nref rfl) hnr
          have hp := hP.newRefval _ _ _ _ h
          refine (?_ : Sim a (is31021 (.elem e) = false) True _ s0 s' _).mono (fun t => t) (fun _ => trivial)
          refine ⟨⟨hp.idle hpre.1, hpre.2.trans (hp.ext hpre.1)⟩, fun o w hw hM hb => ?_⟩
          dsimp only
          rw [wire1_elem, hw.dnp, if_neg hs]
          obtain ⟨nd, w', e1, hw', hM', g⟩ :=
            wireElement_sim1 (id := e.id) hp (pre_rel hw) hb (Or.inl (hpre.1.assoc ha))
          refine ⟨nd, w', e1, hw', fun _ => hM' (fun hne => pre_meant (hM ?_)), g⟩
          unfold is31021
          rw [beq_eq_false_iff_ne]
          exact hne
      · exact (elem_sim hP hi h hs).mono (fun t => t) (fun _ => trivial)
  | .fixedRep id ms, hq, s0, s', hi, h => by
    rw [walk1_fixed P id ms s0 hi] at h
    rw [quiet1, Bool.and_eq_true] at hq
    have hpre := preS_idle hi
    have x := iter_sim (g := fun o => wireList o ms)
      (fun s s' hi h => (walkList_sim hP a ms hq.2 s s' hi h).mono (fun _ => trivial) (fun t => t))
      (yOf id) (preS s0) s' hpre.1 h
    refine ⟨⟨x.1.1, hpre.2.trans x.1.2⟩, fun o w hw hM hb => ?_⟩
    obtain ⟨ns, w', e1, hw', hM', g⟩ := x.2 o (preW w) (pre_rel hw) (fun _ => pre_meant (hM rfl)) hb
    dsimp only at e1 ⊢
    refine ⟨.fixedRep id ms.length ns, w', ?_, hw', fun _ => hM' trivial, ?_⟩
    · rw [wire1_fixed]
      simp only [e1]
    · rw [plain1, hq.1, g, wireRepeat_length o ms (yOf id) _ _ _ e1]
      simp
  | .delayedRep id f ms, hq, s0, s', hi, h => by
    rw [walk1_delayed P id f ms s0 hi] at h
    rw [quiet1, Bool.and_eq_true, Bool.and_eq_true] at hq
    split at h
    · next fe =>
      split at h
      · cases h
      · next s1 h1 =>
        split at h
        · cases h
        · next n hn =>
          have hpre := preS_idle hi
          -- the factor is recorded without an associated field
          have hp : Pushed (.plain fe) (preS s0) s1 := by
            rcases elementDescriptor_pushed hP hpre.1 h1 with ⟨hne, hx, _⟩ | ⟨_, hp⟩
            · exfalso
              cases a with
              | false => exact hne (hpre.1.assoc rfl)
              | true =>
                have := hq.1.2
                simp only [Bool.not_true, Bool.false_or, factor31, beq_iff_eq] at this
                exact hx this
            · exact hp
          have x := iter_sim (g := fun o => wireList o ms)
            (fun s s' hi h => (walkList_sim hP a ms hq.2 s s' hi h).mono (fun _ => trivial) (fun t => t))
            n s1 s' (hp.idle hpre.1) h
          refine ⟨⟨x.1.1, hpre.2.trans ((hp.ext hpre.1).trans x.1.2)⟩, fun o w hw hM hb => ?_⟩
          have hb1 : Below o s1 := Below.of_ext x.1.2 hb
          obtain ⟨ht, hlt, _, hw1⟩ := take_sim hp (pre_rel hw) hb1
          have hc := count_sim hP hpre.1 hp (pre_rel hw) hb1 hn
          have hM1 : Meant o ((({ preW w with next := (preW w).next + 1 } : WSt)).register (preW w).next) :=
            (pre_meant (hM rfl)).of_eq rfl rfl
          obtain ⟨ns, w', e1, hw', hM', g⟩ := x.2 o _ hw1 (fun _ => hM1) hb
          dsimp only at e1 ⊢
          refine ⟨.delayedRep id ms.length (.value .value (preW w).next []) ns, w', ?_, hw', fun _ => hM' trivial, ?_⟩
          · rw [wire1_delayed, ht]
            simp only [hc, e1]
          · rw [plain1, hq.1.1, g, plainValue?, countOK, hc, wireRepeat_length o ms n _ _ _ e1, attrsOK,
              decide_eq_true hlt]
            simp
    · cases h
  | .op id, hq, s0, s', hi, h => by
    rw [walk1_op P id s0 hi] at h
    rw [quiet1] at hq
    have hpre := preS_idle hi
    obtain ⟨x1, x2⟩ := operator_sim hP hq hpre.1 h
    refine ⟨⟨x1.1, hpre.2.trans x1.2⟩, fun o w hw hM hb => ?_⟩
    obtain ⟨n, w', e1, hw', hM', g⟩ := x2 o (preW w) (pre_rel hw) hb
    dsimp only
    rw [wire1_op]
    exact ⟨n, w', e1, hw', fun ho => hM' ho (pre_meant (hM rfl)), g⟩
  | .seq id ms, hq, s0, s', hi, h => by
    rw [walk1_seq P id ms s0 hi] at h
    rw [quiet1, Bool.and_eq_true] at hq
    have hpre := preS_idle hi
    have x := walkList_sim hP a ms hq.2 (preS s0) s' hpre.1 h
    refine ⟨⟨x.1.1, hpre.2.trans x.1.2⟩, fun o w hw hM hb => ?_⟩
    obtain ⟨ns, w', e1, hw', hM', g⟩ := x.2 o (preW w) (pre_rel hw) (fun _ => pre_meant (hM rfl)) hb
    dsimp only at e1 ⊢
    refine ⟨.seq id ns, w', ?_, hw', fun _ => hM' trivial, ?_⟩
    · rw [wire1_seq]
      simp only [e1]
    · rw [plain1, hq.1, g]
      rfl
  | .undefElem id, _, s0, s', hi, h => by
    rw [walk1_undefElem P id s0 hi] at h
    cases h
  | .undefSeq id, hq, _, _, _, _ => by
    rw [quiet1] at hq
    cases hq
end

/-! ### the decoder's primitives for uncompressed data record one descriptor and one value per call -/

theorem read_ok {α : Type} {s s' : St} {r : R α} {a : α} (h : s.read r = .ok (a, s')) :
    ∃ rest, s' = { s with bits := rest } := by
  unfold St.read at h
  split at h
  · cases h
  · next a' rest _ =>
    injection h with h
    injection h with _ h2
    exact ⟨rest, h2.symm⟩

theorem pushAll_al (s : St) (ds : List DDesc) (v : Val) (dd : DDesc) (h : ∀ l ∈ s.vals, l.length = ds.length) :
    ∀ l ∈ s.vals.map (v :: ·), l.length = (dd :: ds).length := by
  intro l hl
  obtain ⟨l0, h0, rfl⟩ := List.mem_map.mp hl
  rw [List.length_cons, List.length_cons, h l0 h0]

theorem pushed_desc_val (s : St) (dd : DDesc) (rest : Bits) (v : Val) :
    Pushed dd s (({ s.pushDesc dd with bits := rest } : St).pushAll v) := by
  refine ⟨rfl, fun l hl => ⟨v, ?_⟩, fun h => pushAll_al s s.descs v dd h, rfl, rfl, rfl, rfl, rfl, rfl, rfl⟩
  show (s.vals.map (v :: ·)).head? = _
  rw [List.head?_map, hl]
  rfl

theorem pushOne_decPrimsU : PushOne decPrimsU where
  numeric := by
    intro dd a b c s s' h
    change decNumericU dd a b c s = .ok s' at h
    unfold decNumericU at h
    simp only [bind, Except.bind, pure, Except.pure] at h
    split at h
    · cases h
    · split at h
      · cases h
      · next x hr =>
        obtain ⟨v, s1⟩ := x
        obtain ⟨rest, hs1⟩ := read_ok hr
        injection h with h
        subst h hs1
        exact pushed_desc_val s dd rest _
  string := by
    intro dd n s s' h
    change decStringU dd n s = .ok s' at h
    unfold decStringU at h
    simp only [bind, Except.bind, pure, Except.pure] at h
    split at h
    · cases h
    · next x hr =>
      obtain ⟨v, s1⟩ := x
      obtain ⟨rest, hs1⟩ := read_ok hr
      injection h with h
      subst h hs1
      exact pushed_desc_val s dd rest _
  codeflag := by
    intro dd n s s' h
    change decCodeflagU dd n s = .ok s' at h
    unfold decCodeflagU at h
    simp only [bind, Except.bind, pure, Except.pure] at h
    split at h
    · cases h
    · next x hr =>
      obtain ⟨v, s1⟩ := x
      obtain ⟨rest, hs1⟩ := read_ok hr
      injection h with h
      subst h hs1
      exact pushed_desc_val s dd rest _
  newRefval := by
    intro e n s s' h
    change decNewRefvalU e n s = .ok s' at h
    unfold decNewRefvalU at h
    simp only [bind, Except.bind, pure, Except.pure] at h
    split at h
    · cases h
    · next x hr =>
      obtain ⟨v, s1⟩ := x
      obtain ⟨rest, hs1⟩ := read_ok hr
      injection h with h
      subst h hs1
      refine ⟨rfl, fun l hl => ⟨.int v, ?_⟩, fun h => pushAll_al s s.descs (.int v) (.plain e) h, rfl, rfl, rfl, rfl, rfl, rfl, rfl⟩
      show (s.vals.map (Val.int v :: ·)).head? = _
      rw [List.head?_map, hl]
      rfl
  constant := by
    intro dd v s s' h
    change decConstant dd v s = .ok s' at h
    unfold decConstant at h
    injection h with h
    subst h
    exact pushed_desc_val s dd s.bits _
  factor := by
    intro s v l h hl
    change decFactorU s = .ok v at h
    unfold decFactorU at h
    cases hv : s.vals with
    | nil => rw [hv] at hl; cases hl
    | cons l0 r =>
      rw [hv] at h hl
      injection hl with hl
      subst hl
      simp only at h
      unfold headVal at h
      split at h
      · cases h
      · injection h with h
        subst h
        rfl

/-! ### from the decoder to the wiring pass -/

/-- for a quiet template the wiring pass follows every successful uncompressed decode to its end -/
theorem decodeSubset_wire {a : Bool} {t : List Desc} (hq : quietList a t = true) {bits rest : Bits} {o : SubsetOut}
    (h : decodeSubset t bits = .ok (o, rest)) :
    ∃ w, wireRaw t o = .ok w ∧ w.st.next = o.vals.length ∧ o.descs.length = o.vals.length ∧
      plainList o w.nodes = true ∧ w.st.tab = [] := by
  unfold decodeSubset at h
  split at h
  · cases h
  · next s hs =>
    injection h with h
    injection h with ho _
    have hi0 : Idle a ({ bits := bits, vals := [[]] } : St) :=
      ⟨fun _ => rfl, fun _ => rfl, rfl, rfl, rfl, ⟨[], rfl, rfl⟩, fun l hl => by
        rw [List.mem_singleton] at hl; subst hl; rfl⟩
    have hhd : ∀ {l : List Val}, s.vals.head? = some l → s.vals.headD [] = l := fun {l} hl => by
      rw [List.headD_eq_head?_getD, hl]; rfl
    have sim := walkList_sim pushOne_decPrimsU a t hq _ s hi0 hs
    obtain ⟨l, hl, hlen⟩ := sim.1.1.vals
    have hb : Below o s := by
      refine ⟨l, hl, ?_, ?_⟩
      · rw [← ho, hhd hl]; exact List.prefix_refl _
      · rw [← ho]; exact List.prefix_refl _
    have hw0 : WRel ({ bits := bits, vals := [[]] } : St) ({} : WSt) := ⟨rfl, rfl, rfl, rfl, rfl⟩
    have hM0 : Meant o ({} : WSt) := fun hne => absurd rfl hne
    obtain ⟨ns, w', e, hw', _, g⟩ := sim.2 o {} hw0 (fun _ => hM0) hb
    dsimp only at e
    refine ⟨{ nodes := ns, st := w' }, by unfold wireRaw; rw [e], ?_, ?_, g, hw'.tab⟩
    · show w'.next = o.vals.length
      rw [hw'.next, ← hlen, ← ho, hhd hl]
      simp
    · rw [← ho, hhd hl]
      simp [hlen]

/-! ### the side conditions of the conversion theorem hold for such a tree -/

theorem attrsOK_inv {o : SubsetOut} {attrs : List Node} (h : attrsOK o attrs = true) :
    attrs = [] ∨ ∃ a m d, attrs = [.value .assoc a [.value .value m []]] ∧ a < o.descs.length ∧
      m < o.descs.length ∧ o.descs[a]? = some d ∧ d.isAssoc = true := by
  unfold attrsOK at h
  split at h
  · exact Or.inl rfl
  · next a m =>
    right
    rw [Bool.and_eq_true, Bool.and_eq_true, decide_eq_true_eq, decide_eq_true_eq] at h
    obtain ⟨⟨ha, hm⟩, hd⟩ := h
    split at hd
    · next d hd' => exact ⟨a, m, d, rfl, ha, hm, hd', hd⟩
    · cases hd
  · cases h

theorem plainValue?_inv {o : SubsetOut} {n : Node} (h : plainValue? o n = true) :
    ∃ k i attrs, n = .value k i attrs ∧ i < o.descs.length ∧ attrsOK o attrs = true := by
  cases n with
  | value k i attrs =>
    rw [plainValue?, Bool.and_eq_true, decide_eq_true_eq] at h
    exact ⟨k, i, attrs, rfl, h.2, h.1⟩
  | noval _ => cases h
  | seq _ _ => cases h
  | fixedRep _ _ _ => cases h
  | delayedRep _ _ _ _ => cases h

theorem ownAttrs_ok {o : SubsetOut} {attrs : List Node} (h : attrsOK o attrs = true) :
    attrs.all (ownAttrOK o) = true := by
  rcases attrsOK_inv h with h0 | ⟨a, m, d, h1, _, _, hd, hda⟩
  · subst h0; rfl
  · subst h1
    simp [ownAttrOK, hd, hda, VKind.isAssoc]

mutual
theorem plainList_treeOK (o : SubsetOut) : ∀ (ns : List Node), plainList o ns = true → treeOKList o ns = true
  | [], _ => by rw [treeOKList]
  | n :: ns, h => by
    rw [plainList, Bool.and_eq_true] at h
    rw [treeOKList, plain1_treeOK o n h.1, plainList_treeOK o ns h.2]
    rfl

theorem plain1_treeOK (o : SubsetOut) : ∀ (n : Node), plain1 o n = true → treeOK1 o n = true
  | .value k i attrs, h => by
    rw [plain1] at h
    obtain ⟨k', i', attrs', e, _, ha⟩ := plainValue?_inv h
    injection e with _ _ e3
    subst e3
    rw [treeOK1]
    exact ownAttrs_ok ha
  | .noval _, _ => by rw [treeOK1]
  | .seq id ms, h => by
    rw [plain1, Bool.and_eq_true] at h
    rw [treeOK1, h.1, plainList_treeOK o ms h.2]
    rfl
  | .fixedRep id n ms, h => by
    rw [plain1, Bool.and_eq_true, Bool.and_eq_true] at h
    rw [treeOK1, h.1.1, h.1.2, plainList_treeOK o ms h.2]
    rfl
  | .delayedRep id n f ms, h => by
    rw [plain1, Bool.and_eq_true, Bool.and_eq_true, Bool.and_eq_true] at h
    obtain ⟨⟨⟨h1, h2⟩, h3⟩, h4⟩ := h
    obtain ⟨k, i, attrs, e, _, ha⟩ := plainValue?_inv h2
    subst e
    rw [treeOK1, h1, plainList_treeOK o ms h4]
    simp only [factorOK, ownAttrs_ok ha, Bool.true_and, Bool.and_true]
    exact h3
end

/-! ### nothing is attached later: the tree is final -/

/-- enough fuel: one level for a bare value node, three for owner -> associated field -> meaning -/
def FuelOK (o : SubsetOut) (fuel : Nat) : Prop := 1 ≤ fuel ∧ (0 < o.descs.length → 3 ≤ fuel)

theorem resolveV_plain {o : SubsetOut} {fuel : Nat} (hf : FuelOK o fuel) (k : VKind) (i : Nat) {attrs : List Node}
    (ha : attrsOK o attrs = true) : resolveV [] fuel (.value k i attrs) = .ok (.value k i attrs) := by
  rcases attrsOK_inv ha with h0 | ⟨a, m, d, h1, hlt, _, _, _⟩
  · subst h0
    obtain ⟨f, rfl⟩ : ∃ f, fuel = f + 1 := ⟨fuel - 1, by have := hf.1; omega⟩
    rw [resolveV]
    rfl
  · subst h1
    obtain ⟨f, rfl⟩ : ∃ f, fuel = f + 3 := ⟨fuel - 3, by have := hf.2 (by omega); omega⟩
    simp [resolveV, mapE, tabFor]

mutual
theorem resolveList_plain (o : SubsetOut) (fuel : Nat) (hf : FuelOK o fuel) : ∀ (ns : List Node),
    plainList o ns = true → resolveList [] fuel ns = .ok ns
  | [], _ => by rw [resolveList]
  | n :: ns, h => by
    rw [plainList, Bool.and_eq_true] at h
    rw [resolveList, resolve1_plain o fuel hf n h.1]
    simp only [resolveList_plain o fuel hf ns h.2]

theorem resolve1_plain (o : SubsetOut) (fuel : Nat) (hf : FuelOK o fuel) : ∀ (n : Node), plain1 o n = true →
    resolve1 [] fuel n = .ok n
  | .value k i attrs, h => by
    rw [plain1] at h
    obtain ⟨k', i', attrs', e, _, ha⟩ := plainValue?_inv h
    injection e with _ _ e3
    subst e3
    rw [resolve1, resolveV_plain hf k i ha]
  | .noval _, _ => by rw [resolve1]
  | .seq id ms, h => by
    rw [plain1, Bool.and_eq_true] at h
    rw [resolve1]
    simp only [resolveList_plain o fuel hf ms h.2]
  | .fixedRep id n ms, h => by
    rw [plain1, Bool.and_eq_true, Bool.and_eq_true] at h
    rw [resolve1]
    simp only [resolveList_plain o fuel hf ms h.2]
  | .delayedRep id n f ms, h => by
    rw [plain1, Bool.and_eq_true, Bool.and_eq_true, Bool.and_eq_true] at h
    obtain ⟨⟨⟨_, h2⟩, _⟩, h4⟩ := h
    obtain ⟨k, i, attrs, e, _, ha⟩ := plainValue?_inv h2
    subst e
    rw [resolve1, resolveV_plain hf k i ha]
    simp only [resolveList_plain o fuel hf ms h4]
end

/-! ### and it can be rendered -/

theorem renderValue_plain {o : SubsetOut} (hlen : o.descs.length ≤ o.vals.length) {n : Node}
    (h : plainValue? o n = true) (isAttr : Bool) : ∃ x, renderValue o isAttr n = .ok x := by
  obtain ⟨k, i, attrs, e, hi, ha⟩ := plainValue?_inv h
  subst e
  have h2 : i < o.vals.length := by omega
  rcases attrsOK_inv ha with h0 | ⟨a, m, d, h1, hlt, hmlt, _, _⟩
  · subst h0
    rw [renderValue, List.getElem?_eq_getElem hi, List.getElem?_eq_getElem h2]
    simp only [renderAttrs]
    exact ⟨_, rfl⟩
  · subst h1
    have ha2 : a < o.vals.length := by omega
    have hm2 : m < o.vals.length := by omega
    simp only [renderValue, renderAttrs, List.getElem?_eq_getElem hi, List.getElem?_eq_getElem h2,
      List.getElem?_eq_getElem hlt, List.getElem?_eq_getElem ha2, List.getElem?_eq_getElem hmlt,
      List.getElem?_eq_getElem hm2]
    exact ⟨_, rfl⟩

mutual
theorem renderNodes_plain (o : SubsetOut) (hlen : o.descs.length ≤ o.vals.length) : ∀ (ns : List Node),
    plainList o ns = true → ∃ xs, renderNodes o ns = .ok xs
  | [], _ => ⟨[], by rw [renderNodes]⟩
  | n :: ns, h => by
    rw [plainList, Bool.and_eq_true] at h
    obtain ⟨x, hx⟩ := renderNode_plain o hlen n h.1
    obtain ⟨xs, hxs⟩ := renderNodes_plain o hlen ns h.2
    exact ⟨x :: xs, by rw [renderNodes, hx]; simp only [hxs]⟩

theorem renderNode_plain (o : SubsetOut) (hlen : o.descs.length ≤ o.vals.length) : ∀ (n : Node),
    plain1 o n = true → ∃ x, renderNode o n = .ok x
  | .value k i attrs, h => by
    rw [plain1] at h
    rw [renderNode]
    exact renderValue_plain hlen h false
  | .noval id, _ => ⟨_, by rw [renderNode]⟩
  | .seq id ms, h => by
    rw [plain1, Bool.and_eq_true] at h
    obtain ⟨xs, hxs⟩ := renderNodes_plain o hlen ms h.2
    exact ⟨_, by rw [renderNode]; simp only [hxs]; rfl⟩
  | .fixedRep id n ms, h => by
    rw [plain1, Bool.and_eq_true, Bool.and_eq_true] at h
    obtain ⟨xs, hxs⟩ := renderNodes_plain o hlen ms h.2
    exact ⟨_, by rw [renderNode]; simp only [hxs]; rfl⟩
  | .delayedRep id n f ms, h => by
    rw [plain1, Bool.and_eq_true, Bool.and_eq_true, Bool.and_eq_true] at h
    obtain ⟨⟨⟨_, h2⟩, h3⟩, h4⟩ := h
    obtain ⟨xs, hxs⟩ := renderNodes_plain o hlen ms h4
    obtain ⟨fj, hfj⟩ := renderValue_plain hlen h2 false
    obtain ⟨k, i, attrs, e, _, _⟩ := plainValue?_inv h2
    subst e
    simp only [countOK] at h3
    cases hc : wireCount o i with
    | error e => rw [hc] at h3; cases h3
    | ok c =>
      exact ⟨_, by rw [renderNode]; simp only [hc, hfj, hxs]; rfl⟩
end

end Bufr.C09
