/-
  Helper lemmas about the bit-level model (`Basic/Bits.lean`).
-/
import BufrModel.Basic.Bits
namespace Bufr

theorem toBits_length (n v : Nat) : (toBits n v).length = n := by
  induction n with
  | zero => rfl
  | succ n ih => simp [toBits, ih]

theorem ofBits_lt (bs : Bits) : ofBits bs < 2 ^ bs.length := by
  induction bs with
  | nil => simp [ofBits]
  | cons b bs ih =>
    simp only [ofBits, List.length_cons, Nat.pow_succ]
    cases b <;> simp <;> omega

theorem bit_toNat (x : Nat) : (x % 2 == 1).toNat = x % 2 := by
  rcases Nat.mod_two_eq_zero_or_one x with h | h <;> simp [h]

theorem ofBits_toBits (n v : Nat) : ofBits (toBits n v) = v % 2 ^ n := by
  induction n with
  | zero => simp [toBits, ofBits, Nat.mod_one]
  | succ n ih =>
    simp only [toBits, ofBits, toBits_length, ih, bit_toNat, Nat.mod_pow_succ]
    rw [Nat.mul_comm]; omega

theorem toBits_add_mul (n a r : Nat) : toBits n (a * 2 ^ n + r) = toBits n r := by
  induction n generalizing a with
  | zero => rfl
  | succ n ih =>
    simp only [toBits]
    have h1 : a * 2 ^ (n + 1) + r = (a * 2) * 2 ^ n + r := by
      rw [Nat.pow_succ, Nat.mul_assoc, Nat.mul_comm 2]
    rw [h1, ih]
    have h2 : (a * 2 * 2 ^ n + r) / 2 ^ n = a * 2 + r / 2 ^ n := by
      rw [Nat.add_comm, Nat.add_mul_div_right _ _ (Nat.two_pow_pos n), Nat.add_comm]
    rw [h2]
    have h3 : (a * 2 + r / 2 ^ n) % 2 = r / 2 ^ n % 2 := by omega
    rw [h3]

theorem toBits_ofBits (bs : Bits) : toBits bs.length (ofBits bs) = bs := by
  induction bs with
  | nil => rfl
  | cons b bs ih =>
    simp only [List.length_cons, toBits, ofBits, toBits_add_mul, ih]
    have hlt := ofBits_lt bs
    have h2 : (b.toNat * 2 ^ bs.length + ofBits bs) / 2 ^ bs.length = b.toNat := by
      rw [Nat.add_comm, Nat.add_mul_div_right _ _ (Nat.two_pow_pos _), Nat.div_eq_of_lt hlt,
        Nat.zero_add]
    rw [h2]
    cases b <;> rfl

theorem ofBits_ones (n : Nat) : ofBits (ones n) = 2 ^ n - 1 := by
  induction n with
  | zero => rfl
  | succ n ih =>
    have hp := Nat.two_pow_pos n
    have : ones (n + 1) = true :: ones n := rfl
    rw [this]
    have hl : (ones n).length = n := by simp [ones]
    simp only [ofBits, ih, hl, Nat.pow_succ, Bool.toNat_true]
    omega

/-- the only `n`-bit pattern whose value is `2^n - 1` is all ones -/
theorem ofBits_eq_max_iff (bs : Bits) : ofBits bs = 2 ^ bs.length - 1 ↔ bs.all id = true := by
  induction bs with
  | nil => simp [ofBits]
  | cons b bs ih =>
    have hp := Nat.two_pow_pos bs.length
    have hlt := ofBits_lt bs
    simp only [ofBits, List.length_cons, Nat.pow_succ, List.all_cons, id, Bool.and_eq_true]
    rw [← ih]
    cases b <;> simp <;> omega

theorem readBits_append (x suf : Bits) : readBits x.length (x ++ suf) = .ok (x, suf) := by
  simp [readBits]

theorem readBits_short (n : Nat) (bs : Bits) (h : bs.length < n) : readBits n bs = .error .bitRead := by
  simp [readBits, h]

theorem bytesToBits_length (b : List UInt8) : (bytesToBits b).length = 8 * b.length := by
  induction b with
  | nil => rfl
  | cons x xs ih =>
    simp only [bytesToBits, List.flatMap_cons, List.length_append, List.length_cons] at *
    rw [ih, byteBits, toBits_length]; omega

theorem ofNat_ofBits_byteBits (b : UInt8) : UInt8.ofNat (ofBits (toBits 8 b.toNat)) = b := by
  rw [ofBits_toBits]
  have : b.toNat < 256 := b.toNat_lt
  rw [Nat.mod_eq_of_lt (by simpa using this)]
  simp

theorem bitsToBytes_bytesToBits (b : List UInt8) : bitsToBytes (bytesToBits b) = b := by
  induction b with
  | nil => rfl
  | cons x xs ih =>
    have h := ofNat_ofBits_byteBits x
    simp only [bytesToBits, List.flatMap_cons] at *
    simp only [byteBits, toBits, List.cons_append, List.nil_append, bitsToBytes] at *
    rw [ih, h]

theorem padBytes_length (b : List UInt8) (k : Nat) : (padBytes b k).length = k := by
  simp only [padBytes, List.length_take, List.length_append, List.length_replicate]
  omega

theorem readBits_append_of_length (n : Nat) (x suf : Bits) (h : x.length = n) :
    readBits n (x ++ suf) = .ok (x, suf) := by
  subst h; exact readBits_append x suf

theorem readUInt_append (x suf : Bits) (h : 0 < x.length) :
    readUInt x.length (x ++ suf) = .ok (ofBits x, suf) := by
  have hn : x.length ≠ 0 := by omega
  simp only [readUInt, hn, if_false, readBits_append]

theorem readUInt_toBits (n v : Nat) (suf : Bits) (hn : 0 < n) (hv : v < 2 ^ n) :
    readUInt n (toBits n v ++ suf) = .ok (v, suf) := by
  have h := readUInt_append (toBits n v) suf (by rw [toBits_length]; exact hn)
  rw [toBits_length, ofBits_toBits, Nat.mod_eq_of_lt hv] at h
  exact h

theorem writeUInt_ofNat (w : Bits) (n v : Nat) (hn : 0 < n) (hv : v < 2 ^ n) :
    writeUInt w (Int.ofNat v) n = .ok (w ++ toBits n v) := by
  have hn' : n ≠ 0 := by omega
  have h1 : ¬ ((Int.ofNat v) < 0) := by simp
  have h2 : ¬ (2 ^ n ≤ (Int.ofNat v).toNat) := by simp; exact hv
  simp only [writeUInt, hn', h1, h2, if_false]
  rfl

theorem readBytes_bytesToBits (b : List UInt8) (suf : Bits) :
    readBytes b.length (bytesToBits b ++ suf) = .ok (b, suf) := by
  simp only [readBytes, readBits_append_of_length _ _ suf (bytesToBits_length b),
    bitsToBytes_bytesToBits]

/-- per-field round trip -/
theorem field_roundtrip (pre : Bits) (f : Field) (h : f.Valid) :
    ∃ x, writeField pre f = .ok (pre ++ x) ∧ x.length = f.width ∧
      ∀ suf, readField f.spec (x ++ suf) = .ok (f.canon, suf) := by
  cases f with
  | uint n v =>
    obtain ⟨hn, hv⟩ := h
    refine ⟨toBits n v, writeUInt_ofNat pre n v hn hv, toBits_length n v, fun suf => ?_⟩
    simp only [Field.spec, readField, readUInt_toBits n v suf hn hv, Field.canon]
    rfl
  | int n v =>
    obtain ⟨hn, hv⟩ := h
    have hn1 : 0 < n - 1 := by omega
    refine ⟨decide (v < 0) :: toBits (n - 1) v.natAbs, ?_, ?_, fun suf => ?_⟩
    · simp only [writeField, writeInt, writeBool, writeUInt_ofNat _ _ _ hn1 hv,
        List.append_assoc, List.singleton_append]
    · simp only [List.length_cons, toBits_length, Field.width]; omega
    · have hn0 : n ≠ 0 := by omega
      simp only [Field.spec, readField, readInt, hn0, if_false, List.cons_append, readBool,
        readUInt_toBits _ _ suf hn1 hv, Field.canon]
      have : (if decide (v < 0) = true then -Int.ofNat v.natAbs else Int.ofNat v.natAbs) = v := by
        by_cases hneg : v < 0 <;> simp [hneg] <;> omega
      rw [this]; rfl
  | bool b =>
    exact ⟨[b], rfl, rfl, fun _ => rfl⟩
  | bin bs =>
    refine ⟨bs, rfl, rfl, fun suf => ?_⟩
    simp only [Field.spec, readField, readBin, readBits_append, Field.canon]; rfl
  | bytes k b =>
    refine ⟨bytesToBits (padBytes b k), rfl, ?_, fun suf => ?_⟩
    · rw [bytesToBits_length, padBytes_length]; rfl
    · have h := readBytes_bytesToBits (padBytes b k) suf
      rw [padBytes_length] at h
      simp only [Field.spec, readField, h, Field.canon]; rfl

end Bufr
