/-
  Helper lemmas for C15, part 3: single steps of the machine outside slices (id, separators,
  end of input), and the relation between `createSlice` and the grammar's reading of a slice.
-/
import BufrModel.Lemmas.PathSlice
namespace Bufr.PathLang
open Spec

/-! ### `createSlice` against `sliceOpt` -/

theorem createSlice_eq (es : List (Option Int)) (h1 : es ≠ []) (h2 : es ≠ [none]) :
    createSlice es = match sliceOpt es with
      | some sl => .ok sl
      | none => .error .path := by
  match es, h1, h2 with
  | [some i], _, _ => simp only [createSlice, sliceOpt]; split <;> rfl
  | [none], _, h => exact absurd rfl h
  | [a, b], _, _ => cases a <;> simp [createSlice, sliceOpt]
  | [a, b, c], _, _ => cases a <;> simp [createSlice, sliceOpt]
  | a :: b :: c :: d :: r, _, _ => simp [createSlice, sliceOpt]

theorem optInts_single_none (body : List Char) : ∀ t, optInts (splitAux t body) = some [none] → t = [] ∧ body = [] := by
  induction body with
  | nil =>
    intro t h
    simp only [splitAux, optInts] at h
    refine ⟨?_, rfl⟩
    by_cases ht : t = []
    · exact ht
    · simp only [optInt?, ht, if_false] at h
      cases hp : parseInt? t <;> rw [hp] at h <;> simp at h
  | cons c cs ih =>
    intro t h
    simp only [splitAux] at h
    by_cases hc : (c == ':') = true
    · simp only [hc, if_true] at h
      have hl := optInts_length _ _ h
      have hne := splitAux_ne_nil cs []
      cases hs : splitAux [] cs with
      | nil => exact absurd hs hne
      | cons p ps => rw [hs] at hl; simp at hl
    · simp only [hc] at h
      have := (ih _ h).1
      simp at this

/-- the machine on a whole slice body `body ]` entered right after `[` -/
theorem run_slice (s : PS) (body after : List Char) (hs : inSlice s.st = true) (h0 : is0 s.st = true)
    (ht : s.token = []) (he : s.elems = []) (hb : ∀ c ∈ body, c ≠ ']' ∧ isWs c = false) :
    (run s (body ++ ']' :: after) = .error .path ∧ sliceOfBody body = none) ∨
    (∃ es, run s (body ++ ']' :: after) = run { s with st := toStop s.st, token := [], elems := es } after ∧
        sliceOfBody body = sliceOpt es ∧
        createSlice es = match sliceOpt es with
          | some sl => .ok sl
          | none => .error .path) := by
  rw [run_body body s after hs hb, sliceOfBody_eq, ht, he]
  by_cases hbad : body.any badBody = true
  · left; simp [hbad]
  · simp only [hbad]
    cases hopt : optInts (splitAux [] body) with
    | none => left; simp
    | some es =>
      simp only
      by_cases hbody : body = []
      · left
        subst hbody
        simp only [splitAux, optInts, optInt?] at hopt
        simp at hopt
        subst hopt
        simp [h0, sliceOpt]
      · right
        refine ⟨es, ?_, rfl, ?_⟩
        · simp [hbody]
        · apply createSlice_eq
          · intro h
            have hl := optInts_length _ _ hopt
            have hne := splitAux_ne_nil body []
            rw [h] at hl
            cases hs : splitAux [] body with
            | nil => exact absurd hs hne
            | cons p ps => rw [hs] at hl; simp at hl
          · intro h
            rw [h] at hopt
            exact hbody (optInts_single_none body [] hopt).2

/-! ### single steps outside slices -/

theorem step_startId_bracket (s : PS) (hs : s.st = .startId) :
    step s '[' = if s.token = [] then .error .path
      else .ok { s with st := .slice0, curId := s.token, token := [] } := by
  obtain ⟨st, token, elems, curId, curSep, subset, comps⟩ := s
  simp only at hs; subst hs
  by_cases ht : token = [] <;>
    simp [step, isWs, handleLeftBracket, convertId, ht, bind, Except.bind, pure, Except.pure]

theorem step_startId_sep (s : PS) (c : Char) (hc : isSep c = true) (hs : s.st = .startId) (he : s.elems = []) :
    step s c = if s.token = [] then .error .path
      else .ok { s with st := .startId, curId := s.token, token := [], elems := [], curSep := c,
                        comps := s.comps ++ [⟨s.curSep, s.token, .range none none none⟩] } := by
  obtain ⟨st, token, elems, curId, curSep, subset, comps⟩ := s
  simp only at hs he; subst hs; subst he
  rcases (isSep_iff c).1 hc with h | h | h <;> subst h <;> by_cases ht : token = [] <;>
    simp [step, isWs, isSep, handleSeparator, addComp, createSlice, convertId, ht, bind, Except.bind, pure, Except.pure]

theorem finish_startId (s : PS) (hs : s.st = .startId) (he : s.elems = []) :
    finish s = if s.token = [] then .error .path
      else .ok { subset := s.subset, comps := s.comps ++ [⟨s.curSep, s.token, .range none none none⟩] } := by
  obtain ⟨st, token, elems, curId, curSep, subset, comps⟩ := s
  simp only at hs he; subst hs; subst he
  by_cases ht : token = [] <;>
    simp [finish, addComp, createSlice, convertId, ht, bind, Except.bind, pure, Except.pure]

theorem step_startId_other (s : PS) (c : Char) (hs : s.st = .startId) (hc : c = '@' ∨ c = ':' ∨ c = ']') :
    step s c = .error .path := by
  obtain ⟨st, token, elems, curId, curSep, subset, comps⟩ := s
  simp only at hs; subst hs
  rcases hc with h | h | h <;> subst h <;> simp [step, isWs, handleColonOrRight]

theorem step_stopSlice_sep (s : PS) (c : Char) (hc : isSep c = true) (hs : s.st = .stopSlice) :
    step s c = match createSlice s.elems with
      | .error e => .error e
      | .ok sl => .ok { s with st := .startId, elems := [], curSep := c,
                               comps := s.comps ++ [⟨s.curSep, s.curId, sl⟩] } := by
  obtain ⟨st, token, elems, curId, curSep, subset, comps⟩ := s
  simp only at hs; subst hs
  rcases (isSep_iff c).1 hc with h | h | h <;> subst h <;>
    simp [step, isWs, isSep, handleSeparator, addComp, bind, Except.bind, pure, Except.pure] <;>
    cases createSlice elems <;> simp

theorem finish_stopSlice (s : PS) (hs : s.st = .stopSlice) :
    finish s = match createSlice s.elems with
      | .error e => .error e
      | .ok sl => .ok { subset := s.subset, comps := s.comps ++ [⟨s.curSep, s.curId, sl⟩] } := by
  obtain ⟨st, token, elems, curId, curSep, subset, comps⟩ := s
  simp only at hs; subst hs
  simp [finish, addComp, bind, Except.bind, pure, Except.pure]
  cases createSlice elems <;> simp

theorem step_stopSubset_sep (s : PS) (c : Char) (hc : isSep c = true) (hs : s.st = .stopSubsetSlice) :
    step s c = if c = '.' then .error .path else
      match createSlice s.elems with
      | .error e => .error e
      | .ok sl => .ok { s with st := .startId, elems := [], curSep := c, subset := some sl } := by
  obtain ⟨st, token, elems, curId, curSep, subset, comps⟩ := s
  simp only at hs; subst hs
  rcases (isSep_iff c).1 hc with h | h | h <;> subst h <;>
    simp [step, isWs, isSep, handleSeparator, bind, Except.bind, pure, Except.pure] <;>
    cases createSlice elems <;> simp

/-- a character other than a separator cannot follow `]` -/
theorem step_stop_nonsep (s : PS) (c : Char) (hs : s.st = .stopSlice ∨ s.st = .stopSubsetSlice)
    (hc : isSep c = false) (hw : isWs c = false) : step s c = .error .path := by
  obtain ⟨st, token, elems, curId, curSep, subset, comps⟩ := s
  simp only at hs
  by_cases h1 : c = '@'
  · subst h1; rcases hs with hs | hs <;> subst hs <;> simp [step, isWs]
  by_cases h2 : c = '['
  · subst h2; rcases hs with hs | hs <;> subst hs <;> simp [step, isWs, handleLeftBracket]
  by_cases h3 : c = ':'
  · subst h3; rcases hs with hs | hs <;> subst hs <;> simp [step, isWs, handleColonOrRight]
  by_cases h4 : c = ']'
  · subst h4; rcases hs with hs | hs <;> subst hs <;> simp [step, isWs, handleColonOrRight]
  rcases hs with hs | hs <;> subst hs <;> simp [step, hw, hc, h1, h2, h3, h4]

theorem step_startSubset (s : PS) (c : Char) (hs : s.st = .startSubset) (hw : isWs c = false) :
    step s c = if c = '[' then .ok { s with st := .subsetSlice0 } else .error .path := by
  obtain ⟨st, token, elems, curId, curSep, subset, comps⟩ := s
  simp only at hs; subst hs
  by_cases h1 : c = '@'
  · subst h1; simp [step, isWs]
  by_cases h2 : c = '['
  · subst h2; simp [step, isWs, handleLeftBracket]
  by_cases h3 : c = ':'
  · subst h3; simp [step, isWs, handleColonOrRight]
  by_cases h4 : c = ']'
  · subst h4; simp [step, isWs, handleColonOrRight]
  by_cases h5 : isSep c = true
  · rcases (isSep_iff c).1 h5 with h | h | h <;> subst h <;> simp [step, isWs, isSep, handleSeparator, bind, Except.bind]
  · simp [step, hw, h1, h2, h3, h4, h5]

end Bufr.PathLang
