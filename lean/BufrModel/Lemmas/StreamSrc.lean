/-
  Helper lemmas for the source tie of C11 / C12 (`Props/C11Src.lean`, `Props/C12Src.lean`): the Lean function that
  `harness/py2lean.py` generates from `pybufrkit/decoder.py generate_bufr_message` (`Gen/PyDecoder.lean`, regenerated
  on every check; the code it calls is a record `Env` of callbacks) against the hand-written model `Msg/Stream.lean`
  (`scan` / `scanFuel` / `step`).

  * `srcDec`, `srcFilter`, `srcCfg`: the model's parameters (`Dec`, filter, `Cfg`) that a record of callbacks gives;
    `srcErr`: the model's error class of a Python exception (library error = instance of `PyBufrKitError`).
  * `seqFind_findSig`, `sliceSeq_from`, `sliceSeq_span`: `bytes.find(sig, i)`, `s[i:]`, `s[i:i+n]` against `findSig`,
    `drop`, `take`.
  * `body_step`: one iteration of the translated loop at a found signature = the model's `step`.
  * `loop_sim`: induction on the fuel; `stuck`: an iteration that advances by 0 repeats until the fuel is gone.
-/
import BufrModel.Msg.Stream
import BufrModel.Lemmas.Stream
import BufrModel.Gen.PyDecoder
set_option linter.unusedSimpArgs false
set_option linter.unusedVariables false
namespace Bufr.Stream
open PyGen.decoder PyGen.decoder.generate_bufr_message

/-- the model's error class of a Python exception: a library error is an instance of `PyBufrKitError` -/
def srcErr (env : Env) (e : Py.Exc) : Err := if env.isinstance_PyBufrKitError e then .lib else .other

theorem srcErr_isLib (env : Env) (e : Py.Exc) : (srcErr env e).isLib = env.isinstance_PyBufrKitError e := by
  unfold srcErr; cases env.isinstance_PyBufrKitError e <;> rfl

/-- the model's per-offset decoder given by the callback `decoder.process(rest, start_signature=None, info_only=b)` -/
def srcDec (env : Env) : Dec Msg := fun io rest =>
  match env.decoder_process rest io with
  | .ok m => .ok { consumed := m.serialized_bytes.length, declared := m.length_value.toNat, msg := m }
  | .error e => .error (srcErr env e)

/-- the model's filter given by the callback `sr.run(msg)` of the `ScriptRunner` object `sr` -/
def srcFilter (env : Env) (sr : Py.Obj) : MsgInfo Msg → Except Err Bool := fun mi =>
  match env.sr_run sr mi.msg with
  | .ok b => .ok b
  | .error e => .error (srcErr env e)

/-- the model's configuration for the arguments of `generate_bufr_message` (`if filter_expr:` is the truth value of a
    `str` or `None`: `None` and `''` mean "no filter") -/
def srcCfg (env : Env) (io coe : Bool) (fe : Option (List Char)) (sr : Py.Obj) : Cfg Msg :=
  { infoOnly := io, continueOnError := coe, filter := if Py.truthyOptSeq fe then some (srcFilter env sr) else none,
    tableDef := fun mi => decide (mi.msg.data_category_value = DATA_CATEGORY_DEFINE_BUFR_TABLES) &&
      decide (mi.msg.n_subsets_value > 0) }

/-- the message object the generator yields for an item of the model: in info-only mode its `serialized_bytes` were
    replaced by the slice of the stream -/
def pyMsg (io : Bool) (it : Item Msg) : Msg :=
  if io then { it.info.msg with serialized_bytes := it.bytes } else it.info.msg

theorem sig_eq : MESSAGE_START_SIGNATURE = sig := by decide

/-! ### `bytes.find`, slicing -/

theorem seqFindFrom_findSig : ∀ (l : Bytes) (i : Nat),
    Py.seqFindFrom sig l i = match findSig l with | some k => ((i + k : Nat) : Int) | none => -1
  | [], i => by simp [Py.seqFindFrom, findSig, sig, startSig]
  | b :: bs, i => by
    by_cases h : sig.isPrefixOf (b :: bs) = true
    · simp [Py.seqFindFrom, findSig, h]
    · simp only [Py.seqFindFrom, findSig, h, if_false, Bool.false_eq_true]
      rw [seqFindFrom_findSig bs (i + 1)]
      cases findSig bs with
      | none => rfl
      | some k =>
        show ((i + 1 + k : Nat) : Int) = ((i + (k + 1) : Nat) : Int)
        rw [show i + 1 + k = i + (k + 1) by omega]

theorem seqFind_findSig (s : Bytes) (j : Nat) (h : j ≤ s.length) :
    Py.seqFind s MESSAGE_START_SIGNATURE (j : Int) =
      match findSig (s.drop j) with | some k => ((j + k : Nat) : Int) | none => -1 := by
  have h0 : ¬ ((j : Int) < 0) := by omega
  have h1 : ¬ (j > s.length) := by omega
  simp only [Py.seqFind, h0, if_false, Int.toNat_natCast, h1, sig_eq]
  exact seqFindFrom_findSig _ _

theorem sliceSeq_from (s : Bytes) (j : Nat) : Py.sliceSeq s (some (j : Int)) none = s.drop j := by
  have h0 : ¬ ((j : Int) < 0) := by omega
  simp only [Py.sliceSeq, Py.sliceIdx, h0, if_false, Int.toNat_natCast, List.take_length]
  by_cases h : j ≤ s.length
  · rw [Nat.min_eq_left h]
  · have h' : s.length ≤ j := by omega
    rw [Nat.min_eq_right h', List.drop_length, List.drop_eq_nil_of_le h']

theorem sliceSeq_span (s : Bytes) (j : Nat) (L : Int) (hL : 0 ≤ L) (h : j ≤ s.length) :
    Py.sliceSeq s (some (j : Int)) (some ((j : Int) + L)) = (s.drop j).take L.toNat := by
  have h0 : ¬ ((j : Int) < 0) := by omega
  have h1 : ¬ ((j : Int) + L < 0) := by omega
  simp only [Py.sliceSeq, Py.sliceIdx, h0, h1, if_false, Int.toNat_natCast]
  rw [Nat.min_eq_left h]
  have e : ((j : Int) + L).toNat = j + L.toNat := by omega
  rw [e, List.drop_take]
  apply List.ext_getElem?
  intro i
  simp only [List.getElem?_take, List.getElem?_drop]
  by_cases hi : i < L.toNat
  · by_cases h2 : j + i < s.length
    · have : i < min (j + L.toNat) s.length - j := by omega
      simp [hi, this]
    · have : ¬ (i < min (j + L.toNat) s.length - j) := by omega
      simp [hi, this]
      omega
  · have : ¬ (i < min (j + L.toNat) s.length - j) := by omega
    simp [hi, this]

theorem findSig_prefix : ∀ (l : Bytes) (k : Nat), findSig l = some k → sig.isPrefixOf (l.drop k) = true
  | [], k, h => by simp [findSig] at h
  | b :: bs, k, h => by
    by_cases hp : sig.isPrefixOf (b :: bs) = true
    · simp [findSig, hp] at h; subst h; simpa using hp
    · simp only [findSig, hp, if_false, Bool.false_eq_true] at h
      cases k with
      | zero => cases hf : findSig bs <;> simp [hf] at h
      | succ k =>
        have := map_succ_eq_some h
        simpa using findSig_prefix bs k this

theorem findSig_at (l : Bytes) (h : sig.isPrefixOf l = true) : findSig l = some 0 := by
  cases l with
  | nil => simp [sig, startSig, List.isPrefixOf] at h
  | cons b bs => simp [findSig, h]

theorem findSig_lt : ∀ (l : Bytes) (k : Nat), findSig l = some k → k + 4 ≤ l.length := by
  intro l k h
  have hp := findSig_prefix l k h
  have : sig.length ≤ (l.drop k).length := (List.isPrefixOf_iff_prefix.1 hp).length_le
  simp [sig_length] at this
  omega


/-! ### one iteration -/

/-- the loop-invariant part of the variables: the parameters, the `ScriptRunner` object, the scan position -/
structure Inv (s : Bytes) (io coe : Bool) (fe : Option (List Char)) (sro : Option Py.Obj) (v : Locals) (j : Nat) : Prop where
  hs : v.s = s
  hio : v.info_only = io
  hcoe : v.continue_on_error = coe
  hfe : v.filter_expr = fe
  hsr : v.sr = sro
  hidx : v.idx_start = (j : Int)

/-- what the theorems assume of the callbacks: `length.value` is not negative (it is read as an unsigned field), and the
    table-definition side effect does not raise (the model abstracts it away: C20) -/
structure CbOk (env : Env) : Prop where
  len_nonneg : ∀ rest io m, env.decoder_process rest io = .ok m → 0 ≤ m.length_value
  td : ∃ f : Msg → Py.Obj × Py.Obj × Py.Obj, ∀ m, env.table_definition_process m = .ok (f m)
  inv : env.table_cache_invalidate = .ok ()
  add : ∀ a b, env.table_cache_add_extra_entries a b = .ok ()

/-- what one iteration at a found signature has to establish -/
def StepOk (env : Env) (s : Bytes) (io coe : Bool) (fe : Option (List Char)) (sro : Option Py.Obj) (v : Locals) (p : Nat)
    (r : Step Msg) (g : Py.Flow Locals) : Prop :=
  match r with
  | .fail e => ∃ x v', g = .raise x v' ∧ srcErr env x = e ∧ v'.py_yields = v.py_yields
  | .adv n y => ∃ v' j', g = .next v' ∧ Inv s io coe fe sro v' j' ∧
      (j' = p + n ∨ (s.length ≤ j' ∧ s.length ≤ p + n)) ∧ (n = 0 → j' = p) ∧
      v'.py_yields = v.py_yields ++ (yielded p y).map (pyMsg io)

theorem take_length_min (l : Bytes) (n : Nat) : (l.take n).length = min n l.length := by simp

local macro "bsimp" "[" extra:Lean.Parser.Tactic.simpLemma,* "]" : tactic => `(tactic|
  simp [StepOk, step, tryBody, decodeHere, srcDec, srcCfg, srcFilter, while_1.body, Py.Flow.bind, Py.Flow.eval,
    Py.Flow.tryExcept, yielded, pyMsg, srcErr, Err.isLib, Py.unwrapAttr, bind, Except.bind, $extra,*])

/-- closes an `adv` goal left by `bsimp`: the witness is the new scan position -/
local macro "close_adv" w:term : tactic => `(tactic|
  first
  | (refine ⟨$w, ⟨rfl, rfl, rfl, rfl, rfl, ?_⟩, ?_, ?_⟩
     · first | rfl | (dsimp only; omega) | omega | simp
     · omega
     · first | omega | (intro h; rcases h with h | h <;> first | omega | (rw [h]; simp) | (simp [h])))
  | (refine ⟨$w, ⟨rfl, rfl, rfl, rfl, rfl, ?_⟩, ?_⟩
     · first | rfl | (dsimp only; omega) | omega | simp
     · omega))

theorem body_step (env : Env) (hcb : CbOk env) (s : Bytes) (io coe : Bool) (fe : Option (List Char))
    (sro : Option Py.Obj) (sr : Py.Obj) (hsro : Py.truthyOptSeq fe = true → sro = some sr)
    (v : Locals) (j k : Nat) (hinv : Inv s io coe fe sro v j) (hj : j ≤ s.length)
    (hk : findSig (s.drop j) = some k) :
    StepOk env s io coe fe sro v (j + k) (step (srcDec env) (srcCfg env io coe fe sr) (s.drop (j + k)))
      (while_1.body env v) := by
  obtain ⟨vs, vio, vcoe, vfe, vsr, vidx, vmatched, vmsg, vu, vb, vd, ve, vy⟩ := v
  obtain ⟨h1, h2, h3, h4, h5, h6⟩ := hinv
  simp only at h1 h2 h3 h4 h5 h6
  subst h1 h2 h3 h4 h5 h6
  have hfind : Py.seqFind vs MESSAGE_START_SIGNATURE (j : Int) = ((j + k : Nat) : Int) := by
    rw [seqFind_findSig vs j hj, hk]
  have hlt := findSig_lt _ _ hk
  simp only [List.length_drop] at hlt
  generalize hp : j + k = p at *
  have hple : p ≤ vs.length := by omega
  have hrest := sliceSeq_from vs p
  have hnn : ¬ ((p : Int) < 0) := by omega
  obtain ⟨ftd, htd⟩ := hcb.td
  have hinvl := hcb.inv
  have hadd := hcb.add
  have hrl : 4 ≤ (vs.drop p).length := by simp only [List.length_drop]; omega
  have hexc : ∀ e : Py.Exc, srcErr env e = (if env.isinstance_PyBufrKitError e then Err.lib else Err.other) := fun _ => rfl
  cases hft : Py.truthyOptSeq vfe with
  | false =>
    cases hr : env.decoder_process (vs.drop p) vio with
    | ok m =>
      have hL := hcb.len_nonneg _ _ _ hr
      cases vio with
      | true =>
        have hsp := sliceSeq_span vs p m.length_value hL hple
        bsimp [hft, hr, hfind, hnn, hrest, hsp]
        close_adv (p + min m.length_value.toNat (vs.length - p))
      | false =>
        by_cases hc : m.data_category_value = DATA_CATEGORY_DEFINE_BUFR_TABLES ∧ 0 < m.n_subsets_value
        · bsimp [hft, hr, hfind, hnn, hrest, htd, hinvl, hadd, hc]
          close_adv (p + m.serialized_bytes.length)
        · bsimp [hft, hr, hfind, hnn, hrest, htd, hinvl, hadd, hc]
          close_adv (p + m.serialized_bytes.length)
    | error e =>
      cases hl : env.isinstance_PyBufrKitError e with
      | false =>
        bsimp [hft, hr, hfind, hnn, hrest, hl]
        exact ⟨_, _, ⟨rfl, rfl⟩, hl, rfl⟩
      | true =>
        cases vcoe with
        | false =>
          bsimp [hft, hr, hfind, hnn, hrest, hl]
          exact ⟨_, _, ⟨rfl, rfl⟩, hl, rfl⟩
        | true =>
          cases vio with
          | true =>
            bsimp [hft, hr, hfind, hnn, hrest, hl]
            close_adv (p + 1)
          | false =>
            cases hr2 : env.decoder_process (vs.drop p) true with
            | ok mi =>
              have hL := hcb.len_nonneg _ _ _ hr2
              bsimp [hft, hr, hr2, hfind, hnn, hrest, hl]
              close_adv (p + mi.length_value.toNat)
            | error e2 =>
              cases hl2 : env.isinstance_PyBufrKitError e2 with
              | true =>
                bsimp [hft, hr, hr2, hfind, hnn, hrest, hl, hl2]
                close_adv (p + 1)
              | false =>
                bsimp [hft, hr, hr2, hfind, hnn, hrest, hl, hl2]
                exact ⟨_, _, ⟨rfl, rfl⟩, hl2, rfl⟩
  | true =>
    have hsr' := hsro hft
    subst hsr'
    cases hr1 : env.decoder_process (vs.drop p) true with
    | error e =>
      cases hl : env.isinstance_PyBufrKitError e with
      | false =>
        bsimp [hft, hr1, hfind, hnn, hrest, hl]
        exact ⟨_, _, ⟨rfl, rfl⟩, hl, rfl⟩
      | true =>
        cases vcoe <;> cases vio <;> bsimp [hft, hr1, hfind, hnn, hrest, hl]
        · exact ⟨_, _, ⟨rfl, rfl⟩, hl, rfl⟩
        · exact ⟨_, _, ⟨rfl, rfl⟩, hl, rfl⟩
        · close_adv (p + 1)
        · close_adv (p + 1)
    | ok mi =>
      have hLi := hcb.len_nonneg _ _ _ hr1
      cases hb : env.sr_run sr mi with
      | error e =>
        cases hl : env.isinstance_PyBufrKitError e with
        | false =>
          bsimp [hft, hr1, hb, hfind, hnn, hrest, hl]
          exact ⟨_, _, ⟨rfl, rfl⟩, hl, rfl⟩
        | true =>
          cases vcoe <;> cases vio <;> bsimp [hft, hr1, hb, hfind, hnn, hrest, hl]
          · exact ⟨_, _, ⟨rfl, rfl⟩, hl, rfl⟩
          · exact ⟨_, _, ⟨rfl, rfl⟩, hl, rfl⟩
          · close_adv (p + mi.length_value.toNat)
          · close_adv (p + 1)
      | ok b =>
        cases vio with
        | true =>
          have hsp := sliceSeq_span vs p mi.length_value hLi hple
          cases b <;> bsimp [hft, hr1, hb, hfind, hnn, hrest, hsp]
          · close_adv (p + min mi.length_value.toNat (vs.length - p))
          · close_adv (p + min mi.length_value.toNat (vs.length - p))
        | false =>
          cases b with
          | false =>
            by_cases hc : mi.data_category_value = DATA_CATEGORY_DEFINE_BUFR_TABLES ∧ 0 < mi.n_subsets_value
            · -- a rejected table definition message: decoded in full, its definitions are processed, nothing is yielded
              cases hr2 : env.decoder_process (vs.drop p) false with
              | ok m =>
                by_cases hc2 : m.data_category_value = DATA_CATEGORY_DEFINE_BUFR_TABLES ∧ 0 < m.n_subsets_value
                · bsimp [hft, hr1, hr2, hb, hfind, hnn, hrest, htd, hinvl, hadd, hc, hc2]
                  close_adv (p + m.serialized_bytes.length)
                · bsimp [hft, hr1, hr2, hb, hfind, hnn, hrest, htd, hinvl, hadd, hc, hc2]
                  close_adv (p + m.serialized_bytes.length)
              | error e =>
                cases hl : env.isinstance_PyBufrKitError e with
                | false =>
                  bsimp [hft, hr1, hr2, hb, hfind, hnn, hrest, hl, hc]
                  exact ⟨_, _, ⟨rfl, rfl⟩, hl, rfl⟩
                | true =>
                  cases vcoe <;> bsimp [hft, hr1, hr2, hb, hfind, hnn, hrest, hl, hc]
                  · exact ⟨_, _, ⟨rfl, rfl⟩, hl, rfl⟩
                  · close_adv (p + mi.length_value.toNat)
            · bsimp [hft, hr1, hb, hfind, hnn, hrest, htd, hinvl, hadd, hc]
              close_adv (p + mi.serialized_bytes.length)
          | true =>
            cases hr2 : env.decoder_process (vs.drop p) false with
            | ok m =>
              by_cases hc : m.data_category_value = DATA_CATEGORY_DEFINE_BUFR_TABLES ∧ 0 < m.n_subsets_value
              · bsimp [hft, hr1, hr2, hb, hfind, hnn, hrest, htd, hinvl, hadd, hc]
                close_adv (p + m.serialized_bytes.length)
              · bsimp [hft, hr1, hr2, hb, hfind, hnn, hrest, htd, hinvl, hadd, hc]
                close_adv (p + m.serialized_bytes.length)
            | error e =>
              cases hl : env.isinstance_PyBufrKitError e with
              | false =>
                bsimp [hft, hr1, hr2, hb, hfind, hnn, hrest, hl]
                exact ⟨_, _, ⟨rfl, rfl⟩, hl, rfl⟩
              | true =>
                cases vcoe <;> bsimp [hft, hr1, hr2, hb, hfind, hnn, hrest, hl]
                · exact ⟨_, _, ⟨rfl, rfl⟩, hl, rfl⟩
                · close_adv (p + mi.length_value.toNat)


/-! ### the loop -/

theorem body_none (env : Env) (s : Bytes) (io coe : Bool) (fe : Option (List Char)) (sro : Option Py.Obj)
    (v : Locals) (j : Nat) (hinv : Inv s io coe fe sro v j) (hj : j ≤ s.length) (hk : findSig (s.drop j) = none) :
    ∃ v', while_1.body env v = .ret v' ∧ v'.py_yields = v.py_yields := by
  obtain ⟨vs, vio, vcoe, vfe, vsr, vidx, vmatched, vmsg, vu, vb, vd, ve, vy⟩ := v
  obtain ⟨h1, h2, h3, h4, h5, h6⟩ := hinv
  simp only at h1 h2 h3 h4 h5 h6
  subst h1 h2 h3 h4 h5 h6
  have hfind : Py.seqFind vs MESSAGE_START_SIGNATURE (j : Int) = -1 := by
    rw [seqFind_findSig vs j hj, hk]
  simp [while_1.body, Py.Flow.bind, hfind]

theorem cond_iff (env : Env) (s : Bytes) (io coe : Bool) (fe : Option (List Char)) (sro : Option Py.Obj)
    (v : Locals) (j : Nat) (hinv : Inv s io coe fe sro v j) : while_1.cond env v = decide (j < s.length) := by
  simp [while_1.cond, hinv.hs, hinv.hidx]

/-- the values the generator yields for a list of items of the model -/
def yieldsOf (io : Bool) (items : List (Item Msg)) : List Msg := items.map (pyMsg io)

/-- an iteration that advances by 0 leaves the scan position where it is: the loop repeats it (yielding the same
    message again each time when there is one) until the fuel is gone -/
theorem stuck (env : Env) (hcb : CbOk env) (s : Bytes) (io coe : Bool) (fe : Option (List Char))
    (sro : Option Py.Obj) (sr : Py.Obj) (hsro : Py.truthyOptSeq fe = true → sro = some sr) (y : Option (Bytes × MsgInfo Msg))
    (ym : List Msg) :
    ∀ (fuel : Nat) (v : Locals) (j k : Nat), Inv s io coe fe sro v j → j ≤ s.length → findSig (s.drop j) = some k →
      step (srcDec env) (srcCfg env io coe fe sr) (s.drop (j + k)) = .adv 0 y →
      (∀ q, yieldsOf io (yielded q y) = ym) →
      ∃ v', while_1.loop env fuel v = .raise .outOfFuel v' ∧
        v'.py_yields = v.py_yields ++ (List.replicate fuel ym).flatten := by
  intro fuel
  induction fuel with
  | zero => intro v j k _ _ _ _ _; exact ⟨v, rfl, by simp⟩
  | succ fuel ih =>
    intro v j k hinv hj hk hstep hym
    have hlt := findSig_lt _ _ hk
    simp only [List.length_drop] at hlt
    have hcond : while_1.cond env v = true := by
      rw [cond_iff env s io coe fe sro v j hinv]; simp; omega
    have hb := body_step env hcb s io coe fe sro sr hsro v j k hinv hj hk
    rw [hstep] at hb
    obtain ⟨v1, j1, hb1, hinv1, _, hj1, hy1⟩ := hb
    have hj1' := hj1 rfl
    subst hj1'
    have hpre := findSig_prefix _ _ hk
    rw [List.drop_drop] at hpre
    have hk1 : findSig (s.drop (j + k)) = some 0 := findSig_at _ hpre
    obtain ⟨v', hl, hy'⟩ := ih v1 (j + k) 0 hinv1 (by omega) hk1 (by simpa using hstep) hym
    refine ⟨v', ?_, ?_⟩
    · simp [while_1.loop, hcond, hb1, hl]
    · rw [hy', hy1]
      have := hym (j + k)
      simp only [yieldsOf] at this
      rw [this, List.replicate_succ, List.flatten_cons, List.append_assoc]

/-- the translated loop against `scanFuel` -/
def LoopOk (env : Env) (io : Bool) (ys : List Msg) (r : List (Item Msg) × Outcome) (g : Py.Flow Locals) : Prop :=
  match r.2 with
  | .done => ∃ v', (g = .next v' ∨ g = .ret v') ∧ v'.py_yields = ys ++ yieldsOf io r.1
  | .error e => ∃ x v', g = .raise x v' ∧ srcErr env x = e ∧ v'.py_yields = ys ++ yieldsOf io r.1
  | .loops => ∃ v', g = .raise .outOfFuel v' ∧ (ys ++ yieldsOf io r.1) <+: v'.py_yields

theorem loop_sim (env : Env) (hcb : CbOk env) (s : Bytes) (io coe : Bool) (fe : Option (List Char))
    (sro : Option Py.Obj) (sr : Py.Obj) (hsro : Py.truthyOptSeq fe = true → sro = some sr) :
    ∀ (fuel : Nat) (v : Locals) (j p : Nat), Inv s io coe fe sro v j →
      (j = p ∨ (s.length ≤ j ∧ s.length ≤ p)) → s.length - j < fuel →
      LoopOk env io v.py_yields (scanFuel (srcDec env) (srcCfg env io coe fe sr) fuel p (s.drop p))
        (while_1.loop env fuel v) := by
  intro fuel
  induction fuel with
  | zero => intro v j p _ _ h; omega
  | succ fuel ih =>
    intro v j p hinv hjp hf
    by_cases hge : s.length ≤ j
    · -- past the end: the loop test fails; the model finds no signature in the empty rest
      have hcond : while_1.cond env v = false := by
        rw [cond_iff env s io coe fe sro v j hinv]; simp; omega
      have hp : s.length ≤ p := by omega
      have hnil : s.drop p = [] := List.drop_eq_nil_of_le hp
      simp only [hnil, scanFuel, findSig, LoopOk]
      exact ⟨v, Or.inl (by simp [while_1.loop, hcond]), by simp [yieldsOf]⟩
    · have hjp' : j = p := by omega
      subst hjp'
      have hj : j ≤ s.length := by omega
      have hcond : while_1.cond env v = true := by
        rw [cond_iff env s io coe fe sro v j hinv]; simp; omega
      cases hk : findSig (s.drop j) with
      | none =>
        obtain ⟨v', hb, hy⟩ := body_none env s io coe fe sro v j hinv hj hk
        simp only [scanFuel, hk, LoopOk]
        exact ⟨v', Or.inr (by simp [while_1.loop, hcond, hb]), by simp [yieldsOf, hy]⟩
      | some k =>
        have hb := body_step env hcb s io coe fe sro sr hsro v j k hinv hj hk
        simp only [scanFuel, hk, List.drop_drop]
        cases hstep : step (srcDec env) (srcCfg env io coe fe sr) (s.drop (j + k)) with
        | fail e =>
          rw [hstep] at hb
          obtain ⟨x, v', hb1, hx, hy⟩ := hb
          simp only [LoopOk]
          exact ⟨x, v', by simp [while_1.loop, hcond, hb1], hx, by simp [yieldsOf, hy]⟩
        | adv n y =>
          cases n with
          | zero =>
            obtain ⟨v', hl, hy⟩ := stuck env hcb s io coe fe sro sr hsro y (yieldsOf io (yielded 0 y))
              (fuel + 1) v j k hinv hj hk hstep (by intro q; cases y <;> rfl)
            simp only [LoopOk]
            refine ⟨v', hl, ?_⟩
            rw [hy, List.replicate_succ, List.flatten_cons, ← List.append_assoc]
            have : yieldsOf io (yielded (j + k) y) = yieldsOf io (yielded 0 y) := by cases y <;> rfl
            rw [this]
            exact List.prefix_append _ _
          | succ n =>
            rw [hstep] at hb
            obtain ⟨v1, j1, hb1, hinv1, hj1, _, hy1⟩ := hb
            have hlt := findSig_lt _ _ hk
            simp only [List.length_drop] at hlt
            have ih1 := ih v1 j1 (j + k + (n + 1)) hinv1 hj1 (by omega)
            have hloop : while_1.loop env (fuel + 1) v = while_1.loop env fuel v1 := by
              simp [while_1.loop, hcond, hb1]
            rw [hloop]
            simp only [LoopOk] at ih1 ⊢
            rw [hy1] at ih1
            cases hout : (scanFuel (srcDec env) (srcCfg env io coe fe sr) fuel (j + k + (n + 1)) (s.drop (j + k + (n + 1)))).2 with
            | done =>
              rw [hout] at ih1
              simpa [yieldsOf, List.append_assoc] using ih1
            | error e =>
              rw [hout] at ih1
              simpa [yieldsOf, List.append_assoc] using ih1
            | loops =>
              rw [hout] at ih1
              simpa [yieldsOf, List.append_assoc] using ih1


/-! ### the whole generator -/

/-- what `generate_bufr_message` does, read off the model's `scan`: the values yielded and how the generator ends.
    `loops` (the real generator never terminates: an iteration advanced by 0) shows in the translation as the fuel of
    the `while` loop running out after the model's items have been yielded (and yielded again). -/
def Agrees (env : Env) (io : Bool) (r : List (Item Msg) × Outcome) (g : List Msg × Except Py.Exc Unit) : Prop :=
  match r.2 with
  | .done => g = (yieldsOf io r.1, .ok ())
  | .error e => ∃ x, g = (yieldsOf io r.1, .error x) ∧ srcErr env x = e
  | .loops => g.2 = .error .outOfFuel ∧ yieldsOf io r.1 <+: g.1

theorem generate_sim (env : Env) (hcb : CbOk env) (s : Bytes) (io coe : Bool) (fe : Option (List Char)) (sr : Py.Obj)
    (hsr : fe.isSome = true → env.ScriptRunner fe = .ok sr) :
    Agrees env io (scan (srcDec env) (srcCfg env io coe fe sr) s) (generate_bufr_message env s io coe fe) := by
  let sro : Option Py.Obj := if fe.isSome then some sr else none
  have hsro : Py.truthyOptSeq fe = true → sro = some sr := by
    intro h
    cases fe with
    | none => simp [Py.truthyOptSeq] at h
    | some x => rfl
  let v0 : Locals := ⟨s, io, coe, fe, sro, Int.ofNat 0, false, default, {}, {}, {}, default, []⟩
  have hinv : Inv s io coe fe sro v0 0 := ⟨rfl, rfl, rfl, rfl, rfl, rfl⟩
  have hl := loop_sim env hcb s io coe fe sro sr hsro (s.length + 1) v0 0 0 hinv (Or.inl rfl) (by omega)
  have hgen : generate_bufr_message env s io coe fe =
      ((Py.Flow.finish (while_1.loop env (s.length + 1) v0)).1.py_yields,
       (Py.Flow.finish (while_1.loop env (s.length + 1) v0)).2) := by
    cases fe with
    | none => simp [generate_bufr_message, Py.Flow.bind, Py.Flow.eval, v0, sro, pure, Except.pure]
    | some x =>
      have := hsr rfl
      simp [generate_bufr_message, Py.Flow.bind, Py.Flow.eval, v0, sro, pure, Except.pure, this, bind, Except.bind]
  rw [hgen]
  have hv0 : v0.py_yields = [] := rfl
  simp only [List.drop_zero] at hl
  unfold scan
  simp only [LoopOk, Agrees, hv0, List.nil_append] at hl ⊢
  cases hout : (scanFuel (srcDec env) (srcCfg env io coe fe sr) (s.length + 1) 0 s).2 with
  | done =>
    rw [hout] at hl
    obtain ⟨v', hg, hy⟩ := hl
    rcases hg with hg | hg <;> (rw [hg]; simp only [Py.Flow.finish, hy])
  | error e =>
    rw [hout] at hl
    obtain ⟨x, v', hg, hx, hy⟩ := hl
    refine ⟨x, ?_, hx⟩
    rw [hg]; simp only [Py.Flow.finish, hy]
  | loops =>
    rw [hout] at hl
    obtain ⟨v', hg, hy⟩ := hl
    rw [hg]
    exact ⟨rfl, hy⟩

/-- when `ScriptRunner(filter_expr)` itself raises (a filter expression that does not compile), the generator raises
    that exception at its first `next()`, before anything is yielded -/
theorem generate_bad_filter (env : Env) (s : Bytes) (io coe : Bool) (x : List Char) (e : Py.Exc)
    (h : env.ScriptRunner (some x) = .error e) :
    generate_bufr_message env s io coe (some x) = ([], .error e) := by
  simp [generate_bufr_message, Py.Flow.bind, Py.Flow.eval, Py.Flow.finish, h, bind, Except.bind]


/-! ### the continue-on-error policy, read off the translated source -/

/-- by how much the handler moves the scan position after a library error at a signature (no filter):
    info-only mode 1; otherwise the `length.value` of a metadata-only decode at the same place, 1 when that fails with a
    library error too -/
def resumeBy (env : Env) (io : Bool) (rest : Bytes) : Int :=
  if io then 1 else
    match env.decoder_process rest true with
    | .ok mi => mi.length_value
    | .error _ => 1

theorem resume_step (env : Env) (s : Bytes) (io : Bool) (fe : Option (List Char)) (sro : Option Py.Obj)
    (v : Locals) (j k : Nat) (hinv : Inv s io true fe sro v j) (hj : j ≤ s.length)
    (hk : findSig (s.drop j) = some k) (hft : Py.truthyOptSeq fe = false) (e : Py.Exc)
    (hfail : env.decoder_process (s.drop (j + k)) io = .error e) (hlib : env.isinstance_PyBufrKitError e = true)
    (h2 : ∀ e2, io = false → env.decoder_process (s.drop (j + k)) true = .error e2 → env.isinstance_PyBufrKitError e2 = true) :
    ∃ v', while_1.body env v = .next v' ∧ v'.idx_start = ((j + k : Nat) : Int) + resumeBy env io (s.drop (j + k)) ∧
      v'.py_yields = v.py_yields ∧ v'.s = s ∧ v'.info_only = io ∧ v'.continue_on_error = true := by
  obtain ⟨vs, vio, vcoe, vfe, vsr, vidx, vmatched, vmsg, vu, vb, vd, ve, vy⟩ := v
  obtain ⟨h1, h2', h3, h4, h5, h6⟩ := hinv
  simp only at h1 h2' h3 h4 h5 h6
  subst h1 h2' h3 h4 h5 h6
  have hfind : Py.seqFind vs MESSAGE_START_SIGNATURE (j : Int) = ((j + k : Nat) : Int) := by
    rw [seqFind_findSig vs j hj, hk]
  generalize hp : j + k = p at *
  have hrest := sliceSeq_from vs p
  have hnn : ¬ ((p : Int) < 0) := by omega
  cases vio with
  | true =>
    simp [while_1.body, Py.Flow.bind, Py.Flow.eval, Py.Flow.tryExcept, hft, hfail, hfind, hnn, hrest, hlib, resumeBy]
  | false =>
    cases hr2 : env.decoder_process (vs.drop p) true with
    | ok mi =>
      simp [while_1.body, Py.Flow.bind, Py.Flow.eval, Py.Flow.tryExcept, hft, hfail, hr2, hfind, hnn, hrest, hlib, resumeBy]
    | error e2 =>
      have hl2 := h2 e2 rfl hr2
      simp [while_1.body, Py.Flow.bind, Py.Flow.eval, Py.Flow.tryExcept, hft, hfail, hr2, hfind, hnn, hrest, hlib, hl2,
        resumeBy]

end Bufr.Stream
