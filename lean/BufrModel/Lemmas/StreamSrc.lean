/-
  Helper lemmas for the source tie of C11 / C12 (`Props/C11Src.lean`, `Props/C12Src.lean`): the Lean function that
  `harness/py2lean.py` generates from `pybufrkit/decoder.py generate_bufr_message` (`Gen/PyDecoder.lean`, regenerated
  on every check; the code it calls is a record `Env` of callbacks) against the hand-written model `Msg/Stream.lean`
  (`scan` / `scanFuel` / `step`).

  * `decOf`, `filterOf`, `cfgOf`: the model's parameters (`Dec`, filter, `Cfg`) that a record of callbacks gives;
    `toErr`: the model's error class of a Python exception (library error = instance of `PyBufrKitError`).
  * `seqFind_findSig`, `sliceSeq_from`, `sliceSeq_span`: `bytes.find(sig, i)`, `s[i:]`, `s[i:i+n]` against `findSig`,
    `drop`, `take`.
  * `body_step`: one iteration of the translated loop at a found signature = the model's `step`.
  * `loop_sim`: induction on the fuel; `stuck`: an iteration that advances by 0 repeats until the fuel is gone.
-/
import BufrModel.Msg.Stream
import BufrModel.Lemmas.Stream
import BufrModel.Gen.PyDecoder
set_option linter.unusedSimpArgs false
set_option linter.unusedVariables false
namespace Bufr.Stream
open PyGen.decoder PyGen.decoder.generate_bufr_message

/-- the model's error class of a Python exception: a library error is an instance of `PyBufrKitError` -/
def toErr (env : Env) (e : Py.Exc) : Err := if env.isinstance_PyBufrKitError e then .lib else .other

theorem toErr_isLib (env : Env) (e : Py.Exc) : (toErr env e).isLib = env.isinstance_PyBufrKitError e := by
  unfold toErr; cases env.isinstance_PyBufrKitError e <;> rfl

/-- the model's per-offset decoder given by the callback `decoder.process(rest, start_signature=None, info_only=b)` -/
def decOf (env : Env) : Dec Msg := fun io rest =>
  match env.decoder_process rest io with
  | .ok m => .ok { consumed := m.serialized_bytes.length, declared := m.length_value.toNat, msg := m }
  | .error e => .error (toErr env e)

/-- the model's filter given by the callback `sr.run(msg)` of the `ScriptRunner` object `sr` -/
def filterOf (env : Env) (sr : Py.Obj) : MsgInfo Msg → Except Err Bool := fun mi =>
  match env.sr_run sr mi.msg with
  | .ok b => .ok b
  | .error e => .error (toErr env e)

/-- the model's configuration for the arguments of `generate_bufr_message` (`if filter_expr:` is the truth value of a
    `str` or `None`: `None` and `''` mean "no filter") -/
def cfgOf (env : Env) (io coe : Bool) (fe : Option (List Char)) (sr : Py.Obj) : Cfg Msg :=
  { infoOnly := io, continueOnError := coe, filter := if Py.truthyOptSeq fe then some (filterOf env sr) else none }

/-- the message object the generator yields for an item of the model: in info-only mode its `serialized_bytes` were
    replaced by the slice of the stream -/
def pyMsg (io : Bool) (it : Item Msg) : Msg :=
  if io then { it.info.msg with serialized_bytes := it.bytes } else it.info.msg

theorem sig_eq : MESSAGE_START_SIGNATURE = sig := by decide

/-! ### `bytes.find`, slicing -/

theorem seqFindFrom_findSig : ∀ (l : Bytes) (i : Nat),
    Py.seqFindFrom sig l i = match findSig l with | some k => ((i + k : Nat) : Int) | none => -1
  | [], i => by simp [Py.seqFindFrom, findSig, sig, startSig]
  | b :: bs, i => by
    by_cases h : sig.isPrefixOf (b :: bs) = true
    · simp [Py.seqFindFrom, findSig, h]
    · simp only [Py.seqFindFrom, findSig, h, if_false, Bool.false_eq_true]
      rw [seqFindFrom_findSig bs (i + 1)]
      cases findSig bs with
      | none => rfl
      | some k =>
        show ((i + 1 + k : Nat) : Int) = ((i + (k + 1) : Nat) : Int)
        rw [show i + 1 + k = i + (k + 1) by omega]

theorem seqFind_findSig (s : Bytes) (j : Nat) (h : j ≤ s.length) :
    Py.seqFind s MESSAGE_START_SIGNATURE (j : Int) =
      match findSig (s.drop j) with | some k => ((j + k : Nat) : Int) | none => -1 := by
  have h0 : ¬ ((j : Int) < 0) := by omega
  have h1 : ¬ (j > s.length) := by omega
  simp only [Py.seqFind, h0, if_false, Int.toNat_natCast, h1, sig_eq]
  exact seqFindFrom_findSig _ _

theorem sliceSeq_from (s : Bytes) (j : Nat) : Py.sliceSeq s (some (j : Int)) none = s.drop j := by
  have h0 : ¬ ((j : Int) < 0) := by omega
  simp only [Py.sliceSeq, Py.sliceBound, h0, if_false, Int.toNat_natCast, List.take_length]
  by_cases h : j ≤ s.length
  · rw [Nat.min_eq_left h]
  · have h' : s.length ≤ j := by omega
    rw [Nat.min_eq_right h', List.drop_length, List.drop_eq_nil_of_le h']

theorem sliceSeq_span (s : Bytes) (j : Nat) (L : Int) (hL : 0 ≤ L) (h : j ≤ s.length) :
    Py.sliceSeq s (some (j : Int)) (some ((j : Int) + L)) = (s.drop j).take L.toNat := by
  have h0 : ¬ ((j : Int) < 0) := by omega
  have h1 : ¬ ((j : Int) + L < 0) := by omega
  simp only [Py.sliceSeq, Py.sliceBound, h0, h1, if_false, Int.toNat_natCast]
  rw [Nat.min_eq_left h]
  have e : ((j : Int) + L).toNat = j + L.toNat := by omega
  rw [e, List.drop_take]
  apply List.ext_getElem?
  intro i
  simp only [List.getElem?_take, List.getElem?_drop]
  by_cases hi : i < L.toNat
  · by_cases h2 : j + i < s.length
    · have : i < min (j + L.toNat) s.length - j := by omega
      simp [hi, this]
    · have : ¬ (i < min (j + L.toNat) s.length - j) := by omega
      simp [hi, this]
      omega
  · have : ¬ (i < min (j + L.toNat) s.length - j) := by omega
    simp [hi, this]

theorem findSig_prefix : ∀ (l : Bytes) (k : Nat), findSig l = some k → sig.isPrefixOf (l.drop k) = true
  | [], k, h => by simp [findSig] at h
  | b :: bs, k, h => by
    by_cases hp : sig.isPrefixOf (b :: bs) = true
    · simp [findSig, hp] at h; subst h; simpa using hp
    · simp only [findSig, hp, if_false, Bool.false_eq_true] at h
      cases k with
      | zero => cases hf : findSig bs <;> simp [hf] at h
      | succ k =>
        have := map_succ_eq_some h
        simpa using findSig_prefix bs k this

theorem findSig_at (l : Bytes) (h : sig.isPrefixOf l = true) : findSig l = some 0 := by
  cases l with
  | nil => simp [sig, startSig, List.isPrefixOf] at h
  | cons b bs => simp [findSig, h]

theorem findSig_lt : ∀ (l : Bytes) (k : Nat), findSig l = some k → k + 4 ≤ l.length := by
  intro l k h
  have hp := findSig_prefix l k h
  have : sig.length ≤ (l.drop k).length := (List.isPrefixOf_iff_prefix.1 hp).length_le
  simp [sig_length] at this
  omega


/-! ### one iteration -/

/-- the loop-invariant part of the variables: the parameters, the `ScriptRunner` object, the scan position -/
structure Inv (s : Bytes) (io coe : Bool) (fe : Option (List Char)) (sro : Option Py.Obj) (v : Locals) (j : Nat) : Prop where
  hs : v.s = s
  hio : v.info_only = io
  hcoe : v.continue_on_error = coe
  hfe : v.filter_expr = fe
  hsr : v.sr = sro
  hidx : v.idx_start = (j : Int)

/-- what the theorems assume of the callbacks: `length.value` is not negative (it is read as an unsigned field), and the
    table-definition side effect does not raise (the model abstracts it away: C20) -/
structure CbOk (env : Env) : Prop where
  len_nonneg : ∀ rest io m, env.decoder_process rest io = .ok m → 0 ≤ m.length_value
  td : ∃ f : Msg → Py.Obj × Py.Obj × Py.Obj, ∀ m, env.table_definition_process m = .ok (f m)
  inv : env.table_cache_invalidate = .ok ()
  add : ∀ a b, env.table_cache_add_extra_entries a b = .ok ()

/-- what one iteration at a found signature has to establish -/
def StepOk (env : Env) (s : Bytes) (io coe : Bool) (fe : Option (List Char)) (sro : Option Py.Obj) (v : Locals) (p : Nat)
    (r : Step Msg) (g : Py.Flow Locals) : Prop :=
  match r with
  | .fail e => ∃ x v', g = .raise x v' ∧ toErr env x = e ∧ v'.py_yields = v.py_yields
  | .adv n y => ∃ v' j', g = .next v' ∧ Inv s io coe fe sro v' j' ∧
      (j' = p + n ∨ (s.length ≤ j' ∧ s.length ≤ p + n)) ∧ (n = 0 → j' = p) ∧
      v'.py_yields = v.py_yields ++ (yielded p y).map (pyMsg io)

theorem take_length_min (l : Bytes) (n : Nat) : (l.take n).length = min n l.length := by simp

local macro "bsimp" "[" extra:Lean.Parser.Tactic.simpLemma,* "]" : tactic => `(tactic|
  simp [StepOk, step, tryBody, decodeHere, decOf, cfgOf, filterOf, while_1.body, Py.Flow.bind, Py.Flow.eval,
    Py.Flow.tryExcept, yielded, pyMsg, toErr, Err.isLib, Py.unwrapAttr, bind, Except.bind, $extra,*])

/-- closes an `adv` goal left by `bsimp`: the witness is the new scan position -/
local macro "close_adv" w:term : tactic => `(tactic|
  first
  | (refine ⟨$w, ⟨rfl, rfl, rfl, rfl, rfl, ?_⟩, ?_, ?_⟩
     · first | rfl | (dsimp only; omega) | omega | simp
     · omega
     · first | omega | (intro h; rcases h with h | h <;> first | omega | (rw [h]; simp) | (simp [h])))
  | (refine ⟨$w, ⟨rfl, rfl, rfl, rfl, rfl, ?_⟩, ?_⟩
     · first | rfl | (dsimp only; omega) | omega | simp
     · omega))

theorem body_step (env : Env) (hcb : CbOk env) (s : Bytes) (io coe : Bool) (fe : Option (List Char))
    (sro : Option Py.Obj) (sr : Py.Obj) (hsro : Py.truthyOptSeq fe = true → sro = some sr)
    (v : Locals) (j k : Nat) (hinv : Inv s io coe fe sro v j) (hj : j ≤ s.length)
    (hk : findSig (s.drop j) = some k) :
    StepOk env s io coe fe sro v (j + k) (step (decOf env) (cfgOf env io coe fe sr) (s.drop (j + k)))
      (while_1.body env v) := by
  obtain ⟨vs, vio, vcoe, vfe, vsr, vidx, vmatched, vmsg, vu, vb, vd, ve, vy⟩ := v
  obtain ⟨h1, h2, h3, h4, h5, h6⟩ := hinv
  simp only at h1 h2 h3 h4 h5 h6
  subst h1 h2 h3 h4 h5 h6
  have hfind : Py.seqFind vs MESSAGE_START_SIGNATURE (j : Int) = ((j + k : Nat) : Int) := by
    rw [seqFind_findSig vs j hj, hk]
  have hlt := findSig_lt _ _ hk
  simp only [List.length_drop] at hlt
  generalize hp : j + k = p at *
  have hple : p ≤ vs.length := by omega
  have hrest := sliceSeq_from vs p
  have hnn : ¬ ((p : Int) < 0) := by omega
  obtain ⟨ftd, htd⟩ := hcb.td
  have hinvl := hcb.inv
  have hadd := hcb.add
  have hrl : 4 ≤ (vs.drop p).length := by simp only [List.length_drop]; omega
  have hexc : ∀ e : Py.Exc, toErr env e = (if env.isinstance_PyBufrKitError e then Err.lib else Err.other) := fun _ => rfl
  cases hft : Py.truthyOptSeq vfe with
  | false =>
    cases hr : env.decoder_process (vs.drop p) vio with
    | ok m =>
      have hL := hcb.len_nonneg _ _ _ hr
      cases vio with
      | true =>
        have hsp := sliceSeq_span vs p m.length_value hL hple
        bsimp [hft, hr, hfind, hnn, hrest, hsp]
        close_adv (p + min m.length_value.toNat (vs.length - p))
      | false =>
        by_cases hc : m.data_category_value = DATA_CATEGORY_DEFINE_BUFR_TABLES ∧ 0 < m.n_subsets_value
        · bsimp [hft, hr, hfind, hnn, hrest, htd, hinvl, hadd, hc]
          close_adv (p + m.serialized_bytes.length)
        · bsimp [hft, hr, hfind, hnn, hrest, htd, hinvl, hadd, hc]
          close_adv (p + m.serialized_bytes.length)
    | error e =>
      cases hl : env.isinstance_PyBufrKitError e with
      | false =>
        bsimp [hft, hr, hfind, hnn, hrest, hl]
        exact ⟨_, _, ⟨rfl, rfl⟩, hl, rfl⟩
      | true =>
        cases vcoe with
        | false =>
          bsimp [hft, hr, hfind, hnn, hrest, hl]
          exact ⟨_, _, ⟨rfl, rfl⟩, hl, rfl⟩
        | true =>
          cases vio with
          | true =>
            bsimp [hft, hr, hfind, hnn, hrest, hl]
            close_adv (p + 1)
          | false =>
            cases hr2 : env.decoder_process (vs.drop p) true with
            | ok mi =>
              have hL := hcb.len_nonneg _ _ _ hr2
              bsimp [hft, hr, hr2, hfind, hnn, hrest, hl]
              close_adv (p + mi.length_value.toNat)
            | error e2 =>
              cases hl2 : env.isinstance_PyBufrKitError e2 with
              | true =>
                bsimp [hft, hr, hr2, hfind, hnn, hrest, hl, hl2]
                close_adv (p + 1)
              | false =>
                bsimp [hft, hr, hr2, hfind, hnn, hrest, hl, hl2]
                exact ⟨_, _, ⟨rfl, rfl⟩, hl2, rfl⟩
  | true =>
    have hsr' := hsro hft
    subst hsr'
    cases hr1 : env.decoder_process (vs.drop p) true with
    | error e =>
      cases hl : env.isinstance_PyBufrKitError e with
      | false =>
        bsimp [hft, hr1, hfind, hnn, hrest, hl]
        exact ⟨_, _, ⟨rfl, rfl⟩, hl, rfl⟩
      | true =>
        cases vcoe <;> cases vio <;> bsimp [hft, hr1, hfind, hnn, hrest, hl]
        · exact ⟨_, _, ⟨rfl, rfl⟩, hl, rfl⟩
        · exact ⟨_, _, ⟨rfl, rfl⟩, hl, rfl⟩
        · close_adv (p + 1)
        · close_adv (p + 1)
    | ok mi =>
      have hLi := hcb.len_nonneg _ _ _ hr1
      cases hb : env.sr_run sr mi with
      | error e =>
        cases hl : env.isinstance_PyBufrKitError e with
        | false =>
          bsimp [hft, hr1, hb, hfind, hnn, hrest, hl]
          exact ⟨_, _, ⟨rfl, rfl⟩, hl, rfl⟩
        | true =>
          cases vcoe <;> cases vio <;> bsimp [hft, hr1, hb, hfind, hnn, hrest, hl]
          · exact ⟨_, _, ⟨rfl, rfl⟩, hl, rfl⟩
          · exact ⟨_, _, ⟨rfl, rfl⟩, hl, rfl⟩
          · close_adv (p + mi.length_value.toNat)
          · close_adv (p + 1)
      | ok b =>
        cases vio with
        | true =>
          have hsp := sliceSeq_span vs p mi.length_value hLi hple
          cases b <;> bsimp [hft, hr1, hb, hfind, hnn, hrest, hsp]
          · close_adv (p + min mi.length_value.toNat (vs.length - p))
          · close_adv (p + min mi.length_value.toNat (vs.length - p))
        | false =>
          cases b with
          | false =>
            by_cases hc : mi.data_category_value = DATA_CATEGORY_DEFINE_BUFR_TABLES ∧ 0 < mi.n_subsets_value
            · bsimp [hft, hr1, hb, hfind, hnn, hrest, htd, hinvl, hadd, hc]
              close_adv (p + mi.serialized_bytes.length)
            · bsimp [hft, hr1, hb, hfind, hnn, hrest, htd, hinvl, hadd, hc]
              close_adv (p + mi.serialized_bytes.length)
          | true =>
            cases hr2 : env.decoder_process (vs.drop p) false with
            | ok m =>
              by_cases hc : m.data_category_value = DATA_CATEGORY_DEFINE_BUFR_TABLES ∧ 0 < m.n_subsets_value
              · bsimp [hft, hr1, hr2, hb, hfind, hnn, hrest, htd, hinvl, hadd, hc]
                close_adv (p + m.serialized_bytes.length)
              · bsimp [hft, hr1, hr2, hb, hfind, hnn, hrest, htd, hinvl, hadd, hc]
                close_adv (p + m.serialized_bytes.length)
            | error e =>
              cases hl : env.isinstance_PyBufrKitError e with
              | false =>
                bsimp [hft, hr1, hr2, hb, hfind, hnn, hrest, hl]
                exact ⟨_, _, ⟨rfl, rfl⟩, hl, rfl⟩
              | true =>
                cases vcoe <;> bsimp [hft, hr1, hr2, hb, hfind, hnn, hrest, hl]
                · exact ⟨_, _, ⟨rfl, rfl⟩, hl, rfl⟩
                · close_adv (p + mi.length_value.toNat)

end Bufr.Stream
