/-
  C07: the replication of 031031 behind a bit-map operator, and the operators outside a bit-map
  definition, against the fold.
-/
import BufrModel.Lemmas.LinkSpecWalkC
namespace Bufr.C07
open Bufr.Spec

/-! ### the bits -/

/-- inside the replication of 031031: waiting for the first bit or counting them; no 235000 since the operator -/
def BitInv (V : St → List Val) (s : St) (cs : List Nat) : Prop :=
  Core V s cs ∧ (s.regs.bitmapDef = .waiting ∨ s.regs.bitmapDef = .counting) ∧ ∀ c ∈ cs, c ≤ s.regs.backBoundary

theorem bitmapDefinition_bit (P : Prims) (s : St) (h : s.regs.bitmapDef = .waiting ∨ s.regs.bitmapDef = .counting) :
    bitmapDefinition P 31031 s =
      .ok (s.setRegs fun r => { r with bitmapDef := .counting, n031031 := r.n031031 + 1 }) := by
  unfold bitmapDefinition
  rcases h with h | h
  · simp [h]
  · simp only [h, if_true]
    congr 1
    simp only [St.setRegs]
    congr 1
    cases hr : s.regs
    rw [hr] at h
    simp only at h
    simp [h]

theorem xOf_bit : xOf 31031 = 31 := by decide

theorem BitInv.elem {P : Prims} {V : St → List Val} {X : St → Prop} (hR : Rec P V X) {s s' : St} {cs : List Nat} (hi : BitInv V s cs)
    (e : Elem) (he : e.id = 31031) (h : walk1 P (.elem e) s = .ok s') : BitInv V s' cs := by
  obtain ⟨hc, hst, hwin⟩ := hi
  rw [walk1_quiet P _ s hc.quiet.1 hc.quiet.2.1 hc.quiet.2.2] at h
  have hid : (Desc.elem e).id = 31031 := he
  rw [hid, bitmapDefinition_bit P s hst] at h
  simp only [dispatch] at h
  rw [Bufr.C07.elementDescriptor_eq] at h
  have hx : xOf e.id = 31 := by rw [he]; exact xOf_bit
  have ha : stAssoc P e (s.setRegs fun r => { r with bitmapDef := .counting, n031031 := r.n031031 + 1 }) =
      .ok (s.setRegs fun r => { r with bitmapDef := .counting, n031031 := r.n031031 + 1 }) := by
    unfold stAssoc
    rw [if_neg (by intro hh; exact hh.2 hx)]
    rfl
  rw [ha] at h
  simp only [bind, Except.bind] at h
  cases h2 : stQa e (s.setRegs fun r => { r with bitmapDef := .counting, n031031 := r.n031031 + 1 }) with
  | error err => simp [h2] at h
  | ok s2 =>
    simp only [h2] at h
    obtain ⟨v, hv⟩ := stValue_grow hR _ _ _ _ h
    obtain ⟨sd, sl, sr⟩ := stValue_ok hR.quiet h
    obtain ⟨qd, qv, _⟩ := stQa_shape hR e _ s2 h2
    have qr := stQa_regs e _ s2 h2
    have qo := stQa_ok h2
    rw [hR.setRegs] at qv
    have hnt : ¬ takesBit e (s.setRegs fun r => { r with bitmapDef := .counting, n031031 := r.n031031 + 1 }) := by
      intro t; have t1 := t.1; rw [hx] at t1; exact absurd t1 (by decide)
    rcases qo.2.2 with ⟨t, _⟩ | ⟨_, b1, b2⟩
    · exact absurd t hnt
    · have hbit : isBit (DDesc.plain e, v) = true := by simp [isBit, he]
      have hcore : Core V s' cs := by
        refine hc.bit (.plain e) v (by rw [sd, qd]; rfl) (by rw [hv, qv]) hbit hst hwin
          (by rw [sr, qr]; rfl) (by rw [sr, qr]; rfl) (by rw [sr, qr]; rfl) (by rw [sr, qr]; rfl)
          (by rw [sl, b1]; rfl) (by rw [sr, qr]; rfl) (by rw [sr, qr]; rfl) (by rw [sr, b2]; rfl)
          (by rw [sr, qr]; exact hc.quiet)
      refine ⟨hcore, Or.inr (by rw [sr, qr]; rfl), ?_⟩
      have : s'.regs.backBoundary = s.regs.backBoundary := by rw [sr, qr]; rfl
      rw [this]; exact hwin

theorem walkList_single (P : Prims) (d : Desc) (s : St) : walkList P [d] s = walk1 P d s := by
  rw [walkList]
  cases walk1 P d s with
  | error e => rfl
  | ok s' => simp only; rw [walkList]

theorem BitInv.iter {P : Prims} {V : St → List Val} {X : St → Prop} (hR : Rec P V X) (e : Elem) (he : e.id = 31031) (n : Nat) :
    ∀ (s s' : St) (cs : List Nat), BitInv V s cs → iterN n (walkList P [.elem e]) s = .ok s' → BitInv V s' cs := by
  induction n with
  | zero => intro s s' cs hi h; unfold iterN at h; cases h; exact hi
  | succ n ih =>
    intro s s' cs hi h
    unfold iterN at h
    cases h1 : walkList P [.elem e] s with
    | error err => rw [h1] at h; cases h
    | ok s1 =>
      rw [h1] at h
      rw [walkList_single] at h1
      exact ih s1 s' cs (hi.elem hR e he h1) h

theorem ghostIter_nil (f : St → CM St) (c : St → List Nat) (hc : ∀ s, c s = []) (n : Nat) (s : St) :
    ghostIter f c n s = [] := by
  induction n generalizing s with
  | zero => rfl
  | succ n ih =>
    unfold ghostIter
    rw [hc]
    cases f s with
    | error e => rfl
    | ok s' => simp only [List.nil_append]; exact ih s'

theorem cancels1_elem (P : Prims) (e : Elem) (s : St) : cancels1 P (.elem e) s = [] := by
  rw [cancels1_eq]
  cases entryOf P (.elem e) s <;> rfl

theorem cancelsL_bits (P : Prims) (e : Elem) (s : St) : cancelsL P [.elem e] s = [] := by
  rw [cancelsL_cons, cancels1_elem]
  cases walk1 P (.elem e) s with
  | error _ => rfl
  | ok s' => simp only [List.nil_append]; rw [cancelsL_nil]

/-! ### the replication of 031031 as a member -/

theorem isBitRep_cases (d : Desc) (h : isBitRep d = true) :
    (∃ id e, d = .fixedRep id [.elem e] ∧ e.id = 31031 ∧ id ≠ 31031 ∧ id ≠ 237000) ∨
    (∃ id f e, d = .delayedRep id (.elem f) [.elem e] ∧ e.id = 31031 ∧ f.id ≠ 31031 ∧ id ≠ 31031 ∧ id ≠ 237000) := by
  cases d with
  | fixedRep id ms =>
    cases ms with
    | nil => simp [isBitRep] at h
    | cons m ms' =>
      cases ms' with
      | cons _ _ => cases m <;> simp [isBitRep] at h
      | nil =>
        cases m with
        | elem e => left; simp [isBitRep] at h; exact ⟨id, e, rfl, h.1.1, h.1.2, h.2⟩
        | _ => simp [isBitRep] at h
  | delayedRep id f ms =>
    cases f with
    | elem fe =>
      cases ms with
      | nil => simp [isBitRep] at h
      | cons m ms' =>
        cases ms' with
        | cons _ _ => cases m <;> simp [isBitRep] at h
        | nil =>
          cases m with
          | elem e => right; simp [isBitRep] at h; exact ⟨id, fe, e, rfl, h.1.1.1, h.1.1.2, h.1.2, h.2⟩
          | _ => simp [isBitRep] at h
    | _ => simp [isBitRep] at h
  | _ => simp [isBitRep] at h

/-- the prelude of the member that follows the operator (or 236000): the state machine waits for the first bit -/
theorem Core.prelude_bitrep {P : Prims} {V : St → List Val} {X : St → Prop} (hR : Rec P V X) {s s1 : St} {cs : List Nat}
    (hc : Core V s cs)
    (hph : s.regs.bitmapDef = .indicator ∨ (s.regs.bitmapDef = .waiting ∧ ∀ c ∈ cs, c ≤ s.regs.backBoundary))
    (id : Nat) (h1 : id ≠ 31031) (h2 : id ≠ 237000) (h : bitmapDefinition P id s = .ok s1) :
    BitInv V s1 cs ∧ s1.regs.bitmapDef = .waiting ∧ s1.descs = s.descs := by
  unfold bitmapDefinition at h
  rcases hph with hi | ⟨hw, hwin⟩
  · simp only [hi, if_neg h2] at h
    injection h with h; subst h
    have hp := hc.phase
    unfold PhaseRel at hp
    rw [hi] at hp
    have hc' : Core V (s.setRegs fun r => { r with bitmapDef := .waiting, n031031 := 0 }) cs := by
      refine hc.congr rfl (hR.setRegs _ _) rfl rfl ?_ rfl rfl rfl hc.quiet ?_
      · show (BitmapDef.waiting = BitmapDef.counting) ↔ _
        rw [hi]
        constructor <;> (intro x; cases x)
      · have : PhaseRel V (s.setRegs fun r => { r with bitmapDef := .waiting, n031031 := 0 }) cs
            (foldItems cs (items V s)) = (((foldItems cs (items V s)).ph = .afterOp s.regs.backBoundary ∨
              ∃ r, (foldItems cs (items V s)).ph = .pre s.regs.backBoundary r) ∧ (0 : Nat) = 0) := rfl
        rw [this]
        exact ⟨Or.inl hp.1, rfl⟩
    exact ⟨⟨hc', Or.inl rfl, hp.2⟩, rfl, rfl⟩
  · simp only [hw, if_neg h1] at h
    injection h with h; subst h
    exact ⟨⟨hc, Or.inl hw, hwin⟩, hw, rfl⟩

theorem Core.bitrep {P : Prims} {V : St → List Val} {X : St → Prop} (hR : Rec P V X) {s s' : St} {cs : List Nat} (hc : Core V s cs)
    (hph : s.regs.bitmapDef = .indicator ∨ (s.regs.bitmapDef = .waiting ∧ ∀ c ∈ cs, c ≤ s.regs.backBoundary))
    (d : Desc) (hd : isBitRep d = true) (h : walk1 P d s = .ok s') :
    Core V s' cs ∧ s'.regs.bitmapDef ≠ .indicator ∧ cancels1 P d s = [] := by
  have hq := hc.quiet
  rw [walk1_quiet P d s hq.1 hq.2.1 hq.2.2] at h
  have hce : cancels1 P d s = match bitmapDefinition P d.id s with
      | .error _ => []
      | .ok s1 => cancelsD P d s1 := by
    rw [cancels1_eq, entryOf_quiet P d s hq.1 hq.2.1 hq.2.2]
    cases bitmapDefinition P d.id s <;> rfl
  rw [hce]
  have fin : ∀ s2 : St, BitInv V s2 cs → Core V s2 cs ∧ s2.regs.bitmapDef ≠ .indicator := by
    intro s2 hb
    refine ⟨hb.1, ?_⟩
    rcases hb.2.1 with hh | hh <;> (rw [hh]; exact fun x => nomatch x)
  rcases isBitRep_cases d hd with ⟨id, e, rfl, he, hid1, hid2⟩ | ⟨id, f, e, rfl, he, hf, hid1, hid2⟩
  · cases h1 : bitmapDefinition P (Desc.fixedRep id [.elem e]).id s with
    | error err => rw [h1] at h; cases h
    | ok s1 =>
      rw [h1] at h
      simp only [dispatch] at h
      obtain ⟨hb, _, _⟩ := hc.prelude_bitrep hR hph id hid1 hid2 h1
      obtain ⟨a, b⟩ := fin s' (BitInv.iter hR e he _ s1 s' cs hb h)
      refine ⟨a, b, ?_⟩
      simp only [cancelsD]
      exact ghostIter_nil _ _ (cancelsL_bits P e) _ _
  · cases h1 : bitmapDefinition P (Desc.delayedRep id (.elem f) [.elem e]).id s with
    | error err => rw [h1] at h; cases h
    | ok s1 =>
      rw [h1] at h
      simp only [dispatch] at h
      obtain ⟨hb, hw, _⟩ := hc.prelude_bitrep hR hph id hid1 hid2 h1
      simp only [cancelsD]
      cases h2 : elementDescriptor P (.plain f) f s1 with
      | error err => rw [h2] at h; cases h
      | ok s2 =>
        rw [h2] at h
        simp only at h ⊢
        obtain ⟨c2, e1, e2, _⟩ := hb.1.element hR (Or.inr hw) f hf h2
        have hb2 : BitInv V s2 cs := ⟨c2, by rw [e1]; exact hb.2.1, by rw [e2]; exact hb.2.2⟩
        cases h3 : P.factorValue s2 >>= factorCount with
        | error err => rw [h3] at h; cases h
        | ok n =>
          rw [h3] at h
          simp only at h ⊢
          obtain ⟨a, b⟩ := fin s' (BitInv.iter hR e he _ s2 s' cs hb2 h)
          exact ⟨a, b, ghostIter_nil _ _ (cancelsL_bits P e) _ _⟩

/-! ### the operators outside a bit-map definition -/

theorem Core.operator {P : Prims} {V : St → List Val} {X : St → Prop} (hR : Rec P V X) {s s' : St} {cs : List Nat} (hc : Core V s cs)
    (hst : Settled s) (id : Nat) (hok1 : okIdleOp id = true) (hnb : isBitmapOpId id = false)
    (h : operatorDescriptor P id s = .ok s') (hok : markersOk (items V s') = true) :
    Core V s' (cs ++ (if id / 1000 = 235 then [s.descs.length] else [])) ∧ Settled s' := by
  have hnm : id ∉ bitmapOpIds := by simpa [isBitmapOpId] using hnb
  simp only [okIdleOp, Bool.and_eq_true, bne_iff_ne, ne_eq, Bool.not_eq_true'] at hok1
  obtain ⟨⟨⟨h236, h237⟩, _⟩, hh⟩ := hok1
  have hinert : inert (DDesc.oper id) := ⟨hnm, h237⟩
  have hdm := Nat.div_add_mod id 1000
  -- register updates that the bit-map machinery does not see
  have regs : ∀ (f : Regs → Regs), id / 1000 ≠ 235 →
      (f s.regs).qa = s.regs.qa → (f s.regs).bitmapDef = s.regs.bitmapDef → (f s.regs).n031031 = s.regs.n031031 →
      (f s.regs).bitmapped = s.regs.bitmapped → (f s.regs).bmIter = s.regs.bmIter →
      (f s.regs).backBoundary = s.regs.backBoundary → (f s.regs).backRefs = s.regs.backRefs →
      ((f s.regs).nbitsNewRefval = 0 ∧ (f s.regs).nbitsSkipped = 0 ∧ (f s.regs).dnpCount = 0) →
      Core V (s.setRegs f) (cs ++ (if id / 1000 = 235 then [s.descs.length] else [])) ∧ Settled (s.setRegs f) := by
    intro f hne a1 a2 a3 a4 a5 a6 a7 a8
    rw [if_neg hne, List.append_nil]
    refine ⟨hc.setRegs_other hR.setRegs f a1 a2 a3 a4 a5 a6 a7 a8, ?_⟩
    unfold Settled
    show (f s.regs).bitmapDef = _ ∨ (f s.regs).bitmapDef = _
    rw [a2]; exact hst
  -- one inert item recorded by a primitive
  have item : ∀ (s0 s1 : St) (v : Val), Core V s0 cs → Settled s0 → Same s0 s1 (.oper id) → V s1 = V s0 ++ [v] →
      Core V s1 cs ∧ Settled s1 := by
    intro s0 s1 v c0 st0 hs hv
    refine ⟨c0.inert_item st0 _ v hs hv hinert, ?_⟩
    unfold Settled; rw [hs.2.2]; exact st0
  unfold operatorDescriptor at h
  simp only at h
  by_cases c201 : id / 1000 = 201
  · simp only [c201, if_true] at h
    injection h with h; subst h
    exact regs _ (by omega) rfl rfl rfl rfl rfl rfl rfl hc.quiet
  simp only [c201, if_false] at h
  by_cases c202 : id / 1000 = 202
  · simp only [c202, if_true] at h
    injection h with h; subst h
    exact regs _ (by omega) rfl rfl rfl rfl rfl rfl rfl hc.quiet
  simp only [c202, if_false] at h
  by_cases c203 : id / 1000 = 203
  · simp only [c203, if_true] at h
    by_cases y255 : id % 1000 = 255
    · simp only [y255, if_true] at h
      injection h with h; subst h
      exact regs _ (by omega) rfl rfl rfl rfl rfl rfl rfl ⟨rfl, hc.quiet.2.1, hc.quiet.2.2⟩
    · simp only [y255, if_false] at h
      by_cases y0 : id % 1000 = 0
      · simp only [y0, if_true] at h
        injection h with h; subst h
        exact regs _ (by omega) rfl rfl rfl rfl rfl rfl rfl ⟨rfl, hc.quiet.2.1, hc.quiet.2.2⟩
      · exfalso
        simp [hidesMembers, c203, y0, y255] at hh
  simp only [c203, if_false] at h
  by_cases c204 : id / 1000 = 204
  · simp only [c204, if_true] at h
    by_cases y0 : id % 1000 = 0
    · simp only [y0, if_true] at h
      split at h
      · cases h
      · injection h with h; subst h
        exact regs _ (by omega) rfl rfl rfl rfl rfl rfl rfl hc.quiet
    · simp only [y0, if_false] at h
      injection h with h; subst h
      exact regs _ (by omega) rfl rfl rfl rfl rfl rfl rfl hc.quiet
  simp only [c204, if_false] at h
  by_cases c205 : id / 1000 = 205
  · simp only [c205, if_true] at h
    rw [if_neg (by omega), List.append_nil]
    obtain ⟨v, hv⟩ := hR.string _ _ _ _ h
    exact item s s' v hc hst (hR.quiet.string _ _ _ _ h) hv
  simp only [c205, if_false] at h
  by_cases c206 : id / 1000 = 206
  · simp only [c206, if_true] at h
    injection h with h; subst h
    have y0 : id % 1000 = 0 := by
      cases hy : id % 1000 with
      | zero => rfl
      | succ k => exfalso; simp [hidesMembers, c206, hy] at hh
    exact regs _ (by omega) rfl rfl rfl rfl rfl rfl rfl ⟨hc.quiet.1, y0, hc.quiet.2.2⟩
  simp only [c206, if_false] at h
  by_cases c207 : id / 1000 = 207
  · simp only [c207, if_true] at h
    injection h with h; subst h
    exact regs _ (by omega) rfl rfl rfl rfl rfl rfl rfl hc.quiet
  simp only [c207, if_false] at h
  by_cases c208 : id / 1000 = 208
  · simp only [c208, if_true] at h
    injection h with h; subst h
    exact regs _ (by omega) rfl rfl rfl rfl rfl rfl rfl hc.quiet
  simp only [c208, if_false] at h
  by_cases c221 : id / 1000 = 221
  · simp only [c221, if_true] at h
    injection h with h; subst h
    have y0 : id % 1000 = 0 := by
      cases hy : id % 1000 with
      | zero => rfl
      | succ k => exfalso; simp [hidesMembers, c221, hy] at hh
    exact regs _ (by omega) rfl rfl rfl rfl rfl rfl rfl ⟨hc.quiet.1, hc.quiet.2.1, y0⟩
  simp only [c221, if_false] at h
  by_cases cm : id / 1000 = 222 ∨ id / 1000 = 223 ∨ id / 1000 = 224 ∨ id / 1000 = 225 ∨ id / 1000 = 232
  · simp only [cm, if_true] at h
    rw [if_neg (by omega), List.append_nil]
    by_cases y0 : id % 1000 = 0
    · exfalso
      apply hnm
      have : id = 222000 ∨ id = 223000 ∨ id = 224000 ∨ id = 225000 ∨ id = 232000 := by omega
      rcases this with rfl | rfl | rfl | rfl | rfl <;> decide
    · simp only [y0, if_false, bind, Except.bind] at h
      by_cases ha : s.regs.assocStack = []
      · simp only [ha, ne_eq, not_true_eq_false, if_false, pure, Except.pure] at h
        obtain ⟨a, b⟩ := hc.bitmapped hR hst id h hok
        exact ⟨a, by unfold Settled; rw [b]; exact hst⟩
      · simp only [ha, ne_eq, not_false_eq_true, if_true] at h
        cases h1 : associatedField P id s with
        | error err => simp [h1] at h
        | ok s1 =>
          simp only [h1] at h
          obtain ⟨v, hv⟩ := hR.codeflag _ _ _ _ h1
          have hs := hR.quiet.codeflag _ _ _ _ h1
          have c1 : Core V s1 cs := hc.inert_item hst _ v hs hv trivial
          have st1 : Settled s1 := by unfold Settled; rw [hs.2.2]; exact hst
          obtain ⟨a, b⟩ := c1.bitmapped hR st1 id h hok
          exact ⟨a, by unfold Settled; rw [b]; exact st1⟩
  simp only [cm, if_false] at h
  by_cases c235 : id / 1000 = 235
  · simp only [c235, if_true] at h
    injection h with h; subst h
    rw [if_pos c235]
    exact ⟨hc.cancel hR.setRegs hst, hst⟩
  simp only [c235, if_false] at h
  by_cases c236 : id / 1000 = 236
  · simp only [c236, if_true] at h
    rw [if_neg (by omega), List.append_nil]
    obtain ⟨v, hv⟩ := hR.constant _ _ _ _ h
    exact item s s' v hc hst (hR.quiet.constant _ _ _ _ h) hv
  simp only [c236, if_false] at h
  by_cases c237 : id / 1000 = 237
  · simp only [c237, if_true] at h
    rw [if_neg (by omega), List.append_nil]
    have y0 : ¬ id % 1000 = 0 := by intro y0; apply h237; omega
    simp only [y0, if_false] at h
    obtain ⟨v, hv⟩ := hR.constant _ _ _ _ h
    exact item s s' v hc hst (hR.quiet.constant _ _ _ _ h) hv
  simp only [c237, if_false] at h
  cases h

end Bufr.C07
