/-
  C07, `Spec.links = linksFold`, part 2: the projections of one fold step, and the STRUCTURAL part of the
  invariant (`SInv`): the phase of the fold and its list of finished definitions describe `Spec.defs` of the
  prefix read so far.
-/
import BufrModel.Lemmas.LinksFoldStable
namespace Bufr.Spec

/-! ### kinds of items exclude each other -/

theorem op_not_bit (x : Item) (h : isBitmapOp x = true) : isBit x = false := by
  obtain ⟨d, v⟩ := x; cases d <;> simp_all [isBitmapOp, isBit]

theorem bit_not_op (x : Item) (h : isBit x = true) : isBitmapOp x = false := by
  obtain ⟨d, v⟩ := x; cases d <;> simp_all [isBitmapOp, isBit]

theorem bit_not_oper (id : Nat) (x : Item) (h : isBit x = true) : isOper id x = false := by
  obtain ⟨d, v⟩ := x; cases d <;> simp_all [isOper, isBit]

theorem oper_not_bit (id : Nat) (x : Item) (h : isOper id x = true) : isBit x = false := by
  obtain ⟨d, v⟩ := x; cases d <;> simp_all [isOper, isBit]

theorem op_not_recall (x : Item) (h : isBitmapOp x = true) : isOper 237000 x = false := by
  obtain ⟨d, v⟩ := x
  cases d <;> simp_all [isBitmapOp, isOper, bitmapOpIds]
  rename_i id
  intro h2; subst h2; simp at h

theorem bit_not_plainBit (x : Item) (h : isBit x = true) : ∃ e, plainElem? x = some e := by
  obtain ⟨d, v⟩ := x; cases d <;> simp_all [plainElem?, isBit]

theorem op_not_plain (x : Item) (h : isBitmapOp x = true) : plainElem? x = none := by
  obtain ⟨d, v⟩ := x; cases d <;> simp_all [plainElem?, isBitmapOp]

theorem bit_not_consumer (q : QaStatus) (x : Item) (h : isBit x = true) : consumesF q x = false := by
  obtain ⟨d, v⟩ := x
  cases d <;> simp_all [consumesF, isBit]
  intro h2
  exact absurd h2 (by decide)

theorem oper_not_consumer (q : QaStatus) (id : Nat) (x : Item) (h : isOper id x = true) : consumesF q x = false := by
  obtain ⟨d, v⟩ := x; cases d <;> simp_all [consumesF, isOper]

theorem op_not_consumer (q : QaStatus) (x : Item) (h : isBitmapOp x = true) : consumesF q x = false := by
  obtain ⟨d, v⟩ := x; cases d <;> simp_all [consumesF, isBitmapOp]

/-! ### projections of one step -/

def fin1 (st : FS) (x : Item) : FS := if isBit x then st else finalize st
def can1 (cs : List Nat) (st : FS) : FS := if cs.contains st.pos then { st with est := none } else st
def srv1 (st : FS) (x : Item) : FS := if consumesF st.qa x then serve st else st

/-- the pending definition of a run in progress -/
def pend (st : FS) : List BitmapDef :=
  match st.ph with
  | .run p r bits => [{ op := p, eff := st.pos, bits := bits, reusable := r }]
  | _ => []

@[simp] theorem finalize_pos (st : FS) : (finalize st).pos = st.pos := by unfold finalize; split <;> rfl
@[simp] theorem finalize_plains (st : FS) : (finalize st).plains = st.plains := by unfold finalize; split <;> rfl
@[simp] theorem finalize_below (st : FS) : (finalize st).below = st.below := by unfold finalize; split <;> rfl
@[simp] theorem finalize_qa (st : FS) : (finalize st).qa = st.qa := by unfold finalize; split <;> rfl
@[simp] theorem finalize_links (st : FS) : (finalize st).links = st.links := by unfold finalize; split <;> rfl
theorem finalize_defs (st : FS) : (finalize st).defs = st.defs ++ pend st := by
  unfold finalize pend; split <;> simp_all
theorem finalize_ph (st : FS) : (finalize st).ph = match st.ph with | .run _ _ _ => .idle | ph => ph := by
  unfold finalize; split <;> simp_all

@[simp] theorem fin1_pos (st : FS) (x : Item) : (fin1 st x).pos = st.pos := by unfold fin1; split <;> simp
@[simp] theorem fin1_plains (st : FS) (x : Item) : (fin1 st x).plains = st.plains := by unfold fin1; split <;> simp
@[simp] theorem fin1_below (st : FS) (x : Item) : (fin1 st x).below = st.below := by unfold fin1; split <;> simp
@[simp] theorem fin1_qa (st : FS) (x : Item) : (fin1 st x).qa = st.qa := by unfold fin1; split <;> simp
@[simp] theorem fin1_links (st : FS) (x : Item) : (fin1 st x).links = st.links := by unfold fin1; split <;> simp

@[simp] theorem can1_pos (cs : List Nat) (st : FS) : (can1 cs st).pos = st.pos := by unfold can1; split <;> rfl
@[simp] theorem can1_plains (cs : List Nat) (st : FS) : (can1 cs st).plains = st.plains := by unfold can1; split <;> rfl
@[simp] theorem can1_below (cs : List Nat) (st : FS) : (can1 cs st).below = st.below := by unfold can1; split <;> rfl
@[simp] theorem can1_qa (cs : List Nat) (st : FS) : (can1 cs st).qa = st.qa := by unfold can1; split <;> rfl
@[simp] theorem can1_ph (cs : List Nat) (st : FS) : (can1 cs st).ph = st.ph := by unfold can1; split <;> rfl
@[simp] theorem can1_defs (cs : List Nat) (st : FS) : (can1 cs st).defs = st.defs := by unfold can1; split <;> rfl
@[simp] theorem can1_sel (cs : List Nat) (st : FS) : (can1 cs st).sel = st.sel := by unfold can1; split <;> rfl
@[simp] theorem can1_iter (cs : List Nat) (st : FS) : (can1 cs st).iter = st.iter := by unfold can1; split <;> rfl
@[simp] theorem can1_links (cs : List Nat) (st : FS) : (can1 cs st).links = st.links := by unfold can1; split <;> rfl
theorem can1_est (cs : List Nat) (st : FS) : (can1 cs st).est = if cs.contains st.pos then none else st.est := by
  unfold can1; split <;> rfl

@[simp] theorem serve_pos (st : FS) : (serve st).pos = st.pos := by unfold serve; split <;> rfl
@[simp] theorem serve_plains (st : FS) : (serve st).plains = st.plains := by unfold serve; split <;> rfl
@[simp] theorem serve_below (st : FS) : (serve st).below = st.below := by unfold serve; split <;> rfl
@[simp] theorem serve_qa (st : FS) : (serve st).qa = st.qa := by unfold serve; split <;> rfl
@[simp] theorem serve_ph (st : FS) : (serve st).ph = st.ph := by unfold serve; split <;> rfl
@[simp] theorem serve_defs (st : FS) : (serve st).defs = st.defs := by unfold serve; split <;> rfl
@[simp] theorem serve_est (st : FS) : (serve st).est = st.est := by unfold serve; split <;> rfl
@[simp] theorem serve_sel (st : FS) : (serve st).sel = st.sel := by unfold serve; split <;> rfl

@[simp] theorem srv1_pos (st : FS) (x : Item) : (srv1 st x).pos = st.pos := by unfold srv1; split <;> simp
@[simp] theorem srv1_plains (st : FS) (x : Item) : (srv1 st x).plains = st.plains := by unfold srv1; split <;> simp
@[simp] theorem srv1_below (st : FS) (x : Item) : (srv1 st x).below = st.below := by unfold srv1; split <;> simp
@[simp] theorem srv1_qa (st : FS) (x : Item) : (srv1 st x).qa = st.qa := by unfold srv1; split <;> simp
@[simp] theorem srv1_ph (st : FS) (x : Item) : (srv1 st x).ph = st.ph := by unfold srv1; split <;> simp
@[simp] theorem srv1_defs (st : FS) (x : Item) : (srv1 st x).defs = st.defs := by unfold srv1; split <;> simp
@[simp] theorem srv1_est (st : FS) (x : Item) : (srv1 st x).est = st.est := by unfold srv1; split <;> simp
@[simp] theorem srv1_sel (st : FS) (x : Item) : (srv1 st x).sel = st.sel := by unfold srv1; split <;> simp

theorem step_eq (cs : List Nat) (st : FS) (x : Item) :
    step cs st x =
      let st3 := srv1 (can1 cs (fin1 st x)) x
      { st3 with
        pos := st3.pos + 1
        plains := st3.plains ++ ((plainElem? x).map fun e => (st3.pos, e)).toList
        below := if isBitmapOp x then st3.plains else st3.below
        qa := qaStep st3.qa x
        ph := phStep st3.ph st3.pos x
        iter := if isOper 237000 x then st3.sel else st3.iter } := rfl

theorem step_pos (cs : List Nat) (st : FS) (x : Item) : (step cs st x).pos = st.pos + 1 := by
  rw [step_eq]; simp
theorem step_plains (cs : List Nat) (st : FS) (x : Item) :
    (step cs st x).plains = st.plains ++ ((plainElem? x).map fun e => (st.pos, e)).toList := by
  rw [step_eq]; simp
theorem step_below (cs : List Nat) (st : FS) (x : Item) :
    (step cs st x).below = if isBitmapOp x then st.plains else st.below := by
  rw [step_eq]; simp
theorem step_qa (cs : List Nat) (st : FS) (x : Item) : (step cs st x).qa = qaStep st.qa x := by
  rw [step_eq]; simp
theorem step_ph (cs : List Nat) (st : FS) (x : Item) : (step cs st x).ph = phStep (fin1 st x).ph st.pos x := by
  rw [step_eq]; simp
theorem step_defs (cs : List Nat) (st : FS) (x : Item) : (step cs st x).defs = (fin1 st x).defs := by
  rw [step_eq]; simp
theorem step_est (cs : List Nat) (st : FS) (x : Item) :
    (step cs st x).est = if cs.contains st.pos then none else (fin1 st x).est := by
  rw [step_eq]; simp [can1_est]
theorem step_sel (cs : List Nat) (st : FS) (x : Item) : (step cs st x).sel = (fin1 st x).sel := by
  rw [step_eq]; simp
theorem step_iter (cs : List Nat) (st : FS) (x : Item) :
    (step cs st x).iter = if isOper 237000 x then (fin1 st x).sel else (srv1 (can1 cs (fin1 st x)) x).iter := by
  rw [step_eq]; simp
theorem step_links (cs : List Nat) (st : FS) (x : Item) :
    (step cs st x).links = (srv1 (can1 cs (fin1 st x)) x).links := by
  rw [step_eq]

/-! ### the structural invariant -/

def headIs (id : Nat) (B : List Item) : Bool := (B.head?.map (isOper id)).getD false

/-- the phase describes the items `B` behind the last bit-map operator (at `p`) -/
def PhB : Ph → Nat → List Item → Prop
  | .idle, p, B => ∀ ext, segDef p (B ++ ext) = segDef p B
  | .afterOp q, p, B => q = p ∧ B = []
  | .pre q r, p, B => q = p ∧ B ≠ [] ∧ (∀ b ∈ B, isBit b = false) ∧ headIs 237000 B = false ∧ r = headIs 236000 B
  | .run q r bits, p, B => q = p ∧ ∃ pr run, B = pr ++ run ∧ (∀ b ∈ pr, isBit b = false) ∧
      (∀ b ∈ run, isBit b = true) ∧ run ≠ [] ∧ bits = run.map (·.2) ∧ headIs 237000 B = false ∧ r = headIs 236000 B

structure SInv (pre : List Item) (st : FS) : Prop where
  pos : st.pos = pre.length
  plains : st.plains = plainBelow pre pre.length
  defsEq : defs pre = st.defs ++ pend st
  seg : ((∀ it ∈ pre, isBitmapOp it = false) ∧ st.ph = .idle) ∨
    ∃ A op B, pre = A ++ op :: B ∧ isBitmapOp op = true ∧ (∀ b ∈ B, isBitmapOp b = false) ∧
      PhB st.ph A.length B ∧ st.below = plainBelow pre A.length
  wf : ∀ d ∈ st.defs, d.op < d.eff ∧ d.eff ≤ pre.length

theorem defs_noop (its : List Item) (h : ∀ it ∈ its, isBitmapOp it = false) : defs its = [] := by
  unfold defs
  rw [positions_none _ _ h]
  rfl

theorem SInv.init : SInv [] {} := by
  refine ⟨rfl, rfl, rfl, Or.inl ⟨?_, rfl⟩, ?_⟩
  · intro it h; cases h
  · intro d h; cases h

theorem headIs_append (id : Nat) (B : List Item) (ext : List Item) (h : B ≠ []) : headIs id (B ++ ext) = headIs id B := by
  cases B with
  | nil => exact absurd rfl h
  | cons b B => rfl

theorem pend_wf {pre : List Item} {st : FS} (h : SInv pre st) : ∀ d ∈ pend st, d.op < d.eff ∧ d.eff = pre.length := by
  intro d hd
  unfold pend at hd
  split at hd
  · next p r bits hph =>
    simp only [List.mem_singleton] at hd
    subst hd
    refine ⟨?_, h.pos⟩
    simp only
    rcases h.seg with ⟨_, h2⟩ | ⟨A, op, B, e, _, _, hB, _⟩
    · rw [hph] at h2; cases h2
    · rw [hph] at hB
      obtain ⟨rfl, _⟩ := hB
      rw [h.pos, e]
      simp only [List.length_append, List.length_cons]
      omega
  · cases hd

end Bufr.Spec

namespace Bufr.Spec

theorem fin1_defs (st : FS) (x : Item) : (fin1 st x).defs = st.defs ++ (if isBit x then [] else pend st) := by
  unfold fin1; split <;> simp [finalize_defs]

theorem fin1_ph (st : FS) (x : Item) :
    (fin1 st x).ph = if isBit x then st.ph else (match st.ph with | .run _ _ _ => .idle | ph => ph) := by
  unfold fin1; split <;> simp [finalize_ph]

theorem pend_of_ph (st : FS) : pend st =
    match st.ph with
    | .run p r bits => [{ op := p, eff := st.pos, bits := bits, reusable := r }]
    | _ => [] := rfl

theorem SInv.step_pos {pre : List Item} {st : FS} (cs : List Nat) (x : Item) (h : SInv pre st) :
    (step cs st x).pos = (pre ++ [x]).length := by
  rw [Spec.step_pos, h.pos]; simp

theorem SInv.step_plains {pre : List Item} {st : FS} (cs : List Nat) (x : Item) (h : SInv pre st) :
    (step cs st x).plains = plainBelow (pre ++ [x]) (pre ++ [x]).length := by
  rw [Spec.step_plains, h.plains, h.pos, List.length_append, List.length_singleton, plainBelow_snoc]

theorem SInv.step_wf {pre : List Item} {st : FS} (cs : List Nat) (x : Item) (h : SInv pre st) :
    ∀ d ∈ (step cs st x).defs, d.op < d.eff ∧ d.eff ≤ (pre ++ [x]).length := by
  intro d hd
  rw [step_defs, fin1_defs] at hd
  simp only [List.length_append, List.length_singleton]
  rcases List.mem_append.mp hd with hd | hd
  · have := h.wf d hd; omega
  · split at hd
    · cases hd
    · have := pend_wf h d hd; omega

theorem SInv.step_op {pre : List Item} {st : FS} (cs : List Nat) (x : Item) (h : SInv pre st)
    (hx : isBitmapOp x = true) : SInv (pre ++ [x]) (step cs st x) := by
  have hb := op_not_bit x hx
  have hph : (step cs st x).ph = .afterOp st.pos := by rw [step_ph]; simp only [phStep, hx, if_true]
  refine ⟨h.step_pos cs x, h.step_plains cs x, ?_, ?_, h.step_wf cs x⟩
  · rw [defs_snoc_op _ _ hx, step_defs, fin1_defs, hb, h.defsEq, pend_of_ph (step cs st x), hph]
    simp
  · right
    refine ⟨pre, x, [], by simp, hx, by simp, ?_, ?_⟩
    · rw [hph]; exact ⟨h.pos, rfl⟩
    · rw [step_below, if_pos hx, h.plains, plainBelow_snoc_lt _ _ _ (Nat.le_refl _)]

end Bufr.Spec

namespace Bufr.Spec

theorem phStep_idle (pos : Nat) (x : Item) (hx : isBitmapOp x = false) : phStep .idle pos x = .idle := by
  simp [phStep, hx]
theorem phStep_afterOp (p pos : Nat) (x : Item) (hx : isBitmapOp x = false) :
    phStep (.afterOp p) pos x = if isOper 237000 x then .idle else if isBit x then .run p false [x.2]
      else .pre p (isOper 236000 x) := by
  simp [phStep, hx]
theorem phStep_pre (p : Nat) (r : Bool) (pos : Nat) (x : Item) (hx : isBitmapOp x = false) :
    phStep (.pre p r) pos x = if isBit x then .run p r [x.2] else .pre p r := by
  simp [phStep, hx]
theorem phStep_run (p : Nat) (r : Bool) (bits : List Val) (pos : Nat) (x : Item) (hx : isBitmapOp x = false) :
    phStep (.run p r bits) pos x = if isBit x then .run p r (bits ++ [x.2]) else .idle := by
  simp [phStep, hx]

theorem fin1_ph_idle (st : FS) (x : Item) (h : st.ph = .idle) : (fin1 st x).ph = .idle := by
  rw [fin1_ph, h]; split <;> rfl
theorem fin1_ph_afterOp (st : FS) (x : Item) (p : Nat) (h : st.ph = .afterOp p) : (fin1 st x).ph = .afterOp p := by
  rw [fin1_ph, h]; split <;> rfl
theorem fin1_ph_pre (st : FS) (x : Item) (p : Nat) (r : Bool) (h : st.ph = .pre p r) : (fin1 st x).ph = .pre p r := by
  rw [fin1_ph, h]; split <;> rfl
theorem fin1_ph_run (st : FS) (x : Item) (p : Nat) (r : Bool) (bits : List Val) (h : st.ph = .run p r bits) :
    (fin1 st x).ph = if isBit x then .run p r bits else .idle := by
  rw [fin1_ph, h]

theorem pend_idle (st : FS) (h : st.ph = .idle) : pend st = [] := by rw [pend_of_ph, h]
theorem pend_afterOp (st : FS) (p : Nat) (h : st.ph = .afterOp p) : pend st = [] := by rw [pend_of_ph, h]
theorem pend_pre (st : FS) (p : Nat) (r : Bool) (h : st.ph = .pre p r) : pend st = [] := by rw [pend_of_ph, h]
theorem pend_run (st : FS) (p : Nat) (r : Bool) (bits : List Val) (h : st.ph = .run p r bits) :
    pend st = [{ op := p, eff := st.pos, bits := bits, reusable := r }] := by rw [pend_of_ph, h]

theorem fin1_defs_nopend (st : FS) (x : Item) (h : pend st = []) : (fin1 st x).defs = st.defs := by
  rw [fin1_defs, h]; split <;> simp

/-- the non-operator step when no operator has been read yet -/
theorem SInv.step_noop {pre : List Item} {st : FS} (cs : List Nat) (x : Item) (h : SInv pre st)
    (hx : isBitmapOp x = false) (hno : ∀ it ∈ pre, isBitmapOp it = false) (hidle : st.ph = .idle) :
    SInv (pre ++ [x]) (step cs st x) := by
  have hno' : ∀ it ∈ pre ++ [x], isBitmapOp it = false := by
    intro it hit
    rcases List.mem_append.mp hit with hit | hit
    · exact hno it hit
    · simp only [List.mem_singleton] at hit; subst hit; exact hx
  have hph : (step cs st x).ph = .idle := by
    rw [step_ph, fin1_ph_idle _ _ hidle, phStep_idle _ _ hx]
  have hd0 := h.defsEq
  rw [defs_noop _ hno] at hd0
  have hd1 := List.append_eq_nil_iff.mp hd0.symm
  refine ⟨h.step_pos cs x, h.step_plains cs x, ?_, Or.inl ⟨hno', hph⟩, h.step_wf cs x⟩
  rw [defs_noop _ hno', step_defs, fin1_defs_nopend _ _ hd1.2, hd1.1, pend_idle _ hph]
  rfl

/-- the non-operator step behind an operator -/
theorem SInv.step_seg {pre : List Item} {st : FS} (cs : List Nat) (x : Item) (h : SInv pre st)
    (hx : isBitmapOp x = false) (A : List Item) (op : Item) (B : List Item) (e : pre = A ++ op :: B)
    (hop : isBitmapOp op = true) (hB : ∀ b ∈ B, isBitmapOp b = false) (hph : PhB st.ph A.length B)
    (hbelow : st.below = plainBelow pre A.length) :
    SInv (pre ++ [x]) (step cs st x) := by
  have e' : pre ++ [x] = A ++ op :: (B ++ [x]) := by rw [e]; simp
  have hB' : ∀ b ∈ B ++ [x], isBitmapOp b = false := by
    intro b hb
    rcases List.mem_append.mp hb with hb | hb
    · exact hB b hb
    · simp only [List.mem_singleton] at hb; subst hb; exact hx
  have hn : pre.length = A.length + 1 + B.length := by rw [e]; simp; omega
  have hbel : (step cs st x).below = plainBelow (pre ++ [x]) A.length := by
    rw [step_below, hx]; simp only [Bool.false_eq_true, if_false]
    rw [hbelow, plainBelow_snoc_lt _ _ _ (by omega)]
  have hd0 : defs A ++ (segDef A.length B).toList = st.defs ++ pend st := by
    rw [← h.defsEq, e, defs_split A op B hop hB]
  -- reduce to: the phase of the new state, and the two definition lists
  suffices hs : PhB (step cs st x).ph A.length (B ++ [x]) ∧
      defs A ++ (segDef A.length (B ++ [x])).toList = (step cs st x).defs ++ pend (step cs st x) by
    refine ⟨h.step_pos cs x, h.step_plains cs x, ?_, Or.inr ⟨A, op, B ++ [x], e', hop, hB', hs.1, hbel⟩, h.step_wf cs x⟩
    rw [e', defs_split A op (B ++ [x]) hop hB']
    exact hs.2
  have hpos' : (step cs st x).pos = pre.length + 1 := by rw [Spec.step_pos, h.pos]
  cases hst : st.ph with
  | idle =>
    rw [hst] at hph
    have hp0 := pend_idle _ hst
    rw [hp0] at hd0
    have hphase : (step cs st x).ph = .idle := by rw [step_ph, fin1_ph_idle _ _ hst, phStep_idle _ _ hx]
    rw [hphase, step_defs, fin1_defs_nopend _ _ hp0, pend_idle _ hphase]
    refine ⟨?_, ?_⟩
    · intro ext
      show segDef A.length (B ++ [x] ++ ext) = segDef A.length (B ++ [x])
      rw [List.append_assoc, hph, hph]
    · rw [hph [x], hd0]
  | afterOp q =>
    rw [hst] at hph
    obtain ⟨rfl, rfl⟩ := hph
    have hp0 := pend_afterOp _ _ hst
    rw [hp0, segDef_nil] at hd0
    simp only [Option.toList_none, List.append_nil] at hd0
    have hphase := step_ph cs st x
    rw [fin1_ph_afterOp _ _ _ hst, phStep_afterOp _ _ _ hx] at hphase
    rw [step_defs, fin1_defs_nopend _ _ hp0]
    simp only [List.nil_append]
    by_cases h7 : isOper 237000 x = true
    · rw [if_pos h7] at hphase
      rw [hphase, pend_idle _ hphase]
      refine ⟨?_, ?_⟩
      · intro ext
        show segDef A.length (x :: ext) = segDef A.length [x]
        rw [segDef_recall _ _ _ h7, segDef_recall _ _ _ h7]
      · rw [segDef_recall _ _ _ h7, hd0]; rfl
    · rw [if_neg h7] at hphase
      have h7' : headIs 237000 [x] = false := by simp [headIs, h7]
      by_cases hb : isBit x = true
      · rw [if_pos hb] at hphase
        rw [hphase, pend_run _ _ _ _ hphase, hpos']
        have h6 : headIs 236000 [x] = false := by simp [headIs, bit_not_oper 236000 x hb]
        refine ⟨⟨rfl, [], [x], rfl, by simp, by simp [hb], by simp, rfl, h7', h6.symm⟩, ?_⟩
        have := segDef_run A.length [] [x] [] (by simp) (by simp [hb]) (by simp) (by simp) h7'
        simp only [List.nil_append, List.append_nil] at this
        rw [this, hd0]
        have h6' : ((([x] : List Item).head?.map (isOper 236000)).getD false) = false := h6
        rw [h6']
        simp only [List.length_nil] at hn
        simp only [List.length_nil, List.length_singleton, List.map_cons, List.map_nil, Option.toList_some]
        congr 3
        omega
      · rw [if_neg hb] at hphase
        rw [hphase, pend_pre _ _ _ hphase]
        have hb' : isBit x = false := by simpa using hb
        refine ⟨⟨rfl, by simp, by simp [hb'], h7', by simp [headIs]⟩, ?_⟩
        rw [segDef_nobits _ [x] (by simp [hb']), hd0]
        rfl
  | pre q r =>
    rw [hst] at hph
    obtain ⟨rfl, hne, hnb, h7, hr⟩ := hph
    have hp0 := pend_pre _ _ _ hst
    rw [hp0, segDef_nobits _ B hnb] at hd0
    simp only [Option.toList_none, List.append_nil] at hd0
    have hphase := step_ph cs st x
    rw [fin1_ph_pre _ _ _ _ hst, phStep_pre _ _ _ _ hx] at hphase
    rw [step_defs, fin1_defs_nopend _ _ hp0]
    have h7' : headIs 237000 (B ++ [x]) = false := by rw [headIs_append _ _ _ hne]; exact h7
    have h6' : headIs 236000 (B ++ [x]) = r := by rw [headIs_append _ _ _ hne]; exact hr.symm
    by_cases hb : isBit x = true
    · rw [if_pos hb] at hphase
      rw [hphase, pend_run _ _ _ _ hphase, hpos']
      refine ⟨⟨rfl, B, [x], rfl, hnb, by simp [hb], by simp, rfl, h7', h6'.symm⟩, ?_⟩
      have := segDef_run A.length B [x] [] hnb (by simp [hb]) (by simp) (by simp)
        (by rw [List.append_nil]; exact h7')
      simp only [List.append_nil] at this
      rw [this, hd0]
      have h6'' : (((B ++ [x]).head?.map (isOper 236000)).getD false) = r := h6'
      rw [h6'']
      simp only [List.length_singleton, List.map_cons, List.map_nil, Option.toList_some]
      congr 3
      omega
    · rw [if_neg hb] at hphase
      rw [hphase, pend_pre _ _ _ hphase]
      have hb' : isBit x = false := by simpa using hb
      have hnb' : ∀ b ∈ B ++ [x], isBit b = false := by
        intro b hbm
        rcases List.mem_append.mp hbm with hbm | hbm
        · exact hnb b hbm
        · simp only [List.mem_singleton] at hbm; subst hbm; exact hb'
      refine ⟨⟨rfl, by simp, hnb', h7', h6'.symm⟩, ?_⟩
      rw [segDef_nobits _ _ hnb', hd0]
      rfl
  | run q r bits =>
    rw [hst] at hph
    obtain ⟨rfl, pr, run, rfl, hpr, hrun, hne, hbits, h7, hr⟩ := hph
    have hne' : pr ++ run ≠ [] := by simp [hne]
    have hp0 := pend_run _ _ _ _ hst
    have hsd := segDef_run A.length pr run [] hpr hrun hne (by simp) (by rw [List.append_nil]; exact h7)
    simp only [List.append_nil] at hsd
    have h6a : (((pr ++ run).head?.map (isOper 236000)).getD false) = r := hr.symm
    rw [hsd, hp0, h6a] at hd0
    simp only [Option.toList_some] at hd0
    have hdA : defs A = st.defs := (List.append_inj' hd0 rfl).1
    simp only [List.length_append] at hn
    have hphase := step_ph cs st x
    rw [fin1_ph_run _ _ _ _ _ hst] at hphase
    rw [step_defs, fin1_defs, hp0]
    by_cases hb : isBit x = true
    · simp only [hb, if_true] at hphase ⊢
      rw [phStep_run _ _ _ _ _ hx, if_pos hb] at hphase
      rw [hphase, pend_run _ _ _ _ hphase, hpos']
      have h7' : headIs 237000 (pr ++ run ++ [x]) = false := by rw [headIs_append _ _ _ hne']; exact h7
      have h6' : headIs 236000 (pr ++ run ++ [x]) = r := by rw [headIs_append _ _ _ hne']; exact hr.symm
      have hrun' : ∀ b ∈ run ++ [x], isBit b = true := by
        intro b hbm
        rcases List.mem_append.mp hbm with hbm | hbm
        · exact hrun b hbm
        · simp only [List.mem_singleton] at hbm; subst hbm; exact hb
      refine ⟨⟨rfl, pr, run ++ [x], by simp, hpr, hrun', by simp, by simp [hbits], h7', h6'.symm⟩, ?_⟩
      have := segDef_run A.length pr (run ++ [x]) [] hpr hrun' (by simp) (by simp)
        (by rw [List.append_nil, ← List.append_assoc]; exact h7')
      simp only [List.append_nil, ← List.append_assoc] at this
      rw [this, hdA]
      have h6'' : (((pr ++ run ++ [x]).head?.map (isOper 236000)).getD false) = r := h6'
      rw [h6'']
      simp only [List.length_append, List.length_singleton, List.map_append, List.map_cons, List.map_nil,
        Option.toList_some, hbits, List.append_nil]
      congr 3
      omega
    · simp only [hb, Bool.false_eq_true, if_false] at hphase ⊢
      rw [phStep_idle _ _ hx] at hphase
      rw [hphase, pend_idle _ hphase]
      have hb' : isBit x = false := by simpa using hb
      have hcl : ∀ ext, segDef A.length (pr ++ run ++ (x :: ext)) =
          some { op := A.length, eff := A.length + 1 + pr.length + run.length, bits := run.map (·.2), reusable := r } := by
        intro ext
        have := segDef_run A.length pr run (x :: ext) hpr hrun hne (by simp [hb'])
          (by
            have : headIs 237000 (pr ++ run ++ x :: ext) = false := by rw [headIs_append _ _ _ hne']; exact h7
            exact this)
        rw [this]
        have h6' : headIs 236000 (pr ++ run ++ x :: ext) = r := by rw [headIs_append _ _ _ hne']; exact hr.symm
        have h6'' : (((pr ++ run ++ x :: ext).head?.map (isOper 236000)).getD false) = r := h6'
        rw [h6'']
      refine ⟨?_, ?_⟩
      · intro ext
        show segDef A.length (pr ++ run ++ [x] ++ ext) = segDef A.length (pr ++ run ++ [x])
        rw [List.append_assoc (pr ++ run), List.singleton_append, hcl ext, hcl []]
      · have := hcl []
        rw [this, hdA]
        simp only [Option.toList_some, List.append_nil, hbits, h.pos]
        congr 3
        omega

/-- one step keeps the structural invariant -/
theorem SInv.step {pre : List Item} {st : FS} (cs : List Nat) (x : Item) (h : SInv pre st) :
    SInv (pre ++ [x]) (step cs st x) := by
  by_cases hx : isBitmapOp x = true
  · exact h.step_op cs x hx
  · have hx' : isBitmapOp x = false := by simpa using hx
    rcases h.seg with ⟨hno, hidle⟩ | ⟨A, op, B, e, hop, hB, hph, hbelow⟩
    · exact h.step_noop cs x hx' hno hidle
    · exact h.step_seg cs x hx' A op B e hop hB hph hbelow

end Bufr.Spec
