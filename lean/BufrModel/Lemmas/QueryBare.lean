/-
  Lemmas for C16, the bare id (`>` search with the slice `[:]`): the descent through composite nodes returns,
  flattened, the nodes carrying the id in tree order; for an ordinary element these are the values carrying
  the id in the flat data.
-/
import BufrModel.Lemmas.QueryEval
namespace Bufr.C16
open Bufr.Query Bufr.PathLang Bufr.Spec

variable {α : Type}

/-! ### `filter_for_entities` with the slice `[:]`: every match and every kept node, in document order -/

theorem range_filterMap_getElem (l : List α) : (List.range l.length).filterMap (fun i => l[i]?) = l := by
  induction l with
  | nil => rfl
  | cons x xs ih =>
    rw [List.length_cons, List.range_succ_eq_map, List.filterMap_cons]
    simp only [List.getElem?_cons_zero, List.filterMap_map]
    congr 1

theorem applySlice_all (l : List α) : applySlice (.range none none none) l = l := by
  unfold applySlice
  rw [pySlice_all]
  exact range_filterMap_getElem l

/-- sorting by position a permutation of a sub-list of a list with increasing positions gives that sub-list -/
theorem sort_unique (base : List (Nat × α)) (hb : base.Pairwise (fun a b => a.1 < b.1)) (L T : List (Nat × α))
    (hperm : L.Perm T) (hT : T.Sublist base) : sortByPos L = T := by
  have hkeys : ∀ a b, a ∈ base → b ∈ base → a.1 ≤ b.1 → b.1 ≤ a.1 → a = b := by
    intro a b ha hb' h1 h2
    obtain ⟨i, hi, rfl⟩ := List.mem_iff_getElem.mp ha
    obtain ⟨j, hj, rfl⟩ := List.mem_iff_getElem.mp hb'
    rw [List.pairwise_iff_getElem] at hb
    rcases Nat.lt_trichotomy i j with h | h | h
    · have := hb i j hi hj h; omega
    · subst h; rfl
    · have := hb j i hj hi h; omega
  apply List.Perm.eq_of_pairwise (le := fun a b => a.1 ≤ b.1)
  · intro a b ha hb'
    exact hkeys a b (hT.subset (hperm.subset ((sortByPos_perm L).subset ha))) (hT.subset hb')
  · exact sortByPos_sorted _
  · exact (hb.sublist hT).imp (fun h => Nat.le_of_lt h)
  · exact (sortByPos_perm L).trans hperm

theorem filter_append_perm_or (p q : α → Bool) (hpq : ∀ x, p x = true → q x = false) : ∀ (l : List α),
    (l.filter p ++ l.filter q).Perm (l.filter (fun x => p x || q x))
  | [] => List.Perm.refl _
  | x :: xs => by
    have ih := filter_append_perm_or p q hpq xs
    simp only [List.filter_cons]
    cases hp : p x with
    | true =>
      simp only [hpq x hp, Bool.true_or, if_true, Bool.false_eq_true, if_false, List.cons_append]
      exact List.Perm.cons x ih
    | false =>
      cases hq : q x with
      | true =>
        simp only [Bool.false_or, if_true, Bool.false_eq_true, if_false]
        exact List.perm_middle.trans (List.Perm.cons x ih)
      | false =>
        simp only [Bool.false_or, Bool.false_eq_true, if_false]
        exact ih

theorem filterEnt_all (c : Comp) (hsl : c.slice = .range none none none) (cls : α → Match) (xs : List α) :
    filterEnt c cls xs = .ok (xs.filter (fun x => decide (cls x ≠ .no))) := by
  unfold filterEnt
  simp only [hsl, applySlice_all]
  rw [if_neg (by intro h; cases h)]
  congr 1
  rw [sort_unique (enumFrom 0 xs) (enumFrom_pairwise 0 xs) _
    ((enumFrom 0 xs).filter (fun p => decide (cls p.2 = .hit) || decide (cls p.2 = .keep)))
    (filter_append_perm_or _ _ (by
      intro x hx
      simp only [decide_eq_true_eq] at hx
      simp [hx]) _) List.filter_sublist]
  have : (fun (p : Nat × α) => decide (cls p.2 = .hit) || decide (cls p.2 = .keep)) =
      (fun (p : Nat × α) => (fun x => decide (cls x ≠ .no)) p.2) := by
    funext p
    simp only
    cases h : cls p.2 <;> simp
  rw [this]
  exact enumFrom_filter_snd (fun x => decide (cls x ≠ .no)) 0 xs

/-! ### flattening of the nested list of matching nodes -/

mutual
def hitNodes : List Hit → List Node
  | [] => []
  | h :: hs => hitNodes1 h ++ hitNodes hs
def hitNodes1 : Hit → List Node
  | .node n => [n]
  | .list l => hitNodes l
end

theorem hitNodes_append : ∀ (a b : List Hit), hitNodes (a ++ b) = hitNodes a ++ hitNodes b
  | [], b => by rw [List.nil_append, hitNodes, List.nil_append]
  | x :: xs, b => by rw [List.cons_append, hitNodes, hitNodes, hitNodes_append xs b, List.append_assoc]

/-- the value a node designates -/
def nodeVal (vals : List Val) : Node → Option Val
  | .value _ i _ => vals[i]?
  | _ => none

mutual
theorem valuesOf_flatten (vals : List Val) : ∀ (hits : List Hit) (vs : List QV), valuesOf vals hits = .ok vs →
    (flattenQV vs).map some = (hitNodes hits).map (nodeVal vals)
  | [], vs, h => by
    rw [valuesOf_nil] at h; cases h
    rw [flattenQV, hitNodes]; rfl
  | x :: xs, vs, h => by
    rw [valuesOf_cons] at h
    split at h
    · cases h
    · next v hv =>
      split at h
      · cases h
      · next vs' hvs' =>
        cases h
        rw [flattenQV, hitNodes, List.map_append, List.map_append, valueOf1_flatten vals x v hv,
          valuesOf_flatten vals xs vs' hvs']

theorem valueOf1_flatten (vals : List Val) : ∀ (h : Hit) (q : QV), valueOf1 vals h = .ok q →
    (flatten1 q).map some = (hitNodes1 h).map (nodeVal vals)
  | .list l, q, h => by
    rw [valueOf1_list] at h
    split at h
    · cases h
    · next vs hvs =>
      cases h
      rw [flatten1, hitNodes1]
      exact valuesOf_flatten vals l vs hvs
  | .node (.value k i attrs), q, h => by
    rw [valueOf1] at h
    split at h
    · next v hv =>
      cases h
      rw [flatten1, hitNodes1]
      simp only [List.map_cons, List.map_nil, nodeVal, hv]
    · cases h
  | .node (.noval _), q, h => by simp [valueOf1] at h
  | .node (.seq _ _), q, h => by simp [valueOf1] at h
  | .node (.fixedRep _ _ _), q, h => by simp [valueOf1] at h
  | .node (.delayedRep _ _ _ _), q, h => by simp [valueOf1] at h
end

/-! ### the nodes carrying an id, in tree order (a matching node is not searched) -/

mutual
def matchList (ds : List DDesc) (id : List Char) : List Node → List Node
  | [] => []
  | n :: ns => match1 ds id n ++ matchList ds id ns
def match1 (ds : List DDesc) (id : List Char) : Node → List Node
  | .value k i attrs =>
    if nodeLabel ds (.value k i attrs) = some id then [.value k i attrs] else matchList ds id attrs
  | .noval i => if nodeLabel ds (.noval i) = some id then [.noval i] else []
  | .seq i ms => if nodeLabel ds (.seq i ms) = some id then [.seq i ms] else matchList ds id ms
  | .fixedRep i n ms => if nodeLabel ds (.fixedRep i n ms) = some id then [.fixedRep i n ms] else matchList ds id ms
  | .delayedRep i n f ms =>
    if nodeLabel ds (.delayedRep i n f ms) = some id then [.delayedRep i n f ms]
    else match1 ds id f ++ matchList ds id ms
end

theorem matchList_append (ds : List DDesc) (id : List Char) : ∀ (a b : List Node),
    matchList ds id (a ++ b) = matchList ds id a ++ matchList ds id b
  | [], b => by rw [List.nil_append, matchList, List.nil_append]
  | x :: xs, b => by rw [List.cons_append, matchList, matchList, matchList_append ds id xs b, List.append_assoc]

theorem match1_hit (ds : List DDesc) (id : List Char) (n : Node) (h : nodeLabel ds n = some id) :
    match1 ds id n = [n] := by
  cases n <;> rw [match1, if_pos h]

/-! ### the descent -/

/-- the component of a bare id -/
def bare (id : List Char) : Comp := { sep := '>', id := id, slice := .range none none none }

/-- `filter_for_entities` + continuations, for the bare id: every continuation is run (the ones of the nodes that
    neither match nor are kept are empty) -/
theorem concatConts_filter (ds : List DDesc) (c : Comp) : ∀ (l : List (Node × Cont)),
    (∀ p ∈ l, nodeMatch ds c p.1 = .no → p.2 = .ok []) →
    concatConts ((l.filter (fun p => decide (nodeMatch ds c p.1 ≠ .no))).map (·.2)) = concatConts (l.map (·.2))
  | [], _ => rfl
  | p :: ps, h => by
    have ih := concatConts_filter ds c ps (fun q hq => h q (List.mem_cons_of_mem _ hq))
    simp only [List.filter_cons]
    by_cases hm : nodeMatch ds c p.1 = .no
    · simp only [hm, ne_eq, not_true_eq_false, decide_false, Bool.false_eq_true, if_false, List.map_cons]
      rw [h p List.mem_cons_self hm, ih]
      simp only [concatConts]
      cases concatConts (ps.map (·.2)) <;> rfl
    · simp only [hm, ne_eq, not_false_eq_true, decide_true, if_true, List.map_cons, concatConts, ih]

theorem contFor_no (ds : List DDesc) (c : Comp) (rest : List Comp) (n : Node) (h : nodeMatch ds c n = .no) :
    contFor ds c rest n = .ok [] := by
  unfold contFor
  rw [h]
  rfl

/-- the search below a list of nodes for the bare id = the continuations of all of them, one after the other -/
theorem selectRun_bare (ds : List DDesc) (id : List Char) (ns : List Node) :
    selectRun ds (bare id) (ns.zip (contList ds ns (bare id) [])) =
      concatConts (ns.map (contFor ds (bare id) [])) := by
  unfold selectRun
  rw [filterEnt_all (bare id) rfl]
  simp only
  rw [contList_eq_map, zip_map_self, concatConts_filter ds (bare id) _ (by
    intro p hp hno
    obtain ⟨n, _, rfl⟩ := List.mem_map.mp hp
    exact contFor_no ds (bare id) [] n hno), List.map_map]
  rfl

theorem concatConts_ok : ∀ (ks : List Cont) (hits : List Hit), concatConts ks = .ok hits →
    ∃ (hs : List (List Hit)), ks = hs.map .ok ∧ hits = hs.flatten
  | [], hits, h => by
    rw [concatConts] at h; cases h
    exact ⟨[], rfl, rfl⟩
  | k :: ks, hits, h => by
    cases k with
    | error e => rw [concatConts] at h; cases h
    | ok h1 =>
      rw [concatConts] at h
      cases hc : concatConts ks with
      | error e => rw [hc] at h; cases h
      | ok h2 =>
        rw [hc] at h
        cases h
        obtain ⟨hs, rfl, rfl⟩ := concatConts_ok ks h2 hc
        exact ⟨h1 :: hs, rfl, rfl⟩

/-- what is proved by induction: the continuation of a node for the bare id, flattened = the nodes carrying
    the id at or below it -/
def DescOK (ds : List DDesc) (id : List Char) (n : Node) : Prop :=
  ∀ hits, contFor ds (bare id) [] n = .ok hits → hitNodes hits = match1 ds id n

theorem descList (ds : List DDesc) (id : List Char) : ∀ (ns : List Node) (hits : List Hit),
    (∀ m ∈ ns, DescOK ds id m) → concatConts (ns.map (contFor ds (bare id) [])) = .ok hits →
    hitNodes hits = matchList ds id ns
  | [], hits, _, h => by
    rw [List.map_nil, concatConts] at h; cases h
    rw [hitNodes, matchList]
  | n :: ns, hits, hP, h => by
    rw [List.map_cons] at h
    cases hk : contFor ds (bare id) [] n with
    | error e => rw [hk, concatConts] at h; cases h
    | ok h1 =>
      rw [hk, concatConts] at h
      cases hc : concatConts (ns.map (contFor ds (bare id) [])) with
      | error e => rw [hc] at h; cases h
      | ok h2 =>
        rw [hc] at h
        cases h
        rw [hitNodes_append, matchList, hP n List.mem_cons_self h1 hk,
          descList ds id ns h2 (fun m hm => hP m (List.mem_cons_of_mem _ hm)) hc]

/-- the search below a node list -/
theorem selectRun_desc (ds : List DDesc) (id : List Char) (ns : List Node) (hits : List Hit)
    (hP : ∀ m ∈ ns, DescOK ds id m)
    (h : selectRun ds (bare id) (ns.zip (contList ds ns (bare id) [])) = .ok hits) :
    hitNodes hits = matchList ds id ns := by
  rw [selectRun_bare] at h
  exact descList ds id ns hits hP h

/-! ### replication envelopes, flattened -/

theorem blocks_map {β : Type} (g : α → β) (n : Nat) : ∀ (f : Nat) (l : List α),
    blocks n f (l.map g) = (blocks n f l).map (List.map g)
  | 0, _ => rfl
  | f + 1, l => by
    simp only [blocks, List.isEmpty_map]
    split
    · rfl
    · rw [List.map_cons, List.map_take, ← List.map_drop, blocks_map g n f]

theorem blocks_flatten (n : Nat) (hn : 0 < n) : ∀ (f : Nat) (l : List α), l.length ≤ f → (blocks n f l).flatten = l
  | 0, l, h => by
    have : l = [] := List.eq_nil_of_length_eq_zero (by omega)
    subst this; rfl
  | f + 1, l, h => by
    simp only [blocks]
    split
    · next he =>
      have : l = [] := by cases l <;> simp_all
      subst this; rfl
    · next he =>
      have hpos : 0 < l.length := by
        cases l with
        | nil => simp at he
        | cons _ _ => simp
      rw [List.flatten_cons, blocks_flatten n hn f (l.drop n) (by rw [List.length_drop]; omega),
        List.take_append_drop]

theorem envC_desc (ds : List DDesc) (id : List Char) : ∀ (Bs : List (List Node)) (env : List Hit),
    (∀ B ∈ Bs, ∀ m ∈ B, DescOK ds id m) →
    envC (Bs.map (fun B => selectRun ds (bare id) (B.map (fun m => (m, contFor ds (bare id) [] m))))) = .ok env →
    hitNodes env = matchList ds id Bs.flatten
  | [], env, _, h => by
    rw [List.map_nil, envC] at h; cases h
    rw [hitNodes, List.flatten_nil, matchList]
  | B :: Bs, env, hP, h => by
    rw [List.map_cons] at h
    cases hk : selectRun ds (bare id) (B.map (fun m => (m, contFor ds (bare id) [] m))) with
    | error e => rw [hk, envC] at h; cases h
    | ok hs =>
      rw [hk, envC] at h
      cases hc : envC (Bs.map (fun B => selectRun ds (bare id) (B.map (fun m => (m, contFor ds (bare id) [] m))))) with
      | error e => rw [hc] at h; cases h
      | ok env' =>
        rw [hc] at h
        simp only [Except.ok.injEq] at h
        have h1 : hitNodes hs = matchList ds id B := by
          apply selectRun_desc ds id B hs (hP B List.mem_cons_self)
          rw [contList_eq_map, zip_map_self]; exact hk
        have h2 := envC_desc ds id Bs env' (fun B' hB' => hP B' (List.mem_cons_of_mem _ hB')) hc
        rw [List.flatten_cons, matchList_append, ← h1, ← h2, ← h]
        cases hs with
        | nil => simp only [List.isEmpty_nil, if_true, hitNodes, List.nil_append]
        | cons x xs =>
          simp only [List.isEmpty_cons, Bool.false_eq_true, if_false]
          rw [hitNodes, hitNodes1]

theorem wrapC_desc (k : Cont) (hits : List Hit) (h : wrapC k = .ok hits) :
    ∃ env, k = .ok env ∧ hitNodes hits = hitNodes env := by
  cases k with
  | error e => cases h
  | ok env =>
    refine ⟨env, rfl, ?_⟩
    simp only [wrapC, Except.ok.injEq] at h
    rw [← h]
    cases env with
    | nil => rfl
    | cons x xs =>
      simp only [List.isEmpty_cons, Bool.false_eq_true, if_false]
      rw [hitNodes, hitNodes1, hitNodes, List.append_nil]

/-- the members of a replication node, searched repetition by repetition -/
theorem rep_desc (ds : List DDesc) (id : List Char) (n : Nat) (ms : List Node) (hits : List Hit)
    (hP : ∀ m ∈ ms, DescOK ds id m)
    (h : (if ms.isEmpty then .ok [] else if n = 0 then .error .other
      else wrapC (envelope ds (bare id) (blocks n ms.length (ms.zip (contList ds ms (bare id) []))))) = .ok hits) :
    hitNodes hits = matchList ds id ms := by
  cases hms : ms with
  | nil =>
    rw [hms] at h
    simp only [List.isEmpty_nil, if_true, Except.ok.injEq] at h
    rw [← h, hitNodes, matchList]
  | cons m0 ms' =>
    rw [← hms]
    have hne : ms.isEmpty = false := by rw [hms]; rfl
    rw [hne] at h
    simp only [Bool.false_eq_true, if_false] at h
    by_cases hn : n = 0
    · rw [if_pos hn] at h; cases h
    · rw [if_neg hn] at h
      obtain ⟨env, henv, hh⟩ := wrapC_desc _ hits h
      rw [hh]
      rw [contList_eq_map, zip_map_self, blocks_map, envelope_eq, List.map_map] at henv
      have := envC_desc ds id (blocks n ms.length ms) env (by
        intro B hB m hm
        apply hP
        have hfl := blocks_flatten n (Nat.pos_of_ne_zero hn) ms.length ms (Nat.le_refl _)
        rw [← hfl]
        exact List.mem_flatten.mpr ⟨B, hB, hm⟩) henv
      rw [this, blocks_flatten n (Nat.pos_of_ne_zero hn) ms.length ms (Nat.le_refl _)]

/-! ### the induction over the tree -/

theorem nodeMatch_bare_hit (ds : List DDesc) (id : List Char) (n : Node) (h : nodeLabel ds n = some id) :
    nodeMatch ds (bare id) n = .hit := by
  simp [nodeMatch, bare, h]

theorem nodeMatch_bare_miss (ds : List DDesc) (id : List Char) (n : Node) (h : ¬ nodeLabel ds n = some id) :
    nodeMatch ds (bare id) n = if composite n then .keep else .no := by
  simp [nodeMatch, bare, h]

theorem contFor_bare_hit (ds : List DDesc) (id : List Char) (n : Node) (h : nodeLabel ds n = some id) :
    contFor ds (bare id) [] n = .ok [.node n] := by
  unfold contFor
  rw [nodeMatch_bare_hit ds id n h]
  rfl

theorem contFor_bare_keep (ds : List DDesc) (id : List Char) (n : Node) (h : ¬ nodeLabel ds n = some id)
    (hc : composite n = true) : contFor ds (bare id) [] n = subNodes ds n (bare id) [] := by
  unfold contFor
  rw [nodeMatch_bare_miss ds id n h, hc]
  rfl

theorem contFor_bare_no (ds : List DDesc) (id : List Char) (n : Node) (h : ¬ nodeLabel ds n = some id)
    (hc : composite n = false) : contFor ds (bare id) [] n = .ok [] := by
  unfold contFor
  rw [nodeMatch_bare_miss ds id n h, hc]
  rfl

theorem stepNode_bare (ds : List DDesc) (id : List Char) (n : Node) (a : List Cont) (b : Cont) (c' : List Cont) :
    stepNode ds (bare id) n a b c' = descStep ds (bare id) n a b c' := by
  unfold stepNode
  rw [if_neg (by simp [bare]), if_neg (by simp [bare])]

theorem descOK_all (ds : List DDesc) (id : List Char) : ∀ n, DescOK ds id n := by
  apply Node.induct' (DescOK ds id)
  · intro k i attrs ih hits h
    by_cases hl : nodeLabel ds (.value k i attrs) = some id
    · rw [contFor_bare_hit ds id _ hl] at h; cases h
      rw [match1_hit ds id _ hl]; rfl
    · rw [match1, if_neg hl]
      cases hattrs : attrs with
      | nil =>
        subst hattrs
        rw [contFor_bare_no ds id _ hl rfl] at h; cases h
        rw [hitNodes, matchList]
      | cons a as =>
        rw [← hattrs]
        have hne : attrs.isEmpty = false := by rw [hattrs]; rfl
        rw [contFor_bare_keep ds id _ hl (by simp [composite, hne]), subNodes_value, stepNode_bare] at h
        simp only [descStep, attrStep, hne, Bool.false_eq_true, if_false] at h
        exact selectRun_desc ds id attrs hits ih h
  · intro i hits h
    by_cases hl : nodeLabel ds (.noval i) = some id
    · rw [contFor_bare_hit ds id _ hl] at h; cases h
      rw [match1_hit ds id _ hl]; rfl
    · rw [contFor_bare_no ds id _ hl rfl] at h; cases h
      rw [match1, if_neg hl, hitNodes]
  · intro i ms ih hits h
    by_cases hl : nodeLabel ds (.seq i ms) = some id
    · rw [contFor_bare_hit ds id _ hl] at h; cases h
      rw [match1_hit ds id _ hl]; rfl
    · rw [match1, if_neg hl]
      rw [contFor_bare_keep ds id _ hl rfl, subNodes_seq, stepNode_bare] at h
      simp only [descStep, childStep] at h
      exact selectRun_desc ds id ms hits ih h
  · intro i n ms ih hits h
    by_cases hl : nodeLabel ds (.fixedRep i n ms) = some id
    · rw [contFor_bare_hit ds id _ hl] at h; cases h
      rw [match1_hit ds id _ hl]; rfl
    · rw [match1, if_neg hl]
      rw [contFor_bare_keep ds id _ hl rfl, subNodes_fixed, stepNode_bare] at h
      simp only [descStep] at h
      rw [childStep_fixed] at h
      exact rep_desc ds id n ms hits ih h
  · intro i n f ms ihf ih hits h
    by_cases hl : nodeLabel ds (.delayedRep i n f ms) = some id
    · rw [contFor_bare_hit ds id _ hl] at h; cases h
      rw [match1_hit ds id _ hl]; rfl
    · rw [match1, if_neg hl]
      rw [contFor_bare_keep ds id _ hl rfl, subNodes_delayed, stepNode_bare] at h
      simp only [descStep, attrStep] at h
      rw [childStep_delayed] at h
      split at h
      · cases h
      · next hs hhs =>
        split at h
        · cases h
        · next hs' hhs' =>
          cases h
          have h1 : hitNodes hs = matchList ds id [f] := by
            apply selectRun_desc ds id [f] hs (by intro m hm; rw [List.mem_singleton] at hm; subst hm; exact ihf)
            rw [contList_eq_map]
            exact hhs
          rw [hitNodes_append, h1, rep_desc ds id n ms hs' ih hhs', matchList, matchList, List.append_nil]

/-- the bare id, flattened: the nodes carrying the id, in tree order -/
theorem processOne_bare (ds : List DDesc) (id : List Char) (tree : List Node) (hits : List Hit)
    (h : processOne ds tree [bare id] = .ok hits) : hitNodes hits = matchList ds id tree := by
  simp only [processOne] at h
  rw [if_neg (by simp [bare])] at h
  exact selectRun_desc ds id tree hits (fun m _ => descOK_all ds id m) h

/-! ### an ordinary element: tree order = flat order -/

/-- the flat entry `i` carries the id -/
def labAt (ds : List DDesc) (id : List Char) (i : Nat) : Bool := decide ((ds[i]?).map ddChars = some id)

theorem noLabelList_mem (ds : List DDesc) (id : List Char) : ∀ (l : List Node), noLabelList ds id l = true →
    ∀ m ∈ l, noLabel1 ds id m = true
  | [], _, m, hm => absurd hm List.not_mem_nil
  | x :: xs, h, m, hm => by
    rw [noLabelList, Bool.and_eq_true] at h
    rcases List.mem_cons.mp hm with rfl | hm'
    · exact h.1
    · exact noLabelList_mem ds id xs h.2 m hm'

theorem noLabel1_label (ds : List DDesc) (id : List Char) (n : Node) (h : noLabel1 ds id n = true) :
    ¬ nodeLabel ds n = some id := by
  cases n with
  | value k i attrs => rw [noLabel1, Bool.and_eq_true] at h; simpa using h.1
  | noval i => rw [noLabel1] at h; simpa using h
  | seq i ms => rw [noLabel1, Bool.and_eq_true] at h; simpa using h.1
  | fixedRep i n ms => rw [noLabel1, Bool.and_eq_true] at h; simpa using h.1
  | delayedRep i n f ms => rw [noLabel1, Bool.and_eq_true, Bool.and_eq_true] at h; simpa using h.1.1

theorem matchList_nil_of (ds : List DDesc) (id : List Char) : ∀ (l : List Node),
    (∀ m ∈ l, match1 ds id m = []) → matchList ds id l = []
  | [], _ => by rw [matchList]
  | x :: xs, h => by
    rw [matchList, h x List.mem_cons_self, matchList_nil_of ds id xs (fun m hm => h m (List.mem_cons_of_mem _ hm))]
    rfl

/-- where the id labels nothing there is nothing to find -/
theorem noLabel_match (ds : List DDesc) (id : List Char) : ∀ n, noLabel1 ds id n = true → match1 ds id n = [] := by
  apply Node.induct' (fun n => noLabel1 ds id n = true → match1 ds id n = [])
  · intro k i attrs ih h
    have hl := noLabel1_label ds id _ h
    rw [noLabel1, Bool.and_eq_true] at h
    rw [match1, if_neg hl]
    exact matchList_nil_of ds id attrs (fun m hm => ih m hm (noLabelList_mem ds id attrs h.2 m hm))
  · intro i h
    rw [match1, if_neg (noLabel1_label ds id _ h)]
  · intro i ms ih h
    have hl := noLabel1_label ds id _ h
    rw [noLabel1, Bool.and_eq_true] at h
    rw [match1, if_neg hl]
    exact matchList_nil_of ds id ms (fun m hm => ih m hm (noLabelList_mem ds id ms h.2 m hm))
  · intro i n ms ih h
    have hl := noLabel1_label ds id _ h
    rw [noLabel1, Bool.and_eq_true] at h
    rw [match1, if_neg hl]
    exact matchList_nil_of ds id ms (fun m hm => ih m hm (noLabelList_mem ds id ms h.2 m hm))
  · intro i n f ms ihf ih h
    have hl := noLabel1_label ds id _ h
    rw [noLabel1, Bool.and_eq_true, Bool.and_eq_true] at h
    rw [match1, if_neg hl, ihf h.1.2,
      matchList_nil_of ds id ms (fun m hm => ih m hm (noLabelList_mem ds id ms h.2 m hm))]
    rfl

/-- a value node whose attributes do not carry the id: found exactly when its own flat entry carries the id -/
theorem value_match (ds : List DDesc) (vals : List Val) (id : List Char) (k : VKind) (i : Nat) (attrs : List Node)
    (h : noLabelList ds id attrs = true) :
    (match1 ds id (.value k i attrs)).map (nodeVal vals) =
      ((valueIdx i attrs).filter (labAt ds id)).map (fun j => vals[j]?) := by
  have hnil : matchList ds id attrs = [] :=
    matchList_nil_of ds id attrs (fun m hm => noLabel_match ds id m (noLabelList_mem ds id attrs h m hm))
  have hattr : ((attrs.filter Node.kindIsAssoc).filterMap Node.index?).filter (labAt ds id) = [] := by
    rw [List.filter_eq_nil_iff]
    intro j hj
    obtain ⟨a, ha, haj⟩ := List.mem_filterMap.mp hj
    have ha' := (List.mem_filter.mp ha).1
    have hnl := noLabel1_label ds id a (noLabelList_mem ds id attrs h a ha')
    cases a with
    | value k' j' attrs' =>
      simp only [Node.index?, Option.some.injEq] at haj
      subst haj
      simpa [labAt, nodeLabel] using hnl
    | noval _ => simp [Node.index?] at haj
    | seq _ _ => simp [Node.index?] at haj
    | fixedRep _ _ _ => simp [Node.index?] at haj
    | delayedRep _ _ _ _ => simp [Node.index?] at haj
  unfold valueIdx
  rw [List.filter_append, hattr, List.nil_append, match1, hnil]
  by_cases hl : nodeLabel ds (.value k i attrs) = some id
  · rw [if_pos hl]
    have : labAt ds id i = true := by simpa [labAt, nodeLabel] using hl
    simp only [List.filter_cons, this, if_true, List.filter_nil, List.map_cons, List.map_nil, nodeVal]
  · rw [if_neg hl]
    have : labAt ds id i = false := by simpa [labAt, nodeLabel] using hl
    simp only [List.filter_cons, this, Bool.false_eq_true, if_false, List.filter_nil, List.map_nil]

/-- what is proved by induction -/
def OrdOK (ds : List DDesc) (vals : List Val) (id : List Char) (n : Node) : Prop :=
  ordinary1 ds id n = true →
    (match1 ds id n).map (nodeVal vals) = ((idx1 n).filter (labAt ds id)).map (fun j => vals[j]?)

theorem ordList (ds : List DDesc) (vals : List Val) (id : List Char) : ∀ (ns : List Node),
    (∀ m ∈ ns, OrdOK ds vals id m) → ordinaryList ds id ns = true →
    (matchList ds id ns).map (nodeVal vals) = ((idxList ns).filter (labAt ds id)).map (fun j => vals[j]?)
  | [], _, _ => by rw [matchList, idxList]; rfl
  | n :: ns, hP, h => by
    rw [ordinaryList, Bool.and_eq_true] at h
    rw [matchList, idxList, List.map_append, List.filter_append, List.map_append, hP n List.mem_cons_self h.1,
      ordList ds vals id ns (fun m hm => hP m (List.mem_cons_of_mem _ hm)) h.2]

theorem ordOK_all (ds : List DDesc) (vals : List Val) (id : List Char) : ∀ n, OrdOK ds vals id n := by
  apply Node.induct' (OrdOK ds vals id)
  · intro k i attrs _ h
    rw [ordinary1] at h
    rw [idx1]
    exact value_match ds vals id k i attrs h
  · intro i h
    rw [ordinary1] at h
    rw [match1, if_neg (by simpa using h), idx1]
    rfl
  · intro i ms ih h
    rw [ordinary1, Bool.and_eq_true] at h
    rw [match1, if_neg (by simpa using h.1), idx1]
    exact ordList ds vals id ms ih h.2
  · intro i n ms ih h
    rw [ordinary1, Bool.and_eq_true] at h
    rw [match1, if_neg (by simpa using h.1), idx1]
    exact ordList ds vals id ms ih h.2
  · intro i n f ms _ ih h
    cases f with
    | value kf fi fattrs =>
      rw [ordinary1, Bool.and_eq_true, Bool.and_eq_true] at h
      rw [match1, if_neg (by simpa using h.1.1), idx1, List.map_append, List.filter_append, List.map_append,
        value_match ds vals id kf fi fattrs h.1.2, ordList ds vals id ms ih h.2]
    | noval _ => simp [ordinary1] at h
    | seq _ _ => simp [ordinary1] at h
    | fixedRep _ _ _ => simp [ordinary1] at h
    | delayedRep _ _ _ _ => simp [ordinary1] at h

theorem labAt_nil (id : List Char) (i : Nat) : labAt [] id i = false := by simp [labAt]

theorem labAt_succ (d : DDesc) (ds : List DDesc) (id : List Char) (i : Nat) :
    labAt (d :: ds) id (i + 1) = labAt ds id i := by simp [labAt]

/-- the flat filter, by positions -/
theorem zip_filter_range (id : List Char) : ∀ (vals : List Val) (ds : List DDesc),
    (((ds.zip vals).filter (fun p => decide (ddChars p.1 = id))).map (·.2)).map some =
      ((List.range vals.length).filter (labAt ds id)).map (fun j => vals[j]?)
  | [], ds => by simp
  | v :: vs, [] => by
    rw [List.zip_nil_left]
    have : (List.range (v :: vs).length).filter (labAt [] id) = [] := by
      rw [List.filter_eq_nil_iff]
      intro j _
      rw [labAt_nil]; simp
    rw [this]; rfl
  | v :: vs, d :: ds => by
    have ih := zip_filter_range id vs ds
    rw [List.length_cons, List.range_succ_eq_map, List.zip_cons_cons]
    have hrest : (((List.range vs.length).map Nat.succ).filter (labAt (d :: ds) id)).map (fun j => (v :: vs)[j]?) =
        ((List.range vs.length).filter (labAt ds id)).map (fun j => vs[j]?) := by
      rw [List.filter_map, List.map_map]
      have : (labAt (d :: ds) id ∘ Nat.succ) = labAt ds id := by
        funext j; exact labAt_succ d ds id j
      rw [this]
      apply List.map_congr_left
      intro j _
      simp
    simp only [List.filter_cons]
    have h0 : labAt (d :: ds) id 0 = decide (ddChars d = id) := by simp [labAt]
    rw [h0]
    by_cases hd : ddChars d = id
    · simp only [hd, decide_true, if_true, List.map_cons, List.getElem?_cons_zero]
      rw [hrest, ← ih]
    · simp only [hd, decide_false, Bool.false_eq_true, if_false]
      rw [hrest, ← ih]

theorem map_some_inj {β : Type} : ∀ (a b : List β), a.map some = b.map some → a = b
  | [], [], _ => rfl
  | [], _ :: _, h => by cases h
  | _ :: _, [], h => by cases h
  | x :: xs, y :: ys, h => by
    rw [List.map_cons, List.map_cons] at h
    injection h with h1 h2
    rw [Option.some.inj h1, map_some_inj xs ys h2]

/-- the bare id of an ordinary element on a tree whose indices are the flat positions: the values carrying
    the id in the flat data, in order -/
theorem bare_flat (o : SubsetOut) (tree : List Node) (id : List Char) (hits : List Hit) (vs : List QV)
    (hidx : idxList tree = List.range o.vals.length) (hord : ordinaryList o.descs id tree = true)
    (h : processOne o.descs tree [bare id] = .ok hits) (hv : valuesOf o.vals hits = .ok vs) :
    flattenQV vs = flatFilter o id := by
  apply map_some_inj
  rw [valuesOf_flatten o.vals hits vs hv, processOne_bare o.descs id tree hits h,
    ordList o.descs o.vals id tree (fun m _ => ordOK_all o.descs o.vals id m) hord, hidx]
  unfold flatFilter
  rw [← zip_filter_range id o.vals o.descs]

/-! ### the bare-id search of an ordinary element succeeds -/

theorem concatConts_total : ∀ (ks : List Cont), (∀ k ∈ ks, ∃ h, k = .ok h) → ∃ hits, concatConts ks = .ok hits
  | [], _ => ⟨[], rfl⟩
  | k :: ks, h => by
    obtain ⟨h1, rfl⟩ := h k List.mem_cons_self
    obtain ⟨h2, hh2⟩ := concatConts_total ks (fun k' hk' => h k' (List.mem_cons_of_mem _ hk'))
    exact ⟨h1 ++ h2, by rw [concatConts, hh2]⟩

theorem envC_total : ∀ (ks : List Cont), (∀ k ∈ ks, ∃ h, k = .ok h) → ∃ env, envC ks = .ok env
  | [], _ => ⟨[], rfl⟩
  | k :: ks, h => by
    obtain ⟨h1, rfl⟩ := h k List.mem_cons_self
    obtain ⟨h2, hh2⟩ := envC_total ks (fun k' hk' => h k' (List.mem_cons_of_mem _ hk'))
    exact ⟨_, by rw [envC, hh2]⟩

/-- what is proved by induction: on a well-shaped node the continuation for the bare id does not fail -/
def DescTotal (o : SubsetOut) (id : List Char) (n : Node) : Prop :=
  repsOK1 o n = true → ∃ hits, contFor o.descs (bare id) [] n = .ok hits

theorem selectRun_total (o : SubsetOut) (id : List Char) (ns : List Node)
    (hP : ∀ m ∈ ns, DescTotal o id m) (hS : ∀ m ∈ ns, repsOK1 o m = true) :
    ∃ hits, selectRun o.descs (bare id) (ns.zip (contList o.descs ns (bare id) [])) = .ok hits := by
  rw [selectRun_bare]
  apply concatConts_total
  intro k hk
  obtain ⟨m, hm, rfl⟩ := List.mem_map.mp hk
  exact hP m hm (hS m hm)

theorem rep_total (o : SubsetOut) (id : List Char) (n k : Nat) (ms : List Node) (hlen : ms.length = k * n)
    (hP : ∀ m ∈ ms, DescTotal o id m) (hS : ∀ m ∈ ms, repsOK1 o m = true) :
    ∃ hits, (if ms.isEmpty then .ok [] else if n = 0 then .error .other
      else wrapC (envelope o.descs (bare id) (blocks n ms.length (ms.zip (contList o.descs ms (bare id) []))))) =
        (.ok hits : Cont) := by
  cases hms : ms with
  | nil => exact ⟨[], rfl⟩
  | cons m0 ms' =>
    rw [← hms]
    have hne : ms.isEmpty = false := by rw [hms]; rfl
    have hn : n ≠ 0 := by
      intro h0
      rw [h0, Nat.mul_zero, hms] at hlen
      simp at hlen
    rw [hne]
    simp only [Bool.false_eq_true, if_false, if_neg hn]
    rw [contList_eq_map, zip_map_self, blocks_map, envelope_eq, List.map_map]
    obtain ⟨env, henv⟩ := envC_total ((blocks n ms.length ms).map
      ((selectRun o.descs (bare id)) ∘ (List.map (fun m => (m, contFor o.descs (bare id) [] m))))) (by
        intro k' hk'
        obtain ⟨B, hB, rfl⟩ := List.mem_map.mp hk'
        have hsub : ∀ m ∈ B, m ∈ ms := by
          intro m hm
          have hfl := blocks_flatten n (Nat.pos_of_ne_zero hn) ms.length ms (Nat.le_refl _)
          rw [← hfl]
          exact List.mem_flatten.mpr ⟨B, hB, hm⟩
        obtain ⟨hits, hh⟩ := selectRun_total o id B (fun m hm => hP m (hsub m hm)) (fun m hm => hS m (hsub m hm))
        rw [contList_eq_map, zip_map_self] at hh
        exact ⟨hits, hh⟩)
    rw [henv]
    exact ⟨_, rfl⟩

theorem descTotal_all (o : SubsetOut) (id : List Char) : ∀ n, DescTotal o id n := by
  apply Node.induct' (DescTotal o id)
  · intro k i attrs ih hS
    by_cases hl : nodeLabel o.descs (.value k i attrs) = some id
    · exact ⟨_, contFor_bare_hit o.descs id _ hl⟩
    · cases hattrs : attrs with
      | nil => exact ⟨_, contFor_bare_no o.descs id _ hl rfl⟩
      | cons a as =>
        rw [← hattrs]
        have hne : attrs.isEmpty = false := by rw [hattrs]; rfl
        rw [contFor_bare_keep o.descs id _ hl (by simp [composite, hne]), subNodes_value, stepNode_bare]
        simp only [descStep, attrStep, hne, Bool.false_eq_true, if_false]
        rw [repsOK1] at hS
        exact selectRun_total o id attrs ih (repsOKList_mem o attrs hS)
  · intro i _
    by_cases hl : nodeLabel o.descs (.noval i) = some id
    · exact ⟨_, contFor_bare_hit o.descs id _ hl⟩
    · exact ⟨_, contFor_bare_no o.descs id _ hl rfl⟩
  · intro i ms ih hS
    by_cases hl : nodeLabel o.descs (.seq i ms) = some id
    · exact ⟨_, contFor_bare_hit o.descs id _ hl⟩
    · rw [contFor_bare_keep o.descs id _ hl rfl, subNodes_seq, stepNode_bare]
      simp only [descStep, childStep]
      rw [repsOK1] at hS
      exact selectRun_total o id ms ih (repsOKList_mem o ms hS)
  · intro i n ms ih hS
    by_cases hl : nodeLabel o.descs (.fixedRep i n ms) = some id
    · exact ⟨_, contFor_bare_hit o.descs id _ hl⟩
    · rw [contFor_bare_keep o.descs id _ hl rfl, subNodes_fixed, stepNode_bare]
      simp only [descStep]
      rw [childStep_fixed]
      rw [repsOK1, Bool.and_eq_true] at hS
      exact rep_total o id n (yOf i) ms (by simpa using hS.1) ih (repsOKList_mem o ms hS.2)
  · intro i n f ms ihf ih hS
    by_cases hl : nodeLabel o.descs (.delayedRep i n f ms) = some id
    · exact ⟨_, contFor_bare_hit o.descs id _ hl⟩
    · cases f with
      | value kf fi fattrs =>
        rw [repsOK1, Bool.and_eq_true] at hS
        have h1 := hS.1
        simp only [Bool.and_eq_true] at h1
        cases hk : wireCount o fi with
        | error e => rw [hk] at h1; simp at h1
        | ok cnt =>
          rw [hk] at h1
          rw [contFor_bare_keep o.descs id _ hl rfl, subNodes_delayed, stepNode_bare]
          simp only [descStep, attrStep]
          rw [childStep_delayed]
          have hf : repsOK1 o (.value kf fi fattrs) = true := by rw [repsOK1]; exact h1.2
          obtain ⟨hs, hhs⟩ := selectRun_total o id [.value kf fi fattrs]
            (by intro m hm; rw [List.mem_singleton] at hm; subst hm; exact ihf)
            (by intro m hm; rw [List.mem_singleton] at hm; subst hm; exact hf)
          rw [contList_eq_map] at hhs
          obtain ⟨hs', hhs'⟩ := rep_total o id n cnt ms (by simpa using h1.1) ih (repsOKList_mem o ms hS.2)
          simp only [List.map_cons, List.map_nil, List.zip_cons_cons, List.zip_nil_right] at hhs
          rw [hhs, hhs']
          exact ⟨_, rfl⟩
      | noval _ => simp [repsOK1] at hS
      | seq _ _ => simp [repsOK1] at hS
      | fixedRep _ _ _ => simp [repsOK1] at hS
      | delayedRep _ _ _ _ => simp [repsOK1] at hS

theorem processOne_bare_total (o : SubsetOut) (id : List Char) (tree : List Node) (hS : repsOKList o tree = true) :
    ∃ hits, processOne o.descs tree [bare id] = .ok hits := by
  simp only [processOne]
  rw [if_neg (by simp [bare])]
  exact selectRun_total o id tree (fun m _ => descTotal_all o id m) (repsOKList_mem o tree hS)

mutual
theorem valuesOf_total (vals : List Val) : ∀ (hits : List Hit),
    (∀ n ∈ hitNodes hits, (nodeVal vals n).isSome = true) → ∃ vs, valuesOf vals hits = .ok vs
  | [], _ => ⟨[], valuesOf_nil vals⟩
  | x :: xs, h => by
    rw [hitNodes] at h
    obtain ⟨v, hv⟩ := valueOf1_total vals x (fun n hn => h n (List.mem_append_left _ hn))
    obtain ⟨vs, hvs⟩ := valuesOf_total vals xs (fun n hn => h n (List.mem_append_right _ hn))
    exact ⟨v :: vs, by rw [valuesOf_cons, hv, hvs]⟩

theorem valueOf1_total (vals : List Val) : ∀ (x : Hit),
    (∀ n ∈ hitNodes1 x, (nodeVal vals n).isSome = true) → ∃ v, valueOf1 vals x = .ok v
  | .list l, h => by
    rw [hitNodes1] at h
    obtain ⟨vs, hvs⟩ := valuesOf_total vals l h
    exact ⟨.list vs, by rw [valueOf1_list, hvs]⟩
  | .node (.value k i attrs), h => by
    have := h (.value k i attrs) (by rw [hitNodes1]; exact List.mem_singleton.mpr rfl)
    simp only [nodeVal] at this
    cases hv : vals[i]? with
    | none => rw [hv] at this; cases this
    | some v => exact ⟨.val v, by rw [valueOf1, hv]⟩
  | .node (.noval j), h => by
    have := h (.noval j) (by rw [hitNodes1]; exact List.mem_singleton.mpr rfl)
    simp [nodeVal] at this
  | .node (.seq j ms), h => by
    have := h (.seq j ms) (by rw [hitNodes1]; exact List.mem_singleton.mpr rfl)
    simp [nodeVal] at this
  | .node (.fixedRep j n ms), h => by
    have := h (.fixedRep j n ms) (by rw [hitNodes1]; exact List.mem_singleton.mpr rfl)
    simp [nodeVal] at this
  | .node (.delayedRep j n f ms), h => by
    have := h (.delayedRep j n f ms) (by rw [hitNodes1]; exact List.mem_singleton.mpr rfl)
    simp [nodeVal] at this
end

/-- the bare id of an ordinary element on a well-shaped tree whose indices are the flat positions: the query
    succeeds and returns the values carrying the id in the flat data, in order -/
theorem bare_flat_total (o : SubsetOut) (tree : List Node) (id : List Char)
    (hidx : idxList tree = List.range o.vals.length) (hord : ordinaryList o.descs id tree = true)
    (hS : repsOKList o tree = true) :
    ∃ hits vs, processOne o.descs tree [bare id] = .ok hits ∧ valuesOf o.vals hits = .ok vs ∧
      flattenQV vs = flatFilter o id := by
  obtain ⟨hits, hh⟩ := processOne_bare_total o id tree hS
  have hm := processOne_bare o.descs id tree hits hh
  have hall : ∀ n ∈ hitNodes hits, (nodeVal o.vals n).isSome = true := by
    intro n hn
    have hmem : nodeVal o.vals n ∈ (matchList o.descs id tree).map (nodeVal o.vals) := by
      rw [← hm]; exact List.mem_map_of_mem hn
    rw [ordList o.descs o.vals id tree (fun m _ => ordOK_all o.descs o.vals id m) hord, hidx] at hmem
    obtain ⟨j, hj, hjv⟩ := List.mem_map.mp hmem
    have hjlt : j < o.vals.length := List.mem_range.mp (List.mem_filter.mp hj).1
    rw [← hjv, List.getElem?_eq_getElem hjlt]
    rfl
  obtain ⟨vs, hv⟩ := valuesOf_total o.vals hits hall
  exact ⟨hits, vs, hh, hv, bare_flat o tree id hits vs hidx hord hh hv⟩

theorem mapIdx_mem {β : Type} (f : Nat → CM β) : ∀ (l : List Nat) (rs : List β), mapIdx f l = .ok rs →
    ∀ q ∈ rs, ∃ i ∈ l, f i = .ok q
  | [], rs, h, q, hq => by simp only [mapIdx] at h; cases h; simp at hq
  | i :: is, rs, h, q, hq => by
    simp only [mapIdx] at h
    split at h
    · cases h
    · next b hb =>
      split at h
      · cases h
      · next bs hbs =>
        cases h
        rcases List.mem_cons.mp hq with rfl | hq'
        · exact ⟨i, List.mem_cons_self, hb⟩
        · obtain ⟨j, hj, hfj⟩ := mapIdx_mem f is bs hbs q hq'
          exact ⟨j, List.mem_cons_of_mem _ hj, hfj⟩

end Bufr.C16
