/-
  C07: whatever the walk does, it only APPENDS items (`grow_walkList`): for recording primitives, any
  template and any state, the items after a run are the items before it followed by more items.  Used to
  carry a property of the finished item list (`Spec.markersOk`) back to every intermediate state.
-/
import BufrModel.Lemmas.LinkSpecCore
namespace Bufr.C07
open Bufr.Spec

/-- `s` has recorded as many values as labels, and its items extend those of `s0` -/
def G (V : St → List Val) (X : St → Prop) (s0 s : St) : Prop :=
  (V s).length = s.descs.length ∧ (∃ ext, items V s = items V s0 ++ ext) ∧ s.vals.length = s0.vals.length ∧
    (X s0 → X s)

theorem G.refl (V : St → List Val) (X : St → Prop) (s0 : St) (h : (V s0).length = s0.descs.length) : G V X s0 s0 :=
  ⟨h, ⟨[], by simp⟩, rfl, fun x => x⟩

theorem G.congr {V : St → List Val} {X : St → Prop} {s0 s s' : St} (h : G V X s0 s) (hd : s'.descs = s.descs)
    (hv : V s' = V s) (hl : s'.vals.length = s.vals.length) (hx : X s → X s') : G V X s0 s' :=
  ⟨by rw [hd, hv]; exact h.1, by rw [items_congr V s s' hd hv]; exact h.2.1, by rw [hl]; exact h.2.2.1,
    fun x => hx (h.2.2.2 x)⟩

theorem G.push {V : St → List Val} {X : St → Prop} {s0 s s' : St} (h : G V X s0 s) (dd : DDesc) (v : Val)
    (hd : s'.descs = dd :: s.descs) (hv : V s' = V s ++ [v]) (hl : s'.vals.length = s.vals.length)
    (hx : X s → X s') : G V X s0 s' := by
  obtain ⟨h1, ⟨ext, h2⟩, h3, h4⟩ := h
  refine ⟨by rw [hd, hv]; simp [h1], ⟨ext ++ [(dd, v)], ?_⟩, by rw [hl]; exact h3, fun x => hx (h4 x)⟩
  rw [items_snoc V s s' dd v h1 hd hv, h2, List.append_assoc]

theorem G.trans {V : St → List Val} {X : St → Prop} {s0 s1 s2 : St} (h1 : G V X s0 s1) (h2 : G V X s1 s2) :
    G V X s0 s2 := by
  obtain ⟨_, ⟨e1, h1⟩, v1, x1⟩ := h1
  obtain ⟨l2, ⟨e2, h2⟩, v2, x2⟩ := h2
  exact ⟨l2, ⟨e1 ++ e2, by rw [h2, h1, List.append_assoc]⟩, by rw [v2, v1], fun x => x2 (x1 x)⟩

section steps
variable {P : Prims} {V : St → List Val} {X : St → Prop} (hR : Rec P V X) (s0 : St)
include hR

theorem growG_same {f : St → CM St}
    (h : ∀ s s', f s = .ok s' → ∃ dd, Same s s' dd ∧ (∃ v, V s' = V s ++ [v]) ∧ s'.vals.length = s.vals.length ∧
      (X s → X s')) :
    Pres (G V X s0) f := by
  intro s s' e hi
  obtain ⟨dd, hs, ⟨v, hv⟩, hl, hx⟩ := h s s' e
  exact hi.push dd v hs.1 hv hl hx

theorem growG_setRegs (f : St → Regs → Regs) : Pres (G V X s0) (fun s => .ok (s.setRegs (f s))) := by
  intro s s' e hi
  cases e
  exact hi.congr rfl (hR.setRegs _ _) rfl (hR.setRegsX _ _)

theorem growG_numeric (dd : DDesc) (n sc r : Int) : Pres (G V X s0) (P.numeric dd n sc r) :=
  growG_same hR s0 (fun s s' h => ⟨dd, hR.quiet.numeric _ _ _ _ _ _ h, hR.numeric _ _ _ _ _ _ h, hR.numericL _ _ _ _ _ _ h, hR.numericX _ _ _ _ _ _ h⟩)
theorem growG_string (dd : DDesc) (n : Nat) : Pres (G V X s0) (P.string dd n) :=
  growG_same hR s0 (fun s s' h => ⟨dd, hR.quiet.string _ _ _ _ h, hR.string _ _ _ _ h, hR.stringL _ _ _ _ h, hR.stringX _ _ _ _ h⟩)
theorem growG_codeflag (dd : DDesc) (n : Nat) : Pres (G V X s0) (P.codeflag dd n) :=
  growG_same hR s0 (fun s s' h => ⟨dd, hR.quiet.codeflag _ _ _ _ h, hR.codeflag _ _ _ _ h, hR.codeflagL _ _ _ _ h, hR.codeflagX _ _ _ _ h⟩)
theorem growG_constant (dd : DDesc) (c : Int) : Pres (G V X s0) (P.constant dd c) :=
  growG_same hR s0 (fun s s' h => ⟨dd, hR.quiet.constant _ _ _ _ h, hR.constant _ _ _ _ h, hR.constantL _ _ _ _ h, hR.constantX _ _ _ _ h⟩)

/-- `stQa` only touches registers and links -/
theorem stQa_shape (e : Elem) (s s2 : St) (h : stQa e s = .ok s2) :
    s2.descs = s.descs ∧ V s2 = V s ∧ s2.vals = s.vals ∧ (X s → X s2) := by
  unfold stQa at h
  by_cases hx : xOf e.id = 33
  · rw [if_pos hx] at h
    cases hq : s.regs.qa with
    | na =>
      simp only [hq, reduceCtorEq, if_false] at h
      simp only [hq, reduceCtorEq, if_false, pure, Except.pure] at h
      injection h with h; subst h
      exact ⟨rfl, rfl, rfl, fun x => x⟩
    | waiting =>
      simp only [hq, St.setRegs, if_true, bind, Except.bind, nextBitmapped] at h
      cases hb : s.regs.bmIter with
      | none => simp [hb] at h
      | some l =>
        cases l with
        | nil => simp [hb] at h
        | cons x rest =>
          obtain ⟨owner, el⟩ := x
          simp only [hb, pure, Except.pure, St.setRegs, addLink] at h
          injection h with h; subst h
          have : V (addLink ((s.setRegs fun r => { r with qa := .processing }).setRegs
              fun r => { r with bmIter := some rest }) owner) = V s := by
            rw [hR.addLink, hR.setRegs, hR.setRegs]
          have hx : X s → X (addLink ((s.setRegs fun r => { r with qa := .processing }).setRegs
              fun r => { r with bmIter := some rest }) owner) :=
            fun x => hR.addLinkX _ _ (hR.setRegsX _ _ (hR.setRegsX _ _ x))
          exact ⟨rfl, this, rfl, hx⟩
    | processing =>
      simp only [hq, reduceCtorEq, if_false] at h
      simp only [hq, if_true, St.setRegs, bind, Except.bind, nextBitmapped] at h
      cases hb : s.regs.bmIter with
      | none => simp [hb] at h
      | some l =>
        cases l with
        | nil => simp [hb] at h
        | cons x rest =>
          obtain ⟨owner, el⟩ := x
          simp only [hb, pure, Except.pure, St.setRegs, addLink] at h
          injection h with h; subst h
          have : V (addLink ((s.setRegs fun r => { r with qa := .processing }).setRegs
              fun r => { r with bmIter := some rest }) owner) = V s := by
            rw [hR.addLink, hR.setRegs, hR.setRegs]
          have hx : X s → X (addLink ((s.setRegs fun r => { r with qa := .processing }).setRegs
              fun r => { r with bmIter := some rest }) owner) :=
            fun x => hR.addLinkX _ _ (hR.setRegsX _ _ (hR.setRegsX _ _ x))
          exact ⟨rfl, this, rfl, hx⟩
  · rw [if_neg hx] at h
    simp only [pure, Except.pure] at h
    injection h with h; subst h
    split
    · exact ⟨rfl, hR.setRegs _ _, rfl, hR.setRegsX _ _⟩
    · exact ⟨rfl, rfl, rfl, fun x => x⟩

theorem growG_stQa (e : Elem) : Pres (G V X s0) (stQa e) := by
  intro s s2 h hi
  obtain ⟨a, b, c, d⟩ := stQa_shape hR e s s2 h
  exact hi.congr a b (by rw [c]) d

theorem growG_stValue (dd : DDesc) (e : Elem) : Pres (G V X s0) (stValue P dd e) := by
  intro s s' h hi
  unfold stValue at h
  split at h
  · exact growG_string hR s0 _ _ s s' h hi
  · exact growG_codeflag hR s0 _ _ s s' h hi
  · split at h
    · exact growG_numeric hR s0 _ _ _ _ s s' h hi
    · exact growG_numeric hR s0 _ _ _ _ s s' h hi

theorem growG_stAssoc (e : Elem) : Pres (G V X s0) (stAssoc P e) := by
  intro s s' h hi
  unfold stAssoc at h
  split at h
  · exact growG_codeflag hR s0 _ _ s s' h hi
  · cases h; exact hi

theorem growG_elementDescriptor (dd : DDesc) (e : Elem) : Pres (G V X s0) (elementDescriptor P dd e) := by
  intro s s' h hi
  rw [Bufr.C07.elementDescriptor_eq] at h
  cases h1 : stAssoc P e s with
  | error err => simp [h1, bind, Except.bind] at h
  | ok s1 =>
    simp only [h1, bind, Except.bind] at h
    cases h2 : stQa e s1 with
    | error err => simp [h2] at h
    | ok s2 =>
      simp only [h2] at h
      exact growG_stValue hR s0 dd e s2 s' h (growG_stQa hR s0 e s1 s2 h2 (growG_stAssoc hR s0 e s s1 h1 hi))

theorem growG_associatedField (id : Nat) : Pres (G V X s0) (associatedField P id) :=
  fun s s' h hi => growG_codeflag hR s0 _ _ s s' h hi

theorem growG_bitmappedDescriptor (op : Nat) : Pres (G V X s0) (bitmappedDescriptor P op) := by
  intro s s' h hi
  cases hb : s.regs.bmIter with
  | none => simp [bitmappedDescriptor, nextBitmapped, hb, bind, Except.bind] at h
  | some l =>
    cases l with
    | nil => simp [bitmappedDescriptor, nextBitmapped, hb, bind, Except.bind] at h
    | cons x rest =>
      obtain ⟨owner, be⟩ := x
      simp only [bitmappedDescriptor, nextBitmapped, hb, bind, Except.bind] at h
      exact growG_elementDescriptor hR s0 _ _ _ _ h (hi.congr rfl (by rw [hR.addLink, hR.setRegs]) rfl (fun x => hR.addLinkX _ _ (hR.setRegsX _ _ x)))

theorem growG_bitmapDefinition (id : Nat) : Pres (G V X s0) (bitmapDefinition P id) := by
  intro s s' h hi
  unfold bitmapDefinition at h
  cases hb : s.regs.bitmapDef with
  | na => simp only [hb] at h; cases h; exact hi
  | indicator =>
    simp only [hb] at h
    split at h <;> (cases h; exact hi.congr rfl (hR.setRegs _ _) rfl (hR.setRegsX _ _))
  | waiting =>
    simp only [hb] at h
    split at h
    · cases h; exact hi.congr rfl (hR.setRegs _ _) rfl (hR.setRegsX _ _)
    · cases h; exact hi
  | counting =>
    simp only [hb] at h
    split at h
    · cases h; exact hi.congr rfl (hR.setRegs _ _) rfl (hR.setRegsX _ _)
    · simp only [bind, Except.bind, pure, Except.pure] at h
      cases hv : P.lastValues s.regs.n031031 s with
      | error err => simp [hv] at h
      | ok bitmap =>
        simp only [hv] at h
        cases hbb : buildBitmapped s bitmap with
        | error err => simp [hbb] at h
        | ok sb =>
          simp only [hbb] at h
          cases h
          rw [buildBitmapped_eq'] at hbb
          split at hbb
          · cases hbb
          · cases hbb
            exact hi.congr rfl (by rw [hR.setRegs, hR.setRegs]) rfl (fun x => hR.setRegsX _ _ (hR.setRegsX _ _ x))

theorem growG_operatorDescriptor (id : Nat) : Pres (G V X s0) (operatorDescriptor P id) := by
  show Pres (G V X s0) (fun s => operatorDescriptor P id s)
  simp only [operatorDescriptor]
  repeat' first
    | exact growG_setRegs hR s0 _
    | exact Pres.error _
    | exact growG_string hR s0 _ _
    | exact growG_constant hR s0 _ _
    | refine Pres.ite_const (fun _ => ?_) (fun _ => ?_)
    | refine Pres.ite ?_ ?_
  · -- 22X000 / 232000
    intro s s' h hi
    simp only [bind, Except.bind, pure, Except.pure] at h
    split at h
    · cases h
    · next s2 hk =>
      have i2 := growG_constant hR s0 _ _ _ s2 hk (hi.congr rfl (hR.setRegs _ _) rfl (hR.setRegsX _ _))
      injection h with h; subst h
      split
      · exact i2.congr rfl (hR.setRegs _ _) rfl (hR.setRegsX _ _)
      · exact i2
  · -- marker operators
    exact Pres.congr (fun s => Bufr.bind_eq_kl (fun s => if s.regs.assocStack ≠ [] then associatedField P id s else .ok s)
        (bitmappedDescriptor P id) s)
      (Pres.kl (Pres.ite (growG_associatedField hR s0 id) Pres.id) (growG_bitmappedDescriptor hR s0 id))
  · -- 237000
    intro s s' h hi
    cases hb : s.regs.bitmapped with
    | none => simp [hb] at h
    | some l =>
      simp only [hb] at h
      exact growG_constant hR s0 _ _ _ s' h (hi.congr rfl (hR.setRegs _ _) rfl (hR.setRegsX _ _))

theorem growG_dnpStep : Pres (G V X s0) (fun s => .ok (dnpStep s)) := by
  intro s s' h hi
  cases h
  unfold dnpStep
  split
  · exact hi.congr rfl (hR.setRegs _ _) rfl (hR.setRegsX _ _)
  · exact hi

theorem growG_walkRest (d : Desc) (hd : Pres (G V X s0) (dispatch P d)) : Pres (G V X s0) (walkRest P d) := by
  intro s s' h hi
  unfold walkRest at h
  cases hsel : newRefSel d s with
  | some e =>
    simp only [hsel] at h
    by_cases hk : e.kind = .string
    · simp [hk] at h
    · simp only [hk, if_false] at h
      obtain ⟨a, v, b⟩ := hR.newRefval _ _ _ _ h
      exact hi.push _ v a b (hR.newRefvalL _ _ _ _ h) (hR.newRefvalX _ _ _ _ h)
  | none =>
    simp only [hsel] at h
    by_cases hn : s.regs.nbitsSkipped = 0
    · simp only [hn, ne_eq, not_true_eq_false, if_false] at h
      cases hb : bitmapDefinition P d.id s with
      | error err => simp [hb] at h
      | ok s1 => simp only [hb] at h; exact hd s1 s' h (growG_bitmapDefinition hR s0 d.id s s1 hb hi)
    · simp only [hn, ne_eq, not_false_eq_true, if_true, bind, Except.bind, pure, Except.pure] at h
      cases hc : P.codeflag (.skipped d.id s.regs.nbitsSkipped) s.regs.nbitsSkipped s with
      | error err => simp [hc] at h
      | ok s1 =>
        simp only [hc] at h
        cases h
        exact (growG_codeflag hR s0 _ _ s s1 hc hi).congr rfl (hR.setRegs _ _) rfl (hR.setRegsX _ _)

theorem growG_walk1_of (d : Desc) (hd : Pres (G V X s0) (dispatch P d)) : Pres (G V X s0) (walk1 P d) := by
  refine Pres.congr (fr_walk1_eq P d) ?_
  refine Pres.ite (c := fun s0 => skipTest d s0 = true) (growG_dnpStep hR s0) ?_
  exact Pres.congr (G := Bufr.kl (fun s => .ok (dnpStep s)) (walkRest P d)) (fun s => rfl)
    (Pres.kl (growG_dnpStep hR s0) (growG_walkRest hR s0 d hd))

end steps

mutual
theorem growG_walkList {P : Prims} {V : St → List Val} {X : St → Prop} (hR : Rec P V X) (s0 : St) :
    (t : List Desc) → Pres (G V X s0) (walkList P t)
  | [] => Pres.congr (fun s => by rw [walkList]) Pres.id
  | d :: ds =>
    Pres.congr (G := Bufr.kl (walk1 P d) (walkList P ds)) (fun s => by rw [walkList]; rfl)
      (Pres.kl (growG_walk1_of hR s0 d (growG_dispatch hR s0 d)) (growG_walkList hR s0 ds))

theorem growG_dispatch {P : Prims} {V : St → List Val} {X : St → Prop} (hR : Rec P V X) (s0 : St) :
    (d : Desc) → Pres (G V X s0) (dispatch P d)
  | .elem e => growG_elementDescriptor hR s0 (.plain e) e
  | .fixedRep id ms => Pres.iterN (growG_walkList hR s0 ms) (yOf id)
  | .delayedRep _ f ms => by
    cases f with
    | elem fe =>
      exact Pres.congr
        (G := Bufr.kl (elementDescriptor P (.plain fe) fe)
          (Bufr.klV (fun s => P.factorValue s >>= factorCount) (fun n => iterN n (walkList P ms))))
        (fun s => by simp only [dispatch, Bufr.kl, Bufr.klV]; match_eq)
        (Pres.kl (growG_elementDescriptor hR s0 _ _) (Pres.klV (fun n => Pres.iterN (growG_walkList hR s0 ms) n)))
    | _ => exact Pres.error .unknownDescr
  | .op id => growG_operatorDescriptor hR s0 id
  | .seq _ ms => growG_walkList hR s0 ms
  | .undefElem _ => Pres.error .unknownDescr
  | .undefSeq _ => Pres.error .unknownDescr
end

/-- a function that only appends items -/
def Grows (V : St → List Val) (X : St → Prop) (f : St → CM St) : Prop :=
  ∀ s s', (V s).length = s.descs.length → f s = .ok s' → G V X s s'

theorem Grows.of_pres {V : St → List Val} {X : St → Prop} {f : St → CM St} (h : ∀ s0, Pres (G V X s0) f) :
    Grows V X f :=
  fun s s' hl e => h s s s' e (G.refl V X s hl)

theorem grows_walkList {P : Prims} {V : St → List Val} {X : St → Prop} (hR : Rec P V X) (t : List Desc) : Grows V X (walkList P t) :=
  Grows.of_pres (fun s0 => growG_walkList hR s0 t)

theorem grows_iterN {V : St → List Val} {X : St → Prop} {f : St → CM St} (h : ∀ s0, Pres (G V X s0) f) (n : Nat) :
    Grows V X (iterN n f) :=
  Grows.of_pres (fun s0 => Pres.iterN (h s0) n)

end Bufr.C07
