/-
  The compiled-template path (`Coder/Compiler.lean`: `exec` = `process_statements`) respects every `Shape` its primitives
  respect (same generic lemma as `good_walkList` of Lemmas/Frame.lean, by mutual structural induction over statements), hence:
  `decodeSubsetC prog` is `R.Trunc` for ANY program `prog` (consumes a prefix, unaffected by what follows, `BitReadError` on
  every proper prefix), `encodeSubsetC prog` only conses its bits onto what was written before, and together = alone for
  `decodeSubsetsC` / `encodeSubsetsC` — whatever the program (no `scopeClosed` hypothesis: every subset is executed from a
  fresh state).
-/
import BufrModel.Lemmas.FrameData
import BufrModel.Coder.Compiler
namespace Bufr

/-! ## `exec` respects every `Shape` the primitives respect -/

section execGood
variable {Sh : Shape} {P : Prims}

theorem obl_stateCall (m : StateMethod) : Obl (stateCall m) := by
  intro s b
  cases m with
  | markBoundary => rfl
  | recallBitmap =>
    show stateCall .recallBitmap (s.setBits b) = _
    simp only [stateCall, St.setBits]
    cases s.regs.bitmapped <;> rfl
  | cancelBitmap => rfl
  | cancelAllBackRefs => rfl
  | addBitmapLink =>
    show stateCall .addBitmapLink (s.setBits b) = _
    simp only [stateCall, nextBitmapped_setBits]
    cases nextBitmapped s with
    | error e => rfl
    | ok p => rfl
  | cancelNewRefvals => rfl

theorem applyProps_setBits (sp : StateProps) (s : St) (b : Bits) :
    applyProps sp (s.setBits b) = (applyProps sp s).setBits b := rfl

theorem good_defineBitmapRt (hP : P.Good Sh) : Good Sh (defineBitmapRt P) := by
  refine Good.local fun s => ?_
  refine ⟨klV (P.lastValues s.regs.n031031) (fun bm s => buildBitmapped s bm),
    Good.klV (hP.lastValues _) (fun bm => Good.obl (obl_buildBitmapped bm)), fun b => ?_⟩
  simp only [defineBitmapRt, klV, St.setBits_regs]
  match_eq

mutual
theorem good_execList (hP : P.Good Sh) : (p : List Stmt) → Good Sh (execList P p)
  | [] => Good.congr (fun s => by rw [execList]) (Good.pure (h := fun s => s) (fun _ _ => rfl))
  | x :: xs =>
    Good.congr (G := kl (exec1 P x) (execList P xs)) (fun s => by rw [execList]; rfl)
      (Good.kl (good_exec1 hP x) (good_execList hP xs))

theorem good_exec1 (hP : P.Good Sh) : (x : Stmt) → Good Sh (exec1 P x)
  | .numeric dd a b c => Good.congr (fun s => by rw [exec1]) (hP.numeric dd a b c)
  | .numericNewRef dd a b c => by
    refine Good.local fun s => ?_
    cases h : lookupRef s.regs.newRefvals dd.eid with
    | none => exact ⟨_, Good.error .other, fun b => by rw [exec1]; simp only [St.setBits, h]⟩
    | some nr => exact ⟨_, hP.numeric dd a b (nr * c), fun b => by rw [exec1]; simp only [St.setBits, h]⟩
  | .string dd n => Good.congr (fun s => by rw [exec1]) (hP.string dd n)
  | .codeflag dd n => Good.congr (fun s => by rw [exec1]) (hP.codeflag dd n)
  | .newRefval e n => Good.congr (fun s => by rw [exec1]) (hP.newRefval e n)
  | .constant dd v => Good.congr (fun s => by rw [exec1]) (hP.constant dd v)
  | .bitmapped opId sp =>
    Good.congr (G := kl (fun s => .ok (applyProps sp s)) (bitmappedDescriptor P opId)) (fun s => by rw [exec1]; rfl)
      (Good.kl (Good.pure (applyProps_setBits sp)) (good_bitmappedDescriptor hP opId))
  | .defineBitmap r => Good.congr (fun s => by rw [exec1]) (good_defineBitmapRt hP)
  | .state m => Good.congr (fun s => by rw [exec1]) (Good.obl (obl_stateCall m))
  | .inc031031 => Good.congr (fun s => by rw [exec1]) (Good.pure (h := fun s => s.setRegs fun r => { r with n031031 := r.n031031 + 1 }) (fun _ _ => rfl))
  | .reset031031 => Good.congr (fun s => by rw [exec1]) (Good.pure (h := fun s => s.setRegs fun r => { r with n031031 := 0 }) (fun _ _ => rfl))
  | .loop (.fixed n) body => Good.congr (fun s => by rw [exec1]) (Good.iterN (good_execList hP body) n)
  | .loop .factor body =>
    Good.congr (G := klV (fun s => P.factorValue s >>= factorCount) (fun n => iterN n (execList P body)))
      (fun s => by rw [exec1]; simp only [klV]; match_eq)
      (Good.klV (goodV_factor hP) (fun n => Good.iterN (good_execList hP body) n))
end

end execGood

/-! ## data-section level: the compiled program subset by subset -/

theorem decodeSubsetC_trunc (prog : List Stmt) : R.Trunc (decodeSubsetC prog) := by
  intro bits o rest e
  unfold decodeSubsetC exec at e
  cases hw : execList decPrimsU prog { bits := bits, vals := [[]] } with
  | error err => rw [hw] at e; cases e
  | ok s' =>
    rw [hw] at e
    cases e
    obtain ⟨c, e1, l, tr⟩ := good_execList decPrimsU_trunc prog _ s' hw
    refine ⟨c, e1, fun y => ?_, fun q hq => ?_⟩
    · have h0 : ({ bits := c ++ y, vals := [[]] } : St) = St.setBits { bits := bits, vals := [[]] } (c ++ y) := rfl
      unfold decodeSubsetC exec
      rw [h0, l y]; rfl
    · have h0 : ({ bits := q, vals := [[]] } : St) = St.setBits { bits := bits, vals := [[]] } q := rfl
      unfold decodeSubsetC exec
      rw [h0, tr q hq]; rfl

theorem decodeSubsetsC_trunc (prog : List Stmt) (n : Nat) : R.Trunc (decodeSubsetsC prog n) := by
  induction n with
  | zero => exact R.Trunc.congr (fun bs => by simp [decodeSubsetsC]) (R.Trunc.pure [])
  | succ n ih =>
    refine R.Trunc.congr (fun bs => ?_)
      (R.Trunc.bind' (k := fun o => R.bind (decodeSubsetsC prog n) fun os r' => .ok (o :: os, r'))
        (decodeSubsetC_trunc prog) (fun o => R.Trunc.bind' ih (fun _ => R.Trunc.pure _)))
    simp only [decodeSubsetsC, R.bind]
    match_eq

/-- together = alone for ANY program: `ps` lists (segment, output) pairs, each segment decoding alone to its output -/
theorem decodeSubsetsC_of_alone (prog : List Stmt) (ps : List (Bits × SubsetOut))
    (h : ∀ p ∈ ps, decodeSubsetC prog p.1 = .ok (p.2, [])) (rest : Bits) :
    decodeSubsetsC prog ps.length ((ps.map (·.1)).flatten ++ rest) = .ok (ps.map (·.2), rest) := by
  induction ps with
  | nil => rfl
  | cons p ps ih =>
    have hp := h p (by simp)
    have := (decodeSubsetC_trunc prog).frame p.1 p.2 [] ((ps.map (·.1)).flatten ++ rest) hp
    simp only [List.length_cons, List.map_cons, List.flatten_cons, List.append_assoc, decodeSubsetsC]
    rw [this]
    simp only [List.nil_append, ih (fun q hq => h q (by simp [hq]))]

theorem decodeSubsetsC_segments (prog : List Stmt) (n : Nat) (bits : Bits) (outs : List SubsetOut) (rest : Bits)
    (h : decodeSubsetsC prog n bits = .ok (outs, rest)) :
    ∃ ps : List (Bits × SubsetOut), ps.length = n ∧ ps.map (·.2) = outs ∧
      bits = (ps.map (·.1)).flatten ++ rest ∧ ∀ p ∈ ps, decodeSubsetC prog p.1 = .ok (p.2, []) := by
  induction n generalizing bits outs with
  | zero =>
    simp only [decodeSubsetsC] at h
    cases h
    exact ⟨[], rfl, rfl, rfl, fun p hp => by simp at hp⟩
  | succ n ih =>
    simp only [decodeSubsetsC] at h
    cases h1 : decodeSubsetC prog bits with
    | error err => rw [h1] at h; cases h
    | ok p =>
      obtain ⟨o, r1⟩ := p
      rw [h1] at h; simp only at h
      cases h2 : decodeSubsetsC prog n r1 with
      | error err => rw [h2] at h; cases h
      | ok p2 =>
        obtain ⟨os, r2⟩ := p2
        rw [h2] at h; simp only at h
        cases h
        obtain ⟨ps, hl, ho, hb, hf⟩ := ih r1 os h2
        obtain ⟨c, e1, hc⟩ := (decodeSubsetC_trunc prog).prefix bits o r1 h1
        refine ⟨(c, o) :: ps, by simp [hl], by simp [ho], ?_, ?_⟩
        · rw [e1, hb]; simp
        · intro p hp
          rcases List.mem_cons.mp hp with rfl | hp
          · exact hc
          · exact hf p hp

/-- the compiled encoder's output for one subset does not depend on what was written before -/
theorem encodeSubsetC_pre (prog : List Stmt) (v : List Val) (pre : Bits) (o : SubsetOut) (b : Bits) :
    encodeSubsetC prog v pre = .ok (o, b) ↔ ∃ b0, encodeSubsetC prog v [] = .ok (o, b0) ∧ b = b0 ++ pre := by
  constructor
  · intro e
    unfold encodeSubsetC exec at e
    cases hw : execList encPrimsU prog { bits := pre, vals := [v] } with
    | error err => rw [hw] at e; cases e
    | ok s' =>
      rw [hw] at e; cases e
      obtain ⟨w, e1, l⟩ := good_execList encPrimsU_writer prog _ s' hw
      refine ⟨w, ?_, by simpa using e1⟩
      have h0 : ({ bits := [], vals := [v] } : St) = St.setBits { bits := pre, vals := [v] } [] := rfl
      unfold encodeSubsetC exec
      rw [h0, l []]; simp
  · rintro ⟨b0, e, rfl⟩
    unfold encodeSubsetC exec at e
    cases hw : execList encPrimsU prog { bits := [], vals := [v] } with
    | error err => rw [hw] at e; cases e
    | ok s' =>
      rw [hw] at e; cases e
      obtain ⟨w, e1, l⟩ := good_execList encPrimsU_writer prog _ s' hw
      have h0 : ({ bits := pre, vals := [v] } : St) = St.setBits { bits := [], vals := [v] } pre := rfl
      unfold encodeSubsetC exec
      rw [h0, l pre]
      simp only [List.append_nil] at e1
      simp [e1]

theorem encodeSubsetsC_of_alone (prog : List Stmt) (ts : List (List Val × SubsetOut × Bits))
    (h : ∀ x ∈ ts, encodeSubsetC prog x.1 [] = .ok (x.2.1, x.2.2)) (pre : Bits) :
    encodeSubsetsC prog (ts.map (·.1)) pre
      = .ok (ts.map (·.2.1), ((ts.map (·.2.2)).reverse).flatten ++ pre) := by
  induction ts generalizing pre with
  | nil => rfl
  | cons x ts ih =>
    obtain ⟨v, o, w⟩ := x
    have hv := h (v, o, w) (by simp)
    have h1 : encodeSubsetC prog v pre = .ok (o, w ++ pre) := (encodeSubsetC_pre prog v pre o _).mpr ⟨w, hv, rfl⟩
    simp only [List.map_cons, encodeSubsetsC, h1, ih (fun y hy => h y (by simp [hy])) (w ++ pre)]
    simp

theorem encodeSubsetsC_alone_of (prog : List Stmt) (vs : List (List Val)) (pre : Bits) (outs : List SubsetOut) (b : Bits)
    (h : encodeSubsetsC prog vs pre = .ok (outs, b)) :
    ∃ ts : List (List Val × SubsetOut × Bits), ts.map (·.1) = vs ∧ ts.map (·.2.1) = outs ∧
      b = ((ts.map (·.2.2)).reverse).flatten ++ pre ∧
      ∀ x ∈ ts, encodeSubsetC prog x.1 [] = .ok (x.2.1, x.2.2) := by
  induction vs generalizing pre outs b with
  | nil =>
    simp only [encodeSubsetsC] at h
    cases h
    exact ⟨[], rfl, rfl, rfl, fun x hx => by simp at hx⟩
  | cons v vs ih =>
    simp only [encodeSubsetsC] at h
    cases h1 : encodeSubsetC prog v pre with
    | error err => rw [h1] at h; cases h
    | ok p =>
      obtain ⟨o, b1⟩ := p
      rw [h1] at h; simp only at h
      cases h2 : encodeSubsetsC prog vs b1 with
      | error err => rw [h2] at h; cases h
      | ok p2 =>
        obtain ⟨os, b2⟩ := p2
        rw [h2] at h; simp only at h
        cases h
        obtain ⟨w, hw, rfl⟩ := (encodeSubsetC_pre prog v pre o b1).mp h1
        obtain ⟨ts, hvs, hos, hb, hf⟩ := ih (w ++ pre) os _ h2
        refine ⟨(v, o, w) :: ts, by simp [hvs], by simp [hos], by simp [hb], ?_⟩
        intro x hx
        rcases List.mem_cons.mp hx with rfl | hx
        · exact hw
        · exact hf x hx

end Bufr
