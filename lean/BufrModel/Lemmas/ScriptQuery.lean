/-
  Bridge between the query model (`View/Query.lean`) and the script model (`Lang/Script.lean`), with the helper
  lemmas of `Props/C18Query.lean`: conversion of nested query values, `scriptResult` / `scriptValue`
  (`ScriptRunner.get_query_result` for a data query), `subsetAnswer` (what the querent computes for one subset,
  whatever the selector), facts about `mapIdx`.
-/
import BufrModel.Lang.Script
import BufrModel.View.Query
namespace Bufr.Script
open Bufr.Query Bufr.PathLang

mutual
/-- a nested value of the query result as the script sees it -/
def ofQV : QV → Script.Val Bufr.Val
  | .val v => .atom v
  | .list l => .list (ofQVs l)
def ofQVs : List QV → List (Script.Val Bufr.Val)
  | [] => []
  | q :: qs => ofQV q :: ofQVs qs
end

/-- `QueryResult.results.values()` of a result of the query model, in insertion order -/
def scriptResult (r : QResult) : Script.QueryResult Bufr.Val := r.allValues.map ofQVs

/-- `ScriptRunner.get_query_result` for a data query: `flatten_data_values(querent.query(msg, expr))` -/
def scriptValue (level : Nat) (m : QMsg) (p : Path) : CM (LevelTy Bufr.Val level) :=
  match query m p with
  | .error e => .error e
  | .ok r => .ok (flattenValues level (scriptResult r))

mutual
/-- `flatten_list` of the script model on converted values is `flatten_list` of the query model -/
theorem flat_ofQV : ∀ q : QV, (ofQV q).flat = flatten1 q
  | .val v => by simp [ofQV, Val.flat, flatten1]
  | .list l => by
    simp only [ofQV, Val.flat, flatten1]
    exact flattenList_ofQVs l
theorem flattenList_ofQVs : ∀ qs : List QV, flattenList (ofQVs qs) = flattenQV qs
  | [] => by simp [ofQVs, flattenList, flattenQV]
  | q :: qs => by
    simp only [ofQVs, flattenList, flattenQV]
    rw [flat_ofQV q, flattenList_ofQVs qs]
end

theorem reduceConcat_eq_flatten {α : Type} (vs : List (List α)) : reduceConcat vs = vs.flatten := by
  unfold reduceConcat
  have : ∀ (acc : List α) (l : List (List α)), l.foldl (· ++ ·) acc = acc ++ l.flatten := by
    intro acc l
    induction l generalizing acc with
    | nil => simp
    | cons x xs ih => simp [List.foldl_cons, ih, List.append_assoc]
  simpa using this [] vs

theorem allValuesFlat_scriptResult (r : QResult) : allValuesFlat (scriptResult r) = r.allValuesFlat := by
  unfold allValuesFlat scriptResult QResult.allValues QResult.allValuesFlat
  rw [List.map_map, List.map_map]
  apply List.map_congr_left
  intro p _
  exact flattenList_ofQVs p.2

/-- level 4 / level 2 of a query result with their list types spelled out -/
def level4 (r : QResult) : List (List (Script.Val Bufr.Val)) := flattenValues 4 (scriptResult r)
def level2 (r : QResult) : List (List Bufr.Val) := flattenValues 2 (scriptResult r)
def level1 (r : QResult) : List Bufr.Val := flattenValues 1 (scriptResult r)
def level0 (r : QResult) : Option Bufr.Val := flattenValues 0 (scriptResult r)

theorem uncompressedSubset_key (m : QMsg) (comps : List Comp) (i : Nat) (b : Nat × List QV)
    (h : uncompressedSubset m comps i = .ok b) : b.1 = i := by
  unfold uncompressedSubset at h
  repeat' split at h
  all_goals (cases h; try rfl)

theorem compressedSubset_key (m : QMsg) (hits : List Hit) (i : Nat) (b : Nat × List QV)
    (h : compressedSubset m hits i = .ok b) : b.1 = i := by
  unfold compressedSubset at h
  repeat' split at h
  all_goals (cases h; try rfl)

theorem mapIdx_keys {β : Type} (f : Nat → CM (Nat × β)) (hkey : ∀ i b, f i = .ok b → b.1 = i) :
    ∀ (l : List Nat) (rs : List (Nat × β)), mapIdx f l = .ok rs → rs.map (·.1) = l
  | [], rs, h => by
    simp only [mapIdx] at h
    cases h; rfl
  | i :: is, rs, h => by
    simp only [mapIdx] at h
    split at h
    · cases h
    · next b hb =>
      split at h
      · cases h
      · next bs hbs =>
        cases h
        simp only [List.map_cons]
        rw [hkey i b hb, mapIdx_keys f hkey is bs hbs]

/-- what the querent computes for subset `i`, whatever the selector: uncompressed data filter the tree of the
    subset, compressed data filter the shared tree once and read the values of subset `i` -/
def subsetAnswer (m : QMsg) (comps : List Comp) (i : Nat) : CM (Nat × List QV) :=
  if m.compressed then
    match m.trees[0]?, m.outs[0]? with
    | some t, some o0 =>
      (match processOne o0.descs t comps with
       | .error e => .error e
       | .ok hits => compressedSubset m hits i)
    | _, _ => .error .other
  else uncompressedSubset m comps i

theorem mapIdx_congr' {β : Type} (f g : Nat → CM β) : ∀ (l : List Nat), (∀ i ∈ l, f i = g i) → mapIdx f l = mapIdx g l
  | [], _ => rfl
  | i :: is, h => by
    simp only [mapIdx]
    rw [h i (List.mem_cons_self ..), mapIdx_congr' f g is (fun j hj => h j (List.mem_cons_of_mem _ hj))]

theorem subsetAnswer_key (m : QMsg) (comps : List Comp) (i : Nat) (b : Nat × List QV)
    (h : subsetAnswer m comps i = .ok b) : b.1 = i := by
  unfold subsetAnswer at h
  split at h
  · split at h
    · split at h
      · cases h
      · exact compressedSubset_key m _ i b h
    · cases h
  · exact uncompressedSubset_key m comps i b h

theorem mapIdx_getElem {β : Type} (f : Nat → CM β) :
    ∀ (l : List Nat) (rs : List β), mapIdx f l = .ok rs →
      rs.length = l.length ∧ ∀ (k : Nat) (hk : k < l.length) (hk' : k < rs.length), f l[k] = .ok rs[k]
  | [], rs, h => by
    simp only [mapIdx] at h
    cases h
    exact ⟨rfl, fun k hk => absurd hk (Nat.not_lt_zero k)⟩
  | i :: is, rs, h => by
    simp only [mapIdx] at h
    split at h
    · cases h
    · next b hb =>
      split at h
      · cases h
      · next bs hbs =>
        cases h
        obtain ⟨hl, hg⟩ := mapIdx_getElem f is bs hbs
        refine ⟨by simp [hl], ?_⟩
        intro k hk hk'
        cases k with
        | zero => simpa using hb
        | succ k =>
          simp only [List.getElem_cons_succ]
          exact hg k (by simpa using hk) (by simpa using hk')

end Bufr.Script
