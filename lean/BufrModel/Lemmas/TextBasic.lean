/-
  Helper lemmas for the text formats (C09): the Python string primitives of View/Text.lean
  (strip, lstrip, startswith, rsplit, rfind, the number formats) on the shapes of lines the renderers emit.
-/
import BufrModel.View.Text
namespace Bufr.C09T
open Bufr

/-! ### dropWhile / takeWhile over an append -/

theorem dropWhile_append_head {α : Type} (p : α → Bool) (y : α) (hy : p y = false) :
    ∀ (X Y : List α), (X ++ y :: Y).dropWhile p = X.dropWhile p ++ y :: Y
  | [], Y => by simp [List.dropWhile, hy]
  | x :: xs, Y => by
    cases hx : p x
    · simp [List.dropWhile, hx]
    · simp [List.dropWhile, hx, dropWhile_append_head p y hy xs Y]

theorem dropWhile_all {α : Type} (p : α → Bool) : ∀ (l : List α), (∀ x ∈ l, p x = true) → l.dropWhile p = []
  | [], _ => rfl
  | x :: xs, h => by
    have hx : p x = true := h x (by simp)
    simp [List.dropWhile, hx, dropWhile_all p xs (fun y hy => h y (by simp [hy]))]

theorem mem_dropWhile {α : Type} (p : α → Bool) : ∀ (l : List α) (x : α), x ∈ l.dropWhile p → x ∈ l
  | [], _, h => by simp at h
  | y :: ys, x, h => by
    cases hy : p y
    · simpa [List.dropWhile, hy] using h
    · simp only [List.dropWhile, hy] at h
      exact List.mem_cons_of_mem _ (mem_dropWhile p ys x h)

theorem takeWhile_append_stop {α : Type} (p : α → Bool) (y : α) (hy : p y = false) :
    ∀ (X Y : List α), (∀ x ∈ X, p x = true) → (X ++ y :: Y).takeWhile p = X
  | [], Y, _ => by simp [hy]
  | x :: xs, Y, h => by
    have hx : p x = true := h x (by simp)
    simp [hx, takeWhile_append_stop p y hy xs Y (fun z hz => h z (by simp [hz]))]

/-! ### strip -/

theorem pyRstrip_nil : pyRstrip [] = [] := rfl

/-- white space at the end is removed up to the last character that is not white space -/
theorem pyRstrip_keep (A m : Line) (c : Char) (hc : isPySpace c = false) :
    pyRstrip (A ++ c :: m) = A ++ c :: pyRstrip m := by
  unfold pyRstrip
  have : (A ++ c :: m).reverse = m.reverse ++ c :: A.reverse := by simp
  rw [this, dropWhile_append_head isPySpace c hc]
  simp

theorem pyRstrip_concat (A : Line) (c : Char) (hc : isPySpace c = false) : pyRstrip (A ++ [c]) = A ++ [c] := by
  rw [pyRstrip_keep A [] c hc, pyRstrip_nil]

/-- `line.strip().lstrip('. ')` of an indented line: the indentation (blanks and dots) goes, the rest stays
    up to trailing white space -/
theorem norm_cons (indent m : Line) (c : Char) (hi : ∀ x ∈ indent, isDotSpace x = true)
    (hc : isPySpace c = false) (hd : isDotSpace c = false) :
    lstripDotSpace (pyStrip (indent ++ c :: m)) = c :: pyRstrip m := by
  unfold pyStrip pyLstrip lstripDotSpace
  rw [dropWhile_append_head isPySpace c hc, pyRstrip_keep _ _ c hc, dropWhile_append_head isDotSpace c hd]
  rw [dropWhile_all isDotSpace _ (fun x hx => hi x (mem_dropWhile isPySpace indent x hx))]
  rfl

/-! ### startswith -/

theorem startsWith_cons (a b : Char) (p l : Line) : startsWith (a :: p) (b :: l) = (a == b && startsWith p l) := by
  simp [startsWith, List.isPrefixOf]

theorem startsWith_nil_left (l : Line) : startsWith [] l = true := by simp [startsWith]

theorem startsWith_head_ne (a b : Char) (p l : Line) (h : a ≠ b) : startsWith (a :: p) (b :: l) = false := by
  rw [startsWith_cons]; simp [h]

theorem startsWith_append (p r : Line) : startsWith p (p ++ r) = true := by
  induction p with
  | nil => exact startsWith_nil_left _
  | cons a p ih => rw [List.cons_append, startsWith_cons]; simp [ih]

/-! ### rsplit / rfind -/

theorem lastToken_append (pre tok : Line) (h : ∀ c ∈ tok, c ≠ ' ') : lastToken (pre ++ ' ' :: tok) = tok := by
  unfold lastToken
  have : (pre ++ ' ' :: tok).reverse = tok.reverse ++ ' ' :: pre.reverse := by simp
  rw [this, takeWhile_append_stop (fun c => c != ' ') ' ' (by simp)]
  · simp
  · intro x hx
    have := h x (List.mem_reverse.mp hx)
    simp [this]

theorem pyRfind_append (sub : Line) : ∀ (pre s : Line) (i : Nat), pyRfind sub s = some i →
    pyRfind sub (pre ++ s) = some (pre.length + i)
  | [], s, i, h => by simpa using h
  | p :: pre, s, i, h => by
    rw [List.cons_append, pyRfind, pyRfind_append sub pre s i h]
    simp only [List.length_cons]
    congr 1
    omega

/-! ### the text handed to `ast.literal_eval` -/

/-- shape of a token that is not the repr of bytes: no blank inside, does not end in a quote -/
def PlainTok (tok : Line) : Prop :=
  (∀ c ∈ tok, c ≠ ' ') ∧ ∀ c, tok.getLast? = some c → c ≠ '"' ∧ c ≠ '\''

/-- shape of the repr of bytes: `b<q>...<q>` with `q` one of the two quotes and no ` b<q>` before the closing quote -/
def BytesTok (tok : Line) : Prop :=
  ∃ q mid, (q = '"' ∨ q = '\'') ∧ tok = 'b' :: q :: mid ++ [q] ∧ pyRfind [' ', 'b', q] ('b' :: q :: mid) = none

theorem getLast?_append_cons_concat (pre : Line) (x : Char) (t0 : Line) (tl : Char) :
    (pre ++ x :: (t0 ++ [tl])).getLast? = some tl := by
  have : pre ++ x :: (t0 ++ [tl]) = (pre ++ x :: t0) ++ [tl] := by simp
  rw [this, List.getLast?_concat]

theorem dropLast_append_cons_concat (pre : Line) (x : Char) (t0 : Line) (tl : Char) :
    (pre ++ x :: (t0 ++ [tl])).dropLast = pre ++ x :: t0 := by
  have : pre ++ x :: (t0 ++ [tl]) = (pre ++ x :: t0) ++ [tl] := by simp
  rw [this, List.dropLast_concat]

theorem ntToken_plain (pre tok : Line) (hne : tok ≠ []) (h : PlainTok tok) : ntToken (pre ++ ' ' :: tok) = tok := by
  obtain ⟨t0, tl, rfl⟩ : ∃ t0 tl, tok = t0 ++ [tl] := ⟨tok.dropLast, tok.getLast hne, (List.dropLast_concat_getLast hne).symm⟩
  have hq := h.2 tl (by simp)
  unfold ntToken
  rw [getLast?_append_cons_concat]
  have : quoteChars.contains tl = false := by
    simp only [quoteChars, List.contains_cons, List.contains_nil, Bool.or_false, Bool.or_eq_false_iff, beq_eq_false_iff_ne, ne_eq]
    exact ⟨hq.1, hq.2⟩
  simp only [this, Bool.not_false, if_true]
  exact lastToken_append pre _ h.1

theorem ntToken_bytes (pre tok : Line) (h : BytesTok tok) : ntToken (pre ++ ' ' :: tok) = tok := by
  obtain ⟨q, mid, hq, rfl, hfind⟩ := h
  unfold ntToken
  have e : pre ++ ' ' :: ('b' :: q :: mid ++ [q]) = pre ++ ' ' :: (('b' :: q :: mid) ++ [q]) := by simp
  rw [e, getLast?_append_cons_concat, dropLast_append_cons_concat]
  have hc : quoteChars.contains q = true := by
    rcases hq with rfl | rfl <;> decide
  simp only [hc, Bool.not_true]
  have h0 : pyRfind [' ', 'b', q] (' ' :: 'b' :: q :: mid) = some 0 := by
    rw [pyRfind, hfind]
    simp [List.isPrefixOf]
  rw [if_neg (by simp), pyRfind_append _ pre _ 0 h0]
  simp

/-! ### numbers -/

def digitChars : List Char := ['0', '1', '2', '3', '4', '5', '6', '7', '8', '9']

theorem digitChar_mem (k : Nat) (h : k < 10) : Nat.digitChar k ∈ digitChars := by
  have : ∀ k, k < 10 → Nat.digitChar k ∈ digitChars := by decide
  exact this k h

theorem natStr_digits : ∀ (n : Nat) (c : Char), c ∈ natStr n → c ∈ digitChars := by
  intro n
  induction n using Nat.strongRecOn with
  | _ n ih =>
    intro c hc
    unfold natStr at hc
    rw [Nat.toDigits_eq_if (by decide)] at hc
    split at hc
    · next h =>
      simp only [List.mem_singleton] at hc
      subst hc
      exact digitChar_mem n h
    · next h =>
      rw [List.mem_append] at hc
      rcases hc with hc | hc
      · exact ih (n / 10) (by omega) c hc
      · simp only [List.mem_singleton] at hc
        subst hc
        exact digitChar_mem _ (Nat.mod_lt _ (by decide))

theorem natStr_ne_nil (n : Nat) : natStr n ≠ [] := by unfold natStr; simp

theorem zpad_digits (w n : Nat) (c : Char) (h : c ∈ zpad w n) : c ∈ digitChars := by
  unfold zpad at h
  simp only [List.mem_append, List.mem_replicate] at h
  rcases h with ⟨_, rfl⟩ | h
  · decide
  · exact natStr_digits n c h

theorem zpad_ne_nil (w n : Nat) : zpad w n ≠ [] := by
  unfold zpad
  simp [natStr_ne_nil]

theorem zpad_cons (w n : Nat) : ∃ c cs, zpad w n = c :: cs ∧ c ∈ digitChars := by
  cases h : zpad w n with
  | nil => exact absurd h (zpad_ne_nil w n)
  | cons c cs => exact ⟨c, cs, rfl, zpad_digits w n c (by rw [h]; simp)⟩

/-- the first character of a descriptor string: a digit or one of the class letters -/
def headChars : List Char := digitChars ++ ['A', 'S', 'T', 'F', 'D', 'R', 'M']

theorem markerChar_mem (op : Nat) : markerChar op ∈ ['T', 'F', 'D', 'R', 'M'] := by
  unfold markerChar
  split
  · simp
  · split
    · simp
    · split
      · simp
      · split <;> simp

theorem descStr_cons (d : DDesc) : ∃ c cs, descStr d = c :: cs ∧ c ∈ headChars ∧ (c = 'A' ↔ d.isAssoc = true) := by
  have hA : ∀ c, c ∈ digitChars → c ≠ 'A' := by decide
  cases d with
  | plain e =>
    obtain ⟨c, cs, h, hc⟩ := zpad_cons 6 e.id
    exact ⟨c, cs, by simp [descStr, h], by simp [headChars, hc], by simp [DDesc.isAssoc, hA c hc]⟩
  | assoc id n => exact ⟨'A', zpad 5 id, rfl, by decide, by simp [DDesc.isAssoc]⟩
  | skipped id n => exact ⟨'S', zpad 5 id, rfl, by decide, by simp [DDesc.isAssoc]⟩
  | marker op e =>
    refine ⟨markerChar op, zpad 5 e.id, rfl, ?_, ?_⟩
    · have := markerChar_mem op
      simp only [headChars, List.mem_append]
      right
      simp only [List.mem_cons] at this ⊢
      rcases this with h | h | h | h | h
      · simp [h]
      · simp [h]
      · simp [h]
      · simp [h]
      · simp at h
        simp [h]
    · have := markerChar_mem op
      simp only [DDesc.isAssoc]
      constructor
      · intro h
        rw [h] at this
        simp at this
      · intro h; cases h
  | oper id =>
    obtain ⟨c, cs, h, hc⟩ := zpad_cons 6 id
    exact ⟨c, cs, by simp [descStr, h], by simp [headChars, hc], by simp [DDesc.isAssoc, hA c hc]⟩

/-- what the converters need to know about the first character of a descriptor string -/
theorem headChars_facts (c : Char) (h : c ∈ headChars) :
    isPySpace c = false ∧ isDotSpace c = false ∧ c ≠ '#' ∧ c ≠ '-' ∧ c ≠ '<' ∧ c ≠ ' ' := by
  have : ∀ c ∈ headChars, isPySpace c = false ∧ isDotSpace c = false ∧ c ≠ '#' ∧ c ≠ '-' ∧ c ≠ '<' ∧ c ≠ ' ' := by decide
  exact this c h

theorem digitChars_no_blank (c : Char) (h : c ∈ digitChars) : c ≠ ' ' := by
  have : ∀ c ∈ digitChars, c ≠ ' ' := by decide
  exact this c h

/-! ### the fixed-width columns of the flat text -/

theorem length_fixedWidth (n w : Nat) : (fixedWidth n w).length = w := by
  unfold fixedWidth
  simp only
  split
  · simp
  · simp only [List.length_append, List.length_replicate]; omega

theorem length_padTrunc (w : Nat) (s : Line) : (padTrunc w s).length = w := by
  unfold padTrunc
  simp only [List.length_append, List.length_replicate, List.length_take]
  omega

def indexChars : List Char := ' ' :: '*' :: digitChars

theorem fixedWidth_chars (n w : Nat) (c : Char) (h : c ∈ fixedWidth n w) : c ∈ indexChars := by
  unfold fixedWidth at h
  simp only at h
  split at h
  · simp only [List.mem_replicate] at h
    simp [indexChars, h.2]
  · simp only [List.mem_append, List.mem_replicate] at h
    rcases h with ⟨_, rfl⟩ | h
    · simp [indexChars]
    · simp [indexChars, natStr_digits n c h]

end Bufr.C09T

namespace Bufr.C09T
open Bufr

/-! ### the hypotheses on the value tokens -/

/-- a token is not empty and has no (Python) white space at either end: `strip()` leaves it alone -/
def EdgesOK (tok : Line) : Prop :=
  tok ≠ [] ∧ (∀ c, tok.head? = some c → isPySpace c = false) ∧ (∀ c, tok.getLast? = some c → isPySpace c = false)

/-- What the theorems about the text formats assume of Python's `repr` and `ast.literal_eval` for ONE flat
    value `v` (tested by the harness on every value it meets):
    the token evaluates back to the value; the tuple token of a flag table value evaluates to a tuple whose
    first item is the value; neither has white space at its ends; the repr of bytes is `b<q>...<q>` with no
    ` b<q>` inside; every other token holds no blank and does not end in a quote. -/
structure ReprOK (env : TextEnv) (ev : Line → Option PyLit) (v : Val) : Prop where
  eval_repr : ev (env.reprV v) = some (.val v)
  eval_flag : ∀ bits, ev (env.reprFlag v bits) = some (.tuple v)
  edges : EdgesOK (env.reprV v)
  flag_edges : ∀ bits, EdgesOK (env.reprFlag v bits)
  bytes_tok : ∀ b, v = .bytes b → BytesTok (env.reprV v)
  plain_tok : (∀ b, v ≠ .bytes b) → PlainTok (env.reprV v)

/-- The part of `ReprOK` the NESTED text needs (it never prints the tuple token of a flag table value): the token
    evaluates back to the value, has no white space at its ends, and has the shape of a bytes token / a plain token. -/
structure ReprCore (env : TextEnv) (ev : Line → Option PyLit) (v : Val) : Prop where
  eval_repr : ev (env.reprV v) = some (.val v)
  edges : EdgesOK (env.reprV v)
  bytes_tok : ∀ b, v = .bytes b → BytesTok (env.reprV v)
  plain_tok : (∀ b, v ≠ .bytes b) → PlainTok (env.reprV v)

theorem ReprOK.core {env : TextEnv} {ev : Line → Option PyLit} {v : Val} (h : ReprOK env ev v) : ReprCore env ev v :=
  ⟨h.eval_repr, h.edges, h.bytes_tok, h.plain_tok⟩

theorem pyStrip_edges (tok : Line) (h : EdgesOK tok) : pyStrip tok = tok := by
  obtain ⟨hne, hh, hl⟩ := h
  obtain ⟨t0, tl, rfl⟩ : ∃ t0 tl, tok = t0 ++ [tl] := ⟨tok.dropLast, tok.getLast hne, (List.dropLast_concat_getLast hne).symm⟩
  have hl' := hl tl (by simp)
  unfold pyStrip pyLstrip
  cases t0 with
  | nil =>
    have : List.dropWhile isPySpace ([] ++ [tl]) = [tl] := by simp [hl']
    rw [this]
    exact pyRstrip_concat [] tl hl'
  | cons a t =>
    have ha := hh a (by simp)
    have : List.dropWhile isPySpace (a :: t ++ [tl]) = a :: t ++ [tl] := by simp [ha]
    rw [this]
    exact pyRstrip_concat _ tl hl'

theorem modifyLast_concat {α : Type} (f : List α → List α) : ∀ (pre : List (List α)) (cur : List α),
    modifyLast f (pre ++ [cur]) = some (pre ++ [f cur])
  | [], cur => rfl
  | p :: pre, cur => by
    have ih := modifyLast_concat f pre cur
    cases h : pre ++ [cur] with
    | nil => simp at h
    | cons y r =>
      rw [h] at ih
      rw [List.cons_append, h, modifyLast, ih]
      rfl

end Bufr.C09T
