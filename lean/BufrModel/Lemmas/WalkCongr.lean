/-
  The template walk looks at `Prims.codeflag` only at arguments `(dd, n)` where `n` is the width the (pseudo) descriptor
  `dd` itself carries (`DDesc.width`): two primitive sets that agree there (and on everything else) give the same walk.
-/
import BufrModel.Coder.DecodeWidths
import BufrModel.Lemmas.CompilerFrame
namespace Bufr

/-- two primitive sets that agree everywhere except possibly on `codeflag` calls whose width argument is not the
    descriptor's own width -/
structure Prims.AgreeCF (P Q : Prims) : Prop where
  numeric : P.numeric = Q.numeric
  string : P.string = Q.string
  codeflag : ∀ dd n, dd.width = some n → P.codeflag dd n = Q.codeflag dd n
  newRefval : P.newRefval = Q.newRefval
  constant : P.constant = Q.constant
  factorValue : P.factorValue = Q.factorValue
  lastValues : P.lastValues = Q.lastValues

section congr
variable {P Q : Prims} (h : P.AgreeCF Q)
include h

theorem associatedField_congr (id : Nat) : associatedField P id = associatedField Q id := by
  funext s
  simp only [associatedField]
  exact congrFun (h.codeflag _ _ rfl) s

theorem elementDescriptor_congr (dd : DDesc) (e : Elem) (hdd : dd.width = some e.nbits) :
    elementDescriptor P dd e = elementDescriptor Q dd e := by
  funext s
  simp only [elementDescriptor, associatedField_congr h, h.numeric, h.string, h.codeflag dd e.nbits hdd]

theorem bitmappedDescriptor_congr (opId : Nat) : bitmappedDescriptor P opId = bitmappedDescriptor Q opId := by
  funext s
  simp only [bitmappedDescriptor]
  cases nextBitmapped s with
  | error e => rfl
  | ok p =>
    obtain ⟨⟨owner, be⟩, s1⟩ := p
    simp only [bind, Except.bind]
    exact congrFun (elementDescriptor_congr h _ _ rfl) _

theorem operatorDescriptor_congr (id : Nat) : operatorDescriptor P id = operatorDescriptor Q id := by
  funext s
  simp only [operatorDescriptor, associatedField_congr h, bitmappedDescriptor_congr h, h.string, h.constant]

theorem bitmapDefinition_congr (id : Nat) : bitmapDefinition P id = bitmapDefinition Q id := by
  funext s
  simp only [bitmapDefinition, h.lastValues]

end congr

mutual
theorem walkList_congr {P Q : Prims} (h : P.AgreeCF Q) : (t : List Desc) → walkList P t = walkList Q t
  | [] => by funext s; rw [walkList, walkList]
  | d :: ds => by
    funext s
    rw [walkList, walkList, walk1_congr h d, walkList_congr h ds]

theorem walk1_congr {P Q : Prims} (h : P.AgreeCF Q) : (d : Desc) → walk1 P d = walk1 Q d
  | .elem e => by
    funext s
    simp only [walk1, h.newRefval, h.codeflag (.skipped _ _) _ rfl, bitmapDefinition_congr h,
      elementDescriptor_congr h (.plain e) e rfl]
  | .fixedRep id ms => by
    funext s
    simp only [walk1, h.newRefval, h.codeflag (.skipped _ _) _ rfl, bitmapDefinition_congr h, walkList_congr h ms]
  | .delayedRep id f ms => by
    funext s
    cases f with
    | elem fe =>
      simp only [walk1, h.newRefval, h.codeflag (.skipped _ _) _ rfl, bitmapDefinition_congr h,
        elementDescriptor_congr h (.plain fe) fe rfl, h.factorValue, walkList_congr h ms]
    | _ => simp only [walk1, h.newRefval, h.codeflag (.skipped _ _) _ rfl, bitmapDefinition_congr h]
  | .op id => by
    funext s
    simp only [walk1, h.newRefval, h.codeflag (.skipped _ _) _ rfl, bitmapDefinition_congr h, operatorDescriptor_congr h]
  | .seq id ms => by
    funext s
    simp only [walk1, h.newRefval, h.codeflag (.skipped _ _) _ rfl, bitmapDefinition_congr h, walkList_congr h ms]
  | .undefElem id => by
    funext s
    simp only [walk1, h.newRefval, h.codeflag (.skipped _ _) _ rfl, bitmapDefinition_congr h]
  | .undefSeq id => by
    funext s
    simp only [walk1, h.newRefval, h.codeflag (.skipped _ _) _ rfl, bitmapDefinition_congr h]
end


theorem agreeCF_decPrimsCD : decPrimsCD.AgreeCF decPrimsC where
  numeric := rfl
  string := rfl
  codeflag dd n hw := by
    funext s
    show decCodeflagCD dd n s = decCodeflagC dd n s
    simp only [decCodeflagCD, decCodeflagC, hw, Option.getD_some]
  newRefval := rfl
  constant := rfl
  factorValue := rfl
  lastValues := rfl

/-! ### the literal code/flag reader satisfies the frame law of C08 (it neither reads nor writes the operator registers) -/

open C08 in
theorem frame_decCodeflagCD (dd n) (g : Regs → Regs) (s : St) :
    decCodeflagCD dd n (s.setRegs g) = mapSt g (decCodeflagCD dd n s) := by
  simp only [decCodeflagCD]; frame_unfold
  cases readColumn n s.vals.length s.bits <;> rfl

open C08 in
theorem frame_decPrimsCD : Frame decPrimsCD where
  numeric := frame_decNumericC
  string := frame_decStringC
  codeflag := frame_decCodeflagCD
  constant := frame_decConstant
  newRefval := frame_decNewRefvalC
  newRefval_regs := regs_decNewRefvalC
  factorValue := fun _ _ => rfl
  lastValues := fun _ _ _ => rfl

end Bufr
