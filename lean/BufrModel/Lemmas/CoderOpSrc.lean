/-
  The source tie of the operator dispatch: the function generated from `coder.py: Coder.process_operator_descriptor`
  (`Gen/PyCoder.lean`, regenerated on every check) against `Coder/Walk.lean: operatorDescriptor`.

  The Python method works on a `state` object (registers + flat lists) and a bit reader / writer, and calls
  methods of the coder that are not translated (`process_string`, `process_constant`,
  `process_marker_operator_descriptor`): in the generated function these are the fields of a structure of
  callbacks, each taking and returning `(state, bit_operator)` in `Except Py.Exc` — exactly as the model's walk is
  parametric in its primitives `Prims`.

  * `AbsSt φ A ps b s` — the Python world `(ps, b)` stands for the model state `s`: the registers through `Rep`
    (`Lemmas/CoderSrc.lean`, explicit), the number of decoded descriptors, and ANY relation `A` between the
    non-register attributes (`dataOf ps`), the bit operator and the non-register part of `s` (`s.data`).
  * `Corr φ A x y` — a result of the generated function and a result of the model agree: both return and the
    states correspond, or both fail and the Python exception is of the model's error class (`excClass`).
  * `CbCorr φ A cb P` — the callbacks correspond to the primitives: on corresponding states they give
    corresponding results.
-/
import BufrModel.Lemmas.CoderSrc
import BufrModel.Gen.PyDescriptors
set_option linter.unusedSimpArgs false
set_option linter.unusedVariables false
set_option maxRecDepth 8000
namespace Bufr
open PyGen.coder

variable {D V B : Type}

/-- The error class of the model for a Python exception that escapes the translated code.  `PyBufrKitError`
    is the library's own error (`lib`), `UnknownDescriptor` its subclass for undefined descriptors; EVERYTHING
    else — in `process_operator_descriptor`: the `IndexError` of `204000` on an empty stack (`[].pop()`), the
    `TypeError` of `237000` with no bitmap ever defined (`iter(None)`), the `NotImplementedError` of an operator
    that is not implemented — is an accidental exception, which the model deliberately maps to `other`. -/
def excClass : Py.Exc → Err
  | .raised cls => if cls = "PyBufrKitError" then .lib else if cls = "UnknownDescriptor" then .unknownDescr else .other
  | _ => .other

/-- the part of the model state that is not the register file -/
structure StData where
  bits : Bits
  descs : List DDesc
  vals : List (List Val)
  idx : Nat
  links : List (Nat × Nat)
  aux : List Val
  forced : List (Nat × List Val)

def St.data (s : St) : StData :=
  { bits := s.bits, descs := s.descs, vals := s.vals, idx := s.idx, links := s.links, aux := s.aux, forced := s.forced }

/-- the Python state and bit operator stand for the model state -/
def AbsSt (φ : D → Elem) (A : PyData D V → B → StData → Prop) (ps : CoderState.Self D V) (b : B) (s : St) : Prop :=
  Rep φ ps s.regs ∧ ps.decoded_descriptors.length = s.descs.length ∧ A (dataOf ps) b s.data

/-- agreement of a result of the generated code with a result of the model -/
def Corr (φ : D → Elem) (A : PyData D V → B → StData → Prop) :
    Except Py.Exc (CoderState.Self D V × B) → CM St → Prop
  | .ok (ps', b'), .ok s' => AbsSt φ A ps' b' s'
  | .error e, .error e' => excClass e = e'
  | _, _ => False

/-- the model's `process_marker_operator_descriptor` (inlined in `operatorDescriptor`) -/
def markerOperator (P : Prims) (id : Nat) (s : St) : CM St := do
  let s1 ← (if s.regs.assocStack ≠ [] then associatedField P id s else pure s)
  bitmappedDescriptor P id s1

/-- The callbacks of the generated `process_operator_descriptor` correspond to the primitives of the model:
    on corresponding states, for an operator descriptor object with the id the model is given, results agree. -/
structure CbCorr (φ : D → Elem) (A : PyData D V → B → StData → Prop)
    (cb : Coder.process_operator_descriptor.Callbacks D V B) (P : Prims) : Prop where
  string : ∀ ps b s (d : OperatorDescriptor.Self) (id n : Nat), AbsSt φ A ps b s → d.id = id →
    Corr φ A (cb.process_string ps b d n) (P.string (.oper id) n s)
  constant : ∀ ps b s (d : OperatorDescriptor.Self) (id : Nat) (v : Int), AbsSt φ A ps b s → d.id = id →
    Corr φ A (cb.process_constant ps b d v) (P.constant (.oper id) v s)
  marker : ∀ ps b s (d : OperatorDescriptor.Self) (id : Nat), AbsSt φ A ps b s → d.id = id →
    Corr φ A (cb.process_marker_operator_descriptor ps b d) (markerOperator P id s)

/-- the operator descriptor object of id `id`: its two properties are the functions generated from
    `descriptors.py` (`Gen/PyDescriptors.lean`) -/
def opdOf (id : Nat) : OperatorDescriptor.Self :=
  { id := id,
    operator_code := PyGen.descriptors.OperatorDescriptor.operator_code ⟨id⟩,
    operand_value := PyGen.descriptors.OperatorDescriptor.operand_value ⟨id⟩ }

theorem opdOf_code (id : Nat) : (opdOf id).operator_code = ((id / 1000 : Nat) : Int) := by
  simp only [opdOf, PyGen.descriptors.OperatorDescriptor.operator_code, Int.ofNat_eq_natCast]
  rw [Int.fdiv_eq_ediv_of_nonneg _ (Int.natCast_nonneg 1000)]; rfl

theorem opdOf_operand (id : Nat) : (opdOf id).operand_value = ((id % 1000 : Nat) : Int) := by
  simp only [opdOf, PyGen.descriptors.OperatorDescriptor.operand_value, Int.ofNat_eq_natCast]
  rw [Int.fmod_eq_emod_of_nonneg _ (Int.natCast_nonneg 1000)]; rfl

theorem exc_pure {ε α : Type} (x : α) : (pure x : Except ε α) = .ok x := rfl
theorem exc_bind_ok {ε α β : Type} (x : α) (f : α → Except ε β) : (Except.ok x >>= f) = f x := rfl
theorem exc_bind_error {ε α β : Type} (e : ε) (f : α → Except ε β) : (Except.error e >>= f) = .error e := rfl

/-- a register-only step: the data and the bit operator are untouched -/
theorem absSt_setRegs {φ : D → Elem} {A : PyData D V → B → StData → Prop} {ps ps' : CoderState.Self D V} {b : B} {s : St}
    (h : AbsSt φ A ps b s) (f : Regs → Regs) (hd : dataOf ps' = dataOf ps) (hr : Rep φ ps' (f s.regs)) :
    AbsSt φ A ps' b (s.setRegs f) := by
  refine ⟨hr, ?_, ?_⟩
  · have := congrArg PyData.decoded_descriptors hd
    simp only [dataOf] at this
    rw [this]; exact h.2.1
  · rw [hd]; exact h.2.2

/-- well-formedness after an update that touches at most fields whose constraint is closed by `simp` / `omega` -/
macro "wf_step" hwf:ident : tactic => `(tactic| (
  simp only [WF] at $hwf:ident ⊢
  obtain ⟨w1, w2, w3, w4, w5, w6, w7, w8, w9, w10⟩ := $hwf:ident
  refine ⟨?_, ?_, ?_, ?_, ?_, ?_, ?_, ?_, ?_, ?_⟩ <;> first | assumption | omega | (simp; done)))

/-- a register-only branch: finish from `Rep` of the updated record -/
macro "rep_step" h:ident : tactic => `(tactic| (
  refine absSt_setRegs $h _ rfl ?_
  obtain ⟨hwf, nr, hr, href⟩ := ($h).1
  refine ⟨?_, nr, ?_, href⟩
  · wf_step hwf
  · rw [hr]; simp [regsOf]))

theorem exc_bind_eta {ε α β : Type} (x : Except ε (α × β)) : (x >>= fun p => Except.ok (p.1, p.2)) = x := by
  cases x <;> rfl
theorem exc_bind_eta' {ε α : Type} (x : Except ε α) : (x >>= fun p => Except.ok p) = x := by
  cases x <;> rfl

theorem corr_bind {φ : D → Elem} {A : PyData D V → B → StData → Prop}
    {x : Except Py.Exc (CoderState.Self D V × B)} {y : CM St} (hxy : Corr φ A x y)
    (f : CoderState.Self D V × B → Except Py.Exc (CoderState.Self D V × B)) (g : St → CM St)
    (hfg : ∀ ps' b' s', AbsSt φ A ps' b' s' → Corr φ A (f (ps', b')) (g s')) :
    Corr φ A (x >>= f) (y >>= g) := by
  cases x with
  | error e => cases y with
    | error e' => exact hxy
    | ok s' => exact hxy.elim
  | ok p => cases y with
    | error e' => exact hxy.elim
    | ok s' => exact hfg p.1 p.2 s' hxy

theorem opd_core (φ : D → Elem) (A : PyData D V → B → StData → Prop)
    (cb : Coder.process_operator_descriptor.Callbacks D V B) (P : Prims) (hcb : CbCorr φ A cb P)
    (id : Nat) (d : OperatorDescriptor.Self) (hid : d.id = id)
    (h1 : d.operator_code = ((id / 1000 : Nat) : Int)) (h2 : d.operand_value = ((id % 1000 : Nat) : Int))
    (ps : CoderState.Self D V) (b : B) (s : St) (h : AbsSt φ A ps b s) :
    Corr φ A (Coder.process_operator_descriptor cb ps b d) (operatorDescriptor P id s) := by
  unfold operatorDescriptor
  generalize id / 1000 = c at h1 ⊢
  generalize id % 1000 = y at h2 ⊢
  by_cases c201 : c = 201
  · subst c201
    simp [Coder.process_operator_descriptor, h1, h2, Corr, exc_pure, exc_bind_ok, exc_bind_error]
    rep_step h
  by_cases c202 : c = 202
  · subst c202
    simp [Coder.process_operator_descriptor, h1, h2, Corr, exc_pure, exc_bind_ok, exc_bind_error]
    rep_step h
  by_cases c203 : c = 203
  · subst c203
    by_cases y255 : y = 255
    · have e : (y : Int) = 255 := by omega
      simp [Coder.process_operator_descriptor, h1, h2, Corr, exc_pure, exc_bind_ok, exc_bind_error, e, y255]
      rep_step h
    have e255 : (y : Int) ≠ 255 := by omega
    by_cases y0 : y = 0
    · have e : (y : Int) = 0 := by omega
      simp [Coder.process_operator_descriptor, h1, h2, Corr, exc_pure, exc_bind_ok, exc_bind_error, CoderState.cancel_new_refvals, e, y0]
      refine absSt_setRegs h _ rfl ?_
      obtain ⟨hwf, nr, hr, href⟩ := h.1
      refine ⟨?_, [], ?_, refRel_nil⟩
      · wf_step hwf
      · rw [hr]; simp [regsOf]
    · have e0 : (y : Int) ≠ 0 := by omega
      simp [Coder.process_operator_descriptor, h1, h2, Corr, exc_pure, exc_bind_ok, exc_bind_error, y255, y0, e255, e0]
      rep_step h
  by_cases c204 : c = 204
  · subst c204
    by_cases y0 : y = 0
    · have e : (y : Int) = 0 := by omega
      obtain ⟨hwf, nr, hr, href⟩ := h.1
      by_cases hemp : ps.nbits_of_associated = []
      · have hm : s.regs.assocStack = [] := by rw [hr]; simp [regsOf, hemp]
        simp [Coder.process_operator_descriptor, h1, h2, Corr, exc_pure, exc_bind_ok, exc_bind_error, e, y0, Py.listPop, hemp, hm, excClass]
      · have hm : s.regs.assocStack ≠ [] := by rw [hr]; simp [regsOf, hemp]
        simp [Coder.process_operator_descriptor, h1, h2, Corr, exc_pure, exc_bind_ok, exc_bind_error, e, y0, Py.listPop, hemp, hm]
        refine absSt_setRegs h _ rfl ?_
        refine ⟨?_, nr, ?_, href⟩
        · simp only [WF] at hwf ⊢
          obtain ⟨w1, w2, w3, w4, w5, w6, w7, w8, w9, w10⟩ := hwf
          exact ⟨w1, fun x hx => w2 x (List.dropLast_subset _ hx), w3, w4, w5, w6, w7, w8, w9, w10⟩
        · rw [hr]; simp [regsOf, List.map_dropLast]
    · have e0 : (y : Int) ≠ 0 := by omega
      simp [Coder.process_operator_descriptor, h1, h2, Corr, exc_pure, exc_bind_ok, exc_bind_error, y0, e0]
      refine absSt_setRegs h _ rfl ?_
      obtain ⟨hwf, nr, hr, href⟩ := h.1
      refine ⟨?_, nr, ?_, href⟩
      · simp only [WF] at hwf ⊢
        obtain ⟨w1, w2, w3, w4, w5, w6, w7, w8, w9, w10⟩ := hwf
        refine ⟨w1, fun x hx => ?_, w3, w4, w5, w6, w7, w8, w9, w10⟩
        rcases List.mem_append.mp hx with hx | hx
        · exact w2 x hx
        · simp at hx; omega
      · rw [hr]; simp [regsOf]
  by_cases c205 : c = 205
  · subst c205
    have := hcb.string ps b s d id y h hid
    simp [Coder.process_operator_descriptor, h1, h2, exc_pure, exc_bind_ok, exc_bind_error]
    revert this
    cases cb.process_string ps b d y <;> cases P.string (.oper id) y s <;> simp [Corr, exc_pure, exc_bind_ok, exc_bind_error]
  by_cases c206 : c = 206
  · subst c206
    simp [Coder.process_operator_descriptor, h1, h2, Corr, exc_pure, exc_bind_ok, exc_bind_error]
    rep_step h
  by_cases c207 : c = 207
  · subst c207
    by_cases y0 : y = 0
    · have e : (y : Int) = 0 := by omega
      simp [Coder.process_operator_descriptor, h1, h2, Corr, exc_pure, exc_bind_ok, exc_bind_error, e, y0]
      refine absSt_setRegs h _ rfl ?_
      obtain ⟨hwf, nr, hr, href⟩ := h.1
      refine ⟨?_, nr, ?_, href⟩
      · simp only [WF] at hwf ⊢
        obtain ⟨w1, w2, w3, w4, w5, w6, w7, w8, w9, w10⟩ := hwf
        exact ⟨w1, w2, w3, ⟨by simp, by simp [bsrOf]⟩, w5, w6, w7, w8, w9, w10⟩
      · rw [hr]; simp [regsOf]
    · have e0 : (y : Int) ≠ 0 := by omega
      have hp : Py.powInt 10 (y : Int) = .ok (((10 ^ y : Nat) : Int)) := by
        simp [Py.powInt]
      have hd : Int.fdiv (10 * (y : Int) + 2) 3 = (((10 * y + 2) / 3 : Nat) : Int) := by
        rw [Int.fdiv_eq_ediv_of_nonneg _ (by omega)]; simp
      simp [Coder.process_operator_descriptor, h1, h2, Corr, exc_pure, exc_bind_ok, exc_bind_error, y0, e0, hp, hd]
      refine absSt_setRegs h _ rfl ?_
      obtain ⟨hwf, nr, hr, href⟩ := h.1
      refine ⟨?_, nr, ?_, href⟩
      · simp only [WF] at hwf ⊢
        obtain ⟨w1, w2, w3, w4, w5, w6, w7, w8, w9, w10⟩ := hwf
        exact ⟨w1, w2, w3, ⟨by simp, by simp [bsrOf]⟩, w5, w6, w7, w8, w9, w10⟩
      · rw [hr]; simp [regsOf]
  by_cases c208 : c = 208
  · subst c208
    simp [Coder.process_operator_descriptor, h1, h2, Corr, exc_pure, exc_bind_ok, exc_bind_error]
    rep_step h
  by_cases c221 : c = 221
  · subst c221
    simp [Coder.process_operator_descriptor, h1, h2, Corr, exc_pure, exc_bind_ok, exc_bind_error]
    rep_step h
  by_cases cfam : c = 222 ∨ c = 223 ∨ c = 224 ∨ c = 225 ∨ c = 232
  · by_cases y0 : y = 0
    · have e : (y : Int) = 0 := by omega
      have habs : AbsSt φ A
          (CoderState.mark_back_reference_boundary { ps with bitmap_definition_state := BITMAP_INDICATOR }) b
          (s.setRegs fun r => { r with bitmapDef := .indicator, backBoundary := s.descs.length }) := by
        refine absSt_setRegs h _ rfl ?_
        obtain ⟨hwf, nr, hr, href⟩ := h.1
        refine ⟨?_, nr, ?_, href⟩
        · simp only [WF, CoderState.mark_back_reference_boundary] at hwf ⊢
          obtain ⟨w1, w2, w3, w4, w5, w6, w7, w8, w9, w10⟩ := hwf
          exact ⟨w1, w2, w3, w4, w5, w6, w7, by simp, w9, by simp⟩
        · rw [hr]; simp [regsOf, CoderState.mark_back_reference_boundary, h.2.1, bitmapDefOfTag]
      rcases cfam with rfl | rfl | rfl | rfl | rfl
      · simp [Coder.process_operator_descriptor, h1, h2, exc_pure, e, y0]
        refine corr_bind (hcb.constant _ b _ d id 0 habs hid) _ _ ?_
        intro ps' b' s' h'
        simp [Corr]
        refine absSt_setRegs h' _ rfl ?_
        obtain ⟨hwf, nr, hr, href⟩ := h'.1
        refine ⟨?_, nr, ?_, href⟩
        · simp only [WF] at hwf ⊢
          obtain ⟨w1, w2, w3, w4, w5, w6, w7, w8, w9, w10⟩ := hwf
          exact ⟨w1, w2, w3, w4, w5, w6, Or.inr (Or.inl rfl), w8, w9, w10⟩
        · rw [hr]; simp [regsOf, qaOfTag]
      all_goals
        simp [Coder.process_operator_descriptor, h1, h2, exc_pure, exc_bind_ok, exc_bind_eta, exc_bind_eta', e, y0]
        exact hcb.constant _ b _ d id 0 habs hid
    · have e0 : (y : Int) ≠ 0 := by omega
      have := hcb.marker ps b s d id h hid
      rcases cfam with rfl | rfl | rfl | rfl | rfl
      all_goals
        simp [Coder.process_operator_descriptor, h1, h2, exc_pure, exc_bind_ok, exc_bind_eta, exc_bind_eta', e0, y0]
        simpa [markerOperator, exc_pure] using this
  have i222 : (c : Int) ≠ 222 := by omega
  have i223 : (c : Int) ≠ 223 := by omega
  have i224 : (c : Int) ≠ 224 := by omega
  have i225 : (c : Int) ≠ 225 := by omega
  have i232 : (c : Int) ≠ 232 := by omega
  by_cases c235 : c = 235
  · subst c235
    simp [Coder.process_operator_descriptor, h1, h2, Corr, exc_pure, exc_bind_ok, exc_bind_error, CoderState.cancel_all_back_references]
    rep_step h
  by_cases c236 : c = 236
  · subst c236
    simp [Coder.process_operator_descriptor, h1, h2, exc_pure, exc_bind_ok, exc_bind_eta, exc_bind_eta']
    exact hcb.constant _ b _ d id 0 h hid
  by_cases c237 : c = 237
  · subst c237
    by_cases y0 : y = 0
    · have e : (y : Int) = 0 := by omega
      obtain ⟨hwf, nr, hr, href⟩ := h.1
      cases hb : ps.bitmapped_descriptors with
      | none =>
        have hm : s.regs.bitmapped = none := by rw [hr]; simp [regsOf, hb]
        simp [Coder.process_operator_descriptor, h1, h2, Corr, exc_pure, exc_bind_ok, exc_bind_error, e, y0,
          CoderState.recall_bitmap, Py.iterOpt, hb, hm, excClass]
      | some l =>
        have hm : s.regs.bitmapped = some (pairsOf φ l) := by rw [hr]; simp [regsOf, hb]
        simp [Coder.process_operator_descriptor, h1, h2, exc_pure, exc_bind_ok, exc_bind_error, exc_bind_eta, exc_bind_eta', e, y0,
          CoderState.recall_bitmap, Py.iterOpt, hb, hm]
        refine hcb.constant _ b _ d id 0 ?_ hid
        refine absSt_setRegs h _ rfl ?_
        refine ⟨?_, nr, ?_, href⟩
        · wf_step hwf
        · rw [hr]; simp [regsOf, hb]
    · have e0 : (y : Int) ≠ 0 := by omega
      by_cases hreuse : ps.most_recent_bitmap_is_for_reuse = true
      · simp [Coder.process_operator_descriptor, h1, h2, exc_pure, exc_bind_ok, exc_bind_error, exc_bind_eta, exc_bind_eta', e0, y0,
          CoderState.cancel_bitmap, hreuse]
        refine hcb.constant _ b _ d id 0 ?_ hid
        exact ⟨h.1, h.2.1, h.2.2⟩
      · simp [Coder.process_operator_descriptor, h1, h2, exc_pure, exc_bind_ok, exc_bind_error, exc_bind_eta, exc_bind_eta', e0, y0,
          CoderState.cancel_bitmap, hreuse]
        exact hcb.constant _ b _ d id 0 h hid
  · have i201 : (c : Int) ≠ 201 := by omega
    have i202 : (c : Int) ≠ 202 := by omega
    have i203 : (c : Int) ≠ 203 := by omega
    have i204 : (c : Int) ≠ 204 := by omega
    have i205 : (c : Int) ≠ 205 := by omega
    have i206 : (c : Int) ≠ 206 := by omega
    have i207 : (c : Int) ≠ 207 := by omega
    have i208 : (c : Int) ≠ 208 := by omega
    have i221 : (c : Int) ≠ 221 := by omega
    have i235 : (c : Int) ≠ 235 := by omega
    have i236 : (c : Int) ≠ 236 := by omega
    have i237 : (c : Int) ≠ 237 := by omega
    simp [Coder.process_operator_descriptor, h1, h2, Corr, exc_pure, exc_bind_ok, exc_bind_error, excClass, *]
/-! ### for the satisfiability examples -/

/-- primitives that always fail with `other` (for the satisfiability examples) -/
def failPrims : Prims := ⟨fun _ _ _ _ _ => .error .other, fun _ _ _ => .error .other, fun _ _ _ => .error .other, fun _ _ _ => .error .other,
    fun _ _ _ => .error .other, fun _ => .error .other, fun _ _ => .error .other⟩

theorem bind_fail {α β : Type} (x : CM α) (f : α → CM β) (hx : ∀ e, x = .error e → e = .other)
    (hf : ∀ a, f a = .error .other) : (x >>= f) = .error .other := by
  cases x with
  | error e => rw [hx e rfl]; rfl
  | ok a => exact hf a

theorem nextBitmapped_err (s : St) (e : Err) (h : nextBitmapped s = .error e) : e = .other := by
  unfold nextBitmapped at h
  split at h <;> first | (cases h; rfl) | cases h

theorem elem_fail (dd : DDesc) (e : Elem) (s : St) : elementDescriptor failPrims dd e s = .error .other := by
  unfold elementDescriptor
  refine bind_fail _ _ ?_ (fun s1 => bind_fail _ _ ?_ (fun s2 => ?_))
  · intro err h
    split at h
    · cases h; rfl
    · cases h
  · intro err h
    split at h
    · dsimp only at h
      generalize (if s1.regs.qa = QaStatus.waiting then _ else s1) = s1' at h
      split at h
      · cases hn : nextBitmapped s1' with
        | error e' => rw [hn] at h; cases h; exact nextBitmapped_err _ _ hn
        | ok p => rw [hn] at h; cases h
      · cases h
    · cases h
  · cases e.kind <;> simp only [failPrims]
    split <;> rfl

theorem marker_fail (id : Nat) (s : St) : markerOperator failPrims id s = .error .other := by
  unfold markerOperator
  refine bind_fail _ _ ?_ (fun s1 => ?_)
  · intro err h
    split at h
    · cases h; rfl
    · cases h
  · unfold bitmappedDescriptor
    refine bind_fail _ _ (nextBitmapped_err _) (fun p => elem_fail _ _ _)
end Bufr
