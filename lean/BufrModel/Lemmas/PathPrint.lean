/-
  Helper lemmas for C15, part 7: the recogniser reads back what `print` writes.
-/
import BufrModel.Lemmas.PathEquiv
import BufrModel.Lemmas.PathDigits
import BufrModel.Spec.PathCanonical
namespace Bufr.PathLang
open Spec

/-! ### list facts -/

theorem takeWhile_append_stop {p : Char → Bool} (w : List Char) (c : Char) (rest : List Char)
    (hw : ∀ x ∈ w, p x = true) (hc : p c = false) : (w ++ c :: rest).takeWhile p = w := by
  induction w with
  | nil => simp [hc]
  | cons a w ih =>
    simp only [List.cons_append, List.takeWhile_cons, hw a (by simp), if_true]
    rw [ih (fun x hx => hw x (by simp [hx]))]

theorem dropWhile_append_stop {p : Char → Bool} (w : List Char) (c : Char) (rest : List Char)
    (hw : ∀ x ∈ w, p x = true) (hc : p c = false) : (w ++ c :: rest).dropWhile p = c :: rest := by
  induction w with
  | nil => simp [hc]
  | cons a w ih =>
    simp only [List.cons_append, List.dropWhile_cons, hw a (by simp), if_true]
    exact ih (fun x hx => hw x (by simp [hx]))

theorem splitColon_nocolon (w : List Char) (h : ∀ c ∈ w, c ≠ ':') : splitColon w = [w] := by
  induction w with
  | nil => rfl
  | cons a w ih =>
    have ha : (a == ':') = false := by simpa using h a (by simp)
    simp only [splitColon, ih (fun c hc => h c (by simp [hc])), ha, Bool.false_eq_true, if_false]

theorem splitColon_append (w r : List Char) (h : ∀ c ∈ w, c ≠ ':') :
    splitColon (w ++ ':' :: r) = w :: splitColon r := by
  induction w with
  | nil =>
    simp only [List.nil_append, splitColon]
    cases hs : splitColon r with
    | nil => exact absurd hs (splitColon_ne_nil r)
    | cons p ps => simp
  | cons a w ih =>
    have ha : (a == ':') = false := by simpa using h a (by simp)
    simp only [List.cons_append, splitColon, ih (fun c hc => h c (by simp [hc])), ha, Bool.false_eq_true, if_false]

/-! ### slices -/

def sliceBody : Slice → List Char
  | .idx i => intStr i
  | .range a b c => optIntStr a ++ ':' :: (optIntStr b ++ ':' :: optIntStr c)

theorem sliceStr_eq (s : Slice) : sliceStr s = '[' :: (sliceBody s ++ [']']) := by
  cases s <;> simp [sliceStr, sliceBody]

theorem sliceBody_chars (s : Slice) : ∀ c ∈ sliceBody s, isIntChar c = true ∨ c = ':' := by
  intro c hc
  cases s with
  | idx i => exact Or.inl (intStr_chars i c hc)
  | range a b d =>
    simp only [sliceBody, List.mem_append, List.mem_cons] at hc
    rcases hc with hc | hc | hc | hc | hc
    · exact Or.inl (optIntStr_chars a c hc)
    · exact Or.inr hc
    · exact Or.inl (optIntStr_chars b c hc)
    · exact Or.inr hc
    · exact Or.inl (optIntStr_chars d c hc)

theorem intChar_ne_colon {c : Char} (h : isIntChar c = true) : c ≠ ':' := by
  intro hc; subst hc; revert h; decide

theorem intChar_ne_close {c : Char} (h : isIntChar c = true) : c ≠ ']' := by
  intro hc; subst hc; revert h; decide

theorem sliceOfBody_sliceBody (s : Slice) (hs : s.Canonical) : sliceOfBody (sliceBody s) = some s := by
  have hbad : (sliceBody s).any (fun c => isSpecial c && c != ':') = false := by
    rw [List.any_eq_false]
    intro c hc
    rcases sliceBody_chars s c hc with h | h
    · simp [isIntChar_not_special c h]
    · simp [h]
  unfold sliceOfBody
  simp only [hbad, Bool.false_eq_true, if_false]
  cases s with
  | idx i =>
    have hnc : ∀ c ∈ intStr i, c ≠ ':' := fun c hc => intChar_ne_colon (intStr_chars i c hc)
    simp only [sliceBody, splitColon_nocolon _ hnc, parseInt?_intStr, Option.map_some]
    have : 0 ≤ i := hs
    simp [this]
  | range a b c =>
    have ha : ∀ x ∈ optIntStr a, x ≠ ':' := fun x hx => intChar_ne_colon (optIntStr_chars a x hx)
    have hb : ∀ x ∈ optIntStr b, x ≠ ':' := fun x hx => intChar_ne_colon (optIntStr_chars b x hx)
    have hc : ∀ x ∈ optIntStr c, x ≠ ':' := fun x hx => intChar_ne_colon (optIntStr_chars c x hx)
    simp only [sliceBody, splitColon_append _ _ ha, splitColon_append _ _ hb, splitColon_nocolon _ hc,
      optInt?_optIntStr]
    rfl

theorem slice?_sliceStr (s : Slice) (hs : s.Canonical) (rest : List Char) :
    slice? (sliceStr s ++ rest) = some (s, rest) := by
  have hb : ∀ x ∈ sliceBody s, (x != ']') = true := by
    intro x hx
    rcases sliceBody_chars s x hx with h | h
    · simpa using intChar_ne_close h
    · subst h; decide
  have e : sliceStr s ++ rest = '[' :: (sliceBody s ++ ']' :: rest) := by
    rw [sliceStr_eq]; simp
  rw [e, slice?_bracket, dropWhile_append_stop _ _ _ hb (by decide), takeWhile_append_stop _ _ _ hb (by decide)]
  simp [sliceOfBody_sliceBody s hs]

/-! ### components -/

def compStr (c : Comp) : List Char := c.sep :: (c.id ++ sliceStr c.slice)

theorem print_eq (p : Path) :
    print p = (match p.subset with | none => [] | some s => '@' :: sliceStr s) ++ p.comps.flatMap compStr := rfl

def CompOk (c : Comp) : Prop := isSep c.sep = true ∧ idOk c.id ∧ c.slice.Canonical

theorem flatMap_compStr_length (l : List Comp) : l.length ≤ (l.flatMap compStr).length := by
  induction l with
  | nil => simp
  | cons c l ih => simp only [List.flatMap_cons, List.length_append, List.length_cons, compStr]; omega

theorem comps?_flatMap (l : List Comp) : ∀ (fuel : Nat), l.length ≤ fuel → l ≠ [] → (∀ c ∈ l, CompOk c) →
    comps? fuel (l.flatMap compStr) = some l := by
  induction l with
  | nil => intro _ _ h; exact absurd rfl h
  | cons c more ih =>
    intro fuel hlen _ hok
    obtain ⟨hsep, ⟨hidne, hidc⟩, hcan⟩ := hok c (by simp)
    cases fuel with
    | zero => simp at hlen
    | succ f =>
      have e : (c :: more).flatMap compStr = c.sep :: (c.id ++ '[' :: (sliceBody c.slice ++ ']' :: more.flatMap compStr)) := by
        simp [List.flatMap_cons, compStr, sliceStr_eq]
      have e2 : '[' :: (sliceBody c.slice ++ ']' :: more.flatMap compStr) = sliceStr c.slice ++ more.flatMap compStr := by
        simp [sliceStr_eq]
      have hp : ∀ x ∈ c.id, (fun c => !isSpecial c) x = true := by
        intro x hx; simp [(hidc x hx).1]
      rw [e, comps?_succ _ _ _ hsep, takeWhile_append_stop _ _ _ hp (by decide),
        dropWhile_append_stop _ _ _ hp (by decide)]
      unfold compSpec
      simp only [hidne, if_false, if_true]
      rw [e2, slice?_sliceStr _ hcan]
      simp only
      cases more with
      | nil => simp
      | cons c2 more2 =>
        have hne : (c2 :: more2).flatMap compStr ≠ [] := by simp [List.flatMap_cons, compStr]
        simp only [hne, if_false]
        rw [ih f (by simp at hlen ⊢; omega) (by simp) (fun x hx => hok x (by simp [hx]))]
        rfl

/-! ### the whole path -/

theorem sliceStr_noWs (s : Slice) : ∀ c ∈ sliceStr s, isWs c = false := by
  intro c hc
  rw [sliceStr_eq] at hc
  simp only [List.mem_cons, List.mem_append, List.not_mem_nil, or_false] at hc
  rcases hc with hc | hc | hc
  · subst hc; decide
  · rcases sliceBody_chars s c hc with h | h
    · exact isIntChar_not_ws c h
    · subst h; decide
  · subst hc; decide

theorem compStr_noWs (c : Comp) (h : CompOk c) : ∀ x ∈ compStr c, isWs x = false := by
  intro x hx
  simp only [compStr, List.mem_cons, List.mem_append] at hx
  rcases hx with hx | hx | hx
  · subst hx; exact isSep_not_ws h.1
  · exact (h.2.1.2 x hx).2
  · exact sliceStr_noWs _ x hx

theorem recognise_print (p : Path) (h : p.Canonical) : recognise (print p) = some p := by
  obtain ⟨⟨s, hsub, hscan⟩, hne, hok, hhead⟩ := h
  obtain ⟨sub, comps⟩ := p
  simp only at hsub hne hok hhead
  subst hsub
  have hok' : ∀ c ∈ comps, CompOk c := hok
  have hnows : ∀ x ∈ print { subset := some s, comps := comps }, isWs x = false := by
    intro x hx
    rw [print_eq] at hx
    simp only [List.mem_append, List.mem_cons, List.mem_flatMap] at hx
    rcases hx with (hx | hx) | ⟨c, hc, hx⟩
    · subst hx; decide
    · exact sliceStr_noWs s x hx
    · exact compStr_noWs c (hok' c hc) x hx
  have hfil : (print { subset := some s, comps := comps }).filter (fun c => !isWs c) = print { subset := some s, comps := comps } := by
    rw [List.filter_eq_self]
    intro x hx
    simp [hnows x hx]
  unfold recognise
  rw [hfil, print_eq]
  simp only [List.cons_append, recogniseNoWs]
  have h1 : firstOk '@' = true := by decide
  simp only [h1, Bool.not_true, Bool.false_eq_true, if_false, beq_self_eq_true, if_true]
  rw [slice?_sliceStr s hscan]
  simp only
  cases comps with
  | nil => exact absurd rfl hne
  | cons c more =>
    have hdot : c.sep ≠ '.' := hhead c rfl
    have hdot' : (c.sep == '.') = false := by simpa using hdot
    have e : (c :: more).flatMap compStr = c.sep :: (c.id ++ sliceStr c.slice ++ more.flatMap compStr) := by
      simp [List.flatMap_cons, compStr]
    rw [e]
    simp only [hdot', Bool.false_eq_true, if_false]
    rw [← e, comps?_flatMap (c :: more) _ (by have := flatMap_compStr_length (c :: more); omega) (by simp) hok']
    rfl

end Bufr.PathLang
