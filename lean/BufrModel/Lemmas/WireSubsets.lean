/-
  `List.mapM` in `Except Err`, element-wise, in the forms the per-subset theorems of C06 (`Props/C06Wire.lean`) use:
  success as a list of (input, output) pairs, failure as "the first failing element".
-/
import BufrModel.View.Wire
namespace Bufr

/-! ### `mapM` in `Except`, as lists of (input, output) pairs -/

theorem c06_mapM_of_pairs {α β : Type} (f : α → CM β) :
    ∀ (ps : List (α × β)), (∀ p ∈ ps, f p.1 = .ok p.2) →
      List.mapM (m := Except Err) f (ps.map (·.1)) = .ok (ps.map (·.2))
  | [], _ => rfl
  | p :: ps, h => by
    rw [List.map_cons, List.mapM_cons, h p (by simp), c06_mapM_of_pairs f ps (fun q hq => h q (by simp [hq]))]
    rfl

theorem c06_mapM_pairs {α β : Type} (f : α → CM β) :
    ∀ (l : List α) (r : List β), List.mapM (m := Except Err) f l = .ok r →
      ∃ ps : List (α × β), ps.map (·.1) = l ∧ ps.map (·.2) = r ∧ ∀ p ∈ ps, f p.1 = .ok p.2
  | [], r, h => by cases h; exact ⟨[], rfl, rfl, fun _ hp => by cases hp⟩
  | x :: xs, r, h => by
    rw [List.mapM_cons] at h
    cases hx : f x with
    | error e => rw [hx] at h; cases h
    | ok b =>
      rw [hx] at h
      cases hxs : List.mapM (m := Except Err) f xs with
      | error e => rw [hxs] at h; cases h
      | ok bs =>
        rw [hxs] at h
        cases h
        obtain ⟨ps, h1, h2, h3⟩ := c06_mapM_pairs f xs bs hxs
        refine ⟨(x, b) :: ps, by simp [h1], by simp [h2], ?_⟩
        intro p hp
        rcases List.mem_cons.mp hp with rfl | hp
        · exact hx
        · exact h3 p hp

/-- the first failure aborts: an error of the whole is the error of some element, and everything in front of that
    element succeeds -/
theorem c06_mapM_error {α β : Type} (f : α → CM β) :
    ∀ (l : List α) (e : Err), List.mapM (m := Except Err) f l = .error e →
      ∃ pre x post, l = pre ++ x :: post ∧ f x = .error e ∧ ∀ a ∈ pre, ∃ b, f a = .ok b
  | [], e, h => by cases h
  | x :: xs, e, h => by
    rw [List.mapM_cons] at h
    cases hx : f x with
    | error e' =>
      rw [hx] at h
      cases h
      exact ⟨[], x, xs, rfl, hx, fun _ ha => by cases ha⟩
    | ok b =>
      rw [hx] at h
      cases hxs : List.mapM (m := Except Err) f xs with
      | ok bs => rw [hxs] at h; cases h
      | error e' =>
        rw [hxs] at h
        cases h
        obtain ⟨pre, y, post, h1, h2, h3⟩ := c06_mapM_error f xs _ hxs
        refine ⟨x :: pre, y, post, by simp [h1], h2, ?_⟩
        intro a ha
        rcases List.mem_cons.mp ha with rfl | ha
        · exact ⟨b, hx⟩
        · exact h3 a ha

theorem c06_mapM_error_of {α β : Type} (f : α → CM β) (pre : List α) (x : α) (post : List α) (e : Err)
    (hpre : ∀ a ∈ pre, ∃ b, f a = .ok b) (hx : f x = .error e) :
    List.mapM (m := Except Err) f (pre ++ x :: post) = .error e := by
  induction pre with
  | nil => rw [List.nil_append, List.mapM_cons, hx]; rfl
  | cons a pre ih =>
    obtain ⟨b, hb⟩ := hpre a (by simp)
    rw [List.cons_append, List.mapM_cons, hb, ih (fun a' ha' => hpre a' (by simp [ha']))]
    rfl

end Bufr
